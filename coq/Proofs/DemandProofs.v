(* Proofs about the demand model (property C14). *)
From Coq Require Import List ZArith Bool Arith Lia ZifyNat.
From Vy Require Import Model.Demand.
Import ListNotations.

(* ---- lists and prefixes --------------------------------------------------- *)
Lemma seq_as_map a b : seq a b = map (fun j => a + j) (seq 0 b).
Proof.
  revert a. induction b as [|b IH]; intro a; [reflexivity|].
  change (seq a (S b)) with (a :: seq (S a) b). change (seq 0 (S b)) with (0 :: seq 1 b).
  rewrite <- (seq_shift b 0). simpl map. rewrite Nat.add_0_r. f_equal.
  rewrite map_map, (IH (S a)). apply map_ext. intro j. lia.
Qed.

Lemma prefix_S {A} (src : nat -> A) k : prefix src (S k) = prefix src k ++ [src k].
Proof. unfold prefix. rewrite seq_S, map_app. reflexivity. Qed.

Lemma prefix_length {A} (src : nat -> A) k : length (prefix src k) = k.
Proof. unfold prefix. rewrite map_length, seq_length. reflexivity. Qed.

Lemma prefix_ext {A} (f g : nat -> A) k : (forall i, i < k -> f i = g i) -> prefix f k = prefix g k.
Proof.
  intro H. unfold prefix. apply map_ext_in. intros i Hi. apply in_seq in Hi. apply H. lia.
Qed.

Lemma prefix_map {A B} (f : A -> B) (src : nat -> A) k : map f (prefix src k) = prefix (fun i => f (src i)) k.
Proof. unfold prefix. rewrite map_map. reflexivity. Qed.

Lemma prefix_app {A} (src : nat -> A) a b : prefix src (a + b) = prefix src a ++ prefix (fun j => src (a + j)) b.
Proof.
  unfold prefix. rewrite seq_app, map_app. f_equal. simpl.
  rewrite (seq_as_map a b), map_map. reflexivity.
Qed.

Lemma prefix_cons {A} (src : nat -> A) k : prefix src (S k) = src 0 :: prefix (fun j => src (S j)) k.
Proof. change (S k) with (1 + k). rewrite prefix_app. reflexivity. Qed.

Lemma firstn_prefix {A} (src : nat -> A) n k : n <= k -> firstn n (prefix src k) = prefix src n.
Proof.
  intro H. replace k with (n + (k - n)) by lia. rewrite prefix_app.
  rewrite firstn_app, prefix_length, Nat.sub_diag. simpl. rewrite app_nil_r.
  rewrite <- (prefix_length src n) at 1. apply firstn_all.
Qed.

Lemma list_is_prefix {A} (d : A) (l : list A) : l = prefix (fun i => nth i l d) (length l).
Proof.
  induction l as [|x l IH]; [reflexivity|].
  simpl length. rewrite prefix_cons. simpl. f_equal. exact IH.
Qed.

Lemma firstn_app_le {A} (l e : list A) n : n <= length l -> firstn n (l ++ e) = firstn n l.
Proof.
  intro H. rewrite firstn_app. replace (n - length l) with 0 by lia. simpl. apply app_nil_r.
Qed.

(* ---- feeding and tracing --------------------------------------------------- *)
Section General.
  Context {I O : Type}.
  Variable m : machine I O.

  Lemma feed_from_app p l1 l2 : feed_from m p (l1 ++ l2) = feed_from m (feed_from m p l1) l2.
  Proof. unfold feed_from. apply fold_left_app. Qed.

  Lemma feed_snoc l x : feed m (l ++ [x]) = feed_step m (feed m l) x.
  Proof. unfold feed. rewrite feed_from_app. reflexivity. Qed.

  Lemma trace_0 src : trace m src 0 = (init m, pre m).
  Proof. reflexivity. Qed.

  Lemma trace_S src k : trace m src (S k) = feed_step m (trace m src k) (src k).
  Proof. unfold trace. rewrite prefix_S. apply feed_snoc. Qed.

  Lemma feed_step_pair s acc x :
    feed_step m (s, acc) x = (fst (step m s x), acc ++ snd (step m s x)).
  Proof. unfold feed_step. simpl. destruct (step m s x); reflexivity. Qed.

  (* the accumulator only grows *)
  Lemma feed_from_acc l : forall s acc,
    feed_from m (s, acc) l = (fst (feed_from m (s, []) l), acc ++ snd (feed_from m (s, []) l)).
  Proof.
    induction l as [|x l IH]; intros s acc.
    - simpl. rewrite app_nil_r. reflexivity.
    - change (feed_from m (s, acc) (x :: l)) with (feed_from m (feed_step m (s, acc) x) l).
      change (feed_from m (s, []) (x :: l)) with (feed_from m (feed_step m (s, []) x) l).
      rewrite !feed_step_pair. simpl app.
      rewrite (IH _ (acc ++ snd (step m s x))). rewrite (IH _ (snd (step m s x))). simpl.
      rewrite app_assoc. reflexivity.
  Qed.

  Lemma feed_app_outs l1 l2 : exists e, snd (feed m (l1 ++ l2)) = snd (feed m l1) ++ e.
  Proof.
    unfold feed. rewrite feed_from_app.
    destruct (feed_from m (init m, pre m) l1) as [s acc]. rewrite feed_from_acc. simpl. eauto.
  Qed.

  Lemma trace_extends src k d : exists e, snd (trace m src (k + d)) = snd (trace m src k) ++ e.
  Proof. unfold trace. rewrite prefix_app. apply feed_app_outs. Qed.

  Lemma trace_length_mono src j k : j <= k -> length (snd (trace m src j)) <= length (snd (trace m src k)).
  Proof.
    intro H. replace k with (j + (k - j)) by lia.
    destruct (trace_extends src j (k - j)) as [e He]. rewrite He, app_length. lia.
  Qed.

  (* ---- the run loop --------------------------------------------------------- *)
  Definition ready src n k : bool :=
    (n <=? length (snd (trace m src k))) && warm m (fst (trace m src k)).

  Lemma run_loop_least src n : forall d k, ready src n (k + d) = true ->
    forall fuel, d <= fuel ->
    exists j, j <= d /\ ready src n (k + j) = true /\
              (forall i, k <= i < k + j -> ready src n i = false) /\
              run_loop m src n fuel (fst (trace m src k)) k (snd (trace m src k))
              = Done (firstn n (snd (trace m src (k + j)))) (k + j).
  Proof.
    induction d as [|d IH]; intros k Hr fuel Hf.
    - exists 0. rewrite Nat.add_0_r in *. repeat split; [lia|exact Hr|intros; lia|].
      unfold ready in Hr. destruct fuel; simpl; rewrite Hr; reflexivity.
    - destruct (ready src n k) eqn:Ek.
      + exists 0. rewrite Nat.add_0_r. repeat split; [lia|exact Ek|intros; lia|].
        unfold ready in Ek. destruct fuel; simpl; rewrite Ek; reflexivity.
      + destruct fuel as [|fuel]; [lia|].
        replace (k + S d) with (S k + d) in Hr by lia.
        destruct (IH (S k) Hr fuel ltac:(lia)) as (j & Hj & Hrj & Hmin & Hrun).
        exists (S j). replace (k + S j) with (S k + j) by lia.
        repeat split; [lia|exact Hrj| |].
        * intros i Hi. destruct (Nat.eq_dec i k) as [->|Hne]; [exact Ek|]. apply Hmin. lia.
        * simpl. unfold ready in Ek. rewrite Ek.
          rewrite trace_S in Hrun. unfold feed_step in Hrun.
          destruct (step m (fst (trace m src k)) (src k)) as [s' os]. exact Hrun.
  Qed.

  Lemma run_exact src n k :
    ready src n k = true -> (forall j, j < k -> ready src n j = false) ->
    exact m src n (firstn n (snd (trace m src k))) k.
  Proof.
    intros Hr Hmin fuel Hf. unfold run_until.
    destruct (run_loop_least src n k 0 Hr fuel Hf) as (j & Hj & Hrj & _ & Hrun).
    simpl in *. assert (j = k) as ->.
    { destruct (Nat.eq_dec j k) as [|Hne]; [assumption|]. rewrite Hmin in Hrj by lia. discriminate. }
    exact Hrun.
  Qed.

  (* nothing asked, nothing pulled (unless the constructor itself pulls) *)
  Lemma run_zero src : warm m (init m) = true -> exact m src 0 [] 0.
  Proof.
    intros Hw fuel _. unfold run_until. destruct fuel; simpl; rewrite Hw; reflexivity.
  Qed.

  (* a bound valid for every input gives a bound on the pulls of every run *)
  Lemma run_bounded f : bounded m f -> forall src n fuel, f n <= fuel ->
    exists k, k <= f n /\ run_until m src n fuel = Done (firstn n (snd (trace m src (f n)))) k.
  Proof.
    intros Hb src n fuel Hf.
    assert (Hr : ready src n (0 + f n) = true).
    { unfold ready, trace. destruct (Hb (prefix src (f n)) n) as [H1 H2]; [rewrite prefix_length; lia|].
      simpl. rewrite H2. apply Nat.leb_le in H1. rewrite H1. reflexivity. }
    destruct (run_loop_least src n (f n) 0 Hr fuel Hf) as (j & Hj & Hrj & _ & Hrun).
    exists j. split; [exact Hj|]. unfold run_until.
    change (fst (trace m src 0)) with (init m) in Hrun. change (snd (trace m src 0)) with (pre m) in Hrun.
    change (0 + j) with j in *.
    rewrite Hrun. f_equal.
    destruct (trace_extends src j (f n - j)) as [e He]. replace (j + (f n - j)) with (f n) in He by lia.
    rewrite He. symmetry. apply firstn_app_le.
    unfold ready in Hrj. apply andb_prop in Hrj. apply Nat.leb_le. tauto.
  Qed.

  Lemma bounded_from_trace (d : I) f :
    (forall src n k, f n <= k ->
       n <= length (snd (trace m src k)) /\ warm m (fst (trace m src k)) = true) ->
    bounded m f.
  Proof.
    intros H l n Hl. rewrite (list_is_prefix d l). apply (H _ n (length l) Hl).
  Qed.
End General.

(* ---- composition ------------------------------------------------------------ *)
Section Comp.
  Context {I M O : Type}.
  Variable m1 : machine I M.
  Variable m2 : machine M O.

  Lemma feed_comp l :
    feed (comp m1 m2) l =
    ((fst (feed m1 l), fst (feed m2 (snd (feed m1 l)))), snd (feed m2 (snd (feed m1 l)))).
  Proof.
    induction l as [|x l IH] using rev_ind.
    - reflexivity.
    - rewrite !feed_snoc. rewrite IH. rewrite feed_step_pair. simpl fst. simpl snd.
      destruct (feed m1 l) as [s1 o1]. rewrite feed_step_pair. simpl fst. simpl snd.
      destruct (step m1 s1 x) as [s1' os1]. simpl fst. simpl snd.
      assert (E : feed m2 (o1 ++ os1) = feed_from m2 (feed m2 o1) os1)
        by (unfold feed; apply feed_from_app).
      rewrite E. destruct (feed m2 o1) as [s2 o2]. simpl fst. simpl snd.
      rewrite (feed_from_acc m2 os1 s2 o2). reflexivity.
  Qed.

  Theorem comp_bounded f1 f2 : bounded m1 f1 -> bounded m2 f2 -> bounded (comp m1 m2) (fun n => f1 (f2 n)).
  Proof.
    intros H1 H2 l n Hl. rewrite feed_comp. simpl.
    destruct (H1 l (f2 n) Hl) as [Hlen1 Hw1].
    destruct (H2 (snd (feed m1 l)) n Hlen1) as [Hlen2 Hw2].
    rewrite Hw1, Hw2. split; [exact Hlen2|reflexivity].
  Qed.

  Theorem comp_lin_bounded a1 b1 a2 b2 :
    lin_bounded m1 a1 b1 -> lin_bounded m2 a2 b2 -> lin_bounded (comp m1 m2) (a1 * a2) (a1 * b2 + b1).
  Proof.
    intros H1 H2 l n Hl. apply (@comp_bounded (fun n => a1 * n + b1) (fun n => a2 * n + b2) H1 H2). simpl. lia.
  Qed.
End Comp.

(* ---- helpers to discharge [exact] ------------------------------------------- *)
Ltac Zify.zify_post_hook ::= Z.div_mod_to_equations.

Section Helpers.
  Context {I O : Type}.
  Variable m : machine I O.

  Lemma run_exact_pred src n k :
    (forall j, warm m (fst (trace m src j)) = true) ->
    n <= length (snd (trace m src k)) ->
    (k = 0 \/ length (snd (trace m src (k - 1))) < n) ->
    exact m src n (firstn n (snd (trace m src k))) k.
  Proof.
    intros Hw Hk Hp. apply run_exact.
    - unfold ready. rewrite Hw. apply Nat.leb_le in Hk. rewrite Hk. reflexivity.
    - intros j Hj. unfold ready. rewrite Hw, andb_true_r. apply Nat.leb_gt.
      destruct Hp as [->|Hp]; [lia|].
      pose proof (trace_length_mono m src j (k - 1) ltac:(lia)). lia.
  Qed.

  Lemma run_bounded_src src n b : ready m src n b = true -> forall fuel, b <= fuel ->
    exists k, k <= b /\ run_until m src n fuel = Done (firstn n (snd (trace m src b))) k.
  Proof.
    intros Hr fuel Hf.
    destruct (run_loop_least m src n b 0 Hr fuel Hf) as (j & Hj & Hrj & _ & Hrun).
    exists j. split; [exact Hj|]. unfold run_until.
    change (fst (trace m src 0)) with (init m) in Hrun. change (snd (trace m src 0)) with (pre m) in Hrun.
    change (0 + j) with j in *. rewrite Hrun. f_equal.
    destruct (trace_extends m src j (b - j)) as [e He]. replace (j + (b - j)) with b in He by lia.
    rewrite He. symmetry. apply firstn_app_le.
    unfold ready in Hrj. apply andb_prop in Hrj. apply Nat.leb_le. tauto.
  Qed.

  (* every pull yields at least one item: n pulls suffice for n items *)
  Lemma productive_length :
    (forall s x, 1 <= length (snd (step m s x))) ->
    forall l p, length (snd p) + length l <= length (snd (feed_from m p l)).
  Proof.
    intros Hp l. induction l as [|x l IH]; intro p; [simpl; lia|].
    change (feed_from m p (x :: l)) with (feed_from m (feed_step m p x) l).
    specialize (IH (feed_step m p x)). destruct p as [s acc]. rewrite feed_step_pair in *.
    simpl in *. rewrite app_length in IH. specialize (Hp s x). lia.
  Qed.

  Lemma productive_bounded :
    (forall s x, 1 <= length (snd (step m s x))) -> (forall s, warm m s = true) ->
    lin_bounded m 1 0.
  Proof.
    intros Hp Hw l n Hl. split; [|apply Hw].
    pose proof (productive_length Hp l (init m, pre m)). unfold feed. simpl in *. lia.
  Qed.
End Helpers.

(* ---- one output per pull: map, zip, enumerate, append, vectorised arithmetic ---- *)
Section Imap.
  Context {I O : Type}.
  Variable g : nat -> I -> O.

  Lemma trace_imap src k : trace (m_imap g) src k = (k, prefix (fun i => g i (src i)) k).
  Proof.
    induction k as [|k IH]; [reflexivity|].
    rewrite trace_S, IH, feed_step_pair. simpl. rewrite prefix_S. reflexivity.
  Qed.

  Lemma imap_exact src n : exact (m_imap g) src n (prefix (fun i => g i (src i)) n) n.
  Proof.
    pose proof (run_exact_pred (m_imap g) src n n) as H.
    rewrite trace_imap in H. simpl in H. rewrite firstn_prefix in H by lia. apply H.
    - reflexivity.
    - rewrite prefix_length. lia.
    - destruct n; [left; reflexivity|right]. rewrite trace_imap. simpl. rewrite prefix_length. lia.
  Qed.

  Lemma imap_bounded (d : I) : lin_bounded (m_imap g) 1 0.
  Proof.
    apply (bounded_from_trace _ d). intros src n k Hk. rewrite trace_imap. simpl.
    rewrite prefix_length. split; [lia|reflexivity].
  Qed.
End Imap.

(* ---- at most one output per pull: filter, slice, every n-th, remove at, truthy ---- *)
Section Pick.
  Context {I O : Type}.
  Variable g : nat -> I -> option O.

  Lemma picks_S src k : picks g src (S k) = picks g src k ++ pick1 (g k (src k)).
  Proof. unfold picks. rewrite seq_S, flat_map_app. simpl. rewrite app_nil_r. reflexivity. Qed.

  Lemma trace_pick src k : trace (m_pick g) src k = (k, picks g src k).
  Proof.
    induction k as [|k IH]; [reflexivity|].
    rewrite trace_S, IH, feed_step_pair. simpl. rewrite picks_S. reflexivity.
  Qed.

  (* the (n+1)-th admissible item sits at position pos: exactly pos+1 pulls *)
  Lemma pick_exact src n pos o :
    g pos (src pos) = Some o -> length (picks g src pos) = n ->
    exact (m_pick g) src (S n) (picks g src (S pos)) (S pos).
  Proof.
    intros Hg Hn.
    pose proof (run_exact_pred (m_pick g) src (S n) (S pos)) as H.
    rewrite trace_pick in H. simpl fst in H. simpl snd in H.
    assert (Hlen : length (picks g src (S pos)) = S n).
    { rewrite picks_S, Hg, app_length. simpl. lia. }
    rewrite firstn_all2 in H by lia. apply H.
    - reflexivity.
    - lia.
    - right. simpl. rewrite Nat.sub_0_r, trace_pick. simpl. lia.
  Qed.

  Lemma picks_none src k : (forall i, i < k -> g i (src i) = None) -> picks g src k = [].
  Proof.
    induction k as [|k IH]; intro H; [reflexivity|].
    rewrite picks_S, IH, H by (intros; apply H || idtac; lia). reflexivity.
  Qed.

  Lemma picks_length_le src k : length (picks g src k) <= k.
  Proof.
    induction k as [|k IH]; [simpl; lia|].
    rewrite picks_S, app_length. destruct (g k (src k)); simpl; lia.
  Qed.
End Pick.

(* ---- any number of outputs per pull: interleave, insert at, flatten ------------- *)
Section Multi.
  Context {I O : Type}.
  Variable g : nat -> I -> list O.

  Lemma multis_S src k : multis g src (S k) = multis g src k ++ g k (src k).
  Proof. unfold multis. rewrite seq_S, flat_map_app. simpl. rewrite app_nil_r. reflexivity. Qed.

  Lemma trace_multi src k : trace (m_multi g) src k = (k, multis g src k).
  Proof.
    induction k as [|k IH]; [reflexivity|].
    rewrite trace_S, IH, feed_step_pair. simpl. rewrite multis_S. reflexivity.
  Qed.
End Multi.

(* ---- slice from an offset -------------------------------------------------------- *)
Section Slice.
  Context {I : Type}.

  Lemma picks_slice o (src : nat -> I) k :
    picks (fun i x => if i <? o then None else Some x) src k = prefix (fun j => src (o + j)) (k - o).
  Proof.
    induction k as [|k IH]; [reflexivity|].
    rewrite picks_S, IH. destruct (k <? o) eqn:E.
    - apply Nat.ltb_lt in E. replace (S k - o) with 0 by lia. replace (k - o) with 0 by lia. reflexivity.
    - apply Nat.ltb_ge in E. replace (S k - o) with (S (k - o)) by lia. rewrite prefix_S. simpl.
      replace (o + (k - o)) with k by lia. reflexivity.
  Qed.

  Lemma slice_exact o (src : nat -> I) n :
    exact (m_slice o) src (S n) (prefix (fun j => src (o + j)) (S n)) (S n + o).
  Proof.
    pose proof (pick_exact (fun i x => if i <? o then None else Some x) src n (o + n) (src (o + n))) as H.
    rewrite !picks_slice in H. replace (S (o + n) - o) with (S n) in H by lia.
    replace (S n + o) with (S (o + n)) by lia. apply H.
    - replace (o + n <? o) with false; [reflexivity|]. symmetry. apply Nat.ltb_ge. lia.
    - rewrite prefix_length. lia.
  Qed.

  Lemma slice_bounded (d : I) o : lin_bounded (@m_slice I o) 1 o.
  Proof.
    apply (bounded_from_trace _ d). intros src n k Hk. unfold m_slice. rewrite trace_pick. simpl.
    rewrite picks_slice, prefix_length. split; [lia|reflexivity].
  Qed.

  (* head_remove: the constructor's truth test pulls the first item even when nothing is asked *)
  Lemma trace_head_remove (src : nat -> I) k :
    trace m_head_remove src k = (k, prefix (fun j => src (1 + j)) (k - 1)).
  Proof.
    induction k as [|k IH]; [reflexivity|].
    rewrite trace_S, IH, feed_step_pair. simpl fst. simpl snd. simpl step. f_equal.
    change (snd (S k, pick1 (if k <? 1 then None else Some (src k)))) with (pick1 (if k <? 1 then None else Some (src k))).
    destruct (k <? 1) eqn:E.
    - apply Nat.ltb_lt in E. replace k with 0 by lia. reflexivity.
    - apply Nat.ltb_ge in E. replace (S k - 1) with (S (k - 1)) by lia. rewrite prefix_S. simpl.
      replace (S (k - 1)) with k by lia. reflexivity.
  Qed.

  Lemma head_remove_exact (src : nat -> I) n :
    exact m_head_remove src n (prefix (fun j => src (S j)) n) (S n).
  Proof.
    pose proof (run_exact m_head_remove src n (S n)) as H.
    rewrite trace_head_remove in H. simpl snd in H. replace (S n - 1) with n in H by lia.
    rewrite firstn_prefix in H by lia. apply H.
    - unfold ready. rewrite trace_head_remove. simpl. rewrite prefix_length, Nat.sub_0_r, Nat.leb_refl. reflexivity.
    - intros j Hj. unfold ready. rewrite trace_head_remove. simpl fst. simpl snd. rewrite prefix_length.
      simpl warm. destruct j as [|j]; [apply andb_false_r|].
      replace (n <=? S j - 1) with false; [reflexivity|]. symmetry. apply Nat.leb_gt. lia.
  Qed.

  Lemma head_remove_bounded (d : I) : lin_bounded (@m_head_remove I) 1 1.
  Proof.
    apply (bounded_from_trace _ d). intros src n k Hk. rewrite trace_head_remove. simpl.
    rewrite prefix_length. split; [lia|]. destruct k; [lia|reflexivity].
  Qed.
End Slice.

(* ---- every s-th item from offset a ------------------------------------------------ *)
Section Stride.
  Context {I : Type}.
  Definition stride_g (a s : nat) (i : nat) (x : I) : option I :=
    if (a <=? i) && ((i - a) mod s =? 0) then Some x else None.

  Lemma stride_hit a s n x : s <> 0 -> stride_g a s (a + s * n) x = Some x.
  Proof.
    intro Hs. unfold stride_g. replace (a <=? a + s * n) with true by (symmetry; apply Nat.leb_le; lia).
    replace (a + s * n - a) with (n * s) by lia. rewrite Nat.mod_mul by exact Hs. reflexivity.
  Qed.

  Lemma stride_miss a s n j x : 0 < j < s -> stride_g a s (a + s * n + j) x = None.
  Proof.
    intro Hj. unfold stride_g. replace (a + s * n + j - a) with (j + n * s) by lia.
    rewrite Nat.mod_add by lia. rewrite Nat.mod_small by lia.
    replace (j =? 0) with false by (symmetry; apply Nat.eqb_neq; lia). rewrite andb_false_r. reflexivity.
  Qed.

  Lemma picks_stride a s (src : nat -> I) n : s <> 0 ->
    picks (stride_g a s) src (a + s * n) = prefix (fun j => src (a + s * j)) n.
  Proof.
    intro Hs. induction n as [|n IH].
    - rewrite Nat.mul_0_r, Nat.add_0_r. apply picks_none. intros i Hi. unfold stride_g.
      replace (a <=? i) with false by (symmetry; apply Nat.leb_gt; lia). reflexivity.
    - (* the s positions after a + s*n: one hit, then s-1 misses *)
      assert (Hrun : forall d, d < s ->
                picks (stride_g a s) src (S (a + s * n + d)) = prefix (fun j => src (a + s * j)) (S n)).
      { induction d as [|d IHd]; intro Hd.
        - rewrite Nat.add_0_r, picks_S, IH, stride_hit by exact Hs. rewrite prefix_S. reflexivity.
        - rewrite picks_S. replace (S (a + s * n + d)) with (a + s * n + S d) by lia.
          rewrite stride_miss by lia. simpl. rewrite app_nil_r.
          replace (a + s * n + S d) with (S (a + s * n + d)) by lia. apply IHd. lia. }
      replace (a + s * S n) with (S (a + s * n + (s - 1))) by lia. apply Hrun. lia.
  Qed.

  Lemma stride_exact a s (src : nat -> I) n : s <> 0 ->
    exact (m_stride a s) src (S n) (prefix (fun j => src (a + s * j)) (S n)) (S (a + s * n)).
  Proof.
    intro Hs. change (m_stride a s) with (m_pick (stride_g a s)).
    pose proof (pick_exact (stride_g a s) src n (a + s * n) (src (a + s * n))) as H.
    rewrite picks_S, picks_stride, stride_hit in H by exact Hs. rewrite prefix_S. apply H.
    - reflexivity.
    - apply prefix_length.
  Qed.

  Lemma stride_bounded (d : I) a s : s <> 0 -> lin_bounded (@m_stride I a s) s a.
  Proof.
    intro Hs. apply (bounded_from_trace _ d). intros src n k Hk.
    change (m_stride a s) with (m_pick (stride_g a s)). rewrite trace_pick. simpl.
    split; [|reflexivity].
    pose proof (trace_length_mono (m_pick (stride_g a s)) src (a + s * n) k ltac:(lia)) as Hm.
    rewrite !trace_pick in Hm. simpl in Hm. rewrite picks_stride, prefix_length in Hm by exact Hs. exact Hm.
  Qed.
End Stride.

(* ---- remove the item at position p -------------------------------------------------- *)
Section RemoveAt.
  Context {I : Type}.
  Definition skip_at (p j : nat) : nat := if j <? p then j else S j.

  Lemma picks_remove_at p (src : nat -> I) k :
    picks (fun i x => if i =? p then None else Some x) src k
    = prefix (fun j => src (skip_at p j)) (if k <=? p then k else k - 1).
  Proof.
    induction k as [|k IH]; [reflexivity|].
    rewrite picks_S, IH. unfold skip_at.
    destruct (k =? p) eqn:E1.
    - apply Nat.eqb_eq in E1. subst k. rewrite Nat.leb_refl.
      replace (S p <=? p) with false by (symmetry; apply Nat.leb_gt; lia).
      simpl. rewrite app_nil_r, Nat.sub_0_r. reflexivity.
    - apply Nat.eqb_neq in E1. destruct (k <=? p) eqn:E2.
      + apply Nat.leb_le in E2. replace (S k <=? p) with true by (symmetry; apply Nat.leb_le; lia).
        rewrite prefix_S. replace (k <? p) with true by (symmetry; apply Nat.ltb_lt; lia). reflexivity.
      + apply Nat.leb_gt in E2. replace (S k <=? p) with false by (symmetry; apply Nat.leb_gt; lia).
        replace (S k - 1) with (S (k - 1)) by lia. rewrite prefix_S.
        replace (k - 1 <? p) with false by (symmetry; apply Nat.ltb_ge; lia).
        replace (S (k - 1)) with k by lia. reflexivity.
  Qed.

  Lemma remove_at_exact p (src : nat -> I) n :
    exact (m_remove_at p) src (S n) (prefix (fun j => src (skip_at p j)) (S n)) (S (skip_at p n)).
  Proof.
    pose proof (pick_exact (fun i (x : I) => if i =? p then None else Some x) src n (skip_at p n) (src (skip_at p n))) as H.
    rewrite !picks_remove_at in H. unfold skip_at in *.
    destruct (n <? p) eqn:E.
    - apply Nat.ltb_lt in E. replace (S n <=? p) with true in H by (symmetry; apply Nat.leb_le; lia).
      replace (n <=? p) with true in H by (symmetry; apply Nat.leb_le; lia).
      apply H; [|apply prefix_length].
      replace (n =? p) with false by (symmetry; apply Nat.eqb_neq; lia). reflexivity.
    - apply Nat.ltb_ge in E. replace (S (S n) <=? p) with false in H by (symmetry; apply Nat.leb_gt; lia).
      replace (S n <=? p) with false in H by (symmetry; apply Nat.leb_gt; lia).
      replace (S (S n) - 1) with (S n) in H by lia. replace (S n - 1) with n in H by lia.
      apply H; [|apply prefix_length].
      replace (S n =? p) with false by (symmetry; apply Nat.eqb_neq; lia). reflexivity.
  Qed.

  Lemma remove_at_bounded (d : I) p : lin_bounded (@m_remove_at I p) 1 1.
  Proof.
    apply (bounded_from_trace _ d). intros src n k Hk. unfold m_remove_at. rewrite trace_pick. simpl.
    rewrite picks_remove_at, prefix_length. split; [|reflexivity].
    destruct (k <=? p); lia.
  Qed.
End RemoveAt.

(* ---- filter, truthy indices: relative to the position of the admissible item ---------- *)
Section Filter.
  Context {I : Type}.

  Lemma picks_filter (p : I -> bool) src k :
    picks (fun _ x => if p x then Some x else None) src k = filter p (prefix src k).
  Proof.
    induction k as [|k IH]; [reflexivity|].
    rewrite picks_S, IH, prefix_S, filter_app. simpl. destruct (p (src k)); reflexivity.
  Qed.

  Lemma filter_exact (p : I -> bool) src n pos :
    p (src pos) = true -> length (filter p (prefix src pos)) = n ->
    exact (m_filter p) src (S n) (filter p (prefix src (S pos))) (S pos).
  Proof.
    intros Hp Hn. rewrite <- picks_filter. unfold m_filter.
    apply (pick_exact _ src n pos (src pos)).
    - rewrite Hp. reflexivity.
    - rewrite picks_filter. exact Hn.
  Qed.

  (* an admissible item in every block of d consecutive items: at most d*n pulls *)
  Lemma filter_dense_length (p : I -> bool) src d :
    (forall i, exists j, j < d /\ p (src (i + j)) = true) ->
    forall n, n <= length (filter p (prefix src (d * n))).
  Proof.
    intros Hd n. induction n as [|n IH]; [lia|].
    replace (d * S n) with (d * n + d) by lia. rewrite prefix_app, filter_app, app_length.
    destruct (Hd (d * n)) as (j & Hj & Hpj).
    assert (1 <= length (filter p (prefix (fun j0 => src (d * n + j0)) d))); [|lia].
    assert (Hin : In (src (d * n + j)) (filter p (prefix (fun j0 => src (d * n + j0)) d))).
    { apply filter_In. split; [|exact Hpj]. unfold prefix.
      apply (in_map (fun j0 => src (d * n + j0))). apply in_seq. lia. }
    destruct (filter p (prefix (fun j0 => src (d * n + j0)) d)); [destruct Hin|simpl; lia].
  Qed.

  Lemma filter_dense (p : I -> bool) src d n fuel :
    (forall i, exists j, j < d /\ p (src (i + j)) = true) -> d * n <= fuel ->
    exists k, k <= d * n /\
      run_until (m_filter p) src n fuel = Done (firstn n (filter p (prefix src (d * n)))) k.
  Proof.
    intros Hd Hf.
    destruct (run_bounded_src (m_filter p) src n (d * n)) with (fuel := fuel) as (k & Hk & Hrun); [|exact Hf|].
    - unfold ready, m_filter. rewrite trace_pick. simpl. rewrite picks_filter, andb_true_r.
      apply Nat.leb_le. apply filter_dense_length. exact Hd.
    - exists k. split; [exact Hk|]. rewrite Hrun. unfold m_filter. rewrite trace_pick. simpl.
      rewrite picks_filter. reflexivity.
  Qed.
End Filter.

Lemma truthy_exact (src : nat -> Z) n pos :
  src pos <> 0%Z -> length (picks (fun i x => if Z.eqb x 0 then None else Some i) src pos) = n ->
  exact m_truthy src (S n) (picks (fun i x => if Z.eqb x 0 then None else Some i) src (S pos)) (S pos).
Proof.
  intros Hp Hn. apply (pick_exact _ src n pos pos); [|exact Hn].
  destruct (Z.eqb_spec (src pos) 0); [contradiction|reflexivity].
Qed.

Lemma picks_truthy_is_filter (src : nat -> Z) k :
  picks (fun i x => if Z.eqb x 0 then None else Some i) src k
  = filter (fun i => negb (Z.eqb (src i) 0)) (seq 0 k).
Proof.
  induction k as [|k IH]; [reflexivity|].
  rewrite picks_S, IH, seq_S, filter_app. simpl. destruct (Z.eqb (src k) 0); reflexivity.
Qed.

Lemma truthy_indices_exact (src : nat -> Z) n pos :
  src pos <> 0%Z -> length (filter (fun i => negb (Z.eqb (src i) 0)) (seq 0 pos)) = n ->
  exact m_truthy src (S n) (filter (fun i => negb (Z.eqb (src i) 0)) (seq 0 (S pos))) (S pos).
Proof.
  rewrite <- !picks_truthy_is_filter. apply truthy_exact.
Qed.

(* ---- interleave with an infinite list ---------------------------------------------- *)
Section Interleave.
  Context {I : Type}.

  Lemma interleaved_even (a b : nat -> I) k : interleaved a b (2 * k) = a k.
  Proof.
    unfold interleaved. replace ((2 * k) mod 2) with 0 by lia. replace (2 * k / 2) with k by lia. reflexivity.
  Qed.
  Lemma interleaved_odd (a b : nat -> I) k : interleaved a b (S (2 * k)) = b k.
  Proof.
    unfold interleaved. replace ((S (2 * k)) mod 2) with 1 by lia. replace (S (2 * k) / 2) with k by lia. reflexivity.
  Qed.

  Lemma multis_interleave (other src : nat -> I) k :
    multis (fun i x => [x; other i]) src k = prefix (interleaved src other) (2 * k).
  Proof.
    induction k as [|k IH]; [reflexivity|].
    rewrite multis_S, IH. replace (2 * S k) with (S (S (2 * k))) by lia.
    rewrite !prefix_S, interleaved_even, interleaved_odd, <- app_assoc. reflexivity.
  Qed.

  (* source on the left: item 2i is source item i; n outputs need ceil(n/2) pulls *)
  Lemma interleave_exact (other src : nat -> I) n :
    exact (m_interleave other) src n (prefix (interleaved src other) n) ((n + 1) / 2).
  Proof.
    pose proof (run_exact_pred (m_interleave other) src n ((n + 1) / 2)) as H.
    unfold m_interleave in *. rewrite trace_multi in H. cbn [fst snd] in H.
    rewrite multis_interleave, firstn_prefix in H by lia. apply H.
    - reflexivity.
    - rewrite prefix_length. lia.
    - destruct n as [|n]; [left; reflexivity|right]. rewrite trace_multi. cbn [snd].
      rewrite multis_interleave, prefix_length. lia.
  Qed.

  Lemma interleave_bounded (other : nat -> I) : lin_bounded (m_interleave other) 1 0.
  Proof.
    apply productive_bounded; [|reflexivity]. intros s x. simpl. lia.
  Qed.

  (* source on the right: the other list's item comes first, for free *)
  Lemma trace_interleave_r (other src : nat -> I) k :
    trace (m_interleave_r other) src k = (k, prefix (interleaved other src) (S (2 * k))).
  Proof.
    induction k as [|k IH].
    - reflexivity.
    - rewrite trace_S, IH, feed_step_pair. simpl fst. cbn [snd]. f_equal.
      replace (2 * S k) with (S (S (2 * k))) by lia.
      rewrite (prefix_S _ (S (S (2 * k)))), (prefix_S _ (S (2 * k))).
      rewrite interleaved_odd. replace (S (S (2 * k))) with (2 * S k) by lia.
      rewrite interleaved_even, <- app_assoc. reflexivity.
  Qed.

  Lemma interleave_r_exact (other src : nat -> I) n :
    exact (m_interleave_r other) src n (prefix (interleaved other src) n) (n / 2).
  Proof.
    pose proof (run_exact_pred (m_interleave_r other) src n (n / 2)) as H.
    rewrite trace_interleave_r in H. cbn [fst snd] in H.
    rewrite firstn_prefix in H by lia. apply H.
    - reflexivity.
    - rewrite prefix_length. lia.
    - destruct (n / 2) as [|h] eqn:E; [left; reflexivity|right]. rewrite trace_interleave_r. cbn [snd].
      rewrite prefix_length. lia.
  Qed.

  Lemma interleave_r_bounded (other : nat -> I) : lin_bounded (m_interleave_r other) 1 0.
  Proof.
    apply productive_bounded; [|reflexivity]. intros s x. simpl. lia.
  Qed.

  Lemma interleave_fin_bounded (fin : list I) : lin_bounded (m_interleave_fin fin) 1 0.
  Proof.
    apply productive_bounded; [|reflexivity]. intros s x. simpl. destruct s; simpl; lia.
  Qed.

  Lemma insert_at_bounded p (v : I) : lin_bounded (m_insert_at p v) 1 0.
  Proof.
    apply productive_bounded; [|reflexivity]. intros s x. simpl. destruct (s =? p); simpl; lia.
  Qed.
End Interleave.

(* insert at p: the inserted value is yielded when item p is pulled *)
Section InsertAt.
  Context {I : Type}.
  Definition inserted (p : nat) (v : I) (src : nat -> I) (j : nat) : I :=
    if j <? p then src j else if j =? p then v else src (j - 1).

  Lemma multis_insert_at p v (src : nat -> I) k :
    multis (fun i x => if i =? p then [v; x] else [x]) src k
    = prefix (inserted p v src) (if k <=? p then k else S k).
  Proof.
    induction k as [|k IH]; [reflexivity|].
    rewrite multis_S, IH. unfold inserted. destruct (k =? p) eqn:E1.
    - apply Nat.eqb_eq in E1. subst k. rewrite Nat.leb_refl.
      replace (S p <=? p) with false by (symmetry; apply Nat.leb_gt; lia).
      rewrite !prefix_S, <- app_assoc. rewrite Nat.ltb_irrefl, Nat.eqb_refl.
      replace (S p <? p) with false by (symmetry; apply Nat.ltb_ge; lia).
      replace (S p =? p) with false by (symmetry; apply Nat.eqb_neq; lia).
      replace (S p - 1) with p by lia. reflexivity.
    - apply Nat.eqb_neq in E1. destruct (k <=? p) eqn:E2.
      + apply Nat.leb_le in E2. replace (S k <=? p) with true by (symmetry; apply Nat.leb_le; lia).
        rewrite prefix_S. replace (k <? p) with true by (symmetry; apply Nat.ltb_lt; lia). reflexivity.
      + apply Nat.leb_gt in E2. replace (S k <=? p) with false by (symmetry; apply Nat.leb_gt; lia).
        rewrite (prefix_S _ (S k)).
        replace (S k <? p) with false by (symmetry; apply Nat.ltb_ge; lia).
        replace (S k =? p) with false by (symmetry; apply Nat.eqb_neq; lia).
        replace (S k - 1) with k by lia. reflexivity.
  Qed.

  Lemma insert_at_exact p v (src : nat -> I) n :
    exact (m_insert_at p v) src n (prefix (inserted p v src) n) (if n <=? S p then n else n - 1).
  Proof.
    pose proof (run_exact_pred (m_insert_at p v) src n (if n <=? S p then n else n - 1)) as H.
    unfold m_insert_at in *. rewrite trace_multi in H. cbn [fst snd] in H.
    rewrite multis_insert_at in H.
    destruct (n <=? S p) eqn:E.
    - apply Nat.leb_le in E. rewrite firstn_prefix in H by (destruct (n <=? p); lia). apply H.
      + reflexivity.
      + rewrite prefix_length. destruct (n <=? p); lia.
      + destruct n as [|n]; [left; reflexivity|right]. rewrite trace_multi. cbn [snd].
        rewrite multis_insert_at, prefix_length.
        replace (S n - 1 <=? p) with true by (symmetry; apply Nat.leb_le; lia). lia.
    - apply Nat.leb_gt in E.
      replace (n - 1 <=? p) with false in H by (symmetry; apply Nat.leb_gt; lia).
      rewrite firstn_prefix in H by lia. apply H.
      + reflexivity.
      + rewrite prefix_length. lia.
      + right. rewrite trace_multi. cbn [snd]. rewrite multis_insert_at, prefix_length.
        destruct (n - 1 - 1 <=? p); lia.
  Qed.
End InsertAt.

(* ---- flatten one level: rows are pulled whole ---------------------------------------- *)
Section Flatten.
  Context {A : Type}.

  Lemma multis_flatten (src : nat -> list A) k : multis (fun _ x => x) src k = concat (prefix src k).
  Proof.
    induction k as [|k IH]; [reflexivity|].
    rewrite multis_S, IH, prefix_S, concat_app. simpl. rewrite app_nil_r. reflexivity.
  Qed.

  Lemma concat_nonempty_length (l : list (list A)) : (forall r, In r l -> r <> []) -> length l <= length (concat l).
  Proof.
    induction l as [|r l IH]; intro H; [simpl; lia|].
    simpl. rewrite app_length. specialize (IH (fun r' Hr' => H r' (or_intror Hr'))).
    assert (r <> []) by (apply H; left; reflexivity). destruct r; [contradiction|simpl; lia].
  Qed.

  (* no empty row: n items need at most n rows *)
  Lemma flatten_bound (src : nat -> list A) n fuel :
    (forall i, src i <> []) -> n <= fuel ->
    exists k, k <= n /\ run_until m_flatten src n fuel = Done (firstn n (concat (prefix src n))) k.
  Proof.
    intros Hne Hf.
    destruct (run_bounded_src m_flatten src n n) with (fuel := fuel) as (k & Hk & Hrun); [|exact Hf|].
    - unfold ready, m_flatten. rewrite trace_multi. simpl. rewrite multis_flatten, andb_true_r.
      apply Nat.leb_le. etransitivity; [|apply concat_nonempty_length].
      + rewrite prefix_length. lia.
      + intros r Hr. unfold prefix in Hr. apply in_map_iff in Hr. destruct Hr as (i & <- & _). apply Hne.
    - exists k. split; [exact Hk|]. rewrite Hrun. unfold m_flatten. rewrite trace_multi. simpl.
      rewrite multis_flatten. reflexivity.
  Qed.
End Flatten.

(* every pulled item yields at least one output: n outputs need at most n pulls
   (flatten_by with any depth, on a source without empty rows) *)
Section MultiBound.
  Context {I O : Type}.
  Variable g : nat -> I -> list O.

  Lemma multis_length_ge (src : nat -> I) k : (forall i, g i (src i) <> []) -> k <= length (multis g src k).
  Proof.
    intro H. induction k as [|k IH]; [simpl; lia|].
    rewrite multis_S, app_length. specialize (H k). destruct (g k (src k)); [contradiction|simpl; lia].
  Qed.

  Lemma multi_bound (src : nat -> I) n fuel :
    (forall i, g i (src i) <> []) -> n <= fuel ->
    exists k, k <= n /\ run_until (m_multi g) src n fuel = Done (firstn n (multis g src n)) k.
  Proof.
    intros Hne Hf.
    destruct (run_bounded_src (m_multi g) src n n) with (fuel := fuel) as (k & Hk & Hrun); [|exact Hf|].
    - unfold ready. rewrite trace_multi. simpl. rewrite andb_true_r. apply Nat.leb_le.
      apply multis_length_ge. exact Hne.
    - exists k. split; [exact Hk|]. rewrite Hrun, trace_multi. reflexivity.
  Qed.
End MultiBound.

(* ---- prepend / merge with a finite list on the left ----------------------------------- *)
Section Prepend.
  Context {I : Type}.

  Lemma trace_prepend_list (vs : list I) src k : trace (m_prepend_list vs) src k = (tt, vs ++ prefix src k).
  Proof.
    induction k as [|k IH]; [unfold trace, feed; simpl; rewrite app_nil_r; reflexivity|].
    rewrite trace_S, IH, feed_step_pair. simpl. rewrite prefix_S, app_assoc. reflexivity.
  Qed.

  Lemma prepend_list_exact (vs : list I) src n :
    exact (m_prepend_list vs) src n (firstn n (vs ++ prefix src (n - length vs))) (n - length vs).
  Proof.
    pose proof (run_exact_pred (m_prepend_list vs) src n (n - length vs)) as H.
    rewrite trace_prepend_list in H. cbn [fst snd] in H. apply H.
    - reflexivity.
    - rewrite app_length, prefix_length. lia.
    - destruct (n - length vs) as [|h] eqn:E; [left; reflexivity|right]. rewrite trace_prepend_list. cbn [snd].
      rewrite app_length, prefix_length. lia.
  Qed.

  Lemma prepend_exact (v : I) src n :
    exact (m_prepend v) src (S n) (v :: prefix src n) n.
  Proof.
    pose proof (prepend_list_exact [v] src (S n)) as H. simpl length in H.
    replace (S n - 1) with n in H by lia.
    change ([v] ++ prefix src n) with (v :: prefix src n) in H.
    rewrite firstn_cons, firstn_prefix in H by lia. exact H.
  Qed.

  Lemma prepend_list_bounded (vs : list I) : lin_bounded (m_prepend_list vs) 1 0.
  Proof.
    apply productive_bounded; [|reflexivity]. intros s x. simpl. lia.
  Qed.
End Prepend.

(* ---- prefixes ---------------------------------------------------------------------- *)
Section Prefixes.
  Context {I : Type}.

  Lemma trace_prefixes (src : nat -> I) k :
    trace m_prefixes src k = (prefix src k, prefix (fun i => prefix src (S i)) k).
  Proof.
    induction k as [|k IH]; [reflexivity|].
    rewrite trace_S, IH, feed_step_pair. simpl. rewrite <- prefix_S. rewrite (prefix_S (fun i => prefix src (S i))).
    reflexivity.
  Qed.

  Lemma prefixes_exact (src : nat -> I) n :
    exact m_prefixes src n (prefix (fun i => prefix src (S i)) n) n.
  Proof.
    pose proof (run_exact_pred m_prefixes src n n) as H.
    rewrite trace_prefixes in H. cbn [fst snd] in H. rewrite firstn_prefix in H by lia. apply H.
    - reflexivity.
    - rewrite prefix_length. lia.
    - destruct n; [left; reflexivity|right]. rewrite trace_prefixes. cbn [snd]. rewrite prefix_length. lia.
  Qed.

  Lemma prefixes_bounded : lin_bounded (@m_prefixes I) 1 0.
  Proof.
    apply productive_bounded; [|reflexivity]. intros s x. simpl. lia.
  Qed.
End Prefixes.

(* ---- cumulative reduction (scanl): one item of look-ahead ---------------------------- *)
Section Scanl.
  Context {A : Type}.
  Variable f : A -> A -> A.

  Lemma partial_S (src : nat -> A) k : partial f src (S k) = f (partial f src k) (src (S k)).
  Proof. unfold partial. rewrite seq_S, map_app, fold_left_app. reflexivity. Qed.

  Lemma trace_scanl (src : nat -> A) k :
    trace (m_scanl f) src (S k) = (Some (partial f src k), prefix (partial f src) k).
  Proof.
    induction k as [|k IH]; [reflexivity|].
    rewrite trace_S, IH, feed_step_pair. simpl. rewrite partial_S, (prefix_S (partial f src)). reflexivity.
  Qed.

  Lemma scanl_exact (src : nat -> A) n :
    exact (m_scanl f) src (S n) (prefix (partial f src) (S n)) (S (S n)).
  Proof.
    pose proof (run_exact_pred (m_scanl f) src (S n) (S (S n))) as H.
    rewrite trace_scanl in H. cbn [fst snd] in H. rewrite firstn_prefix in H by lia. apply H.
    - reflexivity.
    - rewrite prefix_length. lia.
    - right. replace (S (S n) - 1) with (S n) by lia. rewrite trace_scanl. cbn [snd]. rewrite prefix_length. lia.
  Qed.

  Lemma scanl_bounded (d : A) : lin_bounded (m_scanl f) 1 1.
  Proof.
    apply (bounded_from_trace _ d). intros src n k Hk. split; [|reflexivity].
    destruct k as [|k]; [lia|]. rewrite trace_scanl. cbn [snd]. rewrite prefix_length. lia.
  Qed.
End Scanl.

Lemma fold_left_add_sum (l : list Z) (a : Z) : fold_left Z.add l a = (a + fold_right Z.add 0 l)%Z.
Proof.
  revert a. induction l as [|x l IH]; intro a; simpl; [lia|]. rewrite IH. lia.
Qed.

(* the i-th cumulative sum is the sum of the first i+1 items *)
Lemma partial_add_is_sum (src : nat -> Z) i : partial Z.add src i = fold_right Z.add 0%Z (prefix src (S i)).
Proof.
  unfold partial. rewrite fold_left_add_sum, prefix_cons. simpl. f_equal.
  unfold prefix. rewrite <- seq_shift, map_map. reflexivity.
Qed.

Lemma cumsum_exact (src : nat -> Z) n :
  exact m_cumsum src (S n) (prefix (fun i => fold_right Z.add 0%Z (prefix src (S i))) (S n)) (S (S n)).
Proof.
  rewrite <- (prefix_ext (partial Z.add src) _ (S n) (fun i _ => partial_add_is_sum src i)).
  apply scanl_exact.
Qed.

(* ---- deltas and other functions of two neighbouring items ------------------------------ *)
Section Pairwise.
  Context {I O : Type}.
  Variable g : I -> I -> O.

  Lemma trace_pairwise (src : nat -> I) k :
    trace (m_pairwise g) src (S k) = (Some (src k), prefix (fun i => g (src i) (src (S i))) k).
  Proof.
    induction k as [|k IH]; [reflexivity|].
    rewrite trace_S, IH, feed_step_pair. simpl. rewrite (prefix_S (fun i => g (src i) (src (S i)))). reflexivity.
  Qed.

  Lemma pairwise_exact (src : nat -> I) n :
    exact (m_pairwise g) src (S n) (prefix (fun i => g (src i) (src (S i))) (S n)) (S (S n)).
  Proof.
    pose proof (run_exact_pred (m_pairwise g) src (S n) (S (S n))) as H.
    rewrite trace_pairwise in H. cbn [fst snd] in H. rewrite firstn_prefix in H by lia. apply H.
    - reflexivity.
    - rewrite prefix_length. lia.
    - right. replace (S (S n) - 1) with (S n) by lia. rewrite trace_pairwise. cbn [snd]. rewrite prefix_length. lia.
  Qed.

  Lemma pairwise_bounded (d : I) : lin_bounded (m_pairwise g) 1 1.
  Proof.
    apply (bounded_from_trace _ d). intros src n k Hk. split; [|reflexivity].
    destruct k as [|k]; [lia|]. rewrite trace_pairwise. cbn [snd]. rewrite prefix_length. lia.
  Qed.
End Pairwise.

(* ---- overlapping windows of k = S k' items ---------------------------------------------- *)
Section Windows.
  Context {I : Type}.
  Variable k' : nat.

  Lemma trace_windows_fill (src : nat -> I) m : m <= k' ->
    trace (m_windows (S k')) src m = (prefix src m, []).
  Proof.
    induction m as [|m IH]; intro Hm; [reflexivity|].
    rewrite trace_S, IH, feed_step_pair by lia. cbn [fst snd m_windows step].
    rewrite <- prefix_S, prefix_length.
    replace (S m =? S k') with false by (symmetry; apply Nat.eqb_neq; lia). reflexivity.
  Qed.

  Lemma tl_prefix (f : nat -> I) a : tl (prefix f (S a)) = prefix (fun j => f (S j)) a.
  Proof. rewrite prefix_cons. reflexivity. Qed.

  Lemma trace_windows (src : nat -> I) d :
    trace (m_windows (S k')) src (S k' + d)
    = (prefix (fun j => src (S d + j)) k', prefix (window src (S k')) (S d)).
  Proof.
    induction d as [|d IH].
    - rewrite Nat.add_0_r, trace_S, trace_windows_fill, feed_step_pair by lia.
      cbn [fst snd m_windows step]. rewrite <- prefix_S, prefix_length, Nat.eqb_refl, tl_prefix. reflexivity.
    - replace (S k' + S d) with (S (S k' + d)) by lia.
      rewrite trace_S, IH, feed_step_pair. cbn [fst snd m_windows step].
      assert (E : prefix (fun j => src (S d + j)) k' ++ [src (S k' + d)] = window src (S k') (S d)).
      { unfold window. rewrite prefix_S. replace (S k' + d) with (S d + k') by lia. reflexivity. }
      rewrite E.
      assert (L : length (window src (S k') (S d)) = S k') by (unfold window; apply prefix_length).
      rewrite L, Nat.eqb_refl. cbn [fst snd]. f_equal.
      + unfold window. rewrite tl_prefix. apply prefix_ext. intros i _. f_equal. lia.
      + rewrite (prefix_S (window src (S k')) (S d)). reflexivity.
  Qed.

  Lemma windows_exact (src : nat -> I) n :
    exact (m_windows (S k')) src (S n) (prefix (window src (S k')) (S n)) (S k' + n).
  Proof.
    pose proof (run_exact_pred (m_windows (S k')) src (S n) (S k' + n)) as H.
    rewrite trace_windows in H. cbn [fst snd] in H. rewrite firstn_prefix in H by lia. apply H.
    - reflexivity.
    - rewrite prefix_length. lia.
    - right. destruct n as [|n].
      + replace (S k' + 0 - 1) with k' by lia. rewrite trace_windows_fill by lia. simpl. lia.
      + replace (S k' + S n - 1) with (S k' + n) by lia. rewrite trace_windows. cbn [snd]. rewrite prefix_length. lia.
  Qed.

  Lemma windows_bounded (d : I) : lin_bounded (@m_windows I (S k')) 1 k'.
  Proof.
    apply (bounded_from_trace _ d). intros src n k Hk. split; [|reflexivity].
    destruct n as [|n]; [lia|].
    replace k with (S k' + (k - S k')) by lia. rewrite trace_windows. cbn [snd]. rewrite prefix_length. lia.
  Qed.
End Windows.

(* ---- chunks of k = S k' items ------------------------------------------------------------- *)
Section Chunks.
  Context {I : Type}.
  Variable k' : nat.

  Lemma trace_chunks_row (src : nat -> I) q :
    trace (m_chunks (S k')) src (q * S k') = ([], prefix (chunk src (S k')) q) ->
    forall r, r <= k' ->
    trace (m_chunks (S k')) src (q * S k' + r)
    = (prefix (fun j => src (q * S k' + j)) r, prefix (chunk src (S k')) q).
  Proof.
    intros Hq r. induction r as [|r IH]; intro Hr.
    - rewrite Nat.add_0_r. exact Hq.
    - replace (q * S k' + S r) with (S (q * S k' + r)) by lia.
      rewrite trace_S, IH, feed_step_pair by lia. cbn [fst snd m_chunks step].
      rewrite <- (prefix_S (fun j => src (q * S k' + j))), prefix_length.
      replace (S r =? S k') with false by (symmetry; apply Nat.eqb_neq; lia).
      rewrite app_nil_r. reflexivity.
  Qed.

  Lemma trace_chunks_full (src : nat -> I) q :
    trace (m_chunks (S k')) src (q * S k') = ([], prefix (chunk src (S k')) q).
  Proof.
    induction q as [|q IH]; [reflexivity|].
    replace (S q * S k') with (S (q * S k' + k')) by lia.
    rewrite trace_S, (trace_chunks_row src q IH k') by lia.
    rewrite feed_step_pair. cbn [fst snd m_chunks step].
    rewrite <- (prefix_S (fun j => src (q * S k' + j))), prefix_length, Nat.eqb_refl.
    rewrite (prefix_S (chunk src (S k'))). reflexivity.
  Qed.

  Lemma trace_chunks (src : nat -> I) q r : r <= k' ->
    trace (m_chunks (S k')) src (q * S k' + r)
    = (prefix (fun j => src (q * S k' + j)) r, prefix (chunk src (S k')) q).
  Proof. apply trace_chunks_row. apply trace_chunks_full. Qed.

  Lemma chunks_exact (src : nat -> I) n :
    exact (m_chunks (S k')) src (S n) (prefix (chunk src (S k')) (S n)) (S n * S k').
  Proof.
    pose proof (run_exact_pred (m_chunks (S k')) src (S n) (S n * S k')) as H.
    rewrite trace_chunks_full in H. cbn [fst snd] in H. rewrite firstn_prefix in H by lia. apply H.
    - reflexivity.
    - rewrite prefix_length. lia.
    - right. replace (S n * S k' - 1) with (n * S k' + k') by lia.
      rewrite trace_chunks by lia. cbn [snd]. rewrite prefix_length. lia.
  Qed.

  Lemma chunks_bounded (d : I) : lin_bounded (@m_chunks I (S k')) (S k') 0.
  Proof.
    apply (bounded_from_trace _ d). intros src n k Hk. split; [|reflexivity].
    pose proof (trace_length_mono (m_chunks (S k')) src (n * S k') k ltac:(lia)) as Hm.
    rewrite trace_chunks_full in Hm. cbn [snd] in Hm. rewrite prefix_length in Hm. exact Hm.
  Qed.
End Chunks.

(* ---- uniquify: relative to the position of the new item -------------------------------------- *)
Section Uniquify.
  Context {I : Type}.
  Variable eqb : I -> I -> bool.

  Lemma uniq_snoc l x :
    uniq eqb (l ++ [x]) = if existsb (eqb x) (uniq eqb l) then uniq eqb l else uniq eqb l ++ [x].
  Proof. unfold uniq. rewrite rev_unit. reflexivity. Qed.

  Lemma trace_uniquify (src : nat -> I) k :
    trace (m_uniquify eqb) src k = (uniq eqb (prefix src k), uniq eqb (prefix src k)).
  Proof.
    induction k as [|k IH]; [reflexivity|].
    rewrite trace_S, IH, feed_step_pair. cbn [fst snd m_uniquify step].
    rewrite prefix_S, uniq_snoc. destruct (existsb (eqb (src k)) (uniq eqb (prefix src k))); simpl.
    - rewrite app_nil_r. reflexivity.
    - reflexivity.
  Qed.

  Lemma uniquify_exact (src : nat -> I) n pos :
    existsb (eqb (src pos)) (uniq eqb (prefix src pos)) = false ->
    length (uniq eqb (prefix src pos)) = n ->
    exact (m_uniquify eqb) src (S n) (uniq eqb (prefix src (S pos))) (S pos).
  Proof.
    intros Hnew Hn.
    pose proof (run_exact_pred (m_uniquify eqb) src (S n) (S pos)) as H.
    rewrite trace_uniquify in H. cbn [fst snd] in H.
    assert (Hlen : length (uniq eqb (prefix src (S pos))) = S n).
    { rewrite prefix_S, uniq_snoc, Hnew, app_length. simpl. lia. }
    rewrite firstn_all2 in H by lia. apply H.
    - reflexivity.
    - lia.
    - right. replace (S pos - 1) with pos by lia. rewrite trace_uniquify. cbn [snd]. lia.
  Qed.

  (* no item equals an earlier one: uniquify is the identity and pulls exactly n *)
  Lemma uniq_distinct (src : nat -> I) k :
    (forall i j, i < j -> eqb (src j) (src i) = false) -> uniq eqb (prefix src k) = prefix src k.
  Proof.
    intro Hd. induction k as [|k IH]; [reflexivity|].
    rewrite prefix_S, uniq_snoc, IH.
    replace (existsb (eqb (src k)) (prefix src k)) with false; [reflexivity|].
    symmetry. apply not_true_is_false. intro Hex. apply existsb_exists in Hex.
    destruct Hex as (y & Hy & Heq). unfold prefix in Hy. apply in_map_iff in Hy.
    destruct Hy as (i & <- & Hi). apply in_seq in Hi. rewrite Hd in Heq by lia. discriminate.
  Qed.

  Lemma uniquify_distinct_exact (src : nat -> I) n :
    (forall i j, i < j -> eqb (src j) (src i) = false) ->
    exact (m_uniquify eqb) src n (prefix src n) n.
  Proof.
    intro Hd. destruct n as [|n]; [apply run_zero; reflexivity|].
    pose proof (uniquify_exact src n n) as H. rewrite !uniq_distinct in H by exact Hd. apply H.
    - apply not_true_is_false. intro Hex. apply existsb_exists in Hex.
      destruct Hex as (y & Hy & Heq). unfold prefix in Hy. apply in_map_iff in Hy.
      destruct Hy as (i & <- & Hi). apply in_seq in Hi. rewrite Hd in Heq by lia. discriminate.
    - apply prefix_length.
  Qed.

  (* uniquify never invents or repeats items *)
  Lemma uniq_rev_incl r x : In x (uniq_rev eqb r) -> In x r.
  Proof.
    induction r as [|y r IH]; simpl; [tauto|].
    destruct (existsb (eqb y) (uniq_rev eqb r)); intro H.
    - right. apply IH. exact H.
    - apply in_app_or in H. destruct H as [H|[H|[]]]; [right; apply IH; exact H|left; exact H].
  Qed.
End Uniquify.

(* ---- group consecutive, on a source whose neighbours differ ------------------------------------ *)
Section Group.
  Context {I : Type}.
  Variable eqb : I -> I -> bool.

  Lemma trace_group (src : nat -> I) k :
    (forall i, eqb (src i) (src (S i)) = false) ->
    trace (m_group eqb) src (S k) = (Some (src k, 1), prefix (fun i => [src i]) k).
  Proof.
    intro Hd. induction k as [|k IH]; [reflexivity|].
    rewrite trace_S, IH, feed_step_pair. cbn [fst snd m_group step]. rewrite Hd.
    rewrite (prefix_S (fun i => [src i])). reflexivity.
  Qed.

  Lemma group_exact (src : nat -> I) n :
    (forall i, eqb (src i) (src (S i)) = false) ->
    exact (m_group eqb) src n (prefix (fun i => [src i]) n) (S n).
  Proof.
    intro Hd. pose proof (run_exact (m_group eqb) src n (S n)) as H.
    rewrite trace_group in H by exact Hd. cbn [snd] in H. rewrite firstn_prefix in H by lia. apply H.
    - unfold ready. rewrite trace_group by exact Hd. cbn [fst snd]. rewrite prefix_length, Nat.leb_refl. reflexivity.
    - intros j Hj. unfold ready. destruct j as [|j]; [apply andb_false_r|].
      rewrite trace_group by exact Hd. cbn [fst snd]. rewrite prefix_length.
      replace (n <=? j) with false by (symmetry; apply Nat.leb_gt; lia). reflexivity.
  Qed.
End Group.

(* ---- chains of any length ------------------------------------------------------------------------ *)
Definition linear {V} (m : machine V V) : Prop := exists a b, lin_bounded m a b.

Lemma chain_linear {V} (rest : list (machine V V)) : forall m,
  linear m -> Forall linear rest -> linear (chain m rest).
Proof.
  induction rest as [|m' rest IH]; intros m Hm Hrest; [exact Hm|].
  inversion Hrest as [|? ? Hm' Hrest']; subst.
  destruct Hm as (a1 & b1 & H1). destruct (IH m' Hm' Hrest') as (a2 & b2 & H2).
  exists (a1 * a2), (a1 * b2 + b1). simpl. apply comp_lin_bounded; assumption.
Qed.

(* bound of a composition in terms of the runs, for any two machines *)
Lemma comp_run_bound {I M O} (m1 : machine I M) (m2 : machine M O) f1 f2 :
  bounded m1 f1 -> bounded m2 f2 -> forall src n fuel, f1 (f2 n) <= fuel ->
  exists k, k <= f1 (f2 n) /\
    run_until (comp m1 m2) src n fuel = Done (firstn n (snd (trace (comp m1 m2) src (f1 (f2 n))))) k.
Proof.
  intros H1 H2 src n fuel Hf.
  apply (run_bounded (comp m1 m2) (fun n => f1 (f2 n)) (@comp_bounded _ _ _ m1 m2 f1 f2 H1 H2) src n fuel Hf).
Qed.

(* what the second machine makes of the first machine's items, on a given source *)
Lemma comp_relative {I M O} (m1 : machine I M) (m2 : machine M O) src n b fuel :
  warm m1 (fst (trace m1 src b)) = true ->
  n <= length (snd (feed m2 (snd (trace m1 src b)))) ->
  warm m2 (fst (feed m2 (snd (trace m1 src b)))) = true ->
  b <= fuel ->
  exists k, k <= b /\
    run_until (comp m1 m2) src n fuel = Done (firstn n (snd (feed m2 (snd (trace m1 src b))))) k.
Proof.
  intros Hw1 Hn Hw2 Hf.
  destruct (run_bounded_src (comp m1 m2) src n b) with (fuel := fuel) as (k & Hk & Hrun); [|exact Hf|].
  - unfold ready, trace. rewrite feed_comp. cbn [fst snd comp warm]. unfold trace in *.
    rewrite Hw1, Hw2. apply Nat.leb_le in Hn. rewrite Hn. reflexivity.
  - exists k. split; [exact Hk|]. rewrite Hrun. unfold trace. rewrite feed_comp. reflexivity.
Qed.

(* ---- the stages of the correspondence catalogue --------------------------------------------------- *)
Lemma uniq_mask_bounded {I} (eqb : I -> I -> bool) : lin_bounded (m_uniq_mask eqb) 1 0.
Proof.
  apply productive_bounded; [|reflexivity]. intros s x. simpl.
  destruct (existsb (eqb x) s); simpl; lia.
Qed.

Lemma interleave_fin_r_bounded {I} (fin : list I) : lin_bounded (m_interleave_fin_r fin) 1 0.
Proof.
  apply productive_bounded; [|reflexivity]. intros s x. simpl. destruct s; simpl; lia.
Qed.

(* stages whose demand does not depend on the items *)
Definition regular (s : stage) : bool :=
  match s with
  | SFilterMod _ _ | SFlatten | SUniquify | SGroup | STruthy | SUnionFinL _ | SFilterNotIn _ | SFlattenBy _ => false
  | SWindows k | SChunks k => negb (k =? 0)
  | SStride _ s => negb (s =? 0)
  | _ => true
  end.

Lemma stage_linear s : regular s = true -> linear (stage_machine s).
Proof.
  pose (d := VZ 0).
  destruct s; simpl; intro Hr; try discriminate; unfold linear.
  - exists 1, 0. apply imap_bounded; exact d.
  - exists 1, 0. apply imap_bounded; exact d.
  - exists 1, 0. apply imap_bounded; exact d.
  - exists 1, 0. apply imap_bounded; exact d.
  - exists 1, 0. apply interleave_bounded.
  - exists 1, 0. apply interleave_r_bounded.
  - exists 1, 0. apply interleave_fin_bounded.
  - exists (1 * 1), (1 * 0 + 0). apply comp_lin_bounded; [apply prefixes_bounded|apply imap_bounded; exact []].
  - exists 1, 1. apply scanl_bounded; exact d.
  - exists 1, 1. apply pairwise_bounded; exact d.
  - destruct k as [|k']; [discriminate|]. exists (1 * 1), (1 * 0 + k').
    apply comp_lin_bounded; [apply windows_bounded; exact d|apply imap_bounded; exact []].
  - destruct k as [|k']; [discriminate|]. exists (S k' * 1), (S k' * 0 + 0).
    apply comp_lin_bounded; [apply chunks_bounded; exact d|apply imap_bounded; exact []].
  - exists (1 * 1), (1 * 0 + 0). apply comp_lin_bounded; [apply uniq_mask_bounded|apply imap_bounded; exact true].
  - exists (1 * 1), (1 * 0 + 0). apply comp_lin_bounded; [apply imap_bounded; exact d|apply imap_bounded; exact (0, d)].
  - exists 1, 0. apply prepend_list_bounded.
  - exists 1, 0. apply imap_bounded; exact d.
  - exists 1, 0. apply prepend_list_bounded.
  - exists 1, o. apply slice_bounded; exact d.
  - destruct s as [|s']; [discriminate|]. exists (S s'), a. apply stride_bounded; [exact d|lia].
  - exists 1, 1. apply head_remove_bounded; exact d.
  - exists 1, 0. apply imap_bounded; exact d.
  - exists 1, 0. apply imap_bounded; exact d.
  - exists 1, 0. apply insert_at_bounded.
  - exists 1, 1. apply remove_at_bounded; exact d.
  - exists 1, 0. apply imap_bounded; exact d.
  - exists 1, 0. apply imap_bounded; exact d.
  - exists 1, 0. apply imap_bounded; exact d.
  - exists 1, 0. apply imap_bounded; exact d.
  - exists 1, 0. apply imap_bounded; exact d.
  - exists 1, 0. apply imap_bounded; exact d.
  - exists 1, 0. apply imap_bounded; exact d.
  - exists 1, 0. apply imap_bounded; exact d.
  - exists 1, 0. apply interleave_fin_r_bounded.
Qed.

Lemma pipeline_linear s rest :
  regular s = true -> forallb regular rest = true -> linear (pipeline s rest).
Proof.
  intros Hs Hrest. unfold pipeline. apply chain_linear; [apply stage_linear; exact Hs|].
  apply Forall_forall. intros m Hm. apply in_map_iff in Hm. destruct Hm as (s' & <- & Hin).
  apply stage_linear. rewrite forallb_forall in Hrest. apply Hrest. exact Hin.
Qed.

(* a linear machine: every run of it terminates within the bound *)
Lemma linear_run {V} (m : machine V V) a b : lin_bounded m a b -> forall src n fuel, a * n + b <= fuel ->
  exists k outs, k <= a * n + b /\ run_until m src n fuel = Done outs k /\ length outs = n.
Proof.
  intros Hb src n fuel Hf.
  destruct (run_bounded m (fun n => a * n + b) Hb src n fuel Hf) as (k & Hk & Hrun).
  exists k, (firstn n (snd (trace m src (a * n + b)))). repeat split; [exact Hk|exact Hrun|].
  apply firstn_length_le. destruct (Hb (prefix src (a * n + b)) n) as [Hlen _]; [rewrite prefix_length; lia|].
  exact Hlen.
Qed.

(* ---- non-vacuity of the theorems with hypotheses ------------------------------------------------- *)
Definition ex_src (i : nat) : Z := Z.of_nat (i * i mod 7).   (* 0 1 4 2 2 4 1 0 1 4 ... *)

Example filter_exact_ex :
  run_until (m_filter Z.even) ex_src 3 20 = Done [0; 4; 2]%Z 4.
Proof. apply (filter_exact Z.even ex_src 2 3); [reflexivity|reflexivity|lia]. Qed.

Example filter_dense_ex : exists k, k <= 7 * 5 /\
  run_until (m_filter Z.even) (fun i => Z.of_nat (i mod 7)) 5 40
  = Done (firstn 5 (filter Z.even (prefix (fun i => Z.of_nat (i mod 7)) (7 * 5)))) k.
Proof.
  apply filter_dense; [|lia]. intro i. exists ((7 - i mod 7) mod 7). split; [lia|].
  replace ((i + (7 - i mod 7) mod 7) mod 7) with 0 by lia. reflexivity.
Qed.

Example uniquify_exact_ex :
  run_until (m_uniquify Z.eqb) ex_src 4 20 = Done [0; 1; 4; 2]%Z 4.
Proof. apply (uniquify_exact Z.eqb ex_src 3 3); [reflexivity|reflexivity|lia]. Qed.

Example uniquify_distinct_ex :
  run_until (m_uniquify Z.eqb) Z.of_nat 5 5 = Done (prefix Z.of_nat 5) 5.
Proof.
  apply (uniquify_distinct_exact Z.eqb Z.of_nat 5); [|lia].
  intros i j Hij. apply Z.eqb_neq. lia.
Qed.

Example truthy_exact_ex :
  run_until m_truthy ex_src 2 20 = Done [1; 2] 3.
Proof. apply (truthy_exact ex_src 1 2); [discriminate|reflexivity|lia]. Qed.

Example group_exact_ex :
  run_until (m_group Z.eqb) Z.of_nat 3 4 = Done [[0]; [1]; [2]]%Z 4.
Proof.
  apply (group_exact Z.eqb Z.of_nat 3); [|lia]. intro i. apply Z.eqb_neq. lia.
Qed.

Example flatten_bound_ex : exists k, k <= 5 /\
  run_until m_flatten (fun i => [Z.of_nat i; 7%Z]) 5 5
  = Done (firstn 5 (concat (prefix (fun i => [Z.of_nat i; 7%Z]) 5))) k.
Proof. apply flatten_bound; [discriminate|lia]. Qed.

Example flatten_by_ex : exists k, k <= 4 /\
  run_until (m_multi (fun _ x => vflat_item 2 x)) (fun i => VL [VZ (Z.of_nat i)]) 4 4
  = Done (firstn 4 (multis (fun _ x => vflat_item 2 x) (fun i => VL [VZ (Z.of_nat i)]) 4)) k.
Proof. apply multi_bound; [discriminate|lia]. Qed.

Example stride_exact_ex :
  run_until (m_stride 1 3) Z.of_nat 3 8 = Done [1; 4; 7]%Z 8.
Proof. apply (stride_exact 1 3 Z.of_nat 2); lia. Qed.

Example pipeline_linear_ex : linear (pipeline (SMapAffine 3 1) [SWindows 3; SChunks 2; SMapSum; SCumsum]).
Proof. apply pipeline_linear; reflexivity. Qed.

Definition even_sum (w : list Z) : bool := Z.even (fold_right Z.add 0%Z w).
Example comp_relative_ex : exists k, k <= 8 /\
  run_until (comp (m_windows 3) (m_filter even_sum)) ex_src 2 8
  = Done (firstn 2 (snd (feed (m_filter even_sum) (snd (trace (m_windows 3) ex_src 8))))) k.
Proof. apply comp_relative; [reflexivity|vm_compute; lia|reflexivity|lia]. Qed.
