(* Layout, part 1: Coq's own reading of every element / modifier template TEXT
   (Model/Layout.v) gives exactly the block skeleton that the translator derived from the
   template with Python's `ast` (Gen/TemplateShapes.v) -- for every key, including the
   ones that are not in the tables (`pass`). *)
From Coq Require Import List NArith ZArith Bool Lia Arith String Ascii.
From Vy Require Import Model.Base Model.Lexer Model.Parser Model.Transpile Model.PyTree Model.PyShape Model.Layout
  Gen.Elements Gen.TemplateShapes.
Import ListNotations.
Open Scope N_scope.

(* ---- the two tables are aligned and every text passes a check against its shape ----------------- *)
Fixpoint aligned {E} (chk : str -> list pyn -> bool) (key : E -> str) (text : E -> str)
    (es : list E) (shs : list (str * list pyn)) : bool :=
  match es, shs with
  | [], [] => true
  | e :: es', (k, sh) :: shs' => str_eqb (key e) k && chk (text e) sh && aligned chk key text es' shs'
  | _, _ => false
  end.

Definition layout_is (t : str) (sh : list pyn) : bool :=
  match layout t with Some s => pyn_list_eqb s sh | None => false end.

Lemma elements_aligned : aligned layout_is e_key e_text elements elem_shapes = true.
Proof. vm_compute. reflexivity. Qed.

Lemma modifiers_aligned : aligned layout_is m_key m_text modifiers modif_shapes = true.
Proof. vm_compute. reflexivity. Qed.

Lemma pyn_eqb_eq : forall a b, pyn_eqb a b = true -> a = b.
Proof.
  fix IH 1. intros a b. destruct a as [| | | | |k1 b1]; destruct b as [| | | | |k2 b2]; simpl; try discriminate; try reflexivity.
  intro H. apply andb_prop in H as [Hk Hb].
  assert (Ek : k1 = k2) by (destruct k1, k2; try discriminate; reflexivity). subst k2. f_equal.
  revert b2 Hb. induction b1 as [|x b1 IHb]; intros [|y b2] Hb; try discriminate; [reflexivity|].
  apply andb_prop in Hb as [H1 H2]. f_equal; [apply IH; exact H1|apply IHb; exact H2].
Qed.

Lemma pyn_list_eqb_eq : forall a b, pyn_list_eqb a b = true -> a = b.
Proof.
  induction a as [|x a IH]; intros [|y b] H; try discriminate; [reflexivity|].
  simpl in H. apply andb_prop in H as [H1 H2]. f_equal; [apply pyn_eqb_eq; exact H1|apply IH; exact H2].
Qed.

Lemma str_eqb_sym a b : str_eqb a b = str_eqb b a.
Proof.
  destruct (str_eqb a b) eqn:E1; destruct (str_eqb b a) eqn:E2; try reflexivity.
  - apply str_eqb_eq in E1. subst. rewrite (proj2 (str_eqb_eq b b) eq_refl) in E2. discriminate.
  - apply str_eqb_eq in E2. subst. rewrite (proj2 (str_eqb_eq a a) eq_refl) in E1. discriminate.
Qed.

(* ---- lookups: the last entry with the key, in both tables ---------------------------------------- *)
Section Lookup.
  Context {E : Type}.
  Variable chk : str -> list pyn -> bool.
  Variable R : str -> list pyn -> Prop.
  Hypothesis chk_sound : forall t sh, chk t sh = true -> R t sh.
  Variable key : E -> str.
  Variable text : E -> str.

  Fixpoint find_in (k : str) (tbl : list E) : option E :=
    match tbl with
    | [] => None
    | e :: r => if str_eqb (key e) k then Some e else find_in k r
    end.

  Lemma find_in_app k a b :
    find_in k (a ++ b) = match find_in k a with Some x => Some x | None => find_in k b end.
  Proof. induction a as [|x a IH]; simpl; [reflexivity|]. destruct (str_eqb (key x) k); [reflexivity|exact IH]. Qed.

  Lemma find_shape_acc k tbl : forall acc,
    find_shape_in k tbl acc = match find_shape_in k tbl None with Some x => Some x | None => acc end.
  Proof.
    induction tbl as [|[k' sh] tbl IH]; intro acc; simpl; [reflexivity|].
    rewrite IH. rewrite (IH (if str_eqb k k' then Some sh else None)).
    destruct (find_shape_in k tbl None); [reflexivity|]. destruct (str_eqb k k'); reflexivity.
  Qed.

  Definition rel (oe : option E) (osh : option (list pyn)) : Prop :=
    match oe, osh with
    | Some e, Some sh => R (text e) sh
    | None, None => True
    | _, _ => False
    end.

  Lemma aligned_lookup k : forall es shs, aligned chk key text es shs = true ->
    rel (find_in k (rev es)) (find_shape_in k shs None).
  Proof.
    induction es as [|e es IH]; intros [|[k' sh] shs] H; simpl in H; try discriminate; [exact I|].
    apply andb_prop in H as [H H3]. apply andb_prop in H as [H1 H2].
    apply str_eqb_eq in H1. subst k'.
    simpl rev. rewrite find_in_app. simpl find_shape_in. rewrite find_shape_acc.
    specialize (IH shs H3). unfold rel in *.
    destruct (find_in k (rev es)) as [x|]; destruct (find_shape_in k shs None) as [s|]; try contradiction; [exact IH|].
    simpl. rewrite (str_eqb_sym k (key e)).
    destruct (str_eqb (key e) k); [|exact I]. apply chk_sound. exact H2.
  Qed.
End Lookup.

Lemma layout_is_sound t sh : layout_is t sh = true -> layout t = Some sh.
Proof.
  unfold layout_is. destruct (layout t) as [s|]; [|discriminate]. intro H. apply pyn_list_eqb_eq in H. subst. reflexivity.
Qed.

Lemma find_elem_in_find k tbl : find_elem_in k tbl = find_in e_key k tbl.
Proof. induction tbl as [|e r IH]; simpl; [reflexivity|]. rewrite IH. reflexivity. Qed.
Lemma find_modif_in_find k tbl : find_modif_in k tbl = find_in m_key k tbl.
Proof. induction tbl as [|e r IH]; simpl; [reflexivity|]. rewrite IH. reflexivity. Qed.

Lemma layout_pass_nl : layout (L "pass" ++ [nl]) = Some [NSimple].
Proof. vm_compute. reflexivity. Qed.
Lemma layout_pass : layout (L "pass") = Some [NSimple].
Proof. vm_compute. reflexivity. Qed.

(* every element key: the text the transpiler indents lays out as the table's shape *)
Theorem layout_element k : layout (element_text k) = Some (elem_shape k).
Proof.
  unfold element_text, elem_shape, find_elem. rewrite find_elem_in_find.
  pose proof (aligned_lookup layout_is _ layout_is_sound e_key e_text k elements elem_shapes elements_aligned) as R. unfold rel in R.
  destruct (find_in e_key k (rev elements)) as [e|]; destruct (find_shape_in k elem_shapes None) as [sh|];
    try contradiction; [exact R|exact layout_pass_nl].
Qed.

Theorem layout_modifier m : layout (modifier_text m) = Some (modif_shape m).
Proof.
  unfold modifier_text, modif_shape, find_modif. rewrite find_modif_in_find.
  pose proof (aligned_lookup layout_is _ layout_is_sound m_key m_text [m] modifiers modif_shapes modifiers_aligned) as R. unfold rel in R.
  destruct (find_in m_key [m] (rev modifiers)) as [e|]; destruct (find_shape_in [m] modif_shapes None) as [sh|];
    try contradiction; [exact R|exact layout_pass].
Qed.

Theorem layout_templates :
  (forall k, layout (element_text k) = Some (elem_shape k)) /\
  (forall m, layout (modifier_text m) = Some (modif_shape m)).
Proof. split; [exact layout_element|exact layout_modifier]. Qed.
