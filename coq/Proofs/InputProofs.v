(* Proofs about the input-stream model (property C11).  Everything is an invariant of
   `run_step`, carried through `fold_left` over a history of any length. *)
From Coq Require Import List ZArith Bool Arith Lia.
From Vy Require Import Model.Input.
Import ListNotations.

(* ---- lists ------------------------------------------------------------------------ *)
Lemma snoc_cases {A} (l : list A) : l = [] \/ exists l' x, l = l' ++ [x].
Proof.
  induction l as [|x l _] using rev_ind; [left; reflexivity|right; eauto].
Qed.

Lemma upd_last_snoc f l x : upd_last f (l ++ [x]) = l ++ [f x].
Proof.
  induction l as [|a l IH]; [reflexivity|].
  change ((a :: l) ++ [x]) with (a :: (l ++ [x])).
  change ((a :: l) ++ [f x]) with (a :: (l ++ [f x])).
  rewrite <- IH. simpl. destruct (l ++ [x]) eqn:E; [destruct l; discriminate|reflexivity].
Qed.

Lemma last_scope_snoc l x : last_scope (l ++ [x]) = x.
Proof. unfold last_scope. apply last_last. Qed.

Lemma nth_nil_Z n : nth n (@nil Z) 0%Z = 0%Z.
Proof. destruct n; reflexivity. Qed.

(* ---- the cyclic stream ------------------------------------------------------------ *)
Lemma cyc_length l c n : length (cyc l c n) = n.
Proof. unfold cyc. rewrite map_length, seq_length. reflexivity. Qed.

Lemma cyc_app l c a b : cyc l c (a + b) = cyc l c a ++ cyc l (c + a) b.
Proof. unfold cyc. rewrite seq_app, map_app. reflexivity. Qed.

Lemma cyc_S l c n : cyc l c (S n) = nth (c mod length l) l 0%Z :: cyc l (S c) n.
Proof. reflexivity. Qed.

Lemma cyc_nil_repeat c n : cyc [] c n = repeat 0%Z n.
Proof.
  revert c; induction n as [|n IH]; intro c; [reflexivity|].
  rewrite cyc_S, IH, nth_nil_Z. reflexivity.
Qed.

Lemma cyc_same l c m k : (l <> [] -> c = m) -> cyc l c k = cyc l m k.
Proof.
  destruct l as [|z l]; intro H.
  - rewrite !cyc_nil_repeat. reflexivity.
  - rewrite H by discriminate. reflexivity.
Qed.

Lemma cyc_nth l c n j : j < n -> nth j (cyc l c n) 0%Z = nth ((c + j) mod length l) l 0%Z.
Proof.
  intro Hj. unfold cyc. set (f := fun i => nth (i mod length l) l 0%Z).
  rewrite nth_indep with (d' := f 0) by (rewrite map_length, seq_length; exact Hj).
  rewrite map_nth, seq_nth by exact Hj. reflexivity.
Qed.

Lemma cyc_all_zero c n : Forall (fun v => v = 0%Z) (cyc [] c n).
Proof.
  rewrite cyc_nil_repeat. apply Forall_forall. intros v Hv.
  apply repeat_spec in Hv. exact Hv.
Qed.

(* cursor after k reads from a scope: it only moves when the scope has values *)
Definition adv (l : list Z) (c k : nat) : nat := if is_empty l then c else c + k.

Lemma adv_0 l c : adv l c 0 = c.
Proof. unfold adv. destruct l; simpl; lia. Qed.

Lemma adv_adv l c k : adv l (adv l c 1) k = adv l c (S k).
Proof. unfold adv. destruct l; simpl; lia. Qed.

(* ---- get_input, `?`, pop on states with use_top_input = False ---------------------- *)
Lemma get_input_last pre l c :
  get_input (mkState (pre ++ [(l, c)]) false)
  = (mkState (pre ++ [(l, adv l c 1)]) false, nth (c mod length l) l 0%Z).
Proof.
  unfold get_input. cbn [use_top scopes]. rewrite last_scope_snoc. cbn [fst].
  destruct l as [|z l].
  - cbn [is_empty negb]. rewrite app_length. cbn [length].
    destruct pre as [|p pre].
    + rewrite nth_nil_Z. cbn. reflexivity.
    + cbn [length]. replace (S (length pre) + 1) with (S (S (length pre))) by lia.
      cbn [Nat.eqb]. rewrite nth_nil_Z. reflexivity.
  - cbn [is_empty negb]. rewrite upd_last_snoc. unfold bump, serve, adv. cbn [fst snd is_empty].
    rewrite Nat.add_1_r. reflexivity.
Qed.

Lemma question_mark_first l c rest :
  question_mark (mkState ((l, c) :: rest) false) []
  = (mkState ((l, adv l c 1) :: rest) false, [nth (c mod length l) l 0%Z]).
Proof.
  unfold question_mark, set_use_top, get_input, get_top. cbn [use_top scopes first_scope hd fst].
  destruct l as [|z l].
  - rewrite nth_nil_Z. cbn. reflexivity.
  - cbn [is_empty negb upd_first]. unfold bump, serve, adv. cbn [fst snd is_empty scopes use_top].
    rewrite Nat.add_1_r. reflexivity.
Qed.

Lemma reads_last k : forall pre l c,
  pop_n (mkState (pre ++ [(l, c)]) false) [] k
  = (mkState (pre ++ [(l, adv l c k)]) false, [], cyc l c k).
Proof.
  induction k as [|k IH]; intros pre l c.
  - cbn [pop_n]. rewrite adv_0. reflexivity.
  - cbn [pop_n]. rewrite get_input_last, IH, adv_adv, cyc_S.
    rewrite (cyc_same l (adv l c 1) (S c)); [reflexivity|].
    intro Hl. unfold adv. destruct l; [contradiction|]. cbn. lia.
Qed.

Lemma step_explicit l c rest :
  step (mkState ((l, c) :: rest) false) Explicit
  = (mkState ((l, adv l c 1) :: rest) false, [nth (c mod length l) l 0%Z]).
Proof. apply question_mark_first. Qed.

Lemma step_implicit pre l c k :
  step (mkState (pre ++ [(l, c)]) false) (Implicit k)
  = (mkState (pre ++ [(l, adv l c k)]) false, cyc l c k).
Proof. cbn [step]. rewrite reads_last. reflexivity. Qed.

(* ---- every operation reads exactly as many values as it asks for -------------------- *)
Lemma pop_n_count k : forall st, length (snd (pop_n st [] k)) = k.
Proof.
  induction k as [|k IH]; intro st; [reflexivity|].
  cbn [pop_n]. destruct (get_input st) as [st1 v] eqn:E1.
  specialize (IH st1). destruct (pop_n st1 [] k) as [[st2 s2] ps] eqn:E2.
  cbn in *. rewrite IH. reflexivity.
Qed.

Lemma step_count st o : length (snd (step st o)) = reads_of o.
Proof.
  destruct o as [|k|args|]; cbn [step reads_of]; try reflexivity.
  - unfold question_mark. destruct (get_input (set_use_top true st)). reflexivity.
  - pose proof (pop_n_count k st) as H.
    destruct (pop_n st [] k) as [[st' s'] ps]. exact H.
Qed.

(* pop of k items from a stack holding j <= k items: the j items, then k - j reads *)
Lemma pop_short stack : forall st k, length stack <= k ->
  pop_n st stack k =
  (fst (fst (pop_n st [] (k - length stack))), [],
   stack ++ snd (pop_n st [] (k - length stack))).
Proof.
  induction stack as [|x r IH]; intros st k Hk.
  - cbn [length app]. rewrite Nat.sub_0_r.
    assert (Hs : forall k st, snd (fst (pop_n st [] k)) = []).
    { clear. induction k as [|k IHk]; intro st; [reflexivity|].
      cbn [pop_n]. destruct (get_input st) as [st1 v].
      specialize (IHk st1). destruct (pop_n st1 [] k) as [[a b] c]. exact IHk. }
    specialize (Hs k st). destruct (pop_n st [] k) as [[a b] c]. cbn in *. subst b. reflexivity.
  - destruct k as [|k]; [cbn in Hk; lia|].
    cbn [pop_n length]. rewrite IH by (cbn in Hk; lia).
    replace (S k - S (length r)) with (k - length r) by lia. reflexivity.
Qed.

(* ---- folding over a history ---------------------------------------------------------- *)
Lemma fold_events h : forall st d evs,
  fold_left run_step h (mkAcc st d evs)
  = mkAcc (r_state (run_from st d h)) (r_depth (run_from st d h))
          (evs ++ r_events (run_from st d h)).
Proof.
  induction h as [|o r IH]; intros st d evs.
  - cbn. rewrite app_nil_r. reflexivity.
  - unfold run_from. cbn [fold_left]. unfold run_step at 2 4 6 8. cbn [r_state r_depth r_events].
    rewrite !IH. cbn [r_state r_depth r_events app]. rewrite <- app_assoc. reflexivity.
Qed.

Lemma run_split st d h1 h2 :
  let A1 := run_from st d h1 in
  let A2 := run_from (r_state A1) (r_depth A1) h2 in
  run_from st d (h1 ++ h2) = mkAcc (r_state A2) (r_depth A2) (r_events A1 ++ r_events A2).
Proof.
  cbn zeta. unfold run_from at 1. rewrite fold_left_app.
  fold (run_from st d h1).
  destruct (run_from st d h1) as [s1 d1 e1] eqn:E. cbn [r_state r_depth r_events].
  apply fold_events.
Qed.

Lemma run_depth h : forall st d, r_depth (run_from st d h) = depth_from d h.
Proof.
  induction h as [|o r IH]; intros st d; [reflexivity|].
  unfold run_from. cbn [fold_left]. unfold run_step at 2. cbn [r_state r_depth r_events].
  rewrite fold_events. cbn [r_depth]. rewrite IH. reflexivity.
Qed.

Lemma run_ops h : forall st d,
  map ev_op (r_events (run_from st d h)) = h
  /\ Forall (fun e => length (ev_vals e) = reads_of (ev_op e)) (r_events (run_from st d h)).
Proof.
  induction h as [|o r IH]; intros st d; [split; [reflexivity|constructor]|].
  unfold run_from. cbn [fold_left]. unfold run_step at 2 4. cbn [r_state r_depth r_events app].
  rewrite fold_events. cbn [r_events app map ev_op].
  destruct (IH (fst (step st o)) (next_depth d o)) as [H1 H2]. split.
  - rewrite H1. reflexivity.
  - constructor; [cbn; apply step_count|exact H2].
Qed.

Lemma fold_inv (P : acc -> Prop) b :
  (forall a o, P a -> legal b (r_depth a) o = true -> P (run_step a o)) ->
  forall h a, P a -> scopedb b (r_depth a) h = true -> P (fold_left run_step h a).
Proof.
  intros Hstep h; induction h as [|o r IH]; intros a Ha Hs; [exact Ha|].
  cbn [scopedb] in Hs. apply andb_prop in Hs as [Hl Hr].
  cbn [fold_left]. apply IH; [apply Hstep; assumption|exact Hr].
Qed.

Lemma scopedb_app b h1 : forall d h2,
  scopedb b d (h1 ++ h2) = scopedb b d h1 && scopedb b (depth_from d h1) h2.
Proof.
  induction h1 as [|o r IH]; intros d h2; [reflexivity|].
  cbn [app scopedb]. rewrite IH, andb_assoc. reflexivity.
Qed.

(* what "well scoped" means: no Exit is executed at a depth <= b *)
Lemma scopedb_iff b h : forall d,
  scopedb b d h = true <-> (forall p q, h = p ++ Exit :: q -> b < depth_from d p).
Proof.
  induction h as [|o r IH]; intro d; split.
  - intros _ p q E. destruct p; discriminate.
  - reflexivity.
  - intros Hs p q E. cbn [scopedb] in Hs. apply andb_prop in Hs as [Hl Hr].
    destruct p as [|o' p].
    + cbn in E. inversion E; subst. cbn in Hl. apply Nat.ltb_lt in Hl. exact Hl.
    + cbn in E. inversion E; subst. unfold depth_from. cbn [fold_left].
      apply (proj1 (IH _) Hr p q eq_refl).
  - intros H. cbn [scopedb]. apply andb_true_intro. split.
    + destruct o; try reflexivity. cbn. apply Nat.ltb_lt. apply (H [] r eq_refl).
    + apply IH. intros p q E. subst r. apply (H (o :: p) q eq_refl).
Qed.

Lemma top_vals_snoc evs e :
  top_vals (evs ++ [e]) = top_vals evs ++ (if top_served (ev_depth e) (ev_op e) then ev_vals e else []).
Proof. unfold top_vals. rewrite flat_map_app. cbn. rewrite app_nil_r. reflexivity. Qed.

Lemma scope_vals_snoc d evs e :
  scope_vals d (evs ++ [e]) = scope_vals d evs ++ (if in_scope d e then ev_vals e else []).
Proof. unfold scope_vals. rewrite flat_map_app. cbn. rewrite app_nil_r. reflexivity. Qed.

(* ---- invariant of the program's own scope -------------------------------------------- *)
Definition Inv_top (ins : list Z) (a : acc) : Prop :=
  exists c inner n,
    r_state a = mkState ((ins, c) :: inner) false
    /\ S (length inner) = r_depth a
    /\ top_vals (r_events a) = cyc ins 0 n
    /\ (ins <> [] -> c = n).

Lemma adv_count l c n k : (l <> [] -> c = n) -> l <> [] -> adv l c k = n + k.
Proof. intros H Hl. unfold adv. destruct l; [contradiction|]. cbn. rewrite H by exact Hl. reflexivity. Qed.

Lemma Inv_top_step ins a o :
  Inv_top ins a -> legal 1 (r_depth a) o = true -> Inv_top ins (run_step a o).
Proof.
  intros (c & inner & n & Hst & Hd & Hv & Hc) Hl.
  destruct a as [st d evs]. cbn [r_state r_depth r_events] in *. subst st.
  unfold Inv_top, run_step. cbn [r_state r_depth r_events].
  destruct o as [|k|args|].
  - (* Explicit *)
    rewrite step_explicit. cbn [fst snd next_depth].
    exists (adv ins c 1), inner, (n + 1). repeat split; [exact Hd| |].
    + rewrite top_vals_snoc. cbn [ev_depth ev_op ev_vals top_served].
      rewrite Hv, cyc_app. f_equal. cbn [Nat.add].
      rewrite <- (cyc_same ins c n 1 Hc). reflexivity.
    + apply adv_count; assumption.
  - (* Implicit k *)
    destruct (snoc_cases inner) as [->|(inner' & [l c'] & ->)].
    + change [(ins, c)] with ([] ++ [(ins, c)]). rewrite step_implicit.
      cbn [fst snd next_depth app]. cbn in Hd. subst d.
      exists (adv ins c k), [], (n + k). repeat split.
      * rewrite top_vals_snoc. cbn [ev_depth ev_op ev_vals top_served Nat.eqb].
        rewrite Hv, cyc_app. f_equal. cbn [Nat.add]. apply cyc_same. exact Hc.
      * apply adv_count; assumption.
    + rewrite app_comm_cons, step_implicit. cbn [fst snd next_depth].
      rewrite <- app_comm_cons.
      exists c, (inner' ++ [(l, adv l c' k)]), n. repeat split.
      * rewrite app_length in *. cbn [length] in *. exact Hd.
      * rewrite top_vals_snoc. cbn [ev_depth ev_op ev_vals top_served].
        rewrite app_length in Hd. cbn [length] in Hd.
        replace (Nat.eqb d 1) with false by (symmetry; apply Nat.eqb_neq; lia).
        rewrite app_nil_r. exact Hv.
      * exact Hc.
  - (* Enter *)
    cbn [step fst snd next_depth scopes use_top]. rewrite <- app_comm_cons.
    exists c, (inner ++ [(rev args, 0)]), n. repeat split.
    + rewrite app_length. cbn [length]. lia.
    + rewrite top_vals_snoc. cbn [ev_depth ev_op ev_vals top_served]. rewrite app_nil_r. exact Hv.
    + exact Hc.
  - (* Exit *)
    cbn [legal] in Hl. apply Nat.ltb_lt in Hl.
    destruct (snoc_cases inner) as [->|(inner' & x & ->)]; [cbn in Hd; lia|].
    cbn [step fst snd next_depth scopes use_top].
    rewrite app_comm_cons, removelast_last.
    exists c, inner', n. repeat split.
    + rewrite app_length in Hd. cbn [length] in Hd. lia.
    + rewrite top_vals_snoc. cbn [ev_depth ev_op ev_vals top_served]. rewrite app_nil_r. exact Hv.
    + exact Hc.
Qed.

Lemma Inv_top_run ins h : well_scoped h -> Inv_top ins (run ins h).
Proof.
  intro Hw. unfold run, run_from. apply (fold_inv (Inv_top ins) 1).
  - intros a o. apply Inv_top_step.
  - exists 0, [], 0. repeat split.
  - exact Hw.
Qed.

(* ---- the theorems about the program's inputs ----------------------------------------- *)
Lemma top_stream ins h : well_scoped h ->
  forall j, j < length (top_vals (r_events (run ins h))) ->
    nth j (top_vals (r_events (run ins h))) 0%Z = nth (j mod length ins) ins 0%Z.
Proof.
  intros Hw j Hj. destruct (Inv_top_run ins h Hw) as (c & inner & n & _ & _ & Hv & _).
  rewrite Hv in *. rewrite cyc_length in Hj. rewrite cyc_nth by exact Hj. reflexivity.
Qed.

Lemma top_nonempty ins h : ins <> [] -> well_scoped h ->
  forall j, j < length (top_vals (r_events (run ins h))) ->
    nth j (top_vals (r_events (run ins h))) 0%Z = nth (j mod length ins) ins 0%Z.
Proof. intros _. apply top_stream. Qed.

Lemma top_empty h : well_scoped h ->
  Forall (fun v => v = 0%Z) (top_vals (r_events (run [] h))).
Proof.
  intro Hw. destruct (Inv_top_run [] h Hw) as (c & inner & n & _ & _ & Hv & _).
  rewrite Hv. apply cyc_all_zero.
Qed.

Lemma top_cursor ins h : ins <> [] -> well_scoped h ->
  first_scope (scopes (r_state (run ins h)))
  = (ins, length (top_vals (r_events (run ins h)))).
Proof.
  intros Hne Hw. destruct (Inv_top_run ins h Hw) as (c & inner & n & Hst & _ & Hv & Hc).
  rewrite Hst, Hv, cyc_length. cbn. rewrite Hc by exact Hne. reflexivity.
Qed.

Definition Inv_top0 (a : acc) : Prop :=
  exists inner, r_state a = mkState (([], 0) :: inner) false /\ S (length inner) = r_depth a.

Lemma top_cursor_empty h : well_scoped h ->
  first_scope (scopes (r_state (run [] h))) = ([], 0).
Proof.
  intro Hw. unfold run, run_from.
  assert (H : Inv_top0 (fold_left run_step h (mkAcc (init []) 1 []))).
  { apply (fold_inv Inv_top0 1); [| exists []; split; reflexivity | exact Hw ]. unfold Inv_top0.
    intros a o (inner & Hst & Hd) Hl. destruct a as [st d evs]. cbn [r_state r_depth] in *. subst st.
    unfold run_step. cbn [r_state r_depth].
    destruct o as [|k|args|].
    + rewrite step_explicit. cbn. eauto.
    + destruct (snoc_cases inner) as [->|(inner' & [l c'] & ->)].
      * change [(@nil Z, 0)] with ([] ++ [(@nil Z, 0)]). rewrite step_implicit. cbn. exists []. auto.
      * rewrite app_comm_cons, step_implicit. cbn [fst next_depth]. rewrite <- app_comm_cons.
        eexists; split; [reflexivity|]. rewrite app_length in *. cbn [length] in *. exact Hd.
    + cbn [step fst next_depth scopes use_top]. rewrite <- app_comm_cons.
      eexists; split; [reflexivity|]. rewrite app_length. cbn [length]. lia.
    + cbn [legal] in Hl. apply Nat.ltb_lt in Hl.
      destruct (snoc_cases inner) as [->|(inner' & x & ->)]; [cbn in Hd; lia|].
      cbn [step fst next_depth scopes use_top]. rewrite app_comm_cons, removelast_last.
      eexists; split; [reflexivity|]. rewrite app_length in Hd. cbn [length] in Hd. lia. }
  destruct H as (inner & Hst & _). rewrite Hst. reflexivity.
Qed.

Lemma state_shape ins h : well_scoped h ->
  length (scopes (r_state (run ins h))) = depth_from 1 h
  /\ use_top (r_state (run ins h)) = false
  /\ 1 <= depth_from 1 h.
Proof.
  intro Hw. destruct (Inv_top_run ins h Hw) as (c & inner & n & Hst & Hd & _ & _).
  unfold run in Hd. rewrite run_depth in Hd. rewrite Hst. cbn [scopes use_top length]. split; [exact Hd|]. split; [reflexivity|]. rewrite <- Hd. lia.
Qed.

Lemma reads_counted ins h :
  map ev_op (r_events (run ins h)) = h
  /\ Forall (fun e => length (ev_vals e) = reads_of (ev_op e)) (r_events (run ins h)).
Proof. apply run_ops. Qed.

(* ---- invariant of one inner scope ------------------------------------------------------
   The scope sits at position d (1-based) of ctx.inputs and holds the list L. *)
Definition Inv_in (d : nat) (L : list Z) (a : acc) : Prop :=
  exists pre c post n,
    r_state a = mkState (pre ++ (L, c) :: post) false
    /\ pre <> []
    /\ S (length pre) = d
    /\ S (length pre + length post) = r_depth a
    /\ scope_vals d (r_events a) = cyc L 0 n
    /\ (L <> [] -> c = n).

Lemma Inv_in_step d L a o :
  Inv_in d L a -> legal d (r_depth a) o = true -> Inv_in d L (run_step a o).
Proof.
  intros (pre & c & post & n & Hst & Hpre & Hd & Hdep & Hv & Hc) Hl.
  destruct a as [st dep evs]. cbn [r_state r_depth r_events] in *. subst st.
  unfold Inv_in, run_step. cbn [r_state r_depth r_events].
  destruct o as [|k|args|].
  - (* Explicit: served by the first scope, which is not this one *)
    destruct pre as [|[l0 c0] pre']; [contradiction|].
    rewrite <- app_comm_cons, step_explicit. cbn [fst snd next_depth].
    exists ((l0, adv l0 c0 1) :: pre'), c, post, n. repeat split; try assumption.
    + discriminate.
    + rewrite scope_vals_snoc. cbn. rewrite app_nil_r. exact Hv.
  - (* Implicit k *)
    destruct (snoc_cases post) as [->|(post' & [l c'] & ->)].
    + rewrite step_implicit. cbn [fst snd next_depth].
      exists pre, (adv L c k), [], (n + k). repeat split; try assumption.
      * rewrite scope_vals_snoc. unfold in_scope. cbn [ev_depth ev_op ev_vals].
        cbn [length] in Hdep. rewrite Nat.add_0_r in Hdep.
        replace (Nat.eqb dep d) with true by (symmetry; apply Nat.eqb_eq; lia).
        rewrite Hv, cyc_app. f_equal. cbn [Nat.add]. apply cyc_same. exact Hc.
      * intro HL. apply adv_count; assumption.
    + rewrite app_comm_cons, app_assoc, step_implicit. cbn [fst snd next_depth].
      rewrite <- app_assoc, <- app_comm_cons.
      exists pre, c, (post' ++ [(l, adv l c' k)]), n. repeat split; try assumption.
      * rewrite app_length in *. cbn [length] in *. exact Hdep.
      * rewrite scope_vals_snoc. unfold in_scope. cbn [ev_depth ev_op ev_vals].
        rewrite app_length in Hdep. cbn [length] in Hdep.
        replace (Nat.eqb dep d) with false by (symmetry; apply Nat.eqb_neq; lia).
        rewrite app_nil_r. exact Hv.
  - (* Enter *)
    cbn [step fst snd next_depth scopes use_top]. rewrite <- app_assoc, <- app_comm_cons.
    exists pre, c, (post ++ [(rev args, 0)]), n. repeat split; try assumption.
    + rewrite app_length. cbn [length]. lia.
    + rewrite scope_vals_snoc. cbn. rewrite app_nil_r. exact Hv.
  - (* Exit: legal only above this scope *)
    cbn [legal] in Hl. apply Nat.ltb_lt in Hl.
    destruct (snoc_cases post) as [->|(post' & x & ->)]; [cbn in Hdep; lia|].
    cbn [step fst snd next_depth scopes use_top].
    rewrite app_comm_cons, app_assoc, removelast_last.
    exists pre, c, post', n. repeat split; try assumption.
    + rewrite app_length in Hdep. cbn [length] in Hdep. lia.
    + rewrite scope_vals_snoc. cbn. rewrite app_nil_r. exact Hv.
Qed.

(* entering a scope from any reachable state establishes the invariant *)
Lemma Inv_in_enter ins h1 a : well_scoped h1 ->
  let A1 := run ins (h1 ++ [Enter a]) in
  Inv_in (r_depth A1) (rev a) (mkAcc (r_state A1) (r_depth A1) []).
Proof.
  intro Hw. cbn zeta. unfold run. rewrite run_split. cbn [r_state r_depth r_events].
  fold (run ins h1).
  destruct (Inv_top_run ins h1 Hw) as (c & inner & n & Hst & Hd & _ & _).
  unfold run_from. cbn [fold_left]. unfold run_step. cbn [r_state r_depth r_events].
  rewrite Hst. cbn [step fst snd next_depth scopes use_top].
  exists ((ins, c) :: inner), 0, [], 0. repeat split.
  - discriminate.
  - cbn [length]. rewrite Hd. reflexivity.
  - cbn [length]. rewrite Nat.add_0_r, Hd. reflexivity.
Qed.

Lemma inner_inv ins h1 a h2 : well_scoped h1 ->
  let A1 := run ins (h1 ++ [Enter a]) in
  scopedb (r_depth A1) (r_depth A1) h2 = true ->
  Inv_in (r_depth A1) (rev a) (run_from (r_state A1) (r_depth A1) h2).
Proof.
  intros Hw A1 Hs. unfold run_from.
  apply (fold_inv (Inv_in (r_depth A1) (rev a)) (r_depth A1)).
  - intros x o. apply Inv_in_step.
  - apply Inv_in_enter. exact Hw.
  - exact Hs.
Qed.

Lemma inner_stream ins h1 a h2 : well_scoped h1 ->
  let A1 := run ins (h1 ++ [Enter a]) in
  let d := r_depth A1 in
  scopedb d d h2 = true ->
  let vs := scope_vals d (r_events (run_from (r_state A1) d h2)) in
  forall j, j < length vs -> nth j vs 0%Z = nth (j mod length a) (rev a) 0%Z.
Proof.
  intros Hw A1 d Hs vs j Hj.
  destruct (inner_inv ins h1 a h2 Hw Hs) as (pre & c & post & n & _ & _ & _ & _ & Hv & _).
  subst vs d A1. rewrite Hv in *. rewrite cyc_length in Hj.
  rewrite cyc_nth by exact Hj. rewrite rev_length. reflexivity.
Qed.

Lemma inner_nonempty ins h1 a h2 : a <> [] -> well_scoped h1 ->
  let A1 := run ins (h1 ++ [Enter a]) in
  let d := r_depth A1 in
  scopedb d d h2 = true ->
  let vs := scope_vals d (r_events (run_from (r_state A1) d h2)) in
  forall j, j < length vs -> nth j vs 0%Z = nth (j mod length a) (rev a) 0%Z.
Proof. intros _. apply inner_stream. Qed.

Lemma inner_empty ins h1 h2 : well_scoped h1 ->
  let A1 := run ins (h1 ++ [Enter []]) in
  let d := r_depth A1 in
  scopedb d d h2 = true ->
  Forall (fun v => v = 0%Z) (scope_vals d (r_events (run_from (r_state A1) d h2))).
Proof.
  intros Hw A1 d Hs.
  destruct (inner_inv ins h1 [] h2 Hw Hs) as (pre & c & post & n & _ & _ & _ & _ & Hv & _).
  subst d A1. rewrite Hv. apply cyc_all_zero.
Qed.

Lemma enter_depth ins h1 a :
  r_depth (run ins (h1 ++ [Enter a])) = S (depth_from 1 h1).
Proof.
  unfold run. rewrite run_depth. unfold depth_from. rewrite fold_left_app. reflexivity.
Qed.

(* an implicit read below top level never touches the program's own scope *)
Lemma inner_keeps_top ins h k : well_scoped h -> 1 < depth_from 1 h ->
  first_scope (scopes (fst (step (r_state (run ins h)) (Implicit k))))
  = first_scope (scopes (r_state (run ins h))).
Proof.
  intros Hw Hd. destruct (Inv_top_run ins h Hw) as (c & inner & n & Hst & Hdep & _ & _).
  unfold run in Hdep. rewrite run_depth in Hdep. rewrite Hst.
  destruct (snoc_cases inner) as [->|(inner' & [l c'] & ->)]; [cbn in Hdep; lia|].
  rewrite app_comm_cons, step_implicit. reflexivity.
Qed.

(* ---- non-vacuity ------------------------------------------------------------------------ *)
Definition ex_ins : list Z := [3; 4; 5]%Z.
Definition ex_h : list op :=
  [Explicit; Implicit 2; Enter [7; 8]%Z; Implicit 3; Explicit; Enter []; Implicit 2; Explicit; Exit;
   Implicit 1; Exit; Implicit 1].

Lemma ex_well_scoped : well_scoped ex_h.
Proof. reflexivity. Qed.

Lemma ex_top : top_vals (r_events (run ex_ins ex_h)) = [3; 4; 5; 3; 4; 5]%Z.
Proof. vm_compute. reflexivity. Qed.

Lemma ex_all : map ev_vals (r_events (run ex_ins ex_h))
  = [[3]; [4; 5]; []; [8; 7; 8]; [3]; []; [0; 0]; [4]; []; [7]; []; [5]]%Z.
Proof. vm_compute. reflexivity. Qed.

Lemma ex_empty : top_vals (r_events (run [] ex_h)) = [0; 0; 0; 0; 0; 0]%Z.
Proof. vm_compute. reflexivity. Qed.

Lemma ex_inner :
  let A1 := run ex_ins [Explicit; Implicit 2; Enter [7; 8]%Z] in
  let h2 := [Implicit 3; Explicit; Enter []; Implicit 2; Explicit; Exit; Implicit 1] in
  r_depth A1 = 2 /\ scopedb 2 2 h2 = true
  /\ scope_vals 2 (r_events (run_from (r_state A1) 2 h2)) = [8; 7; 8; 7]%Z.
Proof. vm_compute. repeat split. Qed.

Lemma ex_inner_empty :
  let A1 := run ex_ins [Enter [9]%Z; Enter []] in
  let h2 := [Implicit 2; Explicit; Implicit 1] in
  r_depth A1 = 3 /\ scopedb 3 3 h2 = true
  /\ map ev_vals (r_events (run_from (r_state A1) 3 h2)) = [[0; 0]; [3]; [0]]%Z.
Proof. vm_compute. repeat split. Qed.

Lemma ex_cursor : first_scope (scopes (r_state (run ex_ins ex_h))) = (ex_ins, 6).
Proof. vm_compute. reflexivity. Qed.

Lemma ex_pop_short :
  pop_n (init ex_ins) [10; 11]%Z 4 = (mkState [(ex_ins, 2)] false, [], [10; 11; 3; 4]%Z).
Proof. vm_compute. reflexivity. Qed.

(* why well-scopedness is needed: after an Exit at depth 1 ctx.inputs is empty (Python
   raises IndexError at the next read; the model's defaults give 0 instead of input 0) *)
Lemma ex_ill_scoped : well_scoped [Exit; Explicit] -> False.
Proof. discriminate. Qed.
