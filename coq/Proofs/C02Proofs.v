(* C02: the code emitted for a program whose early exits stand where `ctx_ok` allows
   satisfies Python's context conditions (py_wf), for every nesting depth. *)
From Coq Require Import List NArith ZArith Bool Lia.
From Vy Require Import Model.Base Model.Lexer Model.Parser Model.Transpile Model.PyTree Model.PyShape
  Gen.Elements Gen.TemplateShapes Proofs.ParserFacts.
Import ListNotations.

(* ---- wf and wf_list ----------------------------------------------------------------------- *)
Lemma wf_block il idf k body :
  wf il idf (NBlock k body) =
  negb (match body with [] => true | _ => false end)
  && match k with
     | BDef => wf_list false true false body
     | BLoop => wf_list true idf false body
     | BIf | BElse => wf_list il idf false body
     end.
Proof.
  assert (E : forall l a b p,
    (fix wfl (il idf : bool) (prev_if : bool) (l : list pyn) : bool :=
      match l with
      | [] => true
      | x :: r =>
          (match x with NBlock BElse _ => prev_if | _ => true end)
          && wf il idf x
          && wfl il idf (match x with NBlock BIf _ => true | _ => false end) r
      end) a b p l = wf_list a b p l).
  { induction l as [|x l IH]; intros a b p; [reflexivity|]. simpl. rewrite IH. reflexivity. }
  cbn [wf]. destruct k; rewrite E; reflexivity.
Qed.

Definition ends_if (l : list pyn) (p : bool) : bool :=
  match rev l with NBlock BIf _ :: _ => true | [] => p | _ => false end.

Lemma wf_list_app il idf a : forall p b,
  wf_list il idf p (a ++ b) = wf_list il idf p a && wf_list il idf (ends_if a p) b.
Proof.
  induction a as [|x a IH]; intros p b.
  - cbn. reflexivity.
  - cbn [app wf_list]. rewrite IH. rewrite <- !andb_assoc. f_equal. f_equal. f_equal.
    unfold ends_if. cbn [rev].
    destruct (rev a) as [|y r] eqn:E.
    + cbn [app]. destruct x as [| | | | |[] ?]; reflexivity.
    + cbn [app]. reflexivity.
Qed.

Definition no_else_head (l : list pyn) : bool :=
  match l with NBlock BElse _ :: _ => false | _ => true end.

Lemma wf_list_prev il idf p l : no_else_head l = true -> wf_list il idf p l = wf_list il idf false l.
Proof. destruct l as [|x l]; [reflexivity|]. destruct x as [| | | | |[] ?]; cbn; try reflexivity; discriminate. Qed.

Lemma wf_list_app_ne il idf p a b : no_else_head b = true ->
  wf_list il idf p (a ++ b) = wf_list il idf p a && wf_list il idf false b.
Proof. intro H. rewrite wf_list_app. rewrite (wf_list_prev il idf _ b H). reflexivity. Qed.

(* the three facts carried through the induction *)
Definition good (il idf : bool) (l : list pyn) : Prop :=
  wf_list il idf false l = true /\ no_else_head l = true /\ l <> [].

Lemma good_app il idf a b : good il idf a -> good il idf b -> good il idf (a ++ b).
Proof.
  intros [Wa [Na Ea]] [Wb [Nb Eb]]. split; [|split].
  - rewrite wf_list_app_ne by exact Nb. rewrite Wa, Wb. reflexivity.
  - destruct a; [congruence|]. exact Na.
  - destruct a; [congruence|discriminate].
Qed.

Lemma good_cons_simple il idf l : good il idf l -> good il idf (NSimple :: l).
Proof. intro H. apply (good_app il idf [NSimple] l); [|exact H]. repeat split; discriminate. Qed.

Lemma good_single il idf n : wf il idf n = true -> (match n with NBlock BElse _ => false | _ => true end) = true ->
  good il idf [n].
Proof.
  intros W N. split; [|split; [|discriminate]].
  - cbn [wf_list]. rewrite W. destruct n as [| | | | |[] ?]; try reflexivity; discriminate.
  - destruct n as [| | | | |[] ?]; try reflexivity; discriminate.
Qed.

Lemma good_simples il idf l : l <> [] -> Forall (fun n => n = NSimple) l -> good il idf l.
Proof.
  intros Hne H. induction H as [|x l Hx H IH]; [congruence|]. subst x.
  destruct l as [|y l]; [apply good_single; reflexivity|].
  apply good_cons_simple. apply IH. discriminate.
Qed.

(* ---- monotonicity: what is fine without context is fine in every context -------------------- *)
Section PynInd.
  Variable Q : pyn -> Prop.
  Hypothesis HS : Q NSimple. Hypothesis HB : Q NBreak. Hypothesis HC : Q NContinue.
  Hypothesis HR : Q NReturn. Hypothesis HX : Q NBad.
  Hypothesis HK : forall k body, Forall Q body -> Q (NBlock k body).
  Fixpoint pyn_ind' (n : pyn) : Q n :=
    match n with
    | NSimple => HS | NBreak => HB | NContinue => HC | NReturn => HR | NBad => HX
    | NBlock k body =>
        HK k body ((fix go (l : list pyn) : Forall Q l :=
                      match l with [] => Forall_nil _ | x :: r => Forall_cons _ (pyn_ind' x) (go r) end) body)
    end.
End PynInd.

Definition mono_at (n : pyn) : Prop := forall il idf il' idf',
  (il = true -> il' = true) -> (idf = true -> idf' = true) -> wf il idf n = true -> wf il' idf' n = true.

Lemma wf_list_mono_F l : Forall mono_at l -> forall il idf il' idf' p,
  (il = true -> il' = true) -> (idf = true -> idf' = true) ->
  wf_list il idf p l = true -> wf_list il' idf' p l = true.
Proof.
  induction 1 as [|x l Hx _ IH]; intros il idf il' idf' p Hl Hd; [reflexivity|].
  cbn [wf_list]. intro H. apply andb_prop in H as [H H3]. apply andb_prop in H as [H1 H2].
  rewrite H1, (Hx il idf il' idf' Hl Hd H2), (IH il idf il' idf' _ Hl Hd H3). reflexivity.
Qed.

Lemma wf_mono : forall n, mono_at n.
Proof.
  induction n using pyn_ind'; unfold mono_at; intros il idf il' idf' Hl Hd.
  - reflexivity.
  - cbn [wf]. exact Hl.
  - cbn [wf]. exact Hl.
  - cbn [wf]. exact Hd.
  - cbn [wf]. discriminate.
  - rewrite !wf_block. intro W. apply andb_prop in W as [W1 W2]. rewrite W1. cbn [andb].
    destruct k.
    + exact W2.
    + eapply (wf_list_mono_F body H); [| |exact W2]; auto.
    + eapply (wf_list_mono_F body H); [| |exact W2]; auto.
    + eapply (wf_list_mono_F body H); [| |exact W2]; auto.
Qed.

Lemma wf_list_mono l : forall il idf il' idf' p,
  (il = true -> il' = true) -> (idf = true -> idf' = true) ->
  wf_list il idf p l = true -> wf_list il' idf' p l = true.
Proof.
  apply wf_list_mono_F. clear. induction l; constructor; auto. apply wf_mono.
Qed.

(* ---- every template is a valid, context-free statement sequence (regenerated table) ---------- *)
Definition tmpl_good (sh : list pyn) : bool :=
  wf_list false false false sh && no_else_head sh && negb (match sh with [] => true | _ => false end).

Lemma templates_good :
  forallb (fun e => tmpl_good (snd e)) elem_shapes = true /\ forallb (fun e => tmpl_good (snd e)) modif_shapes = true.
Proof. vm_compute. split; reflexivity. Qed.

Lemma tmpl_good_good il idf sh : tmpl_good sh = true -> good il idf sh.
Proof.
  unfold tmpl_good. intro H. apply andb_prop in H as [H H3]. apply andb_prop in H as [H1 H2].
  split; [|split].
  - eapply wf_list_mono; [| |exact H1]; discriminate.
  - exact H2.
  - destruct sh; [discriminate|discriminate].
Qed.

Lemma find_shape_good tbl : forallb (fun e => tmpl_good (snd e)) tbl = true ->
  forall k acc, (forall sh, acc = Some sh -> tmpl_good sh = true) ->
  forall sh, find_shape_in k tbl acc = Some sh -> tmpl_good sh = true.
Proof.
  induction tbl as [|[k' sh'] tbl IH]; intros H k acc Hacc sh; cbn [find_shape_in].
  - apply Hacc.
  - cbn [forallb snd] in H. apply andb_prop in H as [H1 H2]. apply IH; [exact H2|].
    intros s Hs. destruct (str_eqb k k'); [inversion Hs; subst; exact H1|apply Hacc; exact Hs].
Qed.

Lemma elem_shape_good il idf k : good il idf (elem_shape k).
Proof.
  unfold elem_shape. destruct (find_shape_in k elem_shapes None) as [sh|] eqn:E.
  - apply tmpl_good_good. eapply (find_shape_good elem_shapes (proj1 templates_good)); [|exact E]. discriminate.
  - apply good_single; reflexivity.
Qed.

Lemma modif_shape_good il idf m : good il idf (modif_shape m).
Proof.
  unfold modif_shape. destruct (find_shape_in [m] modif_shapes None) as [sh|] eqn:E.
  - apply tmpl_good_good. eapply (find_shape_good modif_shapes (proj2 templates_good)); [|exact E]. discriminate.
  - apply good_single; reflexivity.
Qed.

(* ---- lambdas, list items, if chains ----------------------------------------------------------- *)
Lemma good_block il idf k body :
  match k with BElse => False | _ => True end ->
  good (match k with BDef => false | BLoop => true | _ => il end)
       (match k with BDef => true | _ => idf end) body ->
  good il idf [NBlock k body].
Proof.
  intros Hk [W [_ E]]. apply good_single.
  - rewrite wf_block. destruct body; [congruence|]. cbn [negb andb]. destruct k; exact W.
  - destruct k; try reflexivity. contradiction.
Qed.

Lemma lambda_shape_good il idf body : good false true body -> good il idf (lambda_shape body).
Proof.
  intro Hb. unfold lambda_shape.
  apply (good_app il idf [_] [NSimple; NSimple]); [|apply good_simples; [discriminate|repeat constructor]].
  apply (good_block il idf BDef); [exact I|].
  apply good_app.
  - unfold arity_chain. repeat split; try discriminate; try reflexivity.
  - apply good_app; [apply good_simples; [discriminate|repeat constructor]|].
    apply good_app; [exact Hb|].
    repeat split; try discriminate; try reflexivity.
Qed.

Section Induction.
  (* the shape function applied to sub-structures, with what the induction knows about it *)
  Variable sh : struct -> list pyn.

  Lemma flat_good il idf l : l <> [] ->
    Forall (fun s => forall a b, ctx_ok a b s = true -> good a b (sh s)) l ->
    forallb (ctx_ok il idf) l = true -> good il idf (flat_map sh l).
  Proof.
    intros Hne HF. induction HF as [|y l Hy HF IH]; [congruence|].
    cbn [forallb flat_map]. intro Hc. apply andb_prop in Hc as [H1 H2].
    destruct l as [|z l'].
    - cbn [flat_map]. rewrite app_nil_r. apply Hy. exact H1.
    - apply good_app; [apply Hy; exact H1|]. apply IH; [discriminate|exact H2].
  Qed.

  Lemma ast_good il idf l :
    Forall (fun s => forall a b, ctx_ok a b s = true -> good a b (sh s)) l ->
    forallb (ctx_ok il idf) l = true -> good il idf (ast_with sh l).
  Proof.
    intros HF Hc. unfold ast_with. destruct l as [|x l]; [apply good_single; reflexivity|].
    apply flat_good; [discriminate|assumption|assumption].
  Qed.

  Lemma items_good il idf its :
    Forall (Forall (fun s => forall a b, ctx_ok a b s = true -> good a b (sh s))) its ->
    forallb (fun l => forallb (ctx_ok false true) l) its = true ->
    its <> [] -> good il idf (items_with sh its).
  Proof.
    intros HF. induction HF as [|x its Hx HF IH]; [congruence|].
    cbn [forallb items_with]. intros Hc _. apply andb_prop in Hc as [H1 H2].
    assert (Hd : good il idf [NBlock BDef ([NSimple] ++ ast_with sh x ++ [NBlock BIf [NReturn]; NReturn])]).
    { apply (good_block il idf BDef); [exact I|].
      apply good_app; [apply good_single; reflexivity|].
      apply good_app; [apply ast_good; assumption|].
      repeat split; try discriminate; try reflexivity. }
    change (NBlock BDef ([NSimple] ++ ast_with sh x ++ [NBlock BIf [NReturn]; NReturn])
            :: NSimple :: NBlock BIf [NSimple] :: items_with sh its)
      with ([NBlock BDef ([NSimple] ++ ast_with sh x ++ [NBlock BIf [NReturn]; NReturn])]
            ++ [NSimple; NBlock BIf [NSimple]] ++ items_with sh its).
    apply good_app; [exact Hd|].
    destruct its as [|y its'].
    - cbn [items_with]. rewrite app_nil_r. repeat split; try discriminate; try reflexivity.
    - apply good_app; [repeat split; try discriminate; try reflexivity|]. apply IH; [exact H2|discriminate].
  Qed.

  (* an if chain: (a) wf, (b) starts with a simple statement when `first`, (c) when not
     first it is a single else block that must follow an if block *)
  Lemma ifs_true2 x y rest : ifs_with sh (x :: y :: rest) true
    = [NSimple; NBlock BIf (ast_with sh x)] ++ ifs_with sh (y :: rest) false.
  Proof. reflexivity. Qed.
  Lemma ifs_false2 x y rest : ifs_with sh (x :: y :: rest) false
    = [NBlock BElse (ast_with sh x ++ [NSimple; NBlock BIf (ast_with sh y)] ++ ifs_with sh rest false)].
  Proof. reflexivity. Qed.

  Lemma ifs_good : forall il idf bs,
    Forall (Forall (fun s => forall a b, ctx_ok a b s = true -> good a b (sh s))) bs ->
    forallb (fun l => forallb (ctx_ok il idf) l) bs = true ->
    (bs <> [] -> good il idf (ifs_with sh bs true))
    /\ wf_list il idf true (ifs_with sh bs false) = true.
  Proof.
    (* strong induction on the length, two branches are consumed per round *)
    assert (G : forall n bs, (length bs <= n)%nat -> forall il idf,
      Forall (Forall (fun s => forall a b, ctx_ok a b s = true -> good a b (sh s))) bs ->
      forallb (fun l => forallb (ctx_ok il idf) l) bs = true ->
      (bs <> [] -> good il idf (ifs_with sh bs true))
      /\ wf_list il idf true (ifs_with sh bs false) = true).
    { induction n as [|n IH]; intros bs Hlen il idf HF Hc.
      - destruct bs; [|simpl in Hlen; lia]. split; [congruence|reflexivity].
      - destruct bs as [|x [|y rest]].
        + split; [congruence|reflexivity].
        + (* one branch *)
          inversion HF as [|? ? Hx _]; subst. cbn [forallb] in Hc. rewrite andb_true_r in Hc.
          pose proof (ast_good il idf x Hx Hc) as Gx.
          cbn [ifs_with]. split.
          * intros _. apply (good_app il idf [NSimple] [_]); [apply good_single; reflexivity|].
            apply (good_block il idf BIf); [exact I|exact Gx].
          * cbn [wf_list]. rewrite wf_block. destruct Gx as [W [_ E]].
            destruct (ast_with sh x); [congruence|]. cbn [negb andb]. rewrite W. reflexivity.
        + (* at least two *)
          inversion HF as [|? ? Hx HF']; subst. inversion HF' as [|? ? Hy HF'']; subst.
          cbn [forallb] in Hc. apply andb_prop in Hc as [Hcx Hc']. apply andb_prop in Hc' as [Hcy Hcr].
          pose proof (ast_good il idf x Hx Hcx) as Gx. pose proof (ast_good il idf y Hy Hcy) as Gy.
          assert (Hc'' : forallb (fun l => forallb (ctx_ok il idf) l) (y :: rest) = true)
            by (cbn [forallb]; rewrite Hcy, Hcr; reflexivity).
          destruct (IH (y :: rest) ltac:(simpl in *; lia) il idf HF' Hc'') as [_ Wtl].
          destruct (IH rest ltac:(simpl in *; lia) il idf HF'' Hcr) as [_ Wrest].
          rewrite ifs_true2, ifs_false2. split.
          * intros _. split; [|split; [reflexivity|discriminate]].
            change ([NSimple; NBlock BIf (ast_with sh x)] ++ ifs_with sh (y :: rest) false)
              with (NSimple :: NBlock BIf (ast_with sh x) :: ifs_with sh (y :: rest) false).
            cbn [wf_list]. rewrite wf_block. destruct Gx as [W [_ E]].
            destruct (ast_with sh x) eqn:Ex; [congruence|]. cbn [negb andb]. rewrite W. cbn [andb].
            exact Wtl.
          * cbn [wf_list]. rewrite wf_block.
            destruct Gx as [Wx [Nx Ex]].
            destruct (ast_with sh x ++ [NSimple; NBlock BIf (ast_with sh y)] ++ ifs_with sh rest false) eqn:Eapp.
            { destruct (ast_with sh x); [congruence|discriminate]. }
            rewrite <- Eapp. cbn [negb andb]. rewrite andb_true_r.
            rewrite wf_list_app_ne by reflexivity. rewrite Wx. cbn [andb].
            change ([NSimple; NBlock BIf (ast_with sh y)] ++ ifs_with sh rest false)
              with (NSimple :: NBlock BIf (ast_with sh y) :: ifs_with sh rest false).
            cbn [wf_list]. rewrite wf_block. destruct Gy as [Wy [_ Ey]].
            destruct (ast_with sh y); [congruence|]. cbn [negb andb]. rewrite Wy. cbn [andb]. exact Wrest. }
    intros il idf bs HF Hc. apply (G (length bs) bs (le_n _) il idf HF Hc).
  Qed.
End Induction.

(* ---- the main theorem ---------------------------------------------------------------------------- *)
Lemma good_mono il idf il' idf' l :
  (il = true -> il' = true) -> (idf = true -> idf' = true) -> good il idf l -> good il' idf' l.
Proof. intros Hl Hd [W [N E]]. split; [|split; assumption]. eapply wf_list_mono; eauto. Qed.

Definition P (s : struct) : Prop := forall il idf, ctx_ok il idf s = true -> good il idf (shape s).

Lemma wrapped_good il idf a : P a -> ctx_ok false true a = true ->
  good il idf (match a with
               | SLambda _ body => lambda_shape (ast_with shape body)
               | _ => lambda_shape (shape a)
               end).
Proof.
  intros Pa Hc.
  assert (G : good il idf (lambda_shape (shape a)) ) by (apply lambda_shape_good; apply Pa; exact Hc).
  destruct a; try exact G.
  (* a lambda operand is used as it is *)
  apply (Pa il idf). exact Hc.
Qed.

Lemma shape_good : forall s, P s.
Proof.
  induction s using struct_ind'; intros il idf Hc; cbn [shape ctx_ok] in *.
  - (* SGeneric *) unfold shape_token. destruct (tk t); try (apply good_single; reflexivity). apply elem_shape_good.
  - (* SBreak *) unfold shape_break.
    destruct p as [[]|]; try (apply good_single; reflexivity).
    + apply (good_app il idf [NSimple] [NBreak]); [apply good_single; reflexivity|]. apply good_single; [exact Hc|reflexivity].
    + apply (good_app il idf [NSimple] [NBreak]); [apply good_single; reflexivity|]. apply good_single; [exact Hc|reflexivity].
    + apply (good_app il idf [NSimple; NSimple; NSimple; NSimple; NSimple] [NReturn]);
        [apply good_simples; [discriminate|repeat constructor]|]. apply good_single; [exact Hc|reflexivity].
  - (* SRecurse *) unfold shape_recurse.
    destruct p as [[]|]; try (apply good_single; reflexivity).
    + apply (good_app il idf [NSimple] [NContinue]); [apply good_single; reflexivity|]. apply good_single; [exact Hc|reflexivity].
    + apply (good_app il idf [NSimple] [NContinue]); [apply good_single; reflexivity|]. apply good_single; [exact Hc|reflexivity].
  - (* SIf *) apply andb_prop in Hc as [Hne Hc]. destruct bs as [|b bs']; [discriminate|].
    apply (ifs_good shape il idf (b :: bs') H Hc). discriminate.
  - (* SFor *) apply (good_block il idf BLoop); [exact I|].
    apply good_app; [apply good_single; reflexivity|].
    apply good_app; [apply (ast_good shape); assumption|apply good_single; reflexivity].
  - (* SWhile *) apply andb_prop in Hc as [Hc Hb]. apply andb_prop in Hc as [Hc0 Hc1].
    apply good_app.
    + eapply good_mono; [| |apply (ast_good shape false idf c H Hc0)]; [discriminate|auto].
    + apply (good_app il idf [NSimple] [_]); [apply good_single; reflexivity|].
      apply (good_block il idf BLoop); [exact I|].
      apply good_app; [apply good_single; reflexivity|].
      apply good_app; [apply (ast_good shape); assumption|].
      apply good_app; [apply good_single; reflexivity|].
      apply good_app; [apply (ast_good shape); assumption|apply good_single; reflexivity].
  - (* SFnCall *) apply good_single; reflexivity.
  - (* SFnDef *) apply (good_block il idf BDef); [exact I|].
    rewrite app_assoc. apply good_app.
    + apply good_simples; [discriminate|]. constructor; [reflexivity|]. clear. induction ps; constructor; auto.
    + apply good_app; [apply good_simples; [discriminate|repeat constructor]|].
      apply good_app; [apply (ast_good shape); assumption|].
      repeat split; try discriminate; try reflexivity.
  - (* SLambda *) apply lambda_shape_good. apply (ast_good shape); assumption.
  - (* SLamOp *) apply good_app; [|apply elem_shape_good]. apply lambda_shape_good. apply (ast_good shape); assumption.
  - (* SList *) destruct items as [|it its].
    + cbn [items_with app]. apply good_simples; [discriminate|repeat constructor].
    + apply good_app; [apply good_single; reflexivity|].
      apply good_app; [|apply good_single; reflexivity].
      apply (items_good shape); [assumption|assumption|discriminate].
  - (* SMod1 *) apply good_app; [apply wrapped_good; assumption|].
    apply good_app; [apply good_single; reflexivity|apply modif_shape_good].
  - (* SMod2 *) apply andb_prop in Hc as [Ha Hb].
    apply good_app; [apply wrapped_good; assumption|].
    apply good_app; [apply good_single; reflexivity|].
    apply good_app; [apply wrapped_good; assumption|].
    apply good_app; [apply good_single; reflexivity|apply modif_shape_good].
  - (* SMod3 *) apply andb_prop in Hc as [Hab Hc3]. apply andb_prop in Hab as [Ha Hb].
    apply good_app; [apply wrapped_good; assumption|].
    apply good_app; [apply good_single; reflexivity|].
    apply good_app; [apply wrapped_good; assumption|].
    apply good_app; [apply good_single; reflexivity|].
    apply good_app; [apply wrapped_good; assumption|].
    apply good_app; [apply good_single; reflexivity|apply modif_shape_good].
Qed.

Theorem program_py_wf l :
  forallb (ctx_ok false false) l = true -> py_wf (shape_program l) = true.
Proof.
  intro H. unfold py_wf, shape_program.
  assert (G : good false false (ast_with shape l)).
  { apply (ast_good shape); [|exact H]. clear. induction l; constructor; auto. exact (shape_good a). }
  destruct G as [W [_ E]]. rewrite W. destruct (ast_with shape l); [congruence|reflexivity].
Qed.

(* the side condition is about early exits only: a program without X / x (and without
   an empty if) always satisfies it *)
Fixpoint no_jumps (s : struct) : bool :=
  match s with
  | SBreak _ | SRecurse _ => false
  | SGeneric _ | SFnCall _ => true
  | SIf bs => negb (match bs with [] => true | _ => false end) && forallb (forallb no_jumps) bs
  | SFor _ b | SFnDef _ _ b | SLambda _ b | SLamOp _ b => forallb no_jumps b
  | SWhile c b => forallb no_jumps c && forallb no_jumps b
  | SList its => forallb (forallb no_jumps) its
  | SMod1 _ a => no_jumps a
  | SMod2 _ a b => no_jumps a && no_jumps b
  | SMod3 _ a b c => no_jumps a && no_jumps b && no_jumps c
  end.

Lemma forallb_impl {A} (f g : A -> bool) l :
  Forall (fun x => f x = true -> g x = true) l -> forallb f l = true -> forallb g l = true.
Proof. induction 1 as [|x l Hx _ IH]; simpl; intro Hf; [reflexivity|]. apply andb_prop in Hf as [H1 H2]. rewrite Hx by exact H1. auto. Qed.

Lemma no_jumps_ctx_ok : forall s il idf, no_jumps s = true -> ctx_ok il idf s = true.
Proof.
  induction s using struct_ind'; intros il idf Hn; cbn [no_jumps ctx_ok] in *; try reflexivity; try discriminate.
  - apply andb_prop in Hn as [H1 H2]. rewrite H1. cbn [andb].
    eapply forallb_impl; [|exact H2]. eapply Forall_impl; [|exact H].
    intros b Hb Hf. eapply forallb_impl; [|exact Hf]. eapply Forall_impl; [|exact Hb]. intros x Hx; apply Hx.
  - eapply forallb_impl; [|exact Hn]. eapply Forall_impl; [|exact H]. intros x Hx; apply Hx.
  - apply andb_prop in Hn as [H1 H2].
    assert (A : forall q, forallb (ctx_ok q idf) c = true).
    { intro q. eapply forallb_impl; [|exact H1]. eapply Forall_impl; [|exact H]. intros x Hx; apply Hx. }
    assert (B : forallb (ctx_ok true idf) b = true).
    { eapply forallb_impl; [|exact H2]. eapply Forall_impl; [|exact H0]. intros x Hx; apply Hx. }
    rewrite !A, B.
    reflexivity.
  - eapply forallb_impl; [|exact Hn]. eapply Forall_impl; [|exact H]. intros x Hx; apply Hx.
  - eapply forallb_impl; [|exact Hn]. eapply Forall_impl; [|exact H]. intros x Hx; apply Hx.
  - eapply forallb_impl; [|exact Hn]. eapply Forall_impl; [|exact H]. intros x Hx; apply Hx.
  - eapply forallb_impl; [|exact Hn]. eapply Forall_impl; [|exact H].
    intros b Hb Hf. eapply forallb_impl; [|exact Hf]. eapply Forall_impl; [|exact Hb]. intros x Hx; apply Hx.
  - apply IHs. exact Hn.
  - apply andb_prop in Hn as [H1 H2]. rewrite IHs1, IHs2 by assumption. reflexivity.
  - apply andb_prop in Hn as [H12 H3]. apply andb_prop in H12 as [H1 H2]. rewrite IHs1, IHs2, IHs3 by assumption. reflexivity.
Qed.

Theorem program_without_jumps_py_wf l :
  forallb no_jumps l = true -> py_wf (shape_program l) = true.
Proof.
  intro H. apply program_py_wf. eapply forallb_impl; [|exact H].
  clear. induction l; constructor; auto. intros; apply no_jumps_ctx_ok; assumption.
Qed.
