(* C06: quoting a string and evaluating the quoted text returns the same string. *)
From Coq Require Import List NArith ZArith Bool Lia ZifyBool String Ascii.
From Vy Require Import Model.Base Model.Lexer Model.Parser Model.Transpile Model.Literals Model.Quote
  Gen.ParserConsts Gen.Codepage Proofs.C04Lex Proofs.C03Lex Proofs.C05Proofs.
Import ListNotations.
Open Scope N_scope.

(* ---- quotify is a per-character substitution ------------------------------------------------ *)
Lemma replace_char_app c b x y : replace_char c b (x ++ y) = replace_char c b x ++ replace_char c b y.
Proof. unfold replace_char. apply flat_map_app. Qed.

Lemma quote_body_cons c s : quote_body (c :: s) = quote_char c ++ quote_body s.
Proof.
  unfold quote_body, quote_char.
  change (replace_char 92 [92; 92] (c :: s))
    with ((if N.eqb c 92 then [92; 92] else [c]) ++ replace_char 92 [92; 92] s).
  rewrite replace_char_app. f_equal.
  destruct (N.eqb c 92) eqn:E1; [reflexivity|].
  unfold replace_char. cbn [flat_map app]. destruct (N.eqb c 96); reflexivity.
Qed.

Lemma quote_body_nil : quote_body [] = [].
Proof. reflexivity. Qed.

(* ---- the lexer's string mode on a quoted body -------------------------------------------------- *)
Lemma step_string_plain dv acc c : N.eqb c 96 = false -> N.eqb c 92 = false ->
  step dv (MString 96 acc) c = (MString 96 (acc ++ [c]), []).
Proof.
  intros H1 H2. cbn [step]. rewrite H1. change ch_backslash with 92. rewrite H2, andb_false_r. reflexivity.
Qed.

Lemma step_string_backslash dv acc : step dv (MString 96 acc) 92 = (MStringEsc acc, []).
Proof. reflexivity. Qed.

Lemma step_string_esc dv acc c : step dv (MStringEsc acc) c = (MString 96 (acc ++ [92; c]), []).
Proof. reflexivity. Qed.

Lemma run_quote_char dv c : forall acc rest,
  run dv (MString 96 acc) (quote_char c ++ rest) = run dv (MString 96 (acc ++ quote_char c)) rest.
Proof.
  intros acc rest. unfold quote_char.
  destruct (N.eqb c 92) eqn:E1; [|destruct (N.eqb c 96) eqn:E2].
  - cbn [app]. rewrite run_cons, step_string_backslash. cbn [fst snd app].
    rewrite run_cons, step_string_esc. reflexivity.
  - cbn [app]. rewrite run_cons, step_string_backslash. cbn [fst snd app].
    rewrite run_cons, step_string_esc. reflexivity.
  - cbn [app]. rewrite run_cons, (step_string_plain dv acc c E2 E1). reflexivity.
Qed.

Lemma run_quote_body dv s : forall acc rest,
  run dv (MString 96 acc) (quote_body s ++ rest) = run dv (MString 96 (acc ++ quote_body s)) rest.
Proof.
  induction s as [|c s IH]; intros acc rest.
  - rewrite quote_body_nil, app_nil_r. reflexivity.
  - rewrite quote_body_cons, <- app_assoc, run_quote_char, IH, <- app_assoc. reflexivity.
Qed.

Lemma run_quote_body_end dv s acc :
  run dv (MString 96 acc) (quote_body s) = [Tok KString (acc ++ quote_body s)].
Proof.
  pose proof (run_quote_body dv s acc []) as H. rewrite app_nil_r in H. rewrite H. reflexivity.
Qed.

Lemma run_string_close dv acc rest :
  run dv (MString 96 acc) (96 :: rest) = Tok KString acc :: run dv MNormal rest.
Proof. reflexivity. Qed.

Lemma step_normal_backquote : step_normal 96 = (MString 96 [], []).
Proof. vm_compute. reflexivity. Qed.

Lemma backquote_starter : starter_plain 96 = true.
Proof. vm_compute. reflexivity. Qed.

(* the quoted text is lexed as exactly one STRING token whose value is the quoted body *)
Theorem tokenise_quotify s : tokenise (quotify_str s) = [Tok KString (quote_body s)].
Proof.
  unfold tokenise, tokenise_dv, quotify_str. cbn [app].
  rewrite run_normal_cons, step_normal_backquote. cbn [fst snd app].
  rewrite run_quote_body, run_string_close. reflexivity.
Qed.

(* ... and so is a back-quoted literal anywhere in a program, closed or cut off by the end *)
Theorem lex_backquoted pre s post : flushing (mode_after pre) = true ->
  tokenise (pre ++ 96 :: quote_body s ++ 96 :: post)
  = tokenise pre ++ Tok KString (quote_body s) :: tokenise post.
Proof.
  unfold mode_after, tokenise, tokenise_dv. intro Hm.
  rewrite run_app, (run_state_run false pre MNormal), <- app_assoc. f_equal.
  rewrite run_cons, (step_flushing_starter false _ 96 Hm backquote_starter), step_normal_backquote.
  cbn [fst snd]. rewrite app_nil_r. f_equal.
  rewrite run_quote_body, run_string_close. reflexivity.
Qed.

Theorem lex_backquoted_unterminated pre s : flushing (mode_after pre) = true ->
  tokenise (pre ++ 96 :: quote_body s) = tokenise pre ++ [Tok KString (quote_body s)].
Proof.
  unfold mode_after, tokenise, tokenise_dv. intro Hm.
  rewrite run_app, (run_state_run false pre MNormal), <- app_assoc. f_equal.
  rewrite run_cons, (step_flushing_starter false _ 96 Hm backquote_starter), step_normal_backquote.
  cbn [fst snd]. rewrite app_nil_r. f_equal.
  rewrite run_quote_body_end. reflexivity.
Qed.

(* ---- re-escaping and Python's decoding ------------------------------------------------------------- *)
Lemma quotable_raw c : quotable_char c = true ->
  N.eqb c 92 = false -> N.eqb c 34 = false -> N.eqb c 10 = false -> N.eqb c 13 = false -> py_raw_char c = true.
Proof.
  unfold quotable_char, py_raw_char. intros H H1 H2 H3 H4.
  repeat (apply andb_prop in H as [H ?]).
  rewrite H, H1, H2, H3, H4. cbn [negb andb].
  repeat match goal with X : _ = true |- _ => rewrite X end. reflexivity.
Qed.

Lemma decode_escape_quote_char c X : quotable_char c = true ->
  py_dq_decode (escape_string (quote_char c ++ X)) = opt_cons c (py_dq_decode (escape_string X)).
Proof.
  intro Hq. unfold quote_char.
  destruct (N.eqb c 92) eqn:E1; [|destruct (N.eqb c 96) eqn:E2].
  - apply N.eqb_eq in E1. subst c. reflexivity.
  - apply N.eqb_eq in E2. subst c. reflexivity.
  - cbn [app escape_string]. rewrite E1.
    destruct (N.eqb c 34) eqn:E3.
    + apply N.eqb_eq in E3. subst c. reflexivity.
    + change nl with 10. destruct (N.eqb c 10) eqn:E4.
      * apply N.eqb_eq in E4. subst c. reflexivity.
      * destruct (N.eqb c 13) eqn:E5.
        -- apply N.eqb_eq in E5. subst c. reflexivity.
        -- cbn [py_dq_decode]. rewrite E1, (quotable_raw c Hq E1 E3 E4 E5). reflexivity.
Qed.

Theorem decode_escape_quote_body s : forallb quotable_char s = true ->
  py_dq_decode (escape_string (quote_body s)) = Some s.
Proof.
  induction s as [|c s IH]; intro H; [reflexivity|].
  cbn [forallb] in H. apply andb_prop in H as [Hc Hs].
  rewrite quote_body_cons, (decode_escape_quote_char c _ Hc), (IH Hs). reflexivity.
Qed.

Lemma codepage_quotable : forallb quotable_char codepage = true.
Proof. vm_compute. reflexivity. Qed.

Lemma in_codepage_quotable s : forallb (fun c => mem c codepage) s = true -> forallb quotable_char s = true.
Proof.
  intro H. apply forallb_forall. intros c Hc. rewrite forallb_forall in H. specialize (H c Hc).
  pose proof codepage_quotable as P. rewrite forallb_forall in P. apply P. apply mem_In. exact H.
Qed.

(* ---- C06_raw ------------------------------------------------------------------------------------------ *)
Theorem quote_roundtrip_raw s : forallb quotable_char s = true ->
  exists v, tokenise (quotify_str s) = [Tok KString v]
    /\ py_dq_decode (escape_string v) = Some s
    /\ exists text, token_text (fun x => x) (Tok KString v) = TOk text /\ pushed_string text = Some s.
Proof.
  intro H. exists (quote_body s). split; [apply tokenise_quotify|].
  pose proof (decode_escape_quote_body s H) as D. split; [exact D|].
  eexists. split; [reflexivity|].
  unfold pushed_string. cbn [tv]. rewrite strip_prefix_app, strip_suffix_app. exact D.
Qed.

Theorem quote_roundtrip_codepage s : forallb (fun c => mem c codepage) s = true ->
  exists v, tokenise (quotify_str s) = [Tok KString v]
    /\ py_dq_decode (escape_string v) = Some s
    /\ exists text, token_text (fun x => x) (Tok KString v) = TOk text /\ pushed_string text = Some s.
Proof. intro H. apply quote_roundtrip_raw. apply in_codepage_quotable. exact H. Qed.

(* outside the class the claim is false: a NUL character is emitted raw, and Python source cannot hold one *)
Theorem quote_roundtrip_needs_class :
  exists s, tokenise (quotify_str s) = [Tok KString (quote_body s)]
    /\ py_dq_decode (escape_string (quote_body s)) = None.
Proof. exists [0]. vm_compute. split; reflexivity. Qed.

(* ---- C06_backquote ---------------------------------------------------------------------------------------- *)
Theorem backquoted_literal pre s post :
  flushing (mode_after pre) = true -> forallb quotable_char s = true ->
  tokenise (pre ++ 96 :: quote_body s ++ 96 :: post) = tokenise pre ++ Tok KString (quote_body s) :: tokenise post
  /\ tokenise (pre ++ 96 :: quote_body s) = tokenise pre ++ [Tok KString (quote_body s)]
  /\ exists text, token_text (fun x => x) (Tok KString (quote_body s)) = TOk text /\ pushed_string text = Some s.
Proof.
  intros Hm Hs. split; [apply lex_backquoted; exact Hm|]. split; [apply lex_backquoted_unterminated; exact Hm|].
  eexists. split; [reflexivity|].
  unfold pushed_string. cbn [tv]. rewrite strip_prefix_app, strip_suffix_app.
  apply decode_escape_quote_body. exact Hs.
Qed.

(* ---- C06_dict ------------------------------------------------------------------------------------------------ *)
Section DictProofs.
  Variable small : list str.
  Variable contents : list str.

  Lemma ud_quote_char c ret : mem c compression = false ->
    fold_left (ud_step small contents) (quote_char c) (ret, None, false) = (ret ++ quote_char c, None, false).
  Proof.
    intro Hc. unfold quote_char.
    destruct (N.eqb c 92) eqn:E1; [|destruct (N.eqb c 96) eqn:E2].
    - apply N.eqb_eq in E1. subst c. cbn [fold_left ud_step N.eqb Pos.eqb]. rewrite Hc, <- app_assoc. reflexivity.
    - apply N.eqb_eq in E2. subst c. cbn [fold_left ud_step N.eqb Pos.eqb]. rewrite Hc, <- app_assoc. reflexivity.
    - cbn [fold_left ud_step]. rewrite E1, Hc. reflexivity.
  Qed.

  Lemma ud_quote_body s : forall ret, forallb (fun c => negb (mem c compression)) s = true ->
    fold_left (ud_step small contents) (quote_body s) (ret, None, false) = (ret ++ quote_body s, None, false).
  Proof.
    induction s as [|c s IH]; intros ret H.
    - rewrite quote_body_nil, app_nil_r. reflexivity.
    - cbn [forallb] in H. apply andb_prop in H as [Hc Hs]. apply negb_true_iff in Hc.
      rewrite quote_body_cons, fold_left_app, (ud_quote_char c ret Hc), (IH _ Hs), <- app_assoc. reflexivity.
  Qed.

  (* strings without dictionary-compression characters pass through unchanged *)
  Theorem uncompress_dict_quote_body s : forallb (fun c => negb (mem c compression)) s = true ->
    uncompress_dict small contents (quote_body s) = quote_body s.
  Proof.
    intro H. unfold uncompress_dict.
    etransitivity; [apply (f_equal (ud_finish small)); exact (ud_quote_body s [] H) | reflexivity].
  Qed.

  Lemma compression_not_printable : forallb (fun c => negb (printable_ascii c) && negb (N.eqb c 10)) compression = true.
  Proof. vm_compute. reflexivity. Qed.

  Lemma printable_not_compression c : printable_ascii c = true -> mem c compression = false.
  Proof.
    intro H. destruct (mem c compression) eqn:M; [|reflexivity]. apply mem_In in M.
    pose proof compression_not_printable as P. rewrite forallb_forall in P. specialize (P c M).
    rewrite H in P. discriminate.
  Qed.

  Lemma printable_quotable c : printable_ascii c = true -> quotable_char c = true.
  Proof.
    unfold printable_ascii, quotable_char. intro H. apply andb_prop in H as [H1 H2].
    apply N.leb_le in H1. apply N.leb_le in H2.
    assert (E0 : N.eqb c 0 = false) by (apply N.eqb_neq; lia).
    assert (Es : (55296 <=? c) = false) by (apply N.leb_gt; lia).
    assert (Em : (c <=? 1114111) = true) by (apply N.leb_le; lia).
    rewrite E0, Es, Em. reflexivity.
  Qed.

  Theorem quote_roundtrip_dict s : forallb printable_ascii s = true ->
    exists v, tokenise (quotify_str s) = [Tok KString v]
      /\ uncompress_dict small contents v = v
      /\ exists text, token_text (uncompress_dict small contents) (Tok KString v) = TOk text
                      /\ pushed_string text = Some s.
  Proof.
    intro H. exists (quote_body s). split; [apply tokenise_quotify|].
    assert (Hc : forallb (fun c => negb (mem c compression)) s = true).
    { apply forallb_forall. intros c Hin. rewrite forallb_forall in H.
      rewrite (printable_not_compression c (H c Hin)). reflexivity. }
    assert (Hq : forallb quotable_char s = true).
    { apply forallb_forall. intros c Hin. rewrite forallb_forall in H. apply printable_quotable. exact (H c Hin). }
    pose proof (uncompress_dict_quote_body s Hc) as U. split; [exact U|].
    eexists. split; [reflexivity|].
    unfold pushed_string. cbn [tv]. rewrite U, strip_prefix_app, strip_suffix_app.
    apply decode_escape_quote_body. exact Hq.
  Qed.
End DictProofs.

(* with compression on, the claim stops at the compression characters: λ alone is looked up
   in the short dictionary *)
Theorem dict_changes_compression_chars :
  exists small contents s,
    forallb (fun c => mem c codepage) s = true
    /\ uncompress_dict small contents (quote_body s) <> quote_body s.
Proof. exists [[97; 98]], [], [955]. split; [vm_compute; reflexivity|]. vm_compute. discriminate. Qed.

(* ---- non-vacuity ------------------------------------------------------------------------------------------------ *)
(* s = a, backslash, back-quote, double quote, newline, lambda: every escape-relevant case *)
Example raw_example :
  let s := [97; 92; 96; 34; 10; 955] in
  forallb (fun c => mem c codepage) s = true
  /\ quotify_str s = [96; 97; 92; 92; 92; 96; 34; 10; 955; 96]
  /\ tokenise (quotify_str s) = [Tok KString [97; 92; 92; 92; 96; 34; 10; 955]]
  /\ escape_string [97; 92; 92; 92; 96; 34; 10; 955] = [97; 92; 92; 96; 92; 34; 92; 110; 955]
  /\ py_dq_decode [97; 92; 92; 96; 92; 34; 92; 110; 955] = Some s
  /\ py_dq_decode [92; 97] = None /\ py_dq_decode [34] = None /\ py_dq_decode [97; 92] = None.
Proof. vm_compute. repeat split; reflexivity. Qed.

Example dict_example :
  let s := [104; 105; 32; 92; 96] in
  forallb printable_ascii s = true
  /\ uncompress_dict [[120]] [[121]] (quote_body s) = quote_body s
  /\ uncompress_dict [[120]] [[121]] [955; 955; 97; 955] = [121; 97; 120]
  /\ flushing (mode_after [49; 32]) = true.
Proof. vm_compute. repeat split; reflexivity. Qed.
