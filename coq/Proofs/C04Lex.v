(* C04, lexer part: an unterminated string ends at the end of input exactly as if it
   were closed, and closer characters after code are lexed as closer tokens. *)
From Coq Require Import List NArith Bool Lia.
From Vy Require Import Model.Base Model.Lexer Model.Parser Gen.ParserConsts Proofs.ParserFacts Proofs.C04Proofs.
Import ListNotations.
Open Scope N_scope.

(* mode and tokens after reading s, without the end-of-input flush *)
Fixpoint run_state (dv : bool) (m : mode) (s : str) : mode * list token :=
  match s with
  | [] => (m, [])
  | c :: r => let '(m', out) := step dv m c in let '(m'', out') := run_state dv m' r in (m'', out ++ out')
  end.

Lemma run_app dv s t : forall m,
  run dv m (s ++ t) = snd (run_state dv m s) ++ run dv (fst (run_state dv m s)) t.
Proof.
  induction s as [|c s IH]; intro m; [reflexivity|].
  cbn [app run run_state]. destruct (step dv m c) as [m' out]. rewrite IH.
  destruct (run_state dv m' s) as [m'' out']. cbn [fst snd]. rewrite app_assoc. reflexivity.
Qed.

Lemma run_state_run dv s m : run dv m s = snd (run_state dv m s) ++ flush (fst (run_state dv m s)).
Proof. rewrite <- (app_nil_r s) at 1. rewrite run_app. reflexivity. Qed.

Definition mode_after (s : str) : mode := fst (run_state false MNormal s).

(* --- closing an open string changes nothing ------------------------------------- *)
Lemma tokenise_close_string s d acc :
  mode_after s = MString d acc -> tokenise (s ++ [d]) = tokenise s.
Proof.
  unfold mode_after, tokenise, tokenise_dv. intro H.
  rewrite run_app, (run_state_run false s MNormal), H.
  cbn [run step flush]. rewrite N.eqb_refl. reflexivity.
Qed.

Lemma mode_after_close_string s d acc :
  mode_after s = MString d acc -> mode_after (s ++ [d]) = MNormal.
Proof.
  unfold mode_after. intro H.
  assert (G : forall dv s t m, run_state dv m (s ++ t) =
              let '(m1, o1) := run_state dv m s in let '(m2, o2) := run_state dv m1 t in (m2, o1 ++ o2)).
  { clear. intros dv s t. induction s as [|c s IH]; intro m; cbn [app run_state].
    - destruct (run_state dv m t); reflexivity.
    - destruct (step dv m c) as [m' out]. rewrite IH. destruct (run_state dv m' s) as [m1 o1].
      destruct (run_state dv m1 t) as [m2 o2]. rewrite app_assoc. reflexivity. }
  rewrite G. destruct (run_state false MNormal s) as [m1 o1]. cbn [fst] in H. subst m1.
  cbn [run_state step]. rewrite N.eqb_refl. reflexivity.
Qed.

(* --- closer characters after code ------------------------------------------------- *)
Definition flushing (m : mode) : bool :=
  match m with MNormal | MZero | MNumber _ | MVar _ _ => true | _ => false end.

(* a closer character has no role in the lexer *)
Definition closer_char_lex_plain (c : N) : bool :=
  negb (mem c lex_escape) && negb (mem c lex_string_delims) && negb (mem c lex_number_chars)
  && negb (mem c lex_twochar) && negb (mem c lex_var) && negb (mem c lex_comment)
  && negb (mem c lex_digraph) && negb (mem c lex_cpnum) && negb (is_name_char c)
  && negb (N.eqb c ch_degree) && negb (N.eqb c ch_dot).

Lemma closers_lex_plain : forallb closer_char_lex_plain closers = true.
Proof. vm_compute. reflexivity. Qed.

Lemma step_normal_closer c : closer_char_lex_plain c = true ->
  step_normal c = (MNormal, [Tok KGeneral [c]]).
Proof.
  unfold closer_char_lex_plain. intro H. repeat (apply andb_prop in H as [H ?]).
  repeat match goal with X : negb _ = true |- _ => apply negb_true_iff in X end.
  unfold step_normal. repeat match goal with X : _ = false |- _ => rewrite X end. reflexivity.
Qed.

Lemma step_flushing_closer dv m c : flushing m = true -> closer_char_lex_plain c = true ->
  step dv m c = (MNormal, flush m ++ [Tok KGeneral [c]]).
Proof.
  intros Hm Hc. pose proof (step_normal_closer c Hc) as Hn.
  unfold closer_char_lex_plain in Hc. repeat (apply andb_prop in Hc as [Hc ?]).
  repeat match goal with X : negb _ = true |- _ => apply negb_true_iff in X end.
  destruct m; try discriminate; cbn [step flush app].
  - exact Hn.
  - repeat match goal with X : _ = false |- _ => rewrite X end. cbn [orb]. rewrite Hn. reflexivity.
  - repeat match goal with X : _ = false |- _ => rewrite X end. cbn [andb]. rewrite Hn. reflexivity.
  - repeat match goal with X : _ = false |- _ => rewrite X end. rewrite Hn. reflexivity.
Qed.

Definition gen_tok (c : N) : token := Tok KGeneral [c].

Lemma run_flushing_closers dv cs : forall m, flushing m = true ->
  forallb closer_char_lex_plain cs = true -> run dv m cs = flush m ++ map gen_tok cs.
Proof.
  induction cs as [|c cs IH]; intros m Hm Hcs; cbn [run map].
  - rewrite app_nil_r. reflexivity.
  - cbn [forallb] in Hcs. apply andb_prop in Hcs as [Hc Hcs].
    rewrite (step_flushing_closer dv m c Hm Hc). rewrite (IH MNormal eq_refl Hcs).
    cbn [flush app]. rewrite <- app_assoc. reflexivity.
Qed.

Lemma closers_chars_lex_plain cs : forallb (fun c => mem c closers) cs = true ->
  forallb closer_char_lex_plain cs = true.
Proof.
  intro H. apply forallb_forall. intros c Hc. rewrite forallb_forall in H. specialize (H c Hc).
  pose proof closers_lex_plain as P. rewrite forallb_forall in P. apply P. apply mem_In. exact H.
Qed.

Lemma tokenise_append_closers s cs :
  flushing (mode_after s) = true -> forallb (fun c => mem c closers) cs = true ->
  tokenise (s ++ cs) = tokenise s ++ map gen_tok cs.
Proof.
  unfold mode_after, tokenise, tokenise_dv. intros Hm Hcs.
  rewrite run_app, (run_state_run false s MNormal).
  rewrite (run_flushing_closers false cs _ Hm (closers_chars_lex_plain cs Hcs)).
  rewrite app_assoc. reflexivity.
Qed.

Lemma gen_toks_closers cs : forallb (fun c => mem c closers) cs = true ->
  forallb closer_tok (map gen_tok cs) = true.
Proof.
  induction cs as [|c cs IH]; cbn [forallb map]; intro H; [reflexivity|].
  apply andb_prop in H as [Hc Hcs]. rewrite (IH Hcs), andb_true_r.
  unfold closer_tok, gen_tok, is_general, value_in. cbn [tk tv tkind_eqb andb]. exact Hc.
Qed.

(* --- source level ------------------------------------------------------------------ *)
Theorem source_drop_closers s cs l1 :
  flushing (mode_after s) = true -> forallb (fun c => mem c closers) cs = true ->
  parse_source (s ++ cs) = Ok l1 -> exists l2, parse_source s = Ok l2 /\ same l1 l2.
Proof.
  unfold parse_source. intros Hm Hcs H. rewrite (tokenise_append_closers s cs Hm Hcs) in H.
  eapply parse_tokens_drop_closers; [apply gen_toks_closers; exact Hcs | exact H].
Qed.

Theorem source_drop_string_delimiter_and_closers s d acc cs l1 :
  mode_after s = MString d acc -> forallb (fun c => mem c closers) cs = true ->
  parse_source (s ++ [d] ++ cs) = Ok l1 -> exists l2, parse_source s = Ok l2 /\ same l1 l2.
Proof.
  intros Hm Hcs H. rewrite app_assoc in H.
  apply source_drop_closers in H; [| rewrite (mode_after_close_string s d acc Hm); reflexivity | exact Hcs].
  destruct H as [l2 [H2 Hs]]. exists l2. split; [|exact Hs].
  unfold parse_source in *. rewrite (tokenise_close_string s d acc Hm) in H2. exact H2.
Qed.
