(* C18, part 2: every safe core other than the string shape is one physical line (so the
   hypothesis of C18Base.Indent is discharged), decimal numerals, number tokens, the
   re-escaping loop of the STRING branch, the sanitising classes, the repr table. *)
From Coq Require Import List NArith ZArith Bool Lia Arith String Ascii.
From Vy Require Import Model.Base Model.Lexer Model.Parser Model.Transpile Model.Provenance
  Gen.ParserConsts Gen.Codepage Gen.Elements Proofs.C18Base.
Import ListNotations.
Open Scope N_scope.
Arguments N.eqb : simpl never.
Arguments N.leb : simpl never.

(* ---- the vocabulary has no newline ------------------------------------------------------- *)
Lemma fixed_nonl : forallb (fun l => negb (mem nl l)) fixed_vocab = true.
Proof. vm_compute. reflexivity. Qed.

Lemma char_reprs_nonl : forallb (fun r => negb (mem nl r)) (map snd char_reprs) = true.
Proof. vm_compute. reflexivity. Qed.

Lemma lines_nonl_each t l : In l (lines t) -> mem nl l = false.
Proof.
  intro H. pose proof (split_on_segments_nomem nl t [] eq_refl) as F.
  rewrite Forall_forall in F. apply F. exact H.
Qed.

Lemma template_lines_nonl l : In l template_lines -> mem nl l = false.
Proof.
  unfold template_lines. intro H. apply in_app_or in H as [H|H];
    apply in_flat_map in H as [e [_ H]]; eapply lines_nonl_each; exact H.
Qed.

Lemma template_vocab_nonl x : In x template_vocab -> mem nl x = false.
Proof.
  unfold template_vocab. intro H. apply in_map_iff in H as [l [<- Hl]].
  apply strip_sp_nonl. apply template_lines_nonl. exact Hl.
Qed.

(* ---- payload conditions exclude the newline -------------------------------------------------- *)
Lemma is_dec_forallb s : is_dec s = true -> forallb is_digit s = true.
Proof. destruct s; [discriminate|]. intro H. exact H. Qed.

Lemma is_dec_nonl s : is_dec s = true -> mem nl s = false.
Proof. intro H. apply is_dec_forallb in H. apply (forallb_mem_false _ _ _ H). reflexivity. Qed.

Lemma is_dec_Z_nonl s : is_dec_Z s = true -> mem nl s = false.
Proof.
  unfold is_dec_Z. intro H. apply orb_true_iff in H as [H|H]; [apply is_dec_nonl; exact H|].
  destruct s as [|c r]; [discriminate|].
  destruct (N.eqb c 45) eqn:E.
  - apply N.eqb_eq in E. subst c. simpl. rewrite (is_dec_nonl r H). reflexivity.
  - exfalso. destruct c as [|p]; [discriminate|].
    do 6 (destruct p; try discriminate). all: discriminate E.
Qed.

Lemma arity_ok_nonl s : arity_ok s = true -> mem nl s = false.
Proof.
  unfold arity_ok. intro H. apply orb_true_iff in H as [H|H]; [apply is_dec_Z_nonl; exact H|].
  apply str_eqb_eq in H. subst s. reflexivity.
Qed.

Lemma span_digits_spec s : forall d r, span_digits s = (d, r) -> s = d ++ r /\ forallb is_digit d = true.
Proof.
  induction s as [|c s IH]; intros d r H; simpl in H.
  - inversion H. split; reflexivity.
  - destruct (is_digit c) eqn:E.
    + destruct (span_digits s) as [d0 t]. inversion H; subst.
      destruct (IH d0 r eq_refl) as [-> Hd]. split; [reflexivity|]. simpl. rewrite E. exact Hd.
    + inversion H; subst. split; reflexivity.
Qed.

Lemma span_digits_app d r :
  forallb is_digit d = true -> (match r with c :: _ => is_digit c | [] => false end) = false ->
  span_digits (d ++ r) = (d, r).
Proof.
  intros Hd Hr. induction d as [|c d IH]; simpl.
  - destruct r as [|c r]; [reflexivity|]. simpl. rewrite Hr. reflexivity.
  - simpl in Hd. apply andb_prop in Hd as [Hc Hd]. rewrite Hc, (IH Hd). reflexivity.
Qed.

Lemma lam_arity_mid_nonl s : lam_arity_mid s = true -> mem nl s = false.
Proof.
  unfold lam_arity_mid. destruct (span_digits s) as [d r] eqn:E.
  apply span_digits_spec in E as [-> Hd]. intro H. apply andb_prop in H as [_ H].
  destruct (drop_prefix (L ".arity = ") r) as [a|] eqn:E2; [|discriminate].
  apply drop_prefix_Some in E2. subst r. rewrite !mem_app.
  rewrite (forallb_mem_false is_digit d nl Hd eq_refl), (arity_ok_nonl a H). reflexivity.
Qed.

Lemma char_repr_ok_nonl s : char_repr_ok s = true -> mem nl s = false.
Proof.
  unfold char_repr_ok. intro H. apply mem_str_In in H.
  pose proof char_reprs_nonl as F. rewrite forallb_forall in F. apply F in H.
  apply negb_true_iff in H. exact H.
Qed.

Definition shape_one_line (s : shape) : Prop :=
  mem nl (fst (fst s)) = false /\ mem nl (snd (fst s)) = false /\
  forall m, snd s m = true -> mem nl m = false.

Lemma forallb_nonl (p : N -> bool) : p nl = false -> forall m, forallb p m = true -> mem nl m = false.
Proof. intros Hp m H. exact (forallb_mem_false p m nl H Hp). Qed.

Lemma line_shapes_one_line : Forall shape_one_line line_shapes.
Proof.
  unfold line_shapes.
  repeat (apply Forall_cons; [split; [reflexivity|split; [reflexivity|]]|]); try apply Forall_nil;
    cbn [snd sh_rational sh_nsimplify sh_int sh_sq sh_char sh_varget sh_varget_ctx sh_varset
         sh_varset_ctx sh_for sh_for_ctx sh_fncall sh_fndef sh_this sh_param sh_param_num
         sh_lam_def sh_lam_else sh_lam_arity sh_lam_push];
    first [ exact is_dec_Z_nonl | exact is_dec_nonl | exact arity_ok_nonl | exact lam_arity_mid_nonl
          | exact char_repr_ok_nonl | apply forallb_nonl; reflexivity ].
Qed.

Lemma core_cases st core : safe_core st core = true ->
  mem nl core = false \/
  exists body, core = L "stack.append(""" ++ body ++ L """)" /\ lit_run st 34 false body = true.
Proof.
  unfold safe_core. intro H. apply orb_true_iff in H as [H|H].
  - left. unfold in_vocab in H. apply orb_true_iff in H as [H|H]; apply mem_str_In in H.
    + pose proof fixed_nonl as F. rewrite forallb_forall in F. apply F in H.
      apply negb_true_iff in H. exact H.
    + apply template_vocab_nonl. exact H.
  - apply existsb_exists in H as [s [Hin Hm]]. destruct Hin as [<-|Hin].
    + right. simpl in Hm. apply wrapb_elim in Hm as [body [-> Hb]]. exists body. split; [reflexivity|exact Hb].
    + left. pose proof line_shapes_one_line as F. rewrite Forall_forall in F.
      destruct (F s Hin) as [Hp [Hs HP]]. destruct s as [[pre suf] P]. simpl in *.
      apply wrapb_elim in Hm as [m [-> Hm]]. rewrite !mem_app, Hp, Hs, (HP m Hm). reflexivity.
Qed.

(* ---- the indentation lemmas without hypothesis ---------------------------------------------- *)
Definition ST_indent st n t := safe_text_indent st n (core_cases st) t.
Definition ST_core st n x := safe_core_indent st n (core_cases st) x.
Definition ST_line st n x := safe_line_indent st n (core_cases st) x.
Definition ST_lines st n ls := safe_lines_indent st n (core_cases st) ls.

Lemma ST_fixed st n x : mem_str x fixed_vocab = true -> safe_text st (indent_str x n).
Proof. intro H. apply ST_core. apply safe_core_fixed. exact H. Qed.

Lemma ST_fixed_sp st n x : mem_str (strip_sp x) fixed_vocab = true -> safe_text st (indent_str x n).
Proof. intro H. apply ST_line. unfold safe_line. apply safe_core_fixed. exact H. Qed.

Lemma ST_shape st n (s : shape) mid :
  In s line_shapes -> snd s mid = true ->
  safe_text st (indent_str (fst (fst s) ++ mid ++ snd (fst s)) n).
Proof. intros Hin HP. apply ST_core. apply safe_core_line_shape; assumption. Qed.

(* a whole template: every line is in the vocabulary *)
Lemma ST_template st n t :
  (forall l, In l (lines t) -> In l template_lines) -> safe_text st (indent_str t n).
Proof.
  intro H. rewrite indent_str_eq. apply ST_lines. apply Forall_forall. intros l Hl. split.
  - eapply lines_nonl_each. exact Hl.
  - unfold safe_line. apply safe_core_template. unfold template_vocab. apply in_map. apply H. exact Hl.
Qed.

(* ---- decimal numerals --------------------------------------------------------------------------- *)
Lemma is_digit_mod n : is_digit (48 + n mod 10) = true.
Proof.
  unfold is_digit. pose proof (N.mod_upper_bound n 10 ltac:(discriminate)) as B.
  generalize dependent (n mod 10). intros m B.
  apply andb_true_intro. split; apply N.leb_le; lia.
Qed.

Lemma N_digits_digits f : forall n acc,
  forallb is_digit acc = true -> forallb is_digit (N_digits f n acc) = true.
Proof.
  induction f as [|f IH]; intros n acc H; cbn [N_digits]; [exact H|].
  assert (H' : forallb is_digit ((48 + n mod 10) :: acc) = true).
  { cbn [forallb]. rewrite is_digit_mod. exact H. }
  destruct (N.eqb (n / 10) 0); [exact H'|apply IH; exact H'].
Qed.

Lemma N_digits_nonempty f : forall n acc, acc <> [] -> N_digits f n acc <> [].
Proof.
  induction f as [|f IH]; intros n acc H; cbn [N_digits]; [exact H|].
  destruct (N.eqb (n / 10) 0); [discriminate|apply IH; discriminate].
Qed.

Lemma N_to_dec_dec n : is_dec (N_to_dec n) = true.
Proof.
  unfold N_to_dec. pose proof (N_digits_digits (S (N.size_nat n)) n [] eq_refl) as H.
  assert (Hne : N_digits (S (N.size_nat n)) n [] <> []).
  { cbn [N_digits]. destruct (N.eqb (n / 10) 0); [discriminate|apply N_digits_nonempty; discriminate]. }
  unfold is_dec. destruct (N_digits (S (N.size_nat n)) n []); [congruence|exact H].
Qed.

Lemma Z_to_dec_dec z : is_dec_Z (Z_to_dec z) = true.
Proof.
  unfold is_dec_Z. destruct z as [|p|p]; cbn [Z_to_dec].
  - reflexivity.
  - rewrite N_to_dec_dec. reflexivity.
  - apply orb_true_iff. right. change (is_dec (N_to_dec (N.pos p)) = true). apply N_to_dec_dec.
Qed.

Lemma arity_text_ok a : arity_ok (arity_text a) = true.
Proof.
  unfold arity_ok. destruct a as [z|]; cbn [arity_text].
  - rewrite Z_to_dec_dec. reflexivity.
  - apply orb_true_iff. right. apply str_eqb_eq. reflexivity.
Qed.

(* ---- NUMBER tokens -------------------------------------------------------------------------------- *)
Lemma match43 {T} (j : str) (A B : T) (P : T -> Prop) :
  P A -> P B -> P (match j with 43 :: _ => A | _ => B end).
Proof.
  intros HA HB. destruct j as [|c r]; [exact HB|]. destruct c as [|p]; [exact HB|].
  do 6 (destruct p; try exact HB). exact HA.
Qed.

Lemma match95 {T} (j : str) (A B C : T) (P : T -> Prop) :
  P A -> P B -> P C -> P (match j with [] => A | 95 :: _ => B | _ => C end).
Proof.
  intros HA HB HC. destruct j as [|c r]; [exact HA|]. destruct c as [|p]; [exact HC|].
  do 7 (destruct p; try exact HC). exact HB.
Qed.

Lemma split_on_forallb2 (p p' : N -> bool) c s :
  (forall x, p x = true -> N.eqb x c = false -> p' x = true) ->
  forall cur, forallb p' cur = true -> forallb p s = true ->
  Forall (fun seg => forallb p' seg = true) (split_on c s cur).
Proof.
  intro Hpp. induction s as [|x s IH]; intros cur Hc Hs; simpl.
  - constructor; [exact Hc|constructor].
  - simpl in Hs. apply andb_prop in Hs as [Hx Hs].
    destruct (N.eqb x c) eqn:E.
    + constructor; [exact Hc|]. apply IH; [reflexivity|exact Hs].
    + apply IH; [|exact Hs]. apply forallb_app_true; [exact Hc|]. simpl. rewrite (Hpp x Hx E). reflexivity.
Qed.

Lemma num_src_payload x : num_src_char x = true -> N.eqb x 176 = false -> num_payload_char x = true.
Proof.
  unfold num_src_char, num_payload_char. intros H E. rewrite E, orb_false_r in H.
  apply orb_true_iff in H as [H|H]; [rewrite H; reflexivity|].
  apply N.eqb_eq in H. subst x. reflexivity.
Qed.

Lemma join_with_ok sep parts :
  num_payload_ok sep = true -> Forall (fun p => num_payload_ok p = true) parts ->
  num_payload_ok (join_with sep parts) = true.
Proof.
  intros Hs H. induction H as [|p r Hp Hr IH]; [reflexivity|].
  simpl. destruct r as [|p2 r']; [exact Hp|].
  apply forallb_app_true; [exact Hp|]. apply forallb_app_true; [exact Hs|exact IH].
Qed.

Lemma number_text_shape v : forallb num_src_char v = true ->
  exists p, num_payload_ok p = true /\
    (number_text v = L "stack.append(sympy.Rational(""" ++ p ++ L """))"
     \/ number_text v = L "stack.append(sympy.nsimplify(""" ++ p ++ L """))").
Proof.
  intro Hv. unfold number_text.
  assert (Hparts : Forall (fun p => num_payload_ok p = true)
            (map (fun p => if str_eqb p [46] then L "0.5" else p) (split_on 176 v []))).
  { pose proof (split_on_forallb2 num_src_char num_payload_char 176 v num_src_payload [] eq_refl Hv) as F.
    induction F as [|seg segs Hseg _ IH]; [constructor|].
    simpl. constructor; [|exact IH]. destruct (str_eqb seg [46]); [reflexivity|exact Hseg]. }
  set (parts := map (fun p => if str_eqb p [46] then L "0.5" else p) (split_on 176 v [])) in *.
  assert (Hgen : exists p, num_payload_ok p = true /\
     L "stack.append(sympy.nsimplify(""" ++
       (match join_with [43] parts with
        | 43 :: _ => join_with [43] parts ++ L "I"
        | _ => if N.eqb (last (join_with [43] parts) 0) 43 then join_with [43] parts ++ L "1 * I"
               else if mem 43 (join_with [43] parts) then join_with [43] parts ++ L "* I"
               else join_with [43] parts
        end) ++ L """))" = L "stack.append(sympy.nsimplify(""" ++ p ++ L """))").
  { pose proof (join_with_ok [43] parts eq_refl Hparts) as Hj.
    eexists. split; [|reflexivity].
    apply match43.
    - apply forallb_app_true; [exact Hj|reflexivity].
    - destruct (N.eqb (last (join_with [43] parts) 0) 43).
      + apply forallb_app_true; [exact Hj|reflexivity].
      + destruct (mem 43 (join_with [43] parts)); [|exact Hj].
        apply forallb_app_true; [exact Hj|reflexivity]. }
  destruct parts as [|p [|p2 rest]].
  - destruct Hgen as [p [Hp E]]. exists p. split; [exact Hp|]. right. exact E.
  - inversion Hparts; subst. exists p. split; [assumption|].
    destruct (mem 46 p); [left|right]; reflexivity.
  - destruct Hgen as [q [Hq E]]. exists q. split; [exact Hq|]. right. exact E.
Qed.

(* ---- the STRING branch ------------------------------------------------------------------------------ *)
(* whatever the string is, the re-escaped text is the body of a literal that is closed
   only by the quote the transpiler adds, and exactly the body of one well-terminated
   literal (newline and carriage return are both escaped) *)
Lemma escape_ok_all st : forall k s, (List.length s <= k)%nat -> lit_run st 34 false (escape_string s) = true.
Proof.
  induction k as [|k IH]; intros s Hlen.
  - destruct s; [reflexivity|simpl in Hlen; lia].
  - destruct s as [|c r]; [reflexivity|]. simpl in Hlen.
    simpl escape_string. destruct (N.eqb c 92) eqn:E92.
    + destruct r as [|a r'].
      * reflexivity.
      * simpl in Hlen. destruct (N.eqb a 96) eqn:E96.
        -- apply N.eqb_eq in E96. subst a. simpl. apply IH; lia.
        -- simpl. apply IH; lia.
    + destruct (N.eqb c 34) eqn:E34; [simpl; apply IH; lia|].
      destruct (N.eqb c nl) eqn:E10; [simpl; apply IH; lia|].
      destruct (N.eqb c 13) eqn:E13; [simpl; apply IH; lia|].
      simpl. rewrite E92, E34. unfold nl in E10. rewrite E10, E13. apply IH; lia.
Qed.

(* kept in this form for the lemmas stated before the carriage return was escaped *)
Lemma escape_ok st : forall k s, (List.length s <= k)%nat ->
  negb st || negb (mem 13 s) = true -> lit_run st 34 false (escape_string s) = true.
Proof. intros k s Hlen _. exact (escape_ok_all st k s Hlen). Qed.

Lemma escape_closed s : dq_body_closed (escape_string s) = true.
Proof. apply (escape_ok false (List.length s) s (le_n _)). reflexivity. Qed.

Lemma escape_strict s : mem 13 s = false -> dq_body_ok (escape_string s) = true.
Proof. intro H. apply (escape_ok true (List.length s) s (le_n _)). simpl. rewrite H. reflexivity. Qed.

Lemma escape_strict_all s : dq_body_ok (escape_string s) = true.
Proof. apply (escape_ok_all true (List.length s) s (le_n _)). Qed.

(* ---- identifiers ------------------------------------------------------------------------------------- *)
Lemma keep_ident allowed name : forallb ident_char allowed = true -> ident_ok (keep allowed name) = true.
Proof.
  intro H. unfold ident_ok, keep. apply forallb_forall. intros c Hc.
  apply filter_In in Hc as [_ Hc]. apply mem_In in Hc. rewrite forallb_forall in H. apply H. exact Hc.
Qed.

(* the proof obligations that break when a regex is widened *)
Lemma re_keep_for_ident : forallb ident_char re_keep_for = true.
Proof. vm_compute. reflexivity. Qed.
Lemma re_keep_fncall_ident : forallb ident_char re_keep_fncall = true.
Proof. vm_compute. reflexivity. Qed.
Lemma re_keep_fnparam_ident : forallb ident_char re_keep_fnparam = true.
Proof. vm_compute. reflexivity. Qed.
Lemma re_keep_fndef_ident : forallb ident_char re_keep_fndef = true.
Proof. vm_compute. reflexivity. Qed.
Lemma param_keep_ident : forallb ident_char param_keep_chars = true.
Proof. vm_compute. reflexivity. Qed.
Lemma ascii_letters_ident : forallb ident_char ascii_letters = true.
Proof. vm_compute. reflexivity. Qed.
Lemma number_chars_src : forallb num_src_char lex_number_chars = true.
Proof. vm_compute. reflexivity. Qed.

Lemma sanitize_param_ident s : ident_ok (sanitize_param s) = true.
Proof. apply (keep_ident param_keep_chars s param_keep_ident). Qed.

Lemma name_char_ident c : is_name_char c = true -> ident_char c = true.
Proof.
  unfold is_name_char. intro H. apply orb_true_iff in H as [H|H].
  - pose proof ascii_letters_ident as F. rewrite forallb_forall in F. apply F. apply mem_In. exact H.
  - apply N.eqb_eq in H. subst c. reflexivity.
Qed.

Lemma name_chars_ident s : forallb is_name_char s = true -> ident_ok s = true.
Proof.
  unfold ident_ok. rewrite !forallb_forall. intros H c Hc. apply name_char_ident. apply H. exact Hc.
Qed.

(* variable_name of parse.py *)
Lemma variable_name_ident ts : ident_ok (variable_name ts) = true.
Proof.
  unfold ident_ok, variable_name. apply forallb_forall. intros c Hc.
  apply filter_In in Hc as [_ Hc]. apply name_char_ident. exact Hc.
Qed.

(* ---- the repr table ------------------------------------------------------------------------------------ *)
Lemma char_reprs_literals : forallb py_literal_ok (map snd char_reprs) = true.
Proof. vm_compute. reflexivity. Qed.

Lemma assoc_N_In {A} c (tbl : list (N * A)) v : assoc_N c tbl = Some v -> In v (map snd tbl).
Proof.
  induction tbl as [|[k x] tbl IH]; simpl; [discriminate|].
  destruct (N.eqb k c); [intro H; inversion H; left; reflexivity|intro H; right; apply IH; exact H].
Qed.

Lemma py_repr_char_ok c r : py_repr_char c = Some r -> char_repr_ok r = true /\ py_literal_ok r = true.
Proof.
  unfold py_repr_char. intro H. apply assoc_N_In in H. split.
  - apply mem_str_In. exact H.
  - pose proof char_reprs_literals as F. rewrite forallb_forall in F. apply F. exact H.
Qed.
