(* C10 on the regenerated summary (Gen/Mutation.v): the sweep over the element and modifier
   tables, by vm_compute, lifted to a statement about every execution of the summary
   semantics with EffectsProofs.may_mutate_sound. *)
From Coq Require Import List NArith ZArith Bool Arith.
From Vy Require Import Model.Base Model.Effects Proofs.EffectsProofs Gen.Mutation.
Import ListNotations.

Notation the_flags := (mlfp mut_nodes).

Lemma table_checks :
  mutation_translator_ok = true /\ nodes_wf mut_nodes = true /\
  pure_outside the_flags c10_suspect_elements mut_elements = true /\
  pure_outside the_flags c10_suspect_modifiers mut_modifiers = true.
Proof.
  assert (mutation_translator_ok && nodes_wf mut_nodes
          && pure_outside the_flags c10_suspect_elements mut_elements
          && pure_outside the_flags c10_suspect_modifiers mut_modifiers = true) as H
    by (vm_compute; reflexivity).
  apply andb_true_iff in H as [H H4]. apply andb_true_iff in H as [H H3]. apply andb_true_iff in H as [H1 H2].
  exact (conj H1 (conj H2 (conj H3 H4))).
Qed.

(* what a clean template guarantees: no site of its own, and no execution of any function it
   hands a value to mutates that value *)
Definition templ_clean_on (nodes : list mnode) (t : mtempl) : Prop :=
  mt_direct t = false /\
  forall e, In (root e) (mt_calls t) -> valid_exec nodes e = true -> mutations e = 0%nat.
Definition templ_clean : mtempl -> Prop := templ_clean_on mut_nodes.

Lemma pure_outside_clean nodes suspects ts :
  pure_outside (mlfp nodes) suspects ts = true ->
  forall t, In t ts -> mem_str (mt_key t) suspects = false -> templ_clean_on nodes t.
Proof.
  intros H t Ht Hs. unfold pure_outside in H. rewrite forallb_forall in H. specialize (H t Ht).
  rewrite Hs in H. simpl in H. apply negb_true_iff in H. unfold templ_may_mutate in H.
  apply orb_false_iff in H as [Hd He]. split; [exact Hd|].
  intros e Hr Hv. apply (may_mutate_sound nodes e Hv).
  unfold may_mutate. apply (existsb_false_In _ _ He). exact Hr.
Qed.

(* the duplicating templates push deep copies: the premise under which `dup` models them *)
Lemma dup_templates_copy : dup_templates_ok dup_templates = true.
Proof. vm_compute. reflexivity. Qed.

(* an attribute of the context that some template / function changes in place is only ever
   pushed as a materialised copy (today: ctx.global_array, changed by ⅛ and ¼, pushed by ¾) *)
Lemma ctx_pushes_materialised :
  ctx_pushes_ok ctx_inplace_attrs ctx_pushes = true /\
  existsb (fun p => mem_str (cp_attr p) ctx_inplace_attrs) ctx_pushes = true.
Proof. split; vm_compute; reflexivity. Qed.

Lemma pure_table :
  (forall t, In t mut_elements -> mem_str (mt_key t) c10_suspect_elements = false -> templ_clean t) /\
  (forall t, In t mut_modifiers -> mem_str (mt_key t) c10_suspect_modifiers = false -> templ_clean t).
Proof.
  destruct table_checks as (_ & _ & He & Hm). split.
  - exact (pure_outside_clean mut_nodes c10_suspect_elements mut_elements He).
  - exact (pure_outside_clean mut_nodes c10_suspect_modifiers mut_modifiers Hm).
Qed.

(* non-vacuity: clean templates that do hand their arguments on exist, and so do flagged ones *)
Lemma pure_table_nonvacuous :
  existsb (fun t => negb (mem_str (mt_key t) c10_suspect_elements)
                    && negb (match mt_calls t with [] => true | _ => false end)) mut_elements = true /\
  existsb (templ_may_mutate the_flags) mut_elements = true.
Proof. split; vm_compute; reflexivity. Qed.
