(* C03: literal payloads are data, never syntax (parser part). *)
From Coq Require Import List NArith ZArith Bool Lia Arith.
From Vy Require Import Model.Base Model.Lexer Model.Parser Gen.ParserConsts Proofs.ParserFacts.
Import ListNotations.
Open Scope N_scope.

(* the literal kinds of the property: string (incl. two-character string), escaped
   character, compressed string, compressed number, code-page number *)
Definition is_literal_kind (k : tkind) : bool :=
  match k with
  | KString | KCharacter | KCompNumber | KCompString | KCpNumber => true
  | _ => false
  end.

(* same kind; same value unless the token is a literal *)
Definition teq (a b : token) : Prop :=
  tk a = tk b /\ (is_literal_kind (tk a) = false -> a = b).
Definition leq := Forall2 teq.
Definition lleq := Forall2 leq.

Definition lit_free (ts : list token) : bool := forallb (fun t => negb (is_literal_kind (tk t))) ts.

Lemma teq_refl a : teq a a.
Proof. split; auto. Qed.
Lemma leq_refl l : leq l l.
Proof. induction l; constructor; auto using teq_refl. Qed.

Lemma leq_lit_free a b : leq a b -> lit_free a = true -> a = b.
Proof.
  induction 1 as [|x y a b [Hk Hv] _ IH]; simpl; intro H; [reflexivity|].
  apply andb_prop in H as [H1 H2]. apply negb_true_iff in H1. rewrite (Hv H1), (IH H2). reflexivity.
Qed.

Lemma leq_app a1 a2 b1 b2 : leq a1 a2 -> leq b1 b2 -> leq (a1 ++ b1) (a2 ++ b2).
Proof. apply Forall2_app. Qed.

Lemma lleq_snoc d1 d2 c1 c2 : lleq d1 d2 -> leq c1 c2 -> lleq (d1 ++ [c1]) (d2 ++ [c2]).
Proof. intros. apply Forall2_app; [assumption|constructor; [assumption|constructor]]. Qed.

(* shape: literal payloads erased, everything else (names, arities, parents) kept *)
Definition erase (t : token) : token := if is_literal_kind (tk t) then Tok (tk t) [] else t.

Fixpoint shape (s : struct) : struct :=
  match s with
  | SGeneric t => SGeneric (erase t)
  | SBreak p => SBreak p
  | SRecurse p => SRecurse p
  | SIf bs => SIf (map (map shape) bs)
  | SFor n b => SFor n (map shape b)
  | SWhile c b => SWhile (map shape c) (map shape b)
  | SFnCall n => SFnCall n
  | SFnDef n ps b => SFnDef n ps (map shape b)
  | SLambda a b => SLambda a (map shape b)
  | SLamOp o b => SLamOp o (map shape b)
  | SList items => SList (map (map shape) items)
  | SMod1 m a => SMod1 m (shape a)
  | SMod2 m a b => SMod2 m (shape a) (shape b)
  | SMod3 m a b c => SMod3 m (shape a) (shape b) (shape c)
  end.

Definition shape_res (r : res (list struct)) : res (list struct) :=
  match r with Ok l => Ok (map shape l) | Err e => Err e | OutOfFuel => OutOfFuel end.
Definition shape_res1 (r : res struct) : res struct :=
  match r with Ok s => Ok (shape s) | Err e => Err e | OutOfFuel => OutOfFuel end.

Lemma teq_erase a b : teq a b -> erase a = erase b.
Proof.
  intros [Hk Hv]. unfold erase. rewrite <- Hk. destruct (is_literal_kind (tk a)) eqn:E; [reflexivity|].
  rewrite (Hv eq_refl). reflexivity.
Qed.

(* ---- a literal token is never syntax ---------------------------------------------- *)
Lemma literal_not_general t : is_literal_kind (tk t) = true -> is_general t = false.
Proof. unfold is_general. destruct (tk t); simpl; intro H; try discriminate; reflexivity. Qed.

Lemma classify_literal t : is_literal_kind (tk t) = true -> classify t = AEmit (fun _ => SGeneric t).
Proof.
  intro H. pose proof (literal_not_general t H) as G.
  destruct guards_present as [G1 [G2 [G3 [G4 [G5 [G6 _]]]]]].
  unfold classify. rewrite G1, G2, G3, G4, G5, G6. unfold guard. rewrite G. cbn [negb orb andb].
  destruct (tk t); simpl in H; try discriminate; reflexivity.
Qed.

Lemma gb_step_literal t top below cur done : is_literal_kind (tk t) = true ->
  gb_step t top below cur done = (top :: below, cur ++ [t], done).
Proof.
  intro H. pose proof (literal_not_general t H) as G.
  destruct guards_present as [_ [_ [_ [_ [_ [_ [G7 [G8 G9]]]]]]]].
  unfold gb_step. rewrite G7, G8, G9. unfold guard. rewrite G. reflexivity.
Qed.

(* ---- grouping into branches is independent of literal payloads --------------------- *)
Lemma gb_step_equiv t1 t2 top below c1 c2 d1 d2 :
  teq t1 t2 -> leq c1 c2 -> lleq d1 d2 ->
  let '(s1, c1', d1') := gb_step t1 top below c1 d1 in
  let '(s2, c2', d2') := gb_step t2 top below c2 d2 in
  s1 = s2 /\ leq c1' c2' /\ lleq d1' d2'.
Proof.
  intros Ht Hc Hd. destruct (is_literal_kind (tk t1)) eqn:E.
  - rewrite (gb_step_literal t1 _ _ _ _ E).
    assert (E2 : is_literal_kind (tk t2) = true) by (destruct Ht as [Hk _]; rewrite <- Hk; exact E).
    rewrite (gb_step_literal t2 _ _ _ _ E2).
    split; [reflexivity|]. split; [|assumption]. apply leq_app; [assumption|]. constructor; [assumption|constructor].
  - destruct Ht as [_ Hv]. rewrite <- (Hv E). clear Hv t2.
    assert (Hsn : leq (c1 ++ [t1]) (c2 ++ [t1])) by (apply leq_app; [assumption|apply leq_refl]).
    unfold gb_step.
    repeat match goal with
    | |- context [if ?b then _ else _] => destruct b
    | |- context [match tv t1 with _ => _ end] => destruct (tv t1) as [|? [|? ?]]
    | |- context [match lookup_open ?c ?t with _ => _ end] => destruct (lookup_open c t) as [[? ?]|]
    | |- context [match below with _ => _ end] => destruct below
    end; repeat split; auto using lleq_snoc; constructor.
Qed.

Lemma gb_scan_equiv ts1 ts2 : leq ts1 ts2 -> forall stack c1 c2 d1 d2,
  leq c1 c2 -> lleq d1 d2 ->
  let '(s1, c1', d1', r1) := gb_scan ts1 stack c1 d1 in
  let '(s2, c2', d2', r2) := gb_scan ts2 stack c2 d2 in
  s1 = s2 /\ leq c1' c2' /\ lleq d1' d2' /\ leq r1 r2.
Proof.
  induction 1 as [|t1 t2 ts1 ts2 Ht Hts IH]; intros stack c1 c2 d1 d2 Hc Hd.
  - destruct stack; simpl; repeat split; auto; constructor.
  - destruct stack as [|top below].
    + simpl. repeat split; auto. constructor; assumption.
    + cbn [gb_scan]. pose proof (gb_step_equiv t1 t2 top below c1 c2 d1 d2 Ht Hc Hd) as S.
      destruct (gb_step t1 top below c1 d1) as [[s1 c1'] d1'].
      destruct (gb_step t2 top below c2 d2) as [[s2 c2'] d2'].
      destruct S as [-> [Hc' Hd']]. apply IH; assumption.
Qed.

Lemma get_branches_equiv ts1 ts2 cl : leq ts1 ts2 ->
  let '(b1, a1) := get_branches ts1 [cl] [] [] in
  let '(b2, a2) := get_branches ts2 [cl] [] [] in
  lleq b1 b2 /\ leq a1 a2.
Proof.
  intro H. unfold get_branches.
  pose proof (gb_scan_equiv ts1 ts2 H [cl] [] [] [] [] (Forall2_nil _) (Forall2_nil _)) as S.
  destruct (gb_scan ts1 [cl] [] []) as [[[s1 c1] d1] r1].
  destruct (gb_scan ts2 [cl] [] []) as [[[s2 c2] d2] r2].
  destruct S as [_ [Hc [Hd Hr]]]. split; [apply lleq_snoc; assumption|assumption].
Qed.

(* ---- name positions ------------------------------------------------------------------
   `names_lit_free` says that no literal token sits in a branch that is read as a name,
   a parameter list or an arity (those positions are outside the property).  It follows
   the recursion of `parse`. *)
Definition build_nlf (rec : list token -> bool) (cls : pkind) (branches : list (list token)) : bool :=
  let last_b := last branches [] in
  let first_b := hd [] branches in
  let single := match branches with [_] => true | _ => false end in
  match cls with
  | PFor => (single || forallb lit_free (removelast branches)) && rec last_b
  | PWhile => (single || rec first_b) && rec last_b
  | PFnCall => lit_free first_b && (single || rec last_b)
  | PLambda => (single || lit_free first_b) && rec last_b
  | PLamMap | PLamFilter | PLamSort => rec first_b
  | _ => forallb rec branches
  end.

Fixpoint names_lit_free (fuel : nat) (ts : list token) : bool :=
  match fuel with
  | O => true
  | S f =>
    match ts with
    | [] => true
    | head :: rest =>
      match classify head with
      | AOpen cls cl =>
          let '(branches, after) := get_branches rest [cl] [] [] in
          build_nlf (names_lit_free f) cls branches && names_lit_free f after
      | AErr _ => true
      | _ => names_lit_free f rest
      end
    end
  end.

(* ---- the simulation -------------------------------------------------------------------- *)
Definition rec_equiv (nlf : list token -> bool)
           (rec : option pkind -> list token -> res (list struct)) : Prop :=
  forall p b1 b2, leq b1 b2 -> nlf b1 = true -> shape_res (rec p b1) = shape_res (rec p b2).

Lemma shape_res_bind_cons (r1 r2 : res (list struct)) (s1 s2 : struct) :
  shape_res r1 = shape_res r2 -> shape s1 = shape s2 ->
  shape_res (bind r1 (fun l => Ok (s1 :: l))) = shape_res (bind r2 (fun l => Ok (s2 :: l))).
Proof.
  destruct r1, r2; simpl; intros H Hs; try discriminate; try assumption.
  inversion H. rewrite Hs. congruence.
Qed.

Lemma Forall2_last {A B} (R : A -> B -> Prop) l1 l2 d1 d2 :
  Forall2 R l1 l2 -> R d1 d2 -> R (last l1 d1) (last l2 d2).
Proof.
  induction 1 as [|x y l1 l2 Hxy H IH]; intro Hd; [assumption|].
  simpl. destruct H; [assumption|]. apply IH. assumption.
Qed.

Lemma Forall2_removelast {A B} (R : A -> B -> Prop) l1 l2 :
  Forall2 R l1 l2 -> Forall2 R (removelast l1) (removelast l2).
Proof.
  induction 1 as [|x y l1 l2 Hxy H IH]; [constructor|].
  simpl. destruct H; [constructor|]. constructor; assumption.
Qed.

Lemma Forall2_hd {A B} (R : A -> B -> Prop) l1 l2 d1 d2 :
  Forall2 R l1 l2 -> R d1 d2 -> R (hd d1 l1) (hd d2 l2).
Proof. destruct 1; auto. Qed.

Lemma lleq_lit_free_eq l1 l2 : lleq l1 l2 -> forallb lit_free l1 = true -> l1 = l2.
Proof.
  induction 1 as [|x y l1 l2 Hxy _ IH]; simpl; intro H; [reflexivity|].
  apply andb_prop in H as [H1 H2]. rewrite (leq_lit_free x y Hxy H1), (IH H2). reflexivity.
Qed.

Lemma map_res_shape nlf (rec : list token -> res (list struct)) (rec2 : list token -> res (list struct)) bs1 bs2 :
  lleq bs1 bs2 -> forallb nlf bs1 = true ->
  (forall b1 b2, leq b1 b2 -> nlf b1 = true -> shape_res (rec b1) = shape_res (rec2 b2)) ->
  match map_res rec bs1, map_res rec2 bs2 with
  | Ok x, Ok y => map (map shape) x = map (map shape) y
  | Err e1, Err e2 => e1 = e2
  | OutOfFuel, OutOfFuel => True
  | _, _ => False
  end.
Proof.
  intros H Hn Hrec. revert Hn. induction H as [|b1 b2 bs1 bs2 Hb _ IH]; simpl; intro Hn; [reflexivity|].
  apply andb_prop in Hn as [Hn1 Hn2]. specialize (IH Hn2).
  pose proof (Hrec b1 b2 Hb Hn1) as E.
  destruct (rec b1) as [x1| |], (rec2 b2) as [x2| |]; simpl in E; try discriminate; simpl; try (inversion E; reflexivity); auto.
  destruct (map_res rec bs1), (map_res rec2 bs2); simpl; try contradiction; try assumption; auto.
  inversion E. simpl. congruence.
Qed.

Lemma single_equiv {A B} (R : A -> B -> Prop) (l1 : list A) (l2 : list B) :
  Forall2 R l1 l2 ->
  match l1 with [_] => true | _ => false end = match l2 with [_] => true | _ => false end.
Proof. destruct 1 as [|? ? ? ? _ H]; [reflexivity|]. destruct H; reflexivity. Qed.

Lemma build_equiv nlf rec parent cls bs1 bs2 :
  rec_equiv nlf rec -> lleq bs1 bs2 -> build_nlf nlf cls bs1 = true ->
  shape_res1 (build rec parent cls bs1) = shape_res1 (build rec parent cls bs2).
Proof.
  intros Hrec Hb Hn. unfold build, build_nlf in *.
  pose proof (Forall2_last leq bs1 bs2 [] [] Hb (Forall2_nil _)) as Hlast.
  pose proof (Forall2_hd leq bs1 bs2 [] [] Hb (Forall2_nil _)) as Hhd.
  pose proof (single_equiv leq bs1 bs2 Hb) as Hsingle.
  rewrite <- Hsingle.
  set (single := match bs1 with [_] => true | _ => false end) in *.
  assert (R : forall p b1 b2 (k : list struct -> struct),
             leq b1 b2 -> nlf b1 = true -> (forall x y, map shape x = map shape y -> shape (k x) = shape (k y)) ->
             shape_res1 (bind (rec p b1) (fun x => Ok (k x))) = shape_res1 (bind (rec p b2) (fun x => Ok (k x)))).
  { intros p b1 b2 k Hl Hf Hk. pose proof (Hrec p b1 b2 Hl Hf) as E.
    destruct (rec p b1), (rec p b2); simpl in *; try discriminate; try (inversion E; reflexivity).
    inversion E as [E']. rewrite (Hk _ _ E'). reflexivity. }
  destruct cls.
  - (* PIf *)
    pose proof (map_res_shape nlf (rec (Some (por parent PIf))) (rec (Some (por parent PIf))) bs1 bs2 Hb Hn
                  (fun b1 b2 H1 H2 => Hrec _ b1 b2 H1 H2)) as M.
    destruct (map_res (rec (Some (por parent PIf))) bs1), (map_res (rec (Some (por parent PIf))) bs2);
      simpl in *; try contradiction; try congruence.
  - (* PFor *) apply andb_prop in Hn as [Hn1 Hn2].
    assert (Hnames : (if single then [] else map variable_name (removelast bs1))
                     = (if single then [] else map variable_name (removelast bs2))).
    { destruct single; [reflexivity|]. simpl in Hn1.
      rewrite (lleq_lit_free_eq _ _ (Forall2_removelast leq bs1 bs2 Hb) Hn1). reflexivity. }
    rewrite Hnames. apply R; [assumption|assumption|]. intros x y E. simpl. rewrite E. reflexivity.
  - (* PWhile *) apply andb_prop in Hn as [Hn1 Hn2].
    assert (C : shape_res (if single then Ok default_while_cond else rec (Some PWhile) (hd [] bs1))
              = shape_res (if single then Ok default_while_cond else rec (Some PWhile) (hd [] bs2))).
    { destruct single; [reflexivity|]. simpl in Hn1. apply Hrec; assumption. }
    pose proof (Hrec (Some PWhile) _ _ Hlast Hn2) as B.
    destruct (if single then Ok default_while_cond else rec (Some PWhile) (hd [] bs1)),
             (if single then Ok default_while_cond else rec (Some PWhile) (hd [] bs2));
      simpl in C; try discriminate; simpl; try (inversion C; reflexivity).
    destruct (rec (Some PWhile) (last bs1 [])), (rec (Some PWhile) (last bs2 []));
      simpl in B; try discriminate; simpl; try (inversion B; reflexivity).
    inversion C. inversion B. simpl. congruence.
  - (* PFnCall *) apply andb_prop in Hn as [Hn1 Hn2].
    rewrite <- (leq_lit_free _ _ Hhd Hn1).
    destruct (process_parameters (hd [] bs1)) as [name params].
    destruct single; [reflexivity|]. simpl in Hn2.
    apply R; [assumption|assumption|]. intros x y E. simpl. rewrite E. reflexivity.
  - (* PLambda *) apply andb_prop in Hn as [Hn1 Hn2].
    destruct single.
    + apply R; [assumption|assumption|]. intros x y E. simpl. rewrite E. reflexivity.
    + simpl in Hn1. rewrite <- (leq_lit_free _ _ Hhd Hn1).
      destruct (hd [] bs1) as [|t0 ?]; [reflexivity|]. destruct (py_int (tv t0)); [|reflexivity].
      destruct (z <? 0)%Z; [reflexivity|].
      apply R; [assumption|assumption|]. intros x y E. simpl. rewrite E. reflexivity.
  - apply R; [assumption|assumption|]. intros x y E. simpl. rewrite E. reflexivity.
  - apply R; [assumption|assumption|]. intros x y E. simpl. rewrite E. reflexivity.
  - apply R; [assumption|assumption|]. intros x y E. simpl. rewrite E. reflexivity.
  - (* PList *)
    pose proof (map_res_shape nlf (rec (Some PList)) (rec (Some PList)) bs1 bs2 Hb Hn
                  (fun b1 b2 H1 H2 => Hrec _ b1 b2 H1 H2)) as M.
    destruct (map_res (rec (Some PList)) bs1), (map_res (rec (Some PList)) bs2);
      simpl in *; try contradiction; try congruence.
  - pose proof (map_res_shape nlf (rec (Some PList)) (rec (Some PList)) bs1 bs2 Hb Hn
                  (fun b1 b2 H1 H2 => Hrec _ b1 b2 H1 H2)) as M.
    destruct (map_res (rec (Some PList)) bs1), (map_res (rec (Some PList)) bs2);
      simpl in *; try contradiction; try congruence.
  - pose proof (map_res_shape nlf (rec (Some PList)) (rec (Some PList)) bs1 bs2 Hb Hn
                  (fun b1 b2 H1 H2 => Hrec _ b1 b2 H1 H2)) as M.
    destruct (map_res (rec (Some PList)) bs1), (map_res (rec (Some PList)) bs2);
      simpl in *; try contradiction; try congruence.
  - pose proof (map_res_shape nlf (rec (Some PList)) (rec (Some PList)) bs1 bs2 Hb Hn
                  (fun b1 b2 H1 H2 => Hrec _ b1 b2 H1 H2)) as M.
    destruct (map_res (rec (Some PList)) bs1), (map_res (rec (Some PList)) bs2);
      simpl in *; try contradiction; try congruence.
Qed.

Lemma take_operands_shape n m r1 r2 :
  map shape r1 = map shape r2 ->
  shape_res (take_operands n m r1) = shape_res (take_operands n m r2).
Proof.
  intro H. destruct n as [|[|[|[|n]]]]; simpl; try reflexivity.
  - destruct r1 as [|a1 m1], r2 as [|a2 m2]; simpl in H; try discriminate; [reflexivity|].
    inversion H. destruct (lambda_shorthand m); simpl; congruence.
  - destruct r1 as [|a1 [|b1 m1]], r2 as [|a2 [|b2 m2]]; simpl in H; try discriminate; try reflexivity.
    inversion H. destruct (lambda_shorthand m); simpl; congruence.
  - destruct r1 as [|a1 [|b1 [|c1 m1]]], r2 as [|a2 [|b2 [|c2 m2]]]; simpl in H; try discriminate; try reflexivity.
    inversion H. destruct (lambda_shorthand m); simpl; congruence.
Qed.

Lemma parse_equiv f : rec_equiv (names_lit_free f) (parse f).
Proof.
  induction f as [|f IH]; intros p ts1 ts2 Hl Hn; [reflexivity|].
  destruct Hl as [|h1 h2 r1 r2 Hh Hr]; [reflexivity|].
  cbn [parse]. cbn [names_lit_free] in Hn.
  destruct (is_literal_kind (tk h1)) eqn:E.
  - assert (E2 : is_literal_kind (tk h2) = true) by (destruct Hh as [Hk _]; rewrite <- Hk; exact E).
    rewrite (classify_literal h1 E) in *. rewrite (classify_literal h2 E2).
    apply shape_res_bind_cons; [apply IH; assumption|]. simpl. rewrite (teq_erase _ _ Hh). reflexivity.
  - destruct Hh as [_ Hv]. rewrite <- (Hv E). clear Hv h2.
    destruct (classify h1) as [s|cls cl|n m| |e].
    + apply shape_res_bind_cons; [apply IH; assumption|reflexivity].
    + pose proof (get_branches_equiv r1 r2 cl Hr) as G.
      destruct (get_branches r1 [cl] [] []) as [bs1 a1]. destruct (get_branches r2 [cl] [] []) as [bs2 a2].
      destruct G as [Hb Ha]. apply andb_prop in Hn as [Hn1 Hn2].
      pose proof (build_equiv (names_lit_free f) (parse f) p cls bs1 bs2 IH Hb Hn1) as B.
      pose proof (IH p a1 a2 Ha Hn2) as A.
      destruct (build (parse f) p cls bs1), (build (parse f) p cls bs2); simpl in B; try discriminate; simpl; try (inversion B; reflexivity).
      destruct (parse f p a1), (parse f p a2); simpl in A; try discriminate; simpl; try (inversion A; reflexivity).
      inversion A. inversion B. congruence.
    + destruct Hr as [|x y r1 r2 Hxy Hr]; [reflexivity|].
      pose proof (IH (Some (mod_kind n)) (x :: r1) (y :: r2) (Forall2_cons _ _ Hxy Hr) Hn) as A.
      destruct (parse f (Some (mod_kind n)) (x :: r1)), (parse f (Some (mod_kind n)) (y :: r2));
        simpl in A; try discriminate; simpl; try (inversion A; reflexivity).
      inversion A. apply take_operands_shape. assumption.
    + apply IH; assumption.
    + reflexivity.
Qed.

Lemma leq_length a b : leq a b -> length a = length b.
Proof. induction 1; simpl; congruence. Qed.

Theorem parse_tokens_literal_independent ts1 ts2 :
  leq ts1 ts2 -> names_lit_free (S (length ts1)) ts1 = true ->
  shape_res (parse_tokens ts1) = shape_res (parse_tokens ts2).
Proof.
  intros Hl Hn. unfold parse_tokens. rewrite <- (leq_length _ _ Hl). apply parse_equiv; assumption.
Qed.
