(* C19 -- proofs: soundness of the syntactic guard check, the sweep of the regenerated
   sink table, and the properties of the effect-trace models. *)
From Coq Require Import List NArith Bool Arith Lia.
From Vy Require Import Model.Base Model.Online Gen.Sinks.
Import ListNotations.

(* ------------------------------------------------------------------------- *)
(* 1. guard soundness                                                          *)
(* ------------------------------------------------------------------------- *)

Lemma must_sound : forall f,
  (must_false f = true -> forall atoms, eval_formula true atoms f = Some false) /\
  (must_true f = true -> forall atoms, eval_formula true atoms f = Some true).
Proof.
  induction f as [ | | g IHg | g IHg h IHh | g IHg h IHh | n | ]; simpl; split; intro H; intro atoms;
    try discriminate; try reflexivity.
  - (* FNot, must_false *) destruct IHg as [_ IHt]. rewrite (IHt H atoms). reflexivity.
  - (* FNot, must_true *) destruct IHg as [IHf _]. rewrite (IHf H atoms). reflexivity.
  - (* FAnd, must_false *)
    apply orb_true_iff in H. destruct H as [H | H].
    + destruct IHg as [IHf _]. rewrite (IHf H atoms). reflexivity.
    + destruct IHh as [IHf _]. rewrite (IHf H atoms).
      destruct (eval_formula true atoms g) as [[|]|]; reflexivity.
  - (* FAnd, must_true *)
    apply andb_true_iff in H. destruct H as [H1 H2].
    destruct IHg as [_ IHt1]. destruct IHh as [_ IHt2].
    rewrite (IHt1 H1 atoms), (IHt2 H2 atoms). reflexivity.
  - (* FOr, must_false *)
    apply andb_true_iff in H. destruct H as [H1 H2].
    destruct IHg as [IHf1 _]. destruct IHh as [IHf2 _].
    rewrite (IHf1 H1 atoms), (IHf2 H2 atoms). reflexivity.
  - (* FOr, must_true *)
    apply orb_true_iff in H. destruct H as [H | H].
    + destruct IHg as [_ IHt]. rewrite (IHt H atoms). reflexivity.
    + destruct IHh as [_ IHt]. rewrite (IHt H atoms).
      destruct (eval_formula true atoms g) as [[|]|]; reflexivity.
Qed.

(* -- the exhaustive check -- *)
Lemma eval2_spec : forall f o a, has_unknown f = false -> eval_formula o a f = Some (eval2 o a f).
Proof.
  induction f as [ | | g IHg | g IHg h IHh | g IHg h IHh | n | ]; simpl; intros o a H; try reflexivity; try discriminate.
  - rewrite (IHg o a H). reflexivity.
  - apply orb_false_iff in H. destruct H as [H1 H2]. rewrite (IHg o a H1), (IHh o a H2).
    destruct (eval2 o a g), (eval2 o a h); reflexivity.
  - apply orb_false_iff in H. destruct H as [H1 H2]. rewrite (IHg o a H1), (IHh o a H2).
    destruct (eval2 o a g), (eval2 o a h); reflexivity.
Qed.

Lemma eval2_ext : forall f o a b, (forall n, In n (atoms_in f) -> a n = b n) -> eval2 o a f = eval2 o b f.
Proof.
  induction f as [ | | g IHg | g IHg h IHh | g IHg h IHh | n | ]; simpl; intros o a b H; try reflexivity.
  - rewrite (IHg o a b H). reflexivity.
  - rewrite (IHg o a b), (IHh o a b); [reflexivity | |]; intros n Hn; apply H; apply in_or_app; auto.
  - rewrite (IHg o a b), (IHh o a b); [reflexivity | |]; intros n Hn; apply H; apply in_or_app; auto.
  - apply H. left. reflexivity.
Qed.

Lemma dedup_In : forall l n, In n l -> In n (dedup l).
Proof.
  induction l as [|x r IH]; simpl; intros n H; [exact H|].
  destruct (existsb (Nat.eqb x) r) eqn:E.
  - destruct H as [H | H]; [|exact (IH n H)].
    subst n. apply existsb_exists in E. destruct E as [y [Hy Hxy]].
    apply Nat.eqb_eq in Hxy. subst y. exact (IH x Hy).
  - destruct H as [H | H]; [left; exact H | right; exact (IH n H)].
Qed.

Lemma assignments_cover : forall (a : nat -> bool) l,
  exists asg, In asg (assignments l) /\ forall n, In n l -> lookup asg n = a n.
Proof.
  intros a. induction l as [|x r [asg [Hin Hl]]]; simpl.
  - exists []. split; [left; reflexivity | intros n []].
  - exists ((x, a x) :: asg). split.
    + apply in_or_app. destruct (a x); [left | right]; apply in_map; exact Hin.
    + intros n Hn. simpl. destruct (Nat.eqb n x) eqn:E.
      * apply Nat.eqb_eq in E. subst n. reflexivity.
      * destruct Hn as [Hn | Hn]; [subst n; rewrite Nat.eqb_refl in E; discriminate | exact (Hl n Hn)].
Qed.

Lemma sat_excludes_sound : forall f, sat_excludes f = true ->
  forall atoms, eval_formula true atoms f = Some false.
Proof.
  intros f H atoms. unfold sat_excludes in H.
  apply andb_true_iff in H. destruct H as [H Hall]. apply andb_true_iff in H. destruct H as [Hu _].
  apply negb_true_iff in Hu.
  destruct (assignments_cover atoms (dedup (atoms_in f))) as [asg [Hin Hl]].
  rewrite forallb_forall in Hall. specialize (Hall asg Hin). apply negb_true_iff in Hall.
  rewrite (eval2_spec f true atoms Hu). f_equal.
  rewrite <- Hall. apply eval2_ext. intros n Hn. symmetry. apply Hl. apply dedup_In. exact Hn.
Qed.

Lemma guard_sound : forall f, guard_excludes_online f = true ->
  forall atoms, eval_formula true atoms f <> Some true.
Proof.
  intros f H atoms. unfold guard_excludes_online in H. apply orb_true_iff in H. destruct H as [H | H].
  - rewrite (proj1 (must_sound f) H atoms). discriminate.
  - rewrite (sat_excludes_sound f H atoms). discriminate.
Qed.

(* the same under every two-valued completion of the unknown parts *)
Lemma must_total : forall f,
  (must_false f = true -> forall atoms unk pos, eval_total true atoms unk pos f = false) /\
  (must_true f = true -> forall atoms unk pos, eval_total true atoms unk pos f = true).
Proof.
  induction f as [ | | g IHg | g IHg h IHh | g IHg h IHh | n | ]; simpl; split; intro H; intros atoms unk pos;
    try discriminate; try reflexivity.
  - destruct IHg as [_ IHt]. rewrite (IHt H). reflexivity.
  - destruct IHg as [IHf _]. rewrite (IHf H). reflexivity.
  - apply orb_true_iff in H. destruct H as [H | H].
    + destruct IHg as [IHf _]. rewrite (IHf H). reflexivity.
    + destruct IHh as [IHf _]. rewrite (IHf H). apply andb_false_r.
  - apply andb_true_iff in H. destruct H as [H1 H2].
    destruct IHg as [_ IHt1]. destruct IHh as [_ IHt2]. rewrite (IHt1 H1), (IHt2 H2). reflexivity.
  - apply andb_true_iff in H. destruct H as [H1 H2].
    destruct IHg as [IHf1 _]. destruct IHh as [IHf2 _]. rewrite (IHf1 H1), (IHf2 H2). reflexivity.
  - apply orb_true_iff in H. destruct H as [H | H].
    + destruct IHg as [_ IHt]. rewrite (IHt H). reflexivity.
    + destruct IHh as [_ IHt]. rewrite (IHt H). apply orb_true_r.
Qed.

Lemma eval_total_eval2 : forall f o a unk pos, has_unknown f = false -> eval_total o a unk pos f = eval2 o a f.
Proof.
  induction f as [ | | g IHg | g IHg h IHh | g IHg h IHh | n | ]; simpl; intros o a unk pos H; try reflexivity; try discriminate.
  - rewrite (IHg o a unk _ H). reflexivity.
  - apply orb_false_iff in H. destruct H as [H1 H2]. rewrite (IHg o a unk _ H1), (IHh o a unk _ H2). reflexivity.
  - apply orb_false_iff in H. destruct H as [H1 H2]. rewrite (IHg o a unk _ H1), (IHh o a unk _ H2). reflexivity.
Qed.

Lemma guard_sound_total : forall f, guard_excludes_online f = true ->
  forall atoms unk, eval_total true atoms unk [] f = false.
Proof.
  intros f H atoms unk. unfold guard_excludes_online in H. apply orb_true_iff in H. destruct H as [H | H].
  - exact (proj1 (must_total f) H atoms unk []).
  - pose proof (sat_excludes_sound f H atoms) as E.
    unfold sat_excludes in H. apply andb_true_iff in H. destruct H as [H _]. apply andb_true_iff in H. destruct H as [Hu _].
    apply negb_true_iff in Hu. rewrite (eval_total_eval2 f true atoms unk [] Hu).
    rewrite (eval2_spec f true atoms Hu) in E. injection E as E. exact E.
Qed.

(* the guard says nothing about offline runs: it is not trivially false *)
Example guard_nonvacuous :
  guard_excludes_online (FAnd (FAtom 0) (FNot FOnline)) = true /\
  eval_formula false (fun _ => true) (FAnd (FAtom 0) (FNot FOnline)) = Some true /\
  guard_excludes_online (FAnd (FAtom 0) FOnline) = false /\
  guard_excludes_online (FAnd (FNot FOnline) FUnknown) = true /\
  guard_excludes_online (FOr (FNot FOnline) FUnknown) = false /\
  guard_excludes_online FTrue = false /\
  (* `if c and online: ... elif c: sink` -- needs the exhaustive check, and only holds
     because both tests are the SAME atom *)
  guard_excludes_online (FAnd (FNot (FAnd (FAtom 0) FOnline)) (FAtom 0)) = true /\
  guard_excludes_online (FAnd (FNot (FAnd (FAtom 0) FOnline)) (FAtom 1)) = false /\
  guard_excludes_online (FAnd (FOr (FAtom 0) (FNot (FAtom 0))) (FNot FOnline)) = true /\
  guard_excludes_online (FOr (FAtom 0) (FNot (FAtom 0))) = false.
Proof. repeat split; reflexivity. Qed.

(* ------------------------------------------------------------------------- *)
(* 2. the regenerated sink table                                               *)
(* ------------------------------------------------------------------------- *)

Lemma translator_ok : sinks_translator_ok = true.
Proof. vm_compute. reflexivity. Qed.

Lemma sinks_swept :
  forallb sink_ok (filter (fun s => negb (listed s)) sinks) = true.
Proof. vm_compute. reflexivity. Qed.

Lemma sinks_exclusions_tight : exclusions_tight sinks = true.
Proof. vm_compute. reflexivity. Qed.

Lemma online_flag_writes : forallb write_ok online_writes = true.
Proof. vm_compute. reflexivity. Qed.

Lemma ctx_calls_swept : forallb ctx_ok ctx_calls = true.
Proof. vm_compute. reflexivity. Qed.

Lemma ctx_exclusions_are_tight : ctx_exclusions_tight ctx_calls = true.
Proof. vm_compute. reflexivity. Qed.

Lemma ctx_forwarded : forall c, In c ctx_calls -> c_has_ctx c = true -> c_risky c = true ->
  ctx_listed c = false -> c_passes c = true.
Proof.
  intros c Hin Hh Hr Hl. pose proof ctx_calls_swept as H. rewrite forallb_forall in H.
  specialize (H c Hin). unfold ctx_ok in H. rewrite Hh, Hr, Hl in H. simpl in H.
  rewrite !orb_false_r in H. exact H.
Qed.

(* non-vacuity: the table has calls that must and do pass ctx, among them max_by / min_by *)
Example ctx_calls_nonvacuous :
  existsb (fun c => c_has_ctx c && c_risky c && negb (ctx_listed c) && c_passes c
                    && str_eqb (c_callee c) [109;97;120;95;98;121]%N) ctx_calls = true /\
  (30 <=? length (filter (fun c => c_has_ctx c && c_risky c && negb (ctx_listed c)) ctx_calls))%nat = true.
Proof. vm_compute. split; reflexivity. Qed.

Lemma sinks_sound : forall s, In s sinks -> in_scope s = true -> listed s = false ->
  forall atoms, eval_formula true atoms (s_cond s) <> Some true.
Proof.
  intros s Hin Hscope Hl atoms.
  pose proof sinks_swept as H. rewrite forallb_forall in H.
  assert (Hf : In s (filter (fun s => negb (listed s)) sinks)).
  { apply filter_In. split; [exact Hin | rewrite Hl; reflexivity]. }
  specialize (H s Hf). unfold sink_ok in H. rewrite Hscope in H. simpl in H.
  exact (guard_sound _ H atoms).
Qed.

(* non-vacuity: the table has in-scope, unlisted, guarded sinks, among them the three
   anchors of the property: eval in vy_eval, print in vy_print, exec in function_call *)
Definition anchor (file : str) (k : sink_kind) (s : sink) : bool :=
  str_eqb (s_file s) file && kind_eqb (s_kind s) k
  && in_scope s && negb (listed s) && guard_excludes_online (s_cond s).

(* by file and kind, not by function name: the guarded sinks may move between functions *)
Example sinks_nonvacuous :
  existsb (anchor helpers_py KEval) sinks = true /\
  existsb (anchor elements_py KPrint) sinks = true /\
  existsb (anchor elements_py KExec) sinks = true /\
  existsb (anchor main_py KPrint) sinks = true.
Proof. vm_compute. repeat split; reflexivity. Qed.

(* ------------------------------------------------------------------------- *)
(* 3. effect traces                                                            *)
(* ------------------------------------------------------------------------- *)

Section pval_induction.
  Variable P : pval -> Prop.
  Hypothesis HS : P PScalar.
  Hypothesis HL : P PList.
  Hypothesis HF : forall r, P r -> P (PFun r).
  Hypothesis HZ : forall g r, Forall P g -> Forall P r -> P (PLazy g r).
  Fixpoint pval_ind2 (v : pval) : P v :=
    match v with
    | PScalar => HS
    | PList => HL
    | PFun r => HF r (pval_ind2 r)
    | PLazy g r =>
        HZ g r
          ((fix go (l : list pval) : Forall P l :=
              match l with [] => Forall_nil P | x :: t => Forall_cons x (pval_ind2 x) (go t) end) g)
          ((fix go (l : list pval) : Forall P l :=
              match l with [] => Forall_nil P | x :: t => Forall_cons x (pval_ind2 x) (go t) end) r)
    end.
End pval_induction.

Definition konst (m : mode) : effect -> effect := fun _ => out_effect m.

Lemma map_sep_join (f : effect -> effect) sep l :
  map f (sep_join sep l) = sep_join (map f sep) (map (map f) l).
Proof.
  induction l as [|t r IH]; [reflexivity|].
  destruct r as [|t' r']; [reflexivity|].
  change (sep_join sep (t :: t' :: r')) with (t ++ sep ++ sep_join sep (t' :: r')).
  change (sep_join (map f sep) (map (map f) (t :: t' :: r')))
    with (map f t ++ map f sep ++ sep_join (map f sep) (map (map f) (t' :: r'))).
  rewrite !map_app, IH. reflexivity.
Qed.

Lemma map_traces (m m' : mode) (l : list pval) :
  Forall (fun v => print_trace m v = map (konst m) (print_trace m' v)) l ->
  map (print_trace m) l = map (map (konst m)) (map (print_trace m') l).
Proof.
  induction 1 as [|v l Hv Hl IH]; [reflexivity|]. simpl. rewrite Hv, IH. reflexivity.
Qed.

(* the trace in one mode is the trace in any other mode with every effect replaced by
   this mode's output effect: same number of prints, in the same places *)
Lemma print_trace_map : forall m m' v, print_trace m v = map (konst m) (print_trace m' v).
Proof.
  intros m m'. induction v as [ | | r IH | g r IHg IHr ] using pval_ind2.
  - reflexivity.
  - reflexivity.
  - exact IH.
  - pose proof (map_traces m m' g IHg) as Eg. pose proof (map_traces m m' r IHr) as Er.
    simpl print_trace. rewrite map_cons. change (konst m (out_effect m')) with (out_effect m). f_equal.
    rewrite !map_app, map_sep_join, Eg.
    change (map (konst m) [out_effect m']) with [out_effect m].
    destruct r as [|r0 r'].
    + reflexivity.
    + cbv iota. rewrite map_app, map_sep_join, Er. destruct g; reflexivity.
Qed.

Lemma print_trace_uniform : forall m v, Forall (fun e => e = out_effect m) (print_trace m v).
Proof.
  intros m v. rewrite (print_trace_map m m v). apply Forall_forall. intros e He.
  apply in_map_iff in He. destruct He as [x [Hx _]]. symmetry. exact Hx.
Qed.

Lemma print_trace_nonempty : forall m v, print_trace m v <> [].
Proof.
  intros m. induction v as [ | | r IH | g r _ _ ] using pval_ind2; simpl; try discriminate.
  exact IH.
Qed.

Lemma print_trace_online_offline : forall v,
  print_trace {| online := true |} v = map (fun _ => OnlineOut) (print_trace {| online := false |} v) /\
  Forall (fun e => e = HostPrint) (print_trace {| online := false |} v).
Proof.
  intro v. split.
  - exact (print_trace_map {| online := true |} {| online := false |} v).
  - exact (print_trace_uniform {| online := false |} v).
Qed.

(* no forbidden effect *)
Definition clean (l : list effect) : bool := forallb (fun e => negb (forbidden e)) l.

Lemma clean_app a b : clean (a ++ b) = clean a && clean b.
Proof. unfold clean. apply forallb_app. Qed.

Lemma clean_concat l : forallb clean l = true -> clean (concat l) = true.
Proof.
  induction l as [|t r IH]; simpl; intro H; [reflexivity|].
  apply andb_true_iff in H. destruct H as [H1 H2]. rewrite clean_app, H1, (IH H2). reflexivity.
Qed.

Lemma clean_print m v : online m = true -> clean (print_trace m v) = true.
Proof.
  intro Hm. unfold clean. apply forallb_forall. intros e He.
  pose proof (print_trace_uniform m v) as U. rewrite Forall_forall in U.
  rewrite (U e He). unfold out_effect. rewrite Hm. reflexivity.
Qed.

Lemma clean_eval m t : online m = true -> clean (vy_eval_trace m t) = true.
Proof. intro Hm. unfold vy_eval_trace. rewrite Hm. reflexivity. Qed.

Lemma clean_call m k : online m = true -> clean (function_call_trace m k) = true.
Proof. intro Hm. unfold function_call_trace. rewrite Hm. destruct k; reflexivity. Qed.

Lemma clean_vyexec m k : clean (vy_exec_trace m k) = true.
Proof. destruct k; reflexivity. Qed.

Lemma clean_body m l : online m = true -> clean (body_trace m l) = true.
Proof.
  intro Hm. unfold body_trace. apply clean_concat. apply forallb_forall. intros t Ht.
  apply in_map_iff in Ht. destruct Ht as [b [Hb _]]. subst t.
  destruct b as [v | t | k | k]; simpl.
  - exact (clean_print m v Hm).
  - exact (clean_eval m t Hm).
  - exact (clean_call m k Hm).
  - exact (clean_vyexec m k).
Qed.

Lemma clean_capture m : online m = true -> clean (capture m) = true.
Proof. intro Hm. unfold capture. rewrite Hm. reflexivity. Qed.

Lemma clean_inputs m l : online m = true -> clean (concat (map (vy_eval_trace m) l)) = true.
Proof.
  intro Hm. apply clean_concat. apply forallb_forall. intros t Ht.
  apply in_map_iff in Ht. destruct Ht as [x [Hx _]]. subst t. exact (clean_eval m x Hm).
Qed.

Lemma execute_clean : forall m s, online m = true -> clean (execute_trace m s) = true.
Proof.
  intros m s Hm. unfold execute_trace. rewrite clean_app. apply andb_true_iff. split.
  - destruct (sc_all_strings s) eqn:Es; [reflexivity | exact (clean_inputs m _ Hm)].
  - destruct (sc_transpile_ok s) eqn:Et; simpl negb; cbv iota.
    + rewrite clean_app. apply andb_true_iff. split.
      * destruct (sc_show_code s) eqn:Ec; [rewrite Hm|]; reflexivity.
      * change (clean (VyExec :: ?l)) with (clean l).
        cbn [clean forallb forbidden negb andb].
        fold (clean (match sc_run s with
                     | RunOk body => body_trace m body ++ (if sc_implicit s then match sc_final s with Some v => print_trace m v | None => capture m end else [])
                     | RunRaises body => body_trace m body ++ capture m end)).
        destruct (sc_run s) as [body | body] eqn:Er.
        -- rewrite clean_app, (clean_body m body Hm). simpl.
           destruct (sc_implicit s) eqn:Ei; [|reflexivity].
           destruct (sc_final s) as [v|] eqn:Ef; [exact (clean_print m v Hm) | exact (clean_capture m Hm)].
        -- rewrite clean_app, (clean_body m body Hm), (clean_capture m Hm). reflexivity.
    + exact (clean_capture m Hm).
Qed.

(* the three element-level decisions, online *)
Lemma vy_eval_online : forall m t, online m = true ->
  vy_eval_trace m t = [LiteralEval] /\
  (vy_eval_result m t = RValue <-> is_literal t = true) /\
  (vy_eval_result m t = RUnchanged <-> is_literal t = false).
Proof.
  intros m t Hm. unfold vy_eval_trace, vy_eval_result. rewrite Hm.
  destruct (is_literal t); repeat split; intro H; try reflexivity; try discriminate.
Qed.

(* input parsing never raises: a text is read as a value or kept as the string it is *)
Lemma vy_eval_total : forall m t, vy_eval_result m t <> RRaises.
Proof.
  intros m t. unfold vy_eval_result.
  destruct (online m); [destruct (is_literal t) | destruct (is_evaluable t)]; discriminate.
Qed.

Lemma function_call_online : forall m k, online m = true -> function_call_trace m k = [].
Proof. intros m k Hm. unfold function_call_trace. rewrite Hm. destruct k; reflexivity. Qed.

Lemma vy_exec_only_vyxal : forall m k e, In e (vy_exec_trace m k) -> e = VyExec.
Proof. intros m [|] e H; simpl in H; [destruct H as [H|[]]; auto | destruct H]. Qed.

(* offline the same functions DO evaluate / execute / print on the host: the model is
   not trivially clean *)
Example offline_is_not_clean :
  clean (vy_eval_trace {| online := false |} {| is_literal := false; is_evaluable := true |}) = false /\
  clean (function_call_trace {| online := false |} TString) = false /\
  clean (print_trace {| online := false |} (PLazy [PScalar] [PList; PFun PScalar])) = false /\
  print_trace {| online := true |} (PLazy [PScalar] [PList; PFun PScalar])
    = [OnlineOut; OnlineOut; OnlineOut; OnlineOut; OnlineOut; OnlineOut; OnlineOut].
Proof. repeat split; reflexivity. Qed.

(* error capture: an online run never raises; a failing transpile, a raising body and a
   final value whose printing raises all end in ErrRecord; Exit *)
Definition no_raise (l : list effect) : bool := forallb (fun e => negb (is_raise e)) l.

Lemma no_raise_app a b : no_raise (a ++ b) = no_raise a && no_raise b.
Proof. unfold no_raise. apply forallb_app. Qed.

Lemma no_raise_concat l : forallb no_raise l = true -> no_raise (concat l) = true.
Proof.
  induction l as [|t r IH]; simpl; intro H; [reflexivity|].
  apply andb_true_iff in H. destruct H as [H1 H2]. rewrite no_raise_app, H1, (IH H2). reflexivity.
Qed.

Lemma no_raise_print m v : no_raise (print_trace m v) = true.
Proof.
  unfold no_raise. apply forallb_forall. intros e He.
  pose proof (print_trace_uniform m v) as U. rewrite Forall_forall in U.
  rewrite (U e He). unfold out_effect. destruct (online m); reflexivity.
Qed.

Lemma no_raise_body m l : no_raise (body_trace m l) = true.
Proof.
  unfold body_trace. apply no_raise_concat. apply forallb_forall. intros t Ht.
  apply in_map_iff in Ht. destruct Ht as [b [Hb _]]. subst t.
  destruct b as [v | t | k | k]; simpl.
  - exact (no_raise_print m v).
  - unfold vy_eval_trace. destruct (online m); reflexivity.
  - unfold function_call_trace. destruct k; destruct (online m); reflexivity.
  - destruct k; reflexivity.
Qed.

Lemma no_raise_inputs m l : no_raise (concat (map (vy_eval_trace m) l)) = true.
Proof.
  apply no_raise_concat. apply forallb_forall. intros t Ht.
  apply in_map_iff in Ht. destruct Ht as [x [Hx _]]. subst t.
  unfold vy_eval_trace. destruct (online m); reflexivity.
Qed.

Lemma no_raise_capture m : online m = true -> no_raise (capture m) = true.
Proof. intro Hm. unfold capture. rewrite Hm. reflexivity. Qed.

(* full strength: in online mode no exception leaves execute_vyxal, whatever the inputs,
   flags, body, transpile outcome and final value are *)
Lemma execute_errors_recorded : forall m s, online m = true ->
  no_raise (execute_trace m s) = true.
Proof.
  intros m s Hm. unfold execute_trace. rewrite no_raise_app. apply andb_true_iff. split.
  - destruct (sc_all_strings s); [reflexivity | exact (no_raise_inputs m _)].
  - destruct (sc_transpile_ok s) eqn:Et; simpl negb; cbv iota.
    + rewrite no_raise_app. apply andb_true_iff. split.
      * destruct (sc_show_code s); [rewrite Hm|]; reflexivity.
      * cbn [no_raise forallb is_raise negb andb].
        fold (no_raise (match sc_run s with
                     | RunOk body => body_trace m body ++ (if sc_implicit s then match sc_final s with Some v => print_trace m v | None => capture m end else [])
                     | RunRaises body => body_trace m body ++ capture m end)).
        destruct (sc_run s) as [body | body] eqn:Er.
        -- rewrite no_raise_app, (no_raise_body m body). simpl.
           destruct (sc_implicit s) eqn:Ei; [|reflexivity].
           destruct (sc_final s) as [v|] eqn:Ef; [exact (no_raise_print m v) | exact (no_raise_capture m Hm)].
        -- rewrite no_raise_app, (no_raise_body m body), (no_raise_capture m Hm). reflexivity.
    + exact (no_raise_capture m Hm).
Qed.

(* ... and every failure -- transpile, body, or the final value's printing -- ends the
   trace with the error record followed by the exit *)
Lemma execute_capture_tail : forall m s, online m = true ->
  (sc_transpile_ok s = false
   \/ (exists b, sc_transpile_ok s = true /\ sc_run s = RunRaises b)
   \/ (exists b, sc_transpile_ok s = true /\ sc_run s = RunOk b /\ sc_implicit s = true /\ sc_final s = None)) ->
  exists pre, execute_trace m s = pre ++ [ErrRecord; Exit].
Proof.
  intros m s Hm [Ht | [[b [Ht Hr]] | [b [Ht [Hr [Hi Hf]]]]]]; unfold execute_trace; rewrite Ht; simpl negb; cbv iota.
  - unfold capture. rewrite Hm. eexists. reflexivity.
  - rewrite Hr. unfold capture. rewrite Hm.
    eexists. rewrite app_assoc.
    change (VyExec :: body_trace m b ++ [ErrRecord; Exit]) with ((VyExec :: body_trace m b) ++ [ErrRecord; Exit]).
    rewrite !app_assoc. reflexivity.
  - rewrite Hr, Hi, Hf. unfold capture. rewrite Hm.
    eexists. rewrite app_assoc.
    change (VyExec :: body_trace m b ++ [ErrRecord; Exit]) with ((VyExec :: body_trace m b) ++ [ErrRecord; Exit]).
    rewrite !app_assoc. reflexivity.
Qed.

(* non-vacuity: the same scenarios DO raise offline; online they end in ErrRecord; Exit *)
Definition final_raises_witness : scenario :=
  {| sc_inputs := []; sc_all_strings := false; sc_transpile_ok := true; sc_show_code := false;
     sc_run := RunOk [BPrint PScalar]; sc_flag_O := false; sc_flag_o := true; sc_final := None |}.

Example errors_recorded_nonvacuous :
  no_raise (execute_trace {| online := false |} final_raises_witness) = false /\
  execute_trace {| online := true |} final_raises_witness = [VyExec; OnlineOut; ErrRecord; Exit] /\
  execute_trace {| online := true |}
     {| sc_inputs := [{| is_literal := false; is_evaluable := true |}]; sc_all_strings := false;
        sc_transpile_ok := true; sc_show_code := true;
        sc_run := RunRaises [BPrint PScalar; BEval {| is_literal := false; is_evaluable := true |}; BCall TString];
        sc_flag_O := false; sc_flag_o := true; sc_final := None |}
   = [LiteralEval; ErrRecord; VyExec; OnlineOut; LiteralEval; ErrRecord; Exit] /\
  execute_trace {| online := false |}
     {| sc_inputs := [{| is_literal := false; is_evaluable := true |}]; sc_all_strings := false;
        sc_transpile_ok := true; sc_show_code := true;
        sc_run := RunRaises [BPrint PScalar; BEval {| is_literal := false; is_evaluable := true |}; BCall TString];
        sc_flag_O := false; sc_flag_o := true; sc_final := None |}
   = [PyEval; HostPrint; VyExec; HostPrint; PyEval; PyExec; Raise].
Proof. repeat split; reflexivity. Qed.
