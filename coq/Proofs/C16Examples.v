(* C16: concrete instances (non-vacuity of the hypotheses, output orders), proved by computation. *)
From Coq Require Import List ZArith Bool Arith Lia Permutation Sorted.
From Vy Require Import Model.ListOps Proofs.C16Basic Proofs.C16Sort Proofs.C16Shape Proofs.C16Enum.
Import ListNotations.
Open Scope Z_scope.

Lemma ex_product_fold_nonvacuous : product [2; -3; 4] = -24 /\ [2; -3; 4] <> [].
Proof. split; [reflexivity|discriminate]. Qed.

Lemma ex_maximum_spec_nonvacuous : maximum [1; 3; 2] = Some 3 /\ minimum [1; 3; 2] = Some 1.
Proof. split; reflexivity. Qed.

Lemma ex_uninterleave_interleave_nonvacuous : uninterleave (interleave [1; 2; 3] [4; 5]) = ([1; 2; 3], [4; 5]) /\ (length [4; 5] <= length [1; 2; 3] <= S (length [4; 5]))%nat.
Proof. split; [reflexivity|simpl; lia]. Qed.

Lemma ex_uninterleave_interleave_hypothesis_needed : uninterleave (interleave [1] [4; 5; 6]) <> ([1], [4; 5; 6]).
Proof. vm_compute; discriminate. Qed.

Lemma ex_wrap_nonvacuous : wrap 2 [1; 2; 3; 4; 5] = [[1; 2]; [3; 4]; [5]] /\ (0 < 2)%nat.
Proof. split; [reflexivity|lia]. Qed.

Lemma ex_transpose_nonvacuous : transpose [[1; 2; 3]; [4; 5; 6]] = [[1; 4]; [2; 5]; [3; 6]] /\ Forall (fun r => length r = 3%nat) [[1; 2; 3]; [4; 5; 6]].
Proof. split; [reflexivity|repeat constructor]. Qed.

Lemma ex_transpose_ragged_not_involutive : transpose (transpose [[1; 2]; [3]; [4; 5; 6]]) <> [[1; 2]; [3]; [4; 5; 6]].
Proof. vm_compute; discriminate. Qed.

Lemma ex_nodup_nonvacuous : NoDup [3; 1; 2] /\ length (permutations [3; 1; 2]) = 6%nat /\ length (powerset [3; 1; 2]) = 8%nat.
Proof. split; [repeat constructor; simpl; intuition discriminate|split; reflexivity]. Qed.

Lemma ex_permutations_order : permutations [3; 1; 2] = [[3; 1; 2]; [3; 2; 1]; [1; 3; 2]; [1; 2; 3]; [2; 3; 1]; [2; 1; 3]].
Proof. reflexivity. Qed.

Lemma ex_find_nonvacuous : find 2 [1; 2; 1; 2] = 1 /\ find 7 [1; 2] = -1 /\ In 2 [1; 2; 1; 2].
Proof. split; [reflexivity|split; [reflexivity|simpl; tauto]]. Qed.

Lemma ex_deltas_nonvacuous : deltas [3; 1; 2] = [-2; 1] /\ cumsum [3; 1; 2] = [3; 4; 6].
Proof. split; reflexivity. Qed.

Lemma ex_grade_nonvacuous : grade_up [1; 1; 2; 1; 3; 2] = [0; 1; 3; 2; 5; 4]%nat /\ grade_down [1; 1; 2; 1; 3; 2] = [4; 2; 5; 0; 1; 3]%nat.
Proof. split; reflexivity. Qed.

Lemma ex_cartesian_diagonal_order : cart_diag [1; 2] [4; 5; 6] = [(1, 4); (1, 5); (2, 4); (1, 6); (2, 5); (2, 6)].
Proof. reflexivity. Qed.

Lemma ex_head_cons_nonvacuous : [5; 6] = head [5; 6] :: head_remove [5; 6] /\ [5; 6] = tail_remove [5; 6] ++ [tail [5; 6]].
Proof. split; reflexivity. Qed.
