(* Proofs about Model/Arith.v (property C07). *)
From Coq Require Import ZArith QArith Qround Qreduction Qfield Lqa Bool Lia List Setoid.
From Vy Require Import Model.Arith.
Import ListNotations.
Open Scope Q_scope.

(* ---- the zero test ---------------------------------------------------------- *)
Lemma is_zero_true b : is_zero b = true <-> b == 0.
Proof. unfold is_zero. apply Qeq_bool_iff. Qed.

Lemma is_zero_false b : is_zero b = false <-> ~ b == 0.
Proof.
  unfold is_zero. split; intro H.
  - apply Qeq_bool_neq. exact H.
  - destruct (Qeq_bool b 0) eqn:E; [|reflexivity].
    apply Qeq_bool_iff in E. contradiction.
Qed.

(* ---- exactness: each overload is the operation of the field Q --------------- *)
Lemma vadd_exact a b : vadd a b == a + b.
Proof. unfold vadd. apply Qred_correct. Qed.

Lemma vsub_exact a b : vsub a b == a - b.
Proof. unfold vsub. apply Qred_correct. Qed.

Lemma vmul_exact a b : vmul a b == a * b.
Proof. unfold vmul. apply Qred_correct. Qed.

Lemma vdiv_exact a b : ~ b == 0 -> vdiv a b == a / b.
Proof.
  intro Hb. unfold vdiv. rewrite (proj2 (is_zero_false b) Hb). apply Qred_correct.
Qed.

Lemma vdiv_zero a b : b == 0 -> vdiv a b = 0.
Proof. intro Hb. unfold vdiv. rewrite (proj2 (is_zero_true b) Hb). reflexivity. Qed.

Lemma vfloordiv_zero a b : b == 0 -> vfloordiv a b = 0.
Proof. intro Hb. unfold vfloordiv. rewrite (proj2 (is_zero_true b) Hb). reflexivity. Qed.

(* Coq's own convention for Q is x / 0 = 0, the same as Vyxal's: vdiv is Qdiv *)
Lemma vdiv_total a b : vdiv a b == a / b.
Proof.
  unfold vdiv. destruct (is_zero b) eqn:E.
  - apply is_zero_true in E. rewrite E. unfold Qdiv. change (/ 0) with 0. ring.
  - apply Qred_correct.
Qed.

(* floor division is the mathematical floor of the exact quotient *)
Lemma floor_unique x n : inject_Z n <= x -> x < inject_Z (n + 1) -> n = Qfloor x.
Proof.
  intros Hlo Hhi.
  pose proof (Qfloor_le x) as Fl. pose proof (Qlt_floor x) as Fh.
  assert (H1 : inject_Z n < inject_Z (Qfloor x + 1)) by (eapply Qle_lt_trans; eassumption).
  assert (H2 : inject_Z (Qfloor x) < inject_Z (n + 1)) by (eapply Qle_lt_trans; eassumption).
  rewrite <- Zlt_Qlt in H1, H2. lia.
Qed.

Lemma vfloordiv_spec a b : ~ b == 0 ->
  exists n : Z, vfloordiv a b = inject_Z n /\ inject_Z n <= a / b /\ a / b < inject_Z (n + 1).
Proof.
  intro Hb. exists (Qfloor (a / b)). unfold vfloordiv, qfloor.
  rewrite (proj2 (is_zero_false b) Hb).
  split; [reflexivity|]. split; [apply Qfloor_le | apply Qlt_floor].
Qed.

Lemma vfloordiv_unique a b n : ~ b == 0 ->
  inject_Z n <= a / b -> a / b < inject_Z (n + 1) -> vfloordiv a b = inject_Z n.
Proof.
  intros Hb Hlo Hhi. unfold vfloordiv, qfloor. rewrite (proj2 (is_zero_false b) Hb).
  rewrite <- (floor_unique _ _ Hlo Hhi). reflexivity.
Qed.

(* ---- "is an integer" = denominator 1 after reduction ------------------------ *)
Lemma Qred_inject_Z z : Qred (inject_Z z) = inject_Z z.
Proof.
  unfold Qred, inject_Z.
  generalize (Z.ggcd_gcd z 1) (Z.ggcd_correct_divisors z 1).
  destruct (Z.ggcd z 1) as [g [aa bb]]; simpl. intros Hg [Ha Hb].
  rewrite Z.gcd_1_r in Hg. subst g. rewrite Z.mul_1_l in Ha, Hb. subst aa bb. reflexivity.
Qed.

Lemma is_int_inject_Z z : is_int (inject_Z z) = true.
Proof. unfold is_int. rewrite Qred_inject_Z. reflexivity. Qed.

Lemma is_int_iff a : is_int a = true <-> exists z : Z, a == inject_Z z.
Proof.
  unfold is_int. split.
  - intro H. apply Pos.eqb_eq in H. exists (Qnum (Qred a)).
    rewrite <- (Qred_correct a) at 1. destruct (Qred a) as [n d]. simpl in *. subst d. reflexivity.
  - intros [z Hz]. rewrite (Qred_complete _ _ Hz), Qred_inject_Z. reflexivity.
Qed.

Lemma is_int_comp a b : a == b -> is_int a = is_int b.
Proof. intro H. unfold is_int. rewrite (Qred_complete _ _ H). reflexivity. Qed.

Lemma vfloordiv_is_int a b : is_int (vfloordiv a b) = true.
Proof.
  unfold vfloordiv, qfloor. destruct (is_zero b).
  - exact (is_int_inject_Z 0).
  - apply is_int_inject_Z.
Qed.

Lemma vadd_int a b : is_int a = true -> is_int b = true -> is_int (vadd a b) = true.
Proof.
  intros Ha Hb. apply is_int_iff in Ha. apply is_int_iff in Hb.
  destruct Ha as [x Hx]. destruct Hb as [y Hy]. apply is_int_iff. exists (x + y)%Z.
  rewrite vadd_exact, Hx, Hy, inject_Z_plus. reflexivity.
Qed.

Lemma vsub_int a b : is_int a = true -> is_int b = true -> is_int (vsub a b) = true.
Proof.
  intros Ha Hb. apply is_int_iff in Ha. apply is_int_iff in Hb.
  destruct Ha as [x Hx]. destruct Hb as [y Hy]. apply is_int_iff. exists (x + - y)%Z.
  rewrite vsub_exact, Hx, Hy, inject_Z_plus, inject_Z_opp. reflexivity.
Qed.

Lemma vmul_int a b : is_int a = true -> is_int b = true -> is_int (vmul a b) = true.
Proof.
  intros Ha Hb. apply is_int_iff in Ha. apply is_int_iff in Hb.
  destruct Ha as [x Hx]. destruct Hb as [y Hy]. apply is_int_iff. exists (x * y)%Z.
  rewrite vmul_exact, Hx, Hy, inject_Z_mult. reflexivity.
Qed.

(* ---- canonical form: equal observations <-> equal rationals ------------------ *)
Lemma canon_eq_iff a b : canon a = canon b <-> a == b.
Proof.
  split.
  - unfold canon. intro H. apply Qred_eq_iff.
    destruct (Qred a) as [n d]. destruct (Qred b) as [n' d']. cbn [Qden Qnum] in H.
    destruct (Pos.eqb d 1) eqn:E; destruct (Pos.eqb d' 1) eqn:E'; try discriminate H.
    + apply Pos.eqb_eq in E. apply Pos.eqb_eq in E'. injection H as Hn. subst. reflexivity.
    + injection H as Hn Hd. subst. reflexivity.
  - intro H. unfold canon. rewrite (Qred_complete _ _ H). reflexivity.
Qed.

Lemma canon_number a : exists n, canon a = CInt n \/ exists q, canon a = CRat n q /\ q <> 1%positive.
Proof.
  unfold canon. destruct (Qred a) as [n d]. cbn [Qden Qnum]. exists n.
  destruct (Pos.eqb d 1) eqn:E; [left; reflexivity|].
  right. exists d. split; [reflexivity|]. apply Pos.eqb_neq. exact E.
Qed.

Lemma canon_int_iff a : is_int a = true <-> exists n, canon a = CInt n.
Proof.
  unfold is_int, canon. destruct (Pos.eqb (Qden (Qred a)) 1); split; intro H.
  - eexists. reflexivity.
  - reflexivity.
  - discriminate H.
  - destruct H as [n H]. discriminate H.
Qed.

(* results are kept in lowest terms *)
Lemma Qred_idem q : Qred (Qred q) = Qred q.
Proof. apply Qred_complete. apply Qred_correct. Qed.

Lemma results_reduced a b :
  Qred (vadd a b) = vadd a b /\ Qred (vsub a b) = vsub a b /\ Qred (vmul a b) = vmul a b
  /\ Qred (vdiv a b) = vdiv a b /\ Qred (vfloordiv a b) = vfloordiv a b /\ Qred (vmod a b) = vmod a b.
Proof.
  unfold vadd, vsub, vmul, vdiv, vfloordiv, vmod, qfloor.
  repeat split; try apply Qred_idem.
  - destruct (is_zero b); [reflexivity | apply Qred_idem].
  - destruct (is_zero b); [reflexivity | apply Qred_inject_Z].
Qed.

(* ---- field identities of chained arithmetic ---------------------------------- *)
Lemma vdiv_mul a b : ~ b == 0 -> vmul (vdiv a b) b == a.
Proof. intro Hb. rewrite vmul_exact, vdiv_total. field. exact Hb. Qed.

Lemma vmul_div a b : ~ b == 0 -> vdiv (vmul a b) b == a.
Proof. intro Hb. rewrite vdiv_total, vmul_exact. field. exact Hb. Qed.

Lemma vdiv_mul_canon a b : ~ b == 0 -> canon (vmul (vdiv a b) b) = canon a.
Proof. intro Hb. apply canon_eq_iff. apply vdiv_mul. exact Hb. Qed.

Lemma vadd_sub a b : vsub (vadd a b) b == a.
Proof. rewrite vsub_exact, vadd_exact. ring. Qed.

Lemma vsub_add a b : vadd (vsub a b) b == a.
Proof. rewrite vadd_exact, vsub_exact. ring. Qed.

Lemma vsub_self a : vsub a a == 0.
Proof. rewrite vsub_exact. ring. Qed.

Lemma vdiv_self a : ~ a == 0 -> vdiv a a == 1.
Proof. intro Ha. rewrite vdiv_total. field. exact Ha. Qed.

Lemma vadd_comm a b : vadd a b == vadd b a.
Proof. rewrite !vadd_exact. ring. Qed.

Lemma vmul_comm a b : vmul a b == vmul b a.
Proof. rewrite !vmul_exact. ring. Qed.

Lemma vadd_assoc a b c : vadd (vadd a b) c == vadd a (vadd b c).
Proof. rewrite (vadd_exact (vadd a b)), (vadd_exact a (vadd b c)), !vadd_exact. ring. Qed.

Lemma vmul_assoc a b c : vmul (vmul a b) c == vmul a (vmul b c).
Proof. rewrite (vmul_exact (vmul a b)), (vmul_exact a (vmul b c)), !vmul_exact. ring. Qed.

Lemma vmul_add_distr a b c : vmul a (vadd b c) == vadd (vmul a b) (vmul a c).
Proof. rewrite (vmul_exact a (vadd b c)), (vadd_exact (vmul a b)), vadd_exact, !vmul_exact. ring. Qed.

Lemma vdiv_add_distr a b c : ~ c == 0 -> vdiv (vadd a b) c == vadd (vdiv a c) (vdiv b c).
Proof.
  intro Hc. rewrite (vdiv_total (vadd a b)), (vadd_exact (vdiv a c)), vadd_exact, !vdiv_total.
  field. exact Hc.
Qed.

Lemma vdiv_div a b c : ~ b == 0 -> ~ c == 0 -> vdiv (vdiv a b) c == vdiv a (vmul b c).
Proof.
  intros Hb Hc. rewrite (vdiv_total (vdiv a b)), (vdiv_total a (vmul b c)), vdiv_total, vmul_exact.
  field. split; assumption.
Qed.

(* ---- floor division and modulo: Euclidean division with Python's signs -------- *)
Lemma euclid a b : ~ b == 0 -> a == vfloordiv a b * b + vmod a b.
Proof.
  intro Hb. unfold vfloordiv, vmod. rewrite (proj2 (is_zero_false b) Hb), Qred_correct. ring.
Qed.

Lemma vmod_exact a b : vmod a b == a - b * inject_Z (Qfloor (a / b)).
Proof. unfold vmod, qfloor. apply Qred_correct. Qed.

Lemma mod_range_pos a b : 0 < b -> 0 <= vmod a b /\ vmod a b < b.
Proof.
  intro Hb.
  assert (Hnz : ~ b == 0) by (intro E; rewrite E in Hb; discriminate Hb).
  pose proof (Qfloor_le (a / b)) as Fl. pose proof (Qlt_floor (a / b)) as Fh.
  rewrite inject_Z_plus in Fh.
  apply (fun H => Qmult_le_compat_r _ _ b H (Qlt_le_weak _ _ Hb)) in Fl.
  apply (Qmult_lt_compat_r _ _ b Hb) in Fh.
  assert (E : a / b * b == a) by (field; exact Hnz).
  rewrite E in Fl, Fh. rewrite vmod_exact.
  set (f := inject_Z (Qfloor (a / b))) in *.
  assert (E2 : (f + inject_Z 1) * b == b * f + b) by (simpl; ring).
  rewrite E2 in Fh.
  assert (E3 : f * b == b * f) by ring.
  rewrite E3 in Fl.
  set (m := b * f) in *. split; lra.
Qed.

Lemma mod_range_neg a b : b < 0 -> b < vmod a b /\ vmod a b <= 0.
Proof.
  intro Hb.
  assert (Hnz : ~ b == 0) by (intro E; rewrite E in Hb; discriminate Hb).
  assert (Hnb : 0 < - b) by lra.
  pose proof (Qfloor_le (a / b)) as Fl. pose proof (Qlt_floor (a / b)) as Fh.
  rewrite inject_Z_plus in Fh.
  apply (fun H => Qmult_le_compat_r _ _ (- b) H (Qlt_le_weak _ _ Hnb)) in Fl.
  apply (Qmult_lt_compat_r _ _ (- b) Hnb) in Fh.
  assert (E : a / b * - b == - a) by (field; exact Hnz).
  rewrite E in Fl, Fh. rewrite vmod_exact.
  set (f := inject_Z (Qfloor (a / b))) in *.
  assert (E2 : (f + inject_Z 1) * - b == - (b * f) - b) by (simpl; ring).
  rewrite E2 in Fh.
  assert (E3 : f * - b == - (b * f)) by ring.
  rewrite E3 in Fl.
  set (m := b * f) in *. split; lra.
Qed.

(* Python ints: // and % are Z.div and Z.modulo (floor, sign of the divisor) *)
Lemma inject_Z_nonzero y : y <> 0%Z -> ~ inject_Z y == 0.
Proof. intros Hy E. apply Hy. apply (proj1 (inject_Z_injective y 0)). exact E. Qed.

Lemma vfloordiv_int x y : y <> 0%Z -> vfloordiv (inject_Z x) (inject_Z y) = inject_Z (x / y).
Proof.
  intro Hy. unfold vfloordiv, qfloor.
  rewrite (proj2 (is_zero_false _) (inject_Z_nonzero y Hy)), <- Zdiv_Qdiv. reflexivity.
Qed.

Lemma vmod_int x y : y <> 0%Z -> vmod (inject_Z x) (inject_Z y) == inject_Z (x mod y).
Proof.
  intro Hy. rewrite vmod_exact, <- Zdiv_Qdiv, (Z.mod_eq x y Hy).
  rewrite <- Z.add_opp_r, inject_Z_plus, inject_Z_opp, inject_Z_mult. unfold Qminus. reflexivity.
Qed.

(* ---- expression trees: chained model arithmetic = field arithmetic ------------- *)
Lemma tree_total e : eval_model e == eval_Q e.
Proof.
  induction e as [q | a IHa b IHb | a IHa b IHb | a IHa b IHb | a IHa b IHb]; simpl.
  - reflexivity.
  - rewrite vadd_exact, IHa, IHb. reflexivity.
  - rewrite vsub_exact, IHa, IHb. reflexivity.
  - rewrite vmul_exact, IHa, IHb. reflexivity.
  - rewrite vdiv_total, IHa, IHb. reflexivity.
Qed.

Lemma tree_exact e : divisors_nonzero e -> eval_model e == eval_Q e.
Proof.
  induction e as [q | a IHa b IHb | a IHa b IHb | a IHa b IHb | a IHa b IHb]; simpl; intro H.
  - reflexivity.
  - destruct H as [Ha Hb]. rewrite vadd_exact, (IHa Ha), (IHb Hb). reflexivity.
  - destruct H as [Ha Hb]. rewrite vsub_exact, (IHa Ha), (IHb Hb). reflexivity.
  - destruct H as [Ha Hb]. rewrite vmul_exact, (IHa Ha), (IHb Hb). reflexivity.
  - destruct H as [Ha [Hb Hnz]].
    assert (Hm : ~ eval_model b == 0) by (rewrite (IHb Hb); exact Hnz).
    rewrite (vdiv_exact _ _ Hm), (IHa Ha), (IHb Hb). reflexivity.
Qed.

Lemma tree_canon e : divisors_nonzero e -> canon (eval_model e) = canon (eval_Q e).
Proof. intro H. apply canon_eq_iff. apply tree_exact. exact H. Qed.

(* every observable result of a number/number call is a number (modulo by zero,
   which raises, excluded) *)
Definition is_number (c : cval) : Prop :=
  match c with CInt _ | CRat _ _ => True | _ => False end.

Lemma canon_is_number a : is_number (canon a).
Proof. unfold canon. destruct (Pos.eqb (Qden (Qred a)) 1); exact I. Qed.

Lemma run_op_number o a b : (o = OMod -> ~ b == 0) -> is_number (run_op o a b).
Proof.
  intro H. destruct o; simpl; try apply canon_is_number.
  unfold vmod_impl. rewrite (proj2 (is_zero_false b) (H eq_refl)). apply canon_is_number.
Qed.

Lemma run_op_exact o a b : ~ b == 0 ->
  run_op o a b =
  canon (match o with
         | OAdd => a + b | OSub => a - b | OMul => a * b | ODiv => a / b
         | OMod => a - b * inject_Z (Qfloor (a / b))
         | OFloordiv => inject_Z (Qfloor (a / b))
         end).
Proof.
  intros Hb. destruct o; simpl.
  - apply canon_eq_iff, vadd_exact.
  - apply canon_eq_iff, vsub_exact.
  - apply canon_eq_iff, vmul_exact.
  - apply canon_eq_iff, vdiv_total.
  - unfold vmod_impl. rewrite (proj2 (is_zero_false b) Hb). apply canon_eq_iff, vmod_exact.
  - unfold vfloordiv, qfloor.
    rewrite (proj2 (is_zero_false b) Hb). reflexivity.
Qed.

(* ---- non-vacuity: concrete instances on which the hypotheses hold -------------- *)
Lemma ex_nonzero : ~ (-2 # 5) == 0.
Proof. intro H. vm_compute in H. discriminate H. Qed.

Lemma ex_ops :
  vadd (-7 # 2) (2 # 3) = (-17 # 6) /\ vsub (-7 # 2) (2 # 3) = (-25 # 6)
  /\ vmul (-7 # 2) (2 # 3) = (-7 # 3) /\ vdiv (-7 # 2) (2 # 3) = (-21 # 4)
  /\ vfloordiv (-7 # 2) (2 # 3) = (-6 # 1) /\ vmod (-7 # 2) (2 # 3) = (1 # 2)
  /\ vmod (7 # 1) (-2 # 3) = (-1 # 3) /\ vfloordiv (7 # 1) (-2 # 3) = (-11 # 1).
Proof. vm_compute. repeat split. Qed.

Lemma ex_vdiv_mul : ~ (-2 # 5) == 0 /\ vmul (vdiv (7 # 3) (-2 # 5)) (-2 # 5) = (7 # 3)
  /\ canon (vdiv (6 # 1) (3 # 2)) = CInt 4 /\ canon (vdiv (1 # 1) (3 # 1)) = CRat 1 3.
Proof. split; [exact ex_nonzero|]. vm_compute. repeat split. Qed.

Lemma ex_by_zero : (0 # 7) == 0 /\ vdiv (5 # 2) (0 # 7) = 0 /\ vfloordiv (5 # 2) (0 # 7) = 0
  /\ vmod_impl (5 # 2) (0 # 7) = CZeroDiv.
Proof. vm_compute. repeat split. Qed.

Lemma ex_mod_pos : 0 < (2 # 3) /\ vmod (-7 # 2) (2 # 3) = (1 # 2).
Proof. vm_compute. split; reflexivity. Qed.

Lemma ex_mod_neg : (-2 # 3) < 0 /\ vmod (7 # 1) (-2 # 3) = (-1 # 3).
Proof. vm_compute. split; reflexivity. Qed.

Lemma ex_int : (-3 <> 0)%Z /\ vfloordiv (inject_Z 7) (inject_Z (-3)) = inject_Z (-3)
  /\ vmod (inject_Z 7) (inject_Z (-3)) = inject_Z (-2).
Proof. split; [discriminate|]. vm_compute. split; reflexivity. Qed.

Definition ex_tree : expr :=
  EDiv (ESub (EMul (L 3 2) (L (-4) 1)) (EAdd (L 1 3) (L 5 6))) (EDiv (L 7 1) (ESub (L 1 2) (L 2 1))).

Lemma ex_tree_nonzero : divisors_nonzero ex_tree.
Proof. simpl. repeat split; intro H; vm_compute in H; discriminate H. Qed.

Lemma ex_tree_value : divisors_nonzero ex_tree /\ eval_model ex_tree = (43 # 28).
Proof. split; [exact ex_tree_nonzero|]. vm_compute. reflexivity. Qed.
