(* General facts about the parser model used by several properties:
   table facts (by computation on the regenerated constants), the scan of an appended
   token list, length bounds of branches, fuel irrelevance. *)
From Coq Require Import List NArith ZArith Bool Lia Arith.
From Vy Require Import Model.Base Model.Lexer Model.Parser Gen.ParserConsts.
Import ListNotations.
Open Scope N_scope.

(* ---- the token-kind guards are all present in parse.py (read from its AST) ---- *)
Lemma guards_present :
  break_kind_guarded = true /\ recurse_kind_guarded = true /\ open_kind_guarded = true
  /\ monadic_kind_guarded = true /\ dyadic_kind_guarded = true /\ triadic_kind_guarded = true
  /\ gb_open_kind_guarded = true /\ gb_pipe_kind_guarded = true /\ gb_close_kind_guarded = true.
Proof. vm_compute. repeat split; reflexivity. Qed.

Lemma guard_true_general t : guard true t = is_general t.
Proof. reflexivity. Qed.

(* ---- closer tokens ----------------------------------------------------------- *)
Definition closer_tok (t : token) : bool := is_general t && value_in t closers.

(* every closer character is neither an opener, the pipe, break/recurse nor a modifier *)
Definition closer_char_plain (c : N) : bool :=
  negb (mem c openers) && negb (N.eqb c ch_pipe) && negb (N.eqb c break_character)
  && negb (N.eqb c recurse_character) && negb (mem c monadic_modifiers)
  && negb (mem c dyadic_modifiers) && negb (mem c triadic_modifiers) && negb (N.eqb c ch_colon).

Lemma closers_plain : forallb closer_char_plain closers = true.
Proof. vm_compute. reflexivity. Qed.

Lemma closer_tok_inv t : closer_tok t = true ->
  exists c, t = Tok KGeneral [c] /\ mem c closers = true /\ closer_char_plain c = true.
Proof.
  destruct t as [k v]. unfold closer_tok, is_general, value_in; simpl.
  intro H. apply andb_prop in H as [Hk Hv].
  destruct k; simpl in Hk; try discriminate.
  destruct v as [|c [|? ?]]; try discriminate.
  exists c. split; [reflexivity|]. split; [exact Hv|].
  pose proof closers_plain as P. rewrite forallb_forall in P. apply P. apply mem_In. exact Hv.
Qed.

Lemma classify_closer t : closer_tok t = true -> classify t = AIgnore.
Proof.
  intro H. destruct (closer_tok_inv t H) as [c [-> [Hc Hp]]].
  destruct guards_present as [G1 [G2 [G3 [G4 [G5 [G6 _]]]]]].
  unfold closer_char_plain in Hp.
  repeat (apply andb_prop in Hp as [Hp ?]).
  repeat match goal with X : negb _ = true |- _ => apply negb_true_iff in X end.
  unfold classify. cbn [tk tv].
  rewrite G1, G2, G3, G4, G5, G6. unfold guard, is_general, value_is, value_in. cbn [tk tv negb orb tkind_eqb andb].
  repeat match goal with X : _ = false |- _ => rewrite X end.
  rewrite Hc. reflexivity.
Qed.

(* ---- the scan over an appended list ------------------------------------------ *)
Lemma gb_scan_app a b : forall stack cur done,
  gb_scan (a ++ b) stack cur done =
  let '(s, c, d, r) := gb_scan a stack cur done in
  match s with
  | [] => (s, c, d, r ++ b)
  | _ => gb_scan b s c d
  end.
Proof.
  induction a as [|t a IH]; intros stack cur done.
  - simpl. destruct stack as [|top below]; simpl.
    + destruct b; reflexivity.
    + reflexivity.
  - destruct stack as [|top below].
    + simpl. reflexivity.
    + cbn [app gb_scan]. destruct (gb_step t top below cur done) as [[s' c'] d']. apply IH.
Qed.

Lemma gb_scan_nil_stack ts cur done : gb_scan ts [] cur done = ([], cur, done, ts).
Proof. destruct ts; reflexivity. Qed.

Lemma gb_scan_rest_nil_or_stack_nil ts : forall stack cur done s c d r,
  gb_scan ts stack cur done = (s, c, d, r) -> s = [] \/ r = [].
Proof.
  induction ts as [|t ts IH]; intros stack cur done s c d r H.
  - destruct stack; simpl in H; inversion H; subst; auto.
  - destruct stack as [|top below]; simpl in H.
    + inversion H; subst; auto.
    + destruct (gb_step t top below cur done) as [[s' c'] d']. eapply IH; eauto.
Qed.

(* ---- length bounds ------------------------------------------------------------ *)
Fixpoint total_len (l : list (list token)) : nat :=
  match l with [] => O | x :: r => (length x + total_len r)%nat end.

Lemma total_len_app a b : total_len (a ++ b) = (total_len a + total_len b)%nat.
Proof. induction a; simpl; lia. Qed.

Lemma gb_step_len t top below cur done s c d :
  gb_step t top below cur done = (s, c, d) ->
  (length c + total_len d <= S (length cur + total_len done))%nat.
Proof.
  unfold gb_step. intro H.
  repeat match type of H with
  | (if ?b then _ else _) = _ => destruct b
  | (match ?x with _ => _ end) = _ => destruct x
  end; inversion H; subst; rewrite ?app_length, ?total_len_app; simpl; lia.
Qed.

Lemma gb_scan_len ts : forall stack cur done s c d r,
  gb_scan ts stack cur done = (s, c, d, r) ->
  (length c + total_len d + length r <= length cur + total_len done + length ts)%nat.
Proof.
  induction ts as [|t ts IH]; intros stack cur done s c d r H.
  - destruct stack; simpl in H; inversion H; subst; simpl; lia.
  - destruct stack as [|top below]; simpl in H.
    + inversion H; subst; simpl; lia.
    + destruct (gb_step t top below cur done) as [[s' c'] d'] eqn:E.
      apply gb_step_len in E. apply IH in H. simpl. lia.
Qed.

Lemma total_len_In l b : In b l -> (length b <= total_len l)%nat.
Proof. induction l as [|x l IH]; simpl; [tauto|]. intros [H|H]; subst; try lia. apply IH in H. lia. Qed.

Lemma get_branches_len rest cl branches after :
  get_branches rest [cl] [] [] = (branches, after) ->
  (length after <= length rest)%nat /\ (forall b, In b branches -> (length b <= length rest)%nat).
Proof.
  unfold get_branches. destruct (gb_scan rest [cl] [] []) as [[[s c] d] r] eqn:E.
  intro H. inversion H; subst. apply gb_scan_len in E. simpl in E.
  split; [lia|]. intros b Hb. apply total_len_In in Hb. rewrite total_len_app in Hb. simpl in Hb. lia.
Qed.

(* ---- fuel irrelevance ----------------------------------------------------------- *)
Lemma map_res_ext {A B} (f g : A -> res B) l :
  (forall x, In x l -> f x = g x) -> map_res f l = map_res g l.
Proof.
  induction l as [|x l IH]; simpl; intro H; [reflexivity|].
  rewrite (H x (or_introl eq_refl)). rewrite IH; [reflexivity|]. intros; apply H; auto.
Qed.

Lemma last_In {A} (l : list A) d : l <> [] -> In (last l d) l.
Proof.
  induction l as [|x l IH]; intro H; [congruence|].
  destruct l as [|y l]; [left; reflexivity|]. right. apply IH. discriminate.
Qed.

Lemma build_ext rec1 rec2 parent cls branches :
  branches <> [] ->
  (forall p b, In b branches -> rec1 p b = rec2 p b) ->
  build rec1 parent cls branches = build rec2 parent cls branches.
Proof.
  intros Hne H. unfold build.
  assert (Hl : forall p, rec1 p (last branches []) = rec2 p (last branches [])).
  { intro p. apply H. apply last_In. exact Hne. }
  assert (Hf : forall p, rec1 p (hd [] branches) = rec2 p (hd [] branches)).
  { intro p. apply H. destruct branches; [congruence|left; reflexivity]. }
  assert (Hm : forall p, map_res (rec1 p) branches = map_res (rec2 p) branches).
  { intro p. apply map_res_ext. intros; apply H; assumption. }
  destruct cls; rewrite ?Hm, ?Hl, ?Hf; reflexivity.
Qed.

Lemma get_branches_nonempty rest stack cur done branches after :
  get_branches rest stack cur done = (branches, after) -> branches <> [].
Proof.
  unfold get_branches. destruct (gb_scan rest stack cur done) as [[[s c] d] r].
  intro H. inversion H. destruct d; discriminate.
Qed.

Lemma parse_fuel f1 : forall f2 p ts,
  (length ts < f1)%nat -> (length ts < f2)%nat -> parse f1 p ts = parse f2 p ts.
Proof.
  induction f1 as [|f1 IH]; intros f2 p ts H1 H2; [lia|].
  destruct f2 as [|f2]; [lia|].
  destruct ts as [|head rest]; [reflexivity|]. simpl in H1, H2.
  cbn [parse]. destruct (classify head) as [s|cls cl|n m| |e]; try reflexivity.
  - rewrite (IH f2 p rest) by lia. reflexivity.
  - destruct (get_branches rest [cl] [] []) as [branches after] eqn:E.
    pose proof (get_branches_nonempty _ _ _ _ _ _ E) as Hne.
    apply get_branches_len in E as [Ha Hb].
    rewrite (build_ext (parse f1) (parse f2) p cls branches Hne).
    + rewrite (IH f2 p after) by lia. reflexivity.
    + intros p' b Hin. apply IH; specialize (Hb b Hin); lia.
  - destruct rest as [|r0 rest']; [reflexivity|]. rewrite (IH f2 _ (r0 :: rest')) by (simpl in *; lia). reflexivity.
  - apply IH; lia.
Qed.

Lemma parse_Ok_nil_fuel f p : parse (S f) p [] = Ok [].
Proof. reflexivity. Qed.

(* ---- induction principle for the nested structure tree ---------------------------- *)
Section StructInd.
  Variable P : struct -> Prop.
  Hypothesis HGeneric : forall t, P (SGeneric t).
  Hypothesis HBreak : forall p, P (SBreak p).
  Hypothesis HRecurse : forall p, P (SRecurse p).
  Hypothesis HIf : forall bs, Forall (Forall P) bs -> P (SIf bs).
  Hypothesis HFor : forall n b, Forall P b -> P (SFor n b).
  Hypothesis HWhile : forall c b, Forall P c -> Forall P b -> P (SWhile c b).
  Hypothesis HFnCall : forall n, P (SFnCall n).
  Hypothesis HFnDef : forall n ps b, Forall P b -> P (SFnDef n ps b).
  Hypothesis HLambda : forall a b, Forall P b -> P (SLambda a b).
  Hypothesis HLamOp : forall o b, Forall P b -> P (SLamOp o b).
  Hypothesis HList : forall items, Forall (Forall P) items -> P (SList items).
  Hypothesis HMod1 : forall m a, P a -> P (SMod1 m a).
  Hypothesis HMod2 : forall m a b, P a -> P b -> P (SMod2 m a b).
  Hypothesis HMod3 : forall m a b c, P a -> P b -> P c -> P (SMod3 m a b c).

  Fixpoint struct_ind' (s : struct) : P s :=
    let go := fix go (l : list struct) : Forall P l :=
      match l with [] => Forall_nil _ | x :: r => Forall_cons _ (struct_ind' x) (go r) end in
    let go2 := fix go2 (l : list (list struct)) : Forall (Forall P) l :=
      match l with [] => Forall_nil _ | b :: r => Forall_cons _ (go b) (go2 r) end in
    match s with
    | SGeneric t => HGeneric t
    | SBreak p => HBreak p
    | SRecurse p => HRecurse p
    | SIf bs => HIf bs (go2 bs)
    | SFor n b => HFor n b (go b)
    | SWhile c b => HWhile c b (go c) (go b)
    | SFnCall n => HFnCall n
    | SFnDef n ps b => HFnDef n ps b (go b)
    | SLambda a b => HLambda a b (go b)
    | SLamOp o b => HLamOp o b (go b)
    | SList items => HList items (go2 items)
    | SMod1 m a => HMod1 m a (struct_ind' a)
    | SMod2 m a b => HMod2 m a b (struct_ind' a) (struct_ind' b)
    | SMod3 m a b c => HMod3 m a b c (struct_ind' a) (struct_ind' b) (struct_ind' c)
    end.
End StructInd.
