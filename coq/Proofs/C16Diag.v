(* C16, part 5: the anti-diagonal enumeration of cartesian_product (the order the
   implementation produces) is a permutation of the row-major product, so the laws
   proved for `cart` (count, membership, distinctness) hold for the actual output. *)
From Coq Require Import List ZArith Bool Arith Lia Permutation.
From Vy Require Import Model.ListOps Proofs.C16Basic Proofs.C16Enum.
Import ListNotations.
Open Scope Z_scope.

Lemma map_flat_map {A B C} (f : B -> C) (g : A -> list B) (l : list A) :
  map f (flat_map g l) = flat_map (fun x => map f (g x)) l.
Proof. induction l as [|x l IH]; simpl; [reflexivity|]. rewrite map_app, IH. reflexivity. Qed.

Lemma map_nth_seq (l : list Z) : map (fun j => nth j l 0) (seq 0 (length l)) = l.
Proof.
  induction l as [|x r IH]; [reflexivity|]. cbn [length seq map nth].
  rewrite seq_S_map, map_map. cbn [nth]. rewrite IH. reflexivity.
Qed.

Lemma NoDup_flat_map_gen {A B} (f : A -> list B) (l : list A) :
  NoDup l -> (forall x, In x l -> NoDup (f x)) ->
  (forall x y q, In x l -> In y l -> In q (f x) -> In q (f y) -> x = y) ->
  NoDup (flat_map f l).
Proof.
  induction 1 as [|x l Hx Hl IH]; intros Hf Hinj; [constructor|]. cbn [flat_map].
  apply NoDup_app_sep.
  - apply Hf. left. reflexivity.
  - apply IH; [intros y Hy; apply Hf; right; exact Hy|].
    intros a b q Ha Hb. apply Hinj; right; assumption.
  - intros q Hq Hin. apply in_flat_map in Hin. destruct Hin as [y [Hy Hqy]].
    assert (E : x = y) by (apply (Hinj x y q); [left; reflexivity|right; exact Hy|exact Hq|exact Hqy]).
    subst. tauto.
Qed.

Definition pick (a b : list Z) (p : nat * nat) : Z * Z := (nth (fst p) a 0, nth (snd p) b 0).
Definition grid (la lb : nat) : list (nat * nat) := list_prod (seq 0 la) (seq 0 lb).
Definition diag_cell (la lb d i : nat) : list (nat * nat) :=
  if (i <? la)%nat && (d - i <? lb)%nat then [(i, (d - i)%nat)] else [].
Definition diag (la lb : nat) : list (nat * nat) :=
  flat_map (fun d => flat_map (diag_cell la lb d) (seq 0 (S d))) (seq 0 (la + lb - 1)).

Lemma cart_as_grid (a b : list Z) : cart a b = map (pick a b) (grid (length a) (length b)).
Proof.
  unfold cart, grid. rewrite <- (map_nth_seq a) at 1. rewrite flat_map_map.
  assert (G : forall s : list nat, list_prod s (seq 0 (length b)) = flat_map (fun i => map (fun j => (i, j)) (seq 0 (length b))) s).
  { induction s as [|i s IH]; [reflexivity|]. simpl. rewrite IH. reflexivity. }
  rewrite G, map_flat_map. apply flat_map_ext. intro i. rewrite map_map. unfold pick. cbn [fst snd].
  rewrite <- (map_nth_seq b) at 1. rewrite map_map. reflexivity.
Qed.

Lemma cart_diag_as_diag (a b : list Z) : cart_diag a b = map (pick a b) (diag (length a) (length b)).
Proof.
  unfold cart_diag, diag. rewrite map_flat_map. apply flat_map_ext. intro d.
  rewrite map_flat_map. apply flat_map_ext. intro i. unfold diag_cell.
  destruct (Nat.ltb_spec i (length a)) as [Hi|Hi].
  - rewrite (nth_error_nth' a 0 Hi). destruct (Nat.ltb_spec (d - i) (length b)) as [Hj|Hj].
    + rewrite (nth_error_nth' b 0 Hj). reflexivity.
    + apply nth_error_None in Hj. rewrite Hj. reflexivity.
  - apply nth_error_None in Hi. rewrite Hi. reflexivity.
Qed.

Lemma diag_cell_In (la lb d i : nat) (q : nat * nat) :
  In q (diag_cell la lb d i) <-> q = (i, (d - i)%nat) /\ (i < la)%nat /\ (d - i < lb)%nat.
Proof.
  unfold diag_cell. destruct (Nat.ltb_spec i la) as [Hi|Hi]; destruct (Nat.ltb_spec (d - i) lb) as [Hj|Hj]; simpl.
  - split; [intros [<-|[]]; tauto|intros [-> _]; left; reflexivity].
  - split; [intros []|lia].
  - split; [intros []|lia].
  - split; [intros []|lia].
Qed.

Lemma diag_In (la lb : nat) (i j : nat) : In (i, j) (diag la lb) <-> (i < la)%nat /\ (j < lb)%nat.
Proof.
  unfold diag. rewrite in_flat_map. split.
  - intros [d [_ H]]. apply in_flat_map in H. destruct H as [i' [_ H]].
    apply diag_cell_In in H. destruct H as [E [H1 H2]]. inversion E; subst. tauto.
  - intros [Hi Hj]. exists (i + j)%nat. split; [apply in_seq; lia|].
    apply in_flat_map. exists i. split; [apply in_seq; lia|].
    apply diag_cell_In. replace (i + j - i)%nat with j by lia. tauto.
Qed.

Lemma diag_NoDup (la lb : nat) : NoDup (diag la lb).
Proof.
  unfold diag. apply NoDup_flat_map_gen.
  - apply seq_NoDup.
  - intros d _. apply NoDup_flat_map_gen.
    + apply seq_NoDup.
    + intros i _. unfold diag_cell. destruct ((i <? la)%nat && (d - i <? lb)%nat); [constructor; [intros []|constructor]|constructor].
    + intros i i' q _ _ H1 H2. apply diag_cell_In in H1. apply diag_cell_In in H2.
      destruct H1 as [E1 _]. destruct H2 as [E2 _]. subst q. inversion E2. reflexivity.
  - intros d d' q _ _ H1 H2. apply in_flat_map in H1. apply in_flat_map in H2.
    destruct H1 as [i [Hi H1]]. destruct H2 as [i' [Hi' H2]].
    apply in_seq in Hi. apply in_seq in Hi'.
    apply diag_cell_In in H1. apply diag_cell_In in H2.
    destruct H1 as [E1 _]. destruct H2 as [E2 _]. subst q. inversion E2. lia.
Qed.

Lemma NoDup_list_prod {A B} (a : list A) (b : list B) : NoDup a -> NoDup b -> NoDup (list_prod a b).
Proof.
  intros Ha Hb. induction Ha as [|x a Hx Ha IH]; [constructor|]. simpl. apply NoDup_app_sep.
  - apply FinFun.Injective_map_NoDup; [intros u v E; inversion E; reflexivity|exact Hb].
  - exact IH.
  - intros [u v] Hq Hin. apply in_map_iff in Hq. destruct Hq as [y [E _]]. inversion E; subst.
    apply in_prod_iff in Hin. tauto.
Qed.

Lemma diag_grid_perm (la lb : nat) : Permutation (diag la lb) (grid la lb).
Proof.
  apply NoDup_Permutation.
  - apply diag_NoDup.
  - apply NoDup_list_prod; apply seq_NoDup.
  - intros [i j]. rewrite diag_In. unfold grid. rewrite in_prod_iff, !in_seq. lia.
Qed.

Lemma cart_diag_perm (a b : list Z) : Permutation (cart_diag a b) (cart a b).
Proof. rewrite cart_diag_as_diag, cart_as_grid. apply Permutation_map, diag_grid_perm. Qed.

Lemma cart_diag_length (a b : list Z) : length (cart_diag a b) = (length a * length b)%nat.
Proof. rewrite (Permutation_length (cart_diag_perm a b)). apply cart_length. Qed.

Lemma cart_diag_NoDup (a b : list Z) : NoDup a -> NoDup b -> NoDup (cart_diag a b).
Proof.
  intros Ha Hb. eapply Permutation_NoDup; [apply Permutation_sym, cart_diag_perm|apply cart_NoDup; assumption].
Qed.
