(* C16, part 3: zip, transpose, interleave / uninterleave, wrap, prefixes, suffixes,
   sublists. *)
From Coq Require Import List ZArith Bool Arith Lia Permutation.
From Vy Require Import Model.ListOps Proofs.C16Basic.
Import ListNotations.
Open Scope Z_scope.

Lemma nth_map_default {A B} (f : A -> B) (l : list A) (d : B) (da : A) (i : nat) :
  (i < length l)%nat -> nth i (map f l) d = f (nth i l da).
Proof.
  intro H. rewrite (nth_indep _ d (f da)) by (rewrite map_length; exact H). apply map_nth.
Qed.

Lemma nth_map_seq {B} (f : nat -> B) (d : B) (n i : nat) : (i < n)%nat -> nth i (map f (seq 0 n)) d = f i.
Proof.
  intro H. rewrite (nth_map_default f (seq 0 n) d 0%nat) by (rewrite seq_length; exact H).
  rewrite seq_nth by exact H. reflexivity.
Qed.

(* ---- zip -------------------------------------------------------------------- *)
Lemma zip_length (a b : list Z) : length (zip a b) = Nat.max (length a) (length b).
Proof.
  revert b; induction a as [|x a IH]; intro b; simpl.
  - rewrite map_length. reflexivity.
  - destruct b as [|y b]; simpl; [rewrite map_length; reflexivity|]. rewrite IH. reflexivity.
Qed.

Lemma nth_nil (i : nat) : nth i (@nil Z) 0 = 0.
Proof. destruct i; reflexivity. Qed.

Lemma zip_nth (a b : list Z) (i : nat) : nth i (zip a b) (0, 0) = (nth i a 0, nth i b 0).
Proof.
  revert b i; induction a as [|x a IH]; intros b i.
  - cbn [zip]. rewrite nth_nil.
    change (0, 0) with ((fun y : Z => (0, y)) 0). rewrite map_nth. reflexivity.
  - destruct b as [|y b]; cbn [zip].
    + destruct i as [|i]; [reflexivity|]. cbn [nth].
      change (0, 0) with ((fun x' : Z => (x', 0)) 0). rewrite map_nth. reflexivity.
    + destruct i as [|i]; [reflexivity|]. cbn [nth]. apply IH.
Qed.

(* ---- interleave / uninterleave ------------------------------------------------ *)
Lemma list_ind2 (P : list Z -> Prop) :
  P [] -> (forall x, P [x]) -> (forall x y l, P l -> P (x :: y :: l)) -> forall l, P l.
Proof.
  intros H0 H1 H2. fix go 1. intros [|x [|y l]]; [exact H0|apply H1|apply H2, go].
Qed.

Lemma evens_cons (y : Z) (l : list Z) : evens (y :: l) = y :: odds l.
Proof. destruct l; reflexivity. Qed.

Lemma odds_cons (y : Z) (l : list Z) : odds (y :: l) = evens l.
Proof. reflexivity. Qed.

Lemma uninterleave_slices (l : list Z) :
  forall i, nth i (evens l) 0 = nth (2 * i) l 0 /\ nth i (odds l) 0 = nth (2 * i + 1) l 0.
Proof.
  induction l as [| x | x y l IH] using list_ind2; intro i.
  - unfold odds. cbn [evens tl]. rewrite !nth_nil. split; reflexivity.
  - unfold odds. cbn [evens tl]. destruct i as [|i]; [split; reflexivity|].
    replace (2 * S i)%nat with (S (S (2 * i))) by lia. replace (2 * S i + 1)%nat with (S (S (2 * i + 1))) by lia.
    cbn [nth]. rewrite ?nth_nil. destruct i; split; reflexivity.
  - change (evens (x :: y :: l)) with (x :: evens l). change (odds (x :: y :: l)) with (evens (y :: l)).
    rewrite (evens_cons y l). destruct i as [|i]; [split; reflexivity|]. cbn [nth]. destruct (IH i) as [H1 H2].
    replace (2 * S i)%nat with (S (S (2 * i))) by lia. replace (2 * S i + 1)%nat with (S (S (2 * i + 1))) by lia.
    cbn [nth]. split; assumption.
Qed.

Lemma interleave_uninterleave (l : list Z) : interleave (evens l) (odds l) = l.
Proof.
  induction l as [| x | x y l IH] using list_ind2; [reflexivity|reflexivity|].
  change (evens (x :: y :: l)) with (x :: evens l). change (odds (x :: y :: l)) with (evens (y :: l)).
  rewrite (evens_cons y l). cbn [interleave]. rewrite IH. reflexivity.
Qed.

Lemma uninterleave_interleave (a b : list Z) :
  (length b <= length a <= S (length b))%nat -> uninterleave (interleave a b) = (a, b).
Proof.
  unfold uninterleave. revert b; induction a as [|x a IH]; intros b H.
  - destruct b; simpl in H; [reflexivity|lia].
  - destruct b as [|y b].
    + destruct a; simpl in H; [reflexivity|lia].
    + cbn [interleave]. change (evens (x :: y :: interleave a b)) with (x :: evens (interleave a b)).
      change (odds (x :: y :: interleave a b)) with (evens (y :: interleave a b)). rewrite (evens_cons y (interleave a b)).
      assert (H' : (length b <= length a <= S (length b))%nat) by (simpl in H; lia).
      specialize (IH b H'). injection IH as E1 E2. f_equal; f_equal; assumption.
Qed.

Lemma interleave_length (a b : list Z) : length (interleave a b) = (length a + length b)%nat.
Proof.
  revert b; induction a as [|x a IH]; intro b; [reflexivity|].
  destruct b as [|y b]; simpl; [lia|]. rewrite IH. lia.
Qed.

Lemma interleave_perm (a b : list Z) : Permutation (interleave a b) (a ++ b).
Proof.
  revert b; induction a as [|x a IH]; intro b; [apply Permutation_refl|].
  destruct b as [|y b]; [simpl; rewrite app_nil_r; apply Permutation_refl|].
  cbn [interleave]. simpl. apply perm_skip.
  eapply perm_trans; [apply perm_skip, IH|]. apply Permutation_middle.
Qed.

(* equal-length parts alternate, the rest of the longer list follows *)
Lemma interleave_leftover_left (a b c : list Z) :
  length a = length b -> interleave (a ++ c) b = interleave a b ++ c.
Proof.
  revert b; induction a as [|x a IH]; intros [|y b] H; simpl in H; try discriminate.
  - simpl. destruct c; reflexivity.
  - simpl. rewrite IH by lia. reflexivity.
Qed.

Lemma interleave_leftover_right (a b c : list Z) :
  length a = length b -> interleave a (b ++ c) = interleave a b ++ c.
Proof.
  revert b; induction a as [|x a IH]; intros [|y b] H; simpl in H; try discriminate.
  - reflexivity.
  - simpl. rewrite IH by lia. reflexivity.
Qed.

Lemma interleave_nth (a b : list Z) (i : nat) : length a = length b ->
  nth (2 * i) (interleave a b) 0 = nth i a 0 /\ nth (2 * i + 1) (interleave a b) 0 = nth i b 0.
Proof.
  intro H. assert (E : uninterleave (interleave a b) = (a, b)) by (apply uninterleave_interleave; lia).
  unfold uninterleave in E. injection E as E1 E2.
  destruct (uninterleave_slices (interleave a b) i) as [H1 H2].
  rewrite E1 in H1. rewrite E2 in H2. split; symmetry; assumption.
Qed.

(* ---- wrap --------------------------------------------------------------------- *)
Lemma wrap_go_concat (k : nat) (l temp : list Z) :
  (0 < k)%nat -> (length temp < k)%nat -> concat (wrap_go k temp l) = temp ++ l.
Proof.
  intro Hk. revert temp; induction l as [|x r IH]; intros temp Ht; cbn [wrap_go].
  - rewrite app_nil_r. destruct temp as [|t ts]; [reflexivity|].
    assert (E : (length (t :: ts) <? k)%nat = true) by (apply Nat.ltb_lt; exact Ht).
    rewrite E. simpl. rewrite app_nil_r. reflexivity.
  - destruct (Nat.eqb_spec (length (temp ++ [x])) k) as [E|E].
    + cbn [concat]. rewrite IH by (simpl; lia). rewrite <- app_assoc. reflexivity.
    + rewrite IH; [rewrite <- app_assoc; reflexivity|]. rewrite app_length in *. simpl in *. lia.
Qed.

Lemma wrap_concat (k : nat) (l : list Z) : (0 < k)%nat -> concat (wrap k l) = l.
Proof. intro Hk. unfold wrap. rewrite wrap_go_concat; [reflexivity|exact Hk|simpl; lia]. Qed.

Lemma wrap_go_chunks (k : nat) (l temp : list Z) :
  (0 < k)%nat -> (length temp < k)%nat ->
  Forall (fun c => length c = k) (removelast (wrap_go k temp l))
  /\ Forall (fun c => (0 < length c <= k)%nat) (wrap_go k temp l).
Proof.
  intro Hk. revert temp; induction l as [|x r IH]; intros temp Ht; cbn [wrap_go].
  - destruct temp as [|t ts]; [split; constructor|].
    assert (E : (length (t :: ts) <? k)%nat = true) by (apply Nat.ltb_lt; exact Ht).
    rewrite E. simpl. split; [constructor|]. constructor; [simpl in *; lia|constructor].
  - destruct (Nat.eqb_spec (length (temp ++ [x])) k) as [E|E].
    + destruct (IH [] ltac:(simpl; lia)) as [H1 H2]. split.
      * destruct (wrap_go k [] r) as [|c cs] eqn:W; [constructor|].
        change (removelast ((temp ++ [x]) :: c :: cs)) with ((temp ++ [x]) :: removelast (c :: cs)).
        constructor; [exact E|exact H1].
      * constructor; [lia|exact H2].
    + apply IH. rewrite app_length in *. simpl in *. lia.
Qed.

Lemma wrap_chunks (k : nat) (l : list Z) : (0 < k)%nat ->
  Forall (fun c => length c = k) (removelast (wrap k l))
  /\ Forall (fun c => (0 < length c <= k)%nat) (wrap k l).
Proof. intro Hk. apply wrap_go_chunks; [exact Hk|simpl; lia]. Qed.

Lemma wrap_go_zero (l temp : list Z) : wrap_go 0 temp l = [].
Proof.
  revert temp; induction l as [|x r IH]; intro temp; cbn [wrap_go].
  - rewrite andb_false_r. reflexivity.
  - destruct (Nat.eqb_spec (length (temp ++ [x])) 0) as [E|E]; [|apply IH].
    rewrite app_length in E. simpl in E. lia.
Qed.

Lemma wrap_zero (l : list Z) : wrap 0 l = [].
Proof. apply wrap_go_zero. Qed.

(* ---- prefixes, suffixes --------------------------------------------------------- *)
Lemma pref_go_spec (l temp : list Z) :
  pref_go temp l = map (fun i => temp ++ firstn (S i) l) (seq 0 (length l)).
Proof.
  revert temp; induction l as [|x r IH]; intro temp; [reflexivity|].
  cbn [pref_go length seq map]. rewrite seq_S_map, map_map. f_equal.
  rewrite IH. apply map_ext. intro i. rewrite <- app_assoc. reflexivity.
Qed.

Lemma prefixes_spec (l : list Z) : prefixes l = map (fun i => firstn (S i) l) (seq 0 (length l)).
Proof. unfold prefixes. rewrite pref_go_spec. reflexivity. Qed.

Lemma prefixes_length (l : list Z) : length (prefixes l) = length l.
Proof. rewrite prefixes_spec, map_length, seq_length. reflexivity. Qed.

Lemma prefixes_nth (l : list Z) (i : nat) : (i < length l)%nat -> nth i (prefixes l) [] = firstn (S i) l.
Proof.
  intro H. rewrite prefixes_spec. apply (nth_map_seq (fun i => firstn (S i) l)). exact H.
Qed.

Lemma prefixes_In (l p : list Z) : In p (prefixes l) <-> p <> [] /\ exists b, l = p ++ b.
Proof.
  rewrite prefixes_spec, in_map_iff. split.
  - intros [i [E Hi]]. apply in_seq in Hi. subst p. split.
    + destruct l; simpl in *; [lia|discriminate].
    + exists (skipn (S i) l). symmetry. apply firstn_skipn.
  - intros [Hne [b E]]. destruct p as [|x p]; [congruence|]. exists (length p). split.
    + subst l. change (S (length p)) with (length (x :: p)). rewrite firstn_app, Nat.sub_diag, firstn_all. change (firstn 0 b) with (@nil Z). apply app_nil_r.
    + apply in_seq. subst l. rewrite app_length. simpl. lia.
Qed.

Lemma suffixes_spec (l : list Z) : suffixes l = map (fun i => skipn i l) (seq 0 (length l)).
Proof.
  induction l as [|x r IH]; [reflexivity|].
  cbn [suffixes length seq map]. rewrite seq_S_map, map_map. f_equal. exact IH.
Qed.

Lemma suffixes_length (l : list Z) : length (suffixes l) = length l.
Proof. rewrite suffixes_spec, map_length, seq_length. reflexivity. Qed.

Lemma suffixes_In (l s : list Z) : In s (suffixes l) <-> s <> [] /\ exists a, l = a ++ s.
Proof.
  induction l as [|x r IH]; simpl.
  - split; [tauto|]. intros [Hne [a E]]. destruct a; simpl in E; [congruence|discriminate].
  - rewrite IH. split.
    + intros [H|[Hne [a E]]]; [subst; split; [discriminate|exists []; reflexivity]|].
      split; [exact Hne|]. exists (x :: a). simpl. rewrite E. reflexivity.
    + intros [Hne [a E]]. destruct a as [|y a]; simpl in E; [left; exact E|].
      right. inversion E. split; [exact Hne|]. exists a. reflexivity.
Qed.

(* ---- sublists ------------------------------------------------------------------- *)
Lemma sublists_In (l s : list Z) : In s (sublists l) <-> s <> [] /\ exists a b, l = a ++ s ++ b.
Proof.
  unfold sublists. rewrite in_flat_map. split.
  - intros [p [Hp Hs]]. apply prefixes_In in Hp. apply suffixes_In in Hs.
    destruct Hp as [_ [b E]]. destruct Hs as [Hne [a E2]]. split; [exact Hne|].
    exists a, b. subst. rewrite app_assoc. reflexivity.
  - intros [Hne [a [b E]]]. exists (a ++ s). split.
    + apply prefixes_In. split; [destruct a; [simpl; exact Hne|discriminate]|].
      exists b. rewrite <- app_assoc. exact E.
    + apply suffixes_In. split; [exact Hne|]. exists a. reflexivity.
Qed.

Lemma sublists_count_gen (l temp : list Z) :
  (2 * length (flat_map suffixes (pref_go temp l)) = length l * (2 * length temp + length l + 1))%nat.
Proof.
  revert temp; induction l as [|x r IH]; intro temp; [reflexivity|].
  cbn [pref_go flat_map]. rewrite app_length, suffixes_length, Nat.mul_add_distr_l, IH.
  rewrite !app_length. simpl length. nia.
Qed.

Lemma sublists_count (l : list Z) : (2 * length (sublists l) = length l * (length l + 1))%nat.
Proof. unfold sublists, prefixes. rewrite sublists_count_gen. simpl. lia. Qed.

(* ---- transpose ------------------------------------------------------------------ *)
Lemma transpose_length (rows : list (list Z)) : length (transpose rows) = max_len rows.
Proof. unfold transpose. rewrite map_length, seq_length. reflexivity. Qed.

Lemma column_rect (rows : list (list Z)) (m j : nat) :
  Forall (fun r => length r = m) rows -> (j < m)%nat -> column j rows = map (fun r => nth j r 0) rows.
Proof.
  intros H Hj. induction H as [|r rows Hr Hrows IH]; [reflexivity|].
  unfold column in *. cbn [flat_map map]. rewrite IH.
  rewrite (nth_error_nth' r 0) by lia. reflexivity.
Qed.

Lemma max_len_rect (rows : list (list Z)) (m : nat) :
  rows <> [] -> Forall (fun r => length r = m) rows -> max_len rows = m.
Proof.
  intros Hne H. induction H as [|r rows Hr Hrows IH]; [congruence|].
  cbn [max_len fold_right]. destruct rows as [|r' rows']; [simpl; lia|].
  change (fold_right (fun r m => Nat.max (length r) m) 0%nat (r' :: rows')) with (max_len (r' :: rows')).
  rewrite IH by discriminate. lia.
Qed.

Lemma transpose_rect (rows : list (list Z)) (m : nat) :
  rows <> [] -> Forall (fun r => length r = m) rows ->
  transpose rows = map (fun j => map (fun r => nth j r 0) rows) (seq 0 m).
Proof.
  intros Hne H. unfold transpose. rewrite (max_len_rect rows m Hne H).
  apply map_ext_in. intros j Hj. apply in_seq in Hj. apply (column_rect rows m); [exact H|lia].
Qed.

Lemma transpose_nth (rows : list (list Z)) (m i j : nat) :
  Forall (fun r => length r = m) rows -> (i < length rows)%nat -> (j < m)%nat ->
  nth i (nth j (transpose rows) []) 0 = nth j (nth i rows []) 0.
Proof.
  intros H Hi Hj. assert (Hne : rows <> []) by (destruct rows; simpl in Hi; [lia|discriminate]).
  rewrite (transpose_rect rows m Hne H).
  rewrite (nth_map_seq (fun j => map (fun r => nth j r 0) rows)) by exact Hj.
  apply (nth_map_default (fun r => nth j r 0)). exact Hi.
Qed.

Lemma transpose_shape (rows : list (list Z)) (m : nat) :
  rows <> [] -> Forall (fun r => length r = m) rows ->
  length (transpose rows) = m /\ Forall (fun c => length c = length rows) (transpose rows).
Proof.
  intros Hne H. rewrite (transpose_rect rows m Hne H). split.
  - rewrite map_length, seq_length. reflexivity.
  - apply Forall_forall. intros c Hc. apply in_map_iff in Hc. destruct Hc as [j [<- _]]. apply map_length.
Qed.

Lemma transpose_involutive (rows : list (list Z)) (m : nat) :
  rows <> [] -> (0 < m)%nat -> Forall (fun r => length r = m) rows -> transpose (transpose rows) = rows.
Proof.
  intros Hne Hm H. destruct (transpose_shape rows m Hne H) as [HL HF].
  assert (Hne' : transpose rows <> []) by (destruct (transpose rows); simpl in HL; [lia|discriminate]).
  rewrite (transpose_rect (transpose rows) (length rows) Hne' HF).
  apply (nth_ext _ _ [] []).
  - rewrite map_length, seq_length. reflexivity.
  - intros i Hi. rewrite map_length, seq_length in Hi.
    rewrite (nth_map_seq (fun j => map (fun r => nth j r 0) (transpose rows))) by exact Hi.
    assert (Hri : length (nth i rows []) = m).
    { rewrite Forall_forall in H. apply H. apply nth_In. exact Hi. }
    apply (nth_ext _ _ 0 0).
    + rewrite map_length, HL. symmetry. exact Hri.
    + intros j Hj. rewrite map_length, HL in Hj.
      rewrite (nth_map_default (fun r => nth i r 0) (transpose rows) 0 []) by (rewrite HL; exact Hj).
      apply (transpose_nth rows m i j H Hi Hj).
Qed.
