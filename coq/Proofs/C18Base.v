(* C18, part 1: string matching, the literal-body automaton, line splitting, composition
   of safe texts and the effect of helpers.indent_str on a safe text. *)
From Coq Require Import List NArith ZArith Bool Lia Arith String Ascii.
From Vy Require Import Model.Base Model.Lexer Model.Parser Model.Transpile Model.Provenance
  Gen.ParserConsts Gen.Codepage Gen.Elements.
Import ListNotations.
Open Scope N_scope.
Arguments N.eqb : simpl never.
Arguments N.leb : simpl never.

(* ---- membership ------------------------------------------------------------------------ *)
Lemma mem_app c a b : mem c (a ++ b) = mem c a || mem c b.
Proof. induction a as [|x a IH]; simpl; [reflexivity|]. rewrite IH. apply orb_assoc. Qed.

Lemma forallb_mem_false (p : N -> bool) s c : forallb p s = true -> p c = false -> mem c s = false.
Proof.
  intros H Hc. destruct (mem c s) eqn:E; [|reflexivity].
  apply mem_In in E. rewrite forallb_forall in H. apply H in E. congruence.
Qed.

Lemma mem_str_In k l : mem_str k l = true <-> In k l.
Proof.
  induction l as [|x l IH]; simpl; [split; [discriminate|tauto]|].
  rewrite orb_true_iff, str_eqb_eq, IH. split; intros [H|H]; auto.
Qed.

Lemma forallb_app_true {A} (p : A -> bool) a b :
  forallb p a = true -> forallb p b = true -> forallb p (a ++ b) = true.
Proof. intros Ha Hb. rewrite forallb_app, Ha, Hb. reflexivity. Qed.

(* ---- prefixes and suffixes ---------------------------------------------------------------- *)
Lemma drop_prefix_app p s : drop_prefix p (p ++ s) = Some s.
Proof. induction p as [|a p IH]; simpl; [reflexivity|]. rewrite N.eqb_refl. exact IH. Qed.

Lemma drop_prefix_Some p : forall s r, drop_prefix p s = Some r -> s = p ++ r.
Proof.
  induction p as [|a p IH]; intros s r H; simpl in *.
  - inversion H. reflexivity.
  - destruct s as [|b s]; [discriminate|].
    destruct (N.eqb a b) eqn:E; [|discriminate]. apply N.eqb_eq in E. subst b.
    f_equal. apply IH. exact H.
Qed.

Lemma drop_suffix_app suf s : drop_suffix suf (s ++ suf) = Some s.
Proof. unfold drop_suffix. rewrite rev_app_distr, drop_prefix_app, rev_involutive. reflexivity. Qed.

Lemma drop_suffix_Some suf s r : drop_suffix suf s = Some r -> s = r ++ suf.
Proof.
  unfold drop_suffix. destruct (drop_prefix (rev suf) (rev s)) as [x|] eqn:E; [|discriminate].
  intro H. inversion H; subst. apply drop_prefix_Some in E.
  rewrite <- (rev_involutive s), E, rev_app_distr, rev_involutive. reflexivity.
Qed.

Lemma wrapb_intro pre suf P mid : P mid = true -> wrapb pre suf P (pre ++ mid ++ suf) = true.
Proof. intro H. unfold wrapb. rewrite drop_prefix_app, drop_suffix_app. exact H. Qed.

Lemma wrapb_elim pre suf P x : wrapb pre suf P x = true -> exists mid, x = pre ++ mid ++ suf /\ P mid = true.
Proof.
  unfold wrapb. destruct (drop_prefix pre x) as [r|] eqn:E1; [|discriminate].
  destruct (drop_suffix suf r) as [m|] eqn:E2; [|discriminate].
  intro H. exists m. split; [|exact H].
  apply drop_prefix_Some in E1. apply drop_suffix_Some in E2. subst. reflexivity.
Qed.

(* ---- safe cores ------------------------------------------------------------------------------ *)
Lemma safe_core_fixed st x : mem_str x fixed_vocab = true -> safe_core st x = true.
Proof. intro H. unfold safe_core, in_vocab. rewrite H. reflexivity. Qed.

Lemma safe_core_template st x : In x template_vocab -> safe_core st x = true.
Proof.
  intro H. apply mem_str_In in H. unfold safe_core, in_vocab. rewrite H.
  rewrite orb_true_r. reflexivity.
Qed.

Lemma safe_core_shape st (s : shape) mid :
  In s (payload_shapes st) -> snd s mid = true ->
  safe_core st (fst (fst s) ++ mid ++ snd (fst s)) = true.
Proof.
  intros Hin HP. unfold safe_core. apply orb_true_iff. right.
  apply existsb_exists. exists s. split; [exact Hin|].
  destruct s as [[pre suf] P]. simpl in *. apply wrapb_intro. exact HP.
Qed.

Lemma safe_core_line_shape st (s : shape) mid :
  In s line_shapes -> snd s mid = true ->
  safe_core st (fst (fst s) ++ mid ++ snd (fst s)) = true.
Proof. intros Hin. apply safe_core_shape. right. exact Hin. Qed.

Lemma safe_core_string st body :
  lit_run st 34 false body = true -> safe_core st (L "stack.append(""" ++ body ++ L """)") = true.
Proof. intro H. apply (safe_core_shape st (sh_string st) body); [left; reflexivity|exact H]. Qed.

(* ---- the automaton ---------------------------------------------------------------------------- *)
Lemma lit_run_spaces st sp b : all_spaces sp = true -> lit_run st 34 false (sp ++ b) = lit_run st 34 false b.
Proof.
  induction sp as [|c sp IH]; intro H; [reflexivity|].
  simpl in H. apply andb_prop in H as [Hc Hs]. apply N.eqb_eq in Hc. subst c.
  simpl. apply IH. exact Hs.
Qed.

(* a newline inside an accepted body is the second half of an escape pair; what follows
   it starts in the normal state and may be replaced *)
Lemma lit_run_split_nl st q a : forall e r,
  mem nl a = false -> lit_run st q e (a ++ nl :: r) = true ->
  lit_run st q false r = true /\
  (forall r', lit_run st q false r' = true -> lit_run st q e (a ++ nl :: r') = true).
Proof.
  induction a as [|c a IH]; intros e r Hm H.
  - simpl in *. destruct e.
    + split; [exact H|]. intros r' Hr'. exact Hr'.
    + unfold nl in H. simpl in H.
      destruct (N.eqb 10 q); discriminate.
  - simpl in Hm. apply orb_false_iff in Hm as [Hc Hm].
    simpl in H. simpl.
    destruct e.
    + apply IH; assumption.
    + destruct (N.eqb c 92).
      * apply IH; assumption.
      * destruct (N.eqb c q); [discriminate|].
        assert (Hc10 : N.eqb c 10 = false).
        { rewrite N.eqb_sym. exact Hc. }
        rewrite Hc10 in *.
        destruct (N.eqb c 13).
        -- apply andb_prop in H as [Hs H]. rewrite Hs.
           destruct (IH false r Hm H) as [H1 H2]. split; [exact H1|].
           intros r' Hr'. simpl. apply H2. exact Hr'.
        -- apply IH; assumption.
Qed.

(* the strict automaton accepts whatever the lenient one accepts when there is no CR *)
Lemma lit_run_strict q s : forall e, mem 13 s = false -> lit_run false q e s = true -> lit_run true q e s = true.
Proof.
  induction s as [|c s IH]; intros e Hm H; [exact H|].
  simpl in Hm. apply orb_false_iff in Hm as [Hc Hm]. simpl in *.
  destruct e; [apply IH; assumption|].
  destruct (N.eqb c 92); [apply IH; assumption|].
  destruct (N.eqb c q); [discriminate|].
  destruct (N.eqb c 10); [discriminate|].
  rewrite N.eqb_sym in Hc. rewrite Hc in *. apply IH; assumption.
Qed.

(* ---- lines --------------------------------------------------------------------------------- *)
Lemma split_on_app c a b : forall cur,
  split_on c (a ++ c :: b) cur = split_on c a cur ++ split_on c b [].
Proof.
  induction a as [|x a IH]; intro cur; simpl.
  - rewrite N.eqb_refl. reflexivity.
  - destruct (N.eqb x c); [rewrite IH; reflexivity|apply IH].
Qed.

Lemma split_on_nomem c s : forall cur, mem c s = false -> split_on c s cur = [cur ++ s].
Proof.
  induction s as [|x s IH]; intros cur H; simpl.
  - rewrite app_nil_r. reflexivity.
  - simpl in H. apply orb_false_iff in H as [Hx Hs]. rewrite N.eqb_sym in Hx. rewrite Hx.
    rewrite IH by exact Hs. rewrite <- app_assoc. reflexivity.
Qed.

Lemma split_on_forallb (p : N -> bool) c s : forall cur,
  forallb p cur = true -> forallb p s = true ->
  Forall (fun seg => forallb p seg = true) (split_on c s cur).
Proof.
  induction s as [|x s IH]; intros cur Hc Hs; simpl.
  - constructor; [exact Hc|constructor].
  - simpl in Hs. apply andb_prop in Hs as [Hx Hs].
    destruct (N.eqb x c).
    + constructor; [exact Hc|]. apply IH; [reflexivity|exact Hs].
    + apply IH; [|exact Hs]. apply forallb_app_true; [exact Hc|]. simpl. rewrite Hx. reflexivity.
Qed.

Lemma split_on_segments_nomem c s : forall cur, mem c cur = false ->
  Forall (fun seg => mem c seg = false) (split_on c s cur).
Proof.
  induction s as [|x s IH]; intros cur Hc; simpl.
  - constructor; [exact Hc|constructor].
  - destruct (N.eqb x c) eqn:E.
    + constructor; [exact Hc|]. apply IH. reflexivity.
    + apply IH. rewrite mem_app, Hc. simpl. rewrite N.eqb_sym, E. reflexivity.
Qed.

Lemma lines_app_nl a b : lines (a ++ nl :: b) = lines a ++ lines b.
Proof. unfold lines. apply split_on_app. Qed.

Lemma lines_nonl s : mem nl s = false -> lines s = [s].
Proof. intro H. unfold lines. rewrite split_on_nomem by exact H. reflexivity. Qed.

(* the first newline of a string *)
Lemma first_nl s : mem nl s = false \/ exists a b, s = a ++ nl :: b /\ mem nl a = false.
Proof.
  induction s as [|x s IH]; [left; reflexivity|].
  destruct (N.eqb nl x) eqn:E.
  - right. apply N.eqb_eq in E. subst x. exists [], s. split; reflexivity.
  - destruct IH as [IH|[a [b [-> Ha]]]].
    + left. simpl. rewrite E, IH. reflexivity.
    + right. exists (x :: a), b. split; [reflexivity|]. simpl. rewrite E, Ha. reflexivity.
Qed.

Lemma strip_sp_split s : s = lead_sp s ++ strip_sp s.
Proof. induction s as [|c s IH]; [reflexivity|]. simpl. destruct (N.eqb c 32); [simpl; f_equal; exact IH|reflexivity]. Qed.

Lemma lead_sp_spaces s : all_spaces (lead_sp s) = true.
Proof. induction s as [|c s IH]; [reflexivity|]. simpl. destruct (N.eqb c 32) eqn:E; [simpl; rewrite N.eqb_sym, E; exact IH|reflexivity]. Qed.

Lemma all_spaces_nonl sp : all_spaces sp = true -> mem nl sp = false.
Proof. intro H. apply (forallb_mem_false _ _ _ H). reflexivity. Qed.

Lemma strip_sp_nonl c s : mem c s = false -> mem c (strip_sp s) = false.
Proof.
  intro H. rewrite (strip_sp_split s), mem_app in H. apply orb_false_iff in H. tauto.
Qed.

(* ---- composition of safe texts ------------------------------------------------------------------ *)
Lemma safe_text_app st a b : safe_text st a -> safe_text st b -> safe_text st (a ++ b).
Proof.
  intros Ha Hb. induction Ha as [|sp core rest Hsp Hcore Hrest IH]; [exact Hb|].
  replace ((sp ++ core ++ nl :: rest) ++ b) with (sp ++ core ++ nl :: (rest ++ b)).
  - constructor; assumption.
  - rewrite <- !app_assoc. reflexivity.
Qed.

Lemma safe_core_nil st : safe_core st [] = true.
Proof. apply safe_core_fixed. reflexivity. Qed.

Lemma safe_text_nl st : safe_text st [nl].
Proof. apply (safe_chunk st [] [] []); [reflexivity|apply safe_core_nil|constructor]. Qed.

Lemma safe_text_one st sp core :
  all_spaces sp = true -> safe_core st core = true -> safe_text st (sp ++ core ++ [nl]).
Proof. intros. constructor; [assumption|assumption|constructor]. Qed.

(* ---- helpers.indent_str ----------------------------------------------------------------------------- *)
Definition ind_line (n : nat) (line : str) : str :=
  (if ws_only line then line else spaces n ++ line) ++ [nl].

Lemma indent_str_eq t n : indent_str t n = flat_map (ind_line n) (lines t).
Proof. reflexivity. Qed.

Lemma all_spaces_spaces n : all_spaces (spaces n) = true.
Proof. induction n; [reflexivity|exact IHn]. Qed.

Lemma ind_line_cases n line : exists ind, all_spaces ind = true /\ ind_line n line = ind ++ line ++ [nl].
Proof.
  unfold ind_line. destruct (ws_only line).
  - exists []. split; reflexivity.
  - exists (spaces n). split; [apply all_spaces_spaces|]. rewrite <- app_assoc. reflexivity.
Qed.

Lemma indent_str_chunk a b n :
  indent_str (a ++ nl :: b) n = flat_map (ind_line n) (lines a) ++ indent_str b n.
Proof. rewrite !indent_str_eq, lines_app_nl, flat_map_app. reflexivity. Qed.

Section Indent.
  Variable st : bool.
  Variable n : nat.
  Let pre := L "stack.append(""".
  Let suf := L """)".

  (* a string core, possibly spanning lines, stays one string core *)
  Lemma string_body_indent : forall k body head,
    (List.length body <= k)%nat -> mem nl head = false -> lit_run st 34 false body = true ->
    exists ind body', all_spaces ind = true /\ lit_run st 34 false body' = true /\
      flat_map (ind_line n) (lines (head ++ body ++ suf)) = ind ++ head ++ body' ++ suf ++ [nl].
  Proof.
    induction k as [|k IH]; intros body head Hlen Hh Hb.
    - destruct body; [|simpl in Hlen; lia].
      simpl. rewrite lines_nonl.
      + simpl. rewrite app_nil_r. destruct (ind_line_cases n (head ++ suf)) as [ind [Hi ->]].
        exists ind, []. split; [exact Hi|]. split; [reflexivity|]. rewrite <- !app_assoc. reflexivity.
      + rewrite mem_app, Hh. reflexivity.
    - destruct (first_nl body) as [Hn|[a [r [-> Ha]]]].
      + rewrite lines_nonl.
        * simpl. rewrite app_nil_r. destruct (ind_line_cases n (head ++ body ++ suf)) as [ind [Hi ->]].
          exists ind, body. split; [exact Hi|]. split; [exact Hb|]. rewrite <- !app_assoc. reflexivity.
        * rewrite !mem_app, Hh, Hn. reflexivity.
      + destruct (lit_run_split_nl st 34 a false r Ha Hb) as [Hr Hrep].
        assert (Hlen' : (List.length r <= k)%nat).
        { rewrite app_length in Hlen. simpl in Hlen. lia. }
        destruct (IH r [] Hlen' eq_refl Hr) as [ind2 [r' [Hi2 [Hr' E2]]]].
        replace (head ++ (a ++ nl :: r) ++ suf) with ((head ++ a) ++ nl :: ([] ++ r ++ suf))
          by (simpl; rewrite <- !app_assoc; reflexivity).
        rewrite lines_app_nl, flat_map_app, E2.
        rewrite lines_nonl by (rewrite mem_app, Hh, Ha; reflexivity).
        simpl flat_map. rewrite app_nil_r.
        destruct (ind_line_cases n (head ++ a)) as [ind [Hi ->]].
        exists ind, (a ++ nl :: ind2 ++ r'). split; [exact Hi|]. split.
        * apply Hrep. rewrite lit_run_spaces by exact Hi2. exact Hr'.
        * simpl. rewrite <- !app_assoc. simpl. rewrite <- ?app_assoc. reflexivity.
  Qed.

  (* what the non-string shapes and the vocabulary have in common: one physical line *)
  Hypothesis core_cases : forall core, safe_core st core = true ->
    mem nl core = false \/ exists body, core = pre ++ body ++ suf /\ lit_run st 34 false body = true.

  Lemma chunk_indent sp core :
    all_spaces sp = true -> safe_core st core = true ->
    safe_text st (flat_map (ind_line n) (lines (sp ++ core))).
  Proof.
    intros Hsp Hcore. destruct (core_cases core Hcore) as [Hn|[body [-> Hb]]].
    - rewrite lines_nonl by (rewrite mem_app, (all_spaces_nonl sp Hsp), Hn; reflexivity).
      simpl. rewrite app_nil_r. destruct (ind_line_cases n (sp ++ core)) as [ind [Hi ->]].
      replace (ind ++ (sp ++ core) ++ [nl]) with ((ind ++ sp) ++ core ++ [nl])
        by (rewrite <- !app_assoc; reflexivity).
      apply safe_text_one; [|exact Hcore]. apply forallb_app_true; assumption.
    - destruct (string_body_indent (List.length body) body (sp ++ pre) (le_n _)) as [ind [body' [Hi [Hb' E]]]].
      + rewrite mem_app, (all_spaces_nonl sp Hsp). reflexivity.
      + exact Hb.
      + replace (sp ++ pre ++ body ++ suf) with ((sp ++ pre) ++ body ++ suf)
          by (rewrite <- !app_assoc; reflexivity).
        rewrite E.
        replace (ind ++ (sp ++ pre) ++ body' ++ suf ++ [nl]) with ((ind ++ sp) ++ (pre ++ body' ++ suf) ++ [nl])
          by (rewrite <- !app_assoc; reflexivity).
        apply safe_text_one; [apply forallb_app_true; assumption|].
        apply safe_core_string. exact Hb'.
  Qed.

  Lemma safe_text_indent t : safe_text st t -> safe_text st (indent_str t n).
  Proof.
    induction 1 as [|sp core rest Hsp Hcore Hrest IH].
    - apply safe_text_nl.
    - replace (sp ++ core ++ nl :: rest) with ((sp ++ core) ++ nl :: rest)
        by (rewrite <- app_assoc; reflexivity).
      rewrite indent_str_chunk. apply safe_text_app; [|exact IH].
      apply chunk_indent; assumption.
  Qed.

  Lemma safe_core_indent x : safe_core st x = true -> safe_text st (indent_str x n).
  Proof. intro H. rewrite indent_str_eq. apply (chunk_indent [] x eq_refl H). Qed.

  Lemma safe_line_indent x : safe_line st x = true -> safe_text st (indent_str x n).
  Proof.
    intro H. rewrite indent_str_eq. rewrite (strip_sp_split x).
    apply chunk_indent; [apply lead_sp_spaces|exact H].
  Qed.

  Lemma safe_lines_indent ls :
    Forall (fun l => mem nl l = false /\ safe_line st l = true) ls ->
    safe_text st (flat_map (ind_line n) ls).
  Proof.
    induction 1 as [|l ls [Hn Hl] _ IH]; [constructor|].
    simpl. apply safe_text_app; [|exact IH].
    pose proof (safe_line_indent l Hl) as H. rewrite indent_str_eq, lines_nonl in H by exact Hn.
    simpl in H. rewrite app_nil_r in H. exact H.
  Qed.
End Indent.
