(* C05: plain numeric literals.  Lexing rules of the number branch for all lengths,
   the text handed to sympy, and the value pushed given exact conversion. *)
From Coq Require Import List NArith ZArith QArith Bool Lia ZifyBool String Ascii.
From Vy Require Import Model.Base Model.Lexer Model.Parser Model.Transpile Model.Literals
  Gen.ParserConsts Proofs.C04Lex Proofs.C03Lex.
Import ListNotations.
Open Scope N_scope.

(* ---- digits and the generated character sets ------------------------------------------ *)
Lemma digit_cases c : is_digit c = true ->
  c = 48 \/ c = 49 \/ c = 50 \/ c = 51 \/ c = 52 \/ c = 53 \/ c = 54 \/ c = 55 \/ c = 56 \/ c = 57.
Proof.
  unfold is_digit. intro H. apply andb_prop in H as [H1 H2].
  apply N.leb_le in H1. apply N.leb_le in H2. lia.
Qed.

Definition digit_facts (c : N) : Prop :=
  mem c lex_number_chars = true /\ N.eqb c ch_dot = false /\ N.eqb c ch_degree = false
  /\ N.eqb c 46 = false /\ N.eqb c 176 = false.

Lemma digit_ok c : is_digit c = true -> digit_facts c.
Proof.
  intro H. apply digit_cases in H.
  repeat (destruct H as [H|H]; [subst c; vm_compute; repeat split; reflexivity|]).
  subst c; vm_compute; repeat split; reflexivity.
Qed.

Lemma number_char_cases c : mem c lex_number_chars = true ->
  is_digit c || N.eqb c 46 || N.eqb c 176 = true.
Proof.
  intro H. apply mem_In in H. unfold lex_number_chars in H. cbn [In] in H.
  repeat (destruct H as [H|H]; [subst c; reflexivity|]). contradiction.
Qed.

Lemma dot_is_number_char : mem ch_dot lex_number_chars = true.
Proof. vm_compute. reflexivity. Qed.

Lemma step_normal_nonzero_digit c : is_digit c = true -> N.eqb c 48 = false ->
  step_normal c = (MNumber [c], []).
Proof.
  intros H Hz. apply digit_cases in H.
  destruct H as [H|H]; [subst c; discriminate|].
  repeat (destruct H as [H|H]; [subst c; vm_compute; reflexivity|]).
  subst c; vm_compute; reflexivity.
Qed.

Lemma step_normal_zero : step_normal 48 = (MZero, []).
Proof. vm_compute. reflexivity. Qed.

Lemma step_normal_dot : step_normal 46 = (MNumber [46], []).
Proof. vm_compute. reflexivity. Qed.

(* ---- counting ---------------------------------------------------------------------------- *)
Lemma mem_app c a b : mem c (a ++ b) = mem c a || mem c b.
Proof. induction a as [|x a IH]; cbn [app mem]; [reflexivity|]. rewrite IH, orb_assoc. reflexivity. Qed.

Lemma count_c_app c a b : count_c c (a ++ b) = (count_c c a + count_c c b)%nat.
Proof. induction a as [|x a IH]; cbn [app count_c]; [reflexivity|]. rewrite IH. lia. Qed.

Lemma count_c_notmem c s : mem c s = false -> count_c c s = 0%nat.
Proof.
  induction s as [|x s IH]; cbn [mem count_c]; intro H; [reflexivity|].
  apply orb_false_iff in H as [H1 H2]. rewrite N.eqb_sym in H1. rewrite H1, (IH H2). reflexivity.
Qed.

Lemma parts_ok_nodeg s : forall k, mem ch_degree s = false ->
  parts_ok_aux s k = Nat.ltb (k + count_c ch_dot s) 2.
Proof.
  induction s as [|x s IH]; intros k H; cbn [parts_ok_aux count_c].
  - rewrite Nat.add_0_r. reflexivity.
  - cbn [mem] in H. apply orb_false_iff in H as [H1 H2]. rewrite N.eqb_sym in H1. rewrite H1.
    destruct (N.eqb x ch_dot) eqn:Ed.
    + rewrite (IH (S k) H2). f_equal. lia.
    + rewrite (IH k H2). reflexivity.
Qed.

Lemma number_ok_nodeg s : mem ch_degree s = false ->
  number_ok s = Nat.ltb (count_c ch_dot s) 2.
Proof.
  intro H. unfold number_ok. rewrite (count_c_notmem _ _ H), (parts_ok_nodeg s 0 H). reflexivity.
Qed.

Lemma digits_no_dot_degree s : all_digits s = true ->
  mem ch_degree s = false /\ mem ch_dot s = false /\ mem 46 s = false /\ mem 176 s = false.
Proof.
  induction s as [|x s IH]; cbn [all_digits forallb mem]; intro H; [repeat split; reflexivity|].
  apply andb_prop in H as [Hx Hs]. destruct (IH Hs) as [I1 [I2 [I3 I4]]].
  destruct (digit_ok x Hx) as [_ [D1 [D2 [D3 D4]]]].
  rewrite I1, I2, I3, I4.
  rewrite (N.eqb_sym ch_degree x), (N.eqb_sym ch_dot x), (N.eqb_sym 46 x), (N.eqb_sym 176 x), D1, D2, D3, D4.
  repeat split; reflexivity.
Qed.

Lemma all_digits_app a b : all_digits (a ++ b) = all_digits a && all_digits b.
Proof. unfold all_digits. apply forallb_app. Qed.

(* ---- the scanning loop ---------------------------------------------------------------------- *)
Lemma step_number_ext dv acc c :
  mem c lex_number_chars = true -> number_ok (acc ++ [c]) = true ->
  step dv (MNumber acc) c = (MNumber (acc ++ [c]), []).
Proof. intros H1 H2. cbn [step]. rewrite H1, H2. reflexivity. Qed.

Lemma step_number_end dv acc c :
  mem c lex_number_chars && number_ok (acc ++ [c]) = false ->
  step dv (MNumber acc) c = (fst (step_normal c), Tok KNumber acc :: snd (step_normal c)).
Proof. intro H. cbn [step]. rewrite H. destruct (step_normal c); reflexivity. Qed.

Lemma run_normal_cons dv c r :
  run dv MNormal (c :: r) = snd (step_normal c) ++ run dv (fst (step_normal c)) r.
Proof. rewrite run_cons. reflexivity. Qed.

(* digits extend the accumulator as long as it has no "°" and fewer than two points *)
Lemma run_number_digits dv ds : forall acc rest,
  all_digits ds = true -> mem ch_degree acc = false -> (count_c ch_dot acc < 2)%nat ->
  run dv (MNumber acc) (ds ++ rest) = run dv (MNumber (acc ++ ds)) rest.
Proof.
  induction ds as [|c ds IH]; intros acc rest Hd Hdeg Hdots.
  - rewrite app_nil_r. reflexivity.
  - cbn [all_digits forallb] in Hd. apply andb_prop in Hd as [Hc Hds].
    destruct (digit_ok c Hc) as [M [D1 [D2 _]]].
    assert (Hdeg' : mem ch_degree (acc ++ [c]) = false).
    { rewrite mem_app, Hdeg. cbn [mem]. rewrite (N.eqb_sym ch_degree c), D2. reflexivity. }
    assert (Hcnt : count_c ch_dot (acc ++ [c]) = count_c ch_dot acc).
    { rewrite count_c_app. cbn [count_c]. rewrite D1. lia. }
    cbn [app]. rewrite run_cons, step_number_ext; [| exact M |].
    + cbn [fst snd app]. rewrite (IH (acc ++ [c]) rest Hds Hdeg'); [| rewrite Hcnt; exact Hdots].
      rewrite <- app_assoc. reflexivity.
    + rewrite (number_ok_nodeg _ Hdeg'), Hcnt. apply Nat.ltb_lt. exact Hdots.
Qed.

(* the loop stops at the end of input and at a character that may not be appended *)
Definition stops (acc rest : str) : bool :=
  match rest with
  | [] => true
  | c :: _ => negb (mem c lex_number_chars && number_ok (acc ++ [c]))
  end.

Lemma run_number_end dv acc rest : stops acc rest = true ->
  run dv (MNumber acc) rest = Tok KNumber acc :: run dv MNormal rest.
Proof.
  destruct rest as [|c r]; intro H; [reflexivity|].
  cbn [stops] in H. apply negb_true_iff in H.
  rewrite run_cons, (step_number_end dv acc c H), run_normal_cons. cbn [fst snd app]. reflexivity.
Qed.

Lemma ends_integer_stops acc rest : ends_integer rest = true -> stops acc rest = true.
Proof.
  destruct rest as [|c r]; intro H; [reflexivity|]. cbn [ends_integer stops] in *.
  destruct (mem c lex_number_chars) eqn:M; [|reflexivity].
  apply number_char_cases in M. apply andb_prop in H as [H H3]. apply andb_prop in H as [H1 H2].
  apply negb_true_iff in H1. apply negb_true_iff in H2. apply negb_true_iff in H3.
  rewrite H1, H2, H3 in M. discriminate.
Qed.

Lemma ends_decimal_stops acc rest :
  mem ch_degree acc = false -> count_c ch_dot acc = 1%nat ->
  ends_decimal rest = true -> stops acc rest = true.
Proof.
  destruct rest as [|c r]; intros Hdeg Hdots H; [reflexivity|]. cbn [ends_decimal stops] in *.
  destruct (mem c lex_number_chars) eqn:M; [|reflexivity].
  apply number_char_cases in M. apply andb_prop in H as [H1 H3].
  apply negb_true_iff in H1. apply negb_true_iff in H3. rewrite H1, H3 in M.
  cbn [orb] in M. rewrite orb_false_r in M. apply N.eqb_eq in M. subst c.
  cbn [andb negb]. apply negb_true_iff.
  assert (Hdeg' : mem ch_degree (acc ++ [46]) = false).
  { rewrite mem_app, Hdeg. reflexivity. }
  rewrite (number_ok_nodeg _ Hdeg'), count_c_app, Hdots. reflexivity.
Qed.

(* fraction digits and the end of a literal that already has its point *)
Lemma run_number_fraction dv acc f rest :
  mem ch_degree acc = false -> count_c ch_dot acc = 1%nat ->
  all_digits f = true -> ends_decimal rest = true ->
  run dv (MNumber acc) (f ++ rest) = Tok KNumber (acc ++ f) :: run dv MNormal rest.
Proof.
  intros Hdeg Hdots Hf Hr.
  rewrite (run_number_digits dv f acc rest Hf Hdeg); [| rewrite Hdots; lia].
  destruct (digits_no_dot_degree f Hf) as [F1 [F2 _]].
  apply run_number_end. apply ends_decimal_stops; [| | exact Hr].
  - rewrite mem_app, Hdeg, F1. reflexivity.
  - rewrite count_c_app, Hdots, (count_c_notmem _ _ F2). reflexivity.
Qed.

(* the lone 0 *)
Lemma step_zero_end dv c : N.eqb c 46 = false -> N.eqb c 176 = false ->
  step dv MZero c = (fst (step_normal c), Tok KNumber [48] :: snd (step_normal c)).
Proof.
  intros H1 H2. cbn [step]. change ch_degree with 176. change ch_dot with 46. rewrite H1, H2.
  cbn [orb]. destruct (step_normal c); reflexivity.
Qed.

Lemma step_zero_dot dv : step dv MZero 46 = (MNumber [48; 46], []).
Proof. vm_compute. reflexivity. Qed.

Lemma run_zero_end dv rest : ends_zero rest = true ->
  run dv MZero rest = Tok KNumber [48] :: run dv MNormal rest.
Proof.
  destruct rest as [|c r]; intro H; [reflexivity|]. cbn [ends_zero] in H.
  apply andb_prop in H as [H1 H2]. apply negb_true_iff in H1. apply negb_true_iff in H2.
  rewrite run_cons, (step_zero_end dv c H1 H2), run_normal_cons. cbn [fst snd app]. reflexivity.
Qed.

(* ---- C05_split --------------------------------------------------------------------------------- *)
Theorem split_leading_zero rest : ends_zero rest = true ->
  tokenise (48 :: rest) = Tok KNumber [48] :: tokenise rest.
Proof.
  intro H. unfold tokenise, tokenise_dv. rewrite run_normal_cons, step_normal_zero.
  cbn [fst snd app]. apply run_zero_end. exact H.
Qed.

Lemma digit_ends_zero c r : is_digit c = true -> ends_zero (c :: r) = true.
Proof. intro H. destruct (digit_ok c H) as [_ [_ [_ [D3 D4]]]]. cbn [ends_zero]. rewrite D3, D4. reflexivity. Qed.

Theorem split_zero_then_digit c r : is_digit c = true ->
  tokenise (48 :: c :: r) = Tok KNumber [48] :: tokenise (c :: r).
Proof. intro H. apply split_leading_zero. apply digit_ends_zero. exact H. Qed.

Lemma ends_integer_zero rest : ends_integer rest = true -> ends_zero rest = true.
Proof.
  destruct rest as [|c r]; intro H; [reflexivity|]. cbn [ends_integer ends_zero] in *.
  apply andb_prop in H as [H H3]. apply andb_prop in H as [_ H2]. rewrite H2, H3. reflexivity.
Qed.

Lemma int_lit_inv d : int_lit d = true ->
  d = [48] \/ exists c r, d = c :: r /\ is_digit c = true /\ N.eqb c 48 = false /\ all_digits r = true.
Proof.
  destruct d as [|c r]; [discriminate|]. cbn [int_lit]. intro H.
  apply andb_prop in H as [H H3]. apply andb_prop in H as [H1 H2].
  destruct (N.eqb c 48) eqn:E.
  - cbn [negb orb] in H3. destruct r; [|discriminate]. apply N.eqb_eq in E. subst c. left. reflexivity.
  - right. exists c, r. repeat split; assumption.
Qed.

Lemma int_lit_digits d : int_lit d = true -> all_digits d = true /\ d <> [].
Proof.
  destruct d as [|c r]; [discriminate|]. cbn [int_lit all_digits forallb]. intro H.
  apply andb_prop in H as [H _]. split; [exact H|discriminate].
Qed.

Theorem split_integer d rest : int_lit d = true -> ends_integer rest = true ->
  tokenise (d ++ rest) = Tok KNumber d :: tokenise rest.
Proof.
  intros Hd Hr. destruct (int_lit_inv d Hd) as [E | [c [r [E [Hc [Hz Hds]]]]]]; subst d.
  - apply split_leading_zero. apply ends_integer_zero. exact Hr.
  - unfold tokenise, tokenise_dv. cbn [app]. rewrite run_normal_cons, (step_normal_nonzero_digit c Hc Hz).
    cbn [fst snd app]. destruct (digit_ok c Hc) as [_ [D1 [D2 _]]].
    assert (Hdeg : mem ch_degree [c] = false) by (cbn [mem]; rewrite (N.eqb_sym ch_degree c), D2; reflexivity).
    assert (Hdot : count_c ch_dot [c] = 0%nat) by (cbn [count_c]; rewrite D1; reflexivity).
    rewrite (run_number_digits false r [c] rest Hds Hdeg); [| rewrite Hdot; lia].
    apply run_number_end. apply ends_integer_stops. exact Hr.
Qed.

Theorem split_decimal d f rest :
  int_lit d = true -> all_digits f = true -> ends_decimal rest = true ->
  tokenise (d ++ 46 :: f ++ rest) = Tok KNumber (d ++ 46 :: f) :: tokenise rest.
Proof.
  intros Hd Hf Hr. destruct (int_lit_inv d Hd) as [E | [c [r [E [Hc [Hz Hds]]]]]]; subst d.
  - unfold tokenise, tokenise_dv. cbn [app]. rewrite run_normal_cons, step_normal_zero. cbn [fst snd app].
    rewrite run_cons, step_zero_dot. cbn [fst snd app].
    rewrite (run_number_fraction false [48; 46] f rest); [reflexivity | reflexivity | reflexivity | exact Hf | exact Hr].
  - unfold tokenise, tokenise_dv. cbn [app]. rewrite run_normal_cons, (step_normal_nonzero_digit c Hc Hz).
    cbn [fst snd app]. destruct (digit_ok c Hc) as [_ [D1 [D2 _]]].
    assert (Hdeg : mem ch_degree [c] = false) by (cbn [mem]; rewrite (N.eqb_sym ch_degree c), D2; reflexivity).
    assert (Hdot : count_c ch_dot [c] = 0%nat) by (cbn [count_c]; rewrite D1; reflexivity).
    rewrite (run_number_digits false r [c] (46 :: f ++ rest) Hds Hdeg); [| rewrite Hdot; lia].
    destruct (digits_no_dot_degree r Hds) as [R1 [R2 _]].
    assert (Hdeg2 : mem ch_degree ([c] ++ r) = false) by (rewrite mem_app, Hdeg, R1; reflexivity).
    assert (Hdot2 : count_c ch_dot ([c] ++ r) = 0%nat) by (rewrite count_c_app, Hdot, (count_c_notmem _ _ R2); reflexivity).
    assert (Hdeg3 : mem ch_degree (([c] ++ r) ++ [46]) = false) by (rewrite mem_app, Hdeg2; reflexivity).
    rewrite run_cons, step_number_ext; [| exact dot_is_number_char |].
    + cbn [fst snd]. rewrite (run_number_fraction false _ f rest Hdeg3); [| | exact Hf | exact Hr].
      * cbn [app]. rewrite <- app_assoc. reflexivity.
      * rewrite count_c_app, Hdot2. reflexivity.
    + rewrite (number_ok_nodeg _ Hdeg3), count_c_app, Hdot2. reflexivity.
Qed.

(* a second point is not appended: it starts the next number *)
Theorem split_second_point d f rest :
  int_lit d = true -> all_digits f = true ->
  tokenise (d ++ 46 :: f ++ 46 :: rest) = Tok KNumber (d ++ 46 :: f) :: tokenise (46 :: rest).
Proof. intros Hd Hf. apply split_decimal; [exact Hd | exact Hf | reflexivity]. Qed.

(* a literal that starts with its point *)
Theorem split_leading_point f rest : all_digits f = true -> ends_decimal rest = true ->
  tokenise (46 :: f ++ rest) = Tok KNumber (46 :: f) :: tokenise rest.
Proof.
  intros Hf Hr. unfold tokenise, tokenise_dv. rewrite run_normal_cons, step_normal_dot. cbn [fst snd app].
  rewrite (run_number_fraction false [46] f rest); [reflexivity | reflexivity | reflexivity | exact Hf | exact Hr].
Qed.

(* a literal alone is one token *)
Corollary literal_alone_integer d : int_lit d = true -> tokenise d = [Tok KNumber d].
Proof. intro H. rewrite <- (app_nil_r d) at 1. rewrite (split_integer d [] H eq_refl). reflexivity. Qed.

Corollary literal_alone_decimal d f : int_lit d = true -> all_digits f = true ->
  tokenise (d ++ 46 :: f) = [Tok KNumber (d ++ 46 :: f)].
Proof.
  intros Hd Hf. rewrite <- (app_nil_r f) at 1. rewrite (split_decimal d f [] Hd Hf eq_refl). reflexivity.
Qed.

(* ---- C05_text ------------------------------------------------------------------------------------ *)
Lemma split_on_none c s : forall cur, mem c s = false -> split_on c s cur = [cur ++ s].
Proof.
  induction s as [|x s IH]; intros cur H; cbn [split_on].
  - rewrite app_nil_r. reflexivity.
  - cbn [mem] in H. apply orb_false_iff in H as [H1 H2]. rewrite N.eqb_sym in H1. rewrite H1.
    rewrite (IH _ H2), <- app_assoc. reflexivity.
Qed.

Theorem number_text_integer d : int_lit d = true ->
  number_text d = L "stack.append(sympy.nsimplify(""" ++ d ++ L """))".
Proof.
  intro Hd. destruct (int_lit_digits d Hd) as [Hall Hne].
  destruct (digits_no_dot_degree d Hall) as [_ [_ [N46 N176]]].
  unfold number_text. rewrite (split_on_none 176 d [] N176). cbn [app map].
  assert (E : str_eqb d [46] = false).
  { destruct d as [|c r]; [contradiction Hne; reflexivity|]. cbn [mem] in N46.
    apply orb_false_iff in N46 as [N46 _]. cbn [str_eqb]. rewrite N.eqb_sym, N46. reflexivity. }
  rewrite E, N46. reflexivity.
Qed.

Theorem number_text_decimal d f : int_lit d = true -> all_digits f = true ->
  number_text (d ++ 46 :: f) = L "stack.append(sympy.Rational(""" ++ (d ++ 46 :: f) ++ L """))".
Proof.
  intros Hd Hf. destruct (int_lit_digits d Hd) as [Hall Hne].
  destruct (digits_no_dot_degree d Hall) as [_ [_ [N46 N176]]].
  destruct (digits_no_dot_degree f Hf) as [_ [_ [_ F176]]].
  assert (M176 : mem 176 (d ++ 46 :: f) = false) by (rewrite mem_app, N176; cbn [mem]; rewrite F176; reflexivity).
  assert (M46 : mem 46 (d ++ 46 :: f) = true) by (rewrite mem_app; cbn [mem]; rewrite N.eqb_refl, orb_true_r; reflexivity).
  unfold number_text. rewrite (split_on_none 176 _ [] M176). cbn [app map].
  assert (E : str_eqb (d ++ 46 :: f) [46] = false).
  { destruct d as [|c r]; [contradiction Hne; reflexivity|]. cbn [mem] in N46.
    apply orb_false_iff in N46 as [N46 _]. cbn [app str_eqb]. rewrite N.eqb_sym, N46. reflexivity. }
  rewrite E, M46. reflexivity.
Qed.

(* ---- C05_value ------------------------------------------------------------------------------------- *)
Lemma strip_prefix_app p s : strip_prefix p (p ++ s) = Some s.
Proof. induction p as [|a p IH]; cbn [app strip_prefix]; [reflexivity|]. rewrite N.eqb_refl. exact IH. Qed.

Lemma strip_suffix_app q s : strip_suffix q (s ++ q) = Some s.
Proof. unfold strip_suffix. rewrite rev_app_distr, strip_prefix_app, rev_involutive. reflexivity. Qed.

Lemma prefix_mismatch x :
  strip_prefix (L "stack.append(sympy.Rational(""") (L "stack.append(sympy.nsimplify(""" ++ x) = None.
Proof. reflexivity. Qed.

Lemma split_at_dot_digits d : forall f, mem 46 d = false -> split_at_dot (d ++ 46 :: f) = (d, Some f).
Proof.
  induction d as [|c d IH]; intros f H; cbn [app split_at_dot].
  - reflexivity.
  - cbn [mem] in H. apply orb_false_iff in H as [H1 H2]. rewrite N.eqb_sym in H1. rewrite H1, (IH f H2). reflexivity.
Qed.

Lemma split_at_dot_none d : mem 46 d = false -> split_at_dot d = (d, None).
Proof.
  induction d as [|c d IH]; intro H; cbn [split_at_dot]; [reflexivity|].
  cbn [mem] in H. apply orb_false_iff in H as [H1 H2]. rewrite N.eqb_sym in H1. rewrite H1, (IH H2). reflexivity.
Qed.

Lemma dec_value_integer d : int_lit d = true -> dec_value d = Some (Z_of_digits d # 1).
Proof.
  intro Hd. destruct (int_lit_digits d Hd) as [Hall Hne].
  destruct (digits_no_dot_degree d Hall) as [_ [_ [N46 _]]].
  unfold dec_value. rewrite (split_at_dot_none d N46), Hall.
  destruct d; [contradiction Hne; reflexivity|reflexivity].
Qed.

Lemma dec_value_decimal d f : int_lit d = true -> all_digits f = true ->
  dec_value (d ++ 46 :: f) = Some (Z_of_digits (d ++ f) # pow10 (List.length f)).
Proof.
  intros Hd Hf. destruct (int_lit_digits d Hd) as [Hall Hne].
  destruct (digits_no_dot_degree d Hall) as [_ [_ [N46 _]]].
  unfold dec_value. rewrite (split_at_dot_digits d f N46), Hall, Hf.
  destruct d; [contradiction Hne; reflexivity|reflexivity].
Qed.

Lemma pow10_Z n : Z.pos (pow10 n) = (10 ^ Z.of_nat n)%Z.
Proof.
  induction n as [|n IH]; [reflexivity|].
  cbn [pow10]. rewrite Pos2Z.inj_mul, IH, Nat2Z.inj_succ, Z.pow_succ_r by lia. reflexivity.
Qed.

Lemma digits_Z_app a : forall b acc, digits_Z (a ++ b) acc = digits_Z b (digits_Z a acc).
Proof. induction a as [|c a IH]; intros b acc; cbn [app digits_Z]; [reflexivity|]. apply IH. Qed.

Lemma digits_Z_shift b : forall acc,
  digits_Z b acc = (acc * 10 ^ Z.of_nat (List.length b) + digits_Z b 0)%Z.
Proof.
  induction b as [|c b IH]; intro acc; cbn [digits_Z List.length].
  - rewrite Z.pow_0_r. lia.
  - rewrite (IH (acc * 10 + Z.of_N (c - 48))%Z), (IH (0 * 10 + Z.of_N (c - 48))%Z).
    rewrite Nat2Z.inj_succ, Z.pow_succ_r by lia. ring.
Qed.

(* digits(d ++ f) = digits(d) * 10^|f| + digits(f): the value is d + f / 10^|f| *)
Theorem digits_parts d f :
  Z_of_digits (d ++ f) = (Z_of_digits d * 10 ^ Z.of_nat (List.length f) + Z_of_digits f)%Z.
Proof. unfold Z_of_digits. rewrite digits_Z_app. apply digits_Z_shift. Qed.

Section C05Value.
  Variable sym_rational : str -> option Q.
  Variable sym_nsimplify : str -> option Q.
  (* the trusted base about sympy, measured by the oracle of props/C05.py *)
  Hypothesis rational_exact : forall s, sym_rational s = dec_value s.
  Hypothesis nsimplify_int_exact :
    forall d, int_lit d = true -> sym_nsimplify d = Some (inject_Z (Z_of_digits d)).

  Theorem value_integer d : int_lit d = true ->
    literal_value sym_rational sym_nsimplify d = Some (inject_Z (Z_of_digits d)).
  Proof.
    intro Hd. unfold literal_value, eval_push. rewrite (number_text_integer d Hd), prefix_mismatch.
    rewrite strip_prefix_app, strip_suffix_app. apply nsimplify_int_exact. exact Hd.
  Qed.

  Theorem value_decimal d f : int_lit d = true -> all_digits f = true ->
    exists q, literal_value sym_rational sym_nsimplify (d ++ 46 :: f) = Some q
      /\ q = Z_of_digits (d ++ f) # pow10 (List.length f)
      /\ q == inject_Z (Z_of_digits (d ++ f)) / inject_Z (10 ^ Z.of_nat (List.length f)).
  Proof.
    intros Hd Hf. eexists. split; [|split; [reflexivity|]].
    - unfold literal_value, eval_push. rewrite (number_text_decimal d f Hd Hf).
      rewrite strip_prefix_app, strip_suffix_app, rational_exact. apply dec_value_decimal; assumption.
    - rewrite <- pow10_Z. apply Qmake_Qdiv.
  Qed.
End C05Value.

(* ---- non-vacuity ---------------------------------------------------------------------------------------- *)
(* 1164 , 120.50 , 0.5 followed by text; 007; 1.2.3 *)
Example split_examples :
  int_lit [49; 49; 54; 52] = true /\ int_lit [48] = true /\ int_lit [48; 55] = false
  /\ tokenise [49; 50; 48; 46; 53; 48; 32; 97] = [Tok KNumber [49; 50; 48; 46; 53; 48]; Tok KGeneral [32]; Tok KGeneral [97]]
  /\ tokenise [48; 48; 55] = [Tok KNumber [48]; Tok KNumber [48]; Tok KNumber [55]]
  /\ tokenise [49; 46; 50; 46; 51] = [Tok KNumber [49; 46; 50]; Tok KNumber [46; 51]]
  /\ tokenise [48; 46; 53] = [Tok KNumber [48; 46; 53]].
Proof. vm_compute. repeat split; reflexivity. Qed.

(* the hypotheses of the value theorems are satisfiable (dec_value itself is such a
   conversion) and the conclusion is the expected number: 120.50 -> 12050/100 == 241/2 *)
Example value_example :
  let nsimp := fun d => if int_lit d then Some (inject_Z (Z_of_digits d)) else None in
  (forall d, int_lit d = true -> nsimp d = Some (inject_Z (Z_of_digits d)))
  /\ literal_value dec_value nsimp [49; 50; 48; 46; 53; 48] = Some (12050 # 100)
  /\ (12050 # 100 == 241 # 2)
  /\ literal_value dec_value nsimp [49; 49; 54; 52] = Some (inject_Z 1164).
Proof.
  split; [intros d H; cbn; rewrite H; reflexivity|].
  split; [vm_compute; reflexivity|]. split; [reflexivity|vm_compute; reflexivity].
Qed.
