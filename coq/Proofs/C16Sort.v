(* C16, part 2: sort (ordered permutation, unique) and grade up / grade down
   (a permutation of the positions that sorts, ties in increasing position). *)
From Coq Require Import List ZArith Bool Arith Lia Permutation Sorted Relations RelationClasses.
From Vy Require Import Model.ListOps.
Import ListNotations.
Open Scope Z_scope.

(* ---- insertion sort for any total, transitive boolean order -------------------- *)
Section ISort.
  Context {A : Type} (leb : A -> A -> bool).
  Hypothesis leb_total : forall a b, leb a b = true \/ leb b a = true.
  Hypothesis leb_trans : forall a b c, leb a b = true -> leb b c = true -> leb a c = true.
  Definition R (a b : A) : Prop := leb a b = true.

  Lemma insert_perm (x : A) (l : list A) : Permutation (insert leb x l) (x :: l).
  Proof.
    induction l as [|y r IH]; simpl; [apply Permutation_refl|].
    destruct (leb x y); [apply Permutation_refl|].
    eapply perm_trans; [apply perm_skip, IH|apply perm_swap].
  Qed.

  Lemma isort_perm (l : list A) : Permutation (isort leb l) l.
  Proof.
    induction l as [|x r IH]; simpl; [constructor|].
    eapply perm_trans; [apply insert_perm|apply perm_skip, IH].
  Qed.

  Lemma HdRel_insert (y x : A) (r : list A) : HdRel R y r -> R y x -> HdRel R y (insert leb x r).
  Proof.
    intros H Hyx. destruct r as [|z r]; simpl; [constructor; exact Hyx|].
    destruct (leb x z); constructor; [exact Hyx|]. inversion H; assumption.
  Qed.

  Lemma insert_sorted (x : A) (l : list A) : Sorted R l -> Sorted R (insert leb x l).
  Proof.
    induction 1 as [|y r Hs IH Hd]; simpl; [repeat constructor|].
    destruct (leb x y) eqn:E.
    - constructor; [constructor; assumption|constructor; exact E].
    - constructor; [exact IH|]. apply HdRel_insert; [exact Hd|].
      destruct (leb_total x y) as [H|H]; [congruence|exact H].
  Qed.

  Lemma isort_sorted (l : list A) : Sorted R (isort leb l).
  Proof. induction l as [|x r IH]; simpl; [constructor|]. apply insert_sorted, IH. Qed.

  Lemma isort_strongly_sorted (l : list A) : StronglySorted R (isort leb l).
  Proof.
    apply Sorted_StronglySorted; [|apply isort_sorted].
    intros a b c. apply leb_trans.
  Qed.
End ISort.

Lemma Sorted_impl {A} (R1 R2 : A -> A -> Prop) (l : list A) :
  (forall a b, R1 a b -> R2 a b) -> Sorted R1 l -> Sorted R2 l.
Proof.
  intros H. induction 1 as [|x r Hs IH Hd]; constructor; [exact IH|].
  destruct Hd; constructor. apply H. assumption.
Qed.

Lemma StronglySorted_map {A B} (R1 : A -> A -> Prop) (R2 : B -> B -> Prop) (f : A -> B) (P : A -> Prop)
  (l : list A) :
  (forall a b, P a -> P b -> R1 a b -> R2 (f a) (f b)) -> Forall P l ->
  StronglySorted R1 l -> StronglySorted R2 (map f l).
Proof.
  intros H HP. induction 1 as [|x r Hs IH Hf]; simpl; [constructor|].
  inversion HP as [|? ? Px Pr]; subst. constructor; [apply IH; exact Pr|].
  rewrite Forall_forall in *. intros y Hy. apply in_map_iff in Hy. destruct Hy as [a [<- Ha]].
  apply H; [exact Px|apply Pr; exact Ha|apply Hf; exact Ha].
Qed.

(* ---- sort --------------------------------------------------------------------- *)
Lemma Zleb_total (a b : Z) : (a <=? b) = true \/ (b <=? a) = true.
Proof. rewrite !Z.leb_le. lia. Qed.

Lemma Zleb_trans (a b c : Z) : (a <=? b) = true -> (b <=? c) = true -> (a <=? c) = true.
Proof. rewrite !Z.leb_le. lia. Qed.

Lemma sort_sorted (l : list Z) : Sorted Z.le (sort l).
Proof.
  apply (Sorted_impl (R Z.leb)); [intros a b H; apply Z.leb_le; exact H|].
  apply isort_sorted. exact Zleb_total.
Qed.

Lemma sort_strongly_sorted (l : list Z) : StronglySorted Z.le (sort l).
Proof. apply Sorted_StronglySorted; [intros a b c; apply Z.le_trans|apply sort_sorted]. Qed.

Lemma sort_perm (l : list Z) : Permutation (sort l) l.
Proof. apply isort_perm. Qed.

(* an ordered permutation is unique *)
Lemma sorted_perm_unique (l1 l2 : list Z) :
  StronglySorted Z.le l1 -> StronglySorted Z.le l2 -> Permutation l1 l2 -> l1 = l2.
Proof.
  revert l2; induction l1 as [|a l1 IH]; intros l2 H1 H2 HP.
  - apply Permutation_nil in HP. symmetry. exact HP.
  - destruct l2 as [|b l2]; [apply Permutation_sym, Permutation_nil in HP; discriminate|].
    inversion H1 as [|? ? S1 F1]; inversion H2 as [|? ? S2 F2]; subst.
    rewrite Forall_forall in F1, F2.
    assert (Hab : a = b).
    { assert (Ha : In a (b :: l2)) by (eapply Permutation_in; [exact HP|left; reflexivity]).
      assert (Hb : In b (a :: l1)) by (eapply Permutation_in; [apply Permutation_sym; exact HP|left; reflexivity]).
      destruct Ha as [Ha|Ha]; [congruence|]. destruct Hb as [Hb|Hb]; [congruence|].
      apply F2 in Ha. apply F1 in Hb. lia. }
    subst. f_equal. apply IH; [exact S1|exact S2|]. eapply Permutation_cons_inv. exact HP.
Qed.

Lemma sort_unique (l s : list Z) : Sorted Z.le s -> Permutation s l -> s = sort l.
Proof.
  intros Hs Hp. apply sorted_perm_unique.
  - apply Sorted_StronglySorted; [intros a b c; apply Z.le_trans|exact Hs].
  - apply sort_strongly_sorted.
  - eapply perm_trans; [exact Hp|apply Permutation_sym, sort_perm].
Qed.

Lemma sort_idempotent (l : list Z) : sort (sort l) = sort l.
Proof. symmetry. apply sort_unique; [apply sort_sorted|apply Permutation_refl]. Qed.

Lemma sort_of_perm (l1 l2 : list Z) : Permutation l1 l2 -> sort l1 = sort l2.
Proof.
  intro H. apply sort_unique; [apply sort_sorted|]. eapply perm_trans; [apply sort_perm|exact H].
Qed.

(* ---- grade up / grade down ------------------------------------------------------ *)
Lemma up_leb_spec (p q : Z * nat) :
  up_leb p q = true <-> fst p < fst q \/ (fst p = fst q /\ (snd p <= snd q)%nat).
Proof. unfold up_leb. rewrite orb_true_iff, andb_true_iff, Z.ltb_lt, Z.eqb_eq, Nat.leb_le. tauto. Qed.

Lemma down_leb_spec (p q : Z * nat) :
  down_leb p q = true <-> fst q < fst p \/ (fst p = fst q /\ (snd p <= snd q)%nat).
Proof. unfold down_leb. rewrite orb_true_iff, andb_true_iff, Z.ltb_lt, Z.eqb_eq, Nat.leb_le. tauto. Qed.

Lemma up_leb_total (p q : Z * nat) : up_leb p q = true \/ up_leb q p = true.
Proof. rewrite !up_leb_spec. lia. Qed.

Lemma up_leb_trans (p q r : Z * nat) : up_leb p q = true -> up_leb q r = true -> up_leb p r = true.
Proof. rewrite !up_leb_spec. lia. Qed.

Lemma down_leb_total (p q : Z * nat) : down_leb p q = true \/ down_leb q p = true.
Proof. rewrite !down_leb_spec. lia. Qed.

Lemma down_leb_trans (p q r : Z * nat) : down_leb p q = true -> down_leb q r = true -> down_leb p r = true.
Proof. rewrite !down_leb_spec. lia. Qed.

Lemma map_snd_combine {A B} (a : list A) (b : list B) : length a = length b -> map snd (combine a b) = b.
Proof.
  revert b; induction a as [|x a IH]; intros [|y b] H; simpl in *; try discriminate; [reflexivity|].
  f_equal. apply IH. lia.
Qed.

Lemma map_fst_combine {A B} (a : list A) (b : list B) : length a = length b -> map fst (combine a b) = a.
Proof.
  revert b; induction a as [|x a IH]; intros [|y b] H; simpl in *; try discriminate; [reflexivity|].
  f_equal. apply IH. lia.
Qed.

Lemma indexed_snd (l : list Z) : map snd (indexed l) = seq 0 (length l).
Proof. apply map_snd_combine. rewrite seq_length. reflexivity. Qed.

Lemma indexed_fst (l : list Z) : map fst (indexed l) = l.
Proof. apply map_fst_combine. rewrite seq_length. reflexivity. Qed.

(* every pair of `indexed l` is (l[i], i) *)
Definition points_at (l : list Z) (p : Z * nat) : Prop := fst p = nth (snd p) l 0.

Lemma combine_seq_points (l pre : list Z) :
  Forall (points_at (pre ++ l)) (combine l (seq (length pre) (length l))).
Proof.
  revert pre; induction l as [|x r IH]; intro pre; simpl; [constructor|].
  constructor.
  - unfold points_at. simpl. rewrite app_nth2 by lia. rewrite Nat.sub_diag. reflexivity.
  - specialize (IH (pre ++ [x])). rewrite <- app_assoc, app_length in IH. simpl in IH.
    rewrite Nat.add_1_r in IH. exact IH.
Qed.

Lemma indexed_points (l : list Z) : Forall (points_at l) (indexed l).
Proof. apply (combine_seq_points l []). Qed.

Section Grade.
  Variable ord : Z * nat -> Z * nat -> bool.
  Hypothesis ord_total : forall p q, ord p q = true \/ ord q p = true.
  Hypothesis ord_trans : forall p q r, ord p q = true -> ord q r = true -> ord p r = true.
  Variable l : list Z.
  Let S := isort ord (indexed l).
  Let g := map snd S.

  Lemma grade_perm : Permutation g (seq 0 (length l)).
  Proof.
    unfold g, S. rewrite <- indexed_snd. apply Permutation_map. apply isort_perm.
  Qed.

  Lemma grade_points : Forall (points_at l) S.
  Proof.
    unfold S. rewrite Forall_forall. intros p Hp.
    assert (H := indexed_points l). rewrite Forall_forall in H. apply H.
    eapply Permutation_in; [apply isort_perm|exact Hp].
  Qed.

  Lemma grade_values : map (fun i => nth i l 0) g = map fst S.
  Proof.
    unfold g. rewrite map_map. apply map_ext_in. intros p Hp.
    assert (H := grade_points). rewrite Forall_forall in H. symmetry. apply H. exact Hp.
  Qed.

  Lemma grade_values_perm : Permutation (map (fun i => nth i l 0) g) l.
  Proof.
    rewrite grade_values. unfold S. rewrite <- (indexed_fst l) at 2.
    apply Permutation_map. apply isort_perm.
  Qed.

  Lemma grade_sorted (Rk : nat -> nat -> Prop) :
    (forall p q, points_at l p -> points_at l q -> ord p q = true -> Rk (snd p) (snd q)) ->
    StronglySorted Rk g.
  Proof.
    intro H. unfold g. apply (StronglySorted_map (R ord) Rk snd (points_at l)).
    - intros a b Pa Pb Hab. apply H; assumption.
    - apply grade_points.
    - apply isort_strongly_sorted; assumption.
  Qed.
End Grade.

Lemma grade_up_perm (l : list Z) : Permutation (grade_up l) (seq 0 (length l)).
Proof. apply grade_perm. Qed.

Lemma grade_down_perm (l : list Z) : Permutation (grade_down l) (seq 0 (length l)).
Proof. apply grade_perm. Qed.

Lemma grade_up_NoDup (l : list Z) : NoDup (grade_up l).
Proof. eapply Permutation_NoDup; [apply Permutation_sym, grade_up_perm|apply seq_NoDup]. Qed.

Lemma grade_down_NoDup (l : list Z) : NoDup (grade_down l).
Proof. eapply Permutation_NoDup; [apply Permutation_sym, grade_down_perm|apply seq_NoDup]. Qed.

Lemma grade_up_stable (l : list Z) : StronglySorted (up_before l) (grade_up l).
Proof.
  apply (grade_sorted up_leb up_leb_total up_leb_trans l).
  intros p q Pp Pq H. apply up_leb_spec in H. unfold up_before, value, points_at in *.
  rewrite <- Pp, <- Pq. exact H.
Qed.

Lemma grade_down_stable (l : list Z) : StronglySorted (down_before l) (grade_down l).
Proof.
  apply (grade_sorted down_leb down_leb_total down_leb_trans l).
  intros p q Pp Pq H. apply down_leb_spec in H. unfold down_before, value, points_at in *.
  rewrite <- Pp, <- Pq. exact H.
Qed.

Lemma StronglySorted_impl_map (R1 : nat -> nat -> Prop) (R2 : Z -> Z -> Prop) (f : nat -> Z) (g : list nat) :
  (forall i j, R1 i j -> R2 (f i) (f j)) -> StronglySorted R1 g -> StronglySorted R2 (map f g).
Proof.
  intros H Hs. apply (StronglySorted_map R1 R2 f (fun _ => True)); [intros; apply H; assumption| |exact Hs].
  apply Forall_forall. intros; exact I.
Qed.

Lemma grade_up_sorts (l : list Z) : map (value l) (grade_up l) = sort l.
Proof.
  apply sort_unique.
  - apply StronglySorted_Sorted. apply (StronglySorted_impl_map (up_before l)); [|apply grade_up_stable].
    intros i j H. unfold up_before in H. lia.
  - apply (grade_values_perm up_leb l).
Qed.

Lemma grade_down_sorts (l : list Z) :
  StronglySorted Z.ge (map (value l) (grade_down l)) /\ Permutation (map (value l) (grade_down l)) l.
Proof.
  split.
  - apply (StronglySorted_impl_map (down_before l)); [|apply grade_down_stable].
    intros i j H. unfold down_before in H. lia.
  - apply (grade_values_perm down_leb l).
Qed.

Lemma StronglySorted_snoc (s : list Z) (x : Z) :
  StronglySorted Z.le s -> Forall (fun y => y <= x) s -> StronglySorted Z.le (s ++ [x]).
Proof.
  induction 1 as [|a s Hs IH Ha]; intro HF; simpl; [constructor; constructor|].
  inversion HF as [|? ? Hax HF']; subst. constructor; [apply IH; exact HF'|].
  apply Forall_app. split; [exact Ha|constructor; [exact Hax|constructor]].
Qed.

Lemma StronglySorted_ge_rev (s : list Z) : StronglySorted Z.ge s -> StronglySorted Z.le (rev s).
Proof.
  induction 1 as [|x r Hr IH Hf]; simpl; [constructor|].
  apply StronglySorted_snoc; [exact IH|].
  rewrite Forall_forall in *. intros y Hy. apply in_rev in Hy. apply Hf in Hy. lia.
Qed.

Lemma grade_down_reverse_sort (l : list Z) : map (value l) (grade_down l) = rev (sort l).
Proof.
  destruct (grade_down_sorts l) as [Hs Hp].
  rewrite <- (rev_involutive (map (value l) (grade_down l))). f_equal.
  apply sort_unique.
  - apply StronglySorted_Sorted, StronglySorted_ge_rev. exact Hs.
  - eapply perm_trans; [apply Permutation_sym, Permutation_rev|exact Hp].
Qed.
