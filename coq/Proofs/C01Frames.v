(* C01, part 1: the reference evaluator leaves the interpreter's bookkeeping where it found it
   (context values, input scopes up to the cursor of the innermost one, the chain of running
   functions, the depth of the stack registry) -- "balance by construction" of Model/RefSem.v, for EVERY program, fuel, state. *)
From Coq Require Import List NArith ZArith Bool Lia.
From Vy Require Import Model.Base Model.Lexer Model.Parser Model.Transpile Gen.ParserConsts
  Model.Values Model.RefSem.
Import ListNotations.

(* ---- the relation ------------------------------------------------------------------------------- *)
Definition scopes_like (a b : list scope) : Prop :=
  match a, b with
  | [], [] => True
  | sa :: ra, sb :: rb => fst sa = fst sb /\ ra = rb
  | _, _ => False
  end.

Definition frames (s s' : state) : Prop :=
  ctxv s' = ctxv s /\ fstack s' = fstack s /\ sdepth s' = sdepth s /\ scopes_like (inner s) (inner s').

Lemma scopes_like_refl a : scopes_like a a.
Proof. destruct a as [|[l c] r]; simpl; auto. Qed.

Lemma scopes_like_trans a b c : scopes_like a b -> scopes_like b c -> scopes_like a c.
Proof.
  destruct a as [|[la ca] ra], b as [|[lb cb] rb], c as [|[lc cc] rc]; simpl; try tauto.
  intros [H1 H2] [H3 H4]. split; congruence.
Qed.

Lemma frames_refl s : frames s s.
Proof. repeat split; apply scopes_like_refl. Qed.

Lemma frames_trans a b c : frames a b -> frames b c -> frames a c.
Proof.
  intros (A1 & A2 & A3 & A4) (B1 & B2 & B3 & B4).
  repeat split; try congruence. eapply scopes_like_trans; eauto.
Qed.

(* a state that differs only in fields the relation does not look at *)
Lemma frames_same a b :
  ctxv b = ctxv a -> fstack b = fstack a -> sdepth b = sdepth a -> inner b = inner a -> frames a b.
Proof. intros H1 H2 H3 H4. repeat split; auto. rewrite H4. apply scopes_like_refl. Qed.

Ltac fsame := apply frames_same; reflexivity.

Lemma frames_set_stk s x : frames s (set_stk s x). Proof. fsame. Qed.
Lemma frames_set_reg s x : frames s (set_reg s x). Proof. fsame. Qed.
Lemma frames_set_vars s x : frames s (set_vars s x). Proof. fsame. Qed.
Lemma frames_set_top_in s x : frames s (set_top_in s x). Proof. fsame. Qed.
Lemma frames_emit s x : frames s (emit s x). Proof. fsame. Qed.
Lemma frames_push s v : frames s (push v s). Proof. fsame. Qed.
Lemma frames_set_heap s x : frames s (set_heap s x). Proof. fsame. Qed.
Lemma frames_set_cur s x : frames s (set_cur s x). Proof. fsame. Qed.

Lemma frames_assign_var n v s : frames s (assign_var n v s).
Proof.
  unfold assign_var. destruct (cur s) as [|id r]; [fsame|].
  destruct (nth_error (heap s) id) as [fr|]; [|fsame]. destruct (cell_of n fr); fsame.
Qed.

Lemma frames_enter_def names env s : frames s (enter_def names env s).
Proof. unfold enter_def. destruct names; fsame. Qed.
Lemma ctxv_enter_def names env s : ctxv (enter_def names env s) = ctxv s. Proof. destruct names; reflexivity. Qed.
Lemma inner_enter_def names env s : inner (enter_def names env s) = inner s. Proof. destruct names; reflexivity. Qed.
Lemma fstack_enter_def names env s : fstack (enter_def names env s) = fstack s. Proof. destruct names; reflexivity. Qed.
Lemma sdepth_enter_def names env s : sdepth (enter_def names env s) = sdepth s. Proof. destruct names; reflexivity. Qed.
Lemma stk_enter_def names env s : stk (enter_def names env s) = stk s. Proof. destruct names; reflexivity. Qed.
Lemma this_enter_def names env s : this (enter_def names env s) = this s. Proof. destruct names; reflexivity. Qed.

Lemma frames_get_top s : frames s (fst (get_top s)).
Proof. unfold get_top. destruct (fst (top_in s)); simpl; [apply frames_refl|fsame]. Qed.

Lemma frames_get_input s : frames s (fst (get_input s)).
Proof.
  unfold get_input. destruct (inner s) as [|[l c] r] eqn:E; [apply frames_get_top|].
  simpl. destruct l; simpl; [apply frames_refl|].
  repeat split; try reflexivity. rewrite E. simpl. auto.
Qed.

Lemma frames_pop1 s : frames s (fst (pop1 s)).
Proof. unfold pop1. destruct (stk s); [apply frames_get_input|simpl; fsame]. Qed.

Lemma pop1_frames s s1 v : pop1 s = (s1, v) -> frames s s1.
Proof. intro H. pose proof (frames_pop1 s) as F. rewrite H in F. exact F. Qed.

Lemma popn_frames k : forall s s1 l, popn k s = (s1, l) -> frames s s1.
Proof.
  induction k as [|k IH]; intros s s1 l H; simpl in H.
  - inversion H; subst. apply frames_refl.
  - destruct (pop1 s) as [sa x] eqn:E1. destruct (popn k sa) as [sb xs] eqn:E2.
    inversion H; subst. eapply frames_trans; [eapply pop1_frames; eauto|eapply IH; eauto].
Qed.

Lemma frames_bind_params l : forall s, frames s (bind_params l s).
Proof.
  unfold bind_params. induction l as [|kv l IH]; intro s; simpl; [apply frames_refl|].
  eapply frames_trans; [apply frames_assign_var|apply IH].
Qed.

Lemma this_assign_var n v s : this (assign_var n v s) = this s.
Proof.
  unfold assign_var. destruct (cur s) as [|id r]; [reflexivity|].
  destruct (nth_error (heap s) id) as [fr|]; [|reflexivity]. destruct (cell_of n fr); reflexivity.
Qed.
Lemma stk_assign_var n v s : stk (assign_var n v s) = stk s.
Proof.
  unfold assign_var. destruct (cur s) as [|id r]; [reflexivity|].
  destruct (nth_error (heap s) id) as [fr|]; [|reflexivity]. destruct (cell_of n fr); reflexivity.
Qed.
Lemma this_bind_params l : forall s, this (bind_params l s) = this s.
Proof. unfold bind_params. induction l as [|kv l IH]; intro s; simpl; [reflexivity|]. rewrite IH. apply this_assign_var. Qed.
Lemma stk_bind_params l : forall s, stk (bind_params l s) = stk s.
Proof. unfold bind_params. induction l as [|kv l IH]; intro s; simpl; [reflexivity|]. rewrite IH. apply stk_assign_var. Qed.

Lemma get_top_frames s s1 v : get_top s = (s1, v) -> frames s s1.
Proof. intro H. pose proof (frames_get_top s) as F. rewrite H in F. exact F. Qed.

(* ---- results ------------------------------------------------------------------------------------------ *)
Definition keeps (r : xres state) (s : state) : Prop :=
  match r with XOk s' => frames s s' | _ => True end.
Definition keeps2 {A} (r : xres (A * state)) (s : state) : Prop :=
  match r with XOk (_, s') => frames s s' | _ => True end.

Lemma keeps_frames r s s' : keeps r s -> r = XOk s' -> frames s s'.
Proof. intros K ->. exact K. Qed.

Lemma keeps_bind {A} (r : xres A) (k : A -> xres state) s :
  (forall a, r = XOk a -> keeps (k a) s) -> keeps (xbind r k) s.
Proof. destruct r; simpl; auto. Qed.

Lemma keeps2_bind {A B} (r : xres A) (k : A -> xres (B * state)) s :
  (forall a, r = XOk a -> keeps2 (k a) s) -> keeps2 (xbind r k) s.
Proof. destruct r; simpl; auto. Qed.

Lemma keeps_weaken r s0 s : frames s0 s -> keeps r s -> keeps r s0.
Proof. destruct r; simpl; auto. intros. eapply frames_trans; eauto. Qed.

Lemma keeps2_weaken {A} (r : xres (A * state)) s0 s : frames s0 s -> keeps2 r s -> keeps2 r s0.
Proof. destruct r as [[a s']| |]; simpl; auto. intros. eapply frames_trans; eauto. Qed.

Lemma keeps_vy_print v s : keeps (vy_print v s) s.
Proof. unfold vy_print. destruct (print_text v); simpl; auto. apply frames_emit. Qed.

(* ---- element semantics ------------------------------------------------------------------------------------ *)
Section Elems.
  Variable cf : cfg.
  Variable app : app_t.
  Variable callstk : callstk_t.
  Hypothesis Happ : forall c args s, keeps2 (app c args s) s.
  Hypothesis Hcall : forall c s, keeps (callstk c s) s.

  Lemma keeps_un f s : keeps (un f s) s.
  Proof.
    unfold un. destruct (pop1 s) as [s1 a] eqn:E. apply pop1_frames in E.
    destruct (f a); simpl; auto.
  Qed.

  Lemma keeps_bin f s : keeps (bin f s) s.
  Proof.
    unfold bin. destruct (pop1 s) as [s1 a] eqn:E1. destruct (pop1 s1) as [s2 b] eqn:E2.
    apply pop1_frames in E1. apply pop1_frames in E2.
    destruct (f b a); simpl; auto.
    eapply frames_trans; [exact E1|exact E2].
  Qed.

  Lemma keeps2_lazy_app c args s : keeps2 (lazy_app app c args s) s.
  Proof. unfold lazy_app. destruct (lazy_ok c args); simpl; auto. Qed.

  Lemma keeps2_map_app c mk items : forall s, keeps2 (map_app app c mk items s) s.
  Proof.
    induction items as [|x r IH]; intro s; simpl; [apply frames_refl|].
    pose proof (keeps2_lazy_app c (mk x) s) as K.
    destruct (lazy_app app c (mk x) s) as [[y s1]| |]; simpl; auto.
    pose proof (IH s1) as K2. destruct (map_app app c mk r s1) as [[ys s2]| |]; simpl; auto.
    simpl in *. eapply frames_trans; eauto.
  Qed.

  Lemma keeps2_filter_app c items : forall s, keeps2 (filter_app app c items s) s.
  Proof.
    induction items as [|x r IH]; intro s; simpl; [apply frames_refl|].
    pose proof (keeps2_lazy_app c [x] s) as K.
    destruct (lazy_app app c [x] s) as [[y s1]| |]; simpl; auto.
    destruct (truthy y); simpl; auto.
    pose proof (IH s1) as K2. destruct (filter_app app c r s1) as [[ys s2]| |]; simpl; auto.
    simpl in *. eapply frames_trans; eauto.
  Qed.

  Lemma keeps2_fold_app c items : forall acc s, keeps2 (fold_app app c acc items s) s.
  Proof.
    induction items as [|x r IH]; intros acc s; simpl; [apply frames_refl|].
    pose proof (Happ c [acc; x] s) as K.
    destruct (app c [acc; x] s) as [[y s1]| |]; simpl; auto.
    eapply keeps2_weaken; [exact K|apply IH].
  Qed.

  Lemma keeps2_key_app c items : forall s, keeps2 (key_app app c items s) s.
  Proof.
    induction items as [|x r IH]; intro s; simpl; [apply frames_refl|].
    pose proof (Happ c [x] s) as K.
    destruct (app c [x] s) as [[k s1]| |]; simpl; auto.
    destruct k; simpl; auto.
    pose proof (IH s1) as K2. destruct (key_app app c r s1) as [[ks s2]| |]; simpl; auto.
    simpl in *. eapply frames_trans; eauto.
  Qed.

  Lemma keeps2_scan_app c items : forall acc s, keeps2 (scan_app app c acc items s) s.
  Proof.
    induction items as [|x r IH]; intros acc s; simpl; [apply frames_refl|].
    pose proof (keeps2_lazy_app c [acc; x] s) as K.
    destruct (lazy_app app c [acc; x] s) as [[y s1]| |]; simpl; auto.
    pose proof (IH y s1) as K2. destruct (scan_app app c y r s1) as [[ys s2]| |]; simpl; auto.
    simpl in *. eapply frames_trans; eauto.
  Qed.

  Ltac pops :=
    repeat match goal with
    | |- context [pop1 ?s] =>
        let s1 := fresh "s" in let a := fresh "a" in let E := fresh "E" in
        destruct (pop1 s) as [s1 a] eqn:E; apply pop1_frames in E
    | |- context [get_top ?s] =>
        let s1 := fresh "s" in let a := fresh "a" in let E := fresh "E" in
        destruct (get_top s) as [s1 a] eqn:E; apply get_top_frames in E
    end.

  Ltac chain :=
    repeat match goal with
    | H : frames ?a ?b |- frames ?a _ => eapply frames_trans; [exact H|]; clear H
    end.

  (* frames a X where X is b up to fields the relation ignores and a chain of hypotheses leads from a to b *)
  Ltac fr :=
    simpl;
    match goal with
    | |- True => exact I
    | |- frames ?a _ => first [exact (frames_refl a) | assumption | (eapply frames_trans; [eassumption|fr])]
    end.

  Lemma keeps_un2 f s : keeps (un2 f s) s.
  Proof.
    unfold un2. destruct (pop1 s) as [s1 a] eqn:E. apply pop1_frames in E.
    destruct (f a); simpl; auto.
  Qed.

  Lemma keeps_stack_op f s : keeps (stack_op f s) s.
  Proof. unfold stack_op. destruct (f (stk s)); simpl; auto. fsame. Qed.

  Lemma keeps_elem_more k s : keeps (elem_more k s) s.
  Proof.
    unfold elem_more.
    repeat match goal with
    | |- keeps (if ?b then _ else _) _ => destruct b
    end.
    all: try apply keeps_un; try apply keeps_bin; try apply keeps_un2; try apply keeps_stack_op; try exact I.
    all: try (simpl; fsame).
    (* over *)
    destruct (stk s) as [|x [|y r]]; simpl; try fsame;
      (destruct (get_input s) as [s1 a] eqn:E; pose proof (frames_get_input s) as F; rewrite E in F; simpl in *; fr).
  Qed.

  Lemma keeps_elem_pure k s : keeps (elem_pure k s) s.
  Proof.
    unfold elem_pure.
    repeat match goal with
    | |- keeps (if ?b then _ else _) _ => destruct b
    end.
    all: try apply keeps_un; try apply keeps_bin; try exact I; try apply keeps_elem_more.
    all: try (exact (frames_pop1 s)).
    all: try (destruct (ctxv s); fr).
    all: try (pops; fr).
    all: pops;
      match goal with
      | |- keeps (vy_print ?a ?s0) _ => eapply keeps_weaken; [eassumption|apply keeps_vy_print]
      | |- keeps (xbind (vy_print ?a ?s0) _) _ =>
          let K := fresh "K" in
          pose proof (keeps_vy_print a s0) as K; destruct (vy_print a s0); simpl; auto; simpl in K;
          eapply frames_trans; [eassumption|exact K]
      end.
  Qed.

  Ltac ofopt :=
    repeat match goal with
    | |- keeps (xbind (of_opt ?o) _) _ => destruct o; simpl; [|exact I]
    end.

  Lemma keeps_map_push c mk its s0 s1 :
    frames s0 s1 -> keeps (xbind (map_app app c mk its s1) (fun '(ys, s3) => XOk (push (VList ys) s3))) s0.
  Proof.
    intro F. pose proof (keeps2_map_app c mk its s1) as K.
    destruct (map_app app c mk its s1) as [[ys s3]| |]; simpl in *; fr.
  Qed.

  Lemma keeps_filter_push c its s0 s1 :
    frames s0 s1 -> keeps (xbind (filter_app app c its s1) (fun '(ys, s3) => XOk (push (VList ys) s3))) s0.
  Proof.
    intro F. pose proof (keeps2_filter_app c its s1) as K.
    destruct (filter_app app c its s1) as [[ys s3]| |]; simpl in *; fr.
  Qed.

  Lemma keeps_elem_call k s : keeps (elem_call cf app callstk k s) s.
  Proof.
    unfold elem_call.
    repeat match goal with
    | |- keeps (if ?b then _ else _) _ => destruct b
    end; try exact I.
    - (* M *) pops. assert (F : frames s s1) by fr.
      destruct a0 as [z|t0|l|c], a as [z'|t0'|l'|c']; ofopt; try (apply keeps_map_push; exact F); fr.
    - (* F *) pops. assert (F : frames s s1) by fr.
      destruct a0 as [z|t0|l|c], a as [z'|t0'|l'|c']; ofopt; try (apply keeps_filter_push; exact F); fr.
    - (* ṡ *) pops. assert (F : frames s s1) by fr.
      destruct a0 as [z|t0|l|c], a as [z'|t0'|l'|c']; ofopt; try exact I;
        match goal with |- keeps (xbind (key_app app ?c ?its s1) _) _ =>
          pose proof (keeps2_key_app c its s1) as K; destruct (key_app app c its s1) as [[ks s3]| |] end; simpl in *; fr.
    - (* † *) pops. destruct a as [z|t0|l|c]; simpl; try exact I.
      + match goal with |- keeps (xbind (of_opt ?o) _) _ => destruct o end; simpl; fr.
      + eapply keeps_weaken; [exact E|apply Hcall].
  Qed.

  Lemma keeps_elem_sem k s : keeps (elem_sem cf app callstk k s) s.
  Proof. unfold elem_sem. destruct (mem k call_keys); [apply keeps_elem_call|apply keeps_elem_pure]. Qed.

  Lemma keeps_mod1 m fA s : keeps (mod1_sem cf app callstk m fA s) s.
  Proof.
    unfold mod1_sem.
    repeat match goal with
    | |- keeps (if ?b then _ else _) _ => destruct b
    end; try exact I.
    - (* v *) destruct (arity_nat (c_arity fA)) as [|[|[|k]]]; try exact I.
      + pops. ofopt. apply keeps_map_push. fr.
      + pops. assert (F : frames s s1) by fr.
        destruct a0 as [z|t0|l|c], a as [z'|t0'|l'|c']; try exact I; ofopt; apply keeps_map_push; exact F.
    - (* & *) destruct (popn _ (push (reg s) s)) as [s1 popped] eqn:E. apply popn_frames in E.
      match goal with |- keeps (xbind (app fA ?a s1) _) _ =>
        pose proof (Happ fA a s1) as K; destruct (app fA a s1) as [[r s2]| |] end; simpl in *; fr.
    - (* ~ *) destruct (arity_nat (c_arity fA)) as [|[|k]].
      + apply frames_refl.
      + pops. ofopt. apply keeps_filter_push. fr.
      + destruct (popn (S (S k)) s) as [s1 popped] eqn:E. apply popn_frames in E.
        match goal with |- keeps (xbind (app fA ?a ?s2) _) _ =>
          pose proof (Happ fA a s2) as K; destruct (app fA a s2) as [[r s3]| |] end; simpl in *; fr.
    - (* ß *) pops. destruct (truthy a) as [[|]|]; simpl; try exact I; [|fr].
      eapply keeps_weaken; [exact E|apply Hcall].
    - (* ƒ *) pops. destruct (iter_digits a) as [[|y r]|]; simpl; try exact I; [fr|].
      match goal with |- keeps (xbind (fold_app app ?c y r s0) _) _ =>
        pose proof (keeps2_fold_app c r y s0) as K; destruct (fold_app app c y r s0) as [[res s2]| |] end; simpl in *; fr.
    - (* ɖ *) pops. destruct (iter_digits a) as [[|y r]|]; simpl; try exact I; [fr|].
      match goal with |- keeps (xbind (scan_app app ?c y r s0) _) _ =>
        pose proof (keeps2_scan_app c r y s0) as K; destruct (scan_app app c y r s0) as [[res s2]| |] end; simpl in *; fr.
  Qed.

  Lemma keeps_mod2 m fA fB s : keeps (mod2_sem app m fA fB s) s.
  Proof.
    unfold mod2_sem.
    destruct (popn (arity_nat (c_arity fA)) s) as [s1 pa] eqn:E1. apply popn_frames in E1.
    destruct (popn (arity_nat (c_arity fB)) (set_stk s1 (stk s))) as [s2 pb] eqn:E2. apply popn_frames in E2.
    pose proof (Happ fA (rev pa) s2) as K1.
    destruct (app fA (rev pa) s2) as [[ra s3]| |]; simpl; try exact I.
    pose proof (Happ fB (rev pb) s3) as K2.
    destruct (app fB (rev pb) s3) as [[rb s4]| |]; simpl; try exact I. simpl in K1, K2.
    assert (F : frames s s4).
    { eapply frames_trans; [exact E1|]. eapply frames_trans; [|eapply frames_trans; [exact K1|exact K2]]. exact E2. }
    repeat match goal with
    | |- keeps (if ?b then _ else _) _ => destruct b
    end; try exact I; simpl; exact F.
  Qed.
End Elems.

(* ---- the reference evaluator ------------------------------------------------------------------------------------ *)
Ltac fr :=
  simpl;
  match goal with
  | |- True => exact I
  | |- frames ?a _ => first [exact (frames_refl a) | assumption | (eapply frames_trans; [eassumption|fr])]
  end.

Section RStep.
  Variable cf : cfg.
  Variable rec : list struct -> state -> fres.
  Variable wl : value -> list struct -> list struct -> state -> fres.
  Hypothesis Hrec : forall p s, keeps2 (rec p s) s.
  Hypothesis Hwl : forall v c b s, keeps2 (wl v c b s) s.

  Lemma keeps2_norm r s : keeps r s -> keeps2 (norm r) s.
  Proof. destruct r; simpl; auto. Qed.

  Lemma keeps2_r_lambda self c popped s : keeps2 (r_lambda rec self c popped s) s.
  Proof.
    unfold r_lambda, with_stack, with_env, with_this, with_function, with_context, with_scope, with_registered, bracket. simpl.
    match goal with |- context [rec (c_body c) ?S0] => destruct (rec (c_body c) S0) as [[g s1]| |] end; simpl; try exact I.
    destruct g; simpl; try exact I.
    - destruct (pop1 s1) as [s2 r]. simpl.
      repeat split; simpl; rewrite ?ctxv_enter_def, ?fstack_enter_def, ?sdepth_enter_def, ?inner_enter_def; simpl; try reflexivity.
      apply scopes_like_refl.
    - repeat split; simpl; rewrite ?ctxv_enter_def, ?fstack_enter_def, ?sdepth_enter_def, ?inner_enter_def; simpl; try reflexivity.
      apply scopes_like_refl.
  Qed.

  Lemma pop_star_frames s s1 l : pop_star s = Some (s1, l) -> frames s s1.
  Proof.
    unfold pop_star. destruct (pop1 s) as [sa v] eqn:E. apply pop1_frames in E.
    destruct v as [z| | |]; try discriminate. destruct (z >? 5000)%Z; try discriminate.
    intro H. inversion H as [H1]. apply popn_frames in H1. eapply frames_trans; eauto.
  Qed.

  Lemma r_params_frames ps : forall s s1 l loc, r_params ps s = XOk (s1, l, loc) -> frames s s1.
  Proof.
    induction ps as [|[n|x|] r IH]; intros s s1 l loc H; simpl in H.
    - inversion H; subst. apply frames_refl.
    - destruct (popn n s) as [sa popped] eqn:E1. destruct (r_params r sa) as [[[sb more] lc]| |] eqn:E2; try discriminate.
      inversion H; subst. eapply frames_trans; [eapply popn_frames; eauto|eapply IH; eauto].
    - destruct (pop1 s) as [sa v] eqn:E1. destruct (r_params r sa) as [[[sb more] lc]| |] eqn:E2; try discriminate.
      inversion H; subst. eapply frames_trans; [eapply pop1_frames; eauto|eapply IH; eauto].
    - destruct (pop_star s) as [[sa popped]|] eqn:E1; try discriminate. simpl in H.
      destruct (r_params r sa) as [[[sb more] lc]| |] eqn:E2; try discriminate.
      inversion H; subst. eapply frames_trans; [eapply pop_star_frames; eauto|eapply IH; eauto].
  Qed.

  Lemma keeps2_r_named c s : keeps2 (r_named rec c s) s.
  Proof.
    unfold r_named. destruct (r_params (c_params c) s) as [[[s1 ps] loc]| |] eqn:E; simpl; try exact I.
    apply r_params_frames in E.
    unfold with_stack, with_env, with_this, with_context, with_scope, with_registered, bracket.
    set (S1 := bind_params loc (enter_def (decl_of c) (c_env c) (set_stk s1 (rev ps)))).
    assert (F1 : frames s1 S1).
    { unfold S1. eapply frames_trans; [|apply frames_bind_params]. eapply frames_trans; [|apply frames_enter_def]. apply frames_set_stk. }
    cbn [xbind].
    match goal with |- context [of_name ?o] => destruct o as [f|] end; simpl; try exact I.
    match goal with |- context [rec (c_body c) ?S0] => pose proof (Hrec (c_body c) S0) as K; destruct (rec (c_body c) S0) as [[g s2]| |] end;
      simpl; try exact I.
    destruct g; simpl; try exact I.
    destruct K as (K1 & K2 & K3 & K4). destruct F1 as (G1 & G2 & G3 & G4). destruct E as (E1 & E2 & E3 & E4). simpl in *.
    repeat split; simpl; try congruence.
    eapply scopes_like_trans; [exact E4|exact G4].
  Qed.

  Lemma keeps2_r_app c args s : keeps2 (r_app rec c args s) s.
  Proof.
    unfold r_app. destruct (body_ok c); [|exact I].
    destruct (c_named c); [|apply keeps2_r_lambda].
    unfold with_stack, bracket.
    pose proof (keeps2_r_named c (set_stk s args)) as K.
    destruct (r_named rec c (set_stk s args)) as [[fs s1]| |]; simpl; try exact I.
    destruct fs; simpl; [exact I|]. exact K.
  Qed.

  Lemma keeps_r_call_on_stack self c s : keeps (r_call_on_stack rec self c s) s.
  Proof.
    unfold r_call_on_stack. destruct (body_ok c); [|exact I].
    destruct (c_named c).
    - pose proof (keeps2_r_named c s) as K. destruct (r_named rec c s) as [[fs s1]| |]; simpl; try exact I. exact K.
    - destruct (popn (select_arity c None) s) as [s1 popped] eqn:E. apply popn_frames in E.
      pose proof (keeps2_r_lambda self c popped s1) as K.
      destruct (r_lambda rec self c popped s1) as [[r s2]| |]; simpl in *; fr.
  Qed.

  Lemma keeps_r_callstk c s : keeps (r_callstk rec c s) s.
  Proof. apply keeps_r_call_on_stack. Qed.

  Lemma keeps_r_token t s : keeps (r_token cf rec t s) s.
  Proof.
    unfold r_token. destruct (tk t); try exact I; try (destruct (string_value t); simpl; fr; fail).
    - destruct (number_value (tv t)); simpl; fr.
    - destruct (tv t) as [|k [|? ?]]; try exact I.
      apply keeps_elem_sem; [apply keeps2_r_app|apply keeps_r_callstk].
    - destruct (name_ok (tv t)); [|exact I]. destruct (lookup_var (tv t) s); simpl; fr.
    - destruct (name_ok (tv t)); [|exact I]. destruct (pop1 s) as [s1 v] eqn:E. apply pop1_frames in E. simpl.
      eapply frames_trans; [exact E|apply frames_assign_var].
  Qed.

  Lemma keeps2_r_break p s : keeps2 (r_break p s) s.
  Proof.
    unfold r_break. destruct p as [[]|]; simpl; try exact I; try apply frames_refl.
    destruct (pop1 s) as [s1 v] eqn:E. apply pop1_frames in E. exact E.
  Qed.

  Lemma keeps2_r_recurse p s : keeps2 (r_recurse rec p s) s.
  Proof.
    unfold r_recurse. destruct p as [[]|]; try exact I; try apply frames_refl.
    - destruct (this s); [|exact I]. apply keeps2_norm. apply keeps_r_call_on_stack.
    - destruct (nth_error (fstack s) 1) as [[c|]|]; try exact I. apply keeps2_norm. apply keeps_r_call_on_stack.
    - destruct (nth_error (fstack s) 1) as [[c|]|]; try exact I. apply keeps2_norm. apply keeps_r_call_on_stack.
    - destruct (nth_error (fstack s) 1) as [[c|]|]; try exact I. apply keeps2_norm. apply keeps_r_call_on_stack.
    - apply keeps2_norm. apply keeps_vy_print.
  Qed.

  Lemma keeps2_with_context {A} v (k : state -> xres (A * state)) s :
    (forall s0, keeps2 (k s0) s0) -> keeps2 (with_context v k s) s.
  Proof.
    intro Hk. unfold with_context, bracket.
    pose proof (Hk (set_ctxv s (v :: ctxv s))) as K.
    destruct (k (set_ctxv s (v :: ctxv s))) as [[a s']| |]; simpl; try exact I.
    destruct K as (K1 & K2 & K3 & K4). simpl in *. repeat split; simpl; auto.
  Qed.

  Lemma keeps2_r_elif : forall n bs, (length bs <= n)%nat -> forall s, keeps2 (r_elif rec bs s) s.
  Proof.
    induction n as [|n IH]; intros bs Hlen s.
    - destruct bs; [apply frames_refl|simpl in Hlen; lia].
    - destruct bs as [|c [|b rest]]; [apply frames_refl|apply Hrec|].
      cbn [r_elif]. pose proof (Hrec c s) as K. destruct (rec c s) as [[g s1]| |]; simpl; try exact I.
      destruct g; simpl; try exact K.
      destruct (pop1 s1) as [s2 v] eqn:E. apply pop1_frames in E.
      destruct (truthy v) as [[|]|]; simpl; try exact I.
      + eapply keeps2_weaken; [|apply Hrec]. simpl in K. fr.
      + eapply keeps2_weaken; [|apply IH; simpl in *; lia]. simpl in K. fr.
  Qed.

  Lemma keeps2_r_if bs s : keeps2 (r_if rec bs s) s.
  Proof.
    unfold r_if. destruct bs as [|a rest]; [apply frames_refl|].
    destruct (pop1 s) as [s1 v] eqn:E. apply pop1_frames in E.
    destruct (truthy v) as [[|]|]; simpl; try exact I.
    - eapply keeps2_weaken; [exact E|apply Hrec].
    - eapply keeps2_weaken; [exact E|apply (keeps2_r_elif (length rest)); lia].
  Qed.

  Lemma keeps2_r_for var body items : forall s, keeps2 (r_for rec var body items s) s.
  Proof.
    induction items as [|x r IH]; intro s; simpl; [apply frames_refl|].
    match goal with |- context [with_context x (rec body) ?S0] =>
      pose proof (keeps2_with_context x (rec body) S0 (Hrec body)) as K;
      destruct (with_context x (rec body) S0) as [[g s2]| |] end; simpl; try exact I.
    assert (F : frames s s2).
    { destruct var; simpl in K; [eapply frames_trans; [apply frames_assign_var|exact K]|exact K]. }
    destruct g; simpl; try exact F; (eapply keeps2_weaken; [exact F|apply IH]).
  Qed.

  Lemma keeps2_r_items its : forall s, keeps2 (r_items rec its s) s.
  Proof.
    induction its as [|x r IH]; intro s; simpl; [apply frames_refl|].
    unfold with_stack, with_env, bracket. simpl.
    match goal with |- context [rec x ?S0] => pose proof (Hrec x S0) as K; destruct (rec x S0) as [[g s']| |] end; simpl; try exact I.
    destruct g; simpl; try exact I.
    match goal with |- context [r_items rec r ?S1] => pose proof (IH S1) as K2; destruct (r_items rec r S1) as [[vs s2]| |] end;
      simpl; try exact I.
    simpl in K2.
    eapply frames_trans; [|exact K2].
    eapply frames_trans; [apply (frames_enter_def (assigned_list x) (cur s) (set_stk s (stk s)))|].
    eapply frames_trans; [exact K|]. apply frames_same; reflexivity.
  Qed.

  Lemma keeps2_r_step x s : keeps2 (r_step cf rec wl x s) s.
  Proof.
    destruct x; cbn [r_step]; try exact I.
    - apply keeps2_norm. apply keeps_r_token.
    - apply keeps2_r_break.
    - apply keeps2_r_recurse.
    - apply keeps2_r_if.
    - destruct names as [|n ?].
      + destruct (pop1 s) as [s1 v] eqn:E. apply pop1_frames in E.
        destruct (iter_range cf v); simpl; try exact I. eapply keeps2_weaken; [exact E|apply keeps2_r_for].
      + destruct (name_ok _); [|exact I].
        destruct (pop1 s) as [s1 v] eqn:E. apply pop1_frames in E.
        destruct (iter_range cf v); simpl; try exact I. eapply keeps2_weaken; [exact E|apply keeps2_r_for].
    - pose proof (Hrec cond s) as K. destruct (rec cond s) as [[g s1]| |]; simpl; try exact I.
      destruct g; simpl; try exact I.
      destruct (pop1 s1) as [s2 v] eqn:E. apply pop1_frames in E.
      eapply keeps2_weaken; [|apply Hwl]. simpl in K. fr.
    - destruct (name_ok _); [|exact I].
      destruct (lookup_var _ s) as [[z|t0|l|c]|]; try exact I. apply keeps2_norm. apply keeps_r_call_on_stack.
    - destruct (name_ok _); [|exact I]. destruct (params_of params); simpl; try exact I. apply frames_assign_var.
    - simpl. fr.
    - destruct op; apply keeps2_norm;
        (eapply keeps_weaken; [|apply keeps_elem_sem; [apply keeps2_r_app|apply keeps_r_callstk]]); fr.
    - pose proof (keeps2_r_items items s) as K.
      destruct (r_items rec items s) as [[vs s1]| |]; simpl in *; fr.
    - destruct (mem m mod1_keys); [|exact I]. apply keeps2_norm. apply keeps_mod1; [apply keeps2_r_app|apply keeps_r_callstk].
    - destruct (mem m mod2_keys); [|exact I]. apply keeps2_norm. apply keeps_mod2. apply keeps2_r_app.
  Qed.

  Lemma keeps2_seq_run p : forall s, keeps2 (seq_run (r_step cf rec wl) p s) s.
  Proof.
    induction p as [|x r IH]; intro s; simpl; [apply frames_refl|].
    pose proof (keeps2_r_step x s) as K. destruct (r_step cf rec wl x s) as [[g s1]| |]; simpl; try exact I.
    destruct g; try exact K. eapply keeps2_weaken; [exact K|apply IH].
  Qed.
End RStep.

Lemma eval_keeps cf fuel :
  (forall p s, keeps2 (eval cf fuel p s) s) /\ (forall v c b s, keeps2 (rloop cf fuel v c b s) s).
Proof.
  induction fuel as [|f [IH1 IH2]]; [split; intros; exact I|].
  split.
  - intros p s. cbn [eval]. apply keeps2_seq_run; assumption.
  - intros v c b s. cbn [rloop].
    destruct (truthy v) as [[|]|]; simpl; try exact I; [|apply frames_refl].
    pose proof (keeps2_with_context v (eval cf f b) s (IH1 b)) as K.
    destruct (with_context v (eval cf f b) s) as [[g s1]| |]; simpl; try exact I.
    destruct g; simpl; try exact I; try exact K.
    pose proof (IH1 c s1) as K2. destruct (eval cf f c s1) as [[g2 s2]| |]; simpl; try exact I.
    destruct g2; simpl; try exact I.
    destruct (pop1 s2) as [s3 v'] eqn:E. apply pop1_frames in E.
    eapply keeps2_weaken; [|apply IH2]. simpl in *. fr.
Qed.

(* whatever way a statement list ends -- normally or by an early exit -- the bookkeeping is where it was *)
Theorem eval_frames cf fuel p s g s' : eval cf fuel p s = XOk (g, s') -> frames s s'.
Proof. intro H. pose proof (proj1 (eval_keeps cf fuel) p s) as K. rewrite H in K. exact K. Qed.
