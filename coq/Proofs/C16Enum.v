(* C16, part 4: powerset, permutations, cartesian product. *)
From Coq Require Import List ZArith Bool Arith Lia Permutation.
From Vy Require Import Model.ListOps Proofs.C16Basic.
Import ListNotations.
Open Scope Z_scope.

Lemma flat_map_const_length {A B} (f : A -> list B) (l : list A) (c : nat) :
  (forall x, In x l -> length (f x) = c) -> length (flat_map f l) = (length l * c)%nat.
Proof.
  induction l as [|x l IH]; intro H; simpl; [reflexivity|].
  rewrite app_length, IH, H; [reflexivity|left; reflexivity|]. intros y Hy. apply H. right. exact Hy.
Qed.

Lemma flat_map_flat_map {A B C} (g : B -> list C) (h : A -> list B) (l : list A) :
  flat_map g (flat_map h l) = flat_map (fun x => flat_map g (h x)) l.
Proof. induction l as [|x l IH]; simpl; [reflexivity|]. rewrite flat_map_app, IH. reflexivity. Qed.

(* ---- powerset ------------------------------------------------------------------ *)
Lemma powerset_length (l : list Z) : length (powerset l) = (2 ^ length l)%nat.
Proof.
  induction l as [|x r IH]; [reflexivity|]. cbn [powerset length Nat.pow].
  rewrite (flat_map_const_length _ _ 2%nat) by (intros; reflexivity). rewrite IH. lia.
Qed.

Lemma powerset_In (l s : list Z) : In s (powerset l) <-> subseq s l.
Proof.
  revert s; induction l as [|x r IH]; intro s; cbn [powerset].
  - split.
    + intros [<-|[]]. constructor.
    + intro H. inversion H. left. reflexivity.
  - rewrite in_flat_map. split.
    + intros [s' [Hs' [<-|[<-|[]]]]]; apply IH in Hs'; constructor; exact Hs'.
    + intro H. inversion H as [|? ? ? H'|? s' ? H']; subst.
      * exists s. split; [apply IH; exact H'|left; reflexivity].
      * exists s'. split; [apply IH; exact H'|right; left; reflexivity].
Qed.

Lemma powerset_first (l : list Z) : hd [0] (powerset l) = [].
Proof.
  induction l as [|x r IH]; [reflexivity|]. cbn [powerset].
  destruct (powerset r) as [|s ss]; simpl in *; [discriminate|]. exact IH.
Qed.

(* the loop of the implementation produces the same list in the same order *)
Lemma powerset_loop_gen (l : list Z) (acc : list (list Z)) :
  fold_left (fun prev x => prev ++ map (fun s => s ++ [x]) prev) l acc
  = flat_map (fun t => map (fun a => a ++ t) acc) (powerset l).
Proof.
  revert acc; induction l as [|x r IH]; intro acc.
  - simpl. rewrite app_nil_r. symmetry. erewrite map_ext; [apply map_id|]. intro a. apply app_nil_r.
  - cbn [fold_left powerset]. rewrite IH, flat_map_flat_map. apply flat_map_ext. intro t.
    cbn [flat_map]. rewrite app_nil_r, map_app, map_map. f_equal.
    apply map_ext. intro a. rewrite <- app_assoc. reflexivity.
Qed.

Lemma powerset_loop_eq (l : list Z) : powerset_loop l = powerset l.
Proof.
  unfold powerset_loop. rewrite powerset_loop_gen.
  induction (powerset l) as [|t ts IH]; [reflexivity|]. simpl in *. rewrite IH. reflexivity.
Qed.

Lemma subseq_In (s l : list Z) : subseq s l -> forall y, In y s -> In y l.
Proof.
  induction 1 as [|x s l H IH|x s l H IH]; intros y Hy; [exact Hy|right; apply IH; exact Hy|].
  destruct Hy as [<-|Hy]; [left; reflexivity|right; apply IH; exact Hy].
Qed.

Lemma powerset_NoDup (l : list Z) : NoDup l -> NoDup (powerset l).
Proof.
  induction 1 as [|x r Hx Hnd IH]; [constructor; [intros []|constructor]|].
  cbn [powerset].
  assert (Hno : forall s, In s (powerset r) -> ~ In x s).
  { intros s Hs Hin. apply Hx. apply powerset_In in Hs. eapply subseq_In; eassumption. }
  revert IH Hno. generalize (powerset r). intros P HP Hno.
  induction HP as [|s ss Hs Hss IHP]; [constructor|].
  cbn [flat_map app].
  assert (Hrest : forall t, In t (flat_map (fun s0 => [s0; x :: s0]) ss) -> In t ss \/ exists s0, In s0 ss /\ t = x :: s0).
  { intros t Ht. apply in_flat_map in Ht. destruct Ht as [s0 [H0 [<-|[<-|[]]]]]; [left; exact H0|right; exists s0; split; [exact H0|reflexivity]]. }
  constructor.
  - intros [E|Hin].
    + assert (Hxs : In x s) by (rewrite <- E; left; reflexivity). apply (Hno s); [left; reflexivity|exact Hxs].
    + apply Hrest in Hin. destruct Hin as [Hin|[s0 [H0 E]]]; [apply Hs; exact Hin|].
      apply (Hno s); [left; reflexivity|]. rewrite E. left. reflexivity.
  - constructor.
    + intro Hin. apply Hrest in Hin. destruct Hin as [Hin|[s0 [H0 E]]].
      * apply (Hno (x :: s)); [right; exact Hin|left; reflexivity].
      * inversion E; subst. apply Hs. exact H0.
    + apply IHP. intros t Ht. apply Hno. right. exact Ht.
Qed.

(* ---- permutations -------------------------------------------------------------- *)
Lemma selects_length (l : list Z) : length (selects l) = length l.
Proof. induction l as [|x r IH]; [reflexivity|]. simpl. rewrite map_length, IH. reflexivity. Qed.

Lemma selects_perm (l : list Z) (x : Z) (r : list Z) : In (x, r) (selects l) -> Permutation l (x :: r).
Proof.
  revert x r; induction l as [|y l IH]; intros x r H; [destruct H|]. simpl in H.
  destruct H as [E|H].
  - inversion E; subst. apply Permutation_refl.
  - apply in_map_iff in H. destruct H as [[x' r'] [E H]]. simpl in E. inversion E; subst.
    apply IH in H. eapply perm_trans; [apply perm_skip, H|apply perm_swap].
Qed.

Lemma selects_rest_length (l : list Z) (x : Z) (r : list Z) : In (x, r) (selects l) -> S (length r) = length l.
Proof. intro H. apply selects_perm, Permutation_length in H. simpl in H. symmetry. exact H. Qed.

Lemma selects_complete (l : list Z) (x : Z) : In x l -> exists r, In (x, r) (selects l).
Proof.
  induction l as [|y l IH]; intro H; [destruct H|]. destruct H as [<-|H].
  - exists l. left. reflexivity.
  - destruct (IH H) as [r Hr]. exists (y :: r). simpl. right.
    apply in_map_iff. exists (x, r). split; [reflexivity|exact Hr].
Qed.

Lemma selects_fst (l : list Z) : map fst (selects l) = l.
Proof.
  induction l as [|x r IH]; [reflexivity|]. simpl. rewrite map_map. simpl. f_equal. exact IH.
Qed.

Lemma perms_fuel_length (n : nat) (l : list Z) : length l = n -> length (perms_fuel n l) = fact n.
Proof.
  revert l; induction n as [|n IH]; intros l H; [reflexivity|]. cbn [perms_fuel fact].
  rewrite (flat_map_const_length _ _ (fact n)).
  - rewrite selects_length, H. simpl. lia.
  - intros [x r] Hp. simpl. rewrite map_length. apply IH.
    apply selects_rest_length in Hp. lia.
Qed.

Lemma permutations_length (l : list Z) : length (permutations l) = fact (length l).
Proof. apply perms_fuel_length. reflexivity. Qed.

Lemma perms_fuel_In (n : nat) (l p : list Z) : length l = n -> (In p (perms_fuel n l) <-> Permutation l p).
Proof.
  revert l p; induction n as [|n IH]; intros l p H.
  - destruct l; [|discriminate]. simpl. split.
    + intros [<-|[]]. constructor.
    + intro HP. apply Permutation_nil in HP. left. symmetry. exact HP.
  - cbn [perms_fuel]. rewrite in_flat_map. split.
    + intros [[x r] [Hs Hp]]. simpl in Hp. apply in_map_iff in Hp. destruct Hp as [p' [<- Hp']].
      assert (Hr : length r = n) by (apply selects_rest_length in Hs; lia).
      apply (IH r p' Hr) in Hp'. eapply perm_trans; [apply selects_perm; exact Hs|apply perm_skip; exact Hp'].
    + intro HP. destruct p as [|x p'].
      * apply Permutation_length in HP. simpl in HP. lia.
      * assert (Hx : In x l) by (eapply Permutation_in; [apply Permutation_sym; exact HP|left; reflexivity]).
        destruct (selects_complete l x Hx) as [r Hr]. exists (x, r). split; [exact Hr|].
        simpl. apply in_map. assert (Hlen : length r = n) by (apply selects_rest_length in Hr; lia).
        apply (IH r p' Hlen). eapply Permutation_cons_inv.
        eapply perm_trans; [apply Permutation_sym, selects_perm; exact Hr|exact HP].
Qed.

Lemma permutations_In (l p : list Z) : In p (permutations l) <-> Permutation l p.
Proof. apply perms_fuel_In. reflexivity. Qed.

Lemma selects_NoDup_rest (l : list Z) (x : Z) (r : list Z) : NoDup l -> In (x, r) (selects l) -> NoDup r.
Proof.
  intros Hnd H. apply selects_perm in H. apply (Permutation_NoDup H) in Hnd. inversion Hnd; assumption.
Qed.

Lemma NoDup_app_sep {A} (l1 l2 : list A) :
  NoDup l1 -> NoDup l2 -> (forall q, In q l1 -> ~ In q l2) -> NoDup (l1 ++ l2).
Proof.
  induction 1 as [|q qs Hq Hqs IH]; intros H2 Hsep; [exact H2|]. simpl. constructor.
  - intro Hin. apply in_app_or in Hin. destruct Hin as [Hin|Hin]; [tauto|].
    apply (Hsep q); [left; reflexivity|exact Hin].
  - apply IH; [exact H2|]. intros q0 Hq0. apply Hsep. right. exact Hq0.
Qed.

Lemma NoDup_flat_map_heads (L : list (Z * list Z)) (f : list Z -> list (list Z)) :
  NoDup (map fst L) -> (forall p, In p L -> NoDup (f (snd p))) ->
  NoDup (flat_map (fun p => map (cons (fst p)) (f (snd p))) L).
Proof.
  induction L as [|[x r] L IH]; intros Hnd Hf; [constructor|]. cbn [flat_map map fst snd] in *.
  inversion Hnd as [|? ? Hx Hnd']; subst. apply NoDup_app_sep.
  - apply FinFun.Injective_map_NoDup; [intros a b E; inversion E; reflexivity|]. apply (Hf (x, r)). left. reflexivity.
  - apply IH; [exact Hnd'|]. intros p Hp. apply Hf. right. exact Hp.
  - intros q Hq Hin. apply in_map_iff in Hq. destruct Hq as [q' [<- _]].
    apply in_flat_map in Hin. destruct Hin as [[y s] [Hp Hq]]. simpl in Hq.
    apply in_map_iff in Hq. destruct Hq as [q'' [E _]]. inversion E; subst.
    apply Hx. apply in_map_iff. exists (x, s). split; [reflexivity|exact Hp].
Qed.

Lemma perms_fuel_NoDup (n : nat) (l : list Z) : length l = n -> NoDup l -> NoDup (perms_fuel n l).
Proof.
  revert l; induction n as [|n IH]; intros l H Hnd; [repeat constructor; intros []|].
  cbn [perms_fuel]. apply (NoDup_flat_map_heads (selects l) (perms_fuel n)).
  - rewrite selects_fst. exact Hnd.
  - intros [x r] Hp. simpl. apply IH.
    + apply selects_rest_length in Hp. lia.
    + eapply selects_NoDup_rest; eassumption.
Qed.

Lemma permutations_NoDup (l : list Z) : NoDup l -> NoDup (permutations l).
Proof. apply perms_fuel_NoDup. reflexivity. Qed.

(* ---- cartesian product ----------------------------------------------------------- *)
Lemma cart_list_prod (a b : list Z) : cart a b = list_prod a b.
Proof. induction a as [|x a IH]; [reflexivity|]. unfold cart in *. simpl. rewrite IH. reflexivity. Qed.

Lemma cart_length (a b : list Z) : length (cart a b) = (length a * length b)%nat.
Proof. rewrite cart_list_prod. apply prod_length. Qed.

Lemma cart_In (a b : list Z) (x y : Z) : In (x, y) (cart a b) <-> In x a /\ In y b.
Proof. rewrite cart_list_prod. apply in_prod_iff. Qed.

Lemma cart_NoDup (a b : list Z) : NoDup a -> NoDup b -> NoDup (cart a b).
Proof.
  intros Ha Hb. induction Ha as [|x a Hx Ha IH]; [constructor|].
  unfold cart in *. cbn [flat_map]. apply NoDup_app_sep.
  - apply FinFun.Injective_map_NoDup; [intros u v E; inversion E; reflexivity|exact Hb].
  - exact IH.
  - intros [u v] Hq Hin. apply in_map_iff in Hq. destruct Hq as [y [E _]]. inversion E; subst.
    apply (cart_In a b u v) in Hin. tauto.
Qed.

(* the anti-diagonal enumeration of the implementation contains the same pairs *)
Lemma cart_diag_In (a b : list Z) (x y : Z) : In (x, y) (cart_diag a b) <-> In x a /\ In y b.
Proof.
  unfold cart_diag. rewrite in_flat_map. split.
  - intros [d [_ H]]. apply in_flat_map in H. destruct H as [i [_ H]].
    destruct (nth_error a i) as [x'|] eqn:Ea; [|destruct H].
    destruct (nth_error b (d - i)) as [y'|] eqn:Eb; [|destruct H].
    destruct H as [E|[]]. inversion E; subst. split; eapply nth_error_In; eassumption.
  - intros [Hx Hy]. apply In_nth_error in Hx. apply In_nth_error in Hy.
    destruct Hx as [i Hi]. destruct Hy as [j Hj].
    assert (Li : (i < length a)%nat) by (apply nth_error_Some; congruence).
    assert (Lj : (j < length b)%nat) by (apply nth_error_Some; congruence).
    exists (i + j)%nat. split; [apply in_seq; lia|].
    apply in_flat_map. exists i. split; [apply in_seq; lia|].
    rewrite Hi. replace (i + j - i)%nat with j by lia. rewrite Hj. left. reflexivity.
Qed.

Lemma cart_diag_same_pairs (a b : list Z) (p : Z * Z) : In p (cart_diag a b) <-> In p (cart a b).
Proof. destruct p as [x y]. rewrite cart_diag_In, cart_In. tauto. Qed.
