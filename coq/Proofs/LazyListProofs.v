(* Proofs for property C13: every observation of the lazy-list model returns what the
   plain list returns, and no observation changes what any cell denotes. *)
From Coq Require Import List ZArith Bool Arith Lia ZifyBool.
From Vy Require Import Model.LazyList.
Import ListNotations.
Open Scope Z_scope.

(* ---- lists ----------------------------------------------------------------------------- *)
Lemma zlen_app a b : zlen (a ++ b) = zlen a + zlen b.
Proof. unfold zlen. rewrite app_length. lia. Qed.

Lemma zlen_nonneg l : 0 <= zlen l.
Proof. unfold zlen. lia. Qed.

Lemma skipn_cons_nth (l : list Z) k :
  (k < length l)%nat -> skipn k l = nth k l 0 :: skipn (S k) l.
Proof.
  revert k; induction l as [|x l IH]; intros k Hk; simpl in Hk; [lia|].
  destruct k as [|k]; [reflexivity|]. simpl. apply IH. lia.
Qed.

Lemma nth_error_nth_Z (l : list Z) k : (k < length l)%nat -> nth_error l k = Some (nth k l 0).
Proof.
  revert k; induction l as [|x l IH]; intros k Hk; simpl in Hk; [lia|].
  destruct k as [|k]; [reflexivity|]. simpl. apply IH. lia.
Qed.

Lemma nth_firstn (l : list Z) k m : (k < m)%nat -> nth k (firstn m l) 0 = nth k l 0.
Proof.
  revert k m; induction l as [|x l IH]; intros k m H.
  - rewrite firstn_nil. reflexivity.
  - destruct m as [|m]; [lia|]. destruct k as [|k]; [reflexivity|]. simpl. apply IH. lia.
Qed.

Lemma existsb_skipn_cons (f : Z -> bool) (l : list Z) k :
  (k < length l)%nat -> existsb f (skipn k l) = f (nth k l 0) || existsb f (skipn (S k) l).
Proof. intro H. rewrite (skipn_cons_nth l k H). reflexivity. Qed.

Lemma wrap_index_lt l i : 0 <= i < zlen l -> wrap_index l i = znth l i.
Proof.
  intros H. unfold wrap_index. destruct l as [|x l]; [unfold zlen in H; simpl in H; lia|].
  rewrite Z.mod_small by exact H. reflexivity.
Qed.

Lemma sel_list {B} (g : list Z) (a b : B) :
  match g with [] => a | _ :: _ => b end = if (length g =? 0)%nat then a else b.
Proof. destruct g; reflexivity. Qed.

(* ---- ranges ------------------------------------------------------------------------------ *)
Lemma range_up_fuel hi s : 0 < s -> forall f1 f2 i,
  hi - i <= Z.of_nat f1 -> hi - i <= Z.of_nat f2 -> range_up f1 i hi s = range_up f2 i hi s.
Proof.
  intros Hs. induction f1 as [|f1 IH]; intros f2 i H1 H2.
  - destruct f2 as [|f2]; [reflexivity|]. simpl. destruct (i <? hi) eqn:E; [lia|reflexivity].
  - destruct f2 as [|f2]; simpl.
    + destruct (i <? hi) eqn:E; [lia|reflexivity].
    + destruct (i <? hi) eqn:E; [|reflexivity]. f_equal. apply IH; lia.
Qed.

Lemma range_up_empty f i hi s : hi <= i -> range_up f i hi s = [].
Proof. intro H. destruct f; simpl; [reflexivity|]. destruct (i <? hi) eqn:E; [lia|reflexivity]. Qed.

Lemma range_up_all (l : list Z) : forall k lg,
  (lg + k = length l)%nat ->
  map (znth l) (range_up k (Z.of_nat lg) (zlen l) 1) = skipn lg l.
Proof.
  induction k as [|k IH]; intros lg H.
  - simpl. rewrite skipn_all2 by lia. reflexivity.
  - simpl. destruct (Z.of_nat lg <? zlen l) eqn:E; [|unfold zlen in E; lia].
    rewrite (skipn_cons_nth l lg) by lia. simpl. f_equal.
    + unfold znth. rewrite Nat2Z.id. reflexivity.
    + replace (Z.of_nat lg + 1) with (Z.of_nat (S lg)) by lia. apply IH. lia.
Qed.

(* ---- one lazy list over an abstract __next__ ------------------------------------------ *)
Definition olist (r : option Z) : list Z := match r with Some v => [v] | None => [] end.

Record Cursor {St : Type} (nxt : St -> option (option Z * St)) (gen : St -> list Z)
       (A : St -> list Z) (good : St -> Prop) (R : St -> St -> Prop) : Prop := {
  cur_refl : forall s, R s s;
  cur_trans : forall s1 s2 s3, R s1 s2 -> R s2 s3 -> R s1 s3;
  cur_good : forall s s', good s -> R s s' -> good s';
  cur_A : forall s s', R s s' -> A s' = A s;
  cur_prefix : forall s, good s -> exists t, A s = gen s ++ t;
  cur_next : forall s, good s -> exists r s',
      nxt s = Some (r, s') /\ R s s' /\ r = nth_error (A s) (length (gen s)) /\ gen s' = gen s ++ olist r
}.

Section Generic.
  Variable St : Type.
  Variable nxt : St -> option (option Z * St).
  Variable gen A : St -> list Z.
  Variable good : St -> Prop.
  Variable R : St -> St -> Prop.
  Hypothesis C : Cursor nxt gen A good R.

  Let Rrefl := cur_refl _ _ _ _ _ C.
  Let Rtrans := cur_trans _ _ _ _ _ C.
  Let Rgood := cur_good _ _ _ _ _ C.
  Let RA := cur_A _ _ _ _ _ C.

  Lemma gen_firstn s : good s -> gen s = firstn (length (gen s)) (A s).
  Proof.
    intro G. destruct (cur_prefix _ _ _ _ _ C s G) as [t Ht]. rewrite Ht.
    rewrite firstn_app, Nat.sub_diag, firstn_all. simpl. rewrite app_nil_r. reflexivity.
  Qed.

  Lemma gen_split s : good s -> gen s ++ skipn (length (gen s)) (A s) = A s.
  Proof.
    intro G. pose proof (firstn_skipn (length (gen s)) (A s)) as H.
    rewrite <- (gen_firstn s G) in H. exact H.
  Qed.

  Lemma gen_le s : good s -> (length (gen s) <= length (A s))%nat.
  Proof.
    intro G. destruct (cur_prefix _ _ _ _ _ C s G) as [t Ht]. rewrite Ht, app_length. lia.
  Qed.

  Lemma gen_full s : good s -> (length (A s) <= length (gen s))%nat -> gen s = A s.
  Proof.
    intros G H. destruct (cur_prefix _ _ _ _ _ C s G) as [t Ht].
    assert (t = []) as ->.
    { destruct t; [reflexivity|]. rewrite Ht, app_length in H. simpl in H. lia. }
    rewrite Ht, app_nil_r. reflexivity.
  Qed.

  Lemma gen_nth s k : good s -> (k < length (gen s))%nat -> nth k (gen s) 0 = nth k (A s) 0.
  Proof. intros G H. rewrite (gen_firstn s G) at 1. apply nth_firstn. exact H. Qed.

  (* what one __next__ does *)
  Lemma next_cases s : good s -> exists r s', nxt s = Some (r, s') /\ R s s' /\
    match r with
    | Some v => (length (gen s) < length (A s))%nat /\ v = nth (length (gen s)) (A s) 0
                /\ gen s' = gen s ++ [v]
    | None => gen s = A s /\ gen s' = A s
    end.
  Proof.
    intro G. destruct (cur_next _ _ _ _ _ C s G) as (r & s' & E & HR & Hr & Hg).
    exists r, s'. split; [exact E|]. split; [exact HR|].
    destruct r as [v|]; simpl in Hg.
    - symmetry in Hr. assert (length (gen s) < length (A s))%nat as L.
      { apply nth_error_Some. congruence. }
      rewrite (nth_error_nth_Z _ _ L) in Hr. split; [exact L|]. split; [congruence|exact Hg].
    - symmetry in Hr. apply nth_error_None in Hr. rewrite app_nil_r in Hg.
      pose proof (gen_full s G Hr). split; congruence.
  Qed.

  (* has_ind *)
  Lemma pull_n_ok : forall k s, good s -> exists s',
    pull_n St nxt k s = Some ((length (gen s) + k <=? length (A s))%nat, s') /\ R s s'.
  Proof.
    induction k as [|k IH]; intros s G.
    - exists s. simpl. pose proof (gen_le s G). split; [|apply Rrefl].
      f_equal. f_equal. symmetry. apply Nat.leb_le. lia.
    - destruct (next_cases s G) as (r & s1 & E & HR & Hr). simpl. rewrite E.
      destruct r as [v|].
      + destruct Hr as (L & _ & Hg). destruct (IH s1 (Rgood _ _ G HR)) as (s2 & E2 & HR2).
        exists s2. split; [|eapply Rtrans; eauto]. rewrite E2, (RA _ _ HR), Hg, app_length. simpl.
        f_equal. f_equal. destruct (Nat.leb_spec (length (gen s) + 1 + k) (length (A s)));
          symmetry; [apply Nat.leb_le|apply Nat.leb_gt]; lia.
      + destruct Hr as (Hf & _). exists s1. split; [|exact HR]. f_equal. f_equal.
        symmetry. apply Nat.leb_gt. rewrite Hf. lia.
  Qed.

  Lemma has_ind_ok ind s : good s -> exists s',
    has_ind St nxt gen ind s = Some ((0 <=? ind) && (ind <? zlen (A s)), s') /\ R s s'.
  Proof.
    intro G. unfold has_ind. pose proof (gen_le s G) as L.
    destruct (ind <? zlen (gen s)) eqn:E.
    - exists s. split; [|apply Rrefl]. f_equal. f_equal.
      assert (ind <? zlen (A s) = true) as -> by (unfold zlen in *; lia).
      rewrite andb_true_r. reflexivity.
    - destruct (pull_n_ok (Z.to_nat (ind - zlen (gen s) + 1)) s G) as (s' & E' & HR).
      exists s'. split; [|exact HR]. rewrite E'. f_equal. f_equal. unfold zlen in *.
      destruct (Nat.leb_spec (length (gen s) + Z.to_nat (ind - Z.of_nat (length (gen s)) + 1)) (length (A s))); lia.
  Qed.

  (* __getitem__ with a non-negative position *)
  Lemma fill_unfold k pos s :
    fill St nxt gen k pos s =
    if zlen (gen s) <? pos + 1 then
      match k with
      | O => None
      | S k' => match nxt s with
                | None => None
                | Some (None, s') => Some s'
                | Some (Some _, s') => fill St nxt gen k' pos s'
                end
      end
    else Some s.
  Proof. destruct k; reflexivity. Qed.

  Lemma fill_ok pos : forall k s, good s -> pos + 1 - zlen (gen s) <= Z.of_nat k -> exists s',
    fill St nxt gen k pos s = Some s' /\ R s s' /\
    zlen (gen s') = Z.max (zlen (gen s)) (Z.min (pos + 1) (zlen (A s))).
  Proof.
    induction k as [|k IH]; intros s G Hk; rewrite fill_unfold; pose proof (gen_le s G) as L.
    - destruct (zlen (gen s) <? pos + 1) eqn:E; [lia|].
      exists s. split; [reflexivity|]. split; [apply Rrefl|]. unfold zlen in *. lia.
    - destruct (zlen (gen s) <? pos + 1) eqn:E.
      + destruct (next_cases s G) as (r & s1 & E1 & HR & Hr). rewrite E1. destruct r as [v|].
        * destruct Hr as (L1 & _ & Hg).
          destruct (IH s1 (Rgood _ _ G HR)) as (s2 & E2 & HR2 & Hl).
          { rewrite Hg, zlen_app. unfold zlen in *. simpl. lia. }
          exists s2. split; [exact E2|]. split; [eapply Rtrans; eauto|].
          rewrite Hl, (RA _ _ HR), Hg, zlen_app. unfold zlen in *. simpl. lia.
        * destruct Hr as (Hf & Hg). exists s1. split; [reflexivity|]. split; [exact HR|].
          rewrite Hg, Hf. unfold zlen in *. lia.
      + exists s. split; [reflexivity|]. split; [apply Rrefl|]. unfold zlen in *. lia.
  Qed.

  Lemma index_nonneg_ok pos s : good s -> 0 <= pos -> exists s',
    index_nonneg St nxt gen pos s = Some (wrap_index (A s) pos, s') /\ R s s'.
  Proof.
    intros G Hp. unfold index_nonneg. pose proof (gen_le s G) as L.
    destruct (pos <? zlen (gen s)) eqn:E.
    - exists s. split; [|apply Rrefl]. f_equal. f_equal.
      rewrite wrap_index_lt by (unfold zlen in *; lia).
      unfold znth. apply gen_nth; [exact G|]. unfold zlen in E. lia.
    - destruct (fill_ok pos (Z.to_nat (pos + 1 - zlen (gen s))) s G) as (s' & E' & HR & Hl); [lia|].
      exists s'. split; [|exact HR]. rewrite E'.
      pose proof (Rgood _ _ G HR) as G'. pose proof (RA _ _ HR) as HA.
      assert (zlen (gen s') = Z.min (pos + 1) (zlen (A s))) as Hl' by (unfold zlen in *; lia).
      rewrite sel_list. destruct (length (gen s') =? 0)%nat eqn:E0.
      + assert (A s = []) as ->.
        { destruct (A s); [reflexivity|]. unfold zlen in Hl'. simpl in Hl'. lia. }
        reflexivity.
      + f_equal. f_equal.
        destruct (Z.le_gt_cases (pos + 1) (zlen (A s))) as [Hle|Hgt].
        * (* the cache now has exactly pos + 1 items *)
          assert (zlen (gen s') = pos + 1) as Hl2 by lia.
          rewrite Hl2, Z.mod_small by lia. rewrite wrap_index_lt by lia.
          unfold znth. rewrite (gen_nth s' _ G'), HA; [reflexivity|]. unfold zlen in Hl2. lia.
        * (* the source is exhausted: the cache is the whole list *)
          assert (gen s' = A s) as Hfull.
          { rewrite <- HA. apply gen_full; [exact G'|]. rewrite HA. unfold zlen in *. lia. }
          rewrite Hfull in *. unfold wrap_index. destruct (A s) as [|a l] eqn:EA; [|reflexivity].
          simpl in E0. discriminate.
  Qed.

  (* listify, __len__, negative positions *)
  Lemma drain_ok : forall fuel acc s, good s ->
    (length (A s) - length (gen s) < fuel)%nat -> exists s',
    drain St nxt fuel acc s = Some (acc ++ skipn (length (gen s)) (A s), s') /\ R s s' /\ gen s' = A s.
  Proof.
    induction fuel as [|fuel IH]; intros acc s G Hf; [lia|].
    destruct (next_cases s G) as (r & s1 & E1 & HR & Hr). simpl. rewrite E1. destruct r as [v|].
    - destruct Hr as (L1 & Hv & Hg).
      destruct (IH (acc ++ [v]) s1 (Rgood _ _ G HR)) as (s2 & E2 & HR2 & Hg2).
      { rewrite (RA _ _ HR), Hg, app_length. simpl. lia. }
      exists s2. split; [|split; [eapply Rtrans; eauto|rewrite Hg2; apply RA; exact HR]].
      rewrite E2, (RA _ _ HR), Hg, app_length. simpl.
      rewrite (skipn_cons_nth (A s) (length (gen s)) L1), <- Hv, <- app_assoc.
      replace (length (gen s) + 1)%nat with (S (length (gen s))) by lia. reflexivity.
    - destruct Hr as (Hfull & Hg). exists s1. split; [|split; [exact HR|exact Hg]].
      rewrite Hfull, skipn_all, app_nil_r. reflexivity.
  Qed.

  Lemma listify_ok fuel s : good s -> (length (A s) < fuel)%nat -> exists s',
    listify St nxt gen fuel s = Some (A s, s') /\ R s s' /\ gen s' = A s.
  Proof.
    intros G Hf. unfold listify. destruct (drain_ok fuel (gen s) s G) as (s' & E & HR & Hg); [lia|].
    exists s'. split; [|split; assumption]. rewrite E. f_equal. f_equal.
    apply gen_split. exact G.
  Qed.

  Lemma len_ok fuel s : good s -> (length (A s) < fuel)%nat -> exists s',
    len St nxt gen fuel s = Some (zlen (A s), s') /\ R s s'.
  Proof.
    intros G Hf. unfold len. destruct (drain_ok fuel [] s G) as (s' & E & HR & Hg); [lia|].
    exists s'. rewrite E, Hg. split; [reflexivity|exact HR].
  Qed.

  Lemma index_neg_ok fuel pos s : good s -> (length (A s) < fuel)%nat -> exists s',
    index_neg St nxt gen fuel pos s = Some (py_neg_index (A s) pos, s') /\ R s s'.
  Proof.
    intros G Hf. unfold index_neg. destruct (listify_ok fuel s G Hf) as (s' & E & HR & Hg).
    exists s'. rewrite E, Hg. split; [reflexivity|exact HR].
  Qed.

  (* the loop of __iter__ and of the slices with positions counted from the start *)
  Definition upper (stop : option Z) (n : Z) : Z :=
    match stop with None => n | Some e => Z.min n e end.

  Lemma walk_ok stop step : 0 < step -> forall fuel i acc s, good s -> 0 <= i ->
    Z.max 0 (zlen (A s) - i) < Z.of_nat fuel -> exists s',
    walk St nxt gen fuel i stop step acc s =
      Some (acc ++ map (znth (A s))
                       (range_up (Z.to_nat (upper stop (zlen (A s)) - i)) i (upper stop (zlen (A s))) step), s')
    /\ R s s'.
  Proof.
    intros Hs. induction fuel as [|fuel IH]; intros i acc s G Hi Hf.
    { pose proof (zlen_nonneg (A s)). lia. }
    simpl.
    destruct (match stop with Some e => e <=? i | None => false end) eqn:Estop.
    { exists s. split; [|apply Rrefl]. destruct stop as [e|]; [|discriminate].
      rewrite range_up_empty by (unfold upper; lia). simpl. rewrite app_nil_r. reflexivity. }
    destruct (has_ind_ok i s G) as (s1 & E1 & HR1). rewrite E1.
    assert (0 <=? i = true) as -> by lia. simpl.
    destruct (i <? zlen (A s)) eqn:Ei.
    - pose proof (Rgood _ _ G HR1) as G1. pose proof (RA _ _ HR1) as HA1.
      destruct (index_nonneg_ok i s1 G1 Hi) as (s2 & E2 & HR2). rewrite E2.
      pose proof (Rgood _ _ G1 HR2) as G2. pose proof (RA _ _ HR2) as HA2.
      destruct (IH (i + step) (acc ++ [wrap_index (A s1) i]) s2 G2) as (s3 & E3 & HR3); [lia|rewrite HA2, HA1; lia|].
      exists s3. split; [|eapply Rtrans; [exact HR1|eapply Rtrans; eauto]].
      rewrite E3, HA2, HA1. f_equal. f_equal. rewrite <- app_assoc. f_equal.
      set (hi := upper stop (zlen (A s))).
      assert (i < hi) as Hlt.
      { unfold hi, upper. destruct stop as [e|]; lia. }
      destruct (Z.to_nat (hi - i)) as [|k] eqn:Ek; [lia|]. simpl.
      assert (i <? hi = true) as -> by lia. simpl. f_equal.
      + apply wrap_index_lt. lia.
      + f_equal. apply range_up_fuel; [exact Hs|lia|lia].
    - exists s1. split; [|exact HR1]. rewrite range_up_empty by (unfold upper; destruct stop; lia).
      simpl. rewrite app_nil_r. reflexivity.
  Qed.

  Lemma iterate_ok fuel s : good s -> (length (A s) < fuel)%nat -> exists s',
    iterate St nxt gen fuel s = Some (A s, s') /\ R s s'.
  Proof.
    intros G Hf. unfold iterate. pose proof (gen_le s G) as L.
    destruct (walk_ok None 1 ltac:(lia) fuel (zlen (gen s)) (gen s) s G) as (s' & E & HR).
    { apply zlen_nonneg. } { unfold zlen. lia. }
    exists s'. split; [|exact HR]. rewrite E. f_equal. f_equal. unfold upper.
    unfold zlen at 1 2 3.
    replace (Z.to_nat (Z.of_nat (length (A s)) - Z.of_nat (length (gen s)))) with (length (A s) - length (gen s))%nat by lia.
    fold (zlen (A s)). rewrite range_up_all by lia.
    apply gen_split. exact G.
  Qed.

  (* slices *)
  Lemma getitem_slice_ok fuel start stop step s : good s -> (length (A s) < fuel)%nat ->
    step <> Some 0 -> exists s',
    getitem_slice St nxt gen fuel start stop step s = Some (py_slice (A s) start stop step, s') /\ R s s'.
  Proof.
    intros G Hf Hstep. unfold getitem_slice.
    set (st := match step with None => 1 | Some v => if v =? 0 then 1 else v end).
    assert (st = match step with None => 1 | Some v => v end /\ st <> 0) as (Hst & Hst0).
    { unfold st. destruct step as [v|]; [|lia]. destruct (v =? 0) eqn:E; [|lia].
      exfalso. apply Hstep. f_equal. lia. }
    destruct ((st <? 0) || (odflt start <? 0) || (odflt stop <? 0)) eqn:Eneg.
    - destruct (listify_ok fuel s G Hf) as (s' & E & HR & _). exists s'. rewrite E. split; [reflexivity|exact HR].
    - apply orb_false_iff in Eneg as (Eneg & E3). apply orb_false_iff in Eneg as (E1 & E2).
      destruct (walk_ok stop st ltac:(lia) fuel (odflt start) [] s G) as (s' & E & HR); [lia|unfold zlen; lia|].
      exists s'. split; [|exact HR]. rewrite E. f_equal. f_equal. simpl.
      unfold py_slice. rewrite <- Hst.
      assert (st =? 0 = false) as -> by lia. assert (0 <? st = true) as -> by lia.
      f_equal. f_equal. pose proof (zlen_nonneg (A s)) as Hn.
      assert (slice_bound (zlen (A s)) 0 (zlen (A s)) (zlen (A s)) stop = upper stop (zlen (A s))) as ->.
      { unfold slice_bound, upper. destruct stop as [e|]; [|reflexivity]. simpl in E3.
        assert (e <? 0 = false) as -> by lia. reflexivity. }
      set (hi := upper stop (zlen (A s))).
      assert (hi <= zlen (A s)) as Hhi by (unfold hi, upper; destruct stop; lia).
      assert (slice_bound (zlen (A s)) 0 (zlen (A s)) 0 start = Z.min (zlen (A s)) (odflt start)) as ->.
      { unfold slice_bound. destruct start as [v|]; simpl in *; [|lia].
        assert (v <? 0 = false) as -> by lia. reflexivity. }
      destruct (Z.le_gt_cases (odflt start) (zlen (A s))) as [Hle|Hgt].
      + rewrite Z.min_r by lia. reflexivity.
      + rewrite Z.min_l by lia. rewrite !range_up_empty by lia. reflexivity.
  Qed.

  (* truthiness *)
  Lemma truth_ok s : good s -> exists s',
    truth St nxt gen s = Some (negb (Nat.eqb (length (A s)) 0), s') /\ R s s'.
  Proof.
    intro G. unfold truth. destruct (has_ind_ok 0 s G) as (s' & E & HR). exists s'. rewrite E.
    split; [|exact HR]. f_equal. f_equal. unfold zlen. simpl.
    destruct (length (A s)); simpl; lia.
  Qed.

  (* membership *)
  Lemma contains_walk_ok x : forall fuel i s, good s -> 0 <= i ->
    Z.max 0 (zlen (A s) - i) < Z.of_nat fuel -> exists s',
    contains_walk St nxt gen fuel i x s
      = Some (existsb (fun v => v =? x) (skipn (Z.to_nat i) (A s)), s') /\ R s s'.
  Proof.
    induction fuel as [|fuel IH]; intros i s G Hi Hf.
    { pose proof (zlen_nonneg (A s)). lia. }
    simpl. destruct (has_ind_ok i s G) as (s1 & E1 & HR1). rewrite E1.
    assert (0 <=? i = true) as -> by lia. simpl.
    destruct (i <? zlen (A s)) eqn:Ei.
    - pose proof (Rgood _ _ G HR1) as G1. pose proof (RA _ _ HR1) as HA1.
      destruct (index_nonneg_ok i s1 G1 Hi) as (s2 & E2 & HR2). rewrite E2.
      pose proof (Rgood _ _ G1 HR2) as G2. pose proof (RA _ _ HR2) as HA2.
      rewrite HA1, wrap_index_lt by lia.
      rewrite (existsb_skipn_cons _ (A s) (Z.to_nat i)) by (unfold zlen in Ei; lia).
      fold (znth (A s) i).
      destruct (znth (A s) i =? x) eqn:Ex.
      + exists s2. split; [reflexivity|eapply Rtrans; eauto].
      + destruct (IH (i + 1) s2 G2) as (s3 & E3 & HR3); [lia|rewrite HA2, HA1; lia|].
        exists s3. split; [|eapply Rtrans; [exact HR1|eapply Rtrans; eauto]].
        rewrite E3, HA2, HA1. replace (Z.to_nat (i + 1)) with (S (Z.to_nat i)) by lia. reflexivity.
    - exists s1. split; [|exact HR1]. rewrite skipn_all2 by (unfold zlen in Ei; lia). reflexivity.
  Qed.

  Lemma contains_ok fuel x s : good s -> (length (A s) < fuel)%nat -> exists s',
    contains St nxt gen fuel x s = Some (existsb (fun v => v =? x) (A s), s') /\ R s s'.
  Proof.
    intros G Hf. unfold contains. pose proof (gen_le s G) as L.
    assert (A s = gen s ++ skipn (length (gen s)) (A s)) as Hsplit.
    { symmetry. apply gen_split. exact G. }
    destruct (existsb (fun v => v =? x) (gen s)) eqn:E.
    - exists s. split; [|apply Rrefl]. rewrite Hsplit, existsb_app, E. reflexivity.
    - destruct (contains_walk_ok x fuel (zlen (gen s)) s G) as (s' & E' & HR).
      { apply zlen_nonneg. } { unfold zlen. lia. }
      exists s'. split; [|exact HR]. rewrite E'. f_equal. f_equal.
      rewrite Hsplit at 2. rewrite existsb_app, E. unfold zlen. rewrite Nat2Z.id. reflexivity.
  Qed.

  (* equality, counting, reversal *)
  Lemma eq_list_ok fuel l s : good s -> (length (A s) < fuel)%nat -> exists s',
    eq_list St nxt gen fuel l s = Some (list_eqb (A s) l, s') /\ R s s'.
  Proof.
    intros G Hf. unfold eq_list. destruct (listify_ok fuel s G Hf) as (s' & E & HR & _).
    exists s'. rewrite E. split; [reflexivity|exact HR].
  Qed.

  Lemma count_ok fuel x s : good s -> (length (A s) < fuel)%nat -> exists s',
    count St nxt gen fuel x s = Some (zcount x (A s), s') /\ R s s'.
  Proof.
    intros G Hf. unfold count. destruct (listify_ok fuel s G Hf) as (s' & E & HR & _).
    exists s'. rewrite E. split; [reflexivity|exact HR].
  Qed.

  Lemma reversed_ok fuel s : good s -> (length (A s) < fuel)%nat -> exists s',
    reversed St nxt gen fuel s = Some (rev (A s), s') /\ R s s'.
  Proof.
    intros G Hf. unfold reversed. destruct (listify_ok fuel s G Hf) as (s' & E & HR & _).
    exists s'. rewrite E. split; [reflexivity|exact HR].
  Qed.
End Generic.

(* ---- the heap ---------------------------------------------------------------------------- *)
Definition shape (x : cell) : option nat :=
  match x with Root _ _ => None | View _ p _ _ => Some p end.
Definition shapes (h : heap) : list (option nat) := map shape h.

Fixpoint below (h : heap) (c : nat) : heap :=
  match h with
  | [] => []
  | x :: tl => if Nat.eqb c (length tl) then tl else below tl c
  end.

(* what an operation may do to the heap: same cells with the same parents, and every
   cell denotes what it denoted *)
Definition Rh (h h' : heap) : Prop := shapes h' = shapes h /\ forall c, abs h' c = abs h c.
Definition goodc (c : nat) (h : heap) : Prop := wf h /\ (c < length h)%nat.

Lemma shapes_length h h' : shapes h' = shapes h -> length h' = length h.
Proof. intro H. unfold shapes in H. rewrite <- (map_length shape h'), H. apply map_length. Qed.

Lemma wf_shapes : forall h h', shapes h' = shapes h -> wf h -> wf h'.
Proof.
  induction h as [|x tl IH]; intros [|y tl'] H W; simpl in *; try discriminate; [exact I|].
  injection H as Hs Ht. destruct W as [W1 W2]. split; [|apply IH; assumption].
  pose proof (shapes_length _ _ Ht) as HL.
  destruct y, x; simpl in Hs; try discriminate; [exact I|]. inversion Hs; subst. lia.
Qed.

Lemma get_lt : forall h c, (c < length h)%nat -> exists x, get h c = Some x.
Proof.
  induction h as [|x tl IH]; intros c H; simpl in *; [lia|].
  destruct (Nat.eqb c (length tl)) eqn:E; [eexists; reflexivity|].
  apply IH. apply Nat.eqb_neq in E. lia.
Qed.

Lemma get_Some_lt : forall h c x, get h c = Some x -> (c < length h)%nat.
Proof.
  induction h as [|y tl IH]; intros c x H; simpl in *; [discriminate|].
  destruct (Nat.eqb c (length tl)) eqn:E; [apply Nat.eqb_eq in E; lia|].
  apply IH in H. lia.
Qed.

Lemma length_set : forall h c y, length (set h c y) = length h.
Proof.
  induction h as [|x tl IH]; intros c y; simpl; [reflexivity|].
  destruct (Nat.eqb c (length tl)); simpl; [reflexivity|]. rewrite IH. reflexivity.
Qed.

Lemma get_set_same : forall h c y, (c < length h)%nat -> get (set h c y) c = Some y.
Proof.
  induction h as [|x tl IH]; intros c y H; simpl in *; [lia|].
  destruct (Nat.eqb c (length tl)) eqn:E; simpl.
  - rewrite E. reflexivity.
  - rewrite length_set, E. apply IH. apply Nat.eqb_neq in E. lia.
Qed.

Lemma shapes_set : forall h c x y, get h c = Some x -> shape y = shape x -> shapes (set h c y) = shapes h.
Proof.
  induction h as [|x0 tl IH]; intros c x y G S; simpl in *; [discriminate|].
  destruct (Nat.eqb c (length tl)) eqn:E; simpl.
  - inversion G; subst. rewrite S. reflexivity.
  - f_equal. eapply IH; eauto.
Qed.

Lemma get_shape : forall h h' c, shapes h' = shapes h ->
  option_map shape (get h' c) = option_map shape (get h c).
Proof.
  induction h as [|x tl IH]; intros [|y tl'] c H; simpl in *; try discriminate; [reflexivity|].
  injection H as Hs Ht. rewrite (shapes_length _ _ Ht).
  destruct (Nat.eqb c (length tl)); simpl; [rewrite Hs; reflexivity|]. apply IH. exact Ht.
Qed.

Lemma abs_get : forall h c x, get h c = Some x -> abs h c = den x (abs (below h c)).
Proof.
  induction h as [|y tl IH]; intros c x G; simpl in *; [discriminate|].
  destruct (Nat.eqb c (length tl)) eqn:E; [inversion G; reflexivity|]. apply IH. exact G.
Qed.

Lemma abs_below : forall h c p, (p < c)%nat -> (c < length h)%nat -> abs (below h c) p = abs h p.
Proof.
  induction h as [|y tl IH]; intros c p Hp Hc; simpl in *; [lia|].
  destruct (Nat.eqb c (length tl)) eqn:E.
  - apply Nat.eqb_eq in E. destruct (Nat.eqb p (length tl)) eqn:E2; [apply Nat.eqb_eq in E2; lia|reflexivity].
  - apply Nat.eqb_neq in E. destruct (Nat.eqb p (length tl)) eqn:E2; [apply Nat.eqb_eq in E2; lia|].
    apply IH; lia.
Qed.

Lemma den_ext x (f g : nat -> list Z) : (forall p, f p = g p) -> den x f = den x g.
Proof. intro H. destruct x; simpl; [reflexivity|]. rewrite H. reflexivity. Qed.

Lemma abs_set : forall h c x y, get h c = Some x -> den y (abs (below h c)) = abs h c ->
  forall c', abs (set h c y) c' = abs h c'.
Proof.
  induction h as [|x0 tl IH]; intros c x y G D c'; simpl in *; [discriminate|].
  destruct (Nat.eqb c (length tl)) eqn:E; simpl.
  - rewrite D. reflexivity.
  - rewrite length_set. pose proof (IH c x y G D) as H.
    destruct (Nat.eqb c' (length tl)); [apply den_ext; exact H|apply H].
Qed.

Lemma wf_get_view : forall h c g p gpos d, wf h -> get h c = Some (View g p gpos d) -> (p < c)%nat.
Proof.
  induction h as [|x tl IH]; intros c g p gpos d W G; simpl in *; [discriminate|].
  destruct W as [W1 W2]. destruct (Nat.eqb c (length tl)) eqn:E.
  - inversion G; subst. apply Nat.eqb_eq in E. lia.
  - eapply IH; eauto.
Qed.

Lemma abs_root h c g r : get h c = Some (Root g r) -> abs h c = g ++ r.
Proof. intro G. rewrite (abs_get _ _ _ G). reflexivity. Qed.

Lemma abs_view h c g p gpos d : wf h -> get h c = Some (View g p gpos d) ->
  abs h c = g ++ (if d then [] else skipn gpos (abs h p)).
Proof.
  intros W G. rewrite (abs_get _ _ _ G). simpl.
  rewrite abs_below; [reflexivity|eapply wf_get_view; eauto|eapply get_Some_lt; eauto].
Qed.

Lemma gen_of_prefix h c : (c < length h)%nat -> exists t, abs h c = gen_of c h ++ t.
Proof.
  intro H. destruct (get_lt h c H) as [x G]. unfold gen_of. rewrite G, (abs_get _ _ _ G).
  destruct x; simpl; eexists; reflexivity.
Qed.

Lemma abs_le_total : forall h c, (length (abs h c) <= total h)%nat.
Proof.
  induction h as [|x tl IH]; intro c; simpl; [lia|].
  destruct (Nat.eqb c (length tl)); [|pose proof (IH c); lia].
  destruct x as [g r|g p gpos d]; simpl; rewrite app_length; [lia|].
  destruct d; simpl; [lia|]. rewrite skipn_length. pose proof (IH p). lia.
Qed.

Lemma Rh_refl h : Rh h h.
Proof. split; [reflexivity|intro; reflexivity]. Qed.

Lemma Rh_trans h1 h2 h3 : Rh h1 h2 -> Rh h2 h3 -> Rh h1 h3.
Proof. intros [S1 A1] [S2 A2]. split; [congruence|]. intro c. rewrite A2. apply A1. Qed.

Lemma Rh_good c h h' : goodc c h -> Rh h h' -> goodc c h'.
Proof.
  intros [W L] [S _]. split; [eapply wf_shapes; eauto|]. rewrite (shapes_length _ _ S). exact L.
Qed.

Lemma set_root_R h c g r g' r' : get h c = Some (Root g r) -> g' ++ r' = g ++ r ->
  Rh h (set h c (Root g' r')).
Proof.
  intros G E. split; [eapply shapes_set; eauto|]. eapply abs_set; [exact G|].
  simpl. rewrite (abs_root _ _ _ _ G). exact E.
Qed.

Lemma set_view_R h c p g' gpos' (d' : bool) : (p < c)%nat ->
  option_map shape (get h c) = Some (Some p) ->
  g' ++ (if d' then [] else skipn gpos' (abs h p)) = abs h c ->
  Rh h (set h c (View g' p gpos' d')).
Proof.
  intros Hp Hs E. destruct (get h c) as [x|] eqn:G; simpl in Hs; [|discriminate].
  split; [eapply shapes_set; [exact G|simpl; congruence]|]. eapply abs_set; [exact G|].
  simpl. rewrite abs_below; [exact E|exact Hp|eapply get_Some_lt; eauto].
Qed.

(* ---- __next__ of a cell ---------------------------------------------------------------- *)
Definition next_spec (f c : nat) : Prop := forall h, goodc c h -> exists r h',
  next f c h = Some (r, h') /\ Rh h h' /\
  r = nth_error (abs h c) (length (gen_of c h)) /\ gen_of c h' = gen_of c h ++ olist r.

Lemma heap_cursor f c : next_spec f c ->
  Cursor (next f c) (gen_of c) (fun h => abs h c) (goodc c) Rh.
Proof.
  intro N. constructor.
  - apply Rh_refl.
  - apply Rh_trans.
  - apply Rh_good.
  - intros s s' [_ H]. apply H.
  - intros s [_ L]. apply gen_of_prefix. exact L.
  - exact N.
Qed.

Lemma next_ok : forall f c, (c < f)%nat -> next_spec f c.
Proof.
  induction f as [|f IH]; intros c Hc h [W L]; [lia|].
  destruct (get_lt h c L) as [x G]. simpl. rewrite G.
  assert (gen_of c h = cell_gen x) as Hgen by (unfold gen_of; rewrite G; reflexivity).
  destruct x as [g r|g p gpos d]; simpl in Hgen; rewrite Hgen.
  - (* Root *)
    rewrite (abs_root _ _ _ _ G). destruct r as [|v r].
    + exists None, h. split; [reflexivity|]. split; [apply Rh_refl|]. split.
      * symmetry. apply nth_error_None. rewrite app_nil_r. lia.
      * simpl. rewrite app_nil_r. exact Hgen.
    + exists (Some v), (set h c (Root (g ++ [v]) r)). split; [reflexivity|]. split.
      * eapply set_root_R; [exact G|]. rewrite <- app_assoc. reflexivity.
      * split.
        -- rewrite nth_error_app2, Nat.sub_diag by lia. reflexivity.
        -- unfold gen_of. rewrite (get_set_same _ _ _ L). reflexivity.
  - (* View *)
    pose proof (wf_get_view _ _ _ _ _ _ W G) as Hp.
    pose proof (abs_view _ _ _ _ _ _ W G) as Habs. rewrite Habs.
    destruct d.
    + exists None, h. split; [reflexivity|]. split; [apply Rh_refl|]. split.
      * symmetry. apply nth_error_None. rewrite app_nil_r. lia.
      * simpl. rewrite app_nil_r. exact Hgen.
    + assert (next_spec f p) as Np by (apply IH; lia).
      pose proof (heap_cursor f p Np) as Cp.
      assert (goodc p h) as Gp by (split; [exact W|lia]).
      destruct (has_ind_ok _ _ _ _ _ _ Cp (Z.of_nat gpos) h Gp) as (h1 & E1 & R1). rewrite E1.
      assert (0 <=? Z.of_nat gpos = true) as -> by lia. simpl.
      pose proof (Rh_good _ _ _ Gp R1) as Gp1. destruct R1 as [S1 A1].
      destruct (Z.of_nat gpos <? zlen (abs h p)) eqn:Eg.
      * (* the parent has position gpos *)
        destruct (index_nonneg_ok _ _ _ _ _ _ Cp (Z.of_nat gpos) h1 Gp1 ltac:(lia)) as (h2 & E2 & R2).
        rewrite E2. destruct R2 as [S2 A2]. rewrite A1, wrap_index_lt by lia.
        set (v := znth (abs h p) (Z.of_nat gpos)).
        assert (skipn gpos (abs h p) = v :: skipn (S gpos) (abs h p)) as Hsk.
        { unfold v, znth. rewrite Nat2Z.id. apply skipn_cons_nth. unfold zlen in Eg. lia. }
        assert (Rh h h2) as R02 by (split; [congruence|intro c'; rewrite A2; apply A1]).
        assert (Rh h2 (set h2 c (View (g ++ [v]) p (S gpos) false))) as R23.
        { apply set_view_R; [exact Hp| |].
          - rewrite (get_shape h h2 c (proj1 R02)), G. reflexivity.
          - rewrite (proj2 R02 p), (proj2 R02 c), Habs, Hsk, <- app_assoc. reflexivity. }
        exists (Some v), (set h2 c (View (g ++ [v]) p (S gpos) false)).
        split; [reflexivity|]. split; [eapply Rh_trans; eauto|]. split.
        -- rewrite Hsk, nth_error_app2, Nat.sub_diag by lia. reflexivity.
        -- unfold gen_of. rewrite get_set_same; [reflexivity|].
           rewrite (shapes_length _ _ (proj1 R02)). exact L.
      * (* g is finished *)
        assert (skipn gpos (abs h p) = []) as Hsk by (apply skipn_all2; unfold zlen in Eg; lia).
        assert (Rh h h1) as R01 by (split; assumption).
        assert (Rh h1 (set h1 c (View g p gpos true))) as R12.
        { apply set_view_R; [exact Hp| |].
          - rewrite (get_shape h h1 c S1), G. reflexivity.
          - rewrite (A1 c), Habs, Hsk. reflexivity. }
        exists None, (set h1 c (View g p gpos true)).
        split; [reflexivity|]. split; [eapply Rh_trans; eauto|]. split.
        -- rewrite Hsk. symmetry. apply nth_error_None. rewrite app_nil_r. lia.
        -- unfold gen_of. rewrite get_set_same; [simpl; rewrite app_nil_r; reflexivity|].
           rewrite (shapes_length _ _ S1). exact L.
Qed.

(* ---- one observation -------------------------------------------------------------------- *)
Lemma resolve_lt h t : h <> [] -> (resolve h t < length h)%nat.
Proof.
  intro H. unfold resolve. destruct (Nat.ltb t (length h)) eqn:E; [apply Nat.ltb_lt; exact E|].
  destruct h; [congruence|simpl; lia].
Qed.

Lemma cursor_at c : Cursor (next (S c) c) (gen_of c) (fun h => abs h c) (goodc c) Rh.
Proof. apply heap_cursor, next_ok. lia. Qed.

Lemma fuel_enough h c : (length (abs h c) < loop_fuel h)%nat.
Proof. unfold loop_fuel. pose proof (abs_le_total h c). lia. Qed.

(* what `step` guarantees about the heap it returns *)
Definition frame (h : heap) (c : nat) (h' : heap) : Prop :=
  wf h' /\ (length h <= length h')%nat /\
  (forall c', (c' < length h)%nat -> abs h' c' = abs h c') /\
  (forall c', (length h <= c' < length h')%nat -> abs h' c' = abs h c).

Lemma frame_R h c h' : wf h -> Rh h h' -> frame h c h'.
Proof.
  intros W [S A]. pose proof (shapes_length _ _ S) as HL. split; [eapply wf_shapes; eauto|].
  split; [lia|]. split; [intros; apply A|]. intros c' H. lia.
Qed.

Ltac finish W L :=
  let h' := fresh "h'" in let E := fresh "E" in let R := fresh "R" in
  destruct L as (h' & E & R); rewrite E; cbn [ret fst snd];
  split; [reflexivity|apply frame_R; [exact W|first [exact R|exact (proj1 R)]]].

Opaque next.
Lemma step_ok h o : wf h -> h <> [] -> op_ok o = true ->
  let c := resolve h (target o) in
  mask (what o) (fst (step h o)) = spec (what o) (abs h c) /\ frame h c (snd (step h o)).
Proof.
  intros W Hne Hok c. pose proof (resolve_lt h (target o) Hne) as Hc. fold c in Hc.
  pose proof (cursor_at c) as Cc. assert (goodc c h) as G by (split; assumption).
  pose proof (fuel_enough h c) as Hf.
  unfold step. fold c. unfold op_ok in Hok.
  destruct (what o) as [i|a b s| | | |x|l|l|x| | | |i| ] eqn:Ew; unfold mask, spec.
  - (* index *)
    destruct (i <? 0) eqn:Ei.
    + finish W (index_neg_ok _ _ _ _ _ _ Cc _ i h G Hf).
    + finish W (index_nonneg_ok _ _ _ _ _ _ Cc i h G ltac:(lia)).
  - (* slice *)
    assert (s <> Some 0) as Hs by (intro E; subst s; simpl in Hok; discriminate).
    finish W (getitem_slice_ok _ _ _ _ _ _ Cc _ a b s h G Hf Hs).
  - finish W (len_ok _ _ _ _ _ _ Cc _ h G Hf).
  - finish W (iterate_ok _ _ _ _ _ _ Cc _ h G Hf).
  - finish W (truth_ok _ _ _ _ _ _ Cc h G).
  - finish W (contains_ok _ _ _ _ _ _ Cc _ x h G Hf).
  - finish W (eq_list_ok _ _ _ _ _ _ Cc _ l h G Hf).
  - (* == LazyList(l): the other list lives in a heap of its own *)
    assert (goodc 0 [Root [] l]) as G0 by (split; simpl; [tauto|lia]).
    destruct (listify_ok _ _ _ _ _ _ (cursor_at 0) (S (length l)) [Root [] l] G0) as (h0 & E0 & _).
    { simpl. lia. }
    rewrite E0. simpl abs. finish W (eq_list_ok _ _ _ _ _ _ Cc _ l h G Hf).
  - finish W (count_ok _ _ _ _ _ _ Cc _ x h G Hf).
  - finish W (reversed_ok _ _ _ _ _ _ Cc _ h G Hf).
  - (* deep_copy *)
    simpl. split; [reflexivity|]. unfold deep_copy. split; [simpl; split; [exact Hc|exact W]|].
    split; [simpl; lia|]. split.
    + intros c' H. simpl. destruct (Nat.eqb c' (length h)) eqn:E; [apply Nat.eqb_eq in E; lia|reflexivity].
    + intros c' H. simpl in H. simpl. assert (c' = length h) as -> by lia.
      rewrite Nat.eqb_refl. reflexivity.
  - finish W (listify_ok _ _ _ _ _ _ Cc _ h G Hf).
  - finish W (has_ind_ok _ _ _ _ _ _ Cc i h G).
  - (* next *)
    destruct (next_ok (S c) c ltac:(lia) h G) as (r & h' & E & R & _). rewrite E.
    destruct r; simpl; (split; [reflexivity|apply frame_R; assumption]).
Qed.

(* the value of next(L): the first item not yet in the cache *)
Lemma next_value h o : wf h -> h <> [] -> what o = KNext ->
  let c := resolve h (target o) in
  fst (step h o) = match nth_error (abs h c) (length (gen_of c h)) with Some v => OZ v | None => OStop end.
Proof.
  intros W Hne Ew c. pose proof (resolve_lt h (target o) Hne) as Hc. fold c in Hc.
  assert (goodc c h) as G by (split; assumption).
  unfold step. fold c. rewrite Ew.
  destruct (next_ok (S c) c ltac:(lia) h G) as (r & h' & E & _ & Hr & _). rewrite E, <- Hr.
  destruct r; reflexivity.
Qed.

Transparent next.

(* ---- histories ----------------------------------------------------------------------------- *)
Definition denotes (src : list Z) (h : heap) : Prop :=
  wf h /\ h <> [] /\ forall c, (c < length h)%nat -> abs h c = src.

Lemma step_denotes src h o : denotes src h -> op_ok o = true ->
  mask (what o) (fst (step h o)) = spec (what o) src /\ denotes src (snd (step h o)).
Proof.
  intros (W & Hne & D) Hok. destruct (step_ok h o W Hne Hok) as (Hout & W' & HL & Hold & Hnew).
  pose proof (resolve_lt h (target o) Hne) as Hc. rewrite (D _ Hc) in *.
  split; [exact Hout|]. split; [exact W'|]. split.
  - intro E. rewrite E in HL. destruct h; [congruence|simpl in HL; lia].
  - intros c Hlt. destruct (Nat.lt_ge_cases c (length h)) as [H|H].
    + rewrite Hold by exact H. apply D. exact H.
    + apply Hnew. lia.
Qed.

Lemma run_ok src : forall ops h, denotes src h -> Forall (fun o => op_ok o = true) ops ->
  masked ops (fst (run h ops)) = map (fun o => spec (what o) src) ops /\ denotes src (snd (run h ops)).
Proof.
  induction ops as [|o ops IH]; intros h D F; simpl; [split; [reflexivity|exact D]|].
  inversion F as [|? ? Ho Fr]; subst.
  destruct (step_denotes src h o D Ho) as (Hout & D').
  destruct (step h o) as [x h1] eqn:Es. simpl in Hout, D'.
  destruct (IH h1 D' Fr) as (Houts & D'').
  destruct (run h1 ops) as [xs h2] eqn:Er. simpl in *. split; [|exact D''].
  rewrite Hout, Houts. reflexivity.
Qed.

Lemma init_denotes src : denotes src (init src).
Proof.
  unfold init. split; [simpl; tauto|]. split; [discriminate|].
  intros c H. simpl in *. assert (c = O) as -> by lia. reflexivity.
Qed.

Lemma all_histories src ops : Forall (fun o => op_ok o = true) ops ->
  masked ops (fst (run (init src) ops)) = map (fun o => spec (what o) src) ops.
Proof. intro F. apply (run_ok src ops (init src) (init_denotes src) F). Qed.

Lemma denotation_kept src ops : Forall (fun o => op_ok o = true) ops ->
  forall c, (c < length (snd (run (init src) ops)))%nat -> abs (snd (run (init src) ops)) c = src.
Proof. intro F. apply (run_ok src ops (init src) (init_denotes src) F). Qed.

(* ---- non-vacuity: a history with copies, slices counted from the end, next ------------- *)
Definition ex_src : list Z := [2; 0; 1].
Definition ex_ops : list op :=
  [ {| target := 0; what := KIndex 1 |}; {| target := 0; what := KCopy |};
    {| target := 0; what := KNext |}; {| target := 1; what := KSlice (Some (-2)) None None |};
    {| target := 1; what := KCopy |}; {| target := 2; what := KIndex 4 |};
    {| target := 0; what := KSlice (Some 0) (Some 5) (Some 2) |}; {| target := 2; what := KReversed |};
    {| target := 1; what := KBool |}; {| target := 0; what := KLen |}; {| target := 2; what := KIndex (-4) |} ].

Lemma example_history :
  Forall (fun o => op_ok o = true) ex_ops /\
  fst (run (init ex_src) ex_ops) =
    [OZ 0; OUnit; OZ 1; OL [0; 1]; OUnit; OZ 0; OL [2; 1]; OL [1; 0; 2]; OB true; OZ 3; OIndexError] /\
  map (fun o => spec (what o) ex_src) ex_ops =
    [OZ 0; OUnit; OUnit; OL [0; 1]; OUnit; OZ 0; OL [2; 1]; OL [1; 0; 2]; OB true; OZ 3; OIndexError].
Proof. split; [repeat constructor|]. split; vm_compute; reflexivity. Qed.

(* a step of 0 is outside: the plain list raises ValueError, LazyList reads `step or 1` *)
Lemma step_zero_differs :
  fst (step (init [5]) {| target := 0; what := KSlice None None (Some 0) |}) = OL [5] /\
  spec (KSlice None None (Some 0)) [5] = OValueError.
Proof. split; vm_compute; reflexivity. Qed.
