(* C16 laws on the element semantics of the C01 core (Model/Values.v): the models of Ṙ m ∞ z „ ‟ U that the
   C01 evaluators execute obey the defining laws that Properties/C16.v states for Model/ListOps.v.  Statements
   are about `value`s of every kind (nested lists, strings, function values as items). *)
From Coq Require Import List ZArith NArith Bool Lia.
From Vy Require Import Model.Base Model.Values.
Import ListNotations.

(* reverse is an involution on lists and strings *)
Lemma reverse_list_involutive l : exists r, reverse_v (VList l) = Some r /\ reverse_v r = Some (VList l).
Proof. eexists; split; [reflexivity|]. simpl. rewrite rev_involutive. reflexivity. Qed.

Lemma reverse_str_involutive t : exists r, reverse_v (VStr t) = Some r /\ reverse_v r = Some (VStr t).
Proof. eexists; split; [reflexivity|]. simpl. rewrite rev_involutive. reflexivity. Qed.

(* the two whole-stack rotations are inverse to each other *)
Definition rot_up (l : list value) : option (list value) :=
  match l with [] => None | _ => Some (last l (VInt 0) :: removelast l) end.
Definition rot_down (l : list value) : option (list value) :=
  match l with [] => None | x :: r => Some (r ++ [x]) end.

Lemma rot_down_up l : l <> [] -> exists m, rot_down l = Some m /\ rot_up m = Some l.
Proof.
  destruct l as [|x r]; [congruence|]. intros _. eexists; split; [reflexivity|].
  unfold rot_up. destruct (r ++ [x]) eqn:E; [destruct r; discriminate|]. rewrite <- E.
  rewrite last_last, removelast_last. reflexivity.
Qed.

Lemma rot_up_down l : l <> [] -> exists m, rot_up l = Some m /\ rot_down m = Some l.
Proof.
  intro H. unfold rot_up. destruct l as [|x r] eqn:E; [congruence|]. rewrite <- E in *.
  eexists; split; [reflexivity|]. simpl. f_equal. symmetry. apply app_removelast_last. exact H.
Qed.

(* the stack programs of the core elements „ and ‟ are these rotations *)
Lemma rotations_are_the_elements s :
  elem_more 8222%N s = stack_op rot_up s /\ elem_more 8223%N s = stack_op rot_down s.
Proof. split; reflexivity. Qed.

(* mirror and palindromise produce palindromes; zip with itself pairs every item with itself *)
Lemma mirror_palindrome (l : list value) : rev (l ++ rev l) = l ++ rev l.
Proof. rewrite rev_app_distr, rev_involutive. reflexivity. Qed.

Lemma palindromise_palindrome (l : list value) : rev (l ++ rev (removelast l)) = l ++ rev (removelast l).
Proof.
  destruct l as [|x r] using rev_ind; [reflexivity|].
  rewrite removelast_last, rev_app_distr, rev_involutive, rev_app_distr. simpl.
  rewrite <- app_assoc. reflexivity.
Qed.

Lemma zip0_self l : zip0 l l = map (fun x => VList [x; x]) l.
Proof. induction l as [|x r IH]; simpl; [reflexivity|]. rewrite IH. reflexivity. Qed.

Lemma zip0_length la lb : length (zip0 la lb) = Nat.max (length la) (length lb).
Proof.
  revert lb. induction la as [|x ra IH]; intro lb; simpl; [rewrite map_length; reflexivity|].
  destruct lb as [|y rb]; simpl; rewrite IH; simpl; lia.
Qed.

(* uniquify keeps the first occurrence of every item, in order: nothing it returns was seen before, and what it
   drops was *)
Lemma nodup_by_sublist eqb : forall l seen x, In x (nodup_by eqb seen l) -> In x l.
Proof.
  induction l as [|y r IH]; intros seen x H; simpl in *; [exact H|].
  destruct (existsb (eqb y) seen); [right; eapply IH; exact H|].
  destruct H as [->|H]; [left; reflexivity|right; eapply IH; exact H].
Qed.

Lemma nodup_by_fresh eqb : forall l seen x, In x (nodup_by eqb seen l) -> existsb (eqb x) seen = false.
Proof.
  induction l as [|y r IH]; intros seen x H; simpl in *; [contradiction|].
  destruct (existsb (eqb y) seen) eqn:E; [eapply IH; exact H|].
  destruct H as [->|H]; [exact E|].
  specialize (IH (seen ++ [y]) x H). rewrite existsb_app in IH. apply orb_false_iff in IH. tauto.
Qed.

Definition stk_after (f : state -> xres state) (l : list value) : option (list value) :=
  match f (mkSt l [] ([], 0%nat) [] [] 0%nat (VInt 0) [] [] [] None [] false) with XOk s => Some (stk s) | _ => None end.

Example rotate_example :
  stk_after (elem_more 8222%N) [VInt 3; VInt 2; VInt 1] = Some [VInt 1; VInt 3; VInt 2]
  /\ stk_after (elem_more 8223%N) [VInt 1; VInt 3; VInt 2] = Some [VInt 3; VInt 2; VInt 1].
Proof. split; reflexivity. Qed.
