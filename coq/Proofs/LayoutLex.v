(* Layout, part 3: the character scanner of Model/Layout.v on structured texts.
   `ltext t ls` describes a text as a sequence of chunks  <spaces> <logical line> "\n"  (or
   blank lines) and gives its logical lines; the scanner computes exactly them
   (`ltext_lines`).  The description is closed under concatenation and under
   helpers.indent_str (`ltext_indent`: every line moves by 4n columns, also when the logical
   line spans several physical lines because a string literal contains backslash-newline:
   the spaces that indent_str inserts stay inside the literal). *)
From Coq Require Import List NArith ZArith Bool Lia Arith String Ascii.
From Vy Require Import Model.Base Model.Lexer Model.Parser Model.Transpile Model.Provenance Model.PyTree Model.Layout
  Proofs.C18Base Proofs.LayoutBlocks.
Import ListNotations.
Open Scope N_scope.

Ltac norm_app := repeat (rewrite <- app_assoc || rewrite <- app_comm_cons); reflexivity.

(* ---- a piece of one logical line -------------------------------------------------------------- *)
(* None: the logical line would end inside the piece *)
Fixpoint scan_body (l : lstate) (s : str) : option lstate :=
  match s with
  | [] => Some l
  | c :: r => if (c =? 10) && negb (is_esc (l_mode l)) then None else scan_body (step_line l c) r
  end.

Lemma scan_body_app a : forall l b,
  scan_body l (a ++ b) = match scan_body l a with Some l' => scan_body l' b | None => None end.
Proof.
  induction a as [|c a IH]; intros l b; [reflexivity|]. cbn [app scan_body].
  destruct ((c =? 10) && negb (is_esc (l_mode l))); [reflexivity|apply IH].
Qed.

Lemma scan_PLine n body : forall l l' t,
  scan_body l body = Some l' -> scan (PLine n l) (body ++ t) = scan (PLine n l') t.
Proof.
  induction body as [|c body IH]; intros l l' t H; cbn [scan_body] in H.
  - inversion H. reflexivity.
  - cbn [app scan]. destruct ((c =? 10) && negb (is_esc (l_mode l))); [discriminate|]. apply IH. exact H.
Qed.

Lemma scan_nl n l t : is_esc (l_mode l) = false ->
  scan (PLine n l) (nl :: t) = (n, finish l) :: scan (PStart 0 false) t.
Proof. intro H. unfold nl. cbn [scan]. rewrite H. reflexivity. Qed.

Lemma all_spaces_cons c sp : all_spaces (c :: sp) = true -> c = 32 /\ all_spaces sp = true.
Proof.
  unfold all_spaces. cbn [forallb]. intro H. apply andb_prop in H as [H1 H2].
  apply N.eqb_eq in H1. split; [symmetry; exact H1|exact H2].
Qed.

Lemma scan_spaces sp : all_spaces sp = true -> forall m tab t,
  scan (PStart m tab) (sp ++ t) = scan (PStart (List.length sp + m) tab) t.
Proof.
  induction sp as [|c sp IH]; intros H m tab t; [reflexivity|].
  apply all_spaces_cons in H as [-> H]. cbn [app scan List.length].
  change (32 =? 32) with true. cbv iota. rewrite IH by exact H. f_equal. f_equal. lia.
Qed.

Lemma is_ws_false c : is_ws c = false ->
  (c =? 32) = false /\ (c =? 9) = false /\ (c =? 10) = false /\ (c =? 12) = false.
Proof.
  unfold is_ws. cbn [mem]. intro H. repeat (apply orb_false_iff in H as [? H]). auto.
Qed.

Lemma scan_start n c r : is_ws c = false ->
  scan (PStart n false) (c :: r) = scan (PLine n (step_line (init_line false) c)) r.
Proof.
  intro H. destruct (is_ws_false c H) as [H1 [H2 [H3 H4]]]. cbn [scan]. rewrite H1, H2, H3, H4. reflexivity.
Qed.

(* ---- a whole logical line -------------------------------------------------------------------------- *)
Definition gline (body : str) (cls : lclass) : Prop :=
  exists c r l', body = c :: r /\ is_ws c = false /\
    scan_body (init_line false) body = Some l' /\ is_esc (l_mode l') = false /\ finish l' = cls.

Definition glineb (body : str) : option lclass :=
  match body with
  | c :: _ =>
      if is_ws c then None
      else match scan_body (init_line false) body with
           | Some l' => if is_esc (l_mode l') then None else Some (finish l')
           | None => None
           end
  | [] => None
  end.

Lemma glineb_gline body cls : glineb body = Some cls -> gline body cls.
Proof.
  unfold glineb, gline. destruct body as [|c r]; [discriminate|].
  destruct (is_ws c) eqn:E; [discriminate|].
  destruct (scan_body (init_line false) (c :: r)) as [l'|]; [|discriminate].
  destruct (is_esc (l_mode l')) eqn:E2; [discriminate|]. intro H. inversion H.
  exists c, r, l'. auto.
Qed.

Lemma scan_gline n body cls t : gline body cls ->
  scan (PStart n false) (body ++ nl :: t) = (n, cls) :: scan (PStart 0 false) t.
Proof.
  intros [c [r [l' [-> [Hc [Hs [He <-]]]]]]].
  cbn [app]. rewrite scan_start by exact Hc.
  cbn [scan_body] in Hs. destruct (is_ws_false c Hc) as [_ [_ [H10 _]]]. rewrite H10 in Hs. cbn [andb] in Hs.
  rewrite (scan_PLine n r _ l' _ Hs). apply scan_nl. exact He.
Qed.

(* ---- structured texts --------------------------------------------------------------------------------- *)
Inductive ltext : str -> list line -> Prop :=
| lt_nil : ltext [] []
| lt_blank sp rest ls : all_spaces sp = true -> ltext rest ls -> ltext (sp ++ nl :: rest) ls
| lt_chunk sp body rest cls ls :
    all_spaces sp = true -> gline body cls -> ltext rest ls ->
    ltext (sp ++ body ++ nl :: rest) ((List.length sp, cls) :: ls).

Lemma ltext_scan t ls : ltext t ls -> scan (PStart 0 false) t = ls.
Proof.
  induction 1 as [|sp rest ls Hsp _ IH|sp body rest cls ls Hsp Hg _ IH].
  - reflexivity.
  - rewrite scan_spaces by exact Hsp. unfold nl. cbn [scan]. exact IH.
  - rewrite scan_spaces by exact Hsp. rewrite (scan_gline _ body cls _ Hg). rewrite Nat.add_0_r, IH. reflexivity.
Qed.

Theorem ltext_lines t ls : ltext t ls -> lines_of t = ls.
Proof. exact (ltext_scan t ls). Qed.

Lemma ltext_app a la b lb : ltext a la -> ltext b lb -> ltext (a ++ b) (la ++ lb).
Proof.
  intros Ha Hb. induction Ha as [|sp rest ls Hsp _ IH|sp body rest cls ls Hsp Hg _ IH].
  - exact Hb.
  - replace ((sp ++ nl :: rest) ++ b) with (sp ++ nl :: (rest ++ b)) by (rewrite <- app_assoc; reflexivity).
    constructor; assumption.
  - replace ((sp ++ body ++ nl :: rest) ++ b) with (sp ++ body ++ nl :: (rest ++ b))
      by (rewrite <- !app_assoc; reflexivity).
    cbn [app]. constructor; assumption.
Qed.

Lemma ltext_nl : ltext [nl] [].
Proof. apply (lt_blank [] [] []); [reflexivity|constructor]. Qed.

Lemma ltext_ends t ls : ltext t ls -> t = [] \/ exists t', t = t' ++ [nl].
Proof.
  induction 1 as [|sp rest ls Hsp _ IH|sp body rest cls ls Hsp Hg _ IH].
  - left. reflexivity.
  - right. destruct IH as [->|[t' ->]].
    + exists sp. reflexivity.
    + exists (sp ++ nl :: t'). rewrite <- app_assoc. reflexivity.
  - right. destruct IH as [->|[t' ->]].
    + exists (sp ++ body). rewrite <- app_assoc. reflexivity.
    + exists (sp ++ body ++ nl :: t'). rewrite <- !app_assoc. reflexivity.
Qed.

Lemma ltext_nil_inv ls : ltext [] ls -> ls = [].
Proof.
  intro H. inversion H as [|sp rest ls' Hsp Hr E|sp body rest cls ls' Hsp Hg Hr E]; [reflexivity| |].
  - destruct sp; discriminate.
  - destruct sp; [destruct body|]; discriminate.
Qed.

(* ---- spaces inserted after the newlines inside a logical line ---------------------------------------- *)
Inductive Ins : str -> str -> Prop :=
| Ins_nil : Ins [] []
| Ins_cons c a b : c <> nl -> Ins a b -> Ins (c :: a) (c :: b)
| Ins_nl sp a b : all_spaces sp = true -> Ins a b -> Ins (nl :: a) (nl :: sp ++ b).

Lemma Ins_refl a : Ins a a.
Proof.
  induction a as [|c a IH]; [constructor|].
  destruct (N.eq_dec c nl) as [->|Hn]; [apply (Ins_nl [] a a eq_refl IH)|constructor; assumption].
Qed.

Lemma Ins_app_nonl a x y : Ins x y -> Ins (a ++ x) (a ++ y).
Proof.
  intro H. induction a as [|c a IH]; [exact H|]. cbn [app].
  destruct (N.eq_dec c nl) as [->|Hn]; [apply (Ins_nl [] _ _ eq_refl IH)|constructor; assumption].
Qed.

Lemma step_space_str dq l : l_mode l = MStr dq -> step_line l 32 = l.
Proof.
  intro H. unfold step_line. rewrite H. change (32 =? 13) with false. cbv iota.
  change (32 =? 92) with false. cbv iota. destruct dq; reflexivity.
Qed.

Lemma scan_body_spaces_str dq sp : all_spaces sp = true -> forall l b, l_mode l = MStr dq ->
  scan_body l (sp ++ b) = scan_body l b.
Proof.
  induction sp as [|c sp IH]; intros H l b Hm; [reflexivity|].
  apply all_spaces_cons in H as [-> H]. cbn [app scan_body].
  change (32 =? 10) with false. cbn [andb]. rewrite (step_space_str dq l Hm). apply IH; assumption.
Qed.

Lemma scan_body_Ins a b : Ins a b -> forall l, scan_body l a = scan_body l b.
Proof.
  induction 1 as [|c a b Hc _ IH|sp a b Hsp _ IH]; intro l.
  - reflexivity.
  - cbn [scan_body]. destruct ((c =? 10) && negb (is_esc (l_mode l))); [reflexivity|apply IH].
  - cbn [scan_body]. unfold nl. change (10 =? 10) with true. cbn [andb].
    destruct (l_mode l) as [|dq|dq] eqn:Em; cbn [is_esc negb]; try reflexivity.
    assert (Es : step_line l 10 = set_mode (MStr dq) l).
    { unfold step_line. rewrite Em. reflexivity. }
    rewrite Es. rewrite (scan_body_spaces_str dq sp Hsp) by reflexivity. apply IH.
Qed.

(* ---- helpers.indent_str on a logical line ---------------------------------------------------------------- *)
Lemma ind_line_eq n a : ind_line n a = (if ws_only a then [] else spaces n) ++ a ++ [nl].
Proof. unfold ind_line. destruct (ws_only a); [reflexivity|rewrite <- app_assoc; reflexivity]. Qed.

Lemma all_spaces_ws sp : all_spaces sp = true -> ws_only sp = true.
Proof.
  induction sp as [|c sp IH]; intro H; [reflexivity|]. apply all_spaces_cons in H as [-> H].
  unfold ws_only. cbn [forallb]. change (is_ws 32) with true. apply IH. exact H.
Qed.

Lemma ws_only_app_false sp c r : is_ws c = false -> ws_only (sp ++ c :: r) = false.
Proof. intro H. unfold ws_only. rewrite forallb_app. cbn [forallb]. rewrite H. apply andb_false_r. Qed.

Lemma indent_tail n : forall k x, (List.length x <= k)%nat ->
  exists sp0 x', all_spaces sp0 = true /\ Ins x x' /\ flat_map (ind_line n) (lines x) = sp0 ++ x' ++ [nl].
Proof.
  induction k as [|k IH]; intros x Hlen.
  - destruct x; [|simpl in Hlen; lia]. exists [], []. split; [reflexivity|]. split; [constructor|reflexivity].
  - destruct (first_nl x) as [Hn|[a [r [-> Ha]]]].
    + rewrite lines_nonl by exact Hn. cbn [flat_map]. rewrite app_nil_r, ind_line_eq.
      exists (if ws_only x then [] else spaces n), x. split; [destruct (ws_only x); [reflexivity|apply all_spaces_spaces]|].
      split; [apply Ins_refl|reflexivity].
    + assert (Hl : (List.length r <= k)%nat) by (rewrite app_length in Hlen; simpl in Hlen; lia).
      destruct (IH r Hl) as [sp0 [r' [Hsp0 [Hi E]]]].
      rewrite lines_app_nl, flat_map_app, E, lines_nonl by exact Ha. cbn [flat_map]. rewrite app_nil_r, ind_line_eq.
      exists (if ws_only a then [] else spaces n), (a ++ nl :: sp0 ++ r').
      split; [destruct (ws_only a); [reflexivity|apply all_spaces_spaces]|].
      split; [apply Ins_app_nonl; constructor; assumption|].
      norm_app.
Qed.

Lemma is_ws_nl : is_ws nl = true.
Proof. reflexivity. Qed.

Lemma indent_line n sp c r : all_spaces sp = true -> is_ws c = false ->
  exists b', Ins (c :: r) b' /\ flat_map (ind_line n) (lines (sp ++ c :: r)) = spaces n ++ sp ++ b' ++ [nl].
Proof.
  intros Hsp Hc. destruct (first_nl (c :: r)) as [Hn|[a [r2 [E Ha]]]].
  - rewrite lines_nonl by (rewrite mem_app, (all_spaces_nonl sp Hsp), Hn; reflexivity).
    cbn [flat_map]. rewrite app_nil_r, ind_line_eq, ws_only_app_false by exact Hc.
    exists (c :: r). split; [apply Ins_refl|]. rewrite <- !app_assoc. reflexivity.
  - destruct a as [|c' a'].
    + cbn [app] in E. inversion E; subst. rewrite is_ws_nl in Hc. discriminate.
    + cbn [app] in E. inversion E; subst c' r.
      destruct (indent_tail n (List.length r2) r2 (le_n _)) as [sp0 [r' [Hsp0 [Hi E2]]]].
      replace (sp ++ c :: a' ++ nl :: r2) with ((sp ++ c :: a') ++ nl :: r2) by (rewrite <- app_assoc; reflexivity).
      rewrite lines_app_nl, flat_map_app, E2.
      rewrite lines_nonl by (rewrite mem_app, (all_spaces_nonl sp Hsp); exact Ha).
      cbn [flat_map]. rewrite app_nil_r, ind_line_eq, ws_only_app_false by exact Hc.
      exists ((c :: a') ++ nl :: sp0 ++ r'). split.
      * apply (Ins_app_nonl (c :: a') (nl :: r2) (nl :: sp0 ++ r')). constructor; assumption.
      * norm_app.
Qed.

Lemma gline_Ins body b' cls : gline body cls -> Ins body b' -> gline b' cls.
Proof.
  intros [c [r [l' [-> [Hc [Hs [He Hf]]]]]]] Hi.
  inversion Hi as [|c0 a b Hn Hab|sp a b Hsp Hab]; subst.
  - exists c, b, l'. repeat split; try assumption. rewrite <- (scan_body_Ins _ _ Hi). exact Hs.
  - rewrite is_ws_nl in Hc. discriminate.
Qed.

Lemma length_spaces n : List.length (spaces n) = (4 * n)%nat.
Proof. induction n as [|n IH]; [reflexivity|]. cbn [spaces List.length]. rewrite IH. lia. Qed.

Lemma app_nl_inj (a b : str) : a ++ [nl] = b ++ [nl] -> a = b.
Proof. intro H. apply app_inj_tail in H. tauto. Qed.

(* indent_str moves every logical line of a structured text by 4n columns *)
Lemma ltext_indent_gen n u ls : ltext u ls -> forall t, u = t ++ [nl] ->
  ltext (indent_str t n) (shift (4 * n) ls).
Proof.
  induction 1 as [|sp rest ls Hsp Hrest IH|sp body rest cls ls Hsp Hg Hrest IH]; intros t E.
  - destruct t; discriminate.
  - destruct (ltext_ends _ _ Hrest) as [->|[rest' ->]].
    + apply ltext_nil_inv in Hrest. subst ls.
      change (sp ++ [nl]) with (sp ++ [nl]) in E. apply app_nl_inj in E. subst t.
      rewrite indent_str_eq, lines_nonl by (apply all_spaces_nonl; exact Hsp).
      cbn [flat_map]. rewrite app_nil_r, ind_line_eq, (all_spaces_ws sp Hsp). cbn [app shift map].
      apply (lt_blank sp [] []); [exact Hsp|constructor].
    + replace (sp ++ nl :: rest' ++ [nl]) with ((sp ++ nl :: rest') ++ [nl]) in E by (rewrite <- app_assoc; reflexivity).
      apply app_nl_inj in E. subst t.
      rewrite indent_str_chunk, lines_nonl by (apply all_spaces_nonl; exact Hsp).
      cbn [flat_map]. rewrite app_nil_r, ind_line_eq, (all_spaces_ws sp Hsp). cbn [app].
      rewrite <- app_assoc. cbn [app]. apply lt_blank; [exact Hsp|]. apply IH. reflexivity.
  - destruct Hg as [c [r [l' [Eb Hrest']]]]. subst body.
    assert (Hg : gline (c :: r) cls) by (exists c, r, l'; tauto).
    destruct Hrest' as [Hc _].
    destruct (indent_line n sp c r Hsp Hc) as [b' [Hi Eind]].
    pose proof (gline_Ins _ _ _ Hg Hi) as Hg'.
    assert (Hsp' : all_spaces (spaces n ++ sp) = true) by (apply forallb_app_true; [apply all_spaces_spaces|exact Hsp]).
    assert (Hlen : List.length (spaces n ++ sp) = (4 * n + List.length sp)%nat) by (rewrite app_length, length_spaces; reflexivity).
    destruct (ltext_ends _ _ Hrest) as [->|[rest' ->]].
    + apply ltext_nil_inv in Hrest. subst ls.
      replace (sp ++ (c :: r) ++ [nl]) with ((sp ++ c :: r) ++ [nl]) in E by (rewrite <- app_assoc; reflexivity).
      apply app_nl_inj in E. subst t.
      rewrite indent_str_eq, Eind. cbn [shift map fst snd]. rewrite <- Hlen.
      replace (spaces n ++ sp ++ b' ++ [nl]) with ((spaces n ++ sp) ++ b' ++ nl :: []) by (rewrite <- app_assoc; reflexivity).
      constructor; [exact Hsp'|exact Hg'|constructor].
    + replace (sp ++ (c :: r) ++ nl :: rest' ++ [nl]) with (((sp ++ c :: r) ++ nl :: rest') ++ [nl]) in E
        by (rewrite <- !app_assoc; reflexivity).
      apply app_nl_inj in E. subst t.
      rewrite indent_str_chunk, Eind. cbn [shift map fst snd]. rewrite <- Hlen.
      replace ((spaces n ++ sp ++ b' ++ [nl]) ++ indent_str rest' n)
        with ((spaces n ++ sp) ++ b' ++ nl :: indent_str rest' n) by (rewrite <- !app_assoc; reflexivity).
      constructor; [exact Hsp'|exact Hg'|]. apply IH. reflexivity.
Qed.

(* one line: <spaces> <logical line>, as the transpiler passes it to indent_str *)
Theorem ltext_line n sp body cls : all_spaces sp = true -> gline body cls ->
  ltext (indent_str (sp ++ body) n) [((4 * n + List.length sp)%nat, cls)].
Proof.
  intros Hsp Hg.
  apply (ltext_indent_gen n ((sp ++ body) ++ [nl]) [(List.length sp, cls)]); [|reflexivity].
  rewrite <- app_assoc. apply (lt_chunk sp body [] cls []); [exact Hsp|exact Hg|constructor].
Qed.

Theorem ltext_line0 n body cls : gline body cls -> ltext (indent_str body n) [((4 * n)%nat, cls)].
Proof.
  intro Hg. pose proof (ltext_line n [] body cls eq_refl Hg) as H. cbn [app List.length] in H.
  rewrite Nat.add_0_r in H. exact H.
Qed.

(* a whole block that is itself structured (ends with a newline) *)
Theorem ltext_indent n b ls : ltext b ls -> ltext (indent_str b n) (shift (4 * n) ls).
Proof.
  intro H. apply (ltext_indent_gen n (b ++ [nl]) ls); [|reflexivity].
  rewrite <- (app_nil_r ls). apply ltext_app; [exact H|exact ltext_nl].
Qed.

(* a text given by its physical lines without a final newline (the template texts) *)
Theorem ltext_indent_open n t ls : ltext (t ++ [nl]) ls -> ltext (indent_str t n) (shift (4 * n) ls).
Proof. intro H. apply (ltext_indent_gen n (t ++ [nl]) ls H). reflexivity. Qed.
