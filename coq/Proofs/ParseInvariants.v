(* The parent annotations that `parse` writes into break / recurse statements are
   consistent with where those statements stand: every tree `parse` returns satisfies the
   side conditions of C02 (`ctx_ok`) and C12 (`exit_ok`), except for early exits in a while
   condition (the one recorded defect class).  This turns the tree-level theorems of C02 and
   C12 into statements about every program text. *)
From Coq Require Import List NArith ZArith Bool Lia.
From Vy Require Import Model.Base Model.Lexer Model.Parser Model.Transpile Model.PyTree Model.PyShape Model.Books
  Proofs.ParserFacts Proofs.C04Proofs.
Import ListNotations.

(* no early exit stands in a while condition (checked on the parsed tree, decidable) *)
Fixpoint wconds (s : struct) : bool :=
  match s with
  | SGeneric _ | SBreak _ | SRecurse _ | SFnCall _ => true
  | SIf bs => forallb (forallb wconds) bs
  | SFor _ b | SFnDef _ _ b | SLambda _ b | SLamOp _ b => forallb wconds b
  | SWhile c b => forallb (exit_ok false false) c && forallb wconds c && forallb wconds b
  | SList its => forallb (forallb wconds) its
  | SMod1 _ a => wconds a
  | SMod2 _ a b => wconds a && wconds b
  | SMod3 _ a b c => wconds a && wconds b && wconds c
  end.

(* the flags under which a list parsed with parent p may be used *)
Definition compat (p : option pkind) (il lam : bool) : Prop :=
  match p with
  | Some PFor | Some PWhile => il = true
  | Some PLambda => lam = true
  | _ => True
  end.

Lemma classify_emit t s : classify t = AEmit s ->
  (forall p, s p = SGeneric t) \/ s = SBreak \/ s = SRecurse.
Proof.
  unfold classify. intro H.
  repeat match type of H with
  | (match ?x with _ => _ end) = _ => destruct x
  | (if ?b then _ else _) = _ => destruct b
  end; try discriminate; inversion H; auto.
Qed.

Lemma exit_ok_emit t s p il lam : classify t = AEmit s -> compat p il lam -> exit_ok il lam (s p) = true.
Proof.
  intros H C. destruct (classify_emit t s H) as [E | [-> | ->]].
  - rewrite E. reflexivity.
  - cbn. destruct p as [[]|]; cbn in C; try reflexivity; exact C.
  - cbn. destruct p as [[]|]; cbn in C; try reflexivity; exact C.
Qed.

Lemma map_res_Ok {A B} (f : A -> res B) l ys : map_res f l = Ok ys -> Forall2 (fun x y => f x = Ok y) l ys.
Proof.
  revert ys; induction l as [|x l IH]; intros ys H; cbn in H.
  - inversion H; constructor.
  - apply bind_Ok in H as [y [Hy H]]. apply bind_Ok in H as [ys' [Hys H]]. inversion H; subst.
    constructor; [exact Hy|apply IH; exact Hys].
Qed.

Definition inv (rec : option pkind -> list token -> res (list struct)) : Prop :=
  forall p ts l il lam, rec p ts = Ok l -> compat p il lam -> forallb wconds l = true ->
                        forallb (exit_ok il lam) l = true.

Lemma forall2_exit rec p il lam bs ys :
  inv rec -> compat p il lam -> Forall2 (fun x y => rec p x = Ok y) bs ys ->
  forallb (forallb wconds) ys = true -> forallb (fun l => forallb (exit_ok il lam) l) ys = true.
Proof.
  intros Hrec C. induction 1 as [|x y bs ys Hxy _ IH]; cbn; intro W; [reflexivity|].
  apply andb_prop in W as [W1 W2]. rewrite (Hrec p x y il lam Hxy C W1), (IH W2). reflexivity.
Qed.

Lemma build_exit_ok rec parent cls branches s il lam :
  inv rec -> compat parent il lam ->
  build rec parent cls branches = Ok s -> wconds s = true -> exit_ok il lam s = true.
Proof.
  intros Hrec C. unfold build.
  destruct cls.
  - (* PIf *) intros H W. apply bind_Ok in H as [bs [H1 H2]]. inversion H2; subst; clear H2.
    cbn [exit_ok wconds] in *. apply map_res_Ok in H1.
    eapply (forall2_exit rec (Some (por parent PIf)) il lam); eauto.
    destruct parent as [[]|]; cbn in *; auto.
  - (* PFor *) intros H W. apply bind_Ok in H as [body [H1 H2]]. inversion H2; subst; clear H2.
    cbn [exit_ok wconds] in *. eapply (Hrec (Some PFor)); eauto. reflexivity.
  - (* PWhile *) intros H W. apply bind_Ok in H as [cond [H1 H2]]. apply bind_Ok in H2 as [body [H2 H3]].
    inversion H3; subst; clear H3. cbn [exit_ok wconds] in *.
    apply andb_prop in W as [W Wb]. apply andb_prop in W as [Wc0 Wc].
    rewrite Wc0. cbn [andb]. eapply (Hrec (Some PWhile)); eauto. reflexivity.
  - (* PFnCall *) destruct (process_parameters (hd [] branches)) as [name params].
    destruct (match branches with [_] => true | _ => false end).
    + destruct params; intros H W; inversion H; subst. reflexivity.
    + intros H W. apply bind_Ok in H as [body [H1 H2]]. inversion H2; subst; clear H2.
      cbn [exit_ok wconds] in *. eapply (Hrec (Some PFnCall)); eauto. exact I.
  - (* PLambda *) destruct (match branches with [_] => true | _ => false end).
    + intros H W. apply bind_Ok in H as [body [H1 H2]]. inversion H2; subst; clear H2.
      cbn [exit_ok wconds] in *. eapply (Hrec (Some PLambda)); eauto. reflexivity.
    + destruct (hd [] branches) as [|t0 ?]; [discriminate|]. destruct (py_int (tv t0)); [|discriminate].
      destruct (z <? 0)%Z; [discriminate|]. intros H W.
      apply bind_Ok in H as [body [H1 H2]]. inversion H2; subst; clear H2.
      cbn [exit_ok wconds] in *. eapply (Hrec (Some PLambda)); eauto. reflexivity.
  - intros H W. apply bind_Ok in H as [body [H1 H2]]. inversion H2; subst; clear H2.
    cbn [exit_ok wconds] in *. eapply (Hrec (Some PLamMap)); eauto. exact I.
  - intros H W. apply bind_Ok in H as [body [H1 H2]]. inversion H2; subst; clear H2.
    cbn [exit_ok wconds] in *. eapply (Hrec (Some PLamFilter)); eauto. exact I.
  - intros H W. apply bind_Ok in H as [body [H1 H2]]. inversion H2; subst; clear H2.
    cbn [exit_ok wconds] in *. eapply (Hrec (Some PLamSort)); eauto. exact I.
  - (* PList *) intros H W. apply bind_Ok in H as [bs [H1 H2]]. inversion H2; subst; clear H2.
    cbn [exit_ok wconds] in *. apply map_res_Ok in H1.
    eapply (forall2_exit rec (Some PList) false false); eauto. exact I.
  - intros H W. apply bind_Ok in H as [bs [H1 H2]]. inversion H2; subst; clear H2.
    cbn [exit_ok wconds] in *. apply map_res_Ok in H1.
    eapply (forall2_exit rec (Some PList) false false); eauto. exact I.
  - intros H W. apply bind_Ok in H as [bs [H1 H2]]. inversion H2; subst; clear H2.
    cbn [exit_ok wconds] in *. apply map_res_Ok in H1.
    eapply (forall2_exit rec (Some PList) false false); eauto. exact I.
  - intros H W. apply bind_Ok in H as [bs [H1 H2]]. inversion H2; subst; clear H2.
    cbn [exit_ok wconds] in *. apply map_res_Ok in H1.
    eapply (forall2_exit rec (Some PList) false false); eauto. exact I.
Qed.

Lemma take_operands_exit n m rem l il lam :
  (forall a b, forallb (exit_ok a b) rem = true) ->
  take_operands n m rem = Ok l -> forallb (exit_ok il lam) l = true.
Proof.
  intros H T. pose proof (H il lam) as H1. pose proof (H false true) as H2.
  remember (lambda_shorthand m) as sh eqn:Esh. unfold take_operands in T. rewrite <- Esh in T. clear Esh.
  destruct n as [|[|[|[|n]]]]; try discriminate.
  - destruct rem as [|a more]; [discriminate|]. inversion T; subst. cbn in *.
    apply andb_prop in H1 as [_ H1]. apply andb_prop in H2 as [H2 _].
    destruct sh; cbn; rewrite ?H2, ?H1; reflexivity.
  - destruct rem as [|a [|b more]]; try discriminate. inversion T; subst. cbn in *.
    apply andb_prop in H1 as [_ H1]. apply andb_prop in H1 as [_ H1].
    apply andb_prop in H2 as [H2a H2]. apply andb_prop in H2 as [H2b _].
    destruct sh; cbn; rewrite ?H2a, ?H2b, ?H1; reflexivity.
  - destruct rem as [|a [|b [|c more]]]; try discriminate. inversion T; subst. cbn in *.
    apply andb_prop in H1 as [_ H1]. apply andb_prop in H1 as [_ H1]. apply andb_prop in H1 as [_ H1].
    apply andb_prop in H2 as [H2a H2]. apply andb_prop in H2 as [H2b H2]. apply andb_prop in H2 as [H2c _].
    destruct sh; cbn; rewrite ?H2a, ?H2b, ?H2c, ?H1; reflexivity.
Qed.

Lemma take_operands_wconds n m rem l :
  take_operands n m rem = Ok l -> forallb wconds l = true -> forallb wconds rem = true.
Proof.
  intros T W. remember (lambda_shorthand m) as sh eqn:Esh. unfold take_operands in T. rewrite <- Esh in T. clear Esh.
  destruct n as [|[|[|[|n]]]]; try discriminate.
  - destruct rem as [|a more]; [discriminate|]. inversion T; subst. cbn in *.
    destruct sh; cbn in *; rewrite ?andb_true_r in W; exact W.
  - destruct rem as [|a [|b more]]; try discriminate. inversion T; subst. cbn in *.
    destruct sh; cbn in *; rewrite ?andb_true_r in W; rewrite <- ?andb_assoc in *; exact W.
  - destruct rem as [|a [|b [|c more]]]; try discriminate. inversion T; subst. cbn in *.
    destruct sh; cbn in *; rewrite ?andb_true_r in W; rewrite <- ?andb_assoc in *; exact W.
Qed.

Lemma parse_inv f : inv (parse f).
Proof.
  induction f as [|f IH]; intros p ts l il lam H C W; [discriminate|].
  destruct ts as [|head rest]; [inversion H; reflexivity|].
  cbn [parse] in H. destruct (classify head) as [s|cls cl|n m| |e] eqn:K.
  - apply bind_Ok in H as [l' [H1 H2]]. inversion H2; subst; clear H2. cbn [forallb] in *.
    apply andb_prop in W as [_ W]. rewrite (exit_ok_emit head s p il lam K C), (IH p rest l' il lam H1 C W). reflexivity.
  - destruct (get_branches rest [cl] [] []) as [branches after].
    apply bind_Ok in H as [s [H1 H2]]. apply bind_Ok in H2 as [l' [H2 H3]]. inversion H3; subst; clear H3.
    cbn [forallb] in *. apply andb_prop in W as [Ws W].
    rewrite (build_exit_ok (parse f) p cls branches s il lam IH C H1 Ws), (IH p after l' il lam H2 C W). reflexivity.
  - destruct rest as [|r0 rest']; [inversion H; reflexivity|].
    apply bind_Ok in H as [rem [H1 H2]].
    eapply take_operands_exit; [|exact H2].
    intros a b. eapply (IH (Some (mod_kind n))); [exact H1| |eapply take_operands_wconds; eauto].
    destruct n as [|[|[|n]]]; exact I.
  - eapply IH; eauto.
  - discriminate.
Qed.

(* ---- every parsed program ---------------------------------------------------------------------------- *)
Theorem parsed_exit_ok ts l :
  parse_tokens ts = Ok l -> forallb wconds l = true -> forallb (exit_ok false false) l = true.
Proof. intros H W. eapply (parse_inv _ None ts l false false H); [exact I|exact W]. Qed.

(* exit_ok is the stronger of the two side conditions, up to the empty-if clause *)
Fixpoint ifs_nonempty (s : struct) : bool :=
  match s with
  | SGeneric _ | SBreak _ | SRecurse _ | SFnCall _ => true
  | SIf bs => negb (match bs with [] => true | _ => false end) && forallb (forallb ifs_nonempty) bs
  | SFor _ b | SFnDef _ _ b | SLambda _ b | SLamOp _ b => forallb ifs_nonempty b
  | SWhile c b => forallb ifs_nonempty c && forallb ifs_nonempty b
  | SList its => forallb (forallb ifs_nonempty) its
  | SMod1 _ a => ifs_nonempty a
  | SMod2 _ a b => ifs_nonempty a && ifs_nonempty b
  | SMod3 _ a b c => ifs_nonempty a && ifs_nonempty b && ifs_nonempty c
  end.

Definition inv_ne (rec : option pkind -> list token -> res (list struct)) : Prop :=
  forall p ts l, rec p ts = Ok l -> forallb ifs_nonempty l = true.

Lemma forall2_ne rec p bs ys :
  inv_ne rec -> Forall2 (fun x y => rec p x = Ok y) bs ys -> forallb (forallb ifs_nonempty) ys = true.
Proof.
  intros Hrec. induction 1 as [|x y bs ys Hxy _ IH]; cbn; [reflexivity|].
  rewrite (Hrec p x y Hxy), IH. reflexivity.
Qed.

Lemma build_ne rec parent cls branches s :
  inv_ne rec -> branches <> [] -> build rec parent cls branches = Ok s -> ifs_nonempty s = true.
Proof.
  intros Hrec Hne. unfold build.
  destruct cls.
  - intro H. apply bind_Ok in H as [bs [H1 H2]]. inversion H2; subst; clear H2.
    apply map_res_Ok in H1. cbn [ifs_nonempty].
    rewrite (forall2_ne rec _ branches bs Hrec H1). rewrite andb_true_r.
    destruct H1; [congruence|reflexivity].
  - intro H. apply bind_Ok in H as [body [H1 H2]]. inversion H2; subst. cbn. eapply Hrec; eauto.
  - intro H. apply bind_Ok in H as [cond [H1 H2]]. apply bind_Ok in H2 as [body [H2 H3]]. inversion H3; subst. cbn.
    rewrite (Hrec _ _ _ H2), andb_true_r.
    destruct (match branches with [_] => true | _ => false end); [inversion H1; reflexivity|eapply Hrec; eauto].
  - destruct (process_parameters (hd [] branches)) as [name params].
    destruct (match branches with [_] => true | _ => false end).
    + destruct params; intro H; inversion H; reflexivity.
    + intro H. apply bind_Ok in H as [body [H1 H2]]. inversion H2; subst. cbn. eapply Hrec; eauto.
  - destruct (match branches with [_] => true | _ => false end).
    + intro H. apply bind_Ok in H as [body [H1 H2]]. inversion H2; subst. cbn. eapply Hrec; eauto.
    + destruct (hd [] branches) as [|t0 ?]; [discriminate|]. destruct (py_int (tv t0)); [|discriminate].
      destruct (z <? 0)%Z; [discriminate|]. intro H.
      apply bind_Ok in H as [body [H1 H2]]. inversion H2; subst. cbn. eapply Hrec; eauto.
  - intro H. apply bind_Ok in H as [body [H1 H2]]. inversion H2; subst. cbn. eapply Hrec; eauto.
  - intro H. apply bind_Ok in H as [body [H1 H2]]. inversion H2; subst. cbn. eapply Hrec; eauto.
  - intro H. apply bind_Ok in H as [body [H1 H2]]. inversion H2; subst. cbn. eapply Hrec; eauto.
  - intro H. apply bind_Ok in H as [bs [H1 H2]]. inversion H2; subst. apply map_res_Ok in H1. cbn. eapply forall2_ne; eauto.
  - intro H. apply bind_Ok in H as [bs [H1 H2]]. inversion H2; subst. apply map_res_Ok in H1. cbn. eapply forall2_ne; eauto.
  - intro H. apply bind_Ok in H as [bs [H1 H2]]. inversion H2; subst. apply map_res_Ok in H1. cbn. eapply forall2_ne; eauto.
  - intro H. apply bind_Ok in H as [bs [H1 H2]]. inversion H2; subst. apply map_res_Ok in H1. cbn. eapply forall2_ne; eauto.
Qed.

Lemma take_operands_ne n m rem l :
  forallb ifs_nonempty rem = true -> take_operands n m rem = Ok l -> forallb ifs_nonempty l = true.
Proof.
  intros H T. remember (lambda_shorthand m) as sh eqn:Esh. unfold take_operands in T. rewrite <- Esh in T. clear Esh.
  destruct n as [|[|[|[|n]]]]; try discriminate.
  - destruct rem as [|a more]; [discriminate|]. inversion T; subst. cbn in *.
    destruct sh; cbn; rewrite ?andb_true_r; exact H.
  - destruct rem as [|a [|b more]]; try discriminate. inversion T; subst. cbn in *.
    destruct sh; cbn; rewrite ?andb_true_r; rewrite <- ?andb_assoc in *; exact H.
  - destruct rem as [|a [|b [|c more]]]; try discriminate. inversion T; subst. cbn in *.
    destruct sh; cbn; rewrite ?andb_true_r; rewrite <- ?andb_assoc in *; exact H.
Qed.

Lemma classify_emit_ne t s p : classify t = AEmit s -> ifs_nonempty (s p) = true.
Proof. intro H. destruct (classify_emit t s H) as [E | [-> | ->]]; [rewrite E|..]; reflexivity. Qed.

Lemma parse_ne f : inv_ne (parse f).
Proof.
  induction f as [|f IH]; intros p ts l H; [discriminate|].
  destruct ts as [|head rest]; [inversion H; reflexivity|].
  cbn [parse] in H. destruct (classify head) as [s|cls cl|n m| |e] eqn:K.
  - apply bind_Ok in H as [l' [H1 H2]]. inversion H2; subst. cbn.
    rewrite (classify_emit_ne head s p K), (IH p rest l' H1). reflexivity.
  - destruct (get_branches rest [cl] [] []) as [branches after] eqn:G.
    apply bind_Ok in H as [s [H1 H2]]. apply bind_Ok in H2 as [l' [H2 H3]]. inversion H3; subst. cbn.
    rewrite (build_ne (parse f) p cls branches s IH (get_branches_nonempty _ _ _ _ _ _ G) H1), (IH p after l' H2). reflexivity.
  - destruct rest as [|r0 rest']; [inversion H; reflexivity|].
    apply bind_Ok in H as [rem [H1 H2]]. eapply take_operands_ne; [eapply IH; exact H1|exact H2].
  - eapply IH; eauto.
  - discriminate.
Qed.

(* exit_ok implies ctx_ok *)
Lemma forallb_imp2 {A} (f g : A -> bool) l : Forall (fun x => f x = true -> g x = true) l ->
  forallb f l = true -> forallb g l = true.
Proof. induction 1 as [|x l Hx _ IH]; cbn; intro H; [reflexivity|]. apply andb_prop in H as [H1 H2]. rewrite (Hx H1), (IH H2). reflexivity. Qed.

Definition R (s : struct) : Prop := forall il lam il' idf,
  exit_ok il lam s = true -> ifs_nonempty s = true ->
  (il = true -> il' = true) -> (lam = true -> idf = true) -> ctx_ok il' idf s = true.

Lemma list_R l il lam il' idf : Forall R l ->
  forallb (exit_ok il lam) l = true -> forallb ifs_nonempty l = true ->
  (il = true -> il' = true) -> (lam = true -> idf = true) -> forallb (ctx_ok il' idf) l = true.
Proof.
  induction 1 as [|x l Hx _ IH]; cbn; intros E N Hi Hl; [reflexivity|].
  apply andb_prop in E as [E1 E2]. apply andb_prop in N as [N1 N2].
  rewrite (Hx il lam il' idf E1 N1 Hi Hl), (IH E2 N2 Hi Hl). reflexivity.
Qed.

Lemma lists_R bs il lam il' idf : Forall (Forall R) bs ->
  forallb (fun l => forallb (exit_ok il lam) l) bs = true -> forallb (forallb ifs_nonempty) bs = true ->
  (il = true -> il' = true) -> (lam = true -> idf = true) ->
  forallb (fun l => forallb (ctx_ok il' idf) l) bs = true.
Proof.
  induction 1 as [|x l Hx _ IH]; cbn; intros E N Hi Hl; [reflexivity|].
  apply andb_prop in E as [E1 E2]. apply andb_prop in N as [N1 N2].
  rewrite (list_R x il lam il' idf Hx E1 N1 Hi Hl), (IH E2 N2 Hi Hl). reflexivity.
Qed.

Lemma exit_ctx : forall s, R s.
Proof.
  induction s using struct_ind'; unfold R; intros il lam il' idf E N Hi Hl; cbn [exit_ok ifs_nonempty ctx_ok] in *; try reflexivity.
  - destruct p as [[]|]; auto.
  - destruct p as [[]|]; auto.
  - apply andb_prop in N as [N1 N2]. rewrite N1. cbn [andb]. eapply lists_R; eauto.
  - eapply list_R; eauto; discriminate.
  - apply andb_prop in E as [Ec Eb]. apply andb_prop in N as [Nc Nb].
    rewrite (list_R c false false false idf H Ec Nc) by (auto; discriminate).
    rewrite (list_R c false false true idf H Ec Nc) by (auto; discriminate).
    rewrite (list_R b true false true idf H0 Eb Nb) by (auto; discriminate). reflexivity.
  - eapply list_R; eauto; discriminate.
  - eapply list_R; eauto.
  - eapply list_R; eauto.
  - eapply lists_R; eauto; discriminate.
  - eapply IHs; eauto.
  - apply andb_prop in E as [E1 E2]. apply andb_prop in N as [N1 N2].
    rewrite (IHs1 false true false true E1 N1), (IHs2 false true false true E2 N2) by auto. reflexivity.
  - apply andb_prop in E as [E12 E3]. apply andb_prop in E12 as [E1 E2].
    apply andb_prop in N as [N12 N3]. apply andb_prop in N12 as [N1 N2].
    rewrite (IHs1 false true false true E1 N1), (IHs2 false true false true E2 N2), (IHs3 false true false true E3 N3) by auto.
    reflexivity.
Qed.

Theorem parsed_ctx_ok ts l :
  parse_tokens ts = Ok l -> forallb wconds l = true -> forallb (ctx_ok false false) l = true.
Proof.
  intros H W. eapply (list_R l false false false false).
  - clear. induction l; constructor; auto. apply exit_ctx.
  - eapply parsed_exit_ok; eauto.
  - eapply parse_ne; eauto.
  - auto.
  - auto.
Qed.
