From Coq Require Import List NArith ZArith Bool Lia.
From Vy Require Import Model.Base Model.Lexer Model.Parser Model.Encoding Gen.Codepage Gen.ParserConsts Gen.Elements Gen.Yaml Gen.Known.
Import ListNotations.
Open Scope N_scope.

(* ---- general facts about indexing into a duplicate-free list -------------- *)
Lemma find_index_from_ge c s i j : find_index_from c s i = Some j -> i <= j.
Proof.
  revert i; induction s as [|x s IH]; simpl; intros i H; [discriminate|].
  destruct (N.eqb c x); [inversion H; lia|]. apply IH in H. lia.
Qed.

Lemma find_index_from_nth c s i j :
  find_index_from c s i = Some j -> nth_error s (N.to_nat (j - i)) = Some c.
Proof.
  revert i; induction s as [|x s IH]; simpl; intros i H; [discriminate|].
  destruct (N.eqb c x) eqn:E.
  - inversion H; subst. apply N.eqb_eq in E; subst. rewrite N.sub_diag. reflexivity.
  - pose proof (find_index_from_ge _ _ _ _ H) as Hge. apply IH in H.
    replace (N.to_nat (j - i)) with (S (N.to_nat (j - (i + 1)))) by lia. exact H.
Qed.

Lemma find_index_from_notin c s i : ~ In c s -> find_index_from c s i = None.
Proof.
  revert i; induction s as [|x s IH]; simpl; intros i H; [reflexivity|].
  destruct (N.eqb c x) eqn:E; [apply N.eqb_eq in E; subst; tauto|]. apply IH. tauto.
Qed.

Lemma nth_find_from s : NoDup s -> forall n c i,
  nth_error s n = Some c -> find_index_from c s i = Some (i + N.of_nat n).
Proof.
  induction 1 as [|x s Hx Hnd IH]; intros n c i Hn; [destruct n; discriminate|].
  destruct n as [|n]; simpl in *.
  - inversion Hn; subst. rewrite N.eqb_refl. f_equal. lia.
  - destruct (N.eqb c x) eqn:E.
    + apply N.eqb_eq in E; subst. exfalso. apply Hx. eapply nth_error_In; eauto.
    + rewrite (IH n c (i + 1) Hn). f_equal. lia.
Qed.


(* ---- round trips, for any duplicate-free code page ------------------------ *)
Section RoundTrip.
  Variable cp : str.
  Hypothesis cp_nodup : NoDup cp.

  Lemma byte_char_byte b c : byte_to_char cp b = Some c -> char_to_byte cp c = Some b.
  Proof.
    unfold byte_to_char, char_to_byte, find_index. intro H.
    rewrite (nth_find_from cp cp_nodup _ _ 0 H). f_equal. lia.
  Qed.

  Lemma char_byte_char c b : char_to_byte cp c = Some b -> byte_to_char cp b = Some c.
  Proof.
    unfold byte_to_char, char_to_byte, find_index. intro H.
    apply find_index_from_nth in H. rewrite N.sub_0_r in H. exact H.
  Qed.

  Lemma bytes_roundtrip bs s : to_utf8_with cp bs = Some s -> to_vyxal_with cp s = Some bs.
  Proof.
    unfold to_utf8_with, to_vyxal_with. revert s; induction bs as [|b bs IH]; simpl; intros s H.
    - inversion H; reflexivity.
    - destruct (byte_to_char cp b) eqn:E1; [|discriminate].
      destruct (mapM (byte_to_char cp) bs) eqn:E2; [|discriminate].
      inversion H; subst. simpl. rewrite (byte_char_byte _ _ E1), (IH _ eq_refl). reflexivity.
  Qed.

  Lemma text_roundtrip s bs : to_vyxal_with cp s = Some bs -> to_utf8_with cp bs = Some s.
  Proof.
    unfold to_utf8_with, to_vyxal_with. revert bs; induction s as [|c s IH]; simpl; intros bs H.
    - inversion H; reflexivity.
    - destruct (char_to_byte cp c) eqn:E1; [|discriminate].
      destruct (mapM (char_to_byte cp) s) eqn:E2; [|discriminate].
      inversion H; subst. simpl. rewrite (char_byte_char _ _ E1), (IH _ eq_refl). reflexivity.
  Qed.

  Lemma to_utf8_total bs :
    Forall (fun b => (N.to_nat b < length cp)%nat) bs -> exists s, to_utf8_with cp bs = Some s.
  Proof.
    unfold to_utf8_with. induction 1 as [|b bs Hb _ [s IH]]; simpl; [eexists; reflexivity|].
    unfold byte_to_char at 1. destruct (nth_error cp (N.to_nat b)) eqn:E.
    - rewrite IH. eexists; reflexivity.
    - apply nth_error_None in E. lia.
  Qed.

  Lemma to_vyxal_total s :
    Forall (fun c => In c cp) s -> exists bs, to_vyxal_with cp s = Some bs.
  Proof.
    unfold to_vyxal_with. induction 1 as [|c s Hc _ [bs IH]]; simpl; [eexists; reflexivity|].
    apply In_nth_error in Hc as [n Hn]. unfold char_to_byte at 1, find_index.
    rewrite (nth_find_from cp cp_nodup _ _ 0 Hn), IH. eexists; reflexivity.
  Qed.

  Lemma to_vyxal_range s bs :
    to_vyxal_with cp s = Some bs -> Forall (fun b => (N.to_nat b < length cp)%nat) bs.
  Proof.
    unfold to_vyxal_with. revert bs; induction s as [|c s IH]; simpl; intros bs H.
    - inversion H; constructor.
    - destruct (char_to_byte cp c) eqn:E1; [|discriminate].
      destruct (mapM (char_to_byte cp) s) eqn:E2; [|discriminate].
      inversion H; subst. constructor; [|apply IH; reflexivity].
      apply char_byte_char in E1. unfold byte_to_char in E1.
      apply nth_error_Some. congruence.
  Qed.
End RoundTrip.

(* ---- the generated code page ---------------------------------------------- *)
Lemma codepage_length : length codepage = 256%nat.
Proof. vm_compute. reflexivity. Qed.

Lemma codepage_nodup : NoDup codepage.
Proof. apply nodupb_NoDup. vm_compute. reflexivity. Qed.

Lemma bytes_text_bytes bs :
  Forall (fun b => b < 256) bs -> exists s, to_utf8 bs = Some s /\ to_vyxal s = Some bs.
Proof.
  intro H. destruct (to_utf8_total codepage bs) as [s Hs].
  - rewrite codepage_length. eapply Forall_impl; [|exact H]. simpl. intros; lia.
  - exists s. split; [exact Hs|]. apply bytes_roundtrip; [exact codepage_nodup | exact Hs].
Qed.

Lemma text_bytes_text s :
  Forall (fun c => In c codepage) s ->
  exists bs, to_vyxal s = Some bs /\ to_utf8 bs = Some s /\ Forall (fun b => b < 256) bs.
Proof.
  intro H. destruct (to_vyxal_total codepage codepage_nodup s H) as [bs Hbs].
  exists bs. split; [exact Hbs|]. split.
  - apply text_roundtrip; exact Hbs.
  - pose proof (to_vyxal_range codepage s bs Hbs) as R.
    rewrite codepage_length in R. eapply Forall_impl; [|exact R]. simpl. intros; lia.
Qed.

(* ---- the table sweep (finite, exhaustive, by computation) ----------------- *)
Lemma tables_ok_true : tables_ok = true.
Proof. vm_compute. reflexivity. Qed.

Lemma tables_split :
  forallb key_ok elements = true
  /\ forallb syntax_key_ok (openers ++ closers ++ all_modifiers ++ [break_character; recurse_character]) = true
  /\ forallb doc_ok documented = true
  /\ modifier_tables_ok = true.
Proof.
  pose proof tables_ok_true as T. unfold tables_ok in T.
  apply andb_prop in T as [T H4]. apply andb_prop in T as [T H3]. apply andb_prop in T as [H1 H2].
  repeat split; assumption.
Qed.

Lemma every_element_ok e : In e elements -> key_ok e = true.
Proof. intro H. destruct tables_split as [T _]. exact (proj1 (forallb_forall _ _) T e H). Qed.

Lemma every_syntax_char_ok c :
  In c (openers ++ closers ++ all_modifiers ++ [break_character; recurse_character]) -> syntax_key_ok c = true.
Proof. intro H. destruct tables_split as [_ [T _]]. exact (proj1 (forallb_forall _ _) T c H). Qed.

Lemma every_doc_ok d : In d documented -> doc_ok d = true.
Proof. intro H. destruct tables_split as [_ [_ [T _]]]. exact (proj1 (forallb_forall _ _) T d H). Qed.

Lemma tkind_eqb_eq a b : tkind_eqb a b = true -> a = b.
Proof. destruct a, b; simpl; intro H; try discriminate; reflexivity. Qed.

Lemma tokens_eqb_eq a b : tokens_eqb a b = true -> a = b.
Proof.
  revert b; induction a as [|[k v] a IH]; intros [|[k' v'] b]; simpl; intro H; try discriminate; [reflexivity|].
  apply andb_prop in H as [H1 H2]. unfold token_eqb in H1; simpl in H1.
  apply andb_prop in H1 as [Hk Hv]. apply tkind_eqb_eq in Hk. apply str_eqb_eq in Hv.
  apply IH in H2. congruence.
Qed.

Lemma syntax_chars_general c :
  In c (openers ++ closers ++ all_modifiers ++ [break_character; recurse_character]) ->
  mem c codepage = true /\ tokenise [c] = [Tok KGeneral [c]].
Proof.
  intro H. pose proof (every_syntax_char_ok c H) as K. unfold syntax_key_ok in K.
  apply andb_prop in K as [K1 K2]. split; [exact K1|]. apply tokens_eqb_eq. exact K2.
Qed.

Lemma element_key_general e : In e elements -> tokenise (e_key e) = [Tok KGeneral (e_key e)].
Proof.
  intro H. pose proof (every_element_ok e H) as K. unfold key_ok in K.
  apply andb_prop in K as [K _]. apply andb_prop in K as [K _]. apply andb_prop in K as [K _].
  apply andb_prop in K as [_ K]. apply tokens_eqb_eq. exact K.
Qed.
