(* C16, part 1: reverse, uniquify, flatten, folds (sum product max min), cumulative
   sums, deltas, head/tail, count/contains/find, counts, group_consecutive. *)
From Coq Require Import List ZArith Bool Arith Lia Permutation Sorted.
From Vy Require Import Model.ListOps.
Import ListNotations.
Open Scope Z_scope.

(* ---- small list facts ------------------------------------------------------- *)
Lemma flat_map_map {A B C} (f : B -> list C) (g : A -> B) (l : list A) :
  flat_map f (map g l) = flat_map (fun x => f (g x)) l.
Proof. induction l as [|x l IH]; simpl; [reflexivity|]. rewrite IH. reflexivity. Qed.

Lemma seq_S_map (s n : nat) : seq (S s) n = map S (seq s n).
Proof. symmetry. apply seq_shift. Qed.

Definition sumr (l : list Z) : Z := fold_right Z.add 0 l.
Definition prodr (l : list Z) : Z := fold_right Z.mul 1 l.

(* ---- reverse ---------------------------------------------------------------- *)
Lemma reverse_go (l acc : list Z) : fold_left (fun a x => x :: a) l acc = rev l ++ acc.
Proof.
  revert acc; induction l as [|x l IH]; simpl; intro acc; [reflexivity|].
  rewrite IH, <- app_assoc. reflexivity.
Qed.

Lemma reverse_rev (l : list Z) : reverse l = rev l.
Proof. unfold reverse. rewrite reverse_go. apply app_nil_r. Qed.

Lemma reverse_involutive (l : list Z) : reverse (reverse l) = l.
Proof. rewrite !reverse_rev. apply rev_involutive. Qed.

Lemma reverse_nth (l : list Z) (i : nat) :
  (i < length l)%nat -> nth i (reverse l) 0 = nth (length l - S i) l 0.
Proof. intro H. rewrite reverse_rev. apply rev_nth. exact H. Qed.

Lemma reverse_length (l : list Z) : length (reverse l) = length l.
Proof. rewrite reverse_rev. apply rev_length. Qed.

(* ---- membership ------------------------------------------------------------- *)
Lemma memZ_In (x : Z) (l : list Z) : memZ x l = true <-> In x l.
Proof.
  unfold memZ. rewrite existsb_exists. split.
  - intros [y [Hy E]]. apply Z.eqb_eq in E. subst. exact Hy.
  - intro H. exists x. split; [exact H|apply Z.eqb_refl].
Qed.

Lemma memZ_false (x : Z) (l : list Z) : memZ x l = false <-> ~ In x l.
Proof.
  rewrite <- memZ_In. destruct (memZ x l); split; intro H.
  - discriminate.
  - exfalso. apply H. reflexivity.
  - discriminate.
  - reflexivity.
Qed.

Lemma memZ_ext (y : Z) (a b : list Z) : (In y a <-> In y b) -> memZ y a = memZ y b.
Proof.
  intro H. destruct (memZ y a) eqn:Ea, (memZ y b) eqn:Eb; try reflexivity.
  - apply memZ_In in Ea. apply H in Ea. apply memZ_In in Ea. congruence.
  - apply memZ_In in Eb. apply H in Eb. apply memZ_In in Eb. congruence.
Qed.

(* ---- uniquify --------------------------------------------------------------- *)
Lemma uniq_go_In (l seen : list Z) (y : Z) :
  In y (uniq_go seen l) <-> In y l /\ ~ In y seen.
Proof.
  revert seen; induction l as [|x r IH]; intro seen; simpl.
  - tauto.
  - destruct (memZ x seen) eqn:E.
    + apply memZ_In in E. rewrite IH. split.
      * intros [H1 H2]. tauto.
      * intros [[H1|H1] H2]; [subst; tauto|tauto].
    + apply memZ_false in E. simpl. rewrite IH, in_app_iff. simpl.
      destruct (Z.eq_dec x y) as [->|Hne]; tauto.
Qed.

Lemma uniq_go_NoDup (l seen : list Z) : NoDup (uniq_go seen l).
Proof.
  revert seen; induction l as [|x r IH]; intro seen; simpl; [constructor|].
  destruct (memZ x seen); [apply IH|].
  constructor; [|apply IH].
  rewrite uniq_go_In, in_app_iff. simpl. tauto.
Qed.

Lemma uniquify_NoDup (l : list Z) : NoDup (uniquify l).
Proof. apply uniq_go_NoDup. Qed.

Lemma uniquify_In (l : list Z) (y : Z) : In y (uniquify l) <-> In y l.
Proof. unfold uniquify. rewrite uniq_go_In. simpl. tauto. Qed.

Lemma uniq_go_positions (l seen : list Z) :
  uniq_go seen l =
  flat_map (fun i => if memZ (nth i l 0) (seen ++ firstn i l) then [] else [nth i l 0]) (seq 0 (length l)).
Proof.
  revert seen; induction l as [|x r IH]; intro seen; [reflexivity|].
  cbn [uniq_go length seq flat_map nth firstn]. rewrite app_nil_r.
  rewrite seq_S_map, flat_map_map. cbn [nth firstn].
  destruct (memZ x seen) eqn:E.
  - rewrite IH. simpl. apply flat_map_ext. intro i.
    rewrite (memZ_ext (nth i r 0) (seen ++ firstn i r) (seen ++ x :: firstn i r)); [reflexivity|].
    apply memZ_In in E. rewrite !in_app_iff. simpl. split; [tauto|].
    intros [H|[H|H]]; [tauto|subst; tauto|tauto].
  - rewrite IH. simpl. f_equal. apply flat_map_ext. intro i.
    rewrite <- app_assoc. reflexivity.
Qed.

Lemma uniquify_first_occurrences (l : list Z) : uniquify l = first_occurrences l.
Proof. unfold uniquify, first_occurrences. rewrite uniq_go_positions. reflexivity. Qed.

Lemma uniquify_idempotent_on_NoDup (l : list Z) : NoDup l -> uniquify l = l.
Proof.
  unfold uniquify. assert (G : forall seen, (forall y, In y l -> ~ In y seen) -> NoDup l -> uniq_go seen l = l).
  { induction l as [|x r IH]; intros seen Hs Hnd; [reflexivity|]. simpl.
    inversion Hnd as [|? ? Hx Hr]; subst.
    destruct (memZ x seen) eqn:E.
    - apply memZ_In in E. exfalso. apply (Hs x); [left; reflexivity|exact E].
    - f_equal. apply IH; [|exact Hr]. intros y Hy. rewrite in_app_iff. simpl.
      intros [H|[H|[]]]; [apply (Hs y); [right; exact Hy|exact H]|subst; tauto]. }
  intro H. apply G; [intros y _ []|exact H].
Qed.

(* ---- flatten ---------------------------------------------------------------- *)
Fixpoint tree_rect' (P : tree -> Prop) (HL : forall z, P (Leaf z))
  (HN : forall ts, Forall P ts -> P (Node ts)) (t : tree) : P t :=
  match t with
  | Leaf z => HL z
  | Node ts => HN ts ((fix go (l : list tree) : Forall P l :=
                         match l with
                         | [] => Forall_nil P
                         | x :: r => Forall_cons x (tree_rect' P HL HN x) (go r)
                         end) ts)
  end.

Lemma flatten_leaves (t : tree) : leaves_of t (flatten t).
Proof.
  induction t as [z|ts IH] using tree_rect'; [constructor|].
  simpl. rewrite flat_map_concat_map. constructor.
  induction IH as [|x r Hx Hr IHr]; simpl; constructor; assumption.
Qed.

Lemma leaves_functional (t : tree) : forall l, leaves_of t l -> l = flatten t.
Proof.
  induction t as [z|ts IH] using tree_rect'; intros l H; inversion H as [|? ls HF]; subst; [reflexivity|].
  simpl. rewrite flat_map_concat_map. f_equal.
  clear H. revert ls HF. induction IH as [|x r Hx Hr IHr]; intros ls HF; inversion HF; subst; simpl; [reflexivity|].
  f_equal; [apply Hx; assumption|apply IHr; assumption].
Qed.

Lemma flatten_node_cons (t : tree) (ts : list tree) :
  flatten (Node (t :: ts)) = flatten t ++ flatten (Node ts).
Proof. reflexivity. Qed.

Lemma deep_flatten_app (a b : list tree) : deep_flatten (a ++ b) = deep_flatten a ++ deep_flatten b.
Proof. unfold deep_flatten. simpl. apply flat_map_app. Qed.

Lemma deep_flatten_flat (l : list Z) : deep_flatten (map Leaf l) = l.
Proof. unfold deep_flatten. simpl. induction l as [|x l IH]; simpl; [reflexivity|]. f_equal. exact IH. Qed.

(* ---- folds ------------------------------------------------------------------ *)
Lemma fold_left_add (r : list Z) (x : Z) : fold_left Z.add r x = x + sumr r.
Proof. revert x; induction r as [|y r IH]; intro x; simpl; [lia|]. rewrite IH. unfold sumr. lia. Qed.

Lemma fold_left_mul (r : list Z) (x : Z) : fold_left Z.mul r x = x * prodr r.
Proof. revert x; induction r as [|y r IH]; intro x; simpl; [lia|]. rewrite IH. unfold prodr. lia. Qed.

Lemma vsum_fold (l : list Z) : vsum l = fold_right Z.add 0 l.
Proof. destruct l as [|x r]; [reflexivity|]. unfold vsum. simpl. rewrite fold_left_add. reflexivity. Qed.

Lemma product_fold (l : list Z) : l <> [] -> product l = fold_right Z.mul 1 l.
Proof. destruct l as [|x r]; [congruence|]. intros _. unfold product. simpl. rewrite fold_left_mul. reflexivity. Qed.

Lemma product_empty_refuted : exists l, product l <> fold_right Z.mul 1 l.
Proof. exists []. vm_compute. discriminate. Qed.

Lemma product_empty_is_zero : product [] = 0.
Proof. reflexivity. Qed.

Lemma vsum_app (a b : list Z) : vsum (a ++ b) = vsum a + vsum b.
Proof. rewrite !vsum_fold. induction a as [|x a IH]; simpl; [lia|]. rewrite IH. lia. Qed.

Definition fmax (a b : Z) : Z := if a <? b then b else a.
Definition fmin (a b : Z) : Z := if a <? b then a else b.

Lemma fmax_cases (a b : Z) : (fmax a b = a \/ fmax a b = b) /\ a <= fmax a b /\ b <= fmax a b.
Proof. unfold fmax. destruct (Z.ltb_spec a b); lia. Qed.

Lemma fmin_cases (a b : Z) : (fmin a b = a \/ fmin a b = b) /\ fmin a b <= a /\ fmin a b <= b.
Proof. unfold fmin. destruct (Z.ltb_spec a b); lia. Qed.

Lemma fold_max_spec (r : list Z) (x : Z) :
  (fold_left fmax r x = x \/ In (fold_left fmax r x) r) /\ x <= fold_left fmax r x
  /\ Forall (fun y => y <= fold_left fmax r x) r.
Proof.
  revert x; induction r as [|y r IH]; intro x; cbn [fold_left].
  - split; [left; reflexivity|split; [lia|constructor]].
  - destruct (IH (fmax x y)) as [H1 [H2 H3]]. destruct (fmax_cases x y) as [Hc [Ha Hb]].
    set (m := fold_left fmax r (fmax x y)) in *. split.
    + destruct H1 as [H1|H1]; [|right; right; exact H1].
      destruct Hc as [Hc|Hc]; [left; congruence|right; left; congruence].
    + split; [lia|]. constructor; [lia|exact H3].
Qed.

Lemma fold_min_spec (r : list Z) (x : Z) :
  (fold_left fmin r x = x \/ In (fold_left fmin r x) r) /\ fold_left fmin r x <= x
  /\ Forall (fun y => fold_left fmin r x <= y) r.
Proof.
  revert x; induction r as [|y r IH]; intro x; cbn [fold_left].
  - split; [left; reflexivity|split; [lia|constructor]].
  - destruct (IH (fmin x y)) as [H1 [H2 H3]]. destruct (fmin_cases x y) as [Hc [Ha Hb]].
    set (m := fold_left fmin r (fmin x y)) in *. split.
    + destruct H1 as [H1|H1]; [|right; right; exact H1].
      destruct Hc as [Hc|Hc]; [left; congruence|right; left; congruence].
    + split; [lia|]. constructor; [lia|exact H3].
Qed.

Lemma maximum_spec (l : list Z) : l <> [] ->
  exists m, maximum l = Some m /\ In m l /\ Forall (fun y => y <= m) l.
Proof.
  destruct l as [|x r]; [congruence|]. intros _.
  exists (fold_left fmax r x). destruct (fold_max_spec r x) as [H1 [H2 H3]].
  split; [reflexivity|]. split; [simpl; destruct H1 as [H1|H1]; [left; symmetry; exact H1|right; exact H1]|].
  constructor; assumption.
Qed.

Lemma minimum_spec (l : list Z) : l <> [] ->
  exists m, minimum l = Some m /\ In m l /\ Forall (fun y => m <= y) l.
Proof.
  destruct l as [|x r]; [congruence|]. intros _.
  exists (fold_left fmin r x). destruct (fold_min_spec r x) as [H1 [H2 H3]].
  split; [reflexivity|]. split; [simpl; destruct H1 as [H1|H1]; [left; symmetry; exact H1|right; exact H1]|].
  constructor; assumption.
Qed.

Lemma maximum_none (l : list Z) : maximum l = None <-> l = [].
Proof. destruct l; simpl; split; intro H; try reflexivity; discriminate. Qed.

Lemma minimum_none (l : list Z) : minimum l = None <-> l = [].
Proof. destruct l; simpl; split; intro H; try reflexivity; discriminate. Qed.

Lemma fmax_max (a b : Z) : fmax a b = Z.max a b.
Proof. unfold fmax. destruct (Z.ltb_spec a b); lia. Qed.

Lemma fmin_min (a b : Z) : fmin a b = Z.min a b.
Proof. unfold fmin. destruct (Z.ltb_spec a b); lia. Qed.

Lemma maximum_fold (x : Z) (r : list Z) : maximum (x :: r) = Some (fold_left Z.max r x).
Proof.
  unfold maximum, foldl1. f_equal. revert x; induction r as [|y r IH]; intro x; simpl; [reflexivity|].
  change (fold_left fmax r (fmax x y) = fold_left Z.max r (Z.max x y)). rewrite fmax_max. apply IH.
Qed.

Lemma minimum_fold (x : Z) (r : list Z) : minimum (x :: r) = Some (fold_left Z.min r x).
Proof.
  unfold minimum, foldl1. f_equal. revert x; induction r as [|y r IH]; intro x; simpl; [reflexivity|].
  change (fold_left fmin r (fmin x y) = fold_left Z.min r (Z.min x y)). rewrite fmin_min. apply IH.
Qed.

(* ---- cumulative sums -------------------------------------------------------- *)
Lemma scan_go_length (l : list Z) (acc : Z) : length (scan_go acc l) = S (length l).
Proof. revert acc; induction l as [|x r IH]; intro acc; simpl; [reflexivity|]. rewrite IH. reflexivity. Qed.

Lemma scan_go_nth (l : list Z) (acc : Z) (i : nat) :
  (i <= length l)%nat -> nth i (scan_go acc l) 0 = acc + sumr (firstn i l).
Proof.
  revert acc i; induction l as [|x r IH]; intros acc i Hi.
  - simpl in Hi. assert (i = 0%nat) by lia. subst. simpl. unfold sumr. simpl. lia.
  - destruct i as [|i]; simpl; [unfold sumr; simpl; lia|].
    rewrite IH by (simpl in Hi; lia). unfold sumr. simpl. lia.
Qed.

Lemma cumsum_length (l : list Z) : length (cumsum l) = length l.
Proof. destruct l as [|x r]; [reflexivity|]. simpl. apply scan_go_length. Qed.

Lemma cumsum_nth (l : list Z) (i : nat) :
  (i < length l)%nat -> nth i (cumsum l) 0 = vsum (firstn (S i) l).
Proof.
  rewrite vsum_fold. destruct l as [|x r]; simpl length; [lia|]. intro Hi.
  cbn [cumsum]. rewrite scan_go_nth by lia. reflexivity.
Qed.

(* ---- deltas ----------------------------------------------------------------- *)
Lemma deltas_go_length (l : list Z) (p : Z) : length (deltas_go p l) = length l.
Proof. revert p; induction l as [|x r IH]; intro p; simpl; [reflexivity|]. rewrite IH. reflexivity. Qed.

Lemma deltas_go_nth (l : list Z) (p : Z) (i : nat) :
  (i < length l)%nat -> nth i (deltas_go p l) 0 = nth i l 0 - nth i (p :: l) 0.
Proof.
  revert p i; induction l as [|x r IH]; intros p i Hi; simpl in Hi; [lia|].
  destruct i as [|i]; [reflexivity|]. cbn [deltas_go nth]. rewrite IH by lia. reflexivity.
Qed.

Lemma deltas_length (l : list Z) : length (deltas l) = pred (length l).
Proof. destruct l as [|x r]; [reflexivity|]. simpl. apply deltas_go_length. Qed.

Lemma deltas_nth (l : list Z) (i : nat) :
  (S i < length l)%nat -> nth i (deltas l) 0 = nth (S i) l 0 - nth i l 0.
Proof.
  destruct l as [|x r]; simpl; [lia|]. intro Hi. rewrite deltas_go_nth by lia. reflexivity.
Qed.

Lemma scan_go_hd (l : list Z) (a : Z) : scan_go a l = a :: tl (scan_go a l).
Proof. destruct l; reflexivity. Qed.

Lemma deltas_go_scan (l : list Z) (acc : Z) : deltas_go acc (tl (scan_go acc l)) = l.
Proof.
  revert acc; induction l as [|y r IH]; intro acc; [reflexivity|].
  cbn [scan_go tl]. rewrite (scan_go_hd r (acc + y)). cbn [deltas_go]. rewrite IH. f_equal. lia.
Qed.

Lemma deltas_cumsum (l : list Z) : deltas (cumsum l) = tl l.
Proof.
  destruct l as [|x r]; [reflexivity|]. cbn [cumsum tl]. rewrite (scan_go_hd r x). cbn [deltas].
  apply deltas_go_scan.
Qed.

Lemma scan_deltas (r : list Z) (x : Z) : scan_go x (deltas_go x r) = x :: r.
Proof.
  revert x; induction r as [|y r IH]; intro x; [reflexivity|].
  cbn [deltas_go scan_go]. replace (x + (y - x)) with y by lia. rewrite IH. reflexivity.
Qed.

Lemma cumsum_deltas (l : list Z) : l <> [] -> cumsum (head l :: deltas l) = l.
Proof. destruct l as [|x r]; [congruence|]. intros _. simpl. apply scan_deltas. Qed.

(* ---- head, tail, head_remove, tail_remove, length ----------------------------- *)
Lemma head_cons (l : list Z) : l <> [] -> l = head l :: head_remove l.
Proof. destruct l; [congruence|reflexivity]. Qed.

Lemma tail_snoc (l : list Z) : l <> [] -> l = tail_remove l ++ [tail l].
Proof.
  induction l as [|x r IH]; [congruence|]. intros _. destruct r as [|y r]; [reflexivity|].
  change (x :: y :: r = x :: (tail_remove (y :: r) ++ [tail (y :: r)])). f_equal. apply IH. discriminate.
Qed.

Lemma head_nth (l : list Z) : head l = nth 0 l 0.
Proof. destruct l; reflexivity. Qed.

Lemma tail_last (l : list Z) : tail l = last l 0.
Proof. induction l as [|x r IH]; [reflexivity|]. destruct r; [reflexivity|]. exact IH. Qed.

Lemma tail_nth (l : list Z) : tail l = nth (length l - 1) l 0.
Proof.
  induction l as [|x r IH]; [reflexivity|]. destruct r as [|y r]; [reflexivity|].
  change (tail (y :: r) = nth (length (x :: y :: r) - 1) (x :: y :: r) 0). rewrite IH. simpl.
  rewrite Nat.sub_0_r. reflexivity.
Qed.

Lemma head_remove_tl (l : list Z) : head_remove l = tl l.
Proof. destruct l; reflexivity. Qed.

Lemma tail_remove_removelast (l : list Z) : tail_remove l = removelast l.
Proof. induction l as [|x r IH]; [reflexivity|]. destruct r; [reflexivity|]. simpl in *. rewrite IH. reflexivity. Qed.

Lemma tail_remove_firstn (l : list Z) : tail_remove l = firstn (length l - 1) l.
Proof.
  induction l as [|x r IH]; [reflexivity|]. destruct r as [|y r]; [reflexivity|].
  change (x :: tail_remove (y :: r) = firstn (length (x :: y :: r) - 1) (x :: y :: r)). rewrite IH. simpl.
  rewrite Nat.sub_0_r. reflexivity.
Qed.

Lemma head_tail_empty : head [] = 0 /\ tail [] = 0 /\ head_remove [] = [] /\ tail_remove [] = [].
Proof. repeat split. Qed.

Lemma length_spec (l : list Z) : length_ l = Z.of_nat (length l) /\ length_ (head_remove l) = Z.max 0 (length_ l - 1)
  /\ length_ (tail_remove l) = Z.max 0 (length_ l - 1).
Proof.
  unfold length_. split; [reflexivity|]. split.
  - destruct l; simpl length; lia.
  - rewrite tail_remove_removelast. destruct l as [|x r]; [simpl; lia|].
    assert (H : x :: r <> []) by discriminate. apply exists_last in H. destruct H as [q [a E]]. rewrite E.
    rewrite removelast_last, app_length. simpl. lia.
Qed.

(* ---- count, contains, find --------------------------------------------------- *)
Lemma count_count_occ (x : Z) (l : list Z) : count x l = Z.of_nat (count_occ Z.eq_dec l x).
Proof.
  induction l as [|y r IH]; [reflexivity|]. simpl. rewrite IH.
  destruct (Z.eq_dec y x) as [E|E]; destruct (Z.eqb_spec y x); try congruence; lia.
Qed.

Lemma count_filter (x : Z) (l : list Z) : count x l = Z.of_nat (length (filter (fun y => y =? x) l)).
Proof.
  induction l as [|y r IH]; [reflexivity|]. simpl. rewrite IH. destruct (y =? x); simpl length; lia.
Qed.

Lemma contains_In (x : Z) (l : list Z) : contains x l = true <-> In x l.
Proof. apply memZ_In. Qed.

Lemma find_from_notin (x : Z) (l : list Z) (pos : Z) : ~ In x l -> find_from pos x l = -1.
Proof.
  revert pos; induction l as [|y r IH]; intros pos H; [reflexivity|]. simpl in *.
  destruct (Z.eqb_spec y x) as [E|E]; [tauto|]. apply IH. tauto.
Qed.

Lemma find_from_in (x : Z) (l : list Z) (pos : Z) : In x l ->
  exists i, find_from pos x l = pos + Z.of_nat i /\ nth_error l i = Some x /\ ~ In x (firstn i l).
Proof.
  revert pos; induction l as [|y r IH]; intros pos H; [destruct H|]. simpl.
  destruct (Z.eqb_spec y x) as [E|E].
  - exists 0%nat. subst. simpl. split; [lia|]. split; [reflexivity|tauto].
  - destruct H as [H|H]; [congruence|]. destruct (IH (pos + 1) H) as [i [H1 [H2 H3]]].
    exists (S i). simpl. split; [lia|]. split; [exact H2|]. intros [H4|H4]; [congruence|tauto].
Qed.

Lemma find_absent (x : Z) (l : list Z) : find x l = -1 <-> ~ In x l.
Proof.
  split.
  - intros H Hin. destruct (find_from_in x l 0 Hin) as [i [H1 _]]. unfold find in H. lia.
  - apply find_from_notin.
Qed.

Lemma find_first (x : Z) (l : list Z) : In x l ->
  exists i, find x l = Z.of_nat i /\ nth_error l i = Some x /\ ~ In x (firstn i l).
Proof. intro H. destruct (find_from_in x l 0 H) as [i [H1 H2]]. exists i. split; [exact H1|exact H2]. Qed.

(* ---- counts ------------------------------------------------------------------ *)
Lemma counts_def (l : list Z) : counts l = map (fun x => (x, count x l)) (uniquify l).
Proof. reflexivity. Qed.

Lemma counts_keys (l : list Z) : map fst (counts l) = uniquify l.
Proof. unfold counts. rewrite map_map. simpl. apply map_id. Qed.

Lemma counts_In (l : list Z) (x c : Z) : In (x, c) (counts l) <-> In x l /\ c = count x l.
Proof.
  unfold counts. rewrite in_map_iff. split.
  - intros [y [E H]]. inversion E; subst. rewrite uniquify_In in H. split; [exact H|reflexivity].
  - intros [H ->]. exists x. split; [reflexivity|apply uniquify_In; exact H].
Qed.

Lemma sum_indicator (y : Z) (u : list Z) : NoDup u ->
  sumr (map (fun x => if y =? x then 1 else 0) u) = if memZ y u then 1 else 0.
Proof.
  induction 1 as [|x u Hx Hnd IH]; [reflexivity|]. unfold sumr in *. simpl. rewrite IH.
  destruct (Z.eqb_spec y x) as [E|E]; simpl; [|reflexivity].
  subst. destruct (memZ x u) eqn:M; [apply memZ_In in M; tauto|reflexivity].
Qed.

Lemma counts_total_gen (l u : list Z) : NoDup u -> (forall y, In y l -> In y u) ->
  sumr (map (fun x => count x l) u) = Z.of_nat (length l).
Proof.
  intros Hnd. induction l as [|y r IH]; intro Hs.
  - clear Hs Hnd. simpl. induction u as [|x u IHu]; [reflexivity|]. unfold sumr in *. simpl. exact IHu.
  - assert (E : sumr (map (fun x => count x (y :: r)) u)
               = sumr (map (fun x => if y =? x then 1 else 0) u) + sumr (map (fun x => count x r) u)).
    { clear. induction u as [|x u IHu]; [reflexivity|]. unfold sumr in *. cbn [map fold_right]. rewrite IHu. cbn [count]. lia. }
    rewrite E, IH by (intros z Hz; apply Hs; right; exact Hz).
    rewrite sum_indicator by exact Hnd.
    destruct (memZ y u) eqn:M; [simpl length; lia|].
    apply memZ_false in M. exfalso. apply M, Hs. left. reflexivity.
Qed.

Lemma counts_total (l : list Z) : vsum (map snd (counts l)) = Z.of_nat (length l).
Proof.
  rewrite vsum_fold. unfold counts. rewrite map_map. simpl.
  apply (counts_total_gen l (uniquify l)); [apply uniquify_NoDup|]. intros y H. apply uniquify_In. exact H.
Qed.

(* ---- group_consecutive --------------------------------------------------------- *)
Lemma grp_go_concat (l : list Z) (p : Z) (c : nat) : concat (grp_go p c l) = repeat p c ++ l.
Proof.
  revert p c; induction l as [|x r IH]; intros p c; simpl.
  - reflexivity.
  - destruct (Z.eqb_spec p x) as [E|E].
    + subst. rewrite IH. cbn [repeat]. rewrite repeat_cons, <- app_assoc. reflexivity.
    + simpl. rewrite IH. reflexivity.
Qed.

Lemma group_concat (l : list Z) : concat (group_consecutive l) = l.
Proof. destruct l as [|x r]; [reflexivity|]. simpl. rewrite grp_go_concat. reflexivity. Qed.

Lemma grp_go_runs (l : list Z) (p : Z) (c : nat) : Forall run (grp_go p (S c) l).
Proof.
  revert p c; induction l as [|x r IH]; intros p c; simpl.
  - constructor; [exists p, c; reflexivity|constructor].
  - destruct (p =? x); [apply IH|]. constructor; [exists p, c; reflexivity|apply IH].
Qed.

Lemma group_runs (l : list Z) : Forall run (group_consecutive l).
Proof. destruct l as [|x r]; [constructor|]. apply grp_go_runs. Qed.

Lemma grp_go_head (l : list Z) (p : Z) (c : nat) :
  exists n rest, grp_go p (S c) l = repeat p (S n) :: rest.
Proof.
  revert c; induction l as [|x r IH]; intro c; simpl.
  - exists c, []. reflexivity.
  - destruct (p =? x); [apply IH|]. exists c. eexists. reflexivity.
Qed.

Lemma grp_go_neighbours (l : list Z) (p : Z) (c : nat) : Sorted heads_differ (grp_go p (S c) l).
Proof.
  revert p c; induction l as [|x r IH]; intros p c; simpl.
  - constructor; constructor.
  - destruct (Z.eqb_spec p x) as [E|E]; [apply IH|].
    constructor; [apply IH|]. destruct (grp_go_head r x 0) as [n [rest H]]. rewrite H.
    constructor. unfold heads_differ. simpl. exact E.
Qed.

Lemma group_neighbours (l : list Z) : Sorted heads_differ (group_consecutive l).
Proof. destruct l as [|x r]; [constructor|]. apply grp_go_neighbours. Qed.
