(* C18, part 4: tokens, structures, whole programs.
   `tr` of Model/Transpile.v is a nested fixpoint with local helper fixpoints; `g_tr` below is
   the same body with the recursive call abstracted (`tr_eq`, by computation), so that each
   helper gets its own lemma. *)
From Coq Require Import List NArith ZArith Bool Lia Arith String Ascii.
From Vy Require Import Model.Base Model.Lexer Model.Parser Model.Transpile Model.Provenance
  Gen.ParserConsts Gen.Codepage Gen.Elements
  Proofs.ParserFacts Proofs.C18Base Proofs.C18Shapes Proofs.C18Lex.
Import ListNotations.
Open Scope N_scope.
Arguments N.eqb : simpl never.
Arguments N.leb : simpl never.

(* ---- the body of `tr` with the recursive call as a parameter ------------------------------ *)
Section Gen.
  Variable undict : str -> str.
  Variable f : struct -> nat -> st -> tres (str * st).

  Fixpoint g_list (l : list struct) (indent : nat) (c : st) {struct l} : tres (str * st) :=
    match l with
    | [] => TOk ([], c)
    | [x] => f x indent c
    | x :: r => bindT (f x indent c) (fun '(a, c1) =>
                bindT (g_list r indent c1) (fun '(b, c2) => TOk (a ++ [nl] ++ b, c2)))
    end.

  Definition g_ast (l : list struct) (indent : nat) (c : st) : tres (str * st) :=
    match l with
    | [] => TOk (indent_str (L "pass") indent, c)
    | _ => g_list l indent c
    end.

  Definition g_lam_with (a : option Z) (body : st -> tres (str * st)) (indent : nat) (c : st) : tres (str * st) :=
    let id := fst c in
    let name := lambda_name id in
    bindT (body (S id, snd c)) (fun '(b, c1) =>
    TOk (indent_str (L "def " ++ name ++ L "(arg_stack, self, arity=-1, ctx=None):") indent
         ++ indent_str (L "if arity != -1: stack = wrapify(arg_stack, arity, ctx=ctx)") (S indent)
         ++ indent_str (L "elif 'stored_arity' in dir(self): stack = wrapify(arg_stack, self.stored_arity, ctx)") (S indent)
         ++ indent_str (L "else: stack = wrapify(arg_stack, " ++ arity_text a ++ L ", ctx)") (S indent)
         ++ indent_str (L "this = self") (S indent)
         ++ indent_str (L "ctx.function_stack.append(this)") (S indent)
         ++ indent_str (L "ctx.context_values.append(list(deep_copy(stack)) if len(stack) != 1 else deep_copy(stack[0]))") (S indent)
         ++ indent_str (L "ctx.inputs.append([list(deep_copy(stack))[::-1], 0]);") (S indent)
         ++ indent_str (L "ctx.stacks.append(stack);") (S indent)
         ++ indent_str b (S indent)
         ++ indent_str (L "res = [pop(stack, 1, ctx)]") (S indent)
         ++ indent_str (L "ctx.context_values.pop()") (S indent)
         ++ indent_str (L "ctx.inputs.pop()") (S indent)
         ++ indent_str (L "ctx.stacks.pop()") (S indent)
         ++ indent_str (L "ctx.function_stack.pop()") (S indent)
         ++ indent_str (L "return res") (S indent)
         ++ indent_str (name ++ L ".arity = " ++ arity_text a) indent
         ++ indent_str (L "stack.append(" ++ name ++ L ")") indent, c1)).

  Definition g_lam (a : option Z) (body : list struct) (indent : nat) (c : st) : tres (str * st) :=
    g_lam_with a (g_ast body 0%nat) indent c.

  Fixpoint g_items (l : list (list struct)) (indent : nat) (c : st) {struct l} : tres (str * st) :=
    match l with
    | [] => TOk ([], c)
    | x :: r =>
        bindT (g_ast x (S indent) c) (fun '(b, c1) =>
        bindT (g_items r indent c1) (fun '(rest, c2) =>
        TOk (indent_str (L "def list_item(s, ctx):") indent
             ++ indent_str (L "stack = list(deep_copy(s))") (S indent)
             ++ b
             ++ indent_str (L "if len(stack) == 0: return") (S indent)
             ++ indent_str (L "return pop(stack, 1, ctx=ctx)") (S indent)
             ++ indent_str (L "f = list_item(stack, ctx)") indent
             ++ indent_str (L "if f is not None: temp_list.append(f)") indent
             ++ rest, c2)))
    end.

  Fixpoint g_ifs (bs : list (list struct)) (first : bool) (new_indent : nat) (c : st) {struct bs}
    : tres (str * st) :=
    match bs with
    | [] => TOk ([], c)
    | [body] =>
        if first then
          bindT (g_ast body (S new_indent) c) (fun '(b, c1) =>
          TOk (indent_str (L "condition = pop(stack, 1, ctx=ctx)") new_indent
               ++ indent_str (L "if boolify(condition, ctx):") new_indent ++ b, c1))
        else
          bindT (g_ast body (S new_indent) c) (fun '(b, c1) =>
          TOk (indent_str (L "else:") new_indent ++ b, c1))
    | x :: ((y :: rest) as tl) =>
        if first then
          bindT (g_ast x (S new_indent) c) (fun '(b, c1) =>
          bindT (g_ifs tl false new_indent c1) (fun '(more, c2) =>
          TOk (indent_str (L "condition = pop(stack, 1, ctx=ctx)") new_indent
               ++ indent_str (L "if boolify(condition, ctx):") new_indent ++ b ++ more, c2)))
        else
          bindT (g_ast x (S new_indent) c) (fun '(cond, c1) =>
          bindT (g_ast y (S (S new_indent)) c1) (fun '(b, c2) =>
          bindT (g_ifs rest false (S new_indent) c2) (fun '(more, c3) =>
          TOk (indent_str (L "else:") new_indent ++ cond
               ++ indent_str (L "condition = pop(stack, 1, ctx=ctx)") (S new_indent)
               ++ indent_str (L "if boolify(condition, ctx):") (S new_indent) ++ b ++ more, c3))))
    end.

  Definition g_wrapped (x : struct) (indent : nat) (c : st) : tres (str * st) :=
    match x with
    | SLambda a body => g_lam a body indent c
    | _ => g_lam_with (fst (lambda_wrap1 x)) (f x 0%nat) indent c
    end.

  Definition g_tr (s : struct) (indent : nat) (c : st) : tres (str * st) :=
    match s with
    | SGeneric t => bindT (transpile_token undict t indent) (fun x => TOk (x, c))
    | SIf bs => g_ifs bs true indent c
    | SFor names body =>
        let '(raw, c0) := match names with
                          | n :: _ => (n, c)
                          | [] => (L "LOOP" ++ N_to_dec (N.of_nat (snd c)), (fst c, S (snd c)))
                          end in
        let v := keep re_keep_for raw in
        let var := match v with [] => L "ctx.ghost_variable" | _ => L "VAR_" ++ v end in
        bindT (g_ast body (S indent) c0) (fun '(b, c1) =>
        TOk (indent_str (L "for " ++ var ++ L " in iterable(pop(stack, 1, ctx=ctx), range, ctx):") indent
             ++ indent_str (L "    ctx.context_values.append(" ++ var ++ L ")") indent
             ++ b
             ++ indent_str (L "    ctx.context_values.pop()") indent, c1))
    | SWhile cond body =>
        bindT (g_ast cond indent c) (fun '(c_a, c1) =>
        bindT (g_ast body (S indent) c1) (fun '(b, c2) =>
        bindT (g_ast cond (S indent) c2) (fun '(c_b, c3) =>
        TOk (c_a
             ++ indent_str (L "condition = pop(stack, 1, ctx=ctx)") indent
             ++ indent_str (L "while boolify(condition, ctx):") indent
             ++ indent_str (L "    ctx.context_values.append(condition)") indent
             ++ b
             ++ indent_str (L "    ctx.context_values.pop()") indent
             ++ c_b
             ++ indent_str (L "    condition = pop(stack, 1, ctx=ctx)") indent, c3))))
    | SFnCall name =>
        TOk (indent_str (L "stack += VAR_" ++ keep re_keep_fncall name ++ L "(stack, self=None, ctx=ctx)") indent, c)
    | SFnDef name params body =>
        let var := keep re_keep_fndef name in
        bindT (params_text params) (fun ptext =>
        bindT (g_ast body 0%nat c) (fun '(b, c1) =>
        TOk (indent_str (L "def VAR_" ++ var ++ L "(arg_stack, self, arity=-1, ctx=None):") indent
             ++ indent_str (L "parameters = []") (S indent)
             ++ indent_str ptext (S indent)
             ++ indent_str (L "stack = parameters[::]") (S indent)
             ++ indent_str (L "ctx.context_values.append(parameters[::])") (S indent)
             ++ indent_str (L "ctx.stacks.append(stack)") (S indent)
             ++ indent_str (L "ctx.inputs.append([parameters[::-1], 0])") (S indent)
             ++ indent_str (L "this = VAR_" ++ var) (S indent)
             ++ indent_str b (S indent)
             ++ indent_str (L "ctx.context_values.pop()") (S indent)
             ++ indent_str (L "ctx.inputs.pop()") (S indent)
             ++ indent_str (L "ctx.stacks.pop()") (S indent)
             ++ indent_str (L "return stack") (S indent), c1)))
    | SLambda a body => g_lam a body indent c
    | SLamOp o body =>
        bindT (g_lam (Some 1%Z) body indent c) (fun '(x, c1) =>
        TOk (x ++ indent_str (element_text (lamop_key o)) indent, c1))
    | SList its =>
        bindT (g_items its indent c) (fun '(x, c1) =>
        TOk (indent_str (L "temp_list = []") indent ++ x
             ++ indent_str (L "stack.append(list(deep_copy(temp_list)))") indent, c1))
    | SMod1 m a =>
        bindT (g_wrapped a indent c) (fun '(ea, c1) =>
        TOk (ea ++ [nl] ++ indent_str (L "function_A = pop(stack, 1, ctx)") indent
             ++ indent_str (modifier_text m) indent, c1))
    | SMod2 m a b =>
        bindT (g_wrapped a indent c) (fun '(ea, c1) =>
        bindT (g_wrapped b indent c1) (fun '(eb, c2) =>
        TOk (ea ++ [nl] ++ indent_str (L "function_A = pop(stack, 1, ctx)") indent
             ++ eb ++ [nl] ++ indent_str (L "function_B = pop(stack, 1, ctx)") indent
             ++ indent_str (modifier_text m) indent, c2)))
    | SMod3 m a b d =>
        bindT (g_wrapped a indent c) (fun '(ea, c1) =>
        bindT (g_wrapped b indent c1) (fun '(eb, c2) =>
        bindT (g_wrapped d indent c2) (fun '(ed, c3) =>
        TOk (ea ++ [nl] ++ indent_str (L "function_A = pop(stack, 1, ctx)") indent
             ++ eb ++ [nl] ++ indent_str (L "function_B = pop(stack, 1, ctx)") indent
             ++ ed ++ [nl] ++ indent_str (L "function_C = pop(stack, 1, ctx)") indent
             ++ indent_str (modifier_text m) indent, c3))))
    | SBreak p => TOk (break_text p indent, c)
    | SRecurse p => TOk (recurse_text p indent, c)
    end.
End Gen.

Lemma tr_eq undict s indent c : tr undict s indent c = g_tr undict (tr undict) s indent c.
Proof.
  (* by computation; the kernel's conversion is much faster here than the tactic unifier *)
  destruct s; match goal with |- _ = ?r => exact_no_check (@eq_refl _ r) end.
Qed.

Lemma tr_list_eq undict l indent c : tr_list undict l indent c = g_list (tr undict) l indent c.
Proof.
  revert indent c. induction l as [|x l IH]; intros indent c; [reflexivity|].
  destruct l as [|y l]; [reflexivity|].
  change (tr_list undict (x :: y :: l) indent c) with
    (bindT (tr undict x indent c) (fun '(a, c1) =>
     bindT (tr_list undict (y :: l) indent c1) (fun '(b, c2) => TOk (a ++ [nl] ++ b, c2)))).
  change (g_list (tr undict) (x :: y :: l) indent c) with
    (bindT (tr undict x indent c) (fun '(a, c1) =>
     bindT (g_list (tr undict) (y :: l) indent c1) (fun '(b, c2) => TOk (a ++ [nl] ++ b, c2)))).
  destruct (tr undict x indent c) as [[a c1]|e]; [|reflexivity].
  cbn [bindT]. rewrite IH. reflexivity.
Qed.

Lemma bindT_ok {A B} (r : tres A) (k : A -> tres B) y :
  bindT r k = TOk y -> exists x, r = TOk x /\ k x = TOk y.
Proof. destruct r as [x|e]; simpl; intro H; [|discriminate]. exists x. split; [reflexivity|exact H]. Qed.

Ltac bind_inv H :=
  let x := fresh "x" in let Hx := fresh "Hx" in
  apply bindT_ok in H as [x [Hx H]]; try (destruct x as [? ?]).

Lemma TOk_pair_inj {A B} (a b : A) (c d : B) : TOk (a, c) = TOk (b, d) -> a = b /\ c = d.
Proof. intro H. inversion H. split; reflexivity. Qed.
Lemma TOk_inj {A} (a b : A) : TOk a = TOk b -> a = b.
Proof. intro H. inversion H. reflexivity. Qed.

Ltac tok_inv H :=
  cbv beta iota in H;
  first [apply TOk_pair_inj in H as [<- <-] | apply TOk_inj in H as <-].

Lemma ST_one_eq st core t : t = core ++ [nl] -> safe_core st core = true -> safe_text st t.
Proof. intros -> H. apply (safe_text_one st [] core eq_refl H). Qed.

Lemma ST_eq st n a b : a = b -> safe_text st (indent_str b n) -> safe_text st (indent_str a n).
Proof. intros ->. auto. Qed.

(* ---- tokens ------------------------------------------------------------------------------------ *)
Section Tokens.
  Variable st : bool.
  Variable undict : str -> str.
  Variable n : nat.

  Local Notation ST := (safe_text st).

  Lemma find_elem_in_In k tbl e : find_elem_in k tbl = Some e -> In e tbl.
  Proof.
    induction tbl as [|x tbl IH]; simpl; [discriminate|].
    destruct (str_eqb (e_key x) k); [intro H; inversion H; left; reflexivity|intro H; right; apply IH; exact H].
  Qed.
  Lemma find_modif_in_In k tbl e : find_modif_in k tbl = Some e -> In e tbl.
  Proof.
    induction tbl as [|x tbl IH]; simpl; [discriminate|].
    destruct (str_eqb (m_key x) k); [intro H; inversion H; left; reflexivity|intro H; right; apply IH; exact H].
  Qed.

  Lemma ST_pass_nl : ST (indent_str (L "pass" ++ [nl]) n).
  Proof.
    apply ST_indent. apply (safe_chunk st [] (L "pass") []); [reflexivity| |constructor].
    apply safe_core_fixed. reflexivity.
  Qed.

  Lemma ST_element k : ST (indent_str (element_text k) n).
  Proof.
    unfold element_text. destruct (find_elem k) as [e|] eqn:E; [|apply ST_pass_nl].
    apply ST_template. intros l Hl. unfold template_lines. apply in_or_app. left.
    apply in_flat_map. exists e. split; [|exact Hl].
    unfold find_elem in E. apply find_elem_in_In in E. apply in_rev. exact E.
  Qed.

  Lemma ST_modifier m : ST (indent_str (modifier_text m) n).
  Proof.
    unfold modifier_text. destruct (find_modif [m]) as [x|] eqn:E.
    - apply ST_template. intros l Hl. unfold template_lines. apply in_or_app. right.
      apply in_flat_map. exists x. split; [|exact Hl].
      unfold find_modif in E. apply find_modif_in_In in E. apply in_rev. exact E.
    - apply ST_fixed. reflexivity.
  Qed.

  Lemma ST_int z : ST (indent_str (L "stack.append(" ++ Z_to_dec z ++ L ")") n).
  Proof. apply (ST_shape st n sh_int (Z_to_dec z)); [simpl; tauto|apply Z_to_dec_dec]. Qed.

  Lemma token_safe t x :
    tok_ok st undict t = true -> token_text undict t = TOk x -> ST (indent_str x n).
  Proof.
    unfold tok_ok, token_text. destruct t as [k v]. cbn [tk tv].
    destruct k; intros Hok H.
    - (* STRING *)
      tok_inv H. apply ST_core. apply safe_core_string.
      apply (escape_ok st (List.length (undict v)) _ (le_n _)). exact Hok.
    - (* NUMBER *)
      tok_inv H. destruct (number_text_shape v Hok) as [p [Hp [-> | ->]]].
      + apply (ST_shape st n sh_rational p); [simpl; tauto|exact Hp].
      + apply (ST_shape st n sh_nsimplify p); [simpl; tauto|exact Hp].
    - (* CHARACTER *)
      destruct v as [|c [|? ?]]; try discriminate.
      destruct (py_repr_char c) as [r|] eqn:E; [|discriminate]. tok_inv H.
      apply (ST_shape st n sh_char r); [simpl; tauto|]. apply (py_repr_char_ok c r E).
    - (* GENERAL *)
      tok_inv H. apply ST_element.
    - (* COMPRESSED NUMBER *)
      tok_inv H. apply ST_int.
    - (* COMPRESSED STRING *)
      destruct (uncompress_str v) as [s|]; [|discriminate].
      unfold py_repr_plain in H. destruct (forallb plain_repr_char s) eqn:E; [|discriminate].
      tok_inv H.
      apply (ST_eq st n _ (L "stack.append('" ++ s ++ L "')")); [simpl; rewrite <- ?app_assoc; reflexivity|].
      apply (ST_shape st n sh_sq s); [simpl; tauto|exact E].
    - (* VARIABLE GET *)
      revert H. apply match95; intro H; tok_inv H.
      + apply ST_fixed. reflexivity.
      + apply (ST_shape st n sh_varget_ctx v); [simpl; tauto|exact Hok].
      + apply (ST_shape st n sh_varget v); [simpl; tauto|exact Hok].
    - (* VARIABLE SET *)
      revert H. apply match95; intro H; tok_inv H.
      + apply ST_fixed. reflexivity.
      + apply (ST_shape st n sh_varset_ctx v); [simpl; tauto|exact Hok].
      + apply (ST_shape st n sh_varset v); [simpl; tauto|exact Hok].
    - (* CODE PAGE NUMBER *)
      destruct v as [|c [|? ?]]; try discriminate. tok_inv H. apply ST_int.
  Qed.
End Tokens.

(* ---- structures ---------------------------------------------------------------------------------- *)
(* pieces of a concatenation *)
Ltac pieces :=
  repeat match goal with
  | |- safe_text _ (_ ++ _) => apply safe_text_app
  | |- safe_text _ [nl] => apply safe_text_nl
  | |- safe_text _ (indent_str (element_text _) _) => apply ST_element
  | |- safe_text _ (indent_str (modifier_text _) _) => apply ST_modifier
  | |- safe_text _ (indent_str _ _) =>
      first [ (apply ST_fixed; reflexivity) | (apply ST_fixed_sp; reflexivity)
            | (apply ST_indent; assumption) | (apply ST_core; assumption) ]
  | |- safe_text _ _ => assumption
  end.

Section Structures.
  Variable st : bool.
  Variable undict : str -> str.

  Local Notation ST := (safe_text st).
  Definition good (f : struct -> nat -> Transpile.st -> tres (str * Transpile.st)) (x : struct) : Prop :=
    forall indent c text c', f x indent c = TOk (text, c') -> ST text.

  Lemma break_safe p indent : ST (break_text p indent).
  Proof. destruct p as [[]|]; cbn [break_text]; pieces. Qed.

  Lemma recurse_safe p indent : ST (recurse_text p indent).
  Proof.
    destruct p as [[]|]; cbn [recurse_text]; pieces.
    all: apply ST_indent;
      apply (safe_chunk st [] (L "stack += ctx.function_stack[-2](stack, ctx.function_stack[-2], ctx=ctx)") []);
      [reflexivity|apply safe_core_fixed; reflexivity|constructor].
  Qed.

  Lemma params_safe ps : forall text, params_text ps = TOk text -> ST text.
  Proof.
    induction ps as [|p r IH]; intros text H; cbn [params_text] in H.
    - tok_inv H. constructor.
    - bind_inv H. bind_inv H. tok_inv H. apply safe_text_app; [|apply IH; exact Hx0].
      clear Hx0 IH. destruct (is_numeric p).
      + destruct (all_ascii_digits p); [|discriminate]. tok_inv Hx.
        apply (ST_one_eq st (L "parameters += wrapify(arg_stack, " ++ N_to_dec (dec_value p 0) ++ L ", ctx)"));
          [rewrite <- ?app_assoc; reflexivity|].
        apply (safe_core_line_shape st sh_param_num (N_to_dec (dec_value p 0))); [simpl; tauto|].
        apply N_to_dec_dec.
      + destruct (str_eqb p [42]).
        * tok_inv Hx.
          apply (ST_one_eq st (L "parameters += wrapify(arg_stack, pop(arg_stack, 1, ctx=ctx), ctx=ctx)"));
            [reflexivity|]. apply safe_core_fixed. reflexivity.
        * tok_inv Hx.
          apply (ST_one_eq st (L "VAR_" ++ keep re_keep_fnparam p ++ L " =pop(arg_stack, 1, ctx=ctx)"));
            [rewrite <- ?app_assoc; reflexivity|].
          apply (safe_core_line_shape st sh_param (keep re_keep_fnparam p)); [simpl; tauto|].
          apply keep_ident. exact re_keep_fnparam_ident.
  Qed.

  Section WithF.
    Variable f : struct -> nat -> Transpile.st -> tres (str * Transpile.st).

    Lemma g_list_good l : Forall (good f) l ->
      forall indent c text c', g_list f l indent c = TOk (text, c') -> ST text.
    Proof.
      induction 1 as [|x l Hx Hl IH]; intros indent c text c' H.
      - tok_inv H. constructor.
      - destruct l as [|y l].
        + eapply Hx. exact H.
        + change (g_list f (x :: y :: l) indent c) with
            (bindT (f x indent c) (fun '(a, c1) =>
             bindT (g_list f (y :: l) indent c1) (fun '(b, c2) => TOk (a ++ [nl] ++ b, c2)))) in H.
          bind_inv H. bind_inv H. tok_inv H.
          apply safe_text_app; [eapply Hx; exact Hx0|].
          apply (safe_text_app st [nl]); [apply safe_text_nl|]. eapply IH. exact Hx1.
    Qed.

    Lemma g_ast_good l : Forall (good f) l ->
      forall indent c text c', g_ast f l indent c = TOk (text, c') -> ST text.
    Proof.
      intros Hl indent c text c' H. destruct l as [|x l].
      - tok_inv H. apply ST_fixed. reflexivity.
      - eapply g_list_good; [exact Hl|exact H].
    Qed.

    Lemma lambda_def_line id : safe_core st (L "def " ++ lambda_name id ++ L "(arg_stack, self, arity=-1, ctx=None):") = true.
    Proof.
      unfold lambda_name.
      replace (L "def " ++ (L "_lambda_" ++ N_to_dec (N.of_nat id)) ++ L "(arg_stack, self, arity=-1, ctx=None):")
        with (L "def _lambda_" ++ N_to_dec (N.of_nat id) ++ L "(arg_stack, self, arity=-1, ctx=None):")
        by (simpl; rewrite <- ?app_assoc; reflexivity).
      apply (safe_core_line_shape st sh_lam_def (N_to_dec (N.of_nat id))); [simpl; tauto|apply N_to_dec_dec].
    Qed.

    Lemma lambda_push_line id : safe_core st (L "stack.append(" ++ lambda_name id ++ L ")") = true.
    Proof.
      unfold lambda_name.
      replace (L "stack.append(" ++ (L "_lambda_" ++ N_to_dec (N.of_nat id)) ++ L ")")
        with (L "stack.append(_lambda_" ++ N_to_dec (N.of_nat id) ++ L ")")
        by (simpl; rewrite <- ?app_assoc; reflexivity).
      apply (safe_core_line_shape st sh_lam_push (N_to_dec (N.of_nat id))); [simpl; tauto|apply N_to_dec_dec].
    Qed.

    Lemma lambda_else_line a : safe_core st (L "else: stack = wrapify(arg_stack, " ++ arity_text a ++ L ", ctx)") = true.
    Proof. apply (safe_core_line_shape st sh_lam_else (arity_text a)); [simpl; tauto|apply arity_text_ok]. Qed.

    Lemma lambda_arity_line id a : safe_core st (lambda_name id ++ L ".arity = " ++ arity_text a) = true.
    Proof.
      unfold lambda_name.
      replace ((L "_lambda_" ++ N_to_dec (N.of_nat id)) ++ L ".arity = " ++ arity_text a)
        with (L "_lambda_" ++ (N_to_dec (N.of_nat id) ++ L ".arity = " ++ arity_text a) ++ [])
        by (rewrite app_nil_r, <- ?app_assoc; reflexivity).
      apply (safe_core_line_shape st sh_lam_arity); [simpl; tauto|].
      cbn [snd sh_lam_arity]. unfold lam_arity_mid.
      rewrite span_digits_app.
      - rewrite N_to_dec_dec, drop_prefix_app. apply arity_text_ok.
      - apply is_dec_forallb. apply N_to_dec_dec.
      - reflexivity.
    Qed.

    Lemma g_lam_with_good a (body : Transpile.st -> tres (str * Transpile.st)) :
      (forall c b c1, body c = TOk (b, c1) -> ST b) ->
      forall indent c text c', g_lam_with a body indent c = TOk (text, c') -> ST text.
    Proof.
      intros Hbody indent c text c' H. unfold g_lam_with in H. bind_inv H. tok_inv H.
      apply Hbody in Hx.
      pose proof (lambda_def_line (fst c)) as H1. pose proof (lambda_push_line (fst c)) as H2.
      pose proof (lambda_else_line a) as H3. pose proof (lambda_arity_line (fst c) a) as H4.
      pieces.
    Qed.

    Lemma g_lam_good a body : Forall (good f) body ->
      forall indent c text c', g_lam f a body indent c = TOk (text, c') -> ST text.
    Proof.
      intros Hb. unfold g_lam. apply g_lam_with_good. intros c b c1 H.
      eapply g_ast_good; [exact Hb|exact H].
    Qed.

    Lemma g_items_good its : Forall (Forall (good f)) its ->
      forall indent c text c', g_items f its indent c = TOk (text, c') -> ST text.
    Proof.
      induction 1 as [|x r Hx Hr IH]; intros indent c text c' H; cbn [g_items] in H.
      - tok_inv H. constructor.
      - bind_inv H. bind_inv H. tok_inv H.
        apply (g_ast_good x Hx) in Hx0. apply IH in Hx1. pieces.
    Qed.

    Lemma g_ifs_good : forall k bs, (List.length bs <= k)%nat -> Forall (Forall (good f)) bs ->
      forall first indent c text c', g_ifs f bs first indent c = TOk (text, c') -> ST text.
    Proof.
      induction k as [|k IH]; intros bs Hlen Hbs first indent c text c' H.
      - destruct bs; [|simpl in Hlen; lia]. tok_inv H. constructor.
      - destruct bs as [|x [|y rest]].
        + tok_inv H. constructor.
        + inversion Hbs as [|? ? Hx _]; subst. cbn [g_ifs] in H.
          destruct first; bind_inv H; tok_inv H; apply (g_ast_good x Hx) in Hx0; pieces.
        + inversion Hbs as [|? ? Hx Htl]; subst. inversion Htl as [|? ? Hy Hrest]; subst.
          cbn [g_ifs] in H. simpl in Hlen. destruct first.
          * bind_inv H. bind_inv H. tok_inv H. apply (g_ast_good x Hx) in Hx0.
            assert (Hm : ST s1) by exact (IH (y :: rest) ltac:(simpl; lia) Htl false indent s0 s1 s2 Hx1). pieces.
          * bind_inv H. bind_inv H. bind_inv H. tok_inv H.
            apply (g_ast_good x Hx) in Hx0. apply (g_ast_good y Hy) in Hx1.
            assert (Hm : ST s3) by exact (IH rest ltac:(lia) Hrest false (S indent) s2 s3 s4 Hx2). pieces.
    Qed.
  End WithF.

  (* stated for an abstract f: the kernel has nothing to unfold but g_wrapped itself *)
  Lemma g_wrapped_cases f x indent c :
    (exists a body, x = SLambda a body /\ g_wrapped f x indent c = g_lam f a body indent c)
    \/ g_wrapped f x indent c = g_lam_with (fst (lambda_wrap1 x)) (f x 0%nat) indent c.
  Proof. destruct x; try (right; reflexivity). left. eauto. Qed.

  Lemma g_tr_lambda f a body indent c : g_tr undict f (SLambda a body) indent c = g_lam f a body indent c.
  Proof. reflexivity. Qed.

  Lemma wrapped_good x : good (tr undict) x ->
    forall indent c text c', g_wrapped (tr undict) x indent c = TOk (text, c') -> ST text.
  Proof.
    intros Hx indent c text c' H.
    destruct (g_wrapped_cases (tr undict) x indent c) as [[a [body [-> E]]]|E]; rewrite E in H.
    - (* an operand that is a lambda is transpiled as it is *)
      eapply Hx. rewrite tr_eq, g_tr_lambda. exact H.
    - eapply g_lam_with_good; [|exact H]. intros c0 b c1 Hb. eapply Hx. exact Hb.
  Qed.

  Definition Q (t : token) : Prop := tok_ok st undict t = true.

  Lemma Forall_mp {A} (P1 P2 : A -> Prop) l : Forall (fun x => P1 x -> P2 x) l -> Forall P1 l -> Forall P2 l.
  Proof. induction 1 as [|x l Hx Hl IH]; intro H'; inversion H'; subst; constructor; auto. Qed.

  Lemma Forall2_mp {A} (P1 P2 : A -> Prop) l :
    Forall (Forall (fun x => P1 x -> P2 x)) l -> Forall (Forall P1) l -> Forall (Forall P2) l.
  Proof. induction 1 as [|x l Hx Hl IH]; intro H'; inversion H'; subst; constructor; [eapply Forall_mp; eassumption|auto]. Qed.

  Theorem tree_safe s : tree_ok Q s -> good (tr undict) s.
  Proof.
    induction s as [t|p|p|bs IHbs|names body IHbody|cond body IHcond IHbody|name|name ps body IHbody
                    |a body IHbody|o body IHbody|its IHits|m x IHx|m x y IHx IHy|m x y z IHx IHy IHz]
      using struct_ind';
      intros Hok indent cc text cc' Htr; rewrite tr_eq in Htr; cbn [g_tr] in Htr;
      inversion Hok; subst.
    - (* token *)
      bind_inv Htr. tok_inv Htr. unfold transpile_token in Hx.
      destruct (token_text undict t) as [y|e] eqn:E; [|discriminate]. tok_inv Hx.
      eapply token_safe; [eassumption|exact E].
    - tok_inv Htr. apply break_safe.
    - tok_inv Htr. apply recurse_safe.
    - (* if *)
      eapply (g_ifs_good (tr undict) (List.length bs) bs (le_n _)); [|exact Htr].
      eapply Forall2_mp; eassumption.
    - (* for *)
      assert (Hb : Forall (good (tr undict)) body) by (eapply Forall_mp; eassumption).
      destruct (match names with
                | n0 :: _ => (n0, cc)
                | [] => (L "LOOP" ++ N_to_dec (N.of_nat (snd cc)), (fst cc, S (snd cc)))
                end) as [raw c0].
      bind_inv Htr. tok_inv Htr. apply (g_ast_good (tr undict) body Hb) in Hx.
      pose proof (keep_ident re_keep_for raw re_keep_for_ident) as Hid.
      destruct (keep re_keep_for raw) as [|v0 v] eqn:Ev.
      + pieces.
      + apply safe_text_app.
        { apply (ST_eq st indent _ (L "for VAR_" ++ (v0 :: v) ++ L " in iterable(pop(stack, 1, ctx=ctx), range, ctx):"));
            [simpl; rewrite <- ?app_assoc; reflexivity|].
          apply (ST_shape st indent sh_for (v0 :: v)); [simpl; tauto|exact Hid]. }
        apply safe_text_app.
        { apply ST_line. unfold safe_line.
          replace (strip_sp (L "    ctx.context_values.append(" ++ (L "VAR_" ++ v0 :: v) ++ L ")"))
            with (L "ctx.context_values.append(VAR_" ++ (v0 :: v) ++ L ")")
            by (simpl; rewrite <- ?app_assoc; reflexivity).
          apply (safe_core_line_shape st sh_for_ctx (v0 :: v)); [simpl; tauto|exact Hid]. }
        pieces.
    - (* while *)
      assert (Hc : Forall (good (tr undict)) cond) by (eapply Forall_mp; eassumption).
      assert (Hb : Forall (good (tr undict)) body) by (eapply Forall_mp; eassumption).
      bind_inv Htr. bind_inv Htr. bind_inv Htr. tok_inv Htr.
      apply (g_ast_good (tr undict) cond Hc) in Hx, Hx1. apply (g_ast_good (tr undict) body Hb) in Hx0.
      pieces.
    - (* function call *)
      tok_inv Htr.
      apply (ST_shape st indent sh_fncall (keep re_keep_fncall name)); [simpl; tauto|].
      apply keep_ident. exact re_keep_fncall_ident.
    - (* function definition *)
      assert (Hb : Forall (good (tr undict)) body) by (eapply Forall_mp; eassumption).
      bind_inv Htr. bind_inv Htr. tok_inv Htr.
      apply params_safe in Hx. apply (g_ast_good (tr undict) body Hb) in Hx0.
      pose proof (keep_ident re_keep_fndef name re_keep_fndef_ident) as Hid.
      apply safe_text_app.
      { apply (ST_shape st indent sh_fndef (keep re_keep_fndef name)); [simpl; tauto|exact Hid]. }
      pieces.
      apply (ST_eq st (S indent) _ (L "this = VAR_" ++ keep re_keep_fndef name ++ []));
        [rewrite app_nil_r; reflexivity|].
      apply (ST_shape st (S indent) sh_this (keep re_keep_fndef name)); [simpl; tauto|exact Hid].
    - (* lambda *)
      eapply (g_lam_good (tr undict)); [|exact Htr]. eapply Forall_mp; eassumption.
    - (* lambda map / filter / sort *)
      bind_inv Htr. tok_inv Htr.
      apply (g_lam_good (tr undict)) in Hx; [|eapply Forall_mp; eassumption]. pieces.
    - (* list *)
      bind_inv Htr. tok_inv Htr.
      apply (g_items_good (tr undict)) in Hx; [|eapply Forall2_mp; eassumption]. pieces.
    - (* monadic modifier *)
      bind_inv Htr. tok_inv Htr. match goal with Hq : tree_ok Q x |- _ => apply (wrapped_good x (IHx Hq)) in Hx end. pieces.
    - (* dyadic modifier *)
      bind_inv Htr. bind_inv Htr. tok_inv Htr.
      match goal with Hq : tree_ok Q x |- _ => apply (wrapped_good x (IHx Hq)) in Hx end.
      match goal with Hq : tree_ok Q y |- _ => apply (wrapped_good y (IHy Hq)) in Hx0 end. pieces.
    - (* triadic modifier *)
      bind_inv Htr. bind_inv Htr. bind_inv Htr. tok_inv Htr.
      match goal with Hq : tree_ok Q x |- _ => apply (wrapped_good x (IHx Hq)) in Hx end.
      match goal with Hq : tree_ok Q y |- _ => apply (wrapped_good y (IHy Hq)) in Hx0 end.
      match goal with Hq : tree_ok Q z |- _ => apply (wrapped_good z (IHz Hq)) in Hx1 end. pieces.
  Qed.

  Theorem program_safe l text :
    Forall (tree_ok Q) l -> transpile_ast undict l = TOk text -> ST text.
  Proof.
    intros Hl H. unfold transpile_ast in H. destruct l as [|x l].
    - tok_inv H. apply ST_fixed. reflexivity.
    - destruct (tr_list undict (x :: l) 0%nat (0%nat, 0%nat)) as [[y c]|e] eqn:E; [|discriminate].
      tok_inv H. rewrite tr_list_eq in E.
      eapply (g_list_good (tr undict)); [|exact E].
      eapply Forall_impl; [|exact Hl]. intros s Hs. apply tree_safe. exact Hs.
  Qed.
End Structures.

(* ---- whole programs, from the source text ------------------------------------------------------------ *)
Lemma lexer_tokens_ok st undict (p : N -> bool) dv src :
  (forall t, tok_lex_ok p t = true -> tok_ok st undict t = true) ->
  forallb p src = true -> Forall (Q st undict) (tokenise_dv dv src).
Proof.
  intros Himp Hsrc. pose proof (tokenise_inv p dv src Hsrc) as H.
  rewrite forallb_forall in H. apply Forall_forall. intros t Ht. apply Himp. apply H. exact Ht.
Qed.

Lemma forallb_const_true (s : str) : forallb (fun _ => true) s = true.
Proof. induction s; [reflexivity|exact IHs]. Qed.

(* any dictionary function, any lexer mode, any source *)
Theorem source_safe_any undict dv src l text :
  parse_tokens (tokenise_dv dv src) = Ok l -> transpile_ast undict l = TOk text -> safe_text false text.
Proof.
  intros Hp Ht. apply (program_safe false undict l text); [|exact Ht].
  unfold parse_tokens in Hp.
  eapply (parse_Q (Q false undict) eq_refl); [|exact Hp].
  apply (lexer_tokens_ok false undict (fun _ => true) dv src).
  - intros t. apply tok_lex_ok_lenient.
  - apply forallb_const_true.
Qed.

Theorem source_safe src text : transpile_nodict src = OText text -> safe_text false text.
Proof.
  unfold transpile_nodict, parse_source. intro H.
  destruct (parse_tokens (tokenise src)) as [l|e|] eqn:Ep; try discriminate.
  destruct (transpile_ast (fun s => s) l) as [x|e] eqn:Et; [|discriminate].
  inversion H; subst. exact (source_safe_any (fun s => s) false src l text Ep Et).
Qed.

(* without a carriage return in the source every string literal is exactly one
   well-terminated Python literal *)
Theorem source_safe_strict src text :
  mem 13 src = false -> transpile_nodict src = OText text -> safe_text true text.
Proof.
  unfold transpile_nodict, parse_source. intros Hcr H.
  destruct (parse_tokens (tokenise src)) as [l|e|] eqn:Ep; try discriminate.
  destruct (transpile_ast (fun s => s) l) as [x|e] eqn:Et; [|discriminate].
  inversion H; subst. apply (program_safe true (fun s => s) l text); [|exact Et].
  unfold parse_tokens in Ep.
  eapply (parse_Q (Q true (fun s => s)) eq_refl); [|exact Ep].
  apply (lexer_tokens_ok true (fun s => s) (fun c => negb (N.eqb c 13)) false src).
  - intros t. apply tok_lex_ok_strict.
  - apply no_cr_forallb. exact Hcr.
Qed.

(* every variable / number token the lexer emits *)
Theorem lexer_var_tokens dv src t : In t (tokenise_dv dv src) ->
  (tk t = KVarGet \/ tk t = KVarSet) -> forallb is_name_char (tv t) = true /\ ident_ok (tv t) = true.
Proof.
  intros Hin Hk. pose proof (tokenise_inv (fun _ => true) dv src (forallb_const_true src)) as H.
  rewrite forallb_forall in H. specialize (H t Hin). unfold tok_lex_ok in H.
  destruct Hk as [Hk|Hk]; rewrite Hk in H; (split; [exact H|apply name_chars_ident; exact H]).
Qed.

Theorem lexer_number_tokens dv src t : In t (tokenise_dv dv src) -> tk t = KNumber ->
  forallb num_src_char (tv t) = true /\
  exists p, num_payload_ok p = true /\
    (number_text (tv t) = L "stack.append(sympy.Rational(""" ++ p ++ L """))"
     \/ number_text (tv t) = L "stack.append(sympy.nsimplify(""" ++ p ++ L """))").
Proof.
  intros Hin Hk. pose proof (tokenise_inv (fun _ => true) dv src (forallb_const_true src)) as H.
  rewrite forallb_forall in H. specialize (H t Hin). unfold tok_lex_ok in H. rewrite Hk in H.
  split; [exact H|apply number_text_shape; exact H].
Qed.

(* every token of the lexer, any dictionary *)
Theorem lexer_token_safe undict dv src t n x : In t (tokenise_dv dv src) ->
  token_text undict t = TOk x -> safe_text false (indent_str x n).
Proof.
  intros Hin Hx. apply (token_safe false undict n t x); [|exact Hx].
  pose proof (lexer_tokens_ok false undict (fun _ => true) dv src
                (fun t => tok_lex_ok_lenient undict t) (forallb_const_true src)) as H.
  rewrite Forall_forall in H. apply H. exact Hin.
Qed.

(* ---- sanity: the predicate rejects what it should, the theorems are not vacuous ---------------------- *)
(* @f:a[b]|1;  with the pre-b346166 regex gave this line *)
Example unsafe_subscript : safe_line false (L "VAR_a[b] =pop(arg_stack, 1, ctx=ctx)") = false.
Proof. vm_compute. reflexivity. Qed.
Example unsafe_statement : safe_line false (L "__import__('os').system('x')") = false.
Proof. vm_compute. reflexivity. Qed.
Example unsafe_early_close : safe_line false (L "stack.append(""a"");__import__('os').system('x');(""b"")") = false.
Proof. vm_compute. reflexivity. Qed.
Example unsafe_trailing_backslash : safe_line false (L "stack.append(""a\"")") = false.
Proof. vm_compute. reflexivity. Qed.
Example safe_escaped_quote : safe_line true (L "    stack.append(""a\""b"")") = true.
Proof. vm_compute. reflexivity. Qed.

(* a function definition with parameters a[b] and 9, a back-quoted string holding x, a double
   quote and an escaped back-quote, a variable set, then a call: text in most injection positions *)
Definition demo_src : str :=
  [64; 102; 58; 97; 91; 98; 93; 58; 57; 124; 96; 120; 34; 92; 96; 32; 8594; 95; 113; 32; 59; 64; 102; 59].
Example source_safe_nonvacuous : exists text, transpile_nodict demo_src = OText text /\ mem 13 demo_src = false.
Proof. eexists. split; [vm_compute; reflexivity|reflexivity]. Qed.

(* a back-quoted string holding backslash + newline: the literal continues on the next
   physical line, so "every physical line is a safe line" is NOT the right statement;
   safe_text treats the two lines as one core *)
Definition continuation_src : str := [96; 97; 92; 10; 98; 96].
Example physical_lines_refuted : exists text,
  transpile_nodict continuation_src = OText text /\ forallb (safe_line false) (lines text) = false.
Proof. eexists. split; vm_compute; reflexivity. Qed.

(* all templates are complete compilation units (translator fact, computed with Python's
   own compile()): a vocabulary line never leaves a bracket or literal open across templates *)
Lemma templates_self_contained :
  forallb e_compiles elements = true /\ forallb m_compiles modifiers = true.
Proof. vm_compute. split; reflexivity. Qed.
