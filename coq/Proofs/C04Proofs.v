(* C04: trailing closers can be dropped without changing the parse. *)
From Coq Require Import List NArith ZArith Bool Lia Arith.
From Vy Require Import Model.Base Model.Lexer Model.Parser Gen.ParserConsts Proofs.ParserFacts.
Import ListNotations.
Open Scope N_scope.

(* ---- comparison of trees: function-call names are compared after deleting closer
   characters (the transpiler deletes every non-identifier character from them) ---- *)
Definition strip_closers (s : str) : str := filter (fun c => negb (mem c closers)) s.

Fixpoint norm (s : struct) : struct :=
  match s with
  | SGeneric t => SGeneric t
  | SBreak p => SBreak p
  | SRecurse p => SRecurse p
  | SIf bs => SIf (map (map norm) bs)
  | SFor n b => SFor n (map norm b)
  | SWhile c b => SWhile (map norm c) (map norm b)
  | SFnCall n => SFnCall (strip_closers n)
  | SFnDef n ps b => SFnDef n ps (map norm b)
  | SLambda a b => SLambda a (map norm b)
  | SLamOp o b => SLamOp o (map norm b)
  | SList items => SList (map (map norm) items)
  | SMod1 m a => SMod1 m (norm a)
  | SMod2 m a b => SMod2 m (norm a) (norm b)
  | SMod3 m a b c => SMod3 m (norm a) (norm b) (norm c)
  end.

Definition same (l1 l2 : list struct) : Prop := map norm l1 = map norm l2.

(* the property of a recursive parser that the induction carries *)
Definition absorbs (c : token) (rec : option pkind -> list token -> res (list struct)) : Prop :=
  forall p ts l1, rec p (ts ++ [c]) = Ok l1 -> exists l2, rec p ts = Ok l2 /\ same l1 l2.

Lemma bind_Ok {A B} (r : res A) (f : A -> res B) y :
  bind r f = Ok y -> exists x, r = Ok x /\ f x = Ok y.
Proof. destruct r; simpl; intro H; try discriminate. eauto. Qed.

Lemma map_res_app {A B} (f : A -> res B) d x :
  map_res f (d ++ [x]) = bind (map_res f d) (fun ds => bind (f x) (fun y => Ok (ds ++ [y]))).
Proof.
  induction d as [|a d IH]; simpl.
  - destruct (f x); reflexivity.
  - rewrite IH. destruct (f a); simpl; try reflexivity.
    destruct (map_res f d); simpl; try reflexivity. destruct (f x); reflexivity.
Qed.

(* ---- names ------------------------------------------------------------------ *)
Definition app_last (l : list str) (x : N) : list str := removelast l ++ [last l [] ++ [x]].

Lemma split_on_nonempty c s cur : split_on c s cur <> [].
Proof. revert cur; induction s as [|y s IH]; intro cur; simpl; [discriminate|]. destruct (N.eqb y c); [discriminate|apply IH]. Qed.

Lemma split_on_snoc c x : x <> c -> forall s cur,
  split_on c (s ++ [x]) cur = app_last (split_on c s cur) x.
Proof.
  intros Hx s. induction s as [|y s IH]; intro cur; simpl.
  - destruct (N.eqb x c) eqn:E; [apply N.eqb_eq in E; congruence|]. reflexivity.
  - destruct (N.eqb y c).
    + rewrite IH. unfold app_last. destruct (split_on c s []) eqn:E2; [|reflexivity].
      exfalso. exact (split_on_nonempty c s [] E2).
    + apply IH.
Qed.

Lemma strip_closers_snoc n x : mem x closers = true -> strip_closers (n ++ [x]) = strip_closers n.
Proof.
  intro H. unfold strip_closers. rewrite filter_app. cbn [filter]. rewrite H. cbn [negb]. apply app_nil_r.
Qed.

Lemma process_parameters_closer cu c x :
  c = Tok KGeneral [x] -> mem x closers = true -> x <> ch_colon ->
  let '(name1, params1) := process_parameters (cu ++ [c]) in
  let '(name2, params2) := process_parameters cu in
  (params1 = [] <-> params2 = []) /\ (params2 = [] -> name1 = name2 ++ [x]).
Proof.
  intros -> Hx Hc. unfold process_parameters, concat_values.
  rewrite flat_map_app. cbn [flat_map tv app].
  rewrite (split_on_snoc ch_colon x Hc).
  pose proof (split_on_nonempty ch_colon (flat_map tv cu) []) as Hne.
  destruct (split_on ch_colon (flat_map tv cu) []) as [|name ps]; [congruence|].
  unfold app_last. destruct ps as [|p ps]; simpl.
  - split; [tauto|]. reflexivity.
  - split; [|discriminate]. split; [|discriminate].
    intro H. apply map_eq_nil in H. destruct ps; simpl in H; discriminate.
Qed.

(* ---- build absorbs a closer appended to the last branch ---------------------- *)
Lemma last_snoc {A} (d : list A) x dflt : last (d ++ [x]) dflt = x.
Proof. induction d as [|a d IH]; [reflexivity|]. simpl. destruct (d ++ [x]) eqn:E; [destruct d; discriminate|]. exact IH. Qed.

Lemma removelast_snoc {A} (d : list A) x : removelast (d ++ [x]) = d.
Proof. apply removelast_last. Qed.

Lemma same_refl l : same l l.
Proof. reflexivity. Qed.

Lemma build_absorbs rec parent cls d cu c x s1 :
  c = Tok KGeneral [x] -> mem x closers = true -> x <> ch_colon ->
  absorbs c rec ->
  build rec parent cls (d ++ [cu ++ [c]]) = Ok s1 ->
  exists s2, build rec parent cls (d ++ [cu]) = Ok s2 /\ norm s1 = norm s2.
Proof.
  intros Hc Hx Hcol Hrec. unfold build.
  rewrite !last_snoc, !removelast_snoc.
  assert (Hsingle : forall y : list token,
            match d ++ [y] with [_] => true | _ => false end = match d with [] => true | _ => false end).
  { intro y. destruct d as [|a [|b d']]; reflexivity. }
  rewrite !Hsingle.
  assert (Hhd : forall y : list token, hd [] (d ++ [y]) = match d with [] => y | a :: _ => a end).
  { intro y. destruct d; reflexivity. }
  rewrite !Hhd.
  destruct cls.
  - (* PIf *) rewrite !map_res_app. intro H.
    apply bind_Ok in H as [bs [H1 H2]]. inversion H2; subst; clear H2.
    apply bind_Ok in H1 as [ds [Hd H1]]. apply bind_Ok in H1 as [y [Hy H1]]. inversion H1; subst; clear H1.
    apply Hrec in Hy as [y2 [Hy2 Hs]]. rewrite Hd. simpl. rewrite Hy2. simpl.
    eexists; split; [reflexivity|]. simpl. rewrite !map_app. simpl. unfold same in Hs. rewrite Hs. reflexivity.
  - (* PFor *) intro H. apply bind_Ok in H as [body [H1 H2]]. inversion H2; subst; clear H2.
    apply Hrec in H1 as [b2 [Hb2 Hs]]. rewrite Hb2. simpl. eexists; split; [reflexivity|].
    simpl. unfold same in Hs. rewrite Hs. reflexivity.
  - (* PWhile *) intro H. apply bind_Ok in H as [cond [H1 H2]]. apply bind_Ok in H2 as [body [H2 H3]].
    inversion H3; subst; clear H3. apply Hrec in H2 as [b2 [Hb2 Hs]].
    destruct d as [|a d'].
    + inversion H1; subst. simpl. rewrite Hb2. simpl. eexists; split; [reflexivity|].
      simpl. unfold same in Hs. rewrite Hs. reflexivity.
    + rewrite H1. simpl. rewrite Hb2. simpl. eexists; split; [reflexivity|].
      simpl. unfold same in Hs. rewrite Hs. reflexivity.
  - (* PFnCall *) destruct d as [|a d'].
    + pose proof (process_parameters_closer cu c x Hc Hx Hcol) as PP.
      destruct (process_parameters (cu ++ [c])) as [name1 params1].
      destruct (process_parameters cu) as [name2 params2].
      destruct PP as [Piff Pname]. intro H.
      destruct params1; [|discriminate]. inversion H; subst; clear H.
      assert (params2 = []) as -> by (apply Piff; reflexivity).
      eexists; split; [reflexivity|]. simpl. rewrite (Pname eq_refl). rewrite strip_closers_snoc by exact Hx. reflexivity.
    + destruct (process_parameters a) as [name params]. intro H.
      apply bind_Ok in H as [body [H1 H2]]. inversion H2; subst; clear H2.
      apply Hrec in H1 as [b2 [Hb2 Hs]]. rewrite Hb2. simpl. eexists; split; [reflexivity|].
      simpl. unfold same in Hs. rewrite Hs. reflexivity.
  - (* PLambda *) destruct d as [|a d'].
    + intro H. apply bind_Ok in H as [body [H1 H2]]. inversion H2; subst; clear H2.
      apply Hrec in H1 as [b2 [Hb2 Hs]]. rewrite Hb2. simpl. eexists; split; [reflexivity|].
      simpl. unfold same in Hs. rewrite Hs. reflexivity.
    + destruct a as [|t0 a']; [discriminate|]. destruct (py_int (tv t0)) as [ar|]; [|discriminate].
      destruct (ar <? 0)%Z; [discriminate|]. intro H.
      apply bind_Ok in H as [body [H1 H2]]. inversion H2; subst; clear H2.
      apply Hrec in H1 as [b2 [Hb2 Hs]]. rewrite Hb2. simpl. eexists; split; [reflexivity|].
      simpl. unfold same in Hs. rewrite Hs. reflexivity.
  - (* PLamMap *) destruct d as [|a d']; intro H.
    + apply bind_Ok in H as [body [H1 H2]]. inversion H2; subst; clear H2.
      apply Hrec in H1 as [b2 [Hb2 Hs]]. rewrite Hb2. simpl. eexists; split; [reflexivity|].
      simpl. unfold same in Hs. rewrite Hs. reflexivity.
    + rewrite H. eexists; split; reflexivity.
  - (* PLamFilter *) destruct d as [|a d']; intro H.
    + apply bind_Ok in H as [body [H1 H2]]. inversion H2; subst; clear H2.
      apply Hrec in H1 as [b2 [Hb2 Hs]]. rewrite Hb2. simpl. eexists; split; [reflexivity|].
      simpl. unfold same in Hs. rewrite Hs. reflexivity.
    + rewrite H. eexists; split; reflexivity.
  - (* PLamSort *) destruct d as [|a d']; intro H.
    + apply bind_Ok in H as [body [H1 H2]]. inversion H2; subst; clear H2.
      apply Hrec in H1 as [b2 [Hb2 Hs]]. rewrite Hb2. simpl. eexists; split; [reflexivity|].
      simpl. unfold same in Hs. rewrite Hs. reflexivity.
    + rewrite H. eexists; split; reflexivity.
  - (* PList *) rewrite !map_res_app. intro H.
    apply bind_Ok in H as [bs [H1 H2]]. inversion H2; subst; clear H2.
    apply bind_Ok in H1 as [ds [Hd H1]]. apply bind_Ok in H1 as [y [Hy H1]]. inversion H1; subst; clear H1.
    apply Hrec in Hy as [y2 [Hy2 Hs]]. rewrite Hd. simpl. rewrite Hy2. simpl.
    eexists; split; [reflexivity|]. simpl. rewrite !map_app. simpl. unfold same in Hs. rewrite Hs. reflexivity.
  - (* PMonadic: as list *) rewrite !map_res_app. intro H.
    apply bind_Ok in H as [bs [H1 H2]]. inversion H2; subst; clear H2.
    apply bind_Ok in H1 as [ds [Hd H1]]. apply bind_Ok in H1 as [y [Hy H1]]. inversion H1; subst; clear H1.
    apply Hrec in Hy as [y2 [Hy2 Hs]]. rewrite Hd. simpl. rewrite Hy2. simpl.
    eexists; split; [reflexivity|]. simpl. rewrite !map_app. simpl. unfold same in Hs. rewrite Hs. reflexivity.
  - rewrite !map_res_app. intro H.
    apply bind_Ok in H as [bs [H1 H2]]. inversion H2; subst; clear H2.
    apply bind_Ok in H1 as [ds [Hd H1]]. apply bind_Ok in H1 as [y [Hy H1]]. inversion H1; subst; clear H1.
    apply Hrec in Hy as [y2 [Hy2 Hs]]. rewrite Hd. simpl. rewrite Hy2. simpl.
    eexists; split; [reflexivity|]. simpl. rewrite !map_app. simpl. unfold same in Hs. rewrite Hs. reflexivity.
  - rewrite !map_res_app. intro H.
    apply bind_Ok in H as [bs [H1 H2]]. inversion H2; subst; clear H2.
    apply bind_Ok in H1 as [ds [Hd H1]]. apply bind_Ok in H1 as [y [Hy H1]]. inversion H1; subst; clear H1.
    apply Hrec in Hy as [y2 [Hy2 Hs]]. rewrite Hd. simpl. rewrite Hy2. simpl.
    eexists; split; [reflexivity|]. simpl. rewrite !map_app. simpl. unfold same in Hs. rewrite Hs. reflexivity.
Qed.

(* ---- one step of the scan on a closer token ------------------------------------- *)
Lemma gb_step_closer x top below cur done :
  mem x closers = true -> closer_char_plain x = true ->
  gb_step (Tok KGeneral [x]) top below cur done =
  if N.eqb x top then
    match below with [] => (below, cur, done) | _ => (below, cur ++ [Tok KGeneral [x]], done) end
  else (top :: below, cur, done).
Proof.
  intros Hx Hp. destruct guards_present as [_ [_ [_ [_ [_ [_ [G7 [G8 G9]]]]]]]].
  unfold closer_char_plain in Hp. repeat (apply andb_prop in Hp as [Hp ?]).
  repeat match goal with X : negb _ = true |- _ => apply negb_true_iff in X end.
  unfold gb_step. rewrite G7, G8, G9.
  unfold guard, is_general, value_in, value_is. cbn [tk tv negb orb tkind_eqb andb].
  repeat match goal with X : _ = false |- _ => rewrite X end.
  rewrite Hx. reflexivity.
Qed.

(* ---- take_operands respects `same` ---------------------------------------------- *)
Lemma take_operands_same n m r1 r2 l1 :
  same r1 r2 -> take_operands n m r1 = Ok l1 ->
  exists l2, take_operands n m r2 = Ok l2 /\ same l1 l2.
Proof.
  unfold same. intros Hs H.
  destruct n as [|[|[|[|n]]]]; simpl in H; try discriminate.
  - destruct r1 as [|a1 more1]; [discriminate|]. destruct r2 as [|a2 more2]; [discriminate|].
    simpl in Hs. inversion Hs as [[Ha Hm]]. inversion H; subst; clear H. simpl.
    eexists; split; [reflexivity|]. destruct (lambda_shorthand m); simpl; rewrite Ha, Hm; reflexivity.
  - destruct r1 as [|a1 [|b1 more1]]; try discriminate. destruct r2 as [|a2 [|b2 more2]]; try discriminate.
    simpl in Hs. inversion Hs as [[Ha Hb Hm]]. inversion H; subst; clear H. simpl.
    eexists; split; [reflexivity|]. destruct (lambda_shorthand m); simpl; rewrite Ha, Hb, Hm; reflexivity.
  - destruct r1 as [|a1 [|b1 [|c1 more1]]]; try discriminate. destruct r2 as [|a2 [|b2 [|c2 more2]]]; try discriminate.
    simpl in Hs. inversion Hs as [[Ha Hb Hc Hm]]. inversion H; subst; clear H. simpl.
    eexists; split; [reflexivity|]. destruct (lambda_shorthand m); simpl; rewrite Ha, Hb, Hc, Hm; reflexivity.
Qed.

Lemma take_operands_nil n m : take_operands n m [] = Err EIndex.
Proof. destruct n as [|[|[|[|n]]]]; reflexivity. Qed.

(* ---- the main induction ---------------------------------------------------------- *)
Lemma parse_absorbs_closer c : closer_tok c = true -> forall f, absorbs c (parse f).
Proof.
  intro Hc. destruct (closer_tok_inv c Hc) as [x [Hcx [Hx Hp]]].
  assert (Hcol : x <> ch_colon).
  { unfold closer_char_plain in Hp. apply andb_prop in Hp as [_ Hp]. apply negb_true_iff in Hp.
    apply N.eqb_neq. exact Hp. }
  induction f as [|f IH]; intros p ts l1 H; [discriminate|].
  destruct ts as [|head rest].
  - (* only the closer *)
    cbn [app parse] in H. rewrite (classify_closer c Hc) in H.
    exists []. split; [reflexivity|]. destruct f; [discriminate|]. inversion H. reflexivity.
  - cbn [app parse] in H. cbn [parse].
    destruct (classify head) as [s|cls cl|n m| |e].
    + apply bind_Ok in H as [l' [H1 H2]]. inversion H2; subst; clear H2.
      apply IH in H1 as [l2 [Hl2 Hs]]. rewrite Hl2. simpl. eexists; split; [reflexivity|].
      unfold same in *. simpl. rewrite Hs. reflexivity.
    + (* a structure opens *)
      unfold get_branches in *. rewrite gb_scan_app in H.
      destruct (gb_scan rest [cl] [] []) as [[[s cu] d] r] eqn:E.
      destruct s as [|top below].
      * (* closed before the end: the closer is in the remaining tokens *)
        apply bind_Ok in H as [s1 [H1 H2]]. apply bind_Ok in H2 as [l' [H2 H3]]. inversion H3; subst; clear H3.
        apply IH in H2 as [l2 [Hl2 Hs]]. rewrite H1. simpl. rewrite Hl2. simpl.
        eexists; split; [reflexivity|]. unfold same in *. simpl. rewrite Hs. reflexivity.
      * (* still open at the end of input *)
        assert (r = []) as -> by (destruct (gb_scan_rest_nil_or_stack_nil _ _ _ _ _ _ _ _ E); [discriminate|assumption]).
        subst c. cbn [gb_scan] in H. rewrite (gb_step_closer x top below cu d Hx Hp) in H.
        destruct (N.eqb x top) eqn:Etop.
        -- destruct below as [|b2 below'].
           ++ cbn [gb_scan] in H. exact (ex_intro _ l1 (conj H (same_refl l1))).
           ++ cbn [gb_scan] in H.
              apply bind_Ok in H as [s1 [H1 H2]]. apply bind_Ok in H2 as [l' [H2 H3]]. inversion H3; subst; clear H3.
              destruct (build_absorbs (parse f) p cls d cu (Tok KGeneral [x]) x s1 eq_refl Hx Hcol IH H1) as [s2 [Hs2 Hn]].
              rewrite Hs2. simpl. rewrite H2. simpl. eexists; split; [reflexivity|].
              unfold same. simpl. rewrite Hn. reflexivity.
        -- cbn [gb_scan] in H. exact (ex_intro _ l1 (conj H (same_refl l1))).
    + (* modifier *)
      destruct rest as [|r0 rest'].
      * cbn [app] in H. apply bind_Ok in H as [rem [H1 H2]].
        destruct f; [discriminate|]. cbn [parse] in H1. rewrite (classify_closer c Hc) in H1.
        destruct f; [discriminate|]. inversion H1; subst. rewrite take_operands_nil in H2. discriminate.
      * cbn [app] in H. apply bind_Ok in H as [rem [H1 H2]].
        change (r0 :: rest' ++ [c]) with ((r0 :: rest') ++ [c]) in H1.
        apply IH in H1 as [rem2 [Hr2 Hs]]. rewrite Hr2. simpl.
        eapply take_operands_same; eauto.
    + apply IH in H. exact H.
    + discriminate.
Qed.

(* ---- any number of trailing closers ---------------------------------------------- *)
Lemma same_trans a b c : same a b -> same b c -> same a c.
Proof. unfold same. congruence. Qed.

Lemma parse_absorbs_closers f p ts cs l1 :
  forallb closer_tok cs = true -> parse f p (ts ++ cs) = Ok l1 ->
  exists l2, parse f p ts = Ok l2 /\ same l1 l2.
Proof.
  revert ts l1. induction cs as [|c cs IH] using rev_ind; intros ts l1 Hcs H.
  - rewrite app_nil_r in H. eauto using same_refl.
  - rewrite forallb_app in Hcs. apply andb_prop in Hcs as [Hcs Hc]. simpl in Hc. rewrite andb_true_r in Hc.
    rewrite app_assoc in H. apply (parse_absorbs_closer c Hc f) in H as [l' [H' Hs]].
    apply IH in H' as [l2 [H2 Hs2]]; [|exact Hcs]. exists l2. split; [exact H2|]. eapply same_trans; eauto.
Qed.

Theorem parse_tokens_drop_closers ts cs l1 :
  forallb closer_tok cs = true -> parse_tokens (ts ++ cs) = Ok l1 ->
  exists l2, parse_tokens ts = Ok l2 /\ same l1 l2.
Proof.
  unfold parse_tokens. intros Hcs H.
  apply parse_absorbs_closers in H as [l2 [H2 Hs]]; [|exact Hcs].
  exists l2. split; [|exact Hs].
  rewrite <- H2. apply parse_fuel; rewrite ?app_length; lia.
Qed.

(* exact equality when no function-call name contains a closer character *)
Fixpoint names_plain (s : struct) : bool :=
  match s with
  | SGeneric _ | SBreak _ | SRecurse _ => true
  | SIf bs => forallb (forallb names_plain) bs
  | SFor _ b => forallb names_plain b
  | SWhile c b => forallb names_plain c && forallb names_plain b
  | SFnCall n => forallb (fun ch => negb (mem ch closers)) n
  | SFnDef _ _ b => forallb names_plain b
  | SLambda _ b => forallb names_plain b
  | SLamOp _ b => forallb names_plain b
  | SList items => forallb (forallb names_plain) items
  | SMod1 _ a => names_plain a
  | SMod2 _ a b => names_plain a && names_plain b
  | SMod3 _ a b c => names_plain a && names_plain b && names_plain c
  end.

Lemma strip_closers_id n : forallb (fun ch => negb (mem ch closers)) n = true -> strip_closers n = n.
Proof.
  unfold strip_closers. induction n as [|a n IH]; simpl; intro H; [reflexivity|].
  apply andb_prop in H as [Ha Hn]. rewrite Ha. f_equal. apply IH. exact Hn.
Qed.

Lemma map_id_Forall {A} (f : A -> A) (Q : A -> Prop) l :
  Forall Q l -> (forall x, Q x -> f x = x) -> map f l = l.
Proof. induction 1 as [|a l Ha _ IH]; intro H; simpl; [reflexivity|]. rewrite H by exact Ha. f_equal. apply IH. exact H. Qed.

Lemma map_id_ext {A} (f : A -> A) l : (forall x, In x l -> f x = x) -> map f l = l.
Proof. induction l as [|a l IH]; simpl; intro H; [reflexivity|]. rewrite H by auto. f_equal. apply IH. auto. Qed.

Lemma map_norm_id b : Forall (fun s => names_plain s = true -> norm s = s) b ->
  forallb names_plain b = true -> map norm b = b.
Proof.
  induction 1 as [|a l Ha _ IH]; simpl; intro H; [reflexivity|].
  apply andb_prop in H as [H1 H2]. rewrite Ha by exact H1. f_equal. apply IH. exact H2.
Qed.

Lemma map_map_norm_id bs : Forall (Forall (fun s => names_plain s = true -> norm s = s)) bs ->
  forallb (forallb names_plain) bs = true -> map (map norm) bs = bs.
Proof.
  induction 1 as [|a l Ha _ IH]; simpl; intro H; [reflexivity|].
  apply andb_prop in H as [H1 H2]. rewrite (map_norm_id a Ha H1). f_equal. apply IH. exact H2.
Qed.

Lemma norm_plain : forall s, names_plain s = true -> norm s = s.
Proof.
  induction s using struct_ind'; simpl; intro Hp; try reflexivity.
  - f_equal. apply map_map_norm_id; assumption.
  - f_equal. apply map_norm_id; assumption.
  - apply andb_prop in Hp as [H1 H2]. f_equal; apply map_norm_id; assumption.
  - f_equal. apply strip_closers_id. exact Hp.
  - f_equal. apply map_norm_id; assumption.
  - f_equal. apply map_norm_id; assumption.
  - f_equal. apply map_norm_id; assumption.
  - f_equal. apply map_map_norm_id; assumption.
  - f_equal. apply IHs. exact Hp.
  - apply andb_prop in Hp as [H1 H2]. f_equal; [apply IHs1|apply IHs2]; assumption.
  - apply andb_prop in Hp as [H12 H3]. apply andb_prop in H12 as [H1 H2]. f_equal; [apply IHs1|apply IHs2|apply IHs3]; assumption.
Qed.

Theorem parse_tokens_drop_closers_exact ts cs l1 l2 :
  forallb closer_tok cs = true ->
  parse_tokens (ts ++ cs) = Ok l1 -> parse_tokens ts = Ok l2 ->
  forallb names_plain l1 = true -> forallb names_plain l2 = true -> l1 = l2.
Proof.
  intros Hcs H1 H2 P1 P2.
  destruct (parse_tokens_drop_closers ts cs l1 Hcs H1) as [l2' [H2' Hs]].
  rewrite H2 in H2'. inversion H2'; subst l2'. unfold same in Hs.
  rewrite (map_id_ext norm l1) in Hs by (intros x Hx; apply norm_plain; rewrite forallb_forall in P1; auto).
  rewrite (map_id_ext norm l2) in Hs by (intros x Hx; apply norm_plain; rewrite forallb_forall in P2; auto).
  exact Hs.
Qed.
