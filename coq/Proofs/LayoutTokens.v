(* Layout, part 4: the lines that carry program text.  For every payload-carrying line the
   transpiler writes (numbers, names, arities, lambda ids, string literals for ANY
   dictionary function) the scanner of Model/Layout.v gives the same class whatever the
   payload is, provided the payload satisfies what C18's `tok_ok` / the sanitising classes
   guarantee.  Templates: every template text is a structured text (`ltext`) whose lines
   parse to the table's shape at any indentation. *)
From Coq Require Import List NArith ZArith Bool Lia Arith String Ascii.
From Vy Require Import Model.Base Model.Lexer Model.Parser Model.Transpile Model.Provenance Model.PyTree Model.PyShape
  Model.Layout Gen.ParserConsts Gen.Codepage Gen.Elements Gen.TemplateShapes
  Proofs.C02Proofs Proofs.C18Base Proofs.C18Shapes Proofs.LayoutBlocks Proofs.LayoutLex Proofs.LayoutTemplates.
Import ListNotations.
Open Scope N_scope.

(* a text whose logical lines form a complete suite `sh` at indentation k (columns) *)
Definition LT (k : nat) (text : str) (sh : list pyn) : Prop := exists ls, ltext text ls /\ Blk k ls sh.

(* ---- characters ------------------------------------------------------------------------------------- *)
Lemma neq_by (P : N -> bool) k c : P k = false -> P c = true -> (c =? k) = false.
Proof. intros Hk Hc. destruct (c =? k) eqn:E; [|reflexivity]. apply N.eqb_eq in E. subst. congruence. Qed.

Lemma ident_ch_char c : ident_ch c = ident_char c.
Proof. reflexivity. Qed.

Lemma digit_ident c : is_digit c = true -> ident_ch c = true.
Proof. unfold is_digit, ident_ch. intro H. rewrite H. rewrite orb_true_r. reflexivity. Qed.

Lemma set_ws_same l : set_ws (l_ws l) l = l.
Proof. destruct l; reflexivity. Qed.
Lemma set_mode_same l : set_mode (l_mode l) l = l.
Proof. destruct l; reflexivity. Qed.

(* ---- steps that change nothing ------------------------------------------------------------------------ *)
Definition tolerant (l : lstate) : bool :=
  match l_mode l, l_ws l with
  | MCode, WDone WSimple => true
  | MCode, WDone WReturn => true
  | MCode, WDone (WHead HElse) => l_colon l
  | MCode, WDone (WHead _) => true
  | _, _ => false
  end.

Lemma tolerant_mode l : tolerant l = true -> l_mode l = MCode.
Proof. unfold tolerant. destruct (l_mode l); [reflexivity|discriminate|discriminate]. Qed.

Lemma more_content_tolerant l : tolerant l = true -> more_content l = l.
Proof.
  unfold tolerant, more_content. destruct (l_mode l); try discriminate.
  destruct (l_ws l) as [|w|[| | | |[]|]]; try discriminate; try reflexivity.
  intro H. rewrite H. reflexivity.
Qed.

Lemma step_ident l c : l_mode l = MCode -> ident_ch c = true ->
  step_line l c = match l_ws l with
                  | WStart => set_ws (WWord [c]) l
                  | WWord w => set_ws (WWord (w ++ [c])) l
                  | WDone _ => more_content l
                  end.
Proof.
  intros Hm Hc. unfold step_line. rewrite Hm, (neq_by ident_ch 13 c eq_refl Hc). unfold step_code.
  rewrite (neq_by ident_ch 32 c eq_refl Hc), (neq_by ident_ch 9 c eq_refl Hc), (neq_by ident_ch 12 c eq_refl Hc).
  cbn [orb]. rewrite Hc. reflexivity.
Qed.

Definition code_inert (c : N) : bool := ident_ch c || (c =? 45) || (c =? 46).   (* word characters, - and . *)

Lemma step_code_inert l c : tolerant l = true -> code_inert c = true -> step_line l c = l /\ (c =? 10) = false.
Proof.
  intros Ht Hc. unfold code_inert in Hc. apply orb_true_iff in Hc as [Hc|Hc]; [apply orb_true_iff in Hc as [Hc|Hc]|].
  - split; [|exact (neq_by ident_ch 10 c eq_refl Hc)].
    rewrite step_ident by (try apply tolerant_mode; assumption).
    pose proof (more_content_tolerant l Ht) as M. unfold tolerant in Ht.
    destruct (l_mode l); try discriminate. destruct (l_ws l); try discriminate. exact M.
  - apply N.eqb_eq in Hc. subst c. split; [|reflexivity].
    destruct l as [m d ws h col dn bad]. unfold tolerant in Ht. cbn [l_mode l_ws l_colon] in Ht.
    destruct m; try discriminate. destruct ws as [|w|[| | | |[]|]]; try discriminate; try reflexivity.
    subst col. reflexivity.
  - apply N.eqb_eq in Hc. subst c. split; [|reflexivity].
    destruct l as [m d ws h col dn bad]. unfold tolerant in Ht. cbn [l_mode l_ws l_colon] in Ht.
    destruct m; try discriminate. destruct ws as [|w|[| | | |[]|]]; try discriminate; try reflexivity.
    subst col. reflexivity.
Qed.

Lemma scan_body_code_inert mid : forall l, tolerant l = true -> forallb code_inert mid = true -> scan_body l mid = Some l.
Proof.
  induction mid as [|c mid IH]; intros l Ht H; [reflexivity|].
  cbn [forallb] in H. apply andb_prop in H as [Hc H].
  destruct (step_code_inert l c Ht Hc) as [E1 E2]. cbn [scan_body]. rewrite E2, E1. cbn [andb]. apply IH; assumption.
Qed.

Definition str_inert (dq : bool) (c : N) : bool :=
  negb (c =? 13) && negb (c =? 92) && negb (c =? quote_of dq) && negb (c =? 10).

Lemma scan_body_str_inert dq mid : forall l, l_mode l = MStr dq -> forallb (str_inert dq) mid = true -> scan_body l mid = Some l.
Proof.
  induction mid as [|c mid IH]; intros l Hm H; [reflexivity|].
  cbn [forallb] in H. apply andb_prop in H as [Hc H]. unfold str_inert in Hc.
  apply andb_prop in Hc as [Hc H10]. apply andb_prop in Hc as [Hc Hq]. apply andb_prop in Hc as [H13 H92].
  apply negb_true_iff in H10, Hq, H13, H92.
  cbn [scan_body]. rewrite H10. cbn [andb]. unfold step_line at 1. rewrite Hm, H13, H92, Hq. apply IH; assumption.
Qed.

Lemma scan_body_word mid : forall l w, l_mode l = MCode -> l_ws l = WWord w -> forallb ident_ch mid = true ->
  scan_body l mid = Some (set_ws (WWord (w ++ mid)) l).
Proof.
  induction mid as [|c mid IH]; intros l w Hm Hw H.
  - rewrite app_nil_r, <- Hw, set_ws_same. reflexivity.
  - cbn [forallb] in H. apply andb_prop in H as [Hc H].
    cbn [scan_body]. rewrite (neq_by ident_ch 10 c eq_refl Hc). cbn [andb].
    rewrite (step_ident l c Hm Hc), Hw.
    rewrite (IH (set_ws (WWord (w ++ [c])) l) (w ++ [c])); [|destruct l; exact Hm|destruct l; reflexivity|exact H].
    destruct l; cbn. rewrite <- app_assoc. reflexivity.
Qed.

Lemma step_space l : l_mode l = MCode -> step_line l 32 = end_word l.
Proof. destruct l as [m d ws h col dn bad]. cbn [l_mode]. intros ->. reflexivity. Qed.
Lemma step_dot l : l_mode l = MCode -> step_line l 46 = touch l.
Proof. destruct l as [m d ws h col dn bad]. cbn [l_mode]. intros ->. reflexivity. Qed.

Lemma end_word_simple l w : l_ws l = WWord w -> kw_lookup w = WSimple -> end_word l = set_ws (WDone WSimple) l.
Proof. intros Hw Hk. unfold end_word. rewrite Hw, Hk. reflexivity. Qed.

Lemma word_then_space l w : l_mode l = MCode -> kw_lookup w = WSimple ->
  step_line (set_ws (WWord w) l) 32 = set_ws (WDone WSimple) l.
Proof.
  intros Hm Hk. rewrite step_space by (destruct l; exact Hm).
  rewrite (end_word_simple _ w) by (try (destruct l; reflexivity); exact Hk). destruct l; reflexivity.
Qed.

Lemma word_then_dot l w : l_mode l = MCode -> kw_lookup w = WSimple ->
  step_line (set_ws (WWord w) l) 46 = set_ws (WDone WSimple) l.
Proof.
  intros Hm Hk. rewrite step_dot by (destruct l; exact Hm).
  unfold touch. replace (l_ws (set_ws (WWord w) l)) with (WWord w) by (destruct l; reflexivity).
  rewrite (end_word_simple _ w) by (try (destruct l; reflexivity); exact Hk). destruct l; reflexivity.
Qed.

Lemma kw_VAR x : kw_lookup (L "VAR_" ++ x) = WSimple.
Proof. reflexivity. Qed.
Lemma kw_lambda x : kw_lookup (L "_lambda_" ++ x) = WSimple.
Proof. reflexivity. Qed.

(* ---- lines made of a fixed prefix, a payload and a fixed suffix ---------------------------------------- *)
Definition finish_opt (o : option lstate) : option lclass :=
  match o with Some l => if is_esc (l_mode l) then None else Some (finish l) | None => None end.

Lemma gline_of_scan c r cls : is_ws c = false -> finish_opt (scan_body (init_line false) (c :: r)) = Some cls ->
  gline (c :: r) cls.
Proof.
  intros Hc H. unfold finish_opt in H. destruct (scan_body (init_line false) (c :: r)) as [l'|] eqn:E; [|discriminate].
  destruct (is_esc (l_mode l')) eqn:E2; [discriminate|]. inversion H. exists c, r, l'. auto.
Qed.

(* payload that leaves the state unchanged *)
Lemma gline3 pre mid suf l1 cls :
  (match pre with c :: _ => negb (is_ws c) | [] => false end) = true ->
  scan_body (init_line false) pre = Some l1 -> scan_body l1 mid = Some l1 ->
  finish_opt (scan_body l1 suf) = Some cls -> gline (pre ++ mid ++ suf) cls.
Proof.
  intros Hp H1 H2 H3. destruct pre as [|c pre]; [discriminate|]. apply negb_true_iff in Hp.
  cbn [app]. apply gline_of_scan; [exact Hp|].
  change (c :: pre ++ mid ++ suf) with ((c :: pre) ++ mid ++ suf).
  rewrite scan_body_app, H1, scan_body_app, H2. exact H3.
Qed.

(* payload inside the first word, followed by a blank or a dot *)
Lemma gline_word pre mid c0 suf l1 w cls :
  (match pre with c :: _ => negb (is_ws c) | [] => false end) = true ->
  scan_body (init_line false) pre = Some l1 -> l_mode l1 = MCode -> l_ws l1 = WWord w ->
  forallb ident_ch mid = true -> kw_lookup (w ++ mid) = WSimple -> (c0 = 32 \/ c0 = 46) ->
  finish_opt (scan_body (set_ws (WDone WSimple) l1) suf) = Some cls -> gline (pre ++ mid ++ c0 :: suf) cls.
Proof.
  intros Hp H1 Hm Hw Hmid Hk Hc0 H3. destruct pre as [|c pre]; [discriminate|]. apply negb_true_iff in Hp.
  cbn [app]. apply gline_of_scan; [exact Hp|].
  change (c :: pre ++ mid ++ c0 :: suf) with ((c :: pre) ++ mid ++ c0 :: suf).
  rewrite scan_body_app, H1, scan_body_app, (scan_body_word mid l1 w Hm Hw Hmid).
  cbn [scan_body].
  replace (l_mode (set_ws (WWord (w ++ mid)) l1)) with MCode by (destruct l1; symmetry; exact Hm).
  destruct Hc0 as [-> | ->].
  - change (32 =? 10) with false. cbn [andb]. rewrite (word_then_space l1 _ Hm Hk). exact H3.
  - change (46 =? 10) with false. cbn [andb]. rewrite (word_then_dot l1 _ Hm Hk). exact H3.
Qed.

(* ---- payload classes ---------------------------------------------------------------------------------------- *)
Lemma ident_ok_inert s : ident_ok s = true -> forallb code_inert s = true.
Proof.
  unfold ident_ok. rewrite !forallb_forall. intros H c Hc. unfold code_inert. rewrite ident_ch_char, (H c Hc). reflexivity.
Qed.
Lemma ident_ok_ch s : ident_ok s = true -> forallb ident_ch s = true.
Proof. intro H. exact H. Qed.

Lemma digits_inert s : forallb is_digit s = true -> forallb code_inert s = true.
Proof.
  rewrite !forallb_forall. intros H c Hc. unfold code_inert. rewrite (digit_ident c (H c Hc)). reflexivity.
Qed.
Lemma digits_ch s : forallb is_digit s = true -> forallb ident_ch s = true.
Proof. rewrite !forallb_forall. intros H c Hc. apply digit_ident. apply H. exact Hc. Qed.

Lemma is_dec_Z_inert s : is_dec_Z s = true -> forallb code_inert s = true.
Proof.
  unfold is_dec_Z. intro H. apply orb_true_iff in H as [H|H].
  - apply digits_inert. apply is_dec_forallb. exact H.
  - destruct s as [|c r]; [discriminate|].
    destruct (N.eqb c 45) eqn:E.
    + apply N.eqb_eq in E. subst c. cbn [forallb]. change (code_inert 45) with true.
      apply digits_inert. apply is_dec_forallb. exact H.
    + exfalso. destruct c as [|p]; [discriminate|]. do 6 (destruct p; try discriminate). all: discriminate E.
Qed.

Lemma arity_text_inert a : forallb code_inert (arity_text a) = true.
Proof.
  destruct a as [z|]; cbn [arity_text]; [|reflexivity]. apply is_dec_Z_inert. apply Z_to_dec_dec.
Qed.

Lemma N_to_dec_digits n : forallb is_digit (N_to_dec n) = true.
Proof. apply is_dec_forallb. apply N_to_dec_dec. Qed.

Lemma num_payload_inert p : num_payload_ok p = true -> forallb (str_inert true) p = true.
Proof.
  unfold num_payload_ok. rewrite !forallb_forall. intros H c Hc. specialize (H c Hc). unfold str_inert. cbn [quote_of].
  rewrite (neq_by num_payload_char 13 c eq_refl H), (neq_by num_payload_char 92 c eq_refl H),
    (neq_by num_payload_char 34 c eq_refl H), (neq_by num_payload_char 10 c eq_refl H). reflexivity.
Qed.

Lemma plain_inert s : forallb plain_repr_char s = true -> forallb (str_inert false) s = true.
Proof.
  rewrite !forallb_forall. intros H c Hc. specialize (H c Hc). unfold str_inert. cbn [quote_of].
  rewrite (neq_by plain_repr_char 13 c eq_refl H), (neq_by plain_repr_char 92 c eq_refl H),
    (neq_by plain_repr_char 39 c eq_refl H), (neq_by plain_repr_char 10 c eq_refl H). reflexivity.
Qed.

(* the body of a double-quoted literal as the transpiler re-escapes it *)
Lemma scan_body_lit e : forall (esc : bool) l,
  l_mode l = (if esc then MEsc true else MStr true) -> lit_run true 34 esc e = true ->
  scan_body l e = Some (set_mode (MStr true) l).
Proof.
  induction e as [|c e IH]; intros esc l Hm H.
  - cbn [lit_run] in H. apply negb_true_iff in H. subst esc. rewrite <- Hm, set_mode_same. reflexivity.
  - cbn [lit_run scan_body] in *. destruct esc.
    + rewrite Hm. cbn [is_esc negb]. rewrite andb_false_r.
      assert (Es : step_line l c = set_mode (MStr true) l) by (unfold step_line; rewrite Hm; reflexivity).
      rewrite Es. rewrite (IH false (set_mode (MStr true) l)); [destruct l; reflexivity|destruct l; reflexivity|exact H].
    + rewrite Hm. cbn [is_esc negb]. rewrite andb_true_r.
      destruct (N.eqb c 92) eqn:E92.
      * apply N.eqb_eq in E92. subst c. change (92 =? 10) with false. cbv iota.
        assert (Es : step_line l 92 = set_mode (MEsc true) l) by (unfold step_line; rewrite Hm; reflexivity).
        rewrite Es. rewrite (IH true (set_mode (MEsc true) l)); [destruct l; reflexivity|destruct l; reflexivity|exact H].
      * destruct (N.eqb c 34) eqn:E34; [discriminate|].
        destruct (N.eqb c 10) eqn:E10; [discriminate|].
        destruct (N.eqb c 13) eqn:E13; [discriminate|].
        assert (Es : step_line l c = l) by (unfold step_line; rewrite Hm, E13, E92; cbn [quote_of]; rewrite E34; reflexivity).
        rewrite Es. apply (IH false l Hm H).
Qed.

(* ---- the lines of transpile_token ---------------------------------------------------------------------------- *)
Ltac closed := vm_compute; reflexivity.

Lemma gline_string e : lit_run true 34 false e = true ->
  gline (L "stack.append(""" ++ e ++ L """)") (LStmts [NSimple]).
Proof.
  intro H. apply (gline3 _ e _ (mkL (MStr true) 1 (WDone WSimple) None false [] false)); [closed|closed| |closed].
  rewrite (scan_body_lit e false); [reflexivity|reflexivity|exact H].
Qed.

Lemma gline_rational p : num_payload_ok p = true ->
  gline (L "stack.append(sympy.Rational(""" ++ p ++ L """))") (LStmts [NSimple]).
Proof.
  intro H. apply (gline3 _ p _ (mkL (MStr true) 2 (WDone WSimple) None false [] false)); [closed|closed| |closed].
  apply (scan_body_str_inert true); [reflexivity|apply num_payload_inert; exact H].
Qed.

Lemma gline_nsimplify p : num_payload_ok p = true ->
  gline (L "stack.append(sympy.nsimplify(""" ++ p ++ L """))") (LStmts [NSimple]).
Proof.
  intro H. apply (gline3 _ p _ (mkL (MStr true) 2 (WDone WSimple) None false [] false)); [closed|closed| |closed].
  apply (scan_body_str_inert true); [reflexivity|apply num_payload_inert; exact H].
Qed.

(* code-level payload after `stack.append(` and similar prefixes: the first word is done *)
Ltac code_payload l1 H := apply (gline3 _ _ _ l1); [closed|closed|apply scan_body_code_inert; [reflexivity|H]|closed].

Lemma gline_int z : gline (L "stack.append(" ++ Z_to_dec z ++ L ")") (LStmts [NSimple]).
Proof. code_payload (mkL MCode 1 (WDone WSimple) None false [] false) ltac:(apply is_dec_Z_inert; apply Z_to_dec_dec). Qed.

Lemma gline_sq s : forallb plain_repr_char s = true -> gline (L "stack.append(" ++ ([39] ++ s ++ [39]) ++ L ")") (LStmts [NSimple]).
Proof.
  intro H. replace (L "stack.append(" ++ ([39] ++ s ++ [39]) ++ L ")") with (L "stack.append('" ++ s ++ L "')")
    by (cbn; rewrite <- ?app_assoc; reflexivity).
  apply (gline3 _ s _ (mkL (MStr false) 1 (WDone WSimple) None false [] false)); [closed|closed| |closed].
  apply (scan_body_str_inert false); [reflexivity|apply plain_inert; exact H].
Qed.

Lemma char_reprs_lines :
  forallb (fun r => match glineb (L "stack.append(" ++ r ++ L ")") with Some (LStmts [NSimple]) => true | _ => false end)
          (map snd char_reprs) = true.
Proof. vm_compute. reflexivity. Qed.

Lemma gline_char c r : py_repr_char c = Some r -> gline (L "stack.append(" ++ r ++ L ")") (LStmts [NSimple]).
Proof.
  intro H. unfold py_repr_char in H. apply assoc_N_In in H.
  pose proof char_reprs_lines as F. rewrite forallb_forall in F. specialize (F r H).
  apply glineb_gline. destruct (glineb (L "stack.append(" ++ r ++ L ")")) as [[[|[] [|? ?]]| |]|]; try discriminate. reflexivity.
Qed.

Lemma gline_varget v : ident_ok v = true -> gline (L "stack.append(VAR_" ++ v ++ L ");") (LStmts [NSimple]).
Proof. intro H. code_payload (mkL MCode 1 (WDone WSimple) None false [] false) ltac:(apply ident_ok_inert; exact H). Qed.

Lemma gline_varget_ctx v : ident_ok v = true -> gline (L "stack.append(ctx.VAR_" ++ v ++ L ")") (LStmts [NSimple]).
Proof. intro H. code_payload (mkL MCode 1 (WDone WSimple) None false [] false) ltac:(apply ident_ok_inert; exact H). Qed.

Lemma gline_varset_ctx v : ident_ok v = true -> gline (L "ctx.VAR_" ++ v ++ L " = pop(stack, 1, ctx)") (LStmts [NSimple]).
Proof. intro H. code_payload (mkL MCode 0 (WDone WSimple) None false [] false) ltac:(apply ident_ok_inert; exact H). Qed.

Lemma gline_varset v : ident_ok v = true -> gline (L "VAR_" ++ v ++ L " = pop(stack, 1, ctx=ctx)") (LStmts [NSimple]).
Proof.
  intro H. change (L " = pop(stack, 1, ctx=ctx)") with (32 :: L "= pop(stack, 1, ctx=ctx)").
  apply (gline_word _ v 32 _ (mkL MCode 0 (WWord (L "VAR_")) None false [] false) (L "VAR_"));
    [closed|closed|reflexivity|reflexivity|exact H|apply kw_VAR|left; reflexivity|closed].
Qed.

Lemma gline_param v : ident_ok v = true -> gline (L "VAR_" ++ v ++ L " =pop(arg_stack, 1, ctx=ctx)") (LStmts [NSimple]).
Proof.
  intro H. change (L " =pop(arg_stack, 1, ctx=ctx)") with (32 :: L "=pop(arg_stack, 1, ctx=ctx)").
  apply (gline_word _ v 32 _ (mkL MCode 0 (WWord (L "VAR_")) None false [] false) (L "VAR_"));
    [closed|closed|reflexivity|reflexivity|exact H|apply kw_VAR|left; reflexivity|closed].
Qed.

Lemma gline_param_num d : forallb is_digit d = true ->
  gline (L "parameters += wrapify(arg_stack, " ++ d ++ L ", ctx)") (LStmts [NSimple]).
Proof. intro H. code_payload (mkL MCode 1 (WDone WSimple) None false [] false) ltac:(apply digits_inert; exact H). Qed.

Lemma gline_for v : ident_ok v = true ->
  gline (L "for " ++ (L "VAR_" ++ v) ++ L " in iterable(pop(stack, 1, ctx=ctx), range, ctx):") (LHead HLoop []).
Proof.
  intro H. replace (L "for " ++ (L "VAR_" ++ v) ++ L " in iterable(pop(stack, 1, ctx=ctx), range, ctx):")
    with (L "for VAR_" ++ v ++ L " in iterable(pop(stack, 1, ctx=ctx), range, ctx):") by (cbn; rewrite <- ?app_assoc; reflexivity).
  code_payload (mkL MCode 0 (WDone (WHead HLoop)) (Some HLoop) false [] false) ltac:(apply ident_ok_inert; exact H).
Qed.

Lemma gline_for_ctx v : ident_ok v = true ->
  gline (L "ctx.context_values.append(" ++ (L "VAR_" ++ v) ++ L ")") (LStmts [NSimple]).
Proof.
  intro H. replace (L "ctx.context_values.append(" ++ (L "VAR_" ++ v) ++ L ")")
    with (L "ctx.context_values.append(VAR_" ++ v ++ L ")") by (cbn; rewrite <- ?app_assoc; reflexivity).
  code_payload (mkL MCode 1 (WDone WSimple) None false [] false) ltac:(apply ident_ok_inert; exact H).
Qed.

Lemma gline_fncall v : ident_ok v = true -> gline (L "stack += VAR_" ++ v ++ L "(stack, self=None, ctx=ctx)") (LStmts [NSimple]).
Proof. intro H. code_payload (mkL MCode 0 (WDone WSimple) None false [] false) ltac:(apply ident_ok_inert; exact H). Qed.

Lemma gline_fndef v : ident_ok v = true ->
  gline (L "def VAR_" ++ v ++ L "(arg_stack, self, arity=-1, ctx=None):") (LHead HDef []).
Proof. intro H. code_payload (mkL MCode 0 (WDone (WHead HDef)) (Some HDef) false [] false) ltac:(apply ident_ok_inert; exact H). Qed.

Lemma gline_this v : ident_ok v = true -> gline (L "this = VAR_" ++ v) (LStmts [NSimple]).
Proof.
  intro H. rewrite <- (app_nil_r v).
  code_payload (mkL MCode 0 (WDone WSimple) None false [] false) ltac:(apply ident_ok_inert; exact H).
Qed.

Lemma gline_lam_def id :
  gline (L "def " ++ lambda_name id ++ L "(arg_stack, self, arity=-1, ctx=None):") (LHead HDef []).
Proof.
  unfold lambda_name.
  replace (L "def " ++ (L "_lambda_" ++ N_to_dec (N.of_nat id)) ++ L "(arg_stack, self, arity=-1, ctx=None):")
    with (L "def _lambda_" ++ N_to_dec (N.of_nat id) ++ L "(arg_stack, self, arity=-1, ctx=None):")
    by (cbn; rewrite <- ?app_assoc; reflexivity).
  code_payload (mkL MCode 0 (WDone (WHead HDef)) (Some HDef) false [] false) ltac:(apply digits_inert; apply N_to_dec_digits).
Qed.

Lemma gline_lam_push id : gline (L "stack.append(" ++ lambda_name id ++ L ")") (LStmts [NSimple]).
Proof.
  unfold lambda_name.
  replace (L "stack.append(" ++ (L "_lambda_" ++ N_to_dec (N.of_nat id)) ++ L ")")
    with (L "stack.append(_lambda_" ++ N_to_dec (N.of_nat id) ++ L ")") by (cbn; rewrite <- ?app_assoc; reflexivity).
  code_payload (mkL MCode 1 (WDone WSimple) None false [] false) ltac:(apply digits_inert; apply N_to_dec_digits).
Qed.

Lemma gline_lam_else a :
  gline (L "else: stack = wrapify(arg_stack, " ++ arity_text a ++ L ", ctx)") (LHead HElse [NSimple]).
Proof. code_payload (mkL MCode 1 (WDone WSimple) (Some HElse) true [] false) ltac:(apply arity_text_inert). Qed.

Lemma gline_lam_arity id a : gline (lambda_name id ++ L ".arity = " ++ arity_text a) (LStmts [NSimple]).
Proof.
  unfold lambda_name.
  replace ((L "_lambda_" ++ N_to_dec (N.of_nat id)) ++ L ".arity = " ++ arity_text a)
    with (L "_lambda_" ++ N_to_dec (N.of_nat id) ++ 46 :: (L "arity = " ++ arity_text a))
    by (cbn; rewrite <- ?app_assoc; reflexivity).
  apply (gline_word _ _ 46 _ (mkL MCode 0 (WWord (L "_lambda_")) None false [] false) (L "_lambda_"));
    [closed|closed|reflexivity|reflexivity|apply digits_ch; apply N_to_dec_digits|apply kw_lambda|right; reflexivity|].
  rewrite scan_body_app.
  change (scan_body (set_ws (WDone WSimple) (mkL MCode 0 (WWord (L "_lambda_")) None false [] false)) (L "arity = "))
    with (Some (mkL MCode 0 (WDone WSimple) None false [] false)).
  cbv beta iota. rewrite scan_body_code_inert; [reflexivity|reflexivity|apply arity_text_inert].
Qed.

(* ---- fixed lines ------------------------------------------------------------------------------------------------ *)
Lemma LT_of_gline n x cls sh : gline x cls -> Blk (4 * n) [((4 * n)%nat, cls)] sh -> LT (4 * n) (indent_str x n) sh.
Proof. intros Hg HB. exists [((4 * n)%nat, cls)]. split; [apply ltext_line0; exact Hg|exact HB]. Qed.

(* a line of simple statements *)
Lemma LT_line n x sh : gline x (LStmts sh) -> LT (4 * n) (indent_str x n) sh.
Proof. intro Hg. eapply LT_of_gline; [exact Hg|apply Blk_stmts]. Qed.

Lemma LT_lineb n x sh : glineb x = Some (LStmts sh) -> LT (4 * n) (indent_str x n) sh.
Proof. intro H. apply LT_line. apply glineb_gline. exact H. Qed.

(* a line the transpiler writes with four spaces in front: it belongs to the suite one level deeper *)
Lemma LT_line4 n x sh : gline x (LStmts sh) -> LT (4 * S n) (indent_str (L "    " ++ x) n) sh.
Proof.
  intro Hg. exists [((4 * n + 4)%nat, LStmts sh)]. split.
  - apply (ltext_line n (L "    ") x (LStmts sh) eq_refl Hg).
  - replace (4 * S n)%nat with (4 * n + 4)%nat by lia. apply Blk_stmts.
Qed.

(* a compound statement on one line *)
Lemma LT_one n x h y one : h <> HElif -> gline x (LHead h (y :: one)) ->
  LT (4 * n) (indent_str x n) [NBlock (bkind_of h) (y :: one)].
Proof. intros Hh Hg. eapply LT_of_gline; [exact Hg|apply Blk_one; exact Hh]. Qed.

(* ---- composition ---------------------------------------------------------------------------------------------------- *)
Lemma LT_app k a s1 b s2 : LT k a s1 -> LT k b s2 -> no_else_head s2 = true -> LT k (a ++ b) (s1 ++ s2).
Proof.
  intros [la [Ta Ba]] [lb [Tb Bb]] Hn. exists (la ++ lb). split; [apply ltext_app; assumption|apply Blk_app_ne; assumption].
Qed.

Lemma LT_nl_app k a s : LT k a s -> LT k ([nl] ++ a) s.
Proof. intros [la [Ta Ba]]. exists la. split; [|exact Ba]. apply (ltext_app [nl] [] a la ltext_nl Ta). Qed.

Lemma LT_block n hdr h body sh :
  h <> HElif -> gline hdr (LHead h []) -> LT (4 * S n) body sh ->
  LT (4 * n) (indent_str hdr n ++ body) [NBlock (bkind_of h) sh].
Proof.
  intros Hh Hg [lb [Tb Bb]]. exists ([((4 * n)%nat, LHead h [])] ++ lb). split.
  - apply ltext_app; [apply ltext_line0; exact Hg|exact Tb].
  - cbn [app]. apply (Blk_block (4 * n) (4 * S n) h lb sh Hh); [lia|exact Bb].
Qed.

Lemma LT_reindent n b sh : LT 0 b sh -> LT (4 * n) (indent_str b n) sh.
Proof.
  intros [lb [Tb Bb]]. exists (shift (4 * n) lb). split; [apply ltext_indent; exact Tb|].
  pose proof (Blk_shift (4 * n) 0 lb sh Bb) as H. rewrite Nat.add_0_r in H. exact H.
Qed.

(* ---- templates ---------------------------------------------------------------------------------------------------------- *)
(* a physical line without continuation: blank, or <spaces> <logical line> *)
Definition pl_class (p : str) : option (option line) :=
  if all_spaces p then Some None
  else match glineb (strip_sp p) with
       | Some cls => Some (Some (List.length (lead_sp p), cls))
       | None => None
       end.

Fixpoint phys (ps : list str) : option (list line) :=
  match ps with
  | [] => Some []
  | p :: r =>
      match pl_class p, phys r with
      | Some o, Some ls => Some (match o with Some l => l :: ls | None => ls end)
      | _, _ => None
      end
  end.

Lemma phys_ltext ps : forall ls, phys ps = Some ls -> ltext (flat_map (fun p => p ++ [nl]) ps) ls.
Proof.
  induction ps as [|p ps IH]; intros ls H; cbn [phys] in H.
  - inversion H. constructor.
  - destruct (pl_class p) as [o|] eqn:Ep; [|discriminate]. destruct (phys ps) as [ls'|]; [|discriminate].
    inversion H; subst ls; clear H. specialize (IH ls' eq_refl). cbn [flat_map].
    unfold pl_class in Ep. destruct (all_spaces p) eqn:Esp.
    + inversion Ep; subst o. rewrite <- app_assoc. cbn [app]. apply lt_blank; assumption.
    + destruct (glineb (strip_sp p)) as [cls|] eqn:Eg; [|discriminate]. inversion Ep; subst o.
      apply glineb_gline in Eg. pose proof (strip_sp_split p) as E. pose proof (lead_sp_spaces p) as Hl.
      remember (lead_sp p) as sp. remember (strip_sp p) as body. rewrite E.
      rewrite <- !app_assoc. cbn [app]. apply lt_chunk; assumption.
Qed.

Lemma split_on_join t : forall cur, flat_map (fun p => p ++ [nl]) (split_on nl t cur) = cur ++ t ++ [nl].
Proof.
  induction t as [|x t IH]; intro cur; cbn [split_on flat_map].
  - rewrite app_nil_r. reflexivity.
  - destruct (N.eqb x nl) eqn:E.
    + apply N.eqb_eq in E. subst x. cbn [flat_map]. rewrite IH. rewrite <- app_assoc. reflexivity.
    + rewrite IH. rewrite <- app_assoc. reflexivity.
Qed.

Lemma lines_join t : flat_map (fun p => p ++ [nl]) (lines t) = t ++ [nl].
Proof. unfold lines. rewrite split_on_join. reflexivity. Qed.

Definition tmpl_ok (t : str) (sh : list pyn) : bool :=
  match phys (lines t) with
  | Some ls =>
      match parse_suite (S (List.length ls)) 0 ls with
      | POk s [] => pyn_list_eqb s sh && negb (match sh with [] => true | _ => false end)
      | _ => false
      end
  | None => false
  end.

Definition tmpl_block (t : str) (sh : list pyn) : Prop := forall n, LT (4 * n) (indent_str t n) sh.

Lemma tmpl_ok_sound t sh : tmpl_ok t sh = true -> tmpl_block t sh.
Proof.
  unfold tmpl_ok. destruct (phys (lines t)) as [ls|] eqn:Ep; [|discriminate].
  destruct (parse_suite (S (List.length ls)) 0 ls) as [s [|? ?]| |] eqn:Es; try discriminate.
  intro H. apply andb_prop in H as [H1 H2]. apply pyn_list_eqb_eq in H1. subst s.
  apply parse_PS in Es. intro n. exists (shift (4 * n) ls). split.
  - apply ltext_indent_open. rewrite <- lines_join. apply phys_ltext. exact Ep.
  - assert (B : Blk 0 ls sh).
    { split; [|exact Es]. intro E. subst ls. inversion Es; subst. discriminate. }
    pose proof (Blk_shift (4 * n) 0 ls sh B) as B'. rewrite Nat.add_0_r in B'. exact B'.
Qed.

Lemma elements_blocks : aligned tmpl_ok e_key e_text elements elem_shapes = true.
Proof. vm_compute. reflexivity. Qed.

Lemma modifiers_blocks : aligned tmpl_ok m_key m_text modifiers modif_shapes = true.
Proof. vm_compute. reflexivity. Qed.

Lemma pass_nl_block : tmpl_ok (L "pass" ++ [nl]) [NSimple] = true.
Proof. vm_compute. reflexivity. Qed.
Lemma pass_block : tmpl_ok (L "pass") [NSimple] = true.
Proof. vm_compute. reflexivity. Qed.

Theorem LT_element n k : LT (4 * n) (indent_str (element_text k) n) (elem_shape k).
Proof.
  unfold element_text, elem_shape, find_elem. rewrite find_elem_in_find.
  pose proof (aligned_lookup tmpl_ok _ tmpl_ok_sound e_key e_text k elements elem_shapes elements_blocks) as R. unfold rel in R.
  destruct (find_in e_key k (rev elements)) as [e|]; destruct (find_shape_in k elem_shapes None) as [sh|];
    try contradiction; [apply R|apply (tmpl_ok_sound _ _ pass_nl_block)].
Qed.

Theorem LT_modifier n m : LT (4 * n) (indent_str (modifier_text m) n) (modif_shape m).
Proof.
  unfold modifier_text, modif_shape, find_modif. rewrite find_modif_in_find.
  pose proof (aligned_lookup tmpl_ok _ tmpl_ok_sound m_key m_text [m] modifiers modif_shapes modifiers_blocks) as R. unfold rel in R.
  destruct (find_in m_key [m] (rev modifiers)) as [e|]; destruct (find_shape_in [m] modif_shapes None) as [sh|];
    try contradiction; [apply R|apply (tmpl_ok_sound _ _ pass_block)].
Qed.

(* ---- transpile_token ------------------------------------------------------------------------------------------------------ *)
Theorem token_LT undict n t x :
  tok_ok false undict t = true -> token_text undict t = TOk x -> LT (4 * n) (indent_str x n) (shape_token t).
Proof.
  unfold tok_ok, token_text, shape_token. destruct t as [k v]. cbn [tk tv].
  destruct k; intros Hok H.
  - (* STRING: any contents, any dictionary -- the re-escaping loop leaves no raw quote, newline or
       carriage return outside a backslash pair *)
    inversion H; subst x. apply LT_line. apply gline_string. apply escape_strict_all.
  - (* NUMBER *)
    inversion H; subst x. destruct (number_text_shape v Hok) as [p [Hp [-> | ->]]]; apply LT_line.
    + apply gline_rational. exact Hp.
    + apply gline_nsimplify. exact Hp.
  - (* CHARACTER *)
    destruct v as [|c [|? ?]]; try discriminate.
    destruct (py_repr_char c) as [r|] eqn:E; [|discriminate]. inversion H; subst x.
    apply LT_line. eapply gline_char. exact E.
  - (* GENERAL *)
    inversion H; subst x. apply LT_element.
  - (* COMPRESSED NUMBER *)
    inversion H; subst x. apply LT_line. apply gline_int.
  - (* COMPRESSED STRING *)
    destruct (uncompress_str v) as [s|]; [|discriminate].
    unfold py_repr_plain in H. destruct (forallb plain_repr_char s) eqn:E; [|discriminate].
    inversion H; subst x. apply LT_line. apply gline_sq. exact E.
  - (* VARIABLE GET *)
    revert H. apply match95; intro H; inversion H; subst x; apply LT_line.
    + apply glineb_gline. vm_compute. reflexivity.
    + apply gline_varget_ctx. exact Hok.
    + apply gline_varget. exact Hok.
  - (* VARIABLE SET *)
    revert H. apply match95; intro H; inversion H; subst x; apply LT_line.
    + apply glineb_gline. vm_compute. reflexivity.
    + apply gline_varset_ctx. exact Hok.
    + apply gline_varset. exact Hok.
  - (* CODE PAGE NUMBER *)
    destruct v as [|c [|? ?]]; try discriminate. inversion H; subst x. apply LT_line. apply gline_int.
Qed.
