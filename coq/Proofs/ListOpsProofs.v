(* C16: the proofs about Model/ListOps.v, split by topic. *)
From Vy Require Export Proofs.C16Basic Proofs.C16Sort Proofs.C16Shape Proofs.C16Enum Proofs.C16Diag Proofs.C16Examples.
