(* C03, lexer part: replacing the payload of a literal (or a comment) by another
   payload of the same kind changes only the value of that one token. *)
From Coq Require Import List NArith Bool Lia.
From Vy Require Import Model.Base Model.Lexer Model.Parser Gen.ParserConsts
  Proofs.ParserFacts Proofs.C04Proofs Proofs.C04Lex Proofs.C03Proofs.
Import ListNotations.
Open Scope N_scope.

(* the opening characters of literals are not number/name characters, so reading one
   in a flushing mode (code, number, variable name) ends that token and starts the literal *)
Definition starter_plain (c : N) : bool :=
  negb (mem c lex_number_chars) && negb (is_name_char c) && negb (N.eqb c ch_degree) && negb (N.eqb c ch_dot).

Lemma step_flushing_starter dv m c : flushing m = true -> starter_plain c = true ->
  step dv m c = (fst (step_normal c), flush m ++ snd (step_normal c)).
Proof.
  intros Hm Hc. unfold starter_plain in Hc. repeat (apply andb_prop in Hc as [Hc ?]).
  repeat match goal with X : negb _ = true |- _ => apply negb_true_iff in X end.
  destruct m; try discriminate; cbn [step flush app].
  - destruct (step_normal c); reflexivity.
  - repeat match goal with X : _ = false |- _ => rewrite X end. cbn [orb]. destruct (step_normal c); reflexivity.
  - repeat match goal with X : _ = false |- _ => rewrite X end. cbn [andb]. destruct (step_normal c); reflexivity.
  - repeat match goal with X : _ = false |- _ => rewrite X end. destruct (step_normal c); reflexivity.
Qed.

Lemma run_cons dv m c r : run dv m (c :: r) = snd (step dv m c) ++ run dv (fst (step dv m c)) r.
Proof. cbn [run]. destruct (step dv m c); reflexivity. Qed.

(* ---- delimited literals: ` » « ------------------------------------------------------ *)
Definition payload_plain (d : N) (p : str) : bool :=
  negb (mem d p) && (negb (N.eqb d ch_backquote) || negb (mem ch_backslash p)).

Lemma run_string_payload dv d p : forall acc rest,
  payload_plain d p = true ->
  run dv (MString d acc) (p ++ d :: rest) = Tok (string_kind d) (acc ++ p) :: run dv MNormal rest.
Proof.
  induction p as [|c p IH]; intros acc rest H.
  - cbn [app run step]. rewrite N.eqb_refl. rewrite app_nil_r. reflexivity.
  - unfold payload_plain in H. cbn [mem] in H. apply andb_prop in H as [H1 H2].
    apply negb_true_iff in H1. apply orb_false_iff in H1 as [Hdc Hdp].
    cbn [app run step]. rewrite N.eqb_sym in Hdc. rewrite Hdc.
    assert (Hesc : N.eqb d ch_backquote && N.eqb c ch_backslash = false).
    { destruct (N.eqb d ch_backquote) eqn:Ed; [|reflexivity]. cbn [negb orb andb] in *.
      apply negb_true_iff in H2. apply orb_false_iff in H2 as [H2 _]. rewrite N.eqb_sym. exact H2. }
    rewrite Hesc. cbn [app]. rewrite IH.
    + rewrite <- app_assoc. reflexivity.
    + unfold payload_plain. rewrite Hdp. cbn [negb andb].
      destruct (N.eqb d ch_backquote); [|reflexivity]. cbn [negb orb] in *.
      apply negb_true_iff in H2. apply orb_false_iff in H2 as [_ H2]. rewrite H2. reflexivity.
Qed.

Definition delim_ok (d : N) : bool :=
  starter_plain d && negb (mem d lex_escape) && mem d lex_string_delims.

Lemma delims_ok : forallb delim_ok lex_string_delims = true.
Proof. vm_compute. reflexivity. Qed.

Lemma step_normal_delim d : delim_ok d = true -> step_normal d = (MString d [], []).
Proof.
  unfold delim_ok. intro H. apply andb_prop in H as [H H3]. apply andb_prop in H as [_ H2].
  apply negb_true_iff in H2. unfold step_normal. rewrite H2, H3. reflexivity.
Qed.

Lemma lex_delimited dv pre d p post :
  flushing (fst (run_state dv MNormal pre)) = true -> mem d lex_string_delims = true ->
  payload_plain d p = true ->
  run dv MNormal (pre ++ d :: p ++ d :: post) =
  snd (run_state dv MNormal pre) ++ flush (fst (run_state dv MNormal pre))
  ++ Tok (string_kind d) p :: run dv MNormal post.
Proof.
  intros Hm Hd Hp.
  assert (Hok : delim_ok d = true).
  { pose proof delims_ok as P. rewrite forallb_forall in P. apply P. apply mem_In. exact Hd. }
  rewrite run_app. f_equal. rewrite run_cons.
  assert (Hs : starter_plain d = true) by (unfold delim_ok in Hok; apply andb_prop in Hok as [Hok _]; apply andb_prop in Hok as [Hok _]; exact Hok).
  rewrite (step_flushing_starter dv _ d Hm Hs), (step_normal_delim d Hok). cbn [fst snd].
  rewrite app_nil_r. f_equal. rewrite (run_string_payload dv d p [] post Hp). reflexivity.
Qed.

(* ---- one-character literals: \c and ⁺c ; two-character string ‛ab ; comment -------- *)
Definition one_char_starter (c : N) (m : mode) : bool :=
  starter_plain c && match step_normal c with (m', []) => true | _ => false end.

Lemma lex_escape_char dv pre e c post :
  flushing (fst (run_state dv MNormal pre)) = true -> starter_plain e = true ->
  step_normal e = (MEscape, []) ->
  run dv MNormal (pre ++ e :: c :: post) =
  snd (run_state dv MNormal pre) ++ flush (fst (run_state dv MNormal pre))
  ++ Tok KCharacter [c] :: run dv MNormal post.
Proof.
  intros Hm Hs He. rewrite run_app. f_equal. rewrite run_cons.
  rewrite (step_flushing_starter dv _ e Hm Hs), He. cbn [fst snd]. rewrite app_nil_r. f_equal.
Qed.

Lemma lex_cpnum dv pre e c post :
  flushing (fst (run_state dv MNormal pre)) = true -> starter_plain e = true ->
  step_normal e = (MCpNum, []) ->
  run dv MNormal (pre ++ e :: c :: post) =
  snd (run_state dv MNormal pre) ++ flush (fst (run_state dv MNormal pre))
  ++ Tok KCpNumber [c] :: run dv MNormal post.
Proof.
  intros Hm Hs He. rewrite run_app. f_equal. rewrite run_cons.
  rewrite (step_flushing_starter dv _ e Hm Hs), He. cbn [fst snd]. rewrite app_nil_r. f_equal.
Qed.

Lemma lex_twochar dv pre e a b post :
  flushing (fst (run_state dv MNormal pre)) = true -> starter_plain e = true ->
  step_normal e = (MTwo [], []) ->
  run dv MNormal (pre ++ e :: a :: b :: post) =
  snd (run_state dv MNormal pre) ++ flush (fst (run_state dv MNormal pre))
  ++ Tok KString [a; b] :: run dv MNormal post.
Proof.
  intros Hm Hs He. rewrite run_app. f_equal. rewrite run_cons.
  rewrite (step_flushing_starter dv _ e Hm Hs), He. cbn [fst snd]. rewrite app_nil_r. f_equal.
Qed.

Lemma run_comment dv p : forall rest, mem ch_newline p = false ->
  run dv MComment (p ++ ch_newline :: rest) = run dv MNormal rest.
Proof.
  induction p as [|c p IH]; intros rest H.
  - cbn [app run step]. rewrite N.eqb_refl. reflexivity.
  - cbn [mem] in H. apply orb_false_iff in H as [H1 H2]. cbn [app run step].
    rewrite N.eqb_sym in H1. rewrite H1. cbn [app]. apply IH. exact H2.
Qed.

Lemma lex_comment dv pre e p post :
  flushing (fst (run_state dv MNormal pre)) = true -> starter_plain e = true ->
  step_normal e = (MComment, []) -> mem ch_newline p = false ->
  run dv MNormal (pre ++ e :: p ++ ch_newline :: post) =
  snd (run_state dv MNormal pre) ++ flush (fst (run_state dv MNormal pre)) ++ run dv MNormal post.
Proof.
  intros Hm Hs He Hp. rewrite run_app. f_equal. rewrite run_cons.
  rewrite (step_flushing_starter dv _ e Hm Hs), He. cbn [fst snd]. rewrite app_nil_r. f_equal.
  apply run_comment. exact Hp.
Qed.

(* the concrete opening characters (from lexer.py's ladder, regenerated) *)
Lemma starters_facts :
  starter_plain 92 = true /\ step_normal 92 = (MEscape, [])
  /\ starter_plain 8314 = true /\ step_normal 8314 = (MCpNum, [])
  /\ starter_plain 8219 = true /\ step_normal 8219 = (MTwo [], [])
  /\ starter_plain 35 = true /\ step_normal 35 = (MComment, []).
Proof. vm_compute. repeat split; reflexivity. Qed.

(* ---- token lists that differ in one literal payload are `leq` ----------------------- *)
Lemma leq_one_literal (a : list token) k v1 v2 b :
  is_literal_kind k = true -> leq (a ++ Tok k v1 :: b) (a ++ Tok k v2 :: b).
Proof.
  intro H. apply leq_app; [apply leq_refl|]. constructor; [|apply leq_refl].
  split; [reflexivity|]. cbn [tk]. rewrite H. discriminate.
Qed.

Lemma string_kind_literal d : is_literal_kind (string_kind d) = true.
Proof. unfold string_kind. destruct (N.eqb d ch_backquote); [reflexivity|]. destruct (N.eqb d ch_num_delim); reflexivity. Qed.

Theorem source_delimited_payload_independent pre d p1 p2 post :
  flushing (mode_after pre) = true -> mem d lex_string_delims = true ->
  payload_plain d p1 = true -> payload_plain d p2 = true ->
  let t1 := tokenise (pre ++ d :: p1 ++ d :: post) in
  let t2 := tokenise (pre ++ d :: p2 ++ d :: post) in
  leq t1 t2 /\
  (names_lit_free (S (length t1)) t1 = true -> shape_res (parse_tokens t1) = shape_res (parse_tokens t2)).
Proof.
  intros Hm Hd H1 H2. unfold tokenise, tokenise_dv, mode_after in *. cbn zeta.
  rewrite (lex_delimited false pre d p1 post Hm Hd H1), (lex_delimited false pre d p2 post Hm Hd H2).
  assert (L : leq (snd (run_state false MNormal pre) ++ flush (fst (run_state false MNormal pre))
                   ++ Tok (string_kind d) p1 :: run false MNormal post)
                  (snd (run_state false MNormal pre) ++ flush (fst (run_state false MNormal pre))
                   ++ Tok (string_kind d) p2 :: run false MNormal post)).
  { rewrite !app_assoc. apply leq_one_literal. apply string_kind_literal. }
  split; [exact L|]. intro Hn. apply parse_tokens_literal_independent; assumption.
Qed.

Theorem source_char_payload_independent pre c1 c2 post :
  flushing (mode_after pre) = true ->
  let t1 := tokenise (pre ++ 92 :: c1 :: post) in
  let t2 := tokenise (pre ++ 92 :: c2 :: post) in
  leq t1 t2 /\
  (names_lit_free (S (length t1)) t1 = true -> shape_res (parse_tokens t1) = shape_res (parse_tokens t2)).
Proof.
  intro Hm. destruct starters_facts as [S1 [S2 _]]. unfold tokenise, tokenise_dv, mode_after in *. cbn zeta.
  rewrite (lex_escape_char false pre 92 c1 post Hm S1 S2), (lex_escape_char false pre 92 c2 post Hm S1 S2).
  assert (L : leq (snd (run_state false MNormal pre) ++ flush (fst (run_state false MNormal pre))
                   ++ Tok KCharacter [c1] :: run false MNormal post)
                  (snd (run_state false MNormal pre) ++ flush (fst (run_state false MNormal pre))
                   ++ Tok KCharacter [c2] :: run false MNormal post)).
  { rewrite !app_assoc. apply leq_one_literal. reflexivity. }
  split; [exact L|]. intro Hn. apply parse_tokens_literal_independent; assumption.
Qed.

Theorem source_cpnum_payload_independent pre c1 c2 post :
  flushing (mode_after pre) = true ->
  let t1 := tokenise (pre ++ 8314 :: c1 :: post) in
  let t2 := tokenise (pre ++ 8314 :: c2 :: post) in
  leq t1 t2 /\
  (names_lit_free (S (length t1)) t1 = true -> shape_res (parse_tokens t1) = shape_res (parse_tokens t2)).
Proof.
  intro Hm. destruct starters_facts as [_ [_ [S1 [S2 _]]]]. unfold tokenise, tokenise_dv, mode_after in *. cbn zeta.
  rewrite (lex_cpnum false pre 8314 c1 post Hm S1 S2), (lex_cpnum false pre 8314 c2 post Hm S1 S2).
  assert (L : leq (snd (run_state false MNormal pre) ++ flush (fst (run_state false MNormal pre))
                   ++ Tok KCpNumber [c1] :: run false MNormal post)
                  (snd (run_state false MNormal pre) ++ flush (fst (run_state false MNormal pre))
                   ++ Tok KCpNumber [c2] :: run false MNormal post)).
  { rewrite !app_assoc. apply leq_one_literal. reflexivity. }
  split; [exact L|]. intro Hn. apply parse_tokens_literal_independent; assumption.
Qed.

Theorem source_twochar_payload_independent pre a1 b1 a2 b2 post :
  flushing (mode_after pre) = true ->
  let t1 := tokenise (pre ++ 8219 :: a1 :: b1 :: post) in
  let t2 := tokenise (pre ++ 8219 :: a2 :: b2 :: post) in
  leq t1 t2 /\
  (names_lit_free (S (length t1)) t1 = true -> shape_res (parse_tokens t1) = shape_res (parse_tokens t2)).
Proof.
  intro Hm. destruct starters_facts as [_ [_ [_ [_ [S1 [S2 _]]]]]]. unfold tokenise, tokenise_dv, mode_after in *. cbn zeta.
  rewrite (lex_twochar false pre 8219 a1 b1 post Hm S1 S2), (lex_twochar false pre 8219 a2 b2 post Hm S1 S2).
  assert (L : leq (snd (run_state false MNormal pre) ++ flush (fst (run_state false MNormal pre))
                   ++ Tok KString [a1; b1] :: run false MNormal post)
                  (snd (run_state false MNormal pre) ++ flush (fst (run_state false MNormal pre))
                   ++ Tok KString [a2; b2] :: run false MNormal post)).
  { rewrite !app_assoc. apply leq_one_literal. reflexivity. }
  split; [exact L|]. intro Hn. apply parse_tokens_literal_independent; assumption.
Qed.

(* a comment contributes no token at all, whatever it contains *)
Theorem source_comment_independent pre p1 p2 post :
  flushing (mode_after pre) = true -> mem ch_newline p1 = false -> mem ch_newline p2 = false ->
  tokenise (pre ++ 35 :: p1 ++ ch_newline :: post) = tokenise (pre ++ 35 :: p2 ++ ch_newline :: post).
Proof.
  intros Hm H1 H2. destruct starters_facts as [_ [_ [_ [_ [_ [_ [S1 S2]]]]]]].
  unfold tokenise, tokenise_dv, mode_after in *.
  rewrite (lex_comment false pre 35 p1 post Hm S1 S2 H1), (lex_comment false pre 35 p2 post Hm S1 S2 H2).
  reflexivity.
Qed.
