(* Layout, part 5: TEXT and SHAPE connected.  For every structure tree (all constructors,
   any nesting) the TEXT that Model/Transpile.v emits, read by the block parser of
   Model/Layout.v, is exactly the block skeleton Model/PyShape.v assigns to the tree
   (`layout_tr`, by induction over `tr` through the unfolding `g_tr` of C18Proofs); hence
   every program text whose parse has no early exit in a while condition transpiles to
   text that Layout accepts (`text_accepted`). *)
From Coq Require Import List NArith ZArith Bool Lia Arith String Ascii.
From Vy Require Import Model.Base Model.Lexer Model.Parser Model.Transpile Model.Provenance Model.PyTree Model.PyShape
  Model.Books Model.Layout Gen.ParserConsts Gen.Codepage Gen.Elements Gen.TemplateShapes
  Proofs.ParserFacts Proofs.C02Proofs Proofs.ParseInvariants Proofs.C18Base Proofs.C18Shapes Proofs.C18Lex Proofs.C18Proofs
  Proofs.LayoutBlocks Proofs.LayoutLex Proofs.LayoutTemplates Proofs.LayoutTokens.
Import ListNotations.
Open Scope N_scope.

Ltac closed := vm_compute; reflexivity.

(* ---- suites built piece by piece ------------------------------------------------------------------- *)
(* text = body ++ rest : a suite at column j followed by statements at column k *)
Definition Split (j k : nat) (text : str) (sb s2 : list pyn) : Prop :=
  exists body rest, text = body ++ rest /\ LT j body sb /\ LT k rest s2.

Lemma Split_last j k p s rest s2 : LT j p s -> LT k rest s2 -> Split j k (p ++ rest) s s2.
Proof. intros Hp Hr. exists p, rest. auto. Qed.

Lemma Split_piece j k p s text sb s2 :
  LT j p s -> Split j k text sb s2 -> no_else_head sb = true -> Split j k (p ++ text) (s ++ sb) s2.
Proof.
  intros Hp [body [rest [-> [Hb Hr]]]] Hn. exists (p ++ body), rest. split; [apply app_assoc|].
  split; [apply LT_app; assumption|exact Hr].
Qed.

Lemma Split_piece3 j k p1 p2 p3 s text sb s2 :
  LT j (p1 ++ p2 ++ p3) s -> Split j k text sb s2 -> no_else_head sb = true ->
  Split j k (p1 ++ p2 ++ p3 ++ text) (s ++ sb) s2.
Proof.
  intros Hp Hs Hn. replace (p1 ++ p2 ++ p3 ++ text) with ((p1 ++ p2 ++ p3) ++ text) by (rewrite <- !app_assoc; reflexivity).
  apply Split_piece; assumption.
Qed.

Lemma LT_blank_app k p a s : ltext p [] -> LT k a s -> LT k (p ++ a) s.
Proof. intros Hp [la [Ta Ba]]. exists la. split; [|exact Ba]. apply (ltext_app p [] a la Hp Ta). Qed.

Lemma Split_blank j k p text sb s2 : ltext p [] -> Split j k text sb s2 -> Split j k (p ++ text) sb s2.
Proof.
  intros Hp [body [rest [-> [Hb Hr]]]]. exists (p ++ body), rest. split; [apply app_assoc|].
  split; [apply LT_blank_app; assumption|exact Hr].
Qed.

(* one fixed or payload line of simple statements in front *)
Lemma Split_line n k x leaf text sb s2 :
  gline x (LStmts [leaf]) -> Split (4 * S n) k text sb s2 -> no_else_head sb = true ->
  Split (4 * S n) k (indent_str x (S n) ++ text) (leaf :: sb) s2.
Proof. intros Hg Hs Hn. apply (Split_piece _ _ _ [leaf]); [apply LT_line; exact Hg|exact Hs|exact Hn]. Qed.

Lemma Split_lineb n k x leaf text sb s2 :
  glineb x = Some (LStmts [leaf]) -> Split (4 * S n) k text sb s2 -> no_else_head sb = true ->
  Split (4 * S n) k (indent_str x (S n) ++ text) (leaf :: sb) s2.
Proof. intro H. apply Split_line. apply glineb_gline. exact H. Qed.

Lemma Split_line_last n k x leaf rest s2 :
  gline x (LStmts [leaf]) -> LT k rest s2 -> Split (4 * S n) k (indent_str x (S n) ++ rest) [leaf] s2.
Proof. intros Hg Hr. apply Split_last; [apply LT_line; exact Hg|exact Hr]. Qed.

Lemma LT_block_rest n hdr h text sb s2 :
  h <> HElif -> gline hdr (LHead h []) -> Split (4 * S n) (4 * n) text sb s2 -> no_else_head s2 = true ->
  LT (4 * n) (indent_str hdr n ++ text) (NBlock (bkind_of h) sb :: s2).
Proof.
  intros Hh Hg [body [rest [-> [Hb Hr]]]] Hn. rewrite app_assoc.
  apply (LT_app _ _ [NBlock (bkind_of h) sb]); [apply LT_block; assumption|exact Hr|exact Hn].
Qed.

(* a line in front of statements at the same level *)
Lemma LT_line_app n x leaf text s : gline x (LStmts [leaf]) -> LT (4 * n) text s -> no_else_head s = true ->
  LT (4 * n) (indent_str x n ++ text) (leaf :: s).
Proof. intros Hg Ht Hn. apply (LT_app _ _ [leaf]); [apply LT_line; exact Hg|exact Ht|exact Hn]. Qed.

Lemma LT_lineb_app n x leaf text s : glineb x = Some (LStmts [leaf]) -> LT (4 * n) text s -> no_else_head s = true ->
  LT (4 * n) (indent_str x n ++ text) (leaf :: s).
Proof. intro H. apply LT_line_app. apply glineb_gline. exact H. Qed.

Lemma no_else_head_app a b : a <> [] -> no_else_head a = true -> no_else_head (a ++ b) = true.
Proof. destruct a; [congruence|]. intros _ H. exact H. Qed.

(* ---- facts about shapes ------------------------------------------------------------------------------- *)
Definition NE (sh : list pyn) : Prop := no_else_head sh = true /\ sh <> [].

Lemma NE_good il idf sh : C02Proofs.good il idf sh -> NE sh.
Proof. intros [_ [H1 H2]]. split; assumption. Qed.

Lemma NE_elem k : NE (elem_shape k).
Proof. apply (NE_good false false). apply elem_shape_good. Qed.
Lemma NE_modif m : NE (modif_shape m).
Proof. apply (NE_good false false). apply modif_shape_good. Qed.

Lemma NE_app a b : NE a -> NE (a ++ b).
Proof. intros [H1 H2]. split; [apply no_else_head_app; assumption|destruct a; [congruence|discriminate]]. Qed.

Lemma NE_flat (l : list struct) : l <> [] -> Forall (fun s => NE (shape s)) l -> NE (flat_map shape l).
Proof.
  intros Hne H. destruct H as [|x l Hx _]; [congruence|]. cbn [flat_map]. apply NE_app. exact Hx.
Qed.

Lemma NE_ast (l : list struct) : Forall (fun s => NE (shape s)) l -> NE (ast_with shape l).
Proof.
  intro H. unfold ast_with. destruct l as [|x l]; [split; [reflexivity|discriminate]|].
  apply NE_flat; [discriminate|exact H].
Qed.

Lemma NE_lambda body : NE (lambda_shape body).
Proof. split; [reflexivity|discriminate]. Qed.

Lemma shape_NE : forall s, ifs_nonempty s = true -> NE (shape s).
Proof.
  induction s using struct_ind'; intro Hn; cbn [shape ifs_nonempty] in *;
    try (split; [reflexivity|discriminate]).
  - unfold shape_token. destruct (tk t); try (split; [reflexivity|discriminate]). apply NE_elem.
  - unfold shape_break. destruct p as [[]|]; split; try reflexivity; discriminate.
  - unfold shape_recurse. destruct p as [[]|]; split; try reflexivity; discriminate.
  - apply andb_prop in Hn as [Hn _]. destruct bs as [|b [|b2 bs]]; [discriminate| |]; split; try reflexivity; discriminate.
  - (* while: starts with the condition *)
    apply andb_prop in Hn as [Hc _]. apply NE_app. apply NE_ast.
    rewrite forallb_forall in Hc. rewrite Forall_forall in *. intros x Hx. apply H; [exact Hx|apply Hc; exact Hx].
  - apply NE_app; destruct s; apply NE_lambda.
  - apply NE_app; destruct s1; apply NE_lambda.
  - apply NE_app; destruct s1; apply NE_lambda.
Qed.

Lemma shapes_NE l : forallb ifs_nonempty l = true -> Forall (fun s => NE (shape s)) l.
Proof. intro H. rewrite forallb_forall in H. apply Forall_forall. intros x Hx. apply shape_NE. apply H. exact Hx. Qed.

(* ---- what the induction carries ---------------------------------------------------------------------------- *)
Definition GL (f : struct -> nat -> Transpile.st -> tres (str * Transpile.st)) (x : struct) : Prop :=
  forall n c text c', f x n c = TOk (text, c') -> LT (4 * n) text (shape x).

Section WithF.
  Variable f : struct -> nat -> Transpile.st -> tres (str * Transpile.st).

  Lemma g_list_LT l : Forall (GL f) l -> forallb ifs_nonempty l = true -> l <> [] ->
    forall n c text c', g_list f l n c = TOk (text, c') -> LT (4 * n) text (flat_map shape l).
  Proof.
    induction 1 as [|x l Hx Hl IH]; intros Hne Hnil n c text c' H; [congruence|].
    cbn [forallb] in Hne. apply andb_prop in Hne as [Hnx Hnl].
    destruct l as [|y l].
    - cbn [flat_map]. rewrite app_nil_r. eapply Hx. exact H.
    - change (g_list f (x :: y :: l) n c) with
        (bindT (f x n c) (fun '(a, c1) =>
         bindT (g_list f (y :: l) n c1) (fun '(b, c2) => TOk (a ++ [nl] ++ b, c2)))) in H.
      bind_inv H. bind_inv H. tok_inv H.
      change (flat_map shape (x :: y :: l)) with (shape x ++ flat_map shape (y :: l)).
      apply LT_app; [eapply Hx; exact Hx0| |].
      + apply LT_nl_app. eapply IH; [exact Hnl|discriminate|exact Hx1].
      + apply (NE_flat (y :: l)); [discriminate|apply shapes_NE; exact Hnl].
  Qed.

  Lemma LT_pass n : LT (4 * n) (indent_str (L "pass") n) [NSimple].
  Proof. apply LT_lineb. closed. Qed.

  Lemma g_ast_LT l : Forall (GL f) l -> forallb ifs_nonempty l = true ->
    forall n c text c', g_ast f l n c = TOk (text, c') -> LT (4 * n) text (ast_with shape l).
  Proof.
    intros Hl Hne n c text c' H. destruct l as [|x l].
    - tok_inv H. apply LT_pass.
    - eapply g_list_LT; [exact Hl|exact Hne|discriminate|exact H].
  Qed.

  (* the three lines that select the arity *)
  Lemma LT_arity_chain n a :
    LT (4 * n)
       (indent_str (L "if arity != -1: stack = wrapify(arg_stack, arity, ctx=ctx)") n
        ++ indent_str (L "elif 'stored_arity' in dir(self): stack = wrapify(arg_stack, self.stored_arity, ctx)") n
        ++ indent_str (L "else: stack = wrapify(arg_stack, " ++ arity_text a ++ L ", ctx)") n)
       arity_chain.
  Proof.
    exists [((4 * n)%nat, LHead HIf [NSimple]); ((4 * n)%nat, LHead HElif [NSimple]); ((4 * n)%nat, LHead HElse [NSimple])].
    split; [|apply Blk_arity_chain].
    apply (ltext_app _ [_] _ [_; _]); [apply ltext_line0; apply glineb_gline; closed|].
    apply (ltext_app _ [_] _ [_]); [apply ltext_line0; apply glineb_gline; closed|].
    apply ltext_line0. apply gline_lam_else.
  Qed.

  Lemma g_lam_with_LT a (body : Transpile.st -> tres (str * Transpile.st)) shb :
    (forall c b c1, body c = TOk (b, c1) -> LT 0 b shb) -> NE shb ->
    forall n c text c', g_lam_with a body n c = TOk (text, c') -> LT (4 * n) text (lambda_shape shb).
  Proof.
    intros Hbody [Hnb Hnn] n c text c' H. unfold g_lam_with in H. bind_inv H. tok_inv H.
    apply Hbody in Hx. apply (LT_reindent (S n)) in Hx.
    unfold lambda_shape.
    apply (LT_block_rest n _ HDef); [discriminate|apply gline_lam_def| |reflexivity].
    apply Split_piece3; [apply LT_arity_chain| |reflexivity].
    do 5 (apply Split_lineb; [closed| |first [reflexivity|apply no_else_head_app; assumption]]).
    apply Split_piece; [exact Hx| |reflexivity].
    do 5 (apply Split_lineb; [closed| |reflexivity]).
    apply Split_line_last; [apply glineb_gline; closed|].
    apply LT_line_app; [apply gline_lam_arity| |reflexivity].
    apply LT_line. apply gline_lam_push.
  Qed.
End WithF.

(* ---- more pieces ---------------------------------------------------------------------------------------------- *)
Lemma Split_one n k x h y one text sb s2 :
  h <> HElif -> gline x (LHead h (y :: one)) -> Split (4 * S n) k text sb s2 -> no_else_head sb = true ->
  Split (4 * S n) k (indent_str x (S n) ++ text) (NBlock (bkind_of h) (y :: one) :: sb) s2.
Proof.
  intros Hh Hg Hs Hn. apply (Split_piece _ _ _ [NBlock (bkind_of h) (y :: one)]); [apply LT_one; assumption|exact Hs|exact Hn].
Qed.

Definition COND : str := L "condition = pop(stack, 1, ctx=ctx)".
Definition IFLINE : str := L "if boolify(condition, ctx):".
Definition ELSELINE : str := L "else:".

Lemma gline_COND : gline COND (LStmts [NSimple]).
Proof. apply glineb_gline. closed. Qed.
Lemma gline_IF : gline IFLINE (LHead HIf []).
Proof. apply glineb_gline. closed. Qed.
Lemma gline_ELSE : gline ELSELINE (LHead HElse []).
Proof. apply glineb_gline. closed. Qed.

Lemma LT_if_then n b shb : LT (4 * S n) b shb ->
  LT (4 * n) (indent_str COND n ++ indent_str IFLINE n ++ b) [NSimple; NBlock BIf shb].
Proof.
  intro Hb. apply LT_line_app; [exact gline_COND| |reflexivity].
  apply (LT_block n IFLINE HIf); [discriminate|exact gline_IF|exact Hb].
Qed.

(* an if block followed by its else part: the else attaches, whatever it contains *)
Lemma LT_if_then_more n b shb more shm : LT (4 * S n) b shb -> LT (4 * n) more shm ->
  LT (4 * n) (indent_str COND n ++ indent_str IFLINE n ++ b ++ more) ([NSimple; NBlock BIf shb] ++ shm).
Proof.
  intros [lb [Tb Bb]] [lm [Tm Bm]].
  exists ((((4 * n)%nat, LStmts [NSimple]) :: ((4 * n)%nat, LHead HIf []) :: lb) ++ lm). split.
  - apply (ltext_app _ [_] _ (_ :: lb ++ lm)); [apply ltext_line0; exact gline_COND|].
    apply (ltext_app _ [_] _ (lb ++ lm)); [apply ltext_line0; exact gline_IF|].
    apply ltext_app; assumption.
  - apply Blk_app; [|exact Bm|right].
    + apply (Blk_app_ne _ [_] [NSimple] (_ :: lb) [NBlock BIf shb]); [apply Blk_stmts| |reflexivity].
      apply (Blk_block (4 * n) (4 * S n) HIf lb shb); [discriminate|lia|exact Bb].
    + apply elif_free_cons_stmts. apply (elif_free_block (4 * n) (4 * S n) HIf [] lb shb); [discriminate|lia|exact Bb].
Qed.

Section WithF2.
  Variable f : struct -> nat -> Transpile.st -> tres (str * Transpile.st).

  Lemma g_lam_LT a body : Forall (GL f) body -> forallb ifs_nonempty body = true ->
    forall n c text c', g_lam f a body n c = TOk (text, c') -> LT (4 * n) text (lambda_shape (ast_with shape body)).
  Proof.
    intros Hb Hne. unfold g_lam. apply g_lam_with_LT.
    - intros c b c1 H. apply (g_ast_LT f body Hb Hne 0%nat c b c1 H).
    - apply NE_ast. apply shapes_NE. exact Hne.
  Qed.

  Lemma g_items_LT its : Forall (Forall (GL f)) its -> forallb (forallb ifs_nonempty) its = true -> its <> [] ->
    forall n c text c', g_items f its n c = TOk (text, c') -> LT (4 * n) text (items_with shape its).
  Proof.
    induction 1 as [|x r Hx Hr IH]; intros Hne Hnil n c text c' H; [congruence|].
    cbn [forallb] in Hne. apply andb_prop in Hne as [Hnx Hnr].
    cbn [g_items] in H. bind_inv H. bind_inv H. tok_inv H.
    apply (g_ast_LT f x Hx Hnx) in Hx0.
    assert (NEx : NE (ast_with shape x)) by (apply NE_ast; apply shapes_NE; exact Hnx).
    cbn [items_with].
    apply (LT_block_rest n _ HDef); [discriminate|apply glineb_gline; closed| |reflexivity].
    - apply Split_lineb; [closed| |apply no_else_head_app; apply NEx].
      apply Split_piece; [exact Hx0| |reflexivity].
      apply (Split_one n _ _ HIf NReturn []); [discriminate|apply glineb_gline; closed| |reflexivity].
      apply Split_line_last; [apply glineb_gline; closed|].
      destruct r as [|y r'].
      + cbn [g_items] in Hx1. tok_inv Hx1. rewrite app_nil_r. cbn [items_with].
        apply LT_lineb_app; [closed| |reflexivity].
        apply (LT_one n _ HIf NSimple []); [discriminate|apply glineb_gline; closed].
      + apply LT_lineb_app; [closed| |reflexivity].
        apply (LT_app _ _ [NBlock BIf [NSimple]]); [|eapply IH; [exact Hnr|discriminate|exact Hx1]|reflexivity].
        apply (LT_one n _ HIf NSimple []); [discriminate|apply glineb_gline; closed].
  Qed.

  Lemma g_ifs_LT : forall k bs, (List.length bs <= k)%nat -> Forall (Forall (GL f)) bs ->
    forallb (forallb ifs_nonempty) bs = true -> bs <> [] ->
    forall first n c text c', g_ifs f bs first n c = TOk (text, c') -> LT (4 * n) text (ifs_with shape bs first).
  Proof.
    induction k as [|k IH]; intros bs Hlen Hbs Hne Hnil first n c text c' H.
    - destruct bs; [congruence|simpl in Hlen; lia].
    - destruct bs as [|x [|y rest]]; [congruence| |].
      + (* one branch *)
        inversion Hbs as [|? ? Hx _]; subst. cbn [forallb] in Hne. rewrite andb_true_r in Hne.
        cbn [g_ifs] in H. destruct first; bind_inv H; tok_inv H; apply (g_ast_LT f x Hx Hne) in Hx0; cbn [ifs_with].
        * apply LT_if_then. exact Hx0.
        * apply (LT_block n ELSELINE HElse); [discriminate|exact gline_ELSE|exact Hx0].
      + inversion Hbs as [|? ? Hx Htl]; subst. inversion Htl as [|? ? Hy Hrest]; subst.
        cbn [forallb] in Hne. apply andb_prop in Hne as [Hnx Hntl]. pose proof Hntl as Hntl'.
        cbn [forallb] in Hntl. apply andb_prop in Hntl as [Hny Hnrest].
        cbn [g_ifs] in H. simpl in Hlen. destruct first.
        * bind_inv H. bind_inv H. tok_inv H. apply (g_ast_LT f x Hx Hnx) in Hx0.
          rewrite (ifs_true2 shape).
          apply LT_if_then_more; [exact Hx0|].
          eapply (IH (y :: rest)); [simpl; lia|exact Htl|exact Hntl'|discriminate|exact Hx1].
        * bind_inv H. bind_inv H. bind_inv H. tok_inv H.
          apply (g_ast_LT f x Hx Hnx) in Hx0. apply (g_ast_LT f y Hy Hny) in Hx1.
          rewrite (ifs_false2 shape).
          apply (LT_block n ELSELINE HElse); [discriminate|exact gline_ELSE|].
          apply LT_app; [exact Hx0| |reflexivity].
          destruct rest as [|z rest'].
          -- cbn [g_ifs] in Hx2. tok_inv Hx2. rewrite app_nil_r. cbn [ifs_with]. rewrite app_nil_r.
             apply LT_if_then. exact Hx1.
          -- apply LT_if_then_more; [exact Hx1|].
             eapply (IH (z :: rest')); [simpl in *; lia|exact Hrest|exact Hnrest|discriminate|exact Hx2].
  Qed.

  (* the operand of a modifier *)
  Definition wshape (x : struct) : list pyn :=
    match x with
    | SLambda _ body => lambda_shape (ast_with shape body)
    | _ => lambda_shape (shape x)
    end.

  Lemma g_wrapped_LT x :
    (forall a body, x = SLambda a body -> forall n c text c',
        g_lam f a body n c = TOk (text, c') -> LT (4 * n) text (lambda_shape (ast_with shape body))) ->
    GL f x -> ifs_nonempty x = true ->
    forall n c text c', g_wrapped f x n c = TOk (text, c') -> LT (4 * n) text (wshape x).
  Proof.
    intros Hlam Hx Hne n c text c' H.
    assert (G : forall y, y = x -> g_lam_with (fst (lambda_wrap1 y)) (f y 0%nat) n c = TOk (text, c') ->
                LT (4 * n) text (lambda_shape (shape y))).
    { intros y -> Hy. eapply g_lam_with_LT; [|apply shape_NE; exact Hne|exact Hy].
      intros c0 b c1 Hb. apply (Hx 0%nat c0 b c1 Hb). }
    destruct x; cbn [g_wrapped wshape] in *; try (apply (G _ eq_refl); exact H).
    eapply Hlam; [reflexivity|exact H].
  Qed.
End WithF2.

(* ---- function parameters --------------------------------------------------------------------------------------- *)
Lemma ltext_cons_line X rest cls ls : gline X cls -> ltext rest ls -> ltext (X ++ [nl] ++ rest) ((0%nat, cls) :: ls).
Proof. intros Hg Hr. apply (lt_chunk [] X rest cls ls eq_refl Hg Hr). Qed.

Lemma all_ascii_digits_digits p : all_ascii_digits p = true -> forallb is_digit p = true.
Proof. unfold all_ascii_digits. destruct p; [discriminate|]. intro H. exact H. Qed.

Lemma params_lines ps : forall ptext, params_text ps = TOk ptext ->
  exists lsp, ltext ptext lsp /\ PS 0 lsp (map (fun _ => NSimple) ps) [] /\ (ps = [] -> lsp = []) /\ (ps <> [] -> lsp <> []).
Proof.
  induction ps as [|p r IH]; intros ptext H; cbn [params_text] in H.
  - tok_inv H. exists []. split; [constructor|]. split; [constructor|]. split; [reflexivity|congruence].
  - bind_inv H. bind_inv H. tok_inv H. destruct (IH _ Hx0) as [lsr [Tr [Pr _]]]. clear IH Hx0.
    exists ((0%nat, LStmts [NSimple]) :: lsr).
    split; [|split; [apply (PS_stmts 0 [NSimple] lsr _ [] Pr)|split; [congruence|discriminate]]].
    destruct (is_numeric p).
    + destruct (all_ascii_digits p) eqn:Ed; [|discriminate]. tok_inv Hx.
      replace ((L "parameters += wrapify(arg_stack, " ++ N_to_dec (dec_value p 0) ++ L ", ctx)" ++ [nl]) ++ x0)
        with ((L "parameters += wrapify(arg_stack, " ++ N_to_dec (dec_value p 0) ++ L ", ctx)") ++ [nl] ++ x0)
        by (rewrite <- !app_assoc; reflexivity).
      apply ltext_cons_line; [|exact Tr]. apply gline_param_num. apply N_to_dec_digits.
    + destruct (str_eqb p [42]).
      * tok_inv Hx.
        replace ((L "parameters += wrapify(arg_stack, pop(arg_stack, 1, ctx=ctx), ctx=ctx)" ++ [nl]) ++ x0)
          with (L "parameters += wrapify(arg_stack, pop(arg_stack, 1, ctx=ctx), ctx=ctx)" ++ [nl] ++ x0)
          by (rewrite <- !app_assoc; reflexivity).
        apply ltext_cons_line; [|exact Tr]. apply glineb_gline. closed.
      * tok_inv Hx.
        replace ((L "VAR_" ++ keep re_keep_fnparam p ++ L " =pop(arg_stack, 1, ctx=ctx)" ++ [nl]) ++ x0)
          with ((L "VAR_" ++ keep re_keep_fnparam p ++ L " =pop(arg_stack, 1, ctx=ctx)") ++ [nl] ++ x0)
          by (rewrite <- !app_assoc; reflexivity).
        apply ltext_cons_line; [|exact Tr]. apply gline_param. apply keep_ident. exact re_keep_fnparam_ident.
Qed.

(* ---- the induction over `tr` ------------------------------------------------------------------------------------ *)
Section Structures.
  Variable undict : str -> str.

  (* what the lexer guarantees for every source: names are identifier characters, numbers are
     number characters; string contents are arbitrary (Provenance.tok_ok, lenient form) *)
  Definition QT (t : token) : Prop := tok_ok false undict t = true.

  Lemma break_LT p n : LT (4 * n) (break_text p n) (shape_break p).
  Proof.
    destruct p as [[]|]; cbn [break_text shape_break]; try (apply LT_lineb; closed).
    - apply LT_lineb_app; [closed| |reflexivity]. apply LT_lineb. closed.
    - apply LT_lineb_app; [closed| |reflexivity]. apply LT_lineb. closed.
    - do 5 (apply LT_lineb_app; [closed| |reflexivity]). apply LT_lineb. closed.
  Qed.

  Lemma recurse_LT p n : LT (4 * n) (recurse_text p n) (shape_recurse p).
  Proof.
    destruct p as [[]|]; cbn [recurse_text shape_recurse]; try (apply LT_lineb; closed).
    - apply LT_lineb_app; [closed| |reflexivity]. apply LT_lineb. closed.
    - apply LT_lineb_app; [closed| |reflexivity]. apply LT_lineb. closed.
    - apply tmpl_ok_sound. closed.
    - apply tmpl_ok_sound. closed.
    - apply tmpl_ok_sound. closed.
  Qed.

  Lemma wrapped_LT x : GL (tr undict) x -> ifs_nonempty x = true ->
    forall n c text c', g_wrapped (tr undict) x n c = TOk (text, c') -> LT (4 * n) text (wshape x).
  Proof.
    intros Hx Hne. apply g_wrapped_LT; [|exact Hx|exact Hne].
    intros a body -> n c text c' H. apply (Hx n c text c'). rewrite tr_eq, g_tr_lambda. exact H.
  Qed.

  Lemma Forall_mp2 {A} (P1 P2 P3 : A -> Prop) l :
    Forall (fun x => P1 x -> P2 x -> P3 x) l -> Forall P1 l -> Forall P2 l -> Forall P3 l.
  Proof. induction 1 as [|x l Hx Hl IH]; intros H1 H2; inversion H1; inversion H2; subst; constructor; auto. Qed.

  Lemma forallb_Forall {A} (p : A -> bool) l : forallb p l = true -> Forall (fun x => p x = true) l.
  Proof. intro H. rewrite forallb_forall in H. apply Forall_forall. exact H. Qed.

  Definition PL (s : struct) : Prop := ifs_nonempty s = true -> tree_ok QT s -> GL (tr undict) s.

  Lemma PL_list l : Forall PL l -> forallb ifs_nonempty l = true -> Forall (tree_ok QT) l -> Forall (GL (tr undict)) l.
  Proof.
    intros H Hn Hq. apply forallb_Forall in Hn. revert Hn Hq.
    induction H as [|x l Hx _ IH]; intros Hn Hq; [constructor|].
    inversion Hn; inversion Hq; subst. constructor; auto.
  Qed.

  Lemma PL_lists bs : Forall (Forall PL) bs -> forallb (forallb ifs_nonempty) bs = true ->
    Forall (Forall (tree_ok QT)) bs -> Forall (Forall (GL (tr undict))) bs.
  Proof.
    intros H Hn Hq. apply forallb_Forall in Hn. revert Hn Hq.
    induction H as [|x l Hx _ IH]; intros Hn Hq; [constructor|].
    inversion Hn; inversion Hq; subst. constructor; [apply PL_list; assumption|auto].
  Qed.

  Lemma LT_fA_mod n m name : glineb name = Some (LStmts [NSimple]) ->
    LT (4 * n) (indent_str name n ++ indent_str (modifier_text m) n) ([NSimple] ++ modif_shape m).
  Proof. intro H. apply LT_lineb_app; [exact H|apply LT_modifier|apply NE_modif]. Qed.

  Theorem tree_LT s : PL s.
  Proof.
    induction s as [t|p|p|bs IHbs|names body IHbody|cond body IHcond IHbody|name|name ps body IHbody
                    |a body IHbody|o body IHbody|its IHits|m x IHx|m x y IHx IHy|m x y z IHx IHy IHz]
      using struct_ind';
      intros Hne Hok n cc text cc' Htr; rewrite tr_eq in Htr; cbn [g_tr] in Htr;
      inversion Hok; subst; cbn [ifs_nonempty] in Hne.
    - (* token *)
      bind_inv Htr. tok_inv Htr. unfold transpile_token in Hx.
      destruct (token_text undict t) as [y|e] eqn:E; [|discriminate]. tok_inv Hx.
      cbn [shape]. eapply token_LT; [eassumption|exact E].
    - tok_inv Htr. apply break_LT.
    - tok_inv Htr. apply recurse_LT.
    - (* if *)
      apply andb_prop in Hne as [Hnil Hne]. cbn [shape].
      eapply (g_ifs_LT (tr undict) (List.length bs) bs (le_n _)); [apply PL_lists; assumption|exact Hne| |exact Htr].
      destruct bs; [discriminate|discriminate].
    - (* for *)
      assert (Hb : Forall (GL (tr undict)) body) by (apply PL_list; assumption).
      destruct (match names with
                | n0 :: _ => (n0, cc)
                | [] => (L "LOOP" ++ N_to_dec (N.of_nat (snd cc)), (fst cc, S (snd cc)))
                end) as [raw c0].
      bind_inv Htr. tok_inv Htr. apply (g_ast_LT (tr undict) body Hb Hne) in Hx.
      assert (NEb : NE (ast_with shape body)) by (apply NE_ast; apply shapes_NE; exact Hne).
      pose proof (keep_ident re_keep_for raw re_keep_for_ident) as Hid.
      cbn [shape].
      destruct (keep re_keep_for raw) as [|v0 v] eqn:Ev.
      + apply (LT_block n _ HLoop); [discriminate|apply glineb_gline; closed|].
        apply (LT_app _ _ [NSimple]); [apply (LT_line4 n (L "ctx.context_values.append(ctx.ghost_variable)")); apply glineb_gline; closed| |].
        * apply LT_app; [exact Hx| |reflexivity].
          apply (LT_line4 n (L "ctx.context_values.pop()")). apply glineb_gline. closed.
        * apply no_else_head_app; apply NEb.
      + apply (LT_block n _ HLoop); [discriminate|apply gline_for; exact Hid|].
        apply (LT_app _ _ [NSimple]).
        * replace (L "    ctx.context_values.append(" ++ (L "VAR_" ++ v0 :: v) ++ L ")")
            with (L "    " ++ (L "ctx.context_values.append(" ++ (L "VAR_" ++ v0 :: v) ++ L ")")) by reflexivity.
          apply LT_line4. apply gline_for_ctx. exact Hid.
        * apply LT_app; [exact Hx| |reflexivity].
          apply (LT_line4 n (L "ctx.context_values.pop()")). apply glineb_gline. closed.
        * apply no_else_head_app; apply NEb.
    - (* while *)
      apply andb_prop in Hne as [Hnc Hnb].
      assert (Hc : Forall (GL (tr undict)) cond) by (apply PL_list; assumption).
      assert (Hb : Forall (GL (tr undict)) body) by (apply PL_list; assumption).
      bind_inv Htr. bind_inv Htr. bind_inv Htr. tok_inv Htr.
      apply (g_ast_LT (tr undict) cond Hc Hnc) in Hx, Hx1. apply (g_ast_LT (tr undict) body Hb Hnb) in Hx0.
      assert (NEc : NE (ast_with shape cond)) by (apply NE_ast; apply shapes_NE; exact Hnc).
      assert (NEb : NE (ast_with shape body)) by (apply NE_ast; apply shapes_NE; exact Hnb).
      cbn [shape].
      apply LT_app; [exact Hx| |reflexivity].
      apply LT_lineb_app; [closed| |reflexivity].
      apply (LT_block n _ HLoop); [discriminate|apply glineb_gline; closed|].
      apply (LT_app _ _ [NSimple]); [apply (LT_line4 n (L "ctx.context_values.append(condition)")); apply glineb_gline; closed| |].
      + apply LT_app; [exact Hx0| |reflexivity].
        apply (LT_app _ _ [NSimple]); [apply (LT_line4 n (L "ctx.context_values.pop()")); apply glineb_gline; closed| |].
        * apply LT_app; [exact Hx1| |reflexivity].
          apply (LT_line4 n (L "condition = pop(stack, 1, ctx=ctx)")). apply glineb_gline. closed.
        * apply no_else_head_app; apply NEc.
      + apply no_else_head_app; apply NEb.
    - (* function call *)
      tok_inv Htr. cbn [shape]. apply LT_line. apply gline_fncall. apply keep_ident. exact re_keep_fncall_ident.
    - (* function definition *)
      assert (Hb : Forall (GL (tr undict)) body) by (apply PL_list; assumption).
      bind_inv Htr. bind_inv Htr. tok_inv Htr.
      apply (g_ast_LT (tr undict) body Hb Hne 0%nat) in Hx0. apply (LT_reindent (S n)) in Hx0.
      assert (NEb : NE (ast_with shape body)) by (apply NE_ast; apply shapes_NE; exact Hne).
      pose proof (keep_ident re_keep_fndef name re_keep_fndef_ident) as Hid.
      destruct (params_lines ps x Hx) as [lsp [Tp [Pp [Pnil Pne]]]].
      cbn [shape].
      apply (LT_block n _ HDef); [discriminate|apply gline_fndef; exact Hid|].
      apply LT_lineb_app; [closed| |destruct ps; reflexivity].
      assert (R : forall T sT, LT (4 * S n) T sT -> no_else_head sT = true ->
                  LT (4 * S n) (indent_str x (S n) ++ T) (map (fun _ => NSimple) ps ++ sT)).
      { intros T sT HT HnT. apply (ltext_indent (S n)) in Tp. destruct ps as [|p0 ps'].
        - rewrite (Pnil eq_refl) in Tp. apply LT_blank_app; [exact Tp|exact HT].
        - apply LT_app; [|exact HT|exact HnT].
          exists (shift (4 * S n) lsp). split; [exact Tp|].
          assert (B : Blk 0 lsp (map (fun _ => NSimple) (p0 :: ps'))) by (split; [apply Pne; discriminate|exact Pp]).
          pose proof (Blk_shift (4 * S n) 0 _ _ B) as B'. rewrite Nat.add_0_r in B'. exact B'. }
      apply R; [|reflexivity].
      do 4 (apply LT_lineb_app; [closed| |first [reflexivity|apply no_else_head_app; apply NEb]]).
      apply LT_line_app; [apply gline_this; exact Hid| |apply no_else_head_app; apply NEb].
      apply LT_app; [exact Hx0| |reflexivity].
      do 3 (apply LT_lineb_app; [closed| |reflexivity]).
      apply LT_lineb. closed.
    - (* lambda *)
      cbn [shape]. eapply (g_lam_LT (tr undict)); [apply PL_list; eassumption|exact Hne|exact Htr].
    - (* lambda map / filter / sort *)
      bind_inv Htr. tok_inv Htr. cbn [shape].
      apply LT_app; [|apply LT_element|apply NE_elem].
      eapply (g_lam_LT (tr undict)); [apply PL_list; eassumption|exact Hne|exact Hx].
    - (* list *)
      bind_inv Htr. tok_inv Htr. cbn [shape].
      destruct its as [|it its'].
      + cbn [g_items] in Hx. tok_inv Hx. cbn [app items_with].
        apply LT_lineb_app; [closed| |reflexivity]. apply LT_lineb. closed.
      + apply LT_lineb_app; [closed| |reflexivity].
        apply LT_app; [| apply LT_lineb; closed|reflexivity].
        eapply (g_items_LT (tr undict)); [apply PL_lists; eassumption|exact Hne|discriminate|exact Hx].
    - (* monadic modifier *)
      bind_inv Htr. tok_inv Htr.
      match goal with Hq : tree_ok QT x |- _ => apply (wrapped_LT x (IHx Hne Hq) Hne) in Hx end.
      change (shape (SMod1 m x)) with (wshape x ++ [NSimple] ++ modif_shape m).
      apply LT_app; [exact Hx| |reflexivity]. apply LT_nl_app. apply LT_fA_mod. closed.
    - (* dyadic modifier *)
      apply andb_prop in Hne as [Hn1 Hn2].
      bind_inv Htr. bind_inv Htr. tok_inv Htr.
      match goal with Hq : tree_ok QT x |- _ => apply (wrapped_LT x (IHx Hn1 Hq) Hn1) in Hx end.
      match goal with Hq : tree_ok QT y |- _ => apply (wrapped_LT y (IHy Hn2 Hq) Hn2) in Hx0 end.
      change (shape (SMod2 m x y)) with (wshape x ++ [NSimple] ++ wshape y ++ [NSimple] ++ modif_shape m).
      apply LT_app; [exact Hx| |reflexivity]. apply LT_nl_app.
      apply LT_lineb_app; [closed| |destruct y; reflexivity].
      apply LT_app; [exact Hx0| |reflexivity]. apply LT_nl_app. apply LT_fA_mod. closed.
    - (* triadic modifier *)
      apply andb_prop in Hne as [Hn12 Hn3]. apply andb_prop in Hn12 as [Hn1 Hn2].
      bind_inv Htr. bind_inv Htr. bind_inv Htr. tok_inv Htr.
      match goal with Hq : tree_ok QT x |- _ => apply (wrapped_LT x (IHx Hn1 Hq) Hn1) in Hx end.
      match goal with Hq : tree_ok QT y |- _ => apply (wrapped_LT y (IHy Hn2 Hq) Hn2) in Hx0 end.
      match goal with Hq : tree_ok QT z |- _ => apply (wrapped_LT z (IHz Hn3 Hq) Hn3) in Hx1 end.
      change (shape (SMod3 m x y z))
        with (wshape x ++ [NSimple] ++ wshape y ++ [NSimple] ++ wshape z ++ [NSimple] ++ modif_shape m).
      apply LT_app; [exact Hx| |reflexivity]. apply LT_nl_app.
      apply LT_lineb_app; [closed| |destruct y; reflexivity].
      apply LT_app; [exact Hx0| |reflexivity]. apply LT_nl_app.
      apply LT_lineb_app; [closed| |destruct z; reflexivity].
      apply LT_app; [exact Hx1| |reflexivity]. apply LT_nl_app. apply LT_fA_mod. closed.
  Qed.
End Structures.

(* ---- statements about the functions of Model/Layout.v ------------------------------------------------------------ *)
Lemma layout_at_0 text : layout_at 0 text = layout text.
Proof.
  unfold layout_at, layout, layout_res.
  destruct (parse_suite (S (List.length (lines_of text))) 0 (lines_of text)) as [sh [|? ?]| |]; reflexivity.
Qed.

Lemma LT_layout_at k text sh : LT k text sh -> layout_at k text = Some sh.
Proof.
  intros [ls [T [_ P]]]. unfold layout_at. rewrite (ltext_lines _ _ T).
  rewrite (PS_parse _ _ _ _ P) by lia. reflexivity.
Qed.

(* every structure, any nesting, any indentation, any counters, any dictionary function: the
   emitted text lays out as `shape s`.  Side conditions: the token payloads are what the
   lexer delivers (tree_ok: names are identifier characters, numbers are number characters;
   string contents and what the dictionary makes of them are arbitrary) and no `if` without branches
   (the parser never builds one). *)
Theorem layout_tr undict s n c text c' :
  tree_ok (QT undict) s -> ifs_nonempty s = true ->
  tr undict s n c = TOk (text, c') -> layout_at (4 * n) text = Some (shape s).
Proof. intros Hq Hn H. apply LT_layout_at. exact (tree_LT undict s Hn Hq n c text c' H). Qed.

Theorem layout_program undict l text :
  Forall (tree_ok (QT undict)) l -> forallb ifs_nonempty l = true ->
  transpile_ast undict l = TOk text -> layout text = Some (shape_program l).
Proof.
  intros Hq Hn H. rewrite <- layout_at_0. apply LT_layout_at. unfold transpile_ast in H.
  destruct l as [|x l].
  - tok_inv H. apply (LT_pass 0).
  - destruct (tr_list undict (x :: l) 0%nat (0%nat, 0%nat)) as [[y c]|e] eqn:E; [|discriminate].
    tok_inv H. rewrite tr_list_eq in E.
    apply (g_list_LT (tr undict) (x :: l)) with (n := 0%nat) (c := (0%nat, 0%nat)) (c' := c); [|exact Hn|discriminate|exact E].
    apply Forall_forall. intros s Hs. rewrite Forall_forall in Hq. rewrite forallb_forall in Hn.
    apply tree_LT; [apply Hn; exact Hs|apply Hq; exact Hs].
Qed.

(* ---- from the source text -------------------------------------------------------------------------------------------- *)
(* every tree the parser returns, for any source text and any dictionary function *)
Theorem parsed_tree_ok undict src l : parse_source src = Ok l -> Forall (tree_ok (QT undict)) l.
Proof.
  intros Hp. unfold parse_source, parse_tokens in Hp.
  eapply (parse_Q (QT undict) eq_refl); [|exact Hp].
  apply (lexer_tokens_ok false undict (fun _ => true) false src).
  - intros t. apply tok_lex_ok_lenient.
  - apply forallb_const_true.
Qed.

(* C02 end to end, for ALL program texts and ANY dictionary function: the text the transpiler
   emits is accepted by Coq's reading of Python's block structure and context conditions.
   The only hypothesis beyond "it parses and transpiles" is wconds: no early exit in a while
   condition (the recorded defect class, rejected below). *)
Theorem text_accepted undict src l text :
  parse_source src = Ok l -> forallb wconds l = true ->
  transpile_ast undict l = TOk text -> accepts text = true.
Proof.
  intros Hp Hw Ht. unfold accepts.
  rewrite (layout_program undict l text); [|eapply parsed_tree_ok; eassumption| |exact Ht].
  - apply program_py_wf. eapply parsed_ctx_ok; [exact Hp|exact Hw].
  - unfold parse_source, parse_tokens in Hp. eapply parse_ne. exact Hp.
Qed.

Corollary text_accepted_nodict src text :
  (exists l, parse_source src = Ok l /\ forallb wconds l = true) ->
  transpile_nodict src = OText text -> accepts text = true.
Proof.
  intros [l [Hp Hw]] H. unfold transpile_nodict in H. rewrite Hp in H.
  destruct (transpile_ast (fun s => s) l) as [x|e] eqn:E; [|discriminate]. inversion H; subst.
  exact (text_accepted (fun s => s) src l text Hp Hw E).
Qed.

(* ---- the theorems are not vacuous, the checker rejects what it should -------------------------------------------- *)
(* 3(n2%[`a\<newline>b`|λ1+;†|2])⟨1|`x;`|⟨X⟩⟩vN @f:a:2|←a →b; @f; {0|x} ₌+- µN; 5ƛ2*;
   a for loop, a three-branch if (else / nested if), a string with backslash-newline (its literal spans
   two physical lines), a lambda, a list literal with a nested list and a stray X, a modifier,
   a function definition with a name and a number parameter, a call, a while loop with x, ₌, µ, ƛ *)
Definition demo_layout_src : str :=
  [51;40;110;50;37;91;96;97;92;10;98;96;124;955;49;43;59;8224;124;50;93;41;10216;49;124;96;120;59;96;124;10216;88;10217;10217;
   118;78;32;64;102;58;97;58;50;124;8592;97;32;8594;98;59;32;64;102;59;32;123;48;124;120;125;32;8332;43;45;32;181;78;59;32;53;
   411;50;42;59].

Example layout_nonvacuous : exists l text,
  parse_source demo_layout_src = Ok l /\ forallb wconds l = true /\ mem 13 demo_layout_src = false /\
  transpile_ast (fun s => s) l = TOk text /\ layout text = Some (shape_program l) /\ accepts text = true.
Proof. eexists. eexists. split; [vm_compute; reflexivity|]. repeat split; vm_compute; reflexivity. Qed.

(* the known bad class {X|1}: a `break` before the `while` *)
Example layout_rejects_known_bad : accepts_source [123;88;124;49;125] = Some false.
Proof. vm_compute. reflexivity. Qed.

(* a string holding a carriage return: the transpiler escapes it (it used to be emitted raw, which Python
   and Layout read as an unterminated literal: found by this development, repaired in /repo) *)
Example layout_cr_escaped : exists l text,
  parse_source [96;13;96] = Ok l /\ forallb wconds l = true /\ transpile_ast (fun s => s) l = TOk text /\ accepts text = true.
Proof. eexists. eexists. split; [vm_compute; reflexivity|]. repeat split; vm_compute; reflexivity. Qed.

(* backslash + carriage return written in a string, inside a loop: 3(`a\<CR>b`).  The pair is passed
   through, CPython reads it as a line continuation inside the literal, Layout as an escape pair.
   (The implementation's helpers.indent_str = textwrap.indent also splits at the CR and puts the
   indentation after it, inside the literal; Model/Transpile.v splits at newline only -- its stated
   scope of exactness -- so on this program the implementation's text has four more spaces inside
   the literal than the model's.  Both texts compile; Layout accepts both: second conjunct.) *)
Example layout_backslash_cr :
  (exists l text, parse_source [51;40;96;97;92;13;98;96;41] = Ok l /\ transpile_ast (fun s => s) l = TOk text /\
                  mem 13 text = true /\ accepts text = true)
  /\ accepts (L "if x:" ++ [nl] ++ L "    stack.append(""a\" ++ [13] ++ L "    b"")" ++ [nl]) = true.
Proof. split; [eexists; eexists; split; [vm_compute; reflexivity|repeat split; vm_compute; reflexivity]|vm_compute; reflexivity]. Qed.

(* a raw carriage return anywhere else is rejected, as CPython does *)
Example layout_raw_cr_rejected :
  accepts (L "stack.append(""a" ++ [13] ++ L "b"")" ++ [nl]) = false.
Proof. vm_compute. reflexivity. Qed.

(* a string literal continued over two physical lines is ONE logical line *)
Example layout_continuation : exists text,
  transpile_nodict [96;97;92;10;98;96] = OText text /\ lines_of text = [(0%nat, LStmts [NSimple])] /\ accepts text = true.
Proof. eexists. split; [vm_compute; reflexivity|]. split; vm_compute; reflexivity. Qed.

(* structural errors the block parser reports *)
Example layout_rejects :
  accepts (L "if x:" ++ [nl] ++ L "y = 1" ++ [nl]) = false                                   (* expected an indented block *)
  /\ accepts (L "x = 1" ++ [nl] ++ L "    y = 1" ++ [nl]) = false                            (* unexpected indent *)
  /\ accepts (L "if x:" ++ [nl] ++ L "        y = 1" ++ [nl] ++ L "    z = 1" ++ [nl]) = false  (* dedent to no enclosing level *)
  /\ accepts (L "x = 1" ++ [nl] ++ L "else:" ++ [nl] ++ L "    y = 1" ++ [nl]) = false       (* else without if *)
  /\ accepts (L "def f():" ++ [nl] ++ L "    break" ++ [nl]) = false
  /\ accepts (L "for i in x:" ++ [nl] ++ L "    def f():" ++ [nl] ++ L "        continue" ++ [nl]) = false
  /\ accepts (L "return" ++ [nl]) = false
  /\ accepts (L "while x:" ++ [nl] ++ L "    if y: break" ++ [nl] ++ L "    else: continue" ++ [nl]) = true.
Proof. vm_compute. repeat split; reflexivity. Qed.
