(* Layout, part 2: the block parser of Model/Layout.v on lists of logical lines.
   `PS k ls sh rest` is the parser as a relation (no fuel); the fuelled function computes it
   (`PS_parse`) and conversely (`parse_PS`); the fuel used by `layout` always suffices
   (`parse_suite_fuel_enough`).  Compositionality: a block that parses on its own still
   parses, to the same statements, in front of any continuation at its level (`PS_ext`), at
   any indentation (`PS_shift`).  `Blk` packages this for the induction over `tr`. *)
From Coq Require Import List NArith ZArith Bool Lia Arith.
From Vy Require Import Model.Base Model.PyTree Model.Layout Proofs.C02Proofs.
Import ListNotations.
Open Scope nat_scope.

(* ---- the parser as a relation ------------------------------------------------------------------ *)
Inductive PS : nat -> list line -> list pyn -> list line -> Prop :=
| PS_end k : PS k [] [] []
| PS_dedent k i c r : i < k -> PS k ((i, c) :: r) [] ((i, c) :: r)
| PS_stmts k l r sh r' : PS k r sh r' -> PS k ((k, LStmts l) :: r) (l ++ sh) r'
| PS_one k h x one r sh r' : PS k r sh r' -> PS k ((k, LHead h (x :: one)) :: r) (attach h (x :: one) sh) r'
| PS_block k h j c r body r1 sh r' :
    k < j -> PS j ((j, c) :: r) body r1 -> PS k r1 sh r' ->
    PS k ((k, LHead h []) :: (j, c) :: r) (attach h body sh) r'.

Definition low (k : nat) (r : list line) : Prop :=
  match r with [] => True | (i, _) :: _ => i <= k end.

Lemma PS_low k ls sh r : PS k ls sh r -> low k ls.
Proof. destruct 1; simpl; auto; lia. Qed.

(* what is consumed lies at or below the level, the rest is a suffix *)
Lemma PS_split k ls sh r : PS k ls sh r ->
  exists used, ls = used ++ r /\ Forall (fun l => k <= fst l) used.
Proof.
  induction 1 as [k|k i c r Hi|k l r sh r' _ [u [-> Hu]]|k h x one r sh r' _ [u [-> Hu]]
                  |k h j c r body r1 sh r' Hkj _ [u1 [E1 Hu1]] _ [u2 [-> Hu2]]].
  - exists []. split; [reflexivity|constructor].
  - exists []. split; [reflexivity|constructor].
  - exists ((k, LStmts l) :: u). split; [reflexivity|]. constructor; [simpl; lia|exact Hu].
  - exists ((k, LHead h (x :: one)) :: u). split; [reflexivity|]. constructor; [simpl; lia|exact Hu].
  - exists ((k, LHead h []) :: u1 ++ u2). split.
    + simpl. rewrite E1, <- app_assoc. reflexivity.
    + constructor; [simpl; lia|]. apply Forall_app. split; [|exact Hu2].
      eapply Forall_impl; [|exact Hu1]. simpl. intros a Ha. lia.
Qed.

Lemma PS_rest_len k ls sh r : PS k ls sh r -> length r <= length ls.
Proof. intro H. destruct (PS_split _ _ _ _ H) as [u [-> _]]. rewrite app_length. lia. Qed.

(* ---- relation <-> function ------------------------------------------------------------------------ *)
Lemma PS_parse k ls sh r : PS k ls sh r -> forall f, length ls < f -> parse_suite f k ls = POk sh r.
Proof.
  induction 1 as [k|k i c r Hi|k l r sh r' _ IH|k h x one r sh r' _ IH
                  |k h j c r body r1 sh r' Hkj H1 IH1 H2 IH2]; intros f Hf;
    (destruct f as [|f]; [simpl in Hf; lia|]); cbn [parse_suite].
  - reflexivity.
  - apply Nat.ltb_lt in Hi. rewrite Hi. reflexivity.
  - rewrite Nat.ltb_irrefl. rewrite IH by (simpl in Hf; lia). reflexivity.
  - rewrite Nat.ltb_irrefl. rewrite IH by (simpl in Hf; lia). reflexivity.
  - rewrite Nat.ltb_irrefl. apply Nat.ltb_lt in Hkj. rewrite Hkj.
    rewrite IH1 by (simpl in *; lia). cbn [pbind].
    pose proof (PS_rest_len _ _ _ _ H1) as Hl.
    rewrite IH2 by (simpl in *; lia). reflexivity.
Qed.

Lemma pbind_ok r g sh rest : pbind r g = POk sh rest -> exists a b, r = POk a b /\ g a b = POk sh rest.
Proof. destruct r; simpl; intro H; try discriminate. eauto. Qed.

Lemma parse_PS : forall f k ls sh r, parse_suite f k ls = POk sh r -> PS k ls sh r.
Proof.
  induction f as [|f IH]; intros k ls sh r H; [discriminate|].
  cbn [parse_suite] in H. destruct ls as [|[i c] ls]; [inversion H; constructor|].
  destruct (i <? k) eqn:E1; [inversion H; subst; apply Nat.ltb_lt in E1; constructor; exact E1|].
  destruct (k <? i) eqn:E2; [discriminate|].
  apply Nat.ltb_ge in E1. apply Nat.ltb_ge in E2. assert (i = k) by lia. subst i.
  destruct c as [l|h one|]; [| |discriminate].
  - apply pbind_ok in H as [a [b [H1 H2]]]. inversion H2; subst. constructor. apply IH. exact H1.
  - destruct one as [|x one].
    + destruct ls as [|[j c'] ls]; [discriminate|].
      destruct (k <? j) eqn:E3; [|discriminate]. apply Nat.ltb_lt in E3.
      apply pbind_ok in H as [body [r1 [H1 H2]]]. apply pbind_ok in H2 as [a [b [H2 H3]]]. inversion H3; subst.
      eapply PS_block; [exact E3|apply IH; exact H1|apply IH; exact H2].
    + apply pbind_ok in H as [a [b [H1 H2]]]. inversion H2; subst. constructor. apply IH. exact H1.
Qed.

(* the fuel that `layout` supplies is never exhausted *)
Lemma pbind_not_fuel r g : r <> PFuel -> (forall a b, r = POk a b -> g a b <> PFuel) -> pbind r g <> PFuel.
Proof. intros Hr Hg. destruct r as [a b| |]; cbn [pbind]; [apply Hg; reflexivity|discriminate|congruence]. Qed.

Lemma parse_suite_fuel : forall f k ls, length ls < f ->
  parse_suite f k ls <> PFuel /\ forall sh r, parse_suite f k ls = POk sh r -> length r <= length ls.
Proof.
  induction f as [|f IH]; intros k ls Hf; [lia|].
  split.
  - cbn [parse_suite]. destruct ls as [|[i c] ls]; [discriminate|].
    destruct (i <? k); [discriminate|]. destruct (k <? i); [discriminate|].
    simpl in Hf.
    destruct c as [l|h one|]; [| |discriminate].
    + apply pbind_not_fuel; [apply IH; lia|discriminate].
    + destruct one as [|x one].
      * destruct ls as [|[j c'] ls]; [discriminate|]. destruct (k <? j); [|discriminate].
        destruct (IH j ((j, c') :: ls) ltac:(simpl in *; lia)) as [N1 L1].
        apply pbind_not_fuel; [exact N1|]. intros body r1 E. specialize (L1 body r1 E).
        apply pbind_not_fuel; [apply IH; simpl in *; lia|discriminate].
      * apply pbind_not_fuel; [apply IH; lia|discriminate].
  - intros sh r H. apply parse_PS in H. apply PS_rest_len in H. exact H.
Qed.

Theorem parse_suite_fuel_enough k ls : parse_suite (S (length ls)) k ls <> PFuel.
Proof. apply parse_suite_fuel. lia. Qed.

Theorem layout_never_out_of_fuel text : layout_res text <> LayFuel.
Proof.
  unfold layout_res. pose proof (parse_suite_fuel_enough 0 (lines_of text)) as N.
  destruct (parse_suite (S (length (lines_of text))) 0 (lines_of text)) as [sh [|? ?]| |]; try discriminate. congruence.
Qed.

Lemma layout_of_PS text sh : PS 0 (lines_of text) sh [] -> layout text = Some sh.
Proof.
  intro H. unfold layout, layout_res. rewrite (PS_parse _ _ _ _ H) by lia. reflexivity.
Qed.

Lemma PS_of_layout text sh : layout text = Some sh -> PS 0 (lines_of text) sh [].
Proof.
  unfold layout, layout_res. intro H.
  destruct (parse_suite (S (length (lines_of text))) 0 (lines_of text)) as [s [|? ?]| |] eqn:E; try discriminate.
  inversion H; subst. eapply parse_PS. exact E.
Qed.

(* ---- a different indentation ------------------------------------------------------------------------- *)
Definition shift (d : nat) (ls : list line) : list line := map (fun l => (d + fst l, snd l)) ls.

Lemma shift_app d a b : shift d (a ++ b) = shift d a ++ shift d b.
Proof. apply map_app. Qed.

Lemma PS_shift d k ls sh r : PS k ls sh r -> PS (d + k) (shift d ls) sh (shift d r).
Proof.
  induction 1 as [k|k i c r Hi|k l r sh r' _ IH|k h x one r sh r' _ IH
                  |k h j c r body r1 sh r' Hkj _ IH1 _ IH2]; simpl.
  - constructor.
  - constructor. lia.
  - constructor. exact IH.
  - constructor. exact IH.
  - eapply PS_block; [|exact IH1|exact IH2]. lia.
Qed.

(* ---- continuation --------------------------------------------------------------------------------------- *)
(* a nested suite still ends where it ended when lower lines follow *)
Lemma PS_inner j X body r1 : PS j X body r1 ->
  forall k r, k < j -> low k r -> PS j (X ++ r) body (r1 ++ r).
Proof.
  induction 1 as [j|j i c x Hi|j l x sh r' _ IH|j h y one x sh r' _ IH
                  |j h j' c x body r1 sh r' Hjj _ IH1 _ IH2]; intros k r Hk Hr; simpl.
  - destruct r as [|[i c] r]; [constructor|]. simpl in Hr. constructor. lia.
  - constructor. exact Hi.
  - constructor. eapply IH; eassumption.
  - constructor. eapply IH; eassumption.
  - eapply PS_block; [exact Hjj| |].
    + apply (IH1 k r); [lia|exact Hr].
    + eapply IH2; eassumption.
Qed.

Definition is_elif (c : lclass) : bool := match c with LHead HElif _ => true | _ => false end.
(* no `elif` header at indentation k *)
Definition elif_free (k : nat) (B : list line) : bool :=
  forallb (fun l => negb ((fst l =? k) && is_elif (snd l))) B.

Lemma attach_app h body sh sh' :
  (h <> HElif \/ sh <> [] \/ no_else_head sh' = true) -> attach h body (sh ++ sh') = attach h body sh ++ sh'.
Proof.
  intro C. destruct h; try reflexivity.
  destruct sh as [|x sh].
  - destruct C as [C|[C|C]]; try congruence. simpl.
    destruct sh' as [|y sh']; [reflexivity|]. destruct y as [| | | | |[] ?]; try reflexivity. discriminate.
  - simpl. destruct x as [| | | | |[] ?]; reflexivity.
Qed.

Lemma elif_free_cons k l B : elif_free k (l :: B) = true -> elif_free k B = true.
Proof. unfold elif_free. cbn [forallb]. intro H. apply andb_prop in H. tauto. Qed.

Lemma elif_free_suffix k u r : elif_free k (u ++ r) = true -> elif_free k r = true.
Proof. unfold elif_free. rewrite forallb_app. intro H. apply andb_prop in H. tauto. Qed.

(* a block that parses on its own, followed by more lines at its level *)
Lemma PS_ext_gen k B sh rB : PS k B sh rB -> rB = [] ->
  forall r sh' r', PS k r sh' r' -> (no_else_head sh' = true \/ elif_free k B = true) ->
  PS k (B ++ r) (sh ++ sh') r'.
Proof.
  induction 1 as [k|k i c x Hi|k l x sh rB _ IH|k h y one x sh rB _ IH
                  |k h j c x body r1 sh rB Hkj H1 _ H2 IH2]; intros E r sh' r' Hr C; simpl.
  - exact Hr.
  - discriminate.
  - rewrite <- app_assoc. constructor. apply IH; [exact E|exact Hr|].
    destruct C as [C|C]; [left; exact C|right]. simpl in C. apply andb_prop in C. tauto.
  - rewrite <- attach_app.
    + constructor. apply IH; [exact E|exact Hr|].
      destruct C as [C|C]; [left; exact C|right]. simpl in C. apply andb_prop in C. tauto.
    + destruct C as [C|C]; [right; right; exact C|left].
      simpl in C. apply andb_prop in C as [C _]. rewrite Nat.eqb_refl in C. destruct h; try discriminate; simpl in C; discriminate.
  - subst rB.
    destruct (PS_split _ _ _ _ H1) as [u [Eu Hu]].
    assert (C2 : no_else_head sh' = true \/ elif_free k r1 = true).
    { destruct C as [C|C]; [left; exact C|right].
      apply elif_free_cons in C. rewrite Eu in C. eapply elif_free_suffix. exact C. }
    rewrite <- attach_app.
    + eapply PS_block; [exact Hkj| |].
      * change ((j, c) :: x ++ r) with (((j, c) :: x) ++ r).
        apply (PS_inner _ _ _ _ H1 k r Hkj). eapply PS_low. exact Hr.
      * apply IH2; [reflexivity|exact Hr|exact C2].
    + destruct C as [C|C]; [right; right; exact C|left].
      simpl in C. apply andb_prop in C as [C _]. rewrite Nat.eqb_refl in C. destruct h; try discriminate; simpl in C; discriminate.
Qed.

Lemma PS_ext k B sh r sh' r' :
  PS k B sh [] -> PS k r sh' r' -> (no_else_head sh' = true \/ elif_free k B = true) ->
  PS k (B ++ r) (sh ++ sh') r'.
Proof. intros H Hr C. eapply PS_ext_gen; eauto. Qed.

(* ---- blocks ------------------------------------------------------------------------------------------------- *)
(* a non-empty run of lines that is, on its own, a complete suite at indentation k *)
Definition Blk (k : nat) (B : list line) (sh : list pyn) : Prop := B <> [] /\ PS k B sh [].

Lemma Blk_head k B sh : Blk k B sh -> exists c B', B = (k, c) :: B'.
Proof.
  intros [Hne H]. destruct H; try congruence; eauto.
Qed.

Lemma Blk_all_ge k B sh : Blk k B sh -> Forall (fun l => k <= fst l) B.
Proof. intros [_ H]. destruct (PS_split _ _ _ _ H) as [u [-> Hu]]. rewrite app_nil_r. exact Hu. Qed.

Lemma Blk_app k B1 s1 B2 s2 :
  Blk k B1 s1 -> Blk k B2 s2 -> (no_else_head s2 = true \/ elif_free k B1 = true) -> Blk k (B1 ++ B2) (s1 ++ s2).
Proof.
  intros [N1 H1] [N2 H2] C. split.
  - destruct B1; [congruence|discriminate].
  - rewrite <- (app_nil_r (B1 ++ B2)), <- app_assoc. apply PS_ext; [exact H1| |exact C].
    rewrite app_nil_r. exact H2.
Qed.

Lemma Blk_app_ne k B1 s1 B2 s2 :
  Blk k B1 s1 -> Blk k B2 s2 -> no_else_head s2 = true -> Blk k (B1 ++ B2) (s1 ++ s2).
Proof. intros. apply Blk_app; auto. Qed.

Lemma Blk_stmts k l : Blk k [(k, LStmts l)] l.
Proof. split; [discriminate|]. rewrite <- (app_nil_r l) at 2. constructor. constructor. Qed.

Lemma Blk_one k h x one : h <> HElif -> Blk k [(k, LHead h (x :: one))] [NBlock (bkind_of h) (x :: one)].
Proof.
  intro Hh. split; [discriminate|].
  replace [NBlock (bkind_of h) (x :: one)] with (attach h (x :: one) []) by (destruct h; try reflexivity; congruence).
  constructor. constructor.
Qed.

Lemma Blk_block k j h B body :
  h <> HElif -> k < j -> Blk j B body -> Blk k ((k, LHead h []) :: B) [NBlock (bkind_of h) body].
Proof.
  intros Hh Hkj HB. destruct (Blk_head _ _ _ HB) as [c [B' ->]]. destruct HB as [_ HB].
  split; [discriminate|].
  replace [NBlock (bkind_of h) body] with (attach h body []) by (destruct h; try reflexivity; congruence).
  eapply PS_block; [exact Hkj|exact HB|constructor].
Qed.

Lemma elif_free_block k j h one B body :
  h <> HElif -> k < j -> Blk j B body -> elif_free k ((k, LHead h one) :: B) = true.
Proof.
  intros Hh Hkj HB. unfold elif_free. cbn [forallb fst snd].
  apply andb_true_intro. split.
  - rewrite Nat.eqb_refl. destruct h; try reflexivity; congruence.
  - apply forallb_forall. intros l Hl. pose proof (Blk_all_ge _ _ _ HB) as F.
    rewrite Forall_forall in F. specialize (F l Hl).
    destruct (fst l =? k) eqn:E; [|reflexivity]. apply Nat.eqb_eq in E. lia.
Qed.

Lemma elif_free_cons_stmts k l B : elif_free k B = true -> elif_free k ((k, LStmts l) :: B) = true.
Proof. intro H. unfold elif_free in *. cbn [forallb fst snd is_elif]. rewrite andb_false_r. exact H. Qed.

Lemma Blk_shift d k B sh : Blk k B sh -> Blk (d + k) (shift d B) sh.
Proof.
  intros [N H]. split; [destruct B; [congruence|discriminate]|].
  apply (PS_shift d) in H. exact H.
Qed.

(* the lambda prologue: if .. : .. / elif .. : .. / else: .. on three lines *)
Lemma Blk_arity_chain k :
  Blk k [(k, LHead HIf [NSimple]); (k, LHead HElif [NSimple]); (k, LHead HElse [NSimple])]
        [NBlock BIf [NSimple]; NBlock BElse [NBlock BIf [NSimple]; NBlock BElse [NSimple]]].
Proof.
  split; [discriminate|].
  change [NBlock BIf [NSimple]; NBlock BElse [NBlock BIf [NSimple]; NBlock BElse [NSimple]]]
    with (attach HIf [NSimple] (attach HElif [NSimple] (attach HElse [NSimple] []))).
  repeat constructor.
Qed.
