(* C18, part 3: what reaches the transpiler.  (a) an invariant of the lexer: every variable
   token carries ASCII letters and "_" only, every number token digits "." "°" only, and
   every character of a string token's value is a character of the source.  (b) the
   parser only moves tokens around: every token in the tree it returns is a token of its
   input (or the "1" it supplies as the default while-condition). *)
From Coq Require Import List NArith ZArith Bool Lia Arith.
From Vy Require Import Model.Base Model.Lexer Model.Parser Model.Transpile Model.Provenance
  Gen.ParserConsts Proofs.ParserFacts Proofs.C18Base Proofs.C18Shapes.
Import ListNotations.
Open Scope N_scope.
Arguments N.eqb : simpl never.
Arguments N.leb : simpl never.

Section LexInv.
  Variable p : N -> bool.

  Definition mode_inv (m : mode) : bool :=
    match m with
    | MString _ acc => forallb p acc
    | MStringEsc acc => forallb p acc && p ch_backslash
    | MTwo acc => forallb p acc
    | MNumber acc => forallb num_src_char acc
    | MVar _ acc => forallb is_name_char acc
    | _ => true
    end.

  Lemma number_char_src c : mem c lex_number_chars = true -> num_src_char c = true.
  Proof.
    intro H. pose proof number_chars_src as F. rewrite forallb_forall in F. apply F. apply mem_In. exact H.
  Qed.

  Lemma step_normal_inv c : p c = true ->
    mode_inv (fst (step_normal c)) = true /\ forallb (tok_lex_ok p) (snd (step_normal c)) = true.
  Proof.
    intro Hc. unfold step_normal.
    destruct (mem c lex_escape); [split; reflexivity|].
    destruct (mem c lex_string_delims); [split; reflexivity|].
    destruct (mem c lex_number_chars) eqn:En.
    { destruct (N.eqb c ch_zero); [split; reflexivity|].
      split; [|reflexivity]. simpl. rewrite (number_char_src c En). reflexivity. }
    destruct (mem c lex_twochar); [split; reflexivity|].
    destruct (mem c lex_var); [split; reflexivity|].
    destruct (mem c lex_comment); [split; reflexivity|].
    destruct (mem c lex_digraph); [split; reflexivity|].
    destruct (mem c lex_cpnum); split; reflexivity.
  Qed.

  Lemma forallb_snoc {A} (q : A -> bool) l x : forallb q l = true -> q x = true -> forallb q (l ++ [x]) = true.
  Proof. intros Hl Hx. apply forallb_app_true; [exact Hl|]. simpl. rewrite Hx. reflexivity. Qed.

  (* emitting one more token in front of what the main ladder does with c *)
  Lemma step_normal_cons c t : p c = true -> tok_lex_ok p t = true ->
    mode_inv (fst (let '(m', out) := step_normal c in (m', t :: out))) = true /\
    forallb (tok_lex_ok p) (snd (let '(m', out) := step_normal c in (m', t :: out))) = true.
  Proof.
    intros Hc Ht. destruct (step_normal_inv c Hc) as [H1 H2].
    destruct (step_normal c) as [m' out]. simpl in *. rewrite Ht, H2. split; [exact H1|reflexivity].
  Qed.

  Lemma string_kind_ok d acc : forallb p acc = true -> tok_lex_ok p (Tok (string_kind d) acc) = true.
  Proof.
    intro H. unfold tok_lex_ok, string_kind. simpl.
    destruct (N.eqb d ch_backquote); [exact H|]. destruct (N.eqb d ch_num_delim); reflexivity.
  Qed.

  Lemma var_kind_ok set acc : forallb is_name_char acc = true -> tok_lex_ok p (Tok (var_kind set) acc) = true.
  Proof. intro H. destruct set; exact H. Qed.

  Lemma step_inv dv m c : p c = true -> mode_inv m = true ->
    mode_inv (fst (step dv m c)) = true /\ forallb (tok_lex_ok p) (snd (step dv m c)) = true.
  Proof.
    intros Hc Hm. destruct m as [| |d acc|acc| |acc|acc|set acc| |h|]; cbn [step].
    - apply step_normal_inv. exact Hc.
    - split; reflexivity.
    - cbn [mode_inv] in Hm.
      destruct (N.eqb c d).
      { split; [reflexivity|]. cbn [snd forallb]. rewrite (string_kind_ok d acc Hm). reflexivity. }
      destruct (N.eqb d ch_backquote && N.eqb c ch_backslash) eqn:E.
      { apply andb_prop in E as [_ E]. apply N.eqb_eq in E. subst c.
        split; [|reflexivity]. cbn [fst mode_inv]. rewrite Hm, Hc. reflexivity. }
      split; [|reflexivity]. cbn [fst mode_inv]. apply forallb_snoc; assumption.
    - cbn [mode_inv] in Hm. apply andb_prop in Hm as [Ha Hb].
      split; [|reflexivity]. cbn [fst mode_inv]. apply forallb_app_true; [exact Ha|].
      simpl. rewrite Hb, Hc. reflexivity.
    - assert (Hz : tok_lex_ok p (Tok KNumber [ch_zero]) = true) by reflexivity.
      destruct (N.eqb c ch_degree || N.eqb c ch_dot).
      + destruct (mem c lex_number_chars && number_ok [ch_zero; c]) eqn:E.
        * apply andb_prop in E as [E _]. split; [|reflexivity].
          cbn [fst mode_inv forallb]. rewrite (number_char_src c E). reflexivity.
        * apply step_normal_cons; assumption.
      + apply step_normal_cons; assumption.
    - cbn [mode_inv] in Hm.
      destruct (mem c lex_number_chars && number_ok (acc ++ [c])) eqn:E.
      + apply andb_prop in E as [E _]. split; [|reflexivity].
        cbn [fst mode_inv]. apply forallb_snoc; [exact Hm|apply number_char_src; exact E].
      + apply step_normal_cons; [exact Hc|exact Hm].
    - cbn [mode_inv] in Hm.
      assert (Hs : forallb p (acc ++ [c]) = true) by (apply forallb_snoc; assumption).
      destruct acc as [|a [|b acc']].
      + split; [exact Hs|reflexivity].
      + split; [reflexivity|]. cbn [snd forallb]. unfold tok_lex_ok. cbn [tk tv]. rewrite Hs. reflexivity.
      + split; [exact Hs|reflexivity].
    - cbn [mode_inv] in Hm.
      destruct (is_name_char c) eqn:E.
      + assert (Hs : forallb is_name_char (acc ++ [c]) = true) by (apply forallb_snoc; assumption).
        destruct dv.
        * split; [reflexivity|]. cbn [snd forallb]. rewrite (var_kind_ok set _ Hs). reflexivity.
        * split; [exact Hs|reflexivity].
      + apply step_normal_cons; [exact Hc|apply var_kind_ok; exact Hm].
    - destruct (N.eqb c ch_newline); split; reflexivity.
    - destruct (N.eqb c ch_pipe).
      + apply step_normal_cons; [exact Hc|reflexivity].
      + split; reflexivity.
    - split; reflexivity.
  Qed.

  Lemma flush_inv m : mode_inv m = true -> forallb (tok_lex_ok p) (flush m) = true.
  Proof.
    destruct m as [| |d acc|acc| |acc|acc|set acc| |h|]; cbn [mode_inv flush]; intro Hm; try reflexivity.
    - cbn [forallb]. rewrite (string_kind_ok d acc Hm). reflexivity.
    - apply andb_prop in Hm as [Ha _]. cbn [forallb]. unfold tok_lex_ok. cbn [tk tv]. rewrite Ha. reflexivity.
    - cbn [forallb]. unfold tok_lex_ok. cbn [tk tv]. rewrite Hm. reflexivity.
    - cbn [forallb]. unfold tok_lex_ok. cbn [tk tv]. rewrite Hm. reflexivity.
    - cbn [forallb]. rewrite (var_kind_ok set acc Hm). reflexivity.
  Qed.

  Lemma run_inv dv s : forall m, forallb p s = true -> mode_inv m = true ->
    forallb (tok_lex_ok p) (run dv m s) = true.
  Proof.
    induction s as [|c r IH]; intros m Hs Hm; cbn [run].
    - apply flush_inv. exact Hm.
    - cbn [forallb] in Hs. apply andb_prop in Hs as [Hc Hr].
      destruct (step_inv dv m c Hc Hm) as [H1 H2].
      destruct (step dv m c) as [m' out]. cbn [fst snd] in *.
      apply forallb_app_true; [exact H2|]. apply IH; assumption.
  Qed.

  Lemma tokenise_inv dv s : forallb p s = true -> forallb (tok_lex_ok p) (tokenise_dv dv s) = true.
  Proof. intro H. apply run_inv; [exact H|reflexivity]. Qed.
End LexInv.

(* from the lexer's guarantee to what the transpiler needs (no dictionary) *)
Lemma tok_lex_ok_lenient undict t : tok_lex_ok (fun _ => true) t = true -> tok_ok false undict t = true.
Proof.
  unfold tok_lex_ok, tok_ok. destruct (tk t); intro H; try reflexivity; try exact H;
    apply name_chars_ident; exact H.
Qed.

Lemma tok_lex_ok_strict t :
  tok_lex_ok (fun c => negb (N.eqb c 13)) t = true -> tok_ok true (fun s => s) t = true.
Proof.
  unfold tok_lex_ok, tok_ok. destruct (tk t); intro H; try reflexivity; try exact H;
    try (apply name_chars_ident; exact H).
  simpl. rewrite (forallb_mem_false _ _ 13 H eq_refl). reflexivity.
Qed.

Lemma no_cr_forallb s : mem 13 s = false -> forallb (fun c => negb (N.eqb c 13)) s = true.
Proof.
  induction s as [|c s IH]; [reflexivity|]. simpl. intro H. apply orb_false_iff in H as [Hc Hs].
  rewrite N.eqb_sym, Hc. simpl. apply IH. exact Hs.
Qed.

(* ---- the parser ------------------------------------------------------------------------------------- *)
Section ParseInv.
  Variable Q : token -> Prop.
  Hypothesis Q_one : Q (Tok KNumber [49]).

  Lemma gb_step_Q t top below cur done s c d :
    Q t -> Forall Q cur -> Forall (Forall Q) done ->
    gb_step t top below cur done = (s, c, d) -> Forall Q c /\ Forall (Forall Q) d.
  Proof.
    intros Ht Hc Hd. unfold gb_step. intro H.
    assert (Hct : Forall Q (cur ++ [t])) by (apply Forall_app; split; [exact Hc|constructor; [exact Ht|constructor]]).
    assert (Hdc : Forall (Forall Q) (done ++ [cur])) by (apply Forall_app; split; [exact Hd|constructor; [exact Hc|constructor]]).
    repeat match type of H with
    | (if ?b then _ else _) = _ => destruct b
    | (match ?x with _ => _ end) = _ => destruct x
    end; inversion H; subst; split; try assumption; constructor.
  Qed.

  Lemma gb_scan_Q ts : forall stack cur done s c d r,
    Forall Q ts -> Forall Q cur -> Forall (Forall Q) done ->
    gb_scan ts stack cur done = (s, c, d, r) -> Forall Q c /\ Forall (Forall Q) d /\ Forall Q r.
  Proof.
    induction ts as [|t ts IH]; intros stack cur done s c d r Hts Hc Hd H.
    - destruct stack; simpl in H; inversion H; subst; auto.
    - destruct stack as [|top below]; simpl in H.
      + inversion H; subst; auto.
      + inversion Hts; subst.
        destruct (gb_step t top below cur done) as [[s' c'] d'] eqn:E.
        destruct (gb_step_Q _ _ _ _ _ _ _ _ H2 Hc Hd E) as [Hc' Hd'].
        eapply IH; eauto.
  Qed.

  Lemma get_branches_Q rest cl branches after :
    Forall Q rest -> get_branches rest [cl] [] [] = (branches, after) ->
    Forall (Forall Q) branches /\ Forall Q after.
  Proof.
    intro Hr. unfold get_branches. destruct (gb_scan rest [cl] [] []) as [[[s c] d] r] eqn:E.
    intro H. inversion H; subst.
    destruct (gb_scan_Q _ _ _ _ _ _ _ _ Hr (Forall_nil _) (Forall_nil _) E) as [Hc [Hd Hr']].
    split; [|exact Hr']. apply Forall_app. split; [exact Hd|constructor; [exact Hc|constructor]].
  Qed.

  Lemma classify_emit head s : classify head = AEmit s ->
    forall p, s p = SGeneric head \/ s p = SBreak p \/ s p = SRecurse p.
  Proof.
    unfold classify. intro H.
    repeat match type of H with
    | (if ?b then _ else _) = _ => destruct b
    | (match ?x with _ => _ end) = _ => destruct x
    end; inversion H; subst; intro p; auto.
  Qed.

  Lemma bind_Ok {A B} (r : res A) (f : A -> res B) y : bind r f = Ok y -> exists x, r = Ok x /\ f x = Ok y.
  Proof. destruct r; simpl; intro H; try discriminate. exists x. split; [reflexivity|exact H]. Qed.

  Definition TQ := tree_ok Q.

  Lemma map_res_Q (f : list token -> res (list struct)) bs l :
    (forall b x, In b bs -> f b = Ok x -> Forall TQ x) ->
    map_res f bs = Ok l -> Forall (Forall TQ) l.
  Proof.
    revert l. induction bs as [|b bs IH]; intros l Hf H; simpl in H.
    - inversion H. constructor.
    - apply bind_Ok in H as [y [Hy H]]. apply bind_Ok in H as [ys [Hys H]]. inversion H; subst.
      constructor.
      + apply (Hf b y); [left; reflexivity|exact Hy].
      + apply IH; [|exact Hys]. intros b' x Hin. apply Hf. right. exact Hin.
  Qed.

  Lemma Forall_last {A} (P : A -> Prop) l d : P d -> Forall P l -> P (last l d).
  Proof.
    intros Hd H. induction H as [|x l Hx Hl IH]; [exact Hd|].
    destruct l; [exact Hx|exact IH].
  Qed.

  Lemma build_Q (rec : option pkind -> list token -> res (list struct)) parent cls branches s :
    (forall p b x, Forall Q b -> rec p b = Ok x -> Forall TQ x) ->
    Forall (Forall Q) branches -> build rec parent cls branches = Ok s -> TQ s.
  Proof.
    intros Hrec Hb. unfold build.
    assert (Hlast : Forall Q (last branches [])) by (apply Forall_last; [constructor|exact Hb]).
    assert (Hfirst : Forall Q (hd [] branches)) by (destruct Hb; [constructor|assumption]).
    assert (Hmap : forall p l, map_res (rec p) branches = Ok l -> Forall (Forall TQ) l).
    { intros p l. apply map_res_Q. intros b x Hin. apply Hrec.
      rewrite Forall_forall in Hb. apply Hb. exact Hin. }
    destruct cls; intro H;
      try (apply bind_Ok in H as [bs [Hbs H]]; inversion H; subst; constructor; eapply Hmap; exact Hbs).
    - (* PFor *)
      apply bind_Ok in H as [body [Hbody H]]. inversion H; subst. constructor.
      eapply Hrec; [exact Hlast|exact Hbody].
    - (* PWhile *)
      apply bind_Ok in H as [cond [Hcond H]]. apply bind_Ok in H as [body [Hbody H]]. inversion H; subst.
      constructor.
      + destruct branches as [|b0 [|b1 bs]].
        * eapply Hrec; [exact Hfirst|exact Hcond].
        * inversion Hcond; subst. unfold default_while_cond. constructor; [|constructor].
          constructor. exact Q_one.
        * eapply Hrec; [exact Hfirst|exact Hcond].
      + eapply Hrec; [exact Hlast|exact Hbody].
    - (* PFnCall *)
      destruct (process_parameters (hd [] branches)) as [name params].
      destruct branches as [|b0 [|b1 bs]].
      + apply bind_Ok in H as [body [Hbody H]]. inversion H; subst. constructor.
        eapply Hrec; [exact Hlast|exact Hbody].
      + destruct params; [|discriminate]. inversion H; subst. constructor.
      + apply bind_Ok in H as [body [Hbody H]]. inversion H; subst. constructor.
        eapply Hrec; [exact Hlast|exact Hbody].
    - (* PLambda *)
      assert (Hgen : forall a, bind (rec (Some PLambda) (last branches []))
                          (fun body => Ok (SLambda a body)) = Ok s -> TQ s).
      { intros a H'. apply bind_Ok in H' as [body [Hbody H']]. inversion H'; subst. constructor.
        eapply Hrec; [exact Hlast|exact Hbody]. }
      destruct branches as [|b0 [|b1 bs]].
      + simpl in H. discriminate H.
      + eapply Hgen. exact H.
      + cbn [hd] in H. destruct b0 as [|t0 ?]; [discriminate|].
        destruct (py_int (tv t0)) as [a|]; [|discriminate].
        destruct (a <? 0)%Z; [discriminate|]. eapply Hgen. exact H.
    - apply bind_Ok in H as [body [Hbody H]]. inversion H; subst. constructor.
      eapply Hrec; [exact Hfirst|exact Hbody].
    - apply bind_Ok in H as [body [Hbody H]]. inversion H; subst. constructor.
      eapply Hrec; [exact Hfirst|exact Hbody].
    - apply bind_Ok in H as [body [Hbody H]]. inversion H; subst. constructor.
      eapply Hrec; [exact Hfirst|exact Hbody].
  Qed.

  Lemma take_operands_Q n m rem l : Forall TQ rem -> take_operands n m rem = Ok l -> Forall TQ l.
  Proof.
    intros Hrem H. unfold take_operands in H.
    destruct n as [|[|[|[|n]]]]; try discriminate.
    - destruct rem as [|a more]; [discriminate|]. inversion H; subst. inversion Hrem; subst.
      constructor; [|assumption].
      destruct (lambda_shorthand m); constructor; repeat constructor; assumption.
    - destruct rem as [|a [|b more]]; try discriminate. inversion H; subst.
      inversion Hrem as [|? ? Ha Hr]; subst. inversion Hr as [|? ? Hb Hm]; subst.
      constructor; [|assumption].
      destruct (lambda_shorthand m); constructor; repeat constructor; assumption.
    - destruct rem as [|a [|b [|c more]]]; try discriminate. inversion H; subst.
      inversion Hrem as [|? ? Ha Hr]; subst. inversion Hr as [|? ? Hb Hr2]; subst.
      inversion Hr2 as [|? ? Hc Hm]; subst.
      constructor; [|assumption].
      destruct (lambda_shorthand m); constructor; repeat constructor; assumption.
  Qed.

  Lemma parse_Q fuel : forall parent ts l,
    Forall Q ts -> parse fuel parent ts = Ok l -> Forall TQ l.
  Proof.
    induction fuel as [|f IH]; intros parent ts l Hts H; [discriminate|].
    destruct ts as [|head rest]; cbn [parse] in H.
    - inversion H. constructor.
    - inversion Hts as [|? ? Hhead Hrest]; subst.
      destruct (classify head) as [s|cls cl|n m| |e] eqn:E.
      + apply bind_Ok in H as [l' [Hl' H]]. inversion H; subst. constructor.
        * destruct (classify_emit head s E parent) as [->|[->| ->]]; constructor. exact Hhead.
        * eapply IH; [exact Hrest|exact Hl'].
      + destruct (get_branches rest [cl] [] []) as [branches after] eqn:Eg.
        destruct (get_branches_Q _ _ _ _ Hrest Eg) as [Hb Ha].
        apply bind_Ok in H as [s [Hs H]]. apply bind_Ok in H as [l' [Hl' H]]. inversion H; subst.
        constructor.
        * eapply build_Q; [|exact Hb|exact Hs]. intros p b x Hbq Hx. eapply IH; [exact Hbq|exact Hx].
        * eapply IH; [exact Ha|exact Hl'].
      + destruct rest as [|r0 rest']; [inversion H; constructor|].
        apply bind_Ok in H as [rem [Hrem H]].
        eapply take_operands_Q; [|exact H]. eapply IH; [exact Hrest|exact Hrem].
      + eapply IH; [exact Hrest|exact H].
      + discriminate.
  Qed.
End ParseInv.
