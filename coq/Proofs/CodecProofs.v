(* Proofs for property C15 (codecs).  Model: Model/Codec.v. *)
From Coq Require Import List NArith ZArith Bool Lia ZifyBool.
From Vy Require Import Model.Base Model.Lexer Model.Codec Gen.Codepage Gen.ParserConsts.
Import ListNotations.
Open Scope Z_scope.

(* ======================================================================== *)
(* 1. positional value of a digit list                                       *)
(* ======================================================================== *)

Lemma fbd_acc b ds x :
  fold_left (fun ret d => b * ret + d) ds x
  = x * b ^ zlen ds + fold_left (fun ret d => b * ret + d) ds 0.
Proof.
  revert x; induction ds as [|d ds IH]; intro x; unfold zlen in *; simpl length.
  - simpl. lia.
  - cbn [fold_left]. rewrite IH. rewrite (IH (b * 0 + d)).
    rewrite Nat2Z.inj_succ, Z.pow_succ_r by lia. ring.
Qed.

Lemma fbd_nil b : from_base_digits [] b = 0.
Proof. reflexivity. Qed.

Lemma fbd_cons b d ds : from_base_digits (d :: ds) b = d * b ^ zlen ds + from_base_digits ds b.
Proof.
  unfold from_base_digits. cbn [fold_left]. rewrite fbd_acc. f_equal. ring.
Qed.

Lemma fbd_app b xs ys :
  from_base_digits (xs ++ ys) b = from_base_digits xs b * b ^ zlen ys + from_base_digits ys b.
Proof.
  unfold from_base_digits. rewrite fold_left_app. apply fbd_acc.
Qed.

Lemma fbd_snoc b xs d : from_base_digits (xs ++ [d]) b = b * from_base_digits xs b + d.
Proof.
  rewrite fbd_app. unfold zlen; simpl length. rewrite Z.pow_1_r.
  unfold from_base_digits at 2. simpl. ring.
Qed.

Definition in_base (b d : Z) : Prop := 0 <= d < b.

Lemma fbd_nonneg b ds : 0 <= b -> Forall (in_base b) ds -> 0 <= from_base_digits ds b.
Proof.
  intros Hb H. induction H as [|d ds Hd _ IH]; [rewrite fbd_nil; lia|].
  rewrite fbd_cons. unfold in_base in Hd.
  assert (0 <= b ^ zlen ds) by (apply Z.pow_nonneg; lia). nia.
Qed.

Lemma fbd_upper b ds : 2 <= b -> Forall (in_base b) ds -> from_base_digits ds b < b ^ zlen ds.
Proof.
  intros Hb H. induction H as [|d ds Hd _ IH]; [rewrite fbd_nil; simpl; lia|].
  rewrite fbd_cons. unfold in_base in Hd. unfold zlen in *. simpl length.
  rewrite Nat2Z.inj_succ, Z.pow_succ_r by lia.
  assert (0 < b ^ Z.of_nat (length ds)) by (apply Z.pow_pos_nonneg; lia). nia.
Qed.

Lemma fbd_pos_head b d ds :
  2 <= b -> 0 < d -> Forall (in_base b) ds -> 1 <= from_base_digits (d :: ds) b.
Proof.
  intros Hb Hd H. rewrite fbd_cons. pose proof (fbd_nonneg b ds ltac:(lia) H).
  assert (0 < b ^ zlen ds) by (apply Z.pow_pos_nonneg; unfold zlen; lia). nia.
Qed.

(* ======================================================================== *)
(* 2. helpers.to_base_digits                                                 *)
(* ======================================================================== *)

Lemma loop_mono b : forall f n acc r,
  to_base_loop f n b acc = Some r -> forall f', (f <= f')%nat -> to_base_loop f' n b acc = Some r.
Proof.
  induction f as [|f IH]; intros n acc r H f' Hle; simpl in H.
  - destruct f'; simpl; destruct (b <=? n) eqn:E; try discriminate; exact H.
  - destruct f' as [|f']; [lia|]. simpl. destruct (b <=? n) eqn:E; [|exact H].
    apply IH with (f' := f') in H; [exact H | lia].
Qed.

(* the loop's result: digits ds of n in front of acc *)
Lemma loop_spec b : 2 <= b -> forall f n acc, 0 <= n < 2 ^ Z.of_nat f ->
  exists ds, to_base_loop f n b acc = Some (ds ++ acc)
    /\ from_base_digits ds b = n /\ Forall (in_base b) ds
    /\ ds <> [] /\ (0 < n -> 0 < hd 0 ds).
Proof.
  intro Hb. induction f as [|f IH]; intros n acc Hn.
  - simpl in Hn. assert (n = 0) by lia. subst n. simpl.
    destruct (b <=? 0) eqn:E; [lia|]. exists [0].
    split; [reflexivity|]. split; [unfold from_base_digits; simpl; lia|].
    split; [constructor; [unfold in_base; lia | constructor]|].
    split; [discriminate | lia].
  - simpl to_base_loop. destruct (b <=? n) eqn:E.
    + assert (Hq : 0 <= n / b < 2 ^ Z.of_nat f).
      { rewrite Nat2Z.inj_succ, Z.pow_succ_r in Hn by lia. split.
        - apply Z.div_pos; lia.
        - apply Z.div_lt_upper_bound; [lia|].
          assert (0 < 2 ^ Z.of_nat f) by (apply Z.pow_pos_nonneg; lia). nia. }
      destruct (IH (n / b) (n mod b :: acc) Hq) as [ds [H1 [H2 [H3 [H4 H5]]]]].
      exists (ds ++ [n mod b]). rewrite <- app_assoc. simpl. split; [exact H1|].
      pose proof (Z.mod_pos_bound n b ltac:(lia)) as Hm.
      pose proof (Z.div_mod n b ltac:(lia)) as Hdm.
      repeat split.
      * rewrite fbd_snoc, H2. lia.
      * apply Forall_app. split; [exact H3|]. constructor; [unfold in_base; lia | constructor].
      * destruct ds; discriminate.
      * intros _. destruct ds as [|d ds]; [congruence|]. simpl. simpl in H5. apply H5.
        assert (1 <= n / b); [|lia]. apply Z.div_le_lower_bound; lia.
    + exists [n]. split; [reflexivity|]. split; [unfold from_base_digits; simpl; lia|].
      split; [constructor; [unfold in_base; lia | constructor]|].
      split; [discriminate | simpl; lia].
Qed.

Lemma digit_fuel_enough n : 0 <= n -> 0 <= n < 2 ^ Z.of_nat (digit_fuel n).
Proof.
  intro Hn. split; [exact Hn|]. unfold digit_fuel.
  rewrite Nat2Z.inj_succ, Z2Nat.id by apply Z.log2_nonneg.
  destruct (Z.eq_dec n 0) as [->|Hz]; [simpl; lia|].
  apply Z.log2_spec. lia.
Qed.

(* the canonical digits of n: unique list in base b, no leading zero *)
Lemma to_base_digits_spec n b : 0 <= n -> 2 <= b ->
  exists ds, to_base_digits n b = Some ds
    /\ from_base_digits ds b = n /\ Forall (in_base b) ds
    /\ ds <> [] /\ (0 < n -> 0 < hd 0 ds).
Proof.
  intros Hn Hb. unfold to_base_digits.
  destruct (loop_spec b Hb (digit_fuel n) n [] (digit_fuel_enough n Hn)) as [ds [H1 H2]].
  rewrite app_nil_r in H1. exists ds. split; [exact H1 | exact H2].
Qed.

(* property statement: from_base_digits (to_base_digits n b) b = n, digits inside the base *)
Lemma from_to_digits n b : 0 <= n -> 2 <= b ->
  exists ds, to_base_digits n b = Some ds /\ from_base_digits ds b = n /\ Forall (in_base b) ds.
Proof.
  intros Hn Hb. destruct (to_base_digits_spec n b Hn Hb) as [ds [H1 [H2 [H3 _]]]].
  exists ds. auto.
Qed.

(* the other direction: digits without a leading zero are what to_base_digits returns *)
Lemma loop_of_digits b : 2 <= b -> forall ds, ds <> [] -> Forall (in_base b) ds ->
  (0 < hd 0 ds \/ ds = [0]) ->
  forall acc, exists f, to_base_loop f (from_base_digits ds b) b acc = Some (ds ++ acc).
Proof.
  intros Hb ds. induction ds as [|d ds' IH] using rev_ind; intros Hne Hr Hhd acc; [congruence|].
  apply Forall_app in Hr as [Hr' Hd]. inversion Hd as [|? ? Hd0 _]; subst. unfold in_base in Hd0.
  rewrite fbd_snoc. destruct ds' as [|h t].
  - exists O. rewrite fbd_nil. simpl. replace (b * 0 + d) with d by lia.
    destruct (b <=? d) eqn:E; [lia|]. reflexivity.
  - assert (Hh : 0 < h).
    { destruct Hhd as [Hh|Hh]; [exact Hh|]. destruct t; discriminate. }
    inversion Hr' as [|? ? Hh0 Ht]; subst.
    pose proof (fbd_pos_head b h t Hb Hh Ht) as Hv.
    destruct (IH ltac:(discriminate) Hr' (or_introl Hh) (d :: acc)) as [f Hf].
    exists (S f). simpl to_base_loop.
    set (v := from_base_digits (h :: t) b) in *.
    destruct (b <=? b * v + d) eqn:E; [|nia].
    replace ((b * v + d) / b) with v.
    2:{ apply Z.div_unique with (r := d); lia. }
    replace ((b * v + d) mod b) with d.
    2:{ apply Z.mod_unique with (q := v); lia. }
    rewrite Hf. rewrite <- app_assoc. reflexivity.
Qed.

Lemma to_from_digits b ds : 2 <= b -> ds <> [] -> Forall (in_base b) ds ->
  (0 < hd 0 ds \/ ds = [0]) -> to_base_digits (from_base_digits ds b) b = Some ds.
Proof.
  intros Hb Hne Hr Hhd.
  destruct (loop_of_digits b Hb ds Hne Hr Hhd []) as [f Hf]. rewrite app_nil_r in Hf.
  pose proof (fbd_nonneg b ds ltac:(lia) Hr) as Hn.
  destruct (to_base_digits_spec _ b Hn Hb) as [ds2 [H1 _]]. unfold to_base_digits in *.
  set (g := digit_fuel (from_base_digits ds b)) in *.
  pose proof (loop_mono b _ _ _ _ Hf (Nat.max f g) (Nat.le_max_l _ _)) as A.
  pose proof (loop_mono b _ _ _ _ H1 (Nat.max f g) (Nat.le_max_r _ _)) as B.
  rewrite H1. congruence.
Qed.

(* ======================================================================== *)
(* 3. alphabets                                                              *)
(* ======================================================================== *)

Lemma fif_ge c s i j : find_index_from c s i = Some j -> (i <= j)%N.
Proof.
  revert i; induction s as [|x s IH]; simpl; intros i H; [discriminate|].
  destruct (N.eqb c x); [inversion H; lia|]. apply IH in H. lia.
Qed.

Lemma fif_nth c s i j :
  find_index_from c s i = Some j -> nth_error s (N.to_nat (j - i)) = Some c.
Proof.
  revert i; induction s as [|x s IH]; simpl; intros i H; [discriminate|].
  destruct (N.eqb c x) eqn:E.
  - inversion H; subst. apply N.eqb_eq in E; subst. rewrite N.sub_diag. reflexivity.
  - pose proof (fif_ge _ _ _ _ H) as Hge. apply IH in H.
    replace (N.to_nat (j - i)) with (S (N.to_nat (j - (i + 1)))) by lia. exact H.
Qed.

Lemma fif_In c s i : In c s -> exists j, find_index_from c s i = Some j.
Proof.
  revert i; induction s as [|x s IH]; simpl; intros i H; [tauto|].
  destruct (N.eqb c x) eqn:E; [eexists; reflexivity|].
  destruct H as [H|H]; [subst; rewrite N.eqb_refl in E; discriminate|]. apply IH. exact H.
Qed.

Lemma fif_nodup s : NoDup s -> forall n c i,
  nth_error s n = Some c -> find_index_from c s i = Some (i + N.of_nat n)%N.
Proof.
  induction 1 as [|x s Hx Hnd IH]; intros n c i Hn; [destruct n; discriminate|].
  destruct n as [|n]; simpl in *.
  - inversion Hn; subst. rewrite N.eqb_refl. f_equal. lia.
  - destruct (N.eqb c x) eqn:E.
    + apply N.eqb_eq in E; subst. exfalso. apply Hx. eapply nth_error_In; eauto.
    + rewrite (IH n c (i + 1)%N Hn). f_equal. lia.
Qed.

(* a character of the alphabet: its index is inside, and indexing gives it back *)
Lemma zfind_In c a : In c a -> 0 <= zfind c a < zlen a /\ py_index a (zfind c a) = Some c.
Proof.
  intro H. unfold zfind, find_index. destruct (fif_In c a 0%N H) as [j Hj]. rewrite Hj.
  pose proof (fif_nth _ _ _ _ Hj) as Hn. rewrite N.sub_0_r in Hn.
  assert (Hlt : (N.to_nat j < length a)%nat) by (apply nth_error_Some; congruence).
  unfold zlen. split; [lia|]. unfold py_index.
  destruct (0 <=? Z.of_N j) eqn:E; [|lia]. replace (Z.to_nat (Z.of_N j)) with (N.to_nat j) by lia. exact Hn.
Qed.

(* an index inside a duplicate-free alphabet: find of the character there is the index *)
Lemma py_index_zfind a i : NoDup a -> 0 <= i < zlen a ->
  exists c, py_index a i = Some c /\ In c a /\ zfind c a = i.
Proof.
  intros Hnd Hi. unfold py_index, zlen in *. destruct (0 <=? i) eqn:E; [|lia].
  destruct (nth_error a (Z.to_nat i)) eqn:En.
  - exists n. split; [reflexivity|]. split; [eapply nth_error_In; eauto|].
    unfold zfind, find_index. rewrite (fif_nodup a Hnd _ _ 0%N En). lia.
  - apply nth_error_None in En. lia.
Qed.

Lemma fba_as_digits s a :
  from_base_alphabet s a = from_base_digits (map (fun c => zfind c a) s) (zlen a).
Proof.
  unfold from_base_alphabet, from_base_digits. generalize 0.
  induction s as [|c s IH]; intro x; simpl; [reflexivity|]. apply IH.
Qed.

(* digits -> characters -> digits *)
Lemma mapM_index_find a ds : NoDup a -> Forall (in_base (zlen a)) ds ->
  exists s, mapM_opt (py_index a) ds = Some s /\ map (fun c => zfind c a) s = ds
            /\ Forall (fun c => In c a) s /\ length s = length ds.
Proof.
  intros Hnd H. induction H as [|d ds Hd _ [s [H1 [H2 [H3 H4]]]]].
  - exists []. simpl. auto.
  - destruct (py_index_zfind a d Hnd Hd) as [c [Hc [Hin Hf]]].
    exists (c :: s). simpl. rewrite Hc, H1. repeat split.
    + rewrite Hf, H2. reflexivity.
    + constructor; assumption.
    + rewrite H4. reflexivity.
Qed.

(* characters -> digits -> characters *)
Lemma mapM_find_index a s : Forall (fun c => In c a) s ->
  mapM_opt (py_index a) (map (fun c => zfind c a) s) = Some s
  /\ Forall (in_base (zlen a)) (map (fun c => zfind c a) s).
Proof.
  intro H. induction H as [|c s Hc _ [IH1 IH2]]; simpl; [split; [reflexivity|constructor]|].
  destruct (zfind_In c a Hc) as [Hr Hi]. rewrite Hi, IH1. split; [reflexivity|].
  constructor; [exact Hr | exact IH2].
Qed.

(* integer -> text -> integer, any duplicate-free alphabet of length >= 2 *)
Lemma from_to_alphabet a n : NoDup a -> 2 <= zlen a -> 0 <= n ->
  exists s, to_base_alphabet n a = Some s /\ from_base_alphabet s a = n
            /\ Forall (fun c => In c a) s.
Proof.
  intros Hnd Hl Hn. unfold to_base_alphabet.
  destruct (from_to_digits n (zlen a) Hn Hl) as [ds [H1 [H2 H3]]]. rewrite H1.
  destruct (mapM_index_find a ds Hnd H3) as [s [Hs [Hm [Hin _]]]].
  exists s. split; [exact Hs|]. split; [|exact Hin]. rewrite fba_as_digits, Hm. exact H2.
Qed.

(* text -> integer -> text: non-empty text over the alphabet whose first character
   is not the zero digit alphabet[0] (or the one-character text alphabet[0]) *)
Lemma to_from_alphabet a s : 2 <= zlen a -> s <> [] -> Forall (fun c => In c a) s ->
  (zfind (hd 0%N s) a <> 0 \/ length s = 1%nat) ->
  to_base_alphabet (from_base_alphabet s a) a = Some s.
Proof.
  intros Hl Hne Hin Hhd. unfold to_base_alphabet. rewrite fba_as_digits.
  destruct (mapM_find_index a s Hin) as [Hm Hr].
  rewrite to_from_digits; [exact Hm | exact Hl | destruct s; [congruence|discriminate] | exact Hr |].
  destruct s as [|c s]; [congruence|]. simpl in *.
  inversion Hin as [|? ? Hc _]; subst. destruct (zfind_In c a Hc) as [Hrc _].
  destruct Hhd as [Hnz|Hone].
  - left. lia.
  - destruct s; [|discriminate]. simpl. destruct (Z.eq_dec (zfind c a) 0) as [->|]; [right; reflexivity|left; lia].
Qed.

(* ======================================================================== *)
(* 4. elements.to_base with the exponent as a parameter                      *)
(* ======================================================================== *)

Lemma to_base_pos_length k n b : length (to_base_pos k n b) = k.
Proof. revert n; induction k as [|k IH]; intro n; simpl; [reflexivity|]. rewrite IH. reflexivity. Qed.

Lemma to_base_pos_range k n b : 0 < b -> Forall (in_base b) (to_base_pos k n b).
Proof.
  intro Hb. revert n; induction k as [|k IH]; intro n; simpl; constructor; [|apply IH].
  unfold in_base. apply Z.mod_pos_bound. exact Hb.
Qed.

(* what the loop of to_base computes: the value modulo b^k *)
Lemma to_base_pos_value k n b : 2 <= b -> from_base_digits (to_base_pos k n b) b = n mod b ^ Z.of_nat k.
Proof.
  intro Hb. revert n; induction k as [|k IH]; intro n.
  - simpl. rewrite Z.mod_1_r. reflexivity.
  - cbn [to_base_pos]. rewrite fbd_cons. unfold zlen. rewrite to_base_pos_length, IH.
    rewrite Nat2Z.inj_succ, Z.pow_succ_r by lia.
    assert (Hp : 0 < b ^ Z.of_nat k) by (apply Z.pow_pos_nonneg; lia).
    rewrite Z.mod_mod by lia.
    rewrite (Z.mul_comm b). rewrite Z.rem_mul_r by lia. ring.
Qed.

Lemma to_base_e_length e n b : length (to_base_e e n b) = S (elem_exponent e n).
Proof. apply to_base_pos_length. Qed.

Lemma to_base_e_value e n b : 2 <= b ->
  from_base_digits (to_base_e e n b) b = n mod b ^ Z.of_nat (S (elem_exponent e n)).
Proof. intro Hb. apply to_base_pos_value. exact Hb. Qed.

(* round trip of the element pair tau / beta under the oracle hypothesis *)
Lemma to_base_exp e n b : 2 <= b -> 0 <= n -> n < b ^ Z.of_nat (S e) ->
  from_base_num (to_base_e e n b) b = n /\ Forall (in_base b) (to_base_e e n b).
Proof.
  intros Hb Hn He. split; [|apply to_base_pos_range; lia].
  unfold from_base_num. rewrite to_base_e_value by exact Hb. unfold elem_exponent.
  destruct (n =? 0) eqn:E.
  - assert (n = 0) by lia. subst. reflexivity.
  - apply Z.mod_small. lia.
Qed.

(* the exact failure condition: an under-estimated exponent loses the value *)
Lemma to_base_exp_under e n b : 2 <= b -> 0 <= n -> b ^ Z.of_nat (S e) <= n ->
  from_base_num (to_base_e e n b) b <> n.
Proof.
  intros Hb Hn He. unfold from_base_num. rewrite to_base_e_value by exact Hb. unfold elem_exponent.
  assert (Hp : 0 < b ^ Z.of_nat (S e)) by (apply Z.pow_pos_nonneg; lia).
  destruct (n =? 0) eqn:E; [lia|].
  pose proof (Z.mod_pos_bound n (b ^ Z.of_nat (S e)) Hp). lia.
Qed.

(* the exponent of a correct logarithm satisfies the hypothesis *)
Lemma exact_exponent_ok n b : 2 <= b -> 0 <= n -> n < b ^ Z.of_nat (S (exact_exponent n b)).
Proof.
  intros Hb Hn. unfold exact_exponent.
  destruct (to_base_digits_spec n b Hn Hb) as [ds [H1 [H2 [H3 [H4 _]]]]]. rewrite H1.
  pose proof (fbd_upper b ds Hb H3) as Hu. rewrite H2 in Hu. unfold zlen in Hu.
  destruct ds as [|d ds]; [congruence|]. simpl pred. simpl length in Hu. exact Hu.
Qed.

(* string alphabet *)
Lemma to_base_alpha_exp a e n : NoDup a -> 2 <= zlen a -> 0 <= n -> n < zlen a ^ Z.of_nat (S e) ->
  exists s, to_base_alpha_e e n a = Some s /\ from_base_str s a = n
            /\ Forall (fun c => In c a) s /\ length s = S (elem_exponent e n).
Proof.
  intros Hnd Hl Hn He. unfold to_base_alpha_e.
  destruct (to_base_exp e n (zlen a) Hl Hn He) as [Hv Hr]. unfold to_base_e in *.
  destruct (mapM_index_find a _ Hnd Hr) as [s [Hs [Hm [Hin Hlen]]]].
  exists s. split; [exact Hs|]. split; [|split; [exact Hin|]].
  - unfold from_base_str. rewrite fba_as_digits, Hm. exact Hv.
  - rewrite Hlen. apply to_base_pos_length.
Qed.

(* ======================================================================== *)
(* 5. the generated alphabets                                                *)
(* ======================================================================== *)

Lemma cnc_nodup : NoDup codepage_number_compress.
Proof. apply nodupb_NoDup. vm_compute. reflexivity. Qed.
Lemma csc_nodup : NoDup codepage_string_compress.
Proof. apply nodupb_NoDup. vm_compute. reflexivity. Qed.
Lemma b27_nodup : NoDup base_27_alphabet.
Proof. apply nodupb_NoDup. vm_compute. reflexivity. Qed.
Lemma compression_nodup : NoDup compression.
Proof. apply nodupb_NoDup. vm_compute. reflexivity. Qed.

Lemma cnc_len : zlen codepage_number_compress = 255.
Proof. vm_compute. reflexivity. Qed.
Lemma csc_len : zlen codepage_string_compress = 255.
Proof. vm_compute. reflexivity. Qed.
Lemma b27_len : zlen base_27_alphabet = 27.
Proof. vm_compute. reflexivity. Qed.
Lemma compression_len : zlen compression = 160.
Proof. vm_compute. reflexivity. Qed.

Lemma cnc_no_delim : mem ch_num_delim codepage_number_compress = false.
Proof. vm_compute. reflexivity. Qed.
Lemma csc_no_delim : mem ch_str_delim codepage_string_compress = false.
Proof. vm_compute. reflexivity. Qed.

Lemma not_mem_Forall c a s : mem c a = false -> Forall (fun x => In x a) s -> ~ In c s.
Proof.
  intros Hm Hs Hin. rewrite Forall_forall in Hs. apply Hs in Hin. apply mem_In in Hin. congruence.
Qed.

(* ======================================================================== *)
(* 6. the lexer captures exactly the payload                                 *)
(* ======================================================================== *)

Lemma run_string dv d : N.eqb d Lexer.ch_backquote = false -> forall payload acc, ~ In d payload ->
  run dv (MString d acc) (payload ++ [d]) = [Tok (string_kind d) (acc ++ payload)].
Proof.
  intros Hd. induction payload as [|c p IH]; intros acc Hnin; simpl.
  - rewrite N.eqb_refl. simpl. rewrite app_nil_r. reflexivity.
  - destruct (N.eqb c d) eqn:E; [apply N.eqb_eq in E; subst; simpl in Hnin; tauto|].
    rewrite Hd. simpl. rewrite IH by (simpl in Hnin; tauto). rewrite <- app_assoc. reflexivity.
Qed.

Lemma lex_comp_number payload : ~ In ch_num_delim payload ->
  tokenise (ch_num_delim :: payload ++ [ch_num_delim]) = [Tok KCompNumber payload].
Proof.
  intro H. unfold tokenise, tokenise_dv.
  change (run false MNormal (ch_num_delim :: payload ++ [ch_num_delim]))
    with (run false (MString ch_num_delim []) (payload ++ [ch_num_delim])).
  rewrite run_string; [reflexivity | reflexivity | exact H].
Qed.

Lemma lex_comp_string payload : ~ In ch_str_delim payload ->
  tokenise (ch_str_delim :: payload ++ [ch_str_delim]) = [Tok KCompString payload].
Proof.
  intro H. unfold tokenise, tokenise_dv.
  change (run false MNormal (ch_str_delim :: payload ++ [ch_str_delim]))
    with (run false (MString ch_str_delim []) (payload ++ [ch_str_delim])).
  rewrite run_string; [reflexivity | reflexivity | exact H].
Qed.

(* a back-quoted literal without back-quote and backslash *)
Lemma run_bq dv : forall payload acc, ~ In Lexer.ch_backquote payload -> ~ In Lexer.ch_backslash payload ->
  run dv (MString Lexer.ch_backquote acc) (payload ++ [Lexer.ch_backquote]) = [Tok KString (acc ++ payload)].
Proof.
  induction payload as [|c p IH]; intros acc H1 H2; simpl.
  - rewrite app_nil_r. reflexivity.
  - destruct (N.eqb c Lexer.ch_backquote) eqn:E; [apply N.eqb_eq in E; subst; simpl in H1; tauto|].
    destruct (N.eqb c Lexer.ch_backslash) eqn:E2; [apply N.eqb_eq in E2; subst; simpl in H2; tauto|].
    simpl. rewrite IH by (simpl in H1, H2; tauto). rewrite <- app_assoc. reflexivity.
Qed.

Lemma lex_backquoted payload : ~ In ch_backquote payload -> ~ In ch_backslash payload ->
  tokenise (ch_backquote :: payload ++ [ch_backquote]) = [Tok KString payload].
Proof.
  intros H1 H2. unfold tokenise, tokenise_dv.
  change (run false MNormal (ch_backquote :: payload ++ [ch_backquote]))
    with (run false (MString Lexer.ch_backquote []) (payload ++ [Lexer.ch_backquote])).
  rewrite run_bq; [reflexivity | exact H1 | exact H2].
Qed.

(* ======================================================================== *)
(* 7. number and string compression                                          *)
(* ======================================================================== *)

(* oC: the text is one compressed-number token whose payload decodes to n *)
Lemma compress_num_roundtrip e n : 1 <= n -> n < 255 ^ Z.of_nat (S e) ->
  exists p, compress_num e n = Some (ch_num_delim :: p ++ [ch_num_delim])
    /\ tokenise (ch_num_delim :: p ++ [ch_num_delim]) = [Tok KCompNumber p]
    /\ uncompress_num p = n /\ length p = S e.
Proof.
  intros Hn He. unfold compress_num, compress_num_payload.
  destruct (to_base_alpha_exp codepage_number_compress e n cnc_nodup) as [p [H1 [H2 [H3 H4]]]];
    try rewrite cnc_len; try lia.
  exists p. rewrite H1. split; [reflexivity|]. split; [|split].
  - apply lex_comp_number. apply (not_mem_Forall _ _ _ cnc_no_delim H3).
  - exact H2.
  - rewrite H4. unfold elem_exponent. destruct (n =? 0) eqn:E; [lia|reflexivity].
Qed.

Definition lower_space (s : str) : Prop := Forall (fun c => In c base_27_alphabet) s.

(* oc: non-empty text over [a-z ] not starting with a space *)
Lemma compress_str_roundtrip e s : s <> [] -> lower_space s -> hd 0%N s <> ch_space ->
  from_base_alphabet s base_27_alphabet < 255 ^ Z.of_nat (S e) ->
  exists p, compress_str e s = Some (ch_str_delim :: p ++ [ch_str_delim])
    /\ tokenise (ch_str_delim :: p ++ [ch_str_delim]) = [Tok KCompString p]
    /\ uncompress_str p = Some s.
Proof.
  intros Hne Hs Hhd He. unfold compress_str, compress_str_payload.
  set (v := from_base_alphabet s base_27_alphabet) in *.
  assert (Hv : 0 <= v).
  { unfold v. rewrite fba_as_digits. apply fbd_nonneg; [rewrite b27_len; lia|].
    apply (mapM_find_index base_27_alphabet s Hs). }
  destruct (to_base_alpha_exp codepage_string_compress e v csc_nodup) as [p [H1 [H2 [H3 _]]]];
    try rewrite csc_len; try lia.
  exists p. rewrite H1. split; [reflexivity|]. split.
  - apply lex_comp_string. apply (not_mem_Forall _ _ _ csc_no_delim H3).
  - unfold uncompress_str. unfold from_base_str in H2. rewrite H2. unfold v.
    apply to_from_alphabet; [rewrite b27_len; lia | exact Hne | exact Hs |].
    left. destruct s as [|c s]; [congruence|]. simpl in *.
    inversion Hs as [|? ? Hc _]; subst.
    intro Hz. destruct (zfind_In c base_27_alphabet Hc) as [_ Hi]. rewrite Hz in Hi.
    vm_compute in Hi. inversion Hi. subst. apply Hhd. reflexivity.
Qed.

(* the payload produced with helpers.to_base_alphabet (no float involved) *)
Lemma uncompress_num_alphabet n : 0 <= n ->
  exists p, to_base_alphabet n codepage_number_compress = Some p /\ uncompress_num p = n
            /\ ~ In ch_num_delim p.
Proof.
  intro Hn. destruct (from_to_alphabet codepage_number_compress n cnc_nodup) as [p [H1 [H2 H3]]];
    try rewrite cnc_len; try lia.
  exists p. split; [exact H1|]. split; [exact H2|]. apply (not_mem_Forall _ _ _ cnc_no_delim H3).
Qed.

(* ======================================================================== *)
(* 8. dictionary compression, for any dictionary                             *)
(* ======================================================================== *)

Lemma compression_outside_ascii :
  forallb (fun x => (x <? 32)%N || (126 <? x)%N) compression = true.
Proof. vm_compute. reflexivity. Qed.

Lemma ascii_not_compression c : (32 <= c <= 126)%N -> mem c compression = false.
Proof.
  intro Hc. destruct (mem c compression) eqn:E; [|reflexivity].
  apply mem_In in E. pose proof (proj1 (forallb_forall _ _) compression_outside_ascii c E) as H.
  simpl in H. lia.
Qed.

Lemma backslash_not_compression : mem ch_backslash compression = false.
Proof. vm_compute. reflexivity. Qed.
Lemma backquote_not_compression : mem ch_backquote compression = false.
Proof. vm_compute. reflexivity. Qed.
Lemma lambda_in_compression : mem ch_lambda compression = true.
Proof. vm_compute. reflexivity. Qed.
Lemma zfind_lambda : zfind ch_lambda compression = 0.
Proof. vm_compute. reflexivity. Qed.

Lemma fba_one a c : from_base_alphabet [c] a = zfind c a.
Proof. unfold from_base_alphabet. cbn [fold_left]. lia. Qed.
Lemma fba_two a c1 c2 : from_base_alphabet [c1; c2] a = zlen a * zfind c1 a + zfind c2 a.
Proof. unfold from_base_alphabet. cbn [fold_left]. lia. Qed.

Lemma to_base_digits_zero b : 2 <= b -> to_base_digits 0 b = Some [0].
Proof.
  intro Hb. unfold to_base_digits. change (digit_fuel 0) with 1%nat. simpl.
  destruct (b <=? 0) eqn:E; [lia|reflexivity].
Qed.

Lemma digits_length_bound n b k ds : 2 <= b -> (1 <= k)%nat -> 0 <= n < b ^ Z.of_nat k ->
  to_base_digits n b = Some ds -> (length ds <= k)%nat.
Proof.
  intros Hb Hk Hn Hds. destruct (Z.eq_dec n 0) as [->|Hnz].
  - rewrite to_base_digits_zero in Hds by exact Hb. inversion Hds; subst. simpl. lia.
  - destruct (to_base_digits_spec n b ltac:(lia) Hb) as [ds' [H1 [H2 [H3 [H4 H5]]]]].
    rewrite Hds in H1. inversion H1; subst ds'. clear H1.
    destruct ds as [|h t]; [congruence|]. simpl in H5. specialize (H5 ltac:(lia)).
    pose proof (Forall_inv H3) as Hh. pose proof (Forall_inv_tail H3) as Ht. rewrite fbd_cons in H2.
    pose proof (fbd_nonneg b t ltac:(lia) Ht) as Hv.
    destruct (Nat.le_gt_cases (length (h :: t)) k) as [Hle|Hgt]; [exact Hle|exfalso].
    simpl in Hgt. assert (Hpow : b ^ Z.of_nat k <= b ^ zlen t).
    { apply Z.pow_le_mono_r; unfold zlen; lia. }
    assert (0 < b ^ zlen t) by (apply Z.pow_pos_nonneg; unfold zlen; lia). nia.
Qed.

Lemma to_base_alphabet_spec a n : NoDup a -> 2 <= zlen a -> 0 <= n ->
  exists ds s, to_base_digits n (zlen a) = Some ds /\ to_base_alphabet n a = Some s
    /\ from_base_alphabet s a = n /\ Forall (fun c => In c a) s /\ length s = length ds.
Proof.
  intros Hnd Hl Hn. unfold to_base_alphabet.
  destruct (from_to_digits n (zlen a) Hn Hl) as [ds [H1 [H2 H3]]]. rewrite H1.
  destruct (mapM_index_find a ds Hnd H3) as [s [Hs [Hm [Hin Hlen]]]].
  exists ds, s. repeat split; try assumption; try reflexivity.
  rewrite fba_as_digits, Hm. exact H2.
Qed.

Lemma In_firstn {A} (x : A) n l : In x (firstn n l) -> In x l.
Proof.
  revert l; induction n as [|n IH]; intros [|y l]; simpl; try tauto.
  intros [H|H]; [left; exact H | right; apply IH; exact H].
Qed.

Lemma In_skipn {A} (x : A) n l : In x (skipn n l) -> In x l.
Proof.
  revert l; induction n as [|n IH]; intros [|y l]; simpl; try tauto.
  intro H. right. apply IH. exact H.
Qed.

Lemma firstn_slice {A} (s : list A) : forall l r, (l <= r)%nat ->
  firstn l s ++ firstn (r - l) (skipn l s) = firstn r s.
Proof.
  induction s as [|c s IH]; intros l r Hle.
  - rewrite skipn_nil, !firstn_nil. reflexivity.
  - destruct l as [|l].
    + simpl. rewrite Nat.sub_0_r. reflexivity.
    + destruct r as [|r]; [lia|]. simpl. f_equal. apply IH. lia.
Qed.

Lemma last_nth {A} (l : list A) d : last l d = nth (pred (length l)) l d.
Proof.
  induction l as [|x l IH]; [reflexivity|]. destruct l as [|y l]; [reflexivity|].
  change (last (x :: y :: l) d) with (last (y :: l) d). rewrite IH. reflexivity.
Qed.

Section DictProofs.
  Variable contents_at : Z -> option str.
  Variable small_at : Z -> option str.
  Variable lookup : str -> option Z.
  Variable max_word_len : nat.

  (* the only facts needed about the dictionary: an index found for a word is
     below |compression|^2 (two characters suffice) and holds that word *)
  Hypothesis lookup_sound : forall w i, lookup w = Some i ->
    0 <= i < zlen compression * zlen compression /\ contents_at i = Some w.

  Notation dstep := (dstep contents_at small_at).
  Notation uncompress_dict := (uncompress_dict contents_at small_at).
  Notation word_index := (word_index lookup).
  Notation first_word := (first_word lookup).
  Notation dp_step := (dp_step lookup max_word_len).
  Notation dp_run := (dp_run lookup max_word_len).
  Notation optimal_payload := (optimal_payload lookup max_word_len).
  Notation optimal_compress := (optimal_compress lookup max_word_len).

  Definition plain (s : str) : Prop :=
    Forall (fun c => mem c compression = false /\ c <> ch_backslash) s.

  (* characters outside the compression alphabet pass through unchanged *)
  Lemma dstep_plain r c : mem c compression = false -> c <> ch_backslash ->
    dstep (DS r None false) c = DS (r ++ [c]) None false.
  Proof.
    intros Hc Hb. unfold Codec.dstep. cbn [d_esc d_tmp d_ret].
    destruct (N.eqb c ch_backslash) eqn:E; [apply N.eqb_eq in E; contradiction|].
    rewrite Hc. reflexivity.
  Qed.

  Lemma dict_plain s : plain s -> forall r,
    fold_left dstep s (DS r None false) = DS (r ++ s) None false.
  Proof.
    induction 1 as [|c s [Hc Hb] _ IH]; intro r; cbn [fold_left]; [rewrite app_nil_r; reflexivity|].
    rewrite dstep_plain by assumption. rewrite IH, <- app_assoc. reflexivity.
  Qed.

  Lemma uncompress_dict_plain s : plain s -> uncompress_dict s = s.
  Proof.
    intro H. unfold Codec.uncompress_dict, dstart. rewrite (dict_plain s H []).
    unfold dfinish. cbn [d_ret d_tmp flush_scc]. apply app_nil_r.
  Qed.

  Lemma in_compression_not_backslash c : mem c compression = true -> N.eqb c ch_backslash = false.
  Proof.
    intro H. destruct (N.eqb c ch_backslash) eqn:E; [|reflexivity]. apply N.eqb_eq in E. subst.
    rewrite backslash_not_compression in H. discriminate.
  Qed.

  Lemma dict_code r c1 c2 : mem c1 compression = true -> mem c2 compression = true ->
    fold_left dstep [c1; c2] (DS r None false)
    = DS (r ++ opt_word (contents_at (from_base_alphabet [c1; c2] compression))) None false.
  Proof.
    intros H1 H2. cbn [fold_left].
    assert (S1 : dstep (DS r None false) c1 = DS r (Some c1) false).
    { unfold Codec.dstep. cbn [d_esc d_tmp d_ret].
      rewrite (in_compression_not_backslash c1 H1), H1. reflexivity. }
    rewrite S1. unfold Codec.dstep. cbn [d_esc d_tmp d_ret].
    rewrite (in_compression_not_backslash c2 H2), H2. reflexivity.
  Qed.

  (* dictionary.word_index returns two compression characters that decode to the word *)
  Lemma word_index_code w code : word_index w = Some code ->
    exists c1 c2, code = [c1; c2] /\ mem c1 compression = true /\ mem c2 compression = true
      /\ contents_at (from_base_alphabet [c1; c2] compression) = Some w.
  Proof.
    unfold Codec.word_index. destruct (lookup w) as [i|] eqn:El; [|discriminate].
    destruct (lookup_sound w i El) as [Hi Hc].
    destruct (to_base_alphabet_spec compression i compression_nodup) as [ds [s [H1 [H2 [H3 [H4 H5]]]]]];
      try rewrite compression_len; try lia.
    rewrite H2. intro Hcode.
    assert (Hlen : (length ds <= 2)%nat).
    { apply (digits_length_bound i (zlen compression) 2 ds); try rewrite compression_len; try lia.
      - rewrite compression_len in Hi. simpl. lia.
      - exact H1. }
    assert (Hne : ds <> []).
    { destruct (to_base_digits_spec i (zlen compression)) as [ds' [A [_ [_ [B _]]]]];
        try rewrite compression_len; try lia. congruence. }
    destruct s as [|c1 [|c2 [|c3 s]]].
    - destruct ds; [congruence|discriminate].
    - inversion Hcode; subst code. exists ch_lambda, c1.
      pose proof (Forall_inv H4) as Hc1. apply mem_In in Hc1.
      split; [reflexivity|]. split; [exact lambda_in_compression|]. split; [exact Hc1|].
      rewrite fba_two, zfind_lambda. rewrite fba_one in H3.
      replace (zlen compression * 0 + zfind c1 compression) with i by lia. exact Hc.
    - inversion Hcode; subst code. exists c1, c2.
      pose proof (Forall_inv H4) as Hc1. pose proof (Forall_inv (Forall_inv_tail H4)) as Hc2.
      apply mem_In in Hc1. apply mem_In in Hc2.
      split; [reflexivity|]. split; [exact Hc1|]. split; [exact Hc2|]. rewrite H3. exact Hc.
    - simpl in H5. lia.
  Qed.

  Lemma first_word_spec s ind : forall count lo lft code,
    first_word s ind lo count = Some (lft, code) ->
    (lo <= lft < lo + count)%nat /\ word_index (slice s lft ind) = Some code.
  Proof.
    induction count as [|k IH]; intros lo lft code H; simpl in H; [discriminate|].
    destruct (word_index (slice s lo ind)) as [cd|] eqn:E.
    - inversion H; subst. split; [lia | exact E].
    - apply IH in H. destruct H as [H1 H2]. split; [lia | exact H2].
  Qed.

  Lemma shorter_cases a b :
    (shorter a b = a /\ (length a <= length b)%nat) \/ shorter a b = b.
  Proof.
    unfold shorter. destruct (length a <=? length b)%nat eqn:E; [left; split; [reflexivity|]|right; reflexivity].
    apply Nat.leb_le. exact E.
  Qed.

  Section OneString.
    Variable s : str.
    Hypothesis s_plain : plain s.
    Let ph : str := repeat ch_space (S (length s)).

    (* t is a correct compressed form of the first k characters of s *)
    Definition good (k : nat) (t : str) : Prop :=
      fold_left dstep t dstart = DS (firstn k s) None false
      /\ (length t <= k)%nat
      /\ Forall (fun c => In c s \/ mem c compression = true) t.

    Lemma slice_plain l r : plain (slice s l r).
    Proof.
      unfold plain, slice. apply Forall_forall. intros c Hc.
      apply In_firstn, In_skipn in Hc. exact (proj1 (Forall_forall _ _) s_plain c Hc).
    Qed.

    (* extend by the plain characters s[l:r] *)
    Lemma good_plain l r t : (l <= r)%nat -> good l t -> good r (t ++ slice s l r) \/ (length s < r)%nat.
    Proof.
      intros Hle [G1 [G2 G3]]. destruct (Nat.le_gt_cases r (length s)) as [Hr|Hr]; [left|right; exact Hr].
      split; [|split].
      - rewrite fold_left_app, G1, dict_plain by apply slice_plain. unfold slice.
        rewrite firstn_slice by exact Hle. reflexivity.
      - rewrite app_length. unfold slice. rewrite firstn_length. lia.
      - apply Forall_app. split; [exact G3|]. apply Forall_forall. intros c Hc. left.
        unfold slice in Hc. apply In_firstn, In_skipn in Hc. exact Hc.
    Qed.

    (* extend by the code of the dictionary word s[l:r] *)
    Lemma good_word l r t code : (l + 2 <= r)%nat -> good l t ->
      word_index (slice s l r) = Some code -> good r (t ++ code).
    Proof.
      intros Hle [G1 [G2 G3]] Hw.
      destruct (word_index_code _ _ Hw) as [c1 [c2 [-> [H1 [H2 H3]]]]].
      split; [|split].
      - rewrite fold_left_app, G1, dict_code by assumption. rewrite H3. simpl opt_word.
        unfold slice. rewrite firstn_slice by lia. reflexivity.
      - rewrite app_length. simpl. lia.
      - apply Forall_app. split; [exact G3|]. constructor; [right; exact H1|]. constructor; [right; exact H2|constructor].
    Qed.

    Definition dp_inv (dp : list str) : Prop :=
      forall k, (k < length dp)%nat -> good k (nth k dp ph).

    Lemma dp_step_inv dp : (1 <= length dp <= length s)%nat -> dp_inv dp ->
      dp_inv (dp_step s ph dp) /\ length (dp_step s ph dp) = S (length dp).
    Proof.
      intros Hlen Hinv. unfold Codec.dp_step. set (ind := length dp).
      set (lo := (ind - max_word_len)%nat).
      set (X := nth (ind - 1) dp ph ++ firstn 1 (skipn (ind - 1) s)).
      assert (HX : good ind X).
      { unfold X. replace (firstn 1 (skipn (ind - 1) s)) with (slice s (ind - 1) ind)
          by (unfold slice; f_equal; lia).
        destruct (good_plain (ind - 1) ind (nth (ind - 1) dp ph)) as [G|G];
          [lia | apply Hinv; unfold ind; lia | exact G | unfold ind in G; lia]. }
      split; [|rewrite app_length; simpl; lia].
      intros k Hk. rewrite app_length in Hk. simpl in Hk.
      destruct (Nat.eq_dec k ind) as [->|Hne].
      2:{ rewrite app_nth1 by (fold ind; lia). apply Hinv. fold ind. lia. }
      rewrite app_nth2 by (fold ind; lia). replace (ind - length dp)%nat with O by (fold ind; lia).
      cbn [nth].
      assert (Hph : (length X < length ph)%nat).
      { unfold ph. rewrite repeat_length. destruct HX as [_ [HX2 _]]. unfold ind in HX2. lia. }
      destruct (first_word s ind lo (ind - 1 - lo)) as [[lft code]|] eqn:Efw.
      - apply first_word_spec in Efw. destruct Efw as [Hr Hw].
        assert (HY : good ind (nth lft dp ph ++ code)).
        { apply (good_word lft ind); [lia | apply Hinv; fold ind; lia | exact Hw]. }
        destruct (shorter_cases (shorter ph (nth lft dp ph ++ code)) X) as [[E0 Hl]|E0]; rewrite E0; [|exact HX].
        destruct (shorter_cases ph (nth lft dp ph ++ code)) as [[E Hl2]|E]; rewrite E in *; [lia|exact HY].
      - destruct (shorter_cases ph X) as [[E0 Hl]|E0]; rewrite E0; [lia|exact HX].
    Qed.

    Lemma dp_run_inv : forall k dp, (1 <= length dp)%nat -> (length dp + k = S (length s))%nat ->
      dp_inv dp -> dp_inv (dp_run s ph k dp) /\ length (dp_run s ph k dp) = S (length s).
    Proof.
      induction k as [|k IH]; intros dp H1 H2 Hinv; simpl.
      - split; [exact Hinv | lia].
      - destruct (dp_step_inv dp ltac:(lia) Hinv) as [A B]. apply IH; [lia | lia | exact A].
    Qed.

    Lemma optimal_payload_good : good (length s) (optimal_payload s).
    Proof.
      unfold Codec.optimal_payload. fold ph.
      destruct (dp_run_inv (length s) [[]]) as [A B]; [simpl; lia | simpl; lia | |].
      - intros k Hk. simpl in Hk. assert (k = O) by lia. subst. simpl.
        split; [reflexivity|]. split; [simpl; lia | constructor].
      - rewrite last_nth, B. simpl pred. apply A. lia.
    Qed.

    (* decompressing the optimal compression gives the string back; it is never
       longer than the plain literal `s` *)
    Lemma optimal_roundtrip :
      uncompress_dict (optimal_payload s) = s
      /\ (length (optimal_compress s) <= length s + 2)%nat.
    Proof.
      destruct optimal_payload_good as [G1 [G2 G3]]. split.
      - unfold Codec.uncompress_dict. rewrite G1. unfold dfinish. simpl.
        rewrite firstn_all, app_nil_r. reflexivity.
      - unfold Codec.optimal_compress. simpl. rewrite app_length. simpl. lia.
    Qed.

    (* the produced text is one string token holding exactly the payload *)
    Lemma optimal_lexes : ~ In ch_backquote s ->
      tokenise (optimal_compress s) = [Tok KString (optimal_payload s)].
    Proof.
      intro Hbq. destruct optimal_payload_good as [_ [_ G3]]. unfold Codec.optimal_compress.
      apply lex_backquoted; intro Hin; apply (proj1 (Forall_forall _ _) G3) in Hin; destruct Hin as [Hin|Hin].
      - contradiction.
      - rewrite backquote_not_compression in Hin. discriminate.
      - apply (proj1 (Forall_forall _ _) s_plain) in Hin. destruct Hin as [_ Hin]. congruence.
      - rewrite backslash_not_compression in Hin. discriminate.
    Qed.
  End OneString.
End DictProofs.

(* printable ASCII without backslash is `plain` *)
Definition printable_ascii (s : str) : Prop :=
  Forall (fun c => (32 <= c <= 126)%N /\ c <> ch_backslash /\ c <> ch_backquote) s.

Lemma printable_plain s : printable_ascii s -> plain s /\ ~ In ch_backquote s.
Proof.
  intro H. split.
  - eapply Forall_impl; [|exact H]. simpl. intros c [H1 [H2 _]]. split; [apply ascii_not_compression; exact H1 | exact H2].
  - intro Hin. apply (proj1 (Forall_forall _ _) H) in Hin. destruct Hin as [_ [_ Hin]]. congruence.
Qed.

(* exact-logarithm instances: no hypothesis about the exponent left *)
Lemma compress_num_exact n : 1 <= n ->
  exists p, compress_num (exact_exponent n 255) n = Some (ch_num_delim :: p ++ [ch_num_delim])
    /\ tokenise (ch_num_delim :: p ++ [ch_num_delim]) = [Tok KCompNumber p]
    /\ uncompress_num p = n.
Proof.
  intro Hn. destruct (compress_num_roundtrip (exact_exponent n 255) n Hn) as [p [H1 [H2 [H3 _]]]].
  - apply exact_exponent_ok; lia.
  - exists p. auto.
Qed.

Lemma compress_str_exact s : s <> [] -> lower_space s -> hd 0%N s <> ch_space ->
  exists p, compress_str (exact_exponent (from_base_alphabet s base_27_alphabet) 255) s
            = Some (ch_str_delim :: p ++ [ch_str_delim])
    /\ tokenise (ch_str_delim :: p ++ [ch_str_delim]) = [Tok KCompString p]
    /\ uncompress_str p = Some s.
Proof.
  intros Hne Hs Hhd. apply compress_str_roundtrip; try assumption.
  apply exact_exponent_ok; [lia|]. rewrite fba_as_digits. apply fbd_nonneg; [rewrite b27_len; lia|].
  apply (mapM_find_index base_27_alphabet s Hs).
Qed.

(* dictionary theorems for printable ASCII *)
Section DictAscii.
  Variable contents_at : Z -> option str.
  Variable small_at : Z -> option str.
  Variable lookup : str -> option Z.
  Variable max_word_len : nat.
  Hypothesis lookup_sound : forall w i, lookup w = Some i ->
    0 <= i < zlen compression * zlen compression /\ contents_at i = Some w.

  Lemma ascii_passthrough s : printable_ascii s -> uncompress_dict contents_at small_at s = s.
  Proof. intro H. apply uncompress_dict_plain. apply printable_plain. exact H. Qed.

  Lemma optimal_ascii s : printable_ascii s ->
    tokenise (optimal_compress lookup max_word_len s) = [Tok KString (optimal_payload lookup max_word_len s)]
    /\ uncompress_dict contents_at small_at (optimal_payload lookup max_word_len s) = s
    /\ (length (optimal_compress lookup max_word_len s) <= length (ch_backquote :: s ++ [ch_backquote]))%nat.
  Proof.
    intro H. destruct (printable_plain s H) as [Hp Hq].
    destruct (optimal_roundtrip contents_at small_at lookup max_word_len lookup_sound s Hp) as [A B].
    split; [apply (optimal_lexes contents_at small_at lookup max_word_len lookup_sound s Hp Hq)|].
    split; [exact A|]. cbn [length]. rewrite app_length. cbn [length]. lia.
  Qed.
End DictAscii.

(* ======================================================================== *)
(* 9. non-vacuity: every hypothesis is satisfiable, on concrete instances     *)
(* ======================================================================== *)

Example ex_from_to_digits :
  to_base_digits 1000 7 = Some [2; 6; 2; 6] /\ from_base_digits [2; 6; 2; 6] 7 = 1000.
Proof. vm_compute. split; reflexivity. Qed.

Example ex_to_from_digits : to_base_digits (from_base_digits [1; 0; 0; 299] 300) 300 = Some [1; 0; 0; 299].
Proof. vm_compute. reflexivity. Qed.

Example ex_alphabet :
  to_base_alphabet 28 base_27_alphabet = Some [97; 97]%N /\ from_base_alphabet [97; 97]%N base_27_alphabet = 28.
Proof. vm_compute. split; reflexivity. Qed.

(* 255^2 has exponent 2; an over-estimate 3 only adds the zero digit *)
Example ex_to_base_exp :
  to_base_e 2 65025 255 = [1; 0; 0] /\ to_base_e 3 65025 255 = [0; 1; 0; 0] /\ 65025 < 255 ^ Z.of_nat 3.
Proof. vm_compute. repeat split; reflexivity. Qed.

(* an under-estimate wraps the leading position: 65025 with e = 1 reads back as 0 *)
Example ex_to_base_under :
  to_base_e 1 65025 255 = [0; 0] /\ 255 ^ Z.of_nat 2 <= 65025.
Proof. vm_compute. split; [reflexivity | discriminate]. Qed.

Example ex_compress_num :
  compress_num 1 300 = Some [187; 411; 46; 187]%N
  /\ tokenise [187; 411; 46; 187]%N = [Tok KCompNumber [411; 46]%N]
  /\ uncompress_num [411; 46]%N = 300 /\ 300 < 255 ^ Z.of_nat 2.
Proof. vm_compute. repeat split; reflexivity. Qed.

(* "hi" *)
Example ex_compress_str :
  compress_str 0 [104; 105]%N = Some [171; 8800; 171]%N
  /\ tokenise [171; 8800; 171]%N = [Tok KCompString [8800]%N]
  /\ uncompress_str [8800]%N = Some [104; 105]%N
  /\ lower_space [104; 105]%N /\ hd 0%N [104; 105]%N <> ch_space.
Proof.
  split; [vm_compute; reflexivity|]. split; [vm_compute; reflexivity|]. split; [vm_compute; reflexivity|].
  split; [|discriminate]. repeat constructor; vm_compute; tauto.
Qed.

(* the excluded cases are genuinely excluded: a leading space and the empty string
   do not survive (this is why the theorem has the hypotheses) *)
Example ex_leading_space_lost :
  compress_str 0 [32; 104]%N = Some [171; 215; 171]%N /\ uncompress_str [215]%N = Some [104]%N.
Proof. vm_compute. split; reflexivity. Qed.
Example ex_empty_string_lost :
  compress_str 0 [] = Some [171; 955; 171]%N /\ uncompress_str [955]%N = Some [32]%N.
Proof. vm_compute. split; reflexivity. Qed.

(* a toy dictionary: word 0 = "the", word 161 = "cat" *)
Definition toy_contents (i : Z) : option str :=
  if i =? 0 then Some [116; 104; 101]%N else if i =? 161 then Some [99; 97; 116]%N else None.
Definition toy_lookup (w : str) : option Z :=
  if str_eqb w [116; 104; 101]%N then Some 0 else if str_eqb w [99; 97; 116]%N then Some 161 else None.

Lemma toy_sound : forall w i, toy_lookup w = Some i ->
  0 <= i < zlen compression * zlen compression /\ toy_contents i = Some w.
Proof.
  intros w i. unfold toy_lookup. rewrite compression_len.
  destruct (str_eqb w [116; 104; 101]%N) eqn:E1.
  - apply str_eqb_eq in E1. subst. intro H. inversion H; subst. split; [lia|reflexivity].
  - destruct (str_eqb w [99; 97; 116]%N) eqn:E2; [|discriminate].
    apply str_eqb_eq in E2. subst. intro H. inversion H; subst. split; [lia|reflexivity].
Qed.

(* "the cat!" -> `λλ ƛƛ!` (6 characters instead of 8) and back *)
Example ex_optimal :
  optimal_compress toy_lookup 18 [116; 104; 101; 32; 99; 97; 116; 33]%N
    = [96; 955; 955; 32; 411; 411; 33; 96]%N
  /\ uncompress_dict toy_contents (fun _ => None) [955; 955; 32; 411; 411; 33]%N
    = [116; 104; 101; 32; 99; 97; 116; 33]%N.
Proof. vm_compute. split; reflexivity. Qed.

Example ex_printable : printable_ascii [116; 104; 101; 32; 99; 97; 116; 33]%N.
Proof. repeat constructor; try discriminate; vm_compute; discriminate. Qed.
