(* Proofs for property C17: the executable reference definitions of
   Model/NumTheory.v satisfy the textbook characterisations, for all integers in the
   stated domains (no bound). *)
From Coq Require Import List ZArith NArith Bool Lia ZifyBool Znumtheory Sorted.
From Vy Require Import Model.NumTheory.
Import ListNotations.
Open Scope Z_scope.

(* ------------------------------------------------------------------------- *)
(* zrange                                                                     *)
(* ------------------------------------------------------------------------- *)
Lemma zrange_length lo len : length (zrange lo len) = len.
Proof. revert lo; induction len as [|k IH]; intro lo; simpl; [reflexivity|]. now rewrite IH. Qed.

Lemma zrange_In len : forall lo x, In x (zrange lo len) <-> lo <= x < lo + Z.of_nat len.
Proof.
  induction len as [|k IH]; intros lo x; simpl.
  - split; [tauto|lia].
  - rewrite IH. lia.
Qed.

Lemma zrange_nth len : forall lo i d, (i < len)%nat -> nth i (zrange lo len) d = lo + Z.of_nat i.
Proof.
  induction len as [|k IH]; intros lo i d Hi; [lia|].
  destruct i as [|i]; simpl; [lia|]. rewrite IH by lia. lia.
Qed.

Lemma zrange_sorted len : forall lo, StronglySorted Z.lt (zrange lo len).
Proof.
  induction len as [|k IH]; intro lo; simpl; constructor; [apply IH|].
  apply Forall_forall. intros x Hx. apply zrange_In in Hx. lia.
Qed.

Lemma zrange_snoc len : forall lo, zrange lo (S len) = zrange lo len ++ [lo + Z.of_nat len].
Proof.
  induction len as [|k IH]; intro lo.
  - simpl. f_equal. lia.
  - change (zrange lo (S (S k))) with (lo :: zrange (lo + 1) (S k)).
    rewrite IH. simpl. do 2 f_equal. f_equal. lia.
Qed.

Lemma filter_ssorted (R : Z -> Z -> Prop) f l :
  StronglySorted R l -> StronglySorted R (filter f l).
Proof.
  induction 1 as [|a l Hs IH Hall]; simpl; [constructor|].
  destruct (f a); [|exact IH]. constructor; [exact IH|].
  apply Forall_forall. intros x Hx. apply filter_In in Hx as [Hx _].
  rewrite Forall_forall in Hall. auto.
Qed.

Lemma ssorted_lt_NoDup l : StronglySorted Z.lt l -> NoDup l.
Proof.
  induction 1 as [|a l Hs IH Hall]; constructor; [|exact IH].
  intro Hin. rewrite Forall_forall in Hall. specialize (Hall a Hin). lia.
Qed.

Lemma prod_app a b : prod (a ++ b) = prod a * prod b.
Proof. unfold prod. induction a as [|x a IH]; cbn [app fold_right]; [lia|]. rewrite IH. lia. Qed.

(* ------------------------------------------------------------------------- *)
(* primality                                                                  *)
(* ------------------------------------------------------------------------- *)
Definition nodiv_below (n d : Z) : Prop := forall k, 2 <= k < d -> ~ (k | n).

Lemma mod0_divide n d : 0 < d -> ((n mod d =? 0) = true <-> (d | n)).
Proof. intro Hd. rewrite Z.eqb_eq. apply Z.mod_divide. lia. Qed.

Lemma nodiv_sq_all n d : 2 <= n -> 2 <= d -> n < d * d -> nodiv_below n d -> nodiv_below n n.
Proof.
  intros Hn Hd Hsq Hnd k Hk [q Hq].
  assert (Hq1 : 1 < q) by nia.
  assert (Hqn : q < n) by nia.
  destruct (Z_lt_le_dec k d) as [Hkd|Hkd].
  - apply (Hnd k); [lia|]. exists q. exact Hq.
  - destruct (Z_lt_le_dec q d) as [Hqd|Hqd].
    + apply (Hnd q); [lia|]. exists k. lia.
    + nia.
Qed.

Lemma nodiv_prime n : 2 <= n -> nodiv_below n n -> prime n.
Proof.
  intros Hn Hnd. apply prime_alt. split; [lia|].
  intros k Hk. apply Hnd. lia.
Qed.

Lemma prime_nodiv n : prime n -> nodiv_below n n.
Proof.
  intros Hp k Hk Hdiv. apply prime_alt in Hp. destruct Hp as [_ Hp]. apply (Hp k); [lia|exact Hdiv].
Qed.

Lemma sqrt_lt_sq n d : 0 <= n -> Z.sqrt n < d -> n < d * d.
Proof. intros Hn Hd. pose proof (Z.sqrt_spec n Hn) as Hs. cbv zeta in Hs. nia. Qed.

Lemma sq_le_sqrt n d : 0 <= n -> 0 <= d -> d * d <= n -> d <= Z.sqrt n.
Proof. intros Hn Hd Hsq. apply Z.sqrt_le_square; lia. Qed.

Lemma least_div_from_spec fuel : forall n d,
  2 <= n -> 2 <= d -> nodiv_below n d -> Z.sqrt n < d + Z.of_nat fuel ->
  let r := least_div_from fuel n d in (r | n) /\ 2 <= r <= n /\ nodiv_below n r.
Proof.
  induction fuel as [|f IH]; intros n d Hn Hd Hnd Hfuel; simpl.
  - split; [apply Z.divide_refl|]. split; [lia|].
    apply (nodiv_sq_all n d); try assumption. apply sqrt_lt_sq; lia.
  - destruct (n <? d * d) eqn:Hsq.
    + split; [apply Z.divide_refl|]. split; [lia|].
      apply (nodiv_sq_all n d); try assumption. lia.
    + destruct (n mod d =? 0) eqn:Hmod.
      * apply mod0_divide in Hmod; [|lia]. split; [exact Hmod|]. split; [nia|exact Hnd].
      * apply IH; try lia.
        intros k Hk Hdiv. destruct (Z.eq_dec k d) as [->|Hne].
        -- apply mod0_divide in Hdiv; [|lia]. congruence.
        -- apply (Hnd k); [lia|exact Hdiv].
Qed.

Lemma least_div_spec n : 2 <= n ->
  (least_div n | n) /\ 2 <= least_div n <= n /\ nodiv_below n (least_div n).
Proof.
  intro Hn. apply least_div_from_spec; try lia.
  - intros k Hk. lia.
  - unfold sqrt_fuel. pose proof (Z.sqrt_nonneg n). lia.
Qed.

Theorem is_prime_correct n : is_prime n = true <-> prime n.
Proof.
  unfold is_prime. split.
  - intro H. apply andb_true_iff in H as [H2 Heq].
    assert (Hn : 2 <= n) by lia.
    destruct (least_div_spec n Hn) as (_ & _ & Hnd).
    apply Z.eqb_eq in Heq. rewrite Heq in Hnd. apply nodiv_prime; assumption.
  - intro Hp. pose proof (prime_ge_2 n Hp) as Hn.
    destruct (least_div_spec n Hn) as (Hdiv & Hr & _).
    apply andb_true_iff. split; [lia|]. apply Z.eqb_eq.
    destruct (Z.eq_dec (least_div n) n) as [E|NE]; [exact E|].
    exfalso. apply (prime_nodiv n Hp (least_div n)); [lia|exact Hdiv].
Qed.

Lemma is_prime_false n : is_prime n = false <-> ~ prime n.
Proof.
  pose proof (is_prime_correct n) as H. destruct (is_prime n); split; intro K;
    try discriminate; try reflexivity.
  - exfalso. apply K. apply H. reflexivity.
  - intro Hp. apply H in Hp. discriminate.
Qed.

(* ------------------------------------------------------------------------- *)
(* prime factors                                                              *)
(* ------------------------------------------------------------------------- *)
Lemma log2_div_lt n d : 2 <= d -> d * d <= n -> Z.log2 (n / d) <= Z.log2 n - 1.
Proof.
  intros Hd Hsq.
  assert (Hn : 0 < n) by nia.
  assert (Hq : 0 < n / d) by (apply Z.div_str_pos; nia).
  destruct (Z.log2_spec n Hn) as [_ Hhi].
  assert (Hlog : 0 <= Z.log2 n) by apply Z.log2_nonneg.
  rewrite Z.pow_succ_r in Hhi by exact Hlog.
  assert (Hlt : n / d < 2 ^ Z.log2 n).
  { apply Z.div_lt_upper_bound; [lia|].
    assert (0 < 2 ^ Z.log2 n) by (apply Z.pow_pos_nonneg; lia). nia. }
  apply Z.log2_lt_pow2 in Hlt; [lia|exact Hq].
Qed.

Lemma factor_from_spec fuel : forall n d,
  1 <= n -> 2 <= d -> nodiv_below n d ->
  (n = 1 \/ Z.max 0 (Z.sqrt n + 1 - d) + Z.log2 n + 1 <= Z.of_nat fuel) ->
  let l := factor_from fuel n d in
  prod l = n /\ Forall prime l /\ Forall (fun p => d <= p) l /\ StronglySorted Z.le l.
Proof.
  induction fuel as [|f IH]; intros n d Hn Hd Hnd Hfuel; simpl.
  - destruct Hfuel as [->|Hfuel].
    + repeat split; constructor.
    + pose proof (Z.log2_nonneg n). lia.
  - destruct (n <=? 1) eqn:Hle.
    + assert (n = 1) by lia. subst n. repeat split; constructor.
    + assert (Hn2 : 2 <= n) by lia.
      destruct Hfuel as [Hfuel|Hfuel]; [lia|].
      destruct (n <? d * d) eqn:Hsq.
      * assert (Hp : prime n).
        { apply nodiv_prime; [exact Hn2|]. apply (nodiv_sq_all n d); try assumption. lia. }
        assert (Hdn : d <= n).
        { destruct (Z_lt_le_dec n d) as [Hlt|Hge]; [|exact Hge].
          exfalso. apply (Hnd n); [lia|apply Z.divide_refl]. }
        simpl. repeat split; try (constructor; [assumption|constructor]); try lia.
        constructor; constructor.
      * assert (Hsq' : d * d <= n) by lia.
        assert (Hds : d <= Z.sqrt n) by (apply sq_le_sqrt; lia).
        destruct (n mod d =? 0) eqn:Hmod.
        -- apply mod0_divide in Hmod; [|lia].
           assert (Hnq : n = d * (n / d)).
           { destruct Hmod as [q Hq]. rewrite Hq. rewrite Z.div_mul by lia. lia. }
           assert (Hq1 : 1 <= n / d) by nia.
           assert (Hnd' : nodiv_below (n / d) d).
           { intros k Hk Hdiv. apply (Hnd k Hk). rewrite Hnq. apply Z.divide_mul_r. exact Hdiv. }
           assert (Hfuel' : n / d = 1 \/
                     Z.max 0 (Z.sqrt (n / d) + 1 - d) + Z.log2 (n / d) + 1 <= Z.of_nat f).
           { right. pose proof (log2_div_lt n d Hd Hsq') as Hl.
             assert (Hsq2 : Z.sqrt (n / d) <= Z.sqrt n).
             { apply Z.sqrt_le_mono. apply Z.div_le_upper_bound; nia. }
             lia. }
           destruct (IH (n / d) d Hq1 Hd Hnd' Hfuel') as (Hprod & Hpr & Hge & Hs).
           assert (Hdp : prime d).
           { apply nodiv_prime; [lia|]. intros k Hk Hdiv. apply (Hnd k Hk).
             apply (Z.divide_trans k d n); assumption. }
           simpl. fold (prod (factor_from f (n / d) d)). rewrite Hprod.
           repeat split.
           ++ lia.
           ++ constructor; assumption.
           ++ constructor; [lia|exact Hge].
           ++ constructor; [exact Hs|exact Hge].
        -- assert (Hnd' : nodiv_below n (d + 1)).
           { intros k Hk Hdiv. destruct (Z.eq_dec k d) as [->|Hne].
             - apply mod0_divide in Hdiv; [|lia]. congruence.
             - apply (Hnd k); [lia|exact Hdiv]. }
           assert (Hfuel' : n = 1 \/
                     Z.max 0 (Z.sqrt n + 1 - (d + 1)) + Z.log2 n + 1 <= Z.of_nat f) by (right; lia).
           destruct (IH n (d + 1) Hn ltac:(lia) Hnd' Hfuel') as (Hprod & Hpr & Hge & Hs).
           repeat split; try assumption.
           eapply Forall_impl; [|exact Hge]. simpl. intros; lia.
Qed.

Theorem prime_factors_correct n : 1 <= n ->
  prod (prime_factors n) = n /\ Forall prime (prime_factors n) /\
  StronglySorted Z.le (prime_factors n).
Proof.
  intro Hn. unfold prime_factors.
  destruct (factor_from_spec (factor_fuel n) n 2 Hn ltac:(lia)) as (H1 & H2 & _ & H4).
  - intros k Hk. lia.
  - right. unfold factor_fuel.
    pose proof (Z.log2_nonneg n). pose proof (Z.sqrt_nonneg n). lia.
  - auto.
Qed.

Lemma prime_divides_prod p l : prime p -> Forall prime l -> (p | prod l) -> In p l.
Proof.
  intros Hp. induction 1 as [|a l Ha Hall IH]; simpl; intro Hdiv.
  - apply Z.divide_1_r in Hdiv. pose proof (prime_ge_2 p Hp). lia.
  - fold (prod l) in Hdiv. apply prime_mult in Hdiv; [|exact Hp].
    destruct Hdiv as [Hd|Hd].
    + left. symmetry. apply prime_div_prime; assumption.
    + right. apply IH. exact Hd.
Qed.

Lemma in_divides_prod p l : In p l -> (p | prod l).
Proof.
  induction l as [|a l IH]; simpl; [tauto|]. fold (prod l). intros [->|Hin].
  - apply Z.divide_factor_l.
  - apply Z.divide_mul_r. apply IH. exact Hin.
Qed.

Theorem prime_factors_complete n p : 1 <= n ->
  (In p (prime_factors n) <-> prime p /\ (p | n)).
Proof.
  intro Hn. destruct (prime_factors_correct n Hn) as (Hprod & Hall & _). split.
  - intro Hin. split.
    + rewrite Forall_forall in Hall. auto.
    + rewrite <- Hprod. apply in_divides_prod. exact Hin.
  - intros [Hp Hdiv]. apply prime_divides_prod; try assumption. rewrite Hprod. exact Hdiv.
Qed.

Lemma nodup_ssorted (R : Z -> Z -> Prop) l :
  StronglySorted R l -> StronglySorted R (nodup Z.eq_dec l).
Proof.
  induction 1 as [|a l Hs IH Hall]; simpl; [constructor|].
  destruct (in_dec Z.eq_dec a l); [exact IH|]. constructor; [exact IH|].
  apply Forall_forall. intros x Hx. apply nodup_In in Hx.
  rewrite Forall_forall in Hall. auto.
Qed.

Theorem distinct_prime_factors_correct n : 1 <= n ->
  (forall p, In p (distinct_prime_factors n) <-> prime p /\ (p | n)) /\
  NoDup (distinct_prime_factors n) /\ StronglySorted Z.le (distinct_prime_factors n).
Proof.
  intro Hn. unfold distinct_prime_factors. split; [|split].
  - intro p. rewrite nodup_In. apply prime_factors_complete. exact Hn.
  - apply NoDup_nodup.
  - apply nodup_ssorted. apply prime_factors_correct. exact Hn.
Qed.

(* ------------------------------------------------------------------------- *)
(* divisors                                                                   *)
(* ------------------------------------------------------------------------- *)
Theorem divisors_correct n : 1 <= n ->
  (forall d, In d (divisors n) <-> 0 < d /\ (d | n)) /\
  StronglySorted Z.lt (divisors n) /\ NoDup (divisors n).
Proof.
  intro Hn. unfold divisors. split; [|split].
  - intro d. rewrite filter_In, zrange_In. split.
    + intros [Hr Hm]. split; [lia|]. apply mod0_divide; [lia|exact Hm].
    + intros [Hd Hdiv]. pose proof (Z.divide_pos_le d n ltac:(lia) Hdiv).
      split; [lia|]. apply mod0_divide; [lia|exact Hdiv].
  - apply filter_ssorted. apply zrange_sorted.
  - apply ssorted_lt_NoDup. apply filter_ssorted. apply zrange_sorted.
Qed.

(* ------------------------------------------------------------------------- *)
(* gcd / lcm                                                                  *)
(* ------------------------------------------------------------------------- *)
Theorem gcd_correct a b :
  0 <= gcd a b /\ (gcd a b | a) /\ (gcd a b | b) /\
  (forall c, (c | a) -> (c | b) -> (c | gcd a b)).
Proof.
  unfold gcd. split; [apply Z.gcd_nonneg|]. split; [apply Z.gcd_divide_l|].
  split; [apply Z.gcd_divide_r|]. intros c. apply Z.gcd_greatest.
Qed.

Theorem gcd_greatest_le a b c : (a <> 0 \/ b <> 0) -> (c | a) -> (c | b) -> c <= gcd a b.
Proof.
  intros Hnz Ha Hb. unfold gcd.
  pose proof (Z.gcd_greatest a b c Ha Hb) as Hg.
  pose proof (Z.gcd_nonneg a b) as Hnn.
  assert (Hne : Z.gcd a b <> 0).
  { intro E. apply Z.gcd_eq_0 in E. lia. }
  apply Z.divide_pos_le in Hg; lia.
Qed.

Theorem lcm_correct a b :
  0 <= lcm a b /\ (a | lcm a b) /\ (b | lcm a b) /\
  (forall c, (a | c) -> (b | c) -> (lcm a b | c)).
Proof.
  unfold lcm. split; [apply Z.lcm_nonneg|]. split; [apply Z.divide_lcm_l|].
  split; [apply Z.divide_lcm_r|]. intros c. apply Z.lcm_least.
Qed.

Theorem gcd_mul_lcm a b : 0 <= a -> 0 <= b -> gcd a b * lcm a b = a * b.
Proof.
  intros Ha Hb. unfold gcd, lcm, Z.lcm.
  pose proof (Z.gcd_nonneg a b) as Hnn.
  destruct (Z.eq_dec (Z.gcd a b) 0) as [E|NE].
  - apply Z.gcd_eq_0 in E as [-> ->]. reflexivity.
  - destruct (Z.gcd_divide_r a b) as [q Hq].
    set (g := Z.gcd a b) in *. clearbody g.
    replace (b / g) with q by (rewrite Hq, Z.div_mul; [reflexivity|exact NE]).
    assert (Hq0 : 0 <= q) by nia.
    rewrite Z.abs_eq by nia. rewrite Hq. ring.
Qed.

(* ------------------------------------------------------------------------- *)
(* factorial                                                                  *)
(* ------------------------------------------------------------------------- *)
Theorem factorial_0 : factorial 0 = 1.
Proof. reflexivity. Qed.

Theorem factorial_succ n : 0 <= n -> factorial (n + 1) = (n + 1) * factorial n.
Proof.
  intro Hn. unfold factorial.
  replace (Z.to_nat (n + 1)) with (S (Z.to_nat n)) by lia.
  change (fact_nat (S (Z.to_nat n))) with (Z.of_nat (S (Z.to_nat n)) * fact_nat (Z.to_nat n)).
  f_equal. lia.
Qed.

Lemma fact_nat_prod k : fact_nat k = prod (zrange 1 k).
Proof.
  induction k as [|k IH]; [reflexivity|].
  rewrite zrange_snoc, prod_app.
  change (fact_nat (S k)) with (Z.of_nat (S k) * fact_nat k).
  rewrite IH. change (prod [1 + Z.of_nat k]) with ((1 + Z.of_nat k) * 1). lia.
Qed.

Theorem factorial_product n : factorial n = prod (inclusive_one_range n).
Proof. apply fact_nat_prod. Qed.

Lemma fact_nat_pos k : 0 < fact_nat k.
Proof.
  induction k as [|k IH]; [reflexivity|].
  change (fact_nat (S k)) with (Z.of_nat (S k) * fact_nat k). nia.
Qed.

(* ------------------------------------------------------------------------- *)
(* binomial                                                                   *)
(* ------------------------------------------------------------------------- *)
Lemma nth_zipadd : forall a b k, nth k (zipadd a b) 0 = nth k a 0 + nth k b 0.
Proof.
  induction a as [|x a IH]; intros b k; simpl.
  - destruct k; reflexivity.
  - destruct b as [|y b]; simpl.
    + destruct k; lia.
    + destruct k as [|k]; [reflexivity|]. apply IH.
Qed.

Lemma binom_nat_0_0 : binom_nat 0 0 = 1.
Proof. reflexivity. Qed.
Lemma binom_nat_0_S k : binom_nat 0 (S k) = 0.
Proof. unfold binom_nat. simpl. destruct k; reflexivity. Qed.
Lemma binom_nat_S_0 n : binom_nat (S n) 0 = binom_nat n 0.
Proof. unfold binom_nat. cbn [pascal_row]. cbv zeta. rewrite nth_zipadd. reflexivity. Qed.
Lemma binom_nat_S_S n k : binom_nat (S n) (S k) = binom_nat n k + binom_nat n (S k).
Proof. unfold binom_nat. cbn [pascal_row]. cbv zeta. rewrite nth_zipadd. reflexivity. Qed.

Lemma binom_nat_n_0 n : binom_nat n 0 = 1.
Proof. induction n as [|n IH]; [reflexivity|]. rewrite binom_nat_S_0. exact IH. Qed.

Lemma binom_nat_gt : forall n k, (n < k)%nat -> binom_nat n k = 0.
Proof.
  induction n as [|n IH]; intros k Hk.
  - destruct k; [lia|]. apply binom_nat_0_S.
  - destruct k as [|k]; [lia|]. rewrite binom_nat_S_S, !IH by lia. reflexivity.
Qed.

Lemma binom_nat_fact : forall n k, (k <= n)%nat ->
  binom_nat n k * (fact_nat k * fact_nat (n - k)) = fact_nat n.
Proof.
  induction n as [|n IH]; intros k Hk.
  - assert (k = O) by lia. subst k. reflexivity.
  - destruct k as [|k].
    + rewrite binom_nat_n_0. simpl (fact_nat 0). rewrite Nat.sub_0_r. lia.
    + rewrite binom_nat_S_S.
      change (fact_nat (S n)) with (Z.of_nat (S n) * fact_nat n).
      change (fact_nat (S k)) with (Z.of_nat (S k) * fact_nat k).
      replace (S n - S k)%nat with (n - k)%nat by lia.
      destruct (Nat.eq_dec k n) as [->|Hne].
      * rewrite (binom_nat_gt n (S n)) by lia.
        pose proof (IH n (le_n n)) as H1. nia.
      * assert (Hk1 : (k <= n)%nat) by lia. assert (Hk2 : (S k <= n)%nat) by lia.
        pose proof (IH k Hk1) as H1. pose proof (IH (S k) Hk2) as H2.
        change (fact_nat (S k)) with (Z.of_nat (S k) * fact_nat k) in H2.
        replace (n - k)%nat with (S (n - S k)) in * by lia.
        change (fact_nat (S (n - S k))) with (Z.of_nat (S (n - S k)) * fact_nat (n - S k)) in *.
        replace (Z.of_nat (S (n - S k))) with (Z.of_nat n - Z.of_nat k) in * by lia.
        replace (Z.of_nat (S n)) with (Z.of_nat n + 1) by lia.
        replace (Z.of_nat (S k)) with (Z.of_nat k + 1) in * by lia.
        set (A := binom_nat n k) in *. set (B := binom_nat n (S k)) in *.
        set (Fk := fact_nat k) in *. set (Fr := fact_nat (n - S k)) in *.
        set (Fn := fact_nat n) in *. set (zn := Z.of_nat n) in *. set (zk := Z.of_nat k) in *.
        clearbody A B Fk Fr Fn zn zk. clear IH Hk Hne Hk1 Hk2.
        rewrite <- H1 at 1. rewrite <- H1 in H2.
        replace ((A + B) * ((zk + 1) * Fk * ((zn - zk) * Fr)))
          with ((zk + 1) * (A * (Fk * ((zn - zk) * Fr))) + (zn - zk) * (B * ((zk + 1) * Fk * Fr))) by ring.
        rewrite H2. ring.
Qed.

Theorem binomial_n_0 n : 0 <= n -> binomial n 0 = 1.
Proof.
  intro Hn. unfold binomial. destruct (n <? 0) eqn:E; [lia|]. simpl. apply binom_nat_n_0.
Qed.

Theorem binomial_0_succ k : 0 <= k -> binomial 0 (k + 1) = 0.
Proof.
  intro Hk. unfold binomial. destruct (k + 1 <? 0) eqn:E; [lia|]. simpl.
  replace (Z.to_nat (k + 1)) with (S (Z.to_nat k)) by lia. apply binom_nat_0_S.
Qed.

Theorem binomial_pascal n k : 0 <= n -> 0 <= k ->
  binomial (n + 1) (k + 1) = binomial n k + binomial n (k + 1).
Proof.
  intros Hn Hk. unfold binomial.
  destruct (n + 1 <? 0) eqn:E1; [lia|]. destruct (k + 1 <? 0) eqn:E2; [lia|].
  destruct (n <? 0) eqn:E3; [lia|]. destruct (k <? 0) eqn:E4; [lia|]. simpl.
  replace (Z.to_nat (n + 1)) with (S (Z.to_nat n)) by lia.
  replace (Z.to_nat (k + 1)) with (S (Z.to_nat k)) by lia.
  apply binom_nat_S_S.
Qed.

Theorem binomial_above n k : 0 <= n < k -> binomial n k = 0.
Proof.
  intro H. unfold binomial. destruct (n <? 0) eqn:E1; [lia|]. destruct (k <? 0) eqn:E2; [lia|].
  simpl. apply binom_nat_gt. lia.
Qed.

Theorem binomial_factorial_mul n k : 0 <= k <= n ->
  binomial n k * (factorial k * factorial (n - k)) = factorial n.
Proof.
  intro H. unfold binomial, factorial.
  destruct (n <? 0) eqn:E1; [lia|]. destruct (k <? 0) eqn:E2; [lia|]. simpl.
  replace (Z.to_nat (n - k)) with (Z.to_nat n - Z.to_nat k)%nat by lia.
  apply binom_nat_fact. lia.
Qed.

Theorem binomial_factorial n k : 0 <= k <= n ->
  binomial n k = factorial n / (factorial k * factorial (n - k)).
Proof.
  intro H. rewrite <- (binomial_factorial_mul n k H).
  rewrite Z.div_mul; [reflexivity|].
  unfold factorial. pose proof (fact_nat_pos (Z.to_nat k)). pose proof (fact_nat_pos (Z.to_nat (n - k))). nia.
Qed.

Theorem binomial_row_map n len :
  binomial_row n len = map (fun k => binomial n (Z.of_nat k)) (seq 0 len).
Proof.
  unfold binomial_row, binomial. destruct (n <? 0) eqn:E; simpl.
  - generalize 0%nat. induction len as [|l IH]; intro s; simpl; [reflexivity|]. now rewrite (IH (S s)).
  - apply map_ext. intro k. destruct (Z.of_nat k <? 0) eqn:E2; [lia|].
    rewrite Nat2Z.id. reflexivity.
Qed.

(* ------------------------------------------------------------------------- *)
(* totient                                                                    *)
(* ------------------------------------------------------------------------- *)
Theorem totient_correct n : 1 <= n ->
  NoDup (coprimes n) /\
  (forall k, In k (coprimes n) <-> 1 <= k <= n /\ rel_prime k n) /\
  totient n = Z.of_nat (length (coprimes n)).
Proof.
  intro Hn. unfold totient, coprimes. split; [|split; [|reflexivity]].
  - apply ssorted_lt_NoDup. apply filter_ssorted. apply zrange_sorted.
  - intro k. rewrite filter_In, zrange_In, Z.eqb_eq, Zgcd_1_rel_prime. split; intros [H1 H2]; split; auto; lia.
Qed.

(* ------------------------------------------------------------------------- *)
(* next prime                                                                 *)
(* ------------------------------------------------------------------------- *)
Lemma next_prime_from_sound fuel : forall m p, next_prime_from fuel m = Some p ->
  prime p /\ m <= p /\ forall q, m <= q < p -> ~ prime q.
Proof.
  induction fuel as [|f IH]; intros m p H; simpl in H; [discriminate|].
  destruct (is_prime m) eqn:E.
  - inversion H; subst p. split; [apply is_prime_correct; exact E|]. split; [lia|]. intros q Hq. lia.
  - apply IH in H as (Hp & Hle & Hno). split; [exact Hp|]. split; [lia|].
    intros q Hq. destruct (Z.eq_dec q m) as [->|Hne].
    + apply is_prime_false. exact E.
    + apply Hno. lia.
Qed.

Lemma next_prime_from_complete fuel : forall m q, prime q -> m <= q < m + Z.of_nat fuel ->
  exists p, next_prime_from fuel m = Some p.
Proof.
  induction fuel as [|f IH]; intros m q Hq Hr; [lia|]. simpl.
  destruct (is_prime m) eqn:E; [eexists; reflexivity|].
  apply (IH (m + 1) q Hq). destruct (Z.eq_dec q m) as [->|Hne]; [|lia].
  apply is_prime_correct in Hq. congruence.
Qed.

Theorem next_prime_sound n p : next_prime n = Some p ->
  prime p /\ n < p /\ forall q, n < q < p -> ~ prime q.
Proof.
  intro H. apply next_prime_from_sound in H as (Hp & Hle & Hno).
  split; [exact Hp|]. split; [lia|]. intros q Hq. apply Hno. lia.
Qed.

(* the fuel condition: the search answers whenever some prime lies in (n, 2n+2] *)
Theorem next_prime_complete n q : 0 <= n -> prime q -> n < q <= 2 * n + 2 ->
  exists p, next_prime n = Some p.
Proof.
  intros Hn Hq Hr. apply (next_prime_from_complete _ _ q Hq). unfold next_prime_fuel. lia.
Qed.

(* ------------------------------------------------------------------------- *)
(* positional notation                                                        *)
(* ------------------------------------------------------------------------- *)
Definition value_lsb (b : Z) (l : list Z) : Z := fold_right (fun d a => a * b + d) 0 l.

Lemma from_digits_rev b l : from_digits b (rev l) = value_lsb b l.
Proof.
  unfold from_digits. induction l as [|x l IH]; simpl; [reflexivity|].
  rewrite fold_left_app. simpl. rewrite IH. reflexivity.
Qed.

Lemma pow2_succ f : 2 ^ Z.of_nat (S f) = 2 * 2 ^ Z.of_nat f.
Proof. rewrite Nat2Z.inj_succ, Z.pow_succ_r by lia. reflexivity. Qed.

Lemma digits_lsb_value fuel : forall b n, 2 <= b -> 0 <= n < 2 ^ Z.of_nat fuel ->
  value_lsb b (digits_lsb fuel b n) = n.
Proof.
  induction fuel as [|f IH]; intros b n Hb Hn; simpl.
  - simpl in Hn. lia.
  - rewrite pow2_succ in Hn. destruct (n <? b) eqn:E; simpl; [lia|].
    rewrite IH; try lia.
    + pose proof (Z.div_mod n b ltac:(lia)). lia.
    + split; [apply Z.div_pos; lia|]. apply Z.div_lt_upper_bound; [lia|].
      assert (0 < 2 ^ Z.of_nat f) by (apply Z.pow_pos_nonneg; lia). nia.
Qed.

Lemma digits_lsb_range fuel : forall b n, 2 <= b -> 0 <= n ->
  Forall (fun d => 0 <= d < b) (digits_lsb fuel b n).
Proof.
  induction fuel as [|f IH]; intros b n Hb Hn; simpl; [constructor|].
  destruct (n <? b) eqn:E.
  - constructor; [lia|constructor].
  - constructor; [apply Z.mod_pos_bound; lia|]. apply IH; [lia|]. apply Z.div_pos; lia.
Qed.

(* the most significant digit is not 0, except for the single digit of 0 *)
Lemma digits_lsb_last fuel : forall b n, 2 <= b -> 0 < n < 2 ^ Z.of_nat fuel ->
  0 < last (digits_lsb fuel b n) 0.
Proof.
  induction fuel as [|f IH]; intros b n Hb Hn.
  - simpl in Hn. lia.
  - rewrite pow2_succ in Hn. simpl. destruct (n <? b) eqn:E; [simpl; lia|].
    assert (Hq : 0 < n / b) by (apply Z.div_str_pos; lia).
    assert (Hlt : n / b < 2 ^ Z.of_nat f).
    { apply Z.div_lt_upper_bound; [lia|].
      assert (0 < 2 ^ Z.of_nat f) by (apply Z.pow_pos_nonneg; lia). nia. }
    specialize (IH b (n / b) Hb (conj Hq Hlt)).
    destruct (digits_lsb f b (n / b)) as [|y r] eqn:El; [simpl in IH; lia|]. exact IH.
Qed.

Lemma digit_fuel_enough n : 0 <= n -> n < 2 ^ Z.of_nat (digit_fuel n).
Proof.
  intro Hn. unfold digit_fuel. rewrite pow2_succ, Z2Nat.id by apply Z.log2_nonneg.
  destruct (Z.eq_dec n 0) as [->|Hne]; [reflexivity|].
  destruct (Z.log2_spec n ltac:(lia)) as [_ Hhi].
  rewrite Z.pow_succ_r in Hhi by apply Z.log2_nonneg. exact Hhi.
Qed.

Theorem from_to_digits b n : 2 <= b -> 0 <= n -> from_digits b (to_digits b n) = n.
Proof.
  intros Hb Hn. unfold to_digits. rewrite from_digits_rev.
  apply digits_lsb_value; [exact Hb|]. split; [exact Hn|apply digit_fuel_enough; exact Hn].
Qed.

Theorem to_digits_range b n : 2 <= b -> 0 <= n -> Forall (fun d => 0 <= d < b) (to_digits b n).
Proof.
  intros Hb Hn. unfold to_digits. apply Forall_rev. apply digits_lsb_range; assumption.
Qed.

Theorem to_digits_zero b : 2 <= b -> to_digits b 0 = [0].
Proof. intro Hb. unfold to_digits, digit_fuel. simpl. destruct (0 <? b) eqn:E; [reflexivity|lia]. Qed.

Theorem to_digits_leading b n : 2 <= b -> 0 < n ->
  exists d l, to_digits b n = d :: l /\ 0 < d.
Proof.
  intros Hb Hn. unfold to_digits.
  pose proof (digits_lsb_last (digit_fuel n) b n Hb
                (conj Hn (digit_fuel_enough n ltac:(lia)))) as Hl.
  destruct (digits_lsb (digit_fuel n) b n) as [|x l] eqn:E using rev_ind; [simpl in Hl; lia|].
  rewrite last_last in Hl. rewrite rev_app_distr. simpl. eauto.
Qed.

Lemma to_digits_nonempty b n : to_digits b n <> [].
Proof.
  unfold to_digits, digit_fuel. simpl. destruct (n <? b); simpl; [discriminate|].
  intro H. apply app_eq_nil in H as [_ H]. discriminate.
Qed.

Theorem from_to_bin n : 0 <= n -> from_bin (to_bin n) = n.
Proof. intro Hn. apply from_to_digits; lia. Qed.

Theorem to_bin_bits n : 0 <= n -> Forall (fun d => d = 0 \/ d = 1) (to_bin n).
Proof.
  intro Hn. eapply Forall_impl; [|apply (to_digits_range 2 n); lia]. simpl. intros; lia.
Qed.

Lemma hexval_hexchar d : 0 <= d < 16 -> hexval (hexchar d) = Some d.
Proof.
  intro H.
  assert (E : d = 0 \/ d = 1 \/ d = 2 \/ d = 3 \/ d = 4 \/ d = 5 \/ d = 6 \/ d = 7 \/ d = 8 \/
              d = 9 \/ d = 10 \/ d = 11 \/ d = 12 \/ d = 13 \/ d = 14 \/ d = 15) by lia.
  repeat (destruct E as [->|E]; [reflexivity|]). subst d. reflexivity.
Qed.

Lemma hexvals_hexchars l : Forall (fun d => 0 <= d < 16) l -> hexvals (map hexchar l) = Some l.
Proof.
  induction 1 as [|d l Hd Hall IH]; simpl; [reflexivity|].
  rewrite hexval_hexchar by exact Hd. rewrite IH. reflexivity.
Qed.

Theorem from_to_hex n : 0 <= n -> from_hex (to_hex n) = Some n.
Proof.
  intro Hn. unfold from_hex, to_hex.
  pose proof (to_digits_nonempty 16 n) as Hne.
  rewrite hexvals_hexchars by (apply to_digits_range; lia).
  rewrite from_to_digits by lia.
  destruct (to_digits 16 n); [congruence|reflexivity].
Qed.

Theorem from_digits_digits n : 0 <= n -> from_digits 10 (digits n) = n.
Proof. intro Hn. apply from_to_digits; lia. Qed.

Theorem digits_range n : 0 <= n -> Forall (fun d => 0 <= d <= 9) (digits n).
Proof.
  intro Hn. eapply Forall_impl; [|apply (to_digits_range 10 n); lia]. simpl. intros; lia.
Qed.

(* casting out nines: the digit sum is congruent to the number modulo 9 *)
Lemma zsum_app a b : zsum (a ++ b) = zsum a + zsum b.
Proof. induction a as [|x a IH]; simpl; [reflexivity|]. fold (zsum (a ++ b)) (zsum a). lia. Qed.

Lemma zsum_rev l : zsum (rev l) = zsum l.
Proof. induction l as [|x l IH]; simpl; [reflexivity|]. rewrite zsum_app, IH. simpl. fold (zsum l). lia. Qed.

Lemma value_lsb_mod9 l : exists k, value_lsb 10 l = zsum l + 9 * k.
Proof.
  unfold value_lsb, zsum. induction l as [|x l [k IH]]; cbn [fold_right].
  - exists 0. reflexivity.
  - rewrite IH. exists (10 * k + fold_right Z.add 0 l). lia.
Qed.

Theorem digit_sum_mod9 n : 0 <= n -> digit_sum n mod 9 = n mod 9.
Proof.
  intro Hn. unfold digit_sum, digits, to_digits. rewrite zsum_rev.
  pose proof (digits_lsb_value (digit_fuel n) 10 n ltac:(lia)
                (conj Hn (digit_fuel_enough n Hn))) as Hv.
  destruct (value_lsb_mod9 (digits_lsb (digit_fuel n) 10 n)) as [k Hk].
  rewrite Hv in Hk. clear Hv.
  set (s := zsum (digits_lsb (digit_fuel n) 10 n)) in *. clearbody s.
  rewrite Hk, (Z.mul_comm 9 k), Z_mod_plus_full. reflexivity.
Qed.

(* ------------------------------------------------------------------------- *)
(* ranges                                                                     *)
(* ------------------------------------------------------------------------- *)
Theorem inclusive_one_range_spec n : 0 <= n ->
  length (inclusive_one_range n) = Z.to_nat n /\
  forall i, (i < Z.to_nat n)%nat -> nth i (inclusive_one_range n) 0 = 1 + Z.of_nat i.
Proof. intro Hn. unfold inclusive_one_range. split; [apply zrange_length|]. intros. now apply zrange_nth. Qed.

Theorem inclusive_zero_range_spec n : 0 <= n ->
  length (inclusive_zero_range n) = Z.to_nat (n + 1) /\
  forall i, (i < Z.to_nat (n + 1))%nat -> nth i (inclusive_zero_range n) 0 = Z.of_nat i.
Proof.
  intro Hn. unfold inclusive_zero_range. split; [apply zrange_length|]. intros. now rewrite zrange_nth.
Qed.

Theorem exclusive_one_range_spec n : 0 <= n ->
  length (exclusive_one_range n) = Z.to_nat (n - 1) /\
  forall i, (i < Z.to_nat (n - 1))%nat -> nth i (exclusive_one_range n) 0 = 1 + Z.of_nat i.
Proof. intro Hn. unfold exclusive_one_range. split; [apply zrange_length|]. intros. now apply zrange_nth. Qed.

Theorem exclusive_zero_range_spec n : 0 <= n ->
  length (exclusive_zero_range n) = Z.to_nat n /\
  forall i, (i < Z.to_nat n)%nat -> nth i (exclusive_zero_range n) 0 = Z.of_nat i.
Proof.
  intro Hn. unfold exclusive_zero_range. split; [apply zrange_length|]. intros. now rewrite zrange_nth.
Qed.

Theorem range_membership n x : 0 <= n ->
  (In x (inclusive_one_range n) <-> 1 <= x <= n) /\
  (In x (inclusive_zero_range n) <-> 0 <= x <= n) /\
  (In x (exclusive_one_range n) <-> 1 <= x < n) /\
  (In x (exclusive_zero_range n) <-> 0 <= x < n).
Proof.
  intro Hn. unfold inclusive_one_range, inclusive_zero_range, exclusive_one_range, exclusive_zero_range.
  rewrite !zrange_In. lia.
Qed.

(* ------------------------------------------------------------------------- *)
(* double / halve, square / root                                              *)
(* ------------------------------------------------------------------------- *)
Theorem halve_double n : halve (double n) = (n, 1).
Proof.
  unfold halve, double. rewrite Z.even_mul. change (Z.even 2) with true. cbn [orb].
  rewrite (Z.mul_comm 2 n), Z.div_mul by lia. reflexivity.
Qed.

Theorem halve_spec n : let '(p, q) := halve n in 2 * p = n * q /\ 0 < q /\ Z.gcd p q = 1.
Proof.
  unfold halve. destruct (Z.even n) eqn:E.
  - apply Z.even_spec in E as [k ->]. rewrite (Z.mul_comm 2 k), Z.div_mul by lia.
    split; [lia|]. split; [lia|]. apply Z.gcd_1_r.
  - split; [lia|]. split; [lia|].
    assert (Ho : Z.odd n = true) by (rewrite <- Z.negb_even, E; reflexivity).
    apply Z.odd_spec in Ho as [k ->].
    pose proof (Z.gcd_nonneg (2 * k + 1) 2) as Hnn.
    pose proof (Z.gcd_divide_l (2 * k + 1) 2) as [a Ha].
    pose proof (Z.gcd_divide_r (2 * k + 1) 2) as [b Hb].
    set (g := Z.gcd (2 * k + 1) 2) in *. clearbody g.
    clear E. 
    assert (Hg0 : 0 < g) by (destruct (Z.eq_dec g 0) as [->|]; lia).
    assert (Hb0 : 1 <= b) by nia.
    assert (Hg : g <= 2) by nia.
    assert (Hg' : g = 1 \/ g = 2) by lia.
    destruct Hg' as [->| ->]; lia.
Qed.

Theorem double_halve_even n : Z.even n = true -> double (fst (halve n)) = n /\ snd (halve n) = 1.
Proof.
  intro E. unfold halve, double. rewrite E. cbn [fst snd]. apply Z.even_spec in E as [k ->].
  rewrite (Z.mul_comm 2 k), Z.div_mul by lia. lia.
Qed.

Theorem sqrt_square n : 0 <= n -> sqrt_exact (square n) = Some n.
Proof.
  intro Hn. unfold sqrt_exact, square. rewrite Z.sqrt_square by exact Hn.
  rewrite Z.eqb_refl. reflexivity.
Qed.

Theorem sqrt_exact_spec n r : sqrt_exact n = Some r <-> 0 <= r /\ r * r = n.
Proof.
  unfold sqrt_exact. split.
  - destruct (Z.sqrt n * Z.sqrt n =? n) eqn:E; [|discriminate]. intro H. inversion H; subst r.
    split; [apply Z.sqrt_nonneg|lia].
  - intros [Hr <-]. rewrite Z.sqrt_square by exact Hr. rewrite Z.eqb_refl. reflexivity.
Qed.

Theorem square_sqrt n r : sqrt_exact n = Some r -> square r = n.
Proof. intro H. apply sqrt_exact_spec in H. unfold square. lia. Qed.

(* ------------------------------------------------------------------------- *)
(* non-vacuity: the hypotheses of the theorems above are satisfiable, and the  *)
(* model computes the expected textbook values on concrete inputs             *)
(* ------------------------------------------------------------------------- *)
Example ex_is_prime : map is_prime [0; 1; 2; 3; 4; 9; 25; 91; 97; 561] =
  [false; false; true; true; false; false; false; false; true; false].
Proof. vm_compute. reflexivity. Qed.
Example ex_prime_97 : prime 97.
Proof. apply is_prime_correct. vm_compute. reflexivity. Qed.
Example ex_prime_factors : prime_factors 360 = [2; 2; 2; 3; 3; 5] /\ prime_factors 1 = [] /\
  prime_factors 2987 = [29; 103] /\ distinct_prime_factors 360 = [2; 3; 5].
Proof. vm_compute. repeat split. Qed.
Example ex_divisors : divisors 36 = [1; 2; 3; 4; 6; 9; 12; 18; 36] /\ divisors 1 = [1].
Proof. vm_compute. split; reflexivity. Qed.
Example ex_gcd_lcm : gcd 12 18 = 6 /\ lcm 12 18 = 36 /\ gcd 0 0 = 0 /\ gcd 0 5 = 5 /\ lcm 0 5 = 0.
Proof. vm_compute. repeat split. Qed.
Example ex_factorial : factorial 10 = 3628800 /\ factorial 0 = 1.
Proof. vm_compute. split; reflexivity. Qed.
Example ex_binomial : binomial 10 3 = 120 /\ binomial 3 5 = 0 /\ binomial 0 0 = 1 /\
  binomial_row 4 6 = [1; 4; 6; 4; 1; 0].
Proof. vm_compute. repeat split. Qed.
Example ex_totient : map totient [1; 2; 12; 36; 97] = [1; 1; 4; 12; 96].
Proof. vm_compute. reflexivity. Qed.
Example ex_next_prime : next_prime 13 = Some 17 /\ next_prime 0 = Some 2 /\ next_prime 113 = Some 127.
Proof. vm_compute. repeat split. Qed.
Example ex_next_prime_complete : exists p, next_prime 113 = Some p.
Proof.
  apply (next_prime_complete 113 127); [lia| |lia]. apply is_prime_correct. vm_compute. reflexivity.
Qed.
Example ex_bin_hex : to_bin 12 = [1; 1; 0; 0] /\ to_bin 0 = [0] /\ from_bin [1; 1; 0; 0] = 12 /\
  to_hex 48879 = [98; 101; 101; 102]%N /\ from_hex [66; 69; 101; 102]%N = Some 48879 /\
  from_hex [] = None /\ from_hex [103]%N = None.
Proof. vm_compute. repeat split. Qed.
Example ex_digits : digits 3070 = [3; 0; 7; 0] /\ digit_sum 3070 = 10 /\ digits 0 = [0].
Proof. vm_compute. repeat split. Qed.
Example ex_ranges : inclusive_one_range 3 = [1; 2; 3] /\ inclusive_zero_range 3 = [0; 1; 2; 3] /\
  exclusive_one_range 3 = [1; 2] /\ exclusive_zero_range 3 = [0; 1; 2] /\
  exclusive_one_range 0 = [] /\ inclusive_zero_range 0 = [0].
Proof. vm_compute. repeat split. Qed.
Example ex_halve_sqrt : halve 7 = (7, 2) /\ halve 8 = (4, 1) /\ sqrt_exact 144 = Some 12 /\
  sqrt_exact 145 = None /\ Z.even 8 = true.
Proof. vm_compute. repeat split. Qed.
