(* Proofs for property C09: soundness of the abstract interpreter `astmt` / `frame_ok`
   of Model/StackEffect.v w.r.t. the concrete semantics `exec`, as a simulation between
   two runs of the same template, under the same oracle, on stacks that differ only
   below the credited top part; then the table sweep over Gen/StackTemplates.v. *)
From Coq Require Import List NArith Bool Arith Lia.
From Vy Require Import Model.Base Model.StackEffect Gen.StackTemplates.
Import ListNotations.
Open Scope nat_scope.

Section Sound.
Variable value : Type.
Variable F : oracle value.
Variable ar : list nat.
Variables p p' : list value.     (* the two frames, top-first *)

Notation state := (st value).

Definition cr_le (a b : cr) : Prop := fst a <= fst b /\ snd a <= snd b.

(* the two states agree on everything except the part of the stacks below the credit *)
Definition Inv (d : cr) (s1 s2 : state) : Prop :=
  (exists sm, stk s1 = sm ++ p /\ stk s2 = sm ++ p' /\ fst d <= length sm) /\
  (exists sa q q', aux s1 = sa ++ q /\ aux s2 = sa ++ q' /\ snd d <= length sa) /\
  env s1 = env s2 /\ clk s1 = clk s2.

Definition rrel {A} (d : cr) (r1 r2 : res value A) : Prop :=
  match r1, r2 with
  | Ok a1 t1, Ok a2 t2 => a1 = a2 /\ Inv d t1 t2
  | Exn t1, Exn t2 => Inv (0, 0) t1 t2
  | Fuel, Fuel => True
  | _, _ => False
  end.

Lemma Inv_weaken d d' s1 s2 : Inv d s1 s2 -> cr_le d' d -> Inv d' s1 s2.
Proof.
  intros [[sm [H1 [H2 H3]]] [[sa [q [q' [A1 [A2 A3]]]]] [He Hc]]] [L1 L2].
  split; [exists sm; repeat split; try assumption; lia|].
  split; [exists sa, q, q'; repeat split; try assumption; lia|].
  split; assumption.
Qed.

Lemma Inv_zero d s1 s2 : Inv d s1 s2 -> Inv (0, 0) s1 s2.
Proof. intro H. apply (Inv_weaken _ _ _ _ H). split; simpl; lia. Qed.

Lemma rrel_weaken A d d' (r1 r2 : res value A) : rrel d r1 r2 -> cr_le d' d -> rrel d' r1 r2.
Proof.
  destruct r1, r2; simpl; try tauto.
  intros [E H] L. split; [assumption|]. eapply Inv_weaken; eassumption.
Qed.

Lemma rrel_bind A B d1 d2 (m1 m2 : res value A) (k1 k2 : A -> state -> res value B) :
  rrel d1 m1 m2 ->
  (forall a t1 t2, Inv d1 t1 t2 -> rrel d2 (k1 a t1) (k2 a t2)) ->
  rrel d2 (bind m1 k1) (bind m2 k2).
Proof.
  destruct m1, m2; simpl; try tauto.
  intros [E H] K. subst. apply K. assumption.
Qed.

Lemma Inv_tick d s1 s2 : Inv d s1 s2 -> Inv d (tick s1) (tick s2).
Proof.
  intros [HM [HA [He Hc]]]. unfold Inv, tick; simpl.
  repeat split; try assumption. congruence.
Qed.

Lemma Inv_clk d s1 s2 : Inv d s1 s2 -> clk s1 = clk s2.
Proof. intros [_ [_ [_ Hc]]]. exact Hc. Qed.

Lemma Inv_env d s1 s2 : Inv d s1 s2 -> env s1 = env s2.
Proof. intros [_ [_ [He _]]]. exact He. Qed.

Lemma Inv_len1 d s1 s2 : Inv d s1 s2 -> fst d <= length (stk s1).
Proof. intros [[sm [H1 [H2 H3]]] _]. rewrite H1, app_length. lia. Qed.

Lemma Inv_len2 d s1 s2 : Inv d s1 s2 -> fst d <= length (stk s2).
Proof. intros [[sm [H1 [H2 H3]]] _]. rewrite H2, app_length. lia. Qed.

(* popping n entries that all lie in the credited part never sees what is below *)
Lemma take_pop_app n : forall (s q : list value) c, n <= length s ->
  take_pop F n (s ++ q) c = (firstn n s, skipn n s ++ q, c).
Proof.
  induction n as [|n IH]; intros s q c L; simpl; [reflexivity|].
  destruct s as [|x s]; simpl in *; [lia|].
  rewrite IH by lia. reflexivity.
Qed.

Lemma firstn_skipn_len (n : nat) (s : list value) : n <= length s -> length (skipn n s) = length s - n.
Proof. intro L. rewrite skipn_length. reflexivity. Qed.

Lemma do_pop_sim w n wrap d d' s1 s2 :
  take w n d = Some d' -> Inv d s1 s2 ->
  rrel d' (do_pop F w n wrap s1) (do_pop F w n wrap s2).
Proof.
  intros HT [[sm [H1 [H2 H3]]] [[sa [q [q' [A1 [A2 A3]]]]] [He Hc]]].
  unfold do_pop. destruct w; simpl in HT; simpl get.
  - destruct (n <=? fst d) eqn:L; [|discriminate]. apply Nat.leb_le in L.
    inversion HT; subst d'; clear HT.
    rewrite H1, H2, Hc. rewrite !take_pop_app by lia.
    simpl. split; [reflexivity|].
    unfold Inv, set; simpl. split.
    + destruct (o_retain F (clk s2)).
      * exists (firstn n sm ++ skipn n sm). rewrite <- !app_assoc. repeat split.
        rewrite firstn_skipn. lia.
      * exists (skipn n sm). repeat split. rewrite skipn_length. lia.
    + split; [exists sa, q, q'; repeat split; assumption|]. split; [assumption|reflexivity].
  - destruct (n <=? snd d) eqn:L; [|discriminate]. apply Nat.leb_le in L.
    inversion HT; subst d'; clear HT.
    rewrite A1, A2, Hc. rewrite !take_pop_app by lia.
    simpl. split; [reflexivity|].
    unfold Inv, set; simpl. split; [exists sm; repeat split; assumption|]. split.
    + destruct (o_retain F (clk s2)).
      * exists (firstn n sa ++ skipn n sa), q, q'. rewrite <- !app_assoc. repeat split.
        rewrite firstn_skipn. lia.
      * exists (skipn n sa), q, q'. repeat split. rewrite skipn_length. lia.
    + split; [assumption|reflexivity].
Qed.

Lemma acnt_sim w c wrap d d' s1 s2 :
  acnt ar w c d = Some d' -> Inv d s1 s2 ->
  rrel d' (do_pop F w (count_of ar c s1) wrap s1) (do_pop F w (count_of ar c s2) wrap s2).
Proof.
  intros HA HI. destruct c; simpl in *; try discriminate; eapply do_pop_sim; eassumption.
Qed.

Lemma eval_sim e : forall d d' s1 s2,
  aexpr ar e d = Some d' -> Inv d s1 s2 -> rrel d' (eval F ar e s1) (eval F ar e s2).
Proof.
  induction e as [nm|x|f IHf a IHa|w c|w c|w e IHe|w e IHe| |w|i|nm| | | |];
    intros d d' s1 s2 HA HI; simpl in HA; try discriminate.
  - (* EConst *) inversion HA; subst. simpl. rewrite (Inv_clk _ _ _ HI).
    split; [reflexivity|]. apply Inv_tick. assumption.
  - (* EVar *) inversion HA; subst. simpl. rewrite (Inv_env _ _ _ HI). split; [reflexivity|assumption].
  - (* EApp *) simpl. unfold obind in HA. destruct (aexpr ar f d) as [d1|] eqn:E1; [|discriminate].
    eapply rrel_bind; [eapply IHf; eassumption|].
    intros vf t1 t2 HI1.
    eapply rrel_bind; [eapply IHa; eassumption|].
    intros va u1 u2 HI2. rewrite (Inv_clk _ _ _ HI2).
    destruct (o_raise F (clk u2)); simpl.
    + apply Inv_tick. eapply Inv_zero. eassumption.
    + split; [reflexivity|]. apply Inv_tick. assumption.
  - (* EPop *) simpl. eapply acnt_sim; eassumption.
  - (* EWrap *) simpl. eapply acnt_sim; eassumption.
  - (* EStackPop *) simpl.
    destruct d as [dm da]. destruct dm as [|dm]; simpl in HA; [discriminate|].
    inversion HA; subst d'; clear HA.
    destruct HI as [[sm [H1 [H2 H3]]] [HAux [He Hc]]].
    rewrite H1, H2. destruct sm as [|x sm]; simpl in *; [lia|].
    split; [reflexivity|]. unfold Inv, set; simpl.
    split; [exists sm; repeat split; lia|]. split; [assumption|]. split; assumption.
  - (* EPeek *) simpl.
    destruct (i <? fst d) eqn:L; [|discriminate]. apply Nat.ltb_lt in L. inversion HA; subst d'; clear HA.
    pose proof HI as HI0.
    destruct HI as [[sm [H1 [H2 H3]]] _].
    rewrite H1, H2. rewrite !nth_error_app1 by lia.
    destruct (nth_error sm i) eqn:N.
    + split; [reflexivity|assumption].
    + apply nth_error_None in N. lia.
Qed.

Lemma cstatic_sound c : forall d b s,
  cstatic ar c d = Some b -> fst d <= length (stk s) -> ceval F ar c s = Ok b s.
Proof.
  induction c as [e|n|f op n|a IHa b0 IHb|a IHa b0 IHb|a IHa]; intros d b s HS HL; simpl in HS.
  - discriminate.
  - destruct (n <? fst d) eqn:L; [|discriminate]. inversion HS; subst. simpl.
    apply Nat.ltb_lt in L. replace (n <? length (stk s)) with true; [reflexivity|].
    symmetry. apply Nat.ltb_lt. lia.
  - inversion HS; subst. reflexivity.
  - simpl. destruct (cstatic ar a d) as [[|]|] eqn:E; try discriminate.
    + rewrite (IHa _ _ _ E HL). simpl. eapply IHb; eassumption.
    + inversion HS; subst. rewrite (IHa _ _ _ E HL). reflexivity.
  - simpl. destruct (cstatic ar a d) as [[|]|] eqn:E; try discriminate.
    + inversion HS; subst. rewrite (IHa _ _ _ E HL). reflexivity.
    + rewrite (IHa _ _ _ E HL). simpl. eapply IHb; eassumption.
  - simpl. destruct (cstatic ar a d) as [x|] eqn:E; [|discriminate]. inversion HS; subst.
    rewrite (IHa _ _ _ E HL). reflexivity.
Qed.

Lemma acond_eq c d :
  acond ar c d =
  match cstatic ar c d with
  | Some _ => Some d
  | None =>
    match c with
    | CExpr e => aexpr ar e d
    | CLenGt _ => None
    | CArityCmp _ _ _ => Some d
    | CAnd a b | COr a b =>
      obind (acond ar a d) (fun d1 => obind (acond ar b d1) (fun d2 => Some (cr_min d1 d2)))
    | CNot a => acond ar a d
    end
  end.
Proof. destruct c; reflexivity. Qed.

Lemma cr_min_l a b : cr_le (cr_min a b) a.
Proof. unfold cr_le, cr_min; simpl; lia. Qed.
Lemma cr_min_r a b : cr_le (cr_min a b) b.
Proof. unfold cr_le, cr_min; simpl; lia. Qed.

Lemma static_rrel c d b s1 s2 :
  cstatic ar c d = Some b -> Inv d s1 s2 -> rrel d (ceval F ar c s1) (ceval F ar c s2).
Proof.
  intros HS HI.
  rewrite (cstatic_sound _ _ _ _ HS (Inv_len1 _ _ _ HI)).
  rewrite (cstatic_sound _ _ _ _ HS (Inv_len2 _ _ _ HI)).
  split; [reflexivity|assumption].
Qed.

Lemma acond_sim c : forall d d' s1 s2,
  acond ar c d = Some d' -> Inv d s1 s2 -> rrel d' (ceval F ar c s1) (ceval F ar c s2).
Proof.
  induction c as [e|n|f op n|a IHa b0 IHb|a IHa b0 IHb|a IHa]; intros d d' s1 s2 HA HI;
    rewrite acond_eq in HA.
  - simpl in HA. simpl. eapply rrel_bind; [eapply eval_sim; eassumption|].
    intros v t1 t2 HI1. rewrite (Inv_clk _ _ _ HI1). split; [reflexivity|]. apply Inv_tick. assumption.
  - destruct (cstatic ar (CLenGt n) d) eqn:E; [|discriminate]. inversion HA; subst.
    eapply static_rrel; eassumption.
  - destruct (cstatic ar (CArityCmp f op n) d) eqn:E; inversion HA; subst.
    + eapply static_rrel; eassumption.
    + simpl in E. discriminate.
  - destruct (cstatic ar (CAnd a b0) d) eqn:E.
    + inversion HA; subst. eapply static_rrel; eassumption.
    + unfold obind in HA. destruct (acond ar a d) as [d1|] eqn:E1; [|discriminate].
      destruct (acond ar b0 d1) as [d2|] eqn:E2; [|discriminate]. inversion HA; subst d'; clear HA.
      simpl. eapply rrel_bind; [eapply IHa; eassumption|].
      intros x t1 t2 HI1. destruct x.
      * eapply rrel_weaken; [eapply IHb; eassumption|apply cr_min_r].
      * split; [reflexivity|]. eapply Inv_weaken; [eassumption|apply cr_min_l].
  - destruct (cstatic ar (COr a b0) d) eqn:E.
    + inversion HA; subst. eapply static_rrel; eassumption.
    + unfold obind in HA. destruct (acond ar a d) as [d1|] eqn:E1; [|discriminate].
      destruct (acond ar b0 d1) as [d2|] eqn:E2; [|discriminate]. inversion HA; subst d'; clear HA.
      simpl. eapply rrel_bind; [eapply IHa; eassumption|].
      intros x t1 t2 HI1. destruct x.
      * split; [reflexivity|]. eapply Inv_weaken; [eassumption|apply cr_min_l].
      * eapply rrel_weaken; [eapply IHb; eassumption|apply cr_min_r].
  - destruct (cstatic ar (CNot a) d) eqn:E.
    + inversion HA; subst. eapply static_rrel; eassumption.
    + simpl. eapply rrel_bind; [eapply IHa; eassumption|].
      intros x t1 t2 HI1. split; [reflexivity|assumption].
Qed.

Lemma cr_leb_le a b : cr_leb a b = true -> cr_le a b.
Proof.
  unfold cr_leb, cr_le. intro H. apply andb_true_iff in H as [H1 H2].
  apply Nat.leb_le in H1. apply Nat.leb_le in H2. split; assumption.
Qed.

Lemma exec_sim fuel : forall t d d' s1 s2,
  astmt ar t d = Some d' -> Inv d s1 s2 ->
  rrel d' (exec F ar fuel t s1) (exec F ar fuel t s2).
Proof.
  induction fuel as [|fu IH]; intros t d d' s1 s2 HA HI; [exact I|].
  destruct t as [|a b|e|x e|xs e|e|e| | |c a b|c b|m]; simpl in HA; simpl exec.
  - (* SSkip *) inversion HA; subst. split; [reflexivity|assumption].
  - (* SSeq *) unfold obind in HA. destruct (astmt ar a d) as [d1|] eqn:E1; [|discriminate].
    eapply rrel_bind; [eapply IH; eassumption|].
    intros _ t1 t2 HI1. eapply IH; eassumption.
  - (* SEval *) eapply rrel_bind; [eapply eval_sim; eassumption|].
    intros v t1 t2 HI1. split; [reflexivity|assumption].
  - (* SAssign *) eapply rrel_bind; [eapply eval_sim; eassumption|].
    intros v t1 t2 [HM [HX [He Hc]]]. split; [reflexivity|].
    unfold Inv; simpl. repeat split; try assumption. rewrite He. reflexivity.
  - (* SUnpack *) eapply rrel_bind; [eapply eval_sim; eassumption|].
    intros v t1 t2 HI1. rewrite (Inv_clk _ _ _ HI1).
    destruct (o_raise F (clk t2)).
    + apply Inv_tick. eapply Inv_zero; eassumption.
    + destruct HI1 as [HM [HX [He Hc]]]. split; [reflexivity|].
      unfold Inv; simpl. repeat split; try assumption. rewrite He. reflexivity.
  - (* SPush *) unfold obind in HA. destruct (aexpr ar e d) as [d1|] eqn:E1; [|discriminate].
    inversion HA; subst d'; clear HA.
    eapply rrel_bind; [eapply eval_sim; eassumption|].
    intros v t1 t2 [[sm [H1 [H2 H3]]] [HX [He Hc]]]. split; [reflexivity|].
    unfold Inv, set; simpl. split.
    + exists (v :: sm). rewrite H1, H2. simpl. repeat split. lia.
    + split; [assumption|]. split; assumption.
  - (* SExtend *) eapply rrel_bind; [eapply eval_sim; eassumption|].
    intros v t1 t2 HI1. rewrite (Inv_clk _ _ _ HI1).
    destruct (o_raise F (clk t2)).
    + apply Inv_tick. eapply Inv_zero; eassumption.
    + destruct HI1 as [[sm [H1 [H2 H3]]] [HX [He Hc]]]. split; [reflexivity|].
      unfold Inv, set; simpl. split.
      * exists (rev (o_items F (clk t2) v) ++ sm). rewrite H1, H2, <- !app_assoc.
        repeat split. rewrite app_length. lia.
      * split; [assumption|]. split; [assumption|reflexivity].
  - (* SCopyAux *) inversion HA; subst d'; clear HA.
    destruct HI as [[sm [H1 [H2 H3]]] [HX [He Hc]]]. split; [reflexivity|].
    unfold Inv, set; simpl. split; [exists sm; repeat split; assumption|].
    split; [exists sm, p, p'; repeat split; assumption|]. split; assumption.
  - (* SRaise *) inversion HA; subst. eapply Inv_zero; eassumption.
  - (* SIf *) destruct (cstatic ar c d) as [[|]|] eqn:ES.
    + rewrite (cstatic_sound _ _ _ _ ES (Inv_len1 _ _ _ HI)).
      rewrite (cstatic_sound _ _ _ _ ES (Inv_len2 _ _ _ HI)). simpl. eapply IH; eassumption.
    + rewrite (cstatic_sound _ _ _ _ ES (Inv_len1 _ _ _ HI)).
      rewrite (cstatic_sound _ _ _ _ ES (Inv_len2 _ _ _ HI)). simpl. eapply IH; eassumption.
    + unfold obind in HA. destruct (acond ar c d) as [d1|] eqn:E1; [|discriminate].
      destruct (astmt ar a d1) as [da|] eqn:E2; [|discriminate].
      destruct (astmt ar b d1) as [db|] eqn:E3; [|discriminate].
      inversion HA; subst d'; clear HA.
      eapply rrel_bind; [eapply acond_sim; eassumption|].
      intros x t1 t2 HI1. destruct x.
      * eapply rrel_weaken; [eapply IH; eassumption|apply cr_min_l].
      * eapply rrel_weaken; [eapply IH; eassumption|apply cr_min_r].
  - (* SWhile *)
    unfold obind in HA. destruct (acond ar c d) as [d1|] eqn:E1; [|discriminate].
    destruct (astmt ar b d1) as [d2|] eqn:E2; [|discriminate].
    destruct (cr_leb d d2) eqn:EL; [|discriminate]. inversion HA; subst d'; clear HA.
    eapply rrel_bind; [eapply acond_sim; eassumption|].
    intros x t1 t2 HI1. destruct x.
    + eapply rrel_bind; [eapply IH; eassumption|].
      intros _ u1 u2 HI2. eapply (IH (SWhile c b) d).
      * simpl. rewrite E1. simpl. rewrite E2. simpl. rewrite EL. reflexivity.
      * eapply Inv_weaken; [eassumption|apply cr_leb_le; assumption].
    + split; [reflexivity|assumption].
  - (* SOpaque *) destruct m; [discriminate|]. inversion HA; subst d'; clear HA.
    rewrite (Inv_clk _ _ _ HI).
    assert (HI2 : Inv d
      {| stk := stk (tick (tick s1)); aux := aux (tick (tick s1));
         env := o_env F (clk s2) (env (tick (tick s1))); clk := clk (tick (tick s1)) |}
      {| stk := stk (tick (tick s2)); aux := aux (tick (tick s2));
         env := o_env F (clk s2) (env (tick (tick s2))); clk := clk (tick (tick s2)) |}).
    { destruct HI as [HM [HX [He Hc]]]. unfold Inv; simpl. repeat split; try assumption.
      - rewrite He. reflexivity.
      - rewrite Hc. reflexivity. }
    destruct (o_raise F (clk s2)).
    + eapply Inv_zero; eassumption.
    + split; [reflexivity|assumption].
Qed.

End Sound.

(* ---------------------------------------------------------------- the two soundness theorems *)

Section Theorems.
Variable value : Type.

Lemma init_Inv (F : oracle value) (prefix prefix' args : list value) k :
  length args = k ->
  Inv value (rev prefix) (rev prefix') (k, 0) (init_st F (prefix ++ args)) (init_st F (prefix' ++ args)).
Proof.
  intro L. unfold Inv, init_st; simpl. split.
  - exists (rev args). rewrite !rev_app_distr. repeat split. rewrite rev_length. lia.
  - split; [exists [], [], []; repeat split; simpl; lia|]. split; reflexivity.
Qed.

Lemma Inv_stacks (pp pp' : list value) d (s1 s2 : st value) :
  Inv value pp pp' d s1 s2 ->
  exists res, rev (stk s1) = rev pp ++ res /\ rev (stk s2) = rev pp' ++ res.
Proof.
  intros [[sm [H1 [H2 _]]] _]. exists (rev sm). rewrite H1, H2, !rev_app_distr. split; reflexivity.
Qed.

(* locality: the template behaves identically on any two stacks that share their top k
   entries -- it terminates in the same way, leaves both lower parts literally in place,
   and puts the same entries above them, whatever the uninterpreted functions do *)
Theorem frame_local : forall (F : oracle value) ar fuel t k prefix prefix' args,
  frame_ok ar t k = true -> length args = k ->
  match run_tmpl F ar fuel t (prefix ++ args), run_tmpl F ar fuel t (prefix' ++ args) with
  | Some r1, Some r2 => exists res, r1 = prefix ++ res /\ r2 = prefix' ++ res
  | None, None => True
  | _, _ => False
  end.
Proof.
  intros F ar fuel t k prefix prefix' args HF HL.
  unfold frame_ok in HF. destruct (astmt ar t (k, 0)) as [d'|] eqn:EA; [|discriminate].
  pose proof (exec_sim value F ar (rev prefix) (rev prefix') fuel t (k, 0) d' _ _ EA
                (init_Inv F prefix prefix' args k HL)) as HS.
  unfold run_tmpl.
  destruct (exec F ar fuel t (init_st F (prefix ++ args))) as [u1 t1|t1|];
    destruct (exec F ar fuel t (init_st F (prefix' ++ args))) as [u2 t2|t2|]; simpl in HS; try tauto.
  - destruct HS as [_ HI]. destruct (Inv_stacks _ _ _ _ _ HI) as [res [R1 R2]].
    exists res. rewrite R1, R2, !rev_involutive. split; reflexivity.
  - destruct (Inv_stacks _ _ _ _ _ HS) as [res [R1 R2]].
    exists res. rewrite R1, R2, !rev_involutive. split; reflexivity.
Qed.

(* the frame: everything below the top k entries is literally unchanged *)
Theorem frame_sound : forall (F : oracle value) ar fuel t k prefix args s',
  frame_ok ar t k = true -> length args = k ->
  run_tmpl F ar fuel t (prefix ++ args) = Some s' ->
  exists res, s' = prefix ++ res.
Proof.
  intros F ar fuel t k prefix args s' HF HL HR.
  pose proof (frame_local F ar fuel t k prefix prefix args HF HL) as H.
  rewrite HR in H. destruct H as [res [H _]]. exists res. exact H.
Qed.

End Theorems.

(* ---------------------------------------------------------------- the table *)

Lemma table_ok :
  stack_templates_ok = true /\
  arities_in_range element_templates = true /\
  forallb (inst_ok c09_known) (all_instances element_templates modifier_templates) = true.
Proof. vm_compute. repeat split; reflexivity. Qed.

Lemma table_forall : forall i, In i (all_instances element_templates modifier_templates) ->
  inst_ok c09_known i = true.
Proof. apply forallb_forall. apply table_ok. Qed.

(* every modifier applied to elements of the table is one of the swept instances *)
Lemma in_arity_range n : existsb (Nat.eqb n) arity_range = true -> In n arity_range.
Proof.
  intro H. apply existsb_exists in H as [x [Hx E]]. apply Nat.eqb_eq in E. subst. exact Hx.
Qed.

Lemma instances_cover : forall m a b,
  In m modifier_templates -> In a element_templates -> In b element_templates ->
  In (inst_of_mod m (t_arity a, t_arity b)) (all_instances element_templates modifier_templates).
Proof.
  intros m a b Hm Ha Hb. unfold all_instances. apply in_or_app. right.
  apply in_flat_map. exists m. split; [assumption|]. apply in_map.
  destruct table_ok as [_ [HR _]]. unfold arities_in_range in HR.
  rewrite forallb_forall in HR.
  unfold arity_pairs. apply in_prod; apply in_arity_range; apply HR; assumption.
Qed.

(* the theorem a user of the table gets: an instance that is neither documented as a
   whole-stack operation nor a recorded finding keeps every lower entry in place *)
Lemma table_frame : forall (value : Type) (F : oracle value) i fuel prefix args s',
  In i (all_instances element_templates modifier_templates) ->
  whole_stack_listed i = false ->
  (negb (i_modifier i) && mem_str (i_key i) c09_known) = false ->
  length args = i_k i ->
  run_tmpl F (i_ar i) fuel (i_tmpl i) (prefix ++ args) = Some s' ->
  exists res, s' = prefix ++ res.
Proof.
  intros value F i fuel prefix args s' Hin HW HK HL HR.
  pose proof (table_forall i Hin) as H. unfold inst_ok in H. rewrite HW, HK in H. simpl in H.
  eapply frame_sound; eassumption.
Qed.

(* ---------------------------------------------------------------- non-vacuity and refutations *)

Module Examples.

(* values are numbers; an oracle that never raises and numbers everything it makes *)
Definition F0 : oracle nat :=
  {| o_const := fun c _ => 1000 + c; o_app := fun c f a => 2000 + a; o_raise := fun _ => false;
     o_list := fun c l => 3000 + length l; o_items := fun c v => [v + 1; v + 2];
     o_truth := fun c v => Nat.even v; o_count := fun c v => v; o_nat := fun c n => n;
     o_input := fun c => 7; o_retain := fun _ => false; o_reverse := fun _ => false;
     o_read := fun c _ l => hd 0 (tl (rev l)); o_clobber := fun c l => l; o_env := fun c f => f |}.

(* `$` swap: rhs, lhs = pop(stack, 2, ctx); stack.append(rhs); stack.append(lhs) *)
Definition swap : stmt :=
  SSeq (SUnpack [0; 1] (EPop Main (CConst 2))) (SSeq (SPush (EVar 0)) (SPush (EVar 1))).

Example swap_frame_ok : frame_ok [] swap 2 = true.
Proof. reflexivity. Qed.

Example swap_runs : run_tmpl F0 [] 10 swap [41; 42; 5; 6] = Some [41; 42; 3003; 3004].
Proof. vm_compute. reflexivity. Qed.

(* the same template judged against arity 1 is rejected ... *)
Example swap_needs_two : frame_ok [] swap 1 = false.
Proof. reflexivity. Qed.

(* ... and a swap that pops three is rejected at arity 2, with a run that changes a lower entry *)
Definition swap3 : stmt :=
  SSeq (SUnpack [0; 1; 2] (EPop Main (CConst 3)))
       (SSeq (SPush (EVar 0)) (SSeq (SPush (EVar 1)) (SPush (EVar 2)))).

Example swap3_rejected : frame_ok [] swap3 2 = false.
Proof. reflexivity. Qed.

Example swap3_breaks_frame : exists s', run_tmpl F0 [] 10 swap3 [41; 42; 5; 6] = Some s' /\
  ~ exists res, s' = [41; 42] ++ res.
Proof.
  eexists. split; [vm_compute; reflexivity|]. intros [res H]. discriminate H.
Qed.

(* the undocumented `¨ẇ` (as of the pinned tree):
   stack.append(wrapify(stack, pop(stack, 1, ctx), ctx)[::-1]) -- the model refutes the frame *)
Definition wrap_n : stmt :=
  SPush (EApp (EApp (EConst []) (EWrapDyn Main (EPop Main (CConst 1)))) (EConst [])).

Example wrap_n_rejected : frame_ok [] wrap_n 1 = false.
Proof. reflexivity. Qed.

Example wrap_n_refuted : exists s', run_tmpl F0 [] 10 wrap_n [41; 42; 2] = Some s' /\
  ~ exists res, s' = [41; 42] ++ res.
Proof.
  eexists. split; [vm_compute; reflexivity|]. intros [res H]. discriminate H.
Qed.

(* a modifier: `v` with an operand of arity 2 *)
Definition vectorise_mod : stmt :=
  SSeq (SAssign 0 (EWrap Main (CArity 0))) (SPush (EApp (EConst []) (EVar 0))).

Example vectorise_frame_ok : frame_ok [2] vectorise_mod 2 = true /\ frame_ok [3] vectorise_mod 2 = false.
Proof. split; reflexivity. Qed.

(* parallel apply `₌`: the copy is popped independently of the stack *)
Definition parallel : stmt :=
  SSeq SCopyAux (SSeq (SAssign 1 (EWrap Aux (CArity 0))) (SSeq (SAssign 2 (EWrap Main (CArity 1)))
  (SSeq (SPush (EApp (EConst []) (EVar 1))) (SPush (EApp (EConst []) (EVar 2)))))).

Example parallel_frame_ok : frame_ok [2; 1] parallel 2 = true /\ frame_ok [2; 1] parallel 1 = false.
Proof. split; reflexivity. Qed.

(* `R`: the guard `len(stack) > 1` is decided by the two credited entries *)
Definition reduce_tmpl : stmt :=
  SIf (CAnd (CLenGt 1) (CExpr (EApp (EPeek 0) (EPeek 1))))
      (SSeq (SUnpack [0; 1] (EPop Main (CConst 2))) (SPush (EApp (EVar 1) (EVar 0))))
      (SPush (EApp (EConst []) (EPop Main (CConst 1)))).

Example reduce_frame_ok : frame_ok [] reduce_tmpl 2 = true /\ frame_ok [] reduce_tmpl 1 = false.
Proof. split; reflexivity. Qed.

(* whole-stack primitives and unrecognised code are rejected at every arity *)
Example whole_stack_rejected :
  frame_ok [] (SPush (ELen Main)) 3 = false /\
  frame_ok [] (SExtend (EWrap Main (CLen Main))) 3 = false /\
  frame_ok [] (SEval EFunCall) 3 = false /\
  frame_ok [] (SOpaque true) 3 = false /\
  frame_ok [] (SPush EBad) 3 = false /\
  frame_ok [] (SOpaque false) 0 = true.
Proof. repeat split; reflexivity. Qed.

(* frame_local / frame_sound instantiated: hypotheses are satisfiable and the conclusion is the run above *)
Example frame_sound_instance : exists res, [41; 42; 3003; 3004] = [41; 42] ++ res.
Proof.
  exact (frame_sound nat F0 [] 10 swap 2 [41; 42] [5; 6] _ swap_frame_ok eq_refl swap_runs).
Qed.

(* the table is not trivially satisfied: most rows are proved, few are exempt *)
Example table_counts :
  length (filter inst_frame_ok (all_instances element_templates modifier_templates)) >= 500 /\
  length (filter whole_stack_listed (map inst_of_elem element_templates)) <= 8.
Proof. vm_compute. split; lia. Qed.

End Examples.
