(* C11 on the state of the C01 evaluators (Model/Values.v): the input functions that Machine.v and RefSem.v
   share deliver the cyclic stream -- the same statement as C11_top / C11_inner of Model/Input.v, proved for
   the richer model, so that the two hand-written models of helpers.get_input / helpers.pop cannot drift apart. *)
From Coq Require Import List ZArith Bool Arith Lia.
From Vy Require Import Model.Base Model.Values.
Import ListNotations.
Open Scope nat_scope.

(* a read history at one nesting level: true = the element `?` (explicit), false = a pop from the empty stack *)
Definition read1 (explicit : bool) (s : state) : state * value :=
  if explicit then get_top s else pop1 s.

Fixpoint reads (h : list bool) (s : state) : state * list value :=
  match h with
  | [] => (s, [])
  | e :: r => let (s1, v) := read1 e s in let (s2, vs) := reads r s1 in (s2, v :: vs)
  end.

Definition cyc (ins : list value) (c k : nat) : list value :=
  map (fun i => nth ((c + i) mod length ins) ins (VInt 0)) (seq 0 k).

Lemma cyc_S ins c k : cyc ins c (S k) = nth (c mod length ins) ins (VInt 0) :: cyc ins (S c) k.
Proof.
  unfold cyc. simpl. rewrite Nat.add_0_r. f_equal.
  rewrite <- seq_shift, map_map. apply map_ext. intro i. f_equal. f_equal. lia.
Qed.

(* top level (no function scope), stack kept empty: every read, explicit or implicit, takes the next input *)
Lemma top_reads h : forall s ins c,
  inner s = [] -> stk s = [] -> top_in s = (ins, c) -> ins <> [] ->
  let (s', vs) := reads h s in
  vs = cyc ins c (length h) /\ inner s' = [] /\ stk s' = [] /\ top_in s' = (ins, c + length h).
Proof.
  induction h as [|e r IH]; intros s ins c Hi Hs Ht Hne; simpl.
  - rewrite Nat.add_0_r. auto.
  - assert (R : read1 e s = (set_top_in s (ins, S c), nth (c mod length ins) ins (VInt 0))).
    { unfold read1, pop1, get_input. rewrite Hs, Hi. destruct e; unfold get_top; rewrite Ht; simpl;
        (destruct ins as [|x xs]; [congruence|reflexivity]). }
    rewrite R.
    specialize (IH (set_top_in s (ins, S c)) ins (S c)).
    destruct (reads r (set_top_in s (ins, S c))) as [s2 vs].
    destruct IH as (A & B & C & D); auto.
    rewrite cyc_S. subst vs. repeat split; auto. rewrite D. f_equal. lia.
Qed.

(* with no inputs every read yields 0 *)
Lemma top_reads_empty h : forall s c,
  inner s = [] -> stk s = [] -> top_in s = ([], c) ->
  let (s', vs) := reads h s in vs = repeat (VInt 0) (length h) /\ s' = s.
Proof.
  induction h as [|e r IH]; intros s c Hi Hs Ht; simpl; auto.
  assert (R : read1 e s = (s, VInt 0)).
  { unfold read1, pop1, get_input. rewrite Hs, Hi. destruct e; unfold get_top; rewrite Ht; reflexivity. }
  rewrite R. specialize (IH s c Hi Hs Ht). destruct (reads r s) as [s2 vs]. destruct IH as [A B]. subst. auto.
Qed.

(* inside a call (innermost scope = the call's arguments): implicit reads cycle over the arguments, explicit
   reads take the program's inputs, and neither disturbs the other's cursor *)
Definition count_b (b : bool) (h : list bool) : nat := length (filter (Bool.eqb b) h).

Fixpoint expected (h : list bool) (args : list value) (ca : nat) (ins : list value) (ci : nat) : list value :=
  match h with
  | [] => []
  | true :: r => nth (ci mod length ins) ins (VInt 0) :: expected r args ca ins (S ci)
  | false :: r => nth (ca mod length args) args (VInt 0) :: expected r args (S ca) ins ci
  end.

Lemma inner_reads h : forall s args ca rest ins ci,
  inner s = (args, ca) :: rest -> stk s = [] -> top_in s = (ins, ci) -> args <> [] -> ins <> [] ->
  let (s', vs) := reads h s in
  vs = expected h args ca ins ci /\
  inner s' = (args, ca + count_b false h) :: rest /\ stk s' = [] /\ top_in s' = (ins, ci + count_b true h).
Proof.
  induction h as [|e r IH]; intros s args ca rest ins ci Hi Hs Ht Ha Hn; simpl.
  - rewrite !Nat.add_0_r. auto.
  - destruct e.
    + assert (R : read1 true s = (set_top_in s (ins, S ci), nth (ci mod length ins) ins (VInt 0))).
      { unfold read1, get_top. rewrite Ht. simpl. destruct ins; [congruence|reflexivity]. }
      rewrite R. specialize (IH (set_top_in s (ins, S ci)) args ca rest ins (S ci)).
      destruct (reads r (set_top_in s (ins, S ci))) as [s2 vs].
      destruct IH as (A & B & C & D); auto. subst vs. unfold count_b in *. simpl.
      repeat split; auto. rewrite D. f_equal. lia.
    + assert (R : read1 false s = (set_inner s ((args, S ca) :: rest), nth (ca mod length args) args (VInt 0))).
      { unfold read1, pop1, get_input. rewrite Hs, Hi. simpl. destruct args; [congruence|reflexivity]. }
      rewrite R. specialize (IH (set_inner s ((args, S ca) :: rest)) args (S ca) rest ins ci).
      destruct (reads r (set_inner s ((args, S ca) :: rest))) as [s2 vs].
      destruct IH as (A & B & C & D); auto. subst vs. unfold count_b in *. simpl.
      repeat split; auto. rewrite B. f_equal. f_equal. lia.
Qed.

(* non-vacuity: three inputs, five reads of both kinds at top level *)
Example top_reads_example :
  snd (reads [false; true; false; false; true]
         (mkSt [] [] ([VInt 7; VInt 8; VInt 9], 0) [] [] 0 (VInt 0) [] [] [] None [] false))
  = [VInt 7; VInt 8; VInt 9; VInt 7; VInt 8].
Proof. reflexivity. Qed.
