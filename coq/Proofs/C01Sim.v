(* C01, part 2: the simulation.  For every construct of the core grammar the emitted code
   (Model/Machine.v) and the documented semantics (Model/RefSem.v) take a state to the same
   outcome; one lemma per construct, then induction on the fuel. *)
From Coq Require Import List NArith ZArith Bool Lia.
From Vy Require Import Model.Base Model.Lexer Model.Parser Model.Transpile Gen.ParserConsts
  Model.Values Model.Machine Model.RefSem Proofs.C01Frames.
Import ListNotations.

Lemma xbind_ext {A B} (r : xres A) (f g : A -> xres B) :
  (forall a, r = XOk a -> f a = g a) -> xbind r f = xbind r g.
Proof. destruct r; simpl; auto. Qed.

(* ---- the shared element / modifier semantics only depend on the calls pointwise ------------------------- *)
Section Ext.
  Variable cf : cfg.
  Variables app1 app2 : app_t.
  Variables cs1 cs2 : callstk_t.
  Hypothesis Happ : forall c args s, app1 c args s = app2 c args s.
  Hypothesis Hcs : forall c s, cs1 c s = cs2 c s.

  Lemma lazy_app_ext c args s : lazy_app app1 c args s = lazy_app app2 c args s.
  Proof. unfold lazy_app. destruct (lazy_ok c args); auto. Qed.

  Lemma map_app_ext c mk items : forall s, map_app app1 c mk items s = map_app app2 c mk items s.
  Proof.
    induction items as [|x r IH]; intro s; simpl; [reflexivity|].
    rewrite lazy_app_ext. apply xbind_ext. intros [y s1] _. rewrite IH. reflexivity.
  Qed.

  Lemma filter_app_ext c items : forall s, filter_app app1 c items s = filter_app app2 c items s.
  Proof.
    induction items as [|x r IH]; intro s; simpl; [reflexivity|].
    rewrite lazy_app_ext. apply xbind_ext. intros [y s1] _. apply xbind_ext. intros b _. rewrite IH. reflexivity.
  Qed.

  Lemma fold_app_ext c items : forall acc s, fold_app app1 c acc items s = fold_app app2 c acc items s.
  Proof.
    induction items as [|x r IH]; intros acc s; simpl; [reflexivity|].
    rewrite Happ. apply xbind_ext. intros [y s1] _. apply IH.
  Qed.

  Lemma key_app_ext c items : forall s, key_app app1 c items s = key_app app2 c items s.
  Proof.
    induction items as [|x r IH]; intro s; simpl; [reflexivity|].
    rewrite Happ. apply xbind_ext. intros [k s1] _. destruct k; try reflexivity. rewrite IH. reflexivity.
  Qed.

  Lemma scan_app_ext c items : forall acc s, scan_app app1 c acc items s = scan_app app2 c acc items s.
  Proof.
    induction items as [|x r IH]; intros acc s; simpl; [reflexivity|].
    rewrite lazy_app_ext. apply xbind_ext. intros [y s1] _. rewrite IH. reflexivity.
  Qed.

  Lemma elem_call_ext k s : elem_call cf app1 cs1 k s = elem_call cf app2 cs2 k s.
  Proof.
    unfold elem_call.
    repeat match goal with |- context [if ?b then _ else _] => destruct b end; try reflexivity.
    - destruct (pop1 s) as [s1 rhs]. destruct (pop1 s1) as [s2 lhs].
      destruct lhs, rhs; try reflexivity; apply xbind_ext; intros items _; rewrite map_app_ext; reflexivity.
    - destruct (pop1 s) as [s1 rhs]. destruct (pop1 s1) as [s2 lhs].
      destruct lhs, rhs; try reflexivity; apply xbind_ext; intros items _; rewrite filter_app_ext; reflexivity.
    - destruct (pop1 s) as [s1 rhs]. destruct (pop1 s1) as [s2 lhs].
      destruct lhs, rhs; try reflexivity; apply xbind_ext; intros items _; rewrite key_app_ext; reflexivity.
    - destruct (pop1 s) as [s1 top]. destruct top; try reflexivity. apply Hcs.
  Qed.

  Lemma elem_sem_ext k s : elem_sem cf app1 cs1 k s = elem_sem cf app2 cs2 k s.
  Proof. unfold elem_sem. destruct (mem k call_keys); [apply elem_call_ext|reflexivity]. Qed.

  Lemma mod1_sem_ext m fA s : mod1_sem cf app1 cs1 m fA s = mod1_sem cf app2 cs2 m fA s.
  Proof.
    unfold mod1_sem.
    repeat match goal with |- context [if (?a =? ?b)%N then _ else _] => destruct (a =? b)%N end; try reflexivity.
    - destruct (arity_nat (c_arity fA)) as [|[|[|k]]]; try reflexivity.
      + destruct (pop1 s) as [s1 x]. apply xbind_ext. intros items _. rewrite map_app_ext. reflexivity.
      + destruct (pop1 s) as [s1 rhs]. destruct (pop1 s1) as [s2 lhs].
        destruct lhs, rhs; try reflexivity; try (rewrite map_app_ext; reflexivity).
        apply xbind_ext. intros items _. rewrite map_app_ext. reflexivity.
    - destruct (popn _ (push (reg s) s)) as [s1 popped]. rewrite Happ. reflexivity.
    - destruct (arity_nat (c_arity fA)) as [|[|k]]; try reflexivity.
      + destruct (pop1 s) as [s1 x]. apply xbind_ext. intros items _. rewrite filter_app_ext. reflexivity.
      + destruct (popn (S (S k)) s) as [s1 popped]. rewrite Happ. reflexivity.
    - destruct (pop1 s) as [s1 c]. apply xbind_ext. intros b _. destruct b; [apply Hcs|reflexivity].
    - destruct (pop1 s) as [s1 x]. apply xbind_ext. intros items _. destruct items; [reflexivity|].
      rewrite fold_app_ext. reflexivity.
    - destruct (pop1 s) as [s1 x]. apply xbind_ext. intros items _. destruct items; [reflexivity|].
      rewrite scan_app_ext. reflexivity.
  Qed.

  Lemma mod2_sem_ext m fA fB s : mod2_sem app1 m fA fB s = mod2_sem app2 m fA fB s.
  Proof.
    unfold mod2_sem.
    destruct (popn (arity_nat (c_arity fA)) s) as [s1 pa].
    destruct (popn (arity_nat (c_arity fB)) (set_stk s1 (stk s))) as [s2 pb].
    rewrite Happ. apply xbind_ext. intros [ra s3] _. rewrite Happ. reflexivity.
  Qed.
End Ext.

(* ---- states ------------------------------------------------------------------------------------------------------ *)
Lemma state_eta s :
  s = mkSt (stk s) (ctxv s) (top_in s) (inner s) (fdepth s) (sdepth s) (reg s) (vars s) (locs s) (out s) (printed s).
Proof. destruct s; reflexivity. Qed.

Ltac st_simpl :=
  unfold set_stk, set_ctxv, set_top_in, set_inner, set_fdepth, set_sdepth, set_reg, set_vars, set_locs, emit, push, scope in *;
  cbn [stk ctxv top_in inner fdepth sdepth reg vars locs out printed] in *.

Lemma state_ext a b :
  stk a = stk b -> ctxv a = ctxv b -> top_in a = top_in b -> inner a = inner b -> fdepth a = fdepth b ->
  sdepth a = sdepth b -> reg a = reg b -> vars a = vars b -> locs a = locs b -> out a = out b ->
  printed a = printed b -> a = b.
Proof. destruct a, b; simpl; intros; subst; reflexivity. Qed.

Lemma set_stk_same' s :
  mkSt (stk s) (ctxv s) (top_in s) (inner s) (fdepth s) (sdepth s) (reg s) (vars s) (locs s) (out s) (printed s) = s.
Proof. destruct s; reflexivity. Qed.

Section Sim.
  Variable cf : cfg.
  Variable mrec : rec_t.
  Variable mwl : bool -> value -> list struct -> list struct -> state -> xres state.
  Variable rrec : list struct -> state -> xres state.
  Variable rwl : value -> list struct -> list struct -> state -> xres state.
  Hypothesis Hrec : forall indef p s, core_ok_list indef p = true -> mrec indef p s = rrec p s.
  Hypothesis Hwl : forall indef v c b s,
    core_ok_list indef c = true -> core_ok_list indef b = true -> mwl indef v c b s = rwl v c b s.
  Hypothesis Hfr : forall p s, keeps (rrec p s) s.

  (* ---- lambdas ---------------------------------------------------------------------------------------------------- *)
  Lemma lambda_sim c popped s :
    core_ok_list true (c_body c) = true -> m_lambda_body mrec c popped s = r_lambda rrec c popped s.
  Proof.
    intro Hc.
    unfold m_lambda_body, r_lambda, with_stack, with_locals, with_function, with_context, with_scope, with_registered, bracket.
    match goal with |- xbind (mrec true _ ?A) _ = _ => set (S0 := A) end.
    match goal with |- context [rrec (c_body c) ?B] => replace B with S0 by (apply state_ext; reflexivity) end.
    rewrite (Hrec true _ _ Hc).
    pose proof (Hfr (c_body c) S0) as K. destruct (rrec (c_body c) S0) as [s1| |]; simpl; try reflexivity.
    destruct (pop1 s1) as [s2 r] eqn:E. apply pop1_frames in E. simpl.
    pose proof (frames_trans _ _ _ K E) as F. clear K E.
    destruct F as (F1 & F2 & F3 & F4). subst S0. simpl in F1, F2, F3, F4.
    destruct (inner s2) as [|[l c2] r2] eqn:EI; [contradiction|]. destruct F4 as [_ F4]. subst r2.
    unfold m_ctx_pop. rewrite F1. simpl.
    unfold m_inputs_pop. simpl. rewrite EI. simpl.
    unfold m_stacks_pop. simpl. rewrite F3. simpl.
    unfold m_fstack_pop. simpl. rewrite F2. simpl.
    repeat f_equal; try (apply state_ext; reflexivity).
  Qed.

  (* ---- named functions ------------------------------------------------------------------------------------------ *)
  Lemma m_params_eq ps : forall acc loc s,
    m_params ps acc loc s =
    xdo (s', l, lc) <- r_params ps s;
    XOk (s', acc ++ l, fold_left (fun a kv => assign (fst kv) (snd kv) a) lc loc).
  Proof.
    induction ps as [|[n|x|] r IH]; intros acc loc s; simpl.
    - rewrite app_nil_r. reflexivity.
    - destruct (popn n s) as [s1 popped]. rewrite IH. destruct (r_params r s1) as [[[s2 more] lc]| |]; simpl; try reflexivity.
      rewrite app_assoc. reflexivity.
    - destruct (pop1 s) as [s1 v]. rewrite IH. destruct (r_params r s1) as [[[s2 more] lc]| |]; reflexivity.
    - destruct (pop_star s) as [[s1 popped]|]; simpl; try reflexivity.
      rewrite IH. destruct (r_params r s1) as [[[s2 more] lc]| |]; simpl; try reflexivity.
      rewrite app_assoc. reflexivity.
  Qed.

  Lemma named_sim c s :
    core_ok_list true (c_body c) = true -> m_named_body mrec c s = r_named rrec c s.
  Proof.
    intro Hc. unfold m_named_body, r_named, bind_all. rewrite m_params_eq.
    destruct (r_params (c_params c) s) as [[[s1 ps] loc]| |]; simpl; try reflexivity.
    unfold with_stack, with_locals, with_context, with_scope, with_registered, bracket.
    match goal with |- xbind (mrec true _ ?A) _ = _ => set (S0 := A) end.
    match goal with |- context [rrec (c_body c) ?B] => replace B with S0 by (apply state_ext; reflexivity) end.
    rewrite (Hrec true _ _ Hc).
    pose proof (Hfr (c_body c) S0) as K. destruct (rrec (c_body c) S0) as [s2| |]; simpl; try reflexivity.
    destruct K as (F1 & F2 & F3 & F4). subst S0. simpl in F1, F2, F3, F4.
    destruct (inner s2) as [|[l c2] r2] eqn:EI; [contradiction|]. destruct F4 as [_ F4]. subst r2.
    unfold m_ctx_pop. rewrite F1. simpl.
    unfold m_inputs_pop. simpl. rewrite EI. simpl.
    unfold m_stacks_pop. simpl. rewrite F3. simpl.
    repeat f_equal; try (apply state_ext; reflexivity).
  Qed.

  (* ---- the two call protocols -------------------------------------------------------------------------------------- *)
  Lemma app_sim c args s : m_app mrec c args s = r_app rrec c args s.
  Proof.
    unfold m_app, r_app. destruct (core_ok_list true (c_body c)) eqn:Hc; [|reflexivity].
    destruct (c_named c); [|apply lambda_sim; exact Hc].
    rewrite (named_sim c _ Hc). unfold with_stack, bracket.
    destruct (r_named rrec c (set_stk s args)) as [[fs s1]| |]; simpl; try reflexivity.
    destruct fs; reflexivity.
  Qed.

  Lemma callstk_sim c s : m_callstk mrec c s = r_callstk rrec c s.
  Proof.
    unfold m_callstk, r_callstk. destruct (core_ok_list true (c_body c)) eqn:Hc; [|reflexivity].
    destruct (c_named c).
    - rewrite (named_sim c _ Hc). reflexivity.
    - destruct (popn (select_arity c None) s) as [s1 popped]. rewrite (lambda_sim c popped s1 Hc). reflexivity.
  Qed.

  Lemma elem_sim k s : elem_sem cf (m_app mrec) (m_callstk mrec) k s = elem_sem cf (r_app rrec) (r_callstk rrec) k s.
  Proof. apply elem_sem_ext; [apply app_sim|apply callstk_sim]. Qed.

  (* ---- tokens ------------------------------------------------------------------------------------------------------------ *)
  Lemma token_sim indef t s : token_core indef t = true -> m_token cf mrec indef t s = r_token cf rrec t s.
  Proof.
    unfold token_core, m_token, r_token. destruct (tk t); intro H; try discriminate; try reflexivity.
    - destruct (tv t) as [|k [|? ?]]; try reflexivity. apply elem_sim.
    - apply andb_prop in H as [H1 H2]. rewrite H1, H2. reflexivity.
  Qed.

  (* ---- a context value around a body ----------------------------------------------------------------------------------- *)
  Lemma ctx_push_pop v (k : state -> xres state) s :
    keeps (k (m_ctx_push v s)) (m_ctx_push v s) ->
    xbind (k (m_ctx_push v s)) m_ctx_pop = with_context_u v k s.
  Proof.
    unfold with_context_u, m_ctx_push. intro K.
    destruct (k (set_ctxv s (v :: ctxv s))) as [s'| |]; simpl; try reflexivity.
    destruct K as (F1 & _). simpl in F1. unfold m_ctx_pop. rewrite F1. reflexivity.
  Qed.

  (* ---- if ------------------------------------------------------------------------------------------------------------------- *)
  Lemma ifs_sim indef : forall n bs, (length bs <= n)%nat -> forallb (core_ok_list indef) bs = true ->
    forall s, m_ifs (mrec indef) bs false s = r_elif rrec bs s.
  Proof.
    induction n as [|n IH]; intros bs Hlen Hc s.
    - destruct bs; [reflexivity|simpl in Hlen; lia].
    - destruct bs as [|x [|y rest]]; [reflexivity| |].
      + simpl in Hc. rewrite andb_true_r in Hc. cbn [m_ifs r_elif]. apply Hrec. exact Hc.
      + cbn [forallb] in Hc. apply andb_prop in Hc as [Hx Hc]. apply andb_prop in Hc as [Hy Hr].
        cbn [m_ifs r_elif]. rewrite (Hrec indef x s Hx). apply xbind_ext. intros s1 _.
        destruct (pop1 s1) as [s2 v]. apply xbind_ext. intros b _. destruct b.
        * apply Hrec. exact Hy.
        * apply IH; [simpl in Hlen; lia|exact Hr].
  Qed.

  Lemma m_ifs_true2 run x y rest s :
    m_ifs run (x :: y :: rest) true s =
    let (s1, c) := pop1 s in xdo b <- of_opt (truthy c); if b then run x s1 else m_ifs run (y :: rest) false s1.
  Proof. reflexivity. Qed.

  Lemma if_sim indef bs s : forallb (core_ok_list indef) bs = true ->
    m_ifs (mrec indef) bs true s = r_if rrec bs s.
  Proof.
    intro Hc. destruct bs as [|x [|y rest]]; [reflexivity| |].
    - simpl in Hc. rewrite andb_true_r in Hc. cbn [m_ifs r_if r_elif].
      destruct (pop1 s) as [s1 v]. apply xbind_ext. intros b _. destruct b; [apply Hrec; exact Hc|reflexivity].
    - cbn [forallb] in Hc. apply andb_prop in Hc as [Hx Hc].
      rewrite m_ifs_true2. cbn [r_if]. destruct (pop1 s) as [s1 v]. apply xbind_ext. intros b _. destruct b.
      + apply Hrec. exact Hx.
      + apply (ifs_sim indef (length (y :: rest))); [lia|exact Hc].
  Qed.

  (* ---- for ------------------------------------------------------------------------------------------------------------------ *)
  Lemma for_sim indef var body items : core_ok_list indef body = true ->
    forall s, m_for (mrec indef) var body items s = r_for rrec var body items s.
  Proof.
    intro Hc. induction items as [|x r IH]; intro s; [reflexivity|].
    cbn [m_for r_for].
    set (s1 := match var with Some v => set_vars s (assign v x (vars s)) | None => s end).
    rewrite <- (ctx_push_pop x (rrec body) s1) by apply Hfr.
    rewrite (Hrec indef body _ Hc).
    destruct (rrec body (m_ctx_push x s1)) as [s2| |]; simpl; try reflexivity.
    destruct (m_ctx_pop s2); simpl; try reflexivity. apply IH.
  Qed.

  (* ---- list literals -------------------------------------------------------------------------------------------------------- *)
  Lemma set_stk_same s : set_stk s (stk s) = s.
  Proof. destruct s; reflexivity. Qed.

  Lemma items_sim : forall its temp s, forallb (core_ok_list true) its = true ->
    m_items (mrec true) its temp s = xdo (vs, s') <- r_items rrec its s; XOk (temp ++ vs, s').
  Proof.
    induction its as [|x r IH]; intros temp s Hc.
    - simpl. rewrite app_nil_r. reflexivity.
    - cbn [forallb] in Hc. apply andb_prop in Hc as [Hx Hr].
      cbn [m_items r_items]. unfold with_stack, with_locals, bracket. rewrite set_stk_same.
      rewrite (Hrec true x _ Hx). destruct (rrec x (set_locs s [])) as [s1| |]; simpl; try reflexivity.
      destruct (stk s1) as [|v rest]; simpl.
      + rewrite (IH temp _ Hr). unfold set_stk, set_locs; simpl.
        match goal with |- context [r_items rrec r ?S1] => destruct (r_items rrec r S1) as [[vs s2]| |] end; reflexivity.
      + rewrite (IH (temp ++ [v]) _ Hr). unfold set_stk, set_locs; simpl.
        match goal with |- context [r_items rrec r ?S1] => destruct (r_items rrec r S1) as [[vs s2]| |] end; simpl; try reflexivity.
        rewrite <- app_assoc. reflexivity.
  Qed.

  (* ---- one statement --------------------------------------------------------------------------------------------------------- *)
  Lemma step_sim indef x s : core_ok indef x = true -> m_step cf mrec mwl indef x s = r_step cf rrec rwl x s.
  Proof.
    destruct x; cbn [core_ok m_step r_step]; intro Hc; try discriminate.
    - apply token_sim. exact Hc.
    - apply if_sim. exact Hc.
    - apply andb_prop in Hc as [Hn Hb]. destruct names as [|n ?].
      + destruct (pop1 s) as [s1 v]. apply xbind_ext. intros items _. apply for_sim. exact Hb.
      + apply andb_prop in Hn as [Hn1 Hn2]. rewrite Hn1, Hn2. simpl.
        destruct (pop1 s) as [s1 v]. apply xbind_ext. intros items _. apply for_sim. exact Hb.
    - apply andb_prop in Hc as [Hc1 Hc2]. rewrite (Hrec indef cond s Hc1). apply xbind_ext. intros s1 _.
      destruct (pop1 s1) as [s2 v]. apply Hwl; assumption.
    - rewrite Hc. destruct (lookup_var _ s) as [[z|l|c]|]; try reflexivity. apply callstk_sim.
    - apply andb_prop in Hc as [Hc Hb]. apply andb_prop in Hc as [Hc Hp]. apply andb_prop in Hc as [Hi Hn].
      rewrite Hi, Hn. reflexivity.
    - reflexivity.
    - destruct op; try reflexivity; apply elem_sim.
    - rewrite (items_sim items [] s Hc). destruct (r_items rrec items s) as [[vs s1]| |]; reflexivity.
    - apply andb_prop in Hc as [Hm Ha]. rewrite Hm. unfold m_operand, pop1, push. st_simpl.
      rewrite set_stk_same'. apply mod1_sem_ext; [apply app_sim|apply callstk_sim].
    - apply andb_prop in Hc as [Hc Hb]. apply andb_prop in Hc as [Hm Ha]. rewrite Hm.
      unfold m_operand, pop1, push. st_simpl. rewrite !set_stk_same'. apply mod2_sem_ext. apply app_sim.
  Qed.
End Sim.

(* ---- induction on the fuel ------------------------------------------------------------------------------------------------ *)
Lemma seq_sim (st1 st2 : struct -> state -> xres state) indef p :
  (forall x s, core_ok indef x = true -> st1 x s = st2 x s) ->
  core_ok_list indef p = true -> forall s, seq_run st1 p s = seq_run st2 p s.
Proof.
  intro H. induction p as [|x r IH]; intros Hc s; [reflexivity|].
  cbn [core_ok_list forallb] in Hc. apply andb_prop in Hc as [Hx Hr].
  cbn [seq_run]. rewrite (H x s Hx). apply xbind_ext. intros s1 _. apply IH. exact Hr.
Qed.

Lemma sim cf fuel :
  (forall indef p s, core_ok_list indef p = true -> exec cf fuel indef p s = eval cf fuel p s)
  /\ (forall indef v c b s, core_ok_list indef c = true -> core_ok_list indef b = true ->
        mloop cf fuel indef v c b s = rloop cf fuel v c b s).
Proof.
  induction fuel as [|f [IH1 IH2]]; [split; intros; reflexivity|].
  pose proof (proj1 (eval_keeps cf f)) as Hfr.
  split.
  - intros indef p s Hc. cbn [exec eval]. apply (seq_sim _ _ indef); [|exact Hc].
    intros x s0 Hx. apply step_sim; assumption.
  - intros indef v c b s Hc Hb. cbn [mloop rloop]. apply xbind_ext. intros t _. destruct t; [|reflexivity].
    rewrite <- (ctx_push_pop v (eval cf f b) s) by apply Hfr.
    rewrite (IH1 indef b _ Hb).
    destruct (eval cf f b (m_ctx_push v s)) as [s1| |]; simpl; try reflexivity.
    destruct (m_ctx_pop s1) as [s2| |]; simpl; try reflexivity.
    rewrite (IH1 indef c _ Hc). apply xbind_ext. intros s3 _.
    destruct (pop1 s3) as [s4 v']. apply IH2; assumption.
Qed.

(* the code emitted for a core program does what the documented semantics says: same stack,
   same printed text, same variables, register, input cursors and bookkeeping, same error,
   same out-of-fuel, for every fuel, every state and every flag configuration *)
Theorem compile_correct cf fuel p s :
  core_ok_list false p = true -> exec cf fuel false p s = eval cf fuel p s.
Proof. apply (proj1 (sim cf fuel)). Qed.

(* the same inside a def (lambda / function bodies, list items, modifier operands) *)
Theorem compile_correct_indef cf fuel indef p s :
  core_ok_list indef p = true -> exec cf fuel indef p s = eval cf fuel p s.
Proof. apply (proj1 (sim cf fuel)). Qed.

(* whole programs: start-up (flag H), run, implicit output under the flags j s W O o, ranges under M m *)
Lemma finish_ext app1 app2 fl s : (forall c args s, app1 c args s = app2 c args s) -> finish app1 fl s = finish app2 fl s.
Proof.
  intro H. unfold finish. destruct (pop1 s) as [s1 output].
  apply xbind_ext. intros o _.
  match goal with |- (if ?w then _ else _) = _ => destruct w end; [|reflexivity].
  destruct o as [[z|l|c]|t]; try reflexivity.
  destruct (c_named c); [reflexivity|].
  match goal with |- context [popn ?n ?st] => destruct (popn n st) as [s3 popped] end.
  rewrite H. reflexivity.
Qed.

Theorem program_correct fl fuel inputs p :
  core_ok_list false p = true -> run_machine fl fuel inputs p = run_ref fl fuel inputs p.
Proof.
  intro Hc. unfold run_machine, run_ref. rewrite (compile_correct _ _ _ _ Hc).
  apply xbind_ext. intros s _. apply finish_ext. intros c args s0.
  apply app_sim.
  - intros indef q s1 Hq. apply compile_correct_indef. exact Hq.
  - intros q s1. apply (proj1 (eval_keeps (cfg_of fl) fuel)).
Qed.

(* ---- the bookkeeping of the emitted code is balanced (the C12 reading of the same fact) ------------------------------ *)
Corollary exec_frames cf fuel p s s' :
  core_ok_list false p = true -> exec cf fuel false p s = XOk s' -> frames s s'.
Proof. intros Hc H. rewrite (compile_correct _ _ _ _ Hc) in H. eapply eval_frames; eauto. Qed.

(* ---- stated over the core grammar as a whole (Values.core_program adds the static name discipline
   under which the machine's account of Python scoping is faithful) ---------------------------------------- *)
Lemma core_program_core p : core_program p = true -> core_ok_list false p = true.
Proof. unfold core_program. intro H. apply andb_prop in H as [H _]. exact H. Qed.

Theorem compile_correct_program cf fuel p s :
  core_program p = true -> exec cf fuel false p s = eval cf fuel p s.
Proof. intro H. apply compile_correct. apply core_program_core. exact H. Qed.

Theorem program_correct_program fl fuel inputs p :
  core_program p = true -> run_machine fl fuel inputs p = run_ref fl fuel inputs p.
Proof. intro H. apply program_correct. apply core_program_core. exact H. Qed.
