(* C01, part 2: the simulation.  For every construct of the core grammar the emitted code
   (Model/Machine.v) and the documented semantics (Model/RefSem.v) take a state to the same
   outcome; one lemma per construct, then induction on the fuel.
   Early exits: the emitted code pops its bookkeeping BEFORE it jumps, the reference evaluator
   signals and lets the brackets restore; `lift` is exactly that difference (the pops the
   lowering of X / x emits), and it is the identity on every outcome that is not an early exit. *)
From Coq Require Import List NArith ZArith Bool Lia.
From Vy Require Import Model.Base Model.Lexer Model.Parser Model.Transpile Gen.ParserConsts
  Model.Values Model.Machine Model.RefSem Proofs.C01Frames.
Import ListNotations.

Lemma xbind_ext {A B} (r : xres A) (f g : A -> xres B) :
  (forall a, r = XOk a -> f a = g a) -> xbind r f = xbind r g.
Proof. destruct r; simpl; auto. Qed.

(* ---- the shared element / modifier semantics only depend on the calls pointwise ------------------------- *)
Section Ext.
  Variable cf : cfg.
  Variables app1 app2 : app_t.
  Variables cs1 cs2 : callstk_t.
  Hypothesis Happ : forall c args s, app1 c args s = app2 c args s.
  Hypothesis Hcs : forall c s, cs1 c s = cs2 c s.

  Lemma lazy_app_ext c args s : lazy_app app1 c args s = lazy_app app2 c args s.
  Proof. unfold lazy_app. destruct (lazy_ok c args); auto. Qed.

  Lemma map_app_ext c mk items : forall s, map_app app1 c mk items s = map_app app2 c mk items s.
  Proof.
    induction items as [|x r IH]; intro s; simpl; [reflexivity|].
    rewrite lazy_app_ext. apply xbind_ext. intros [y s1] _. rewrite IH. reflexivity.
  Qed.

  Lemma filter_app_ext c items : forall s, filter_app app1 c items s = filter_app app2 c items s.
  Proof.
    induction items as [|x r IH]; intro s; simpl; [reflexivity|].
    rewrite lazy_app_ext. apply xbind_ext. intros [y s1] _. apply xbind_ext. intros b _. rewrite IH. reflexivity.
  Qed.

  Lemma fold_app_ext c items : forall acc s, fold_app app1 c acc items s = fold_app app2 c acc items s.
  Proof.
    induction items as [|x r IH]; intros acc s; simpl; [reflexivity|].
    rewrite Happ. apply xbind_ext. intros [y s1] _. apply IH.
  Qed.

  Lemma key_app_ext c items : forall s, key_app app1 c items s = key_app app2 c items s.
  Proof.
    induction items as [|x r IH]; intro s; simpl; [reflexivity|].
    rewrite Happ. apply xbind_ext. intros [k s1] _. destruct k; try reflexivity. rewrite IH. reflexivity.
  Qed.

  Lemma scan_app_ext c items : forall acc s, scan_app app1 c acc items s = scan_app app2 c acc items s.
  Proof.
    induction items as [|x r IH]; intros acc s; simpl; [reflexivity|].
    rewrite lazy_app_ext. apply xbind_ext. intros [y s1] _. rewrite IH. reflexivity.
  Qed.

  Lemma elem_call_ext k s : elem_call cf app1 cs1 k s = elem_call cf app2 cs2 k s.
  Proof.
    unfold elem_call.
    repeat match goal with |- context [if ?b then _ else _] => destruct b end; try reflexivity.
    - destruct (pop1 s) as [s1 rhs]. destruct (pop1 s1) as [s2 lhs].
      destruct lhs, rhs; try reflexivity; apply xbind_ext; intros items _; rewrite map_app_ext; reflexivity.
    - destruct (pop1 s) as [s1 rhs]. destruct (pop1 s1) as [s2 lhs].
      destruct lhs, rhs; try reflexivity; apply xbind_ext; intros items _; rewrite filter_app_ext; reflexivity.
    - destruct (pop1 s) as [s1 rhs]. destruct (pop1 s1) as [s2 lhs].
      destruct lhs, rhs; try reflexivity; apply xbind_ext; intros items _; rewrite key_app_ext; reflexivity.
    - destruct (pop1 s) as [s1 top]. destruct top; try reflexivity. apply Hcs.
  Qed.

  Lemma elem_sem_ext k s : elem_sem cf app1 cs1 k s = elem_sem cf app2 cs2 k s.
  Proof. unfold elem_sem. destruct (mem k call_keys); [apply elem_call_ext|reflexivity]. Qed.

  Lemma mod1_sem_ext m fA s : mod1_sem cf app1 cs1 m fA s = mod1_sem cf app2 cs2 m fA s.
  Proof.
    unfold mod1_sem.
    repeat match goal with |- context [if (?a =? ?b)%N then _ else _] => destruct (a =? b)%N end; try reflexivity.
    - destruct (arity_nat (c_arity fA)) as [|[|[|k]]]; try reflexivity.
      + destruct (pop1 s) as [s1 x]. apply xbind_ext. intros items _. rewrite map_app_ext. reflexivity.
      + destruct (pop1 s) as [s1 rhs]. destruct (pop1 s1) as [s2 lhs].
        destruct lhs, rhs; try reflexivity; try (rewrite map_app_ext; reflexivity);
          (apply xbind_ext; intros items _; rewrite map_app_ext; reflexivity).
    - destruct (popn _ (push (reg s) s)) as [s1 popped]. rewrite Happ. reflexivity.
    - destruct (arity_nat (c_arity fA)) as [|[|k]]; try reflexivity.
      + destruct (pop1 s) as [s1 x]. apply xbind_ext. intros items _. rewrite filter_app_ext. reflexivity.
      + destruct (popn (S (S k)) s) as [s1 popped]. rewrite Happ. reflexivity.
    - destruct (pop1 s) as [s1 c]. apply xbind_ext. intros b _. destruct b; [apply Hcs|reflexivity].
    - destruct (pop1 s) as [s1 x]. apply xbind_ext. intros items _. destruct items; [reflexivity|].
      rewrite fold_app_ext. reflexivity.
    - destruct (pop1 s) as [s1 x]. apply xbind_ext. intros items _. destruct items; [reflexivity|].
      rewrite scan_app_ext. reflexivity.
  Qed.

  Lemma mod2_sem_ext m fA fB s : mod2_sem app1 m fA fB s = mod2_sem app2 m fA fB s.
  Proof.
    unfold mod2_sem.
    destruct (popn (arity_nat (c_arity fA)) s) as [s1 pa].
    destruct (popn (arity_nat (c_arity fB)) (set_stk s1 (stk s))) as [s2 pb].
    rewrite Happ. apply xbind_ext. intros [ra s3] _. rewrite Happ. reflexivity.
  Qed.
End Ext.

(* ---- states ------------------------------------------------------------------------------------------------------ *)
Lemma state_ext a b :
  stk a = stk b -> ctxv a = ctxv b -> top_in a = top_in b -> inner a = inner b -> fstack a = fstack b ->
  sdepth a = sdepth b -> reg a = reg b -> vars a = vars b -> heap a = heap b -> cur a = cur b -> this a = this b ->
  out a = out b -> printed a = printed b -> a = b.
Proof. destruct a, b; simpl; intros; subst; reflexivity. Qed.

Lemma set_stk_same s : set_stk s (stk s) = s.
Proof. destruct s; reflexivity. Qed.
Lemma set_stk_set s a : set_stk (set_stk s a) (stk s) = s.
Proof. destruct s; reflexivity. Qed.

Arguments m_lambda_pops : simpl never.

Ltac edef :=
  rewrite ?ctxv_enter_def, ?fstack_enter_def, ?sdepth_enter_def, ?inner_enter_def, ?stk_enter_def, ?this_enter_def in *.
Ltac st_eq := apply state_ext; simpl; edef; simpl; auto.

(* ---- early exits: what the machine has already popped when it jumps ------------------------------------------------- *)
Definition lift (r : fres) : fres :=
  match r with
  | XOk (SBrk, s) => xdo s1 <- m_ctx_pop s; XOk (SBrk, s1)
  | XOk (SCont, s) => xdo s1 <- m_ctx_pop s; XOk (SCont, s1)
  | XOk (SRet v, s) => xdo s1 <- m_lambda_pops s; XOk (SRet v, s1)
  | _ => r
  end.

(* which early exits a statement list may end with, by where it stands *)
Definition sig_ok (il : lk) (lam : bool) (r : fres) : Prop :=
  match r with
  | XOk (SBrk, _) => in_loop il = true
  | XOk (SCont, _) => in_for il = true
  | XOk (SRet _, _) => lam = true
  | _ => True
  end.

Definition only_norm (r : fres) : Prop :=
  match r with XOk (SNorm, _) => True | XOk _ => False | _ => True end.

Lemma only_norm_lift r : only_norm r -> lift r = r.
Proof. destruct r as [[[] s]| |]; simpl; tauto. Qed.
Lemma only_norm_sig il lam r : only_norm r -> sig_ok il lam r.
Proof. destruct r as [[[] s]| |]; simpl; tauto. Qed.
Lemma only_norm_norm r : only_norm (norm r).
Proof. destruct r; exact I. Qed.
Lemma sig_none r : sig_ok LNone false r -> only_norm r.
Proof. destruct r as [[[] s]| |]; simpl; auto; discriminate. Qed.

(* sequencing: go on after a normal end, pass an early exit on *)
Definition then_ (r : fres) (k : state -> fres) : fres :=
  xdo (g, s1) <- r; match g with SNorm => k s1 | _ => XOk (g, s1) end.

Lemma lift_then m r km kr :
  m = lift r -> (forall s, r = XOk (SNorm, s) -> km s = lift (kr s)) -> then_ m km = lift (then_ r kr).
Proof.
  intros -> H. unfold then_. destruct r as [[g s1]| |]; try reflexivity.
  destruct g; simpl.
  - apply H. reflexivity.
  - destruct (m_ctx_pop s1); reflexivity.
  - destruct (m_ctx_pop s1); reflexivity.
  - destruct (m_lambda_pops s1); reflexivity.
Qed.

Lemma sig_then il lam r kr :
  sig_ok il lam r -> (forall s, r = XOk (SNorm, s) -> sig_ok il lam (kr s)) -> sig_ok il lam (then_ r kr).
Proof.
  intros H1 H2. unfold then_. destruct r as [[g s1]| |]; simpl; auto.
  destruct g; simpl; auto.
Qed.

Lemma seq_run_then step x r s : seq_run step (x :: r) s = then_ (step x s) (seq_run step r).
Proof. reflexivity. Qed.

Section Sim.
  Variable cf : cfg.
  Variable mrec : rec_t.
  Variable mwl : bool -> value -> list struct -> list struct -> state -> fres.
  Variable rrec : list struct -> state -> fres.
  Variable rwl : value -> list struct -> list struct -> state -> fres.
  Hypothesis Hrec : forall indef il lam p s, core_ok_list indef il lam p = true ->
    mrec indef p s = lift (rrec p s) /\ sig_ok il lam (rrec p s).
  Hypothesis Hwl : forall indef v c b s,
    core_ok_list indef LNone false c = true -> core_ok_list indef LWhile false b = true ->
    mwl indef v c b s = rwl v c b s /\ only_norm (rwl v c b s).
  Hypothesis Hfr : forall p s, keeps2 (rrec p s) s.

  (* a body that can only end normally *)
  Lemma rec_plain indef p s : core_ok_list indef LNone false p = true ->
    mrec indef p s = rrec p s /\ only_norm (rrec p s).
  Proof.
    intro Hc. destruct (Hrec indef LNone false p s Hc) as [E S]. apply sig_none in S.
    rewrite E, (only_norm_lift _ S). auto.
  Qed.

  (* ---- lambdas ---------------------------------------------------------------------------------------------------- *)
  Lemma lambda_sim self c popped s :
    core_ok_list true LNone true (c_body c) = true ->
    m_lambda_body mrec self c popped s = r_lambda rrec self c popped s.
  Proof.
    intro Hc.
    unfold m_lambda_body, r_lambda, with_stack, with_env, with_this, with_function, with_context, with_scope, with_registered, bracket.
    match goal with |- xbind (mrec true _ ?A) _ = _ => set (S0 := A) end.
    match goal with |- context [rrec (c_body c) ?B] => replace B with S0 by (apply state_ext; reflexivity) end.
    destruct (Hrec true LNone true _ S0 Hc) as [E SG]. rewrite E. clear E.
    pose proof (Hfr (c_body c) S0) as K. destruct (rrec (c_body c) S0) as [[g s1]| |]; simpl; try reflexivity.
    assert (P : forall s2, frames S0 s2 ->
              m_lambda_pops s2 = XOk (set_fstack (set_sdepth (set_inner (set_ctxv s2 (ctxv s)) (inner s)) (sdepth s)) (fstack s))).
    { intros s2 (F1 & F2 & F3 & F4). subst S0. simpl in F1, F2, F3, F4. edef. simpl in F1, F2, F3, F4.
      destruct (inner s2) as [|[l c2] r2] eqn:EI; [contradiction|]. destruct F4 as [_ F4]. subst r2.
      unfold m_lambda_pops, m_ctx_pop. rewrite F1. simpl.
      unfold m_inputs_pop. simpl. rewrite EI. simpl.
      unfold m_stacks_pop. simpl. rewrite F3. simpl.
      unfold m_fstack_pop. simpl. rewrite F2. simpl. reflexivity. }
    destruct g; simpl in SG; try discriminate; simpl.
    - destruct (pop1 s1) as [s2 r] eqn:E. apply pop1_frames in E. simpl.
      rewrite (P s2 (frames_trans _ _ _ K E)). simpl. unfold leave_frame.
      f_equal. f_equal. st_eq.
    - simpl. rewrite (P s1 K). simpl. unfold leave_frame.
      f_equal. f_equal. st_eq.
  Qed.

  (* ---- named functions ------------------------------------------------------------------------------------------ *)
  Lemma m_params_eq ps : forall acc loc s,
    m_params ps acc loc s = xdo (s', l, lc) <- r_params ps s; XOk (s', acc ++ l, loc ++ lc).
  Proof.
    induction ps as [|[n|x|] r IH]; intros acc loc s; simpl.
    - rewrite !app_nil_r. reflexivity.
    - destruct (popn n s) as [s1 popped]. rewrite IH. destruct (r_params r s1) as [[[s2 more] lc]| |]; simpl; try reflexivity.
      rewrite app_assoc. reflexivity.
    - destruct (pop1 s) as [s1 v]. rewrite IH. destruct (r_params r s1) as [[[s2 more] lc]| |]; simpl; try reflexivity.
      rewrite <- app_assoc. reflexivity.
    - destruct (pop_star s) as [[s1 popped]|]; simpl; try reflexivity.
      rewrite IH. destruct (r_params r s1) as [[[s2 more] lc]| |]; simpl; try reflexivity.
      rewrite app_assoc. reflexivity.
  Qed.

  Lemma named_sim c s :
    core_ok_list true LNone false (c_body c) = true -> m_named_body mrec c s = r_named rrec c s.
  Proof.
    intro Hc. unfold m_named_body, r_named. rewrite m_params_eq.
    destruct (r_params (c_params c) s) as [[[s1 ps] loc]| |]; simpl; try reflexivity.
    unfold with_stack, with_env, with_this, with_context, with_scope, with_registered, bracket.
    set (S1 := bind_params loc (enter_def (decl_of c) (c_env c) (set_stk s1 (rev ps)))).
    assert (G : frames s1 S1).
    { unfold S1. eapply frames_trans; [|apply frames_bind_params]. eapply frames_trans; [|apply frames_enter_def]. apply frames_set_stk. }
    destruct G as (G1 & G2 & G3 & G4).
    cbn [xbind].
    match goal with |- xbind (of_name (lookup_var _ ?A)) _ = _ => set (S2 := A) end.
    match goal with |- _ = xbind (xbind (xbind (xbind (xbind (xbind (of_name (lookup_var _ ?B)) _) _) _) _) _) _ =>
      replace B with S2 by (apply state_ext; reflexivity) end.
    destruct (lookup_var (c_name c) S2) as [f|]; simpl; try reflexivity.
    match goal with |- xbind (mrec true _ ?A) _ = _ => set (S0 := A) end.
    match goal with |- context [rrec (c_body c) ?B] => replace B with S0 by (apply state_ext; reflexivity) end.
    destruct (rec_plain true _ S0 Hc) as [E ON]. rewrite E. clear E.
    pose proof (Hfr (c_body c) S0) as K. destruct (rrec (c_body c) S0) as [[g s2]| |]; simpl; try reflexivity.
    destruct g; simpl in ON; try contradiction.
    destruct K as (F1 & F2 & F3 & F4). subst S0 S2. simpl in F1, F2, F3, F4.
    destruct (inner s2) as [|[l c2] r2] eqn:EI; [contradiction|]. destruct F4 as [_ F4]. subst r2.
    unfold m_ctx_pop. rewrite F1. simpl.
    unfold m_inputs_pop. simpl. rewrite EI. simpl.
    unfold m_stacks_pop. simpl. rewrite F3. simpl. unfold leave_frame.
    f_equal. f_equal. apply state_ext; simpl; auto.
    unfold S1. rewrite this_bind_params, this_enter_def. reflexivity.
  Qed.

  (* ---- the call protocols ------------------------------------------------------------------------------------------- *)
  Lemma body_ok_lambda c : body_ok c = true -> c_named c = false -> core_ok_list true LNone true (c_body c) = true.
  Proof. unfold body_ok. intros H E. rewrite E in H. exact H. Qed.
  Lemma body_ok_named c : body_ok c = true -> c_named c = true -> core_ok_list true LNone false (c_body c) = true.
  Proof. unfold body_ok. intros H E. rewrite E in H. exact H. Qed.

  Lemma app_sim c args s : m_app mrec c args s = r_app rrec c args s.
  Proof.
    unfold m_app, r_app. destruct (body_ok c) eqn:Hc; [|reflexivity].
    destruct (c_named c) eqn:Hn; [|apply lambda_sim; apply body_ok_lambda; assumption].
    rewrite (named_sim c _ (body_ok_named c Hc Hn)). unfold with_stack, bracket.
    destruct (r_named rrec c (set_stk s args)) as [[fs s1]| |]; simpl; try reflexivity.
    destruct fs; reflexivity.
  Qed.

  Lemma call_sim self c s : m_call_on_stack mrec self c s = r_call_on_stack rrec self c s.
  Proof.
    unfold m_call_on_stack, r_call_on_stack. destruct (body_ok c) eqn:Hc; [|reflexivity].
    destruct (c_named c) eqn:Hn.
    - rewrite (named_sim c _ (body_ok_named c Hc Hn)). reflexivity.
    - destruct (popn (select_arity c None) s) as [s1 popped].
      rewrite (lambda_sim self c popped s1 (body_ok_lambda c Hc Hn)). reflexivity.
  Qed.

  Lemma callstk_sim c s : m_callstk mrec c s = r_callstk rrec c s.
  Proof. apply call_sim. Qed.

  Lemma elem_sim k s : elem_sem cf (m_app mrec) (m_callstk mrec) k s = elem_sem cf (r_app rrec) (r_callstk rrec) k s.
  Proof. apply elem_sem_ext; [apply app_sim|apply callstk_sim]. Qed.

  (* ---- tokens ------------------------------------------------------------------------------------------------------------ *)
  Lemma token_sim indef t s : token_core indef t = true -> m_token cf mrec indef t s = r_token cf rrec t s.
  Proof.
    unfold token_core, m_token, r_token. destruct (tk t); intro H; try discriminate; try reflexivity.
    all: try (destruct (string_value t); reflexivity).
    destruct (tv t) as [|k [|? ?]]; try reflexivity. apply elem_sim.
  Qed.

  (* ---- early exits -------------------------------------------------------------------------------------------------------- *)
  Lemma break_sim il lam p s : break_core il lam p = true ->
    m_break p s = lift (r_break p s) /\ sig_ok il lam (r_break p s).
  Proof.
    unfold break_core, m_break, r_break. destruct p as [[]|]; intro H; try discriminate; simpl; auto.
    destruct (pop1 s) as [s1 v]. simpl. auto.
  Qed.

  Lemma recurse_sim indef il lam p s : recurse_core indef il lam p = true ->
    m_recurse mrec p s = lift (r_recurse rrec p s) /\ sig_ok il lam (r_recurse rrec p s).
  Proof.
    unfold recurse_core, m_recurse, r_recurse. destruct p as [[]|]; intro H; try discriminate.
    - simpl. auto.
    - destruct (this s); [|simpl; auto]. rewrite call_sim.
      split; [symmetry; apply only_norm_lift|apply only_norm_sig]; apply only_norm_norm.
    - destruct (nth_error (fstack s) 1) as [[c|]|]; try (simpl; auto; fail). rewrite call_sim.
      split; [symmetry; apply only_norm_lift|apply only_norm_sig]; apply only_norm_norm.
    - destruct (nth_error (fstack s) 1) as [[c|]|]; try (simpl; auto; fail). rewrite call_sim.
      split; [symmetry; apply only_norm_lift|apply only_norm_sig]; apply only_norm_norm.
    - destruct (nth_error (fstack s) 1) as [[c|]|]; try (simpl; auto; fail). rewrite call_sim.
      split; [symmetry; apply only_norm_lift|apply only_norm_sig]; apply only_norm_norm.
    - split; [symmetry; apply only_norm_lift|apply only_norm_sig]; apply only_norm_norm.
  Qed.

  (* ---- a context value around a body ----------------------------------------------------------------------------------- *)
  (* what the loop does with the end of one iteration: the machine pops after a normal end, the
     lowering of X / x has popped already; the reference evaluator restores in every case *)
  Lemma ctx_iteration v (r : state -> fres) s :
    keeps2 (r (m_ctx_push v s)) (m_ctx_push v s) ->
    (xdo (g, s1) <- lift (r (m_ctx_push v s));
     match g with SNorm => xdo s2 <- m_ctx_pop s1; XOk (g, s2) | _ => XOk (g, s1) end)
    = (match with_context v r s with
       | XOk (SRet x, s1) => xdo s2 <- m_lambda_pops (set_ctxv s1 (v :: ctxv s)); XOk (SRet x, s2)
       | o => o
       end).
  Proof.
    unfold with_context, bracket, m_ctx_push. intro K.
    destruct (r (set_ctxv s (v :: ctxv s))) as [[g s1]| |]; simpl; try reflexivity.
    destruct K as (F1 & _). simpl in F1.
    destruct g; simpl; unfold m_ctx_pop; try (rewrite F1; reflexivity).
    assert (E : set_ctxv (set_ctxv s1 (ctxv s)) (v :: ctxv s) = s1) by (apply state_ext; simpl; auto).
    rewrite E. destruct (m_lambda_pops s1); reflexivity.
  Qed.

  (* ---- if ------------------------------------------------------------------------------------------------------------------- *)
  Lemma r_elif_then c b rest s :
    r_elif rrec (c :: b :: rest) s =
    then_ (rrec c s) (fun s1 => let (s2, v) := pop1 s1 in xdo t <- of_opt (truthy v); if t then rrec b s2 else r_elif rrec rest s2).
  Proof. reflexivity. Qed.
  Lemma m_ifs_then run x y rest s :
    m_ifs run (x :: y :: rest) false s =
    then_ (run x s) (fun s1 => let (s2, c) := pop1 s1 in xdo b <- of_opt (truthy c); if b then run y s2 else m_ifs run rest false s2).
  Proof. reflexivity. Qed.

  Lemma ifs_sim indef il lam : forall n bs, (length bs <= n)%nat -> forallb (core_ok_list indef il lam) bs = true ->
    forall s, m_ifs (mrec indef) bs false s = lift (r_elif rrec bs s) /\ sig_ok il lam (r_elif rrec bs s).
  Proof.
    induction n as [|n IH]; intros bs Hlen Hc s.
    - destruct bs; [simpl; auto|simpl in Hlen; lia].
    - destruct bs as [|x [|y rest]]; [simpl; auto| |].
      + simpl in Hc. rewrite andb_true_r in Hc. cbn [m_ifs r_elif]. apply Hrec. exact Hc.
      + cbn [forallb] in Hc. apply andb_prop in Hc as [Hx Hc]. apply andb_prop in Hc as [Hy Hr].
        rewrite m_ifs_then, r_elif_then. destruct (Hrec indef il lam x s Hx) as [Ex Sx].
        assert (G : forall s1, (let (s2, c) := pop1 s1 in xdo b <- of_opt (truthy c); if b then mrec indef y s2 else m_ifs (mrec indef) rest false s2)
                     = lift (let (s2, v) := pop1 s1 in xdo t <- of_opt (truthy v); if t then rrec y s2 else r_elif rrec rest s2)
                    /\ sig_ok il lam (let (s2, v) := pop1 s1 in xdo t <- of_opt (truthy v); if t then rrec y s2 else r_elif rrec rest s2)).
        { intro s1. destruct (pop1 s1) as [s2 v].
          destruct (truthy v) as [[|]|]; cbn [of_opt xbind]; [apply Hrec; exact Hy|apply IH; [simpl in Hlen; lia|exact Hr]|split; [reflexivity|exact I]]. }
        split.
        * apply lift_then; [exact Ex|]. intros s1 _. apply G.
        * apply sig_then; [exact Sx|]. intros s1 _. apply G.
  Qed.

  Lemma m_ifs_true2 run x y rest s :
    m_ifs run (x :: y :: rest) true s =
    let (s1, c) := pop1 s in xdo b <- of_opt (truthy c); if b then run x s1 else m_ifs run (y :: rest) false s1.
  Proof. reflexivity. Qed.

  Lemma if_sim indef il lam bs s : forallb (core_ok_list indef il lam) bs = true ->
    m_ifs (mrec indef) bs true s = lift (r_if rrec bs s) /\ sig_ok il lam (r_if rrec bs s).
  Proof.
    intro Hc. destruct bs as [|x [|y rest]]; [simpl; auto| |].
    - simpl in Hc. rewrite andb_true_r in Hc. cbn [m_ifs r_if r_elif].
      destruct (pop1 s) as [s1 v].
      destruct (truthy v) as [[|]|]; simpl; [apply Hrec; exact Hc|split; [reflexivity|exact I]|split; [reflexivity|exact I]].
    - cbn [forallb] in Hc. apply andb_prop in Hc as [Hx Hc].
      rewrite m_ifs_true2. cbn [r_if]. destruct (pop1 s) as [s1 v].
      destruct (truthy v) as [[|]|]; cbn [of_opt xbind];
        [apply Hrec; exact Hx|apply (ifs_sim indef il lam (length (y :: rest))); [lia|exact Hc]|split; [reflexivity|exact I]].
  Qed.

  (* ---- for ------------------------------------------------------------------------------------------------------------------ *)
  Lemma for_sim indef var body items : core_ok_list indef LFor false body = true ->
    forall s, m_for (mrec indef) var body items s = r_for rrec var body items s /\ only_norm (r_for rrec var body items s).
  Proof.
    intro Hc. induction items as [|x r IH]; intro s; [simpl; auto|].
    cbn [m_for r_for].
    set (s1 := match var with Some v => assign_var v x s | None => s end).
    destruct (Hrec indef LFor false body (m_ctx_push x s1) Hc) as [E SG].
    pose proof (ctx_iteration x (rrec body) s1 (Hfr _ _)) as CI.
    unfold with_context, bracket in *. fold (m_ctx_push x s1) in *.
    rewrite E. clear E.
    destruct (rrec body (m_ctx_push x s1)) as [[g s2]| |]; simpl in *; auto.
    destruct g; simpl in *; try discriminate.
    - destruct (m_ctx_pop s2) as [s3| |]; simpl in *; inversion CI; subst; apply IH.
    - destruct (m_ctx_pop s2) as [s3| |]; simpl in *; inversion CI; subst; simpl; auto.
    - destruct (m_ctx_pop s2) as [s3| |]; simpl in *; inversion CI; subst; apply IH.
  Qed.

  (* ---- list literals -------------------------------------------------------------------------------------------------------- *)
  Lemma items_sim : forall its temp s, forallb (core_ok_list true LNone false) its = true ->
    m_items (mrec true) its temp s = xdo (vs, s') <- r_items rrec its s; XOk (temp ++ vs, s').
  Proof.
    induction its as [|x r IH]; intros temp s Hc.
    - simpl. rewrite app_nil_r. reflexivity.
    - cbn [forallb] in Hc. apply andb_prop in Hc as [Hx Hr].
      cbn [m_items r_items]. unfold with_stack, with_env, bracket. rewrite set_stk_same.
      set (S0 := enter_def (assigned_list x) (cur s) s).
      destruct (rec_plain true x S0 Hx) as [E ON]. rewrite E. clear E.
      destruct (rrec x S0) as [[g s1]| |]; simpl; try reflexivity.
      destruct g; simpl in ON; try contradiction. simpl.
      assert (EQ : set_stk (set_cur s1 (cur s)) (stk s) = set_cur (set_stk s1 (stk s)) (cur s)) by (apply state_ext; reflexivity).
      rewrite EQ.
      destruct (stk s1) as [|v rest]; simpl.
      + rewrite (IH temp _ Hr).
        match goal with |- context [r_items rrec r ?S1] => destruct (r_items rrec r S1) as [[vs s2]| |] end; reflexivity.
      + rewrite (IH (temp ++ [v]) _ Hr).
        match goal with |- context [r_items rrec r ?S1] => destruct (r_items rrec r S1) as [[vs s2]| |] end; simpl; try reflexivity.
        rewrite <- app_assoc. reflexivity.
  Qed.

  (* ---- one statement --------------------------------------------------------------------------------------------------------- *)
  Ltac plain := split; [symmetry; apply only_norm_lift|apply only_norm_sig].

  Lemma step_sim indef il lam x s : core_ok indef il lam x = true ->
    m_step cf mrec mwl indef x s = lift (r_step cf rrec rwl x s) /\ sig_ok il lam (r_step cf rrec rwl x s).
  Proof.
    destruct x; cbn [core_ok m_step r_step]; intro Hc; try discriminate.
    - rewrite (token_sim indef t s Hc). plain; apply only_norm_norm.
    - apply break_sim. exact Hc.
    - apply (recurse_sim indef). exact Hc.
    - apply if_sim. exact Hc.
    - apply andb_prop in Hc as [Hn Hb]. destruct names as [|n ?].
      + destruct (pop1 s) as [s1 v]. destruct (iter_range cf v) as [items|]; simpl; auto.
        destruct (for_sim indef None body items Hb s1) as [E ON]. rewrite E. plain; exact ON.
      + rewrite Hn. simpl.
        destruct (pop1 s) as [s1 v]. destruct (iter_range cf v) as [items|]; simpl; auto.
        destruct (for_sim indef (Some (keep re_keep_for n)) body items Hb s1) as [E ON]. rewrite E. plain; exact ON.
    - apply andb_prop in Hc as [Hc1 Hc2]. destruct (rec_plain indef cond s Hc1) as [E ON]. rewrite E.
      destruct (rrec cond s) as [[g s1]| |]; simpl; auto.
      destruct g; simpl in ON; try contradiction.
      destruct (pop1 s1) as [s2 v]. destruct (Hwl indef v cond body s2 Hc1 Hc2) as [E2 ON2]. rewrite E2. plain; exact ON2.
    - rewrite Hc. destruct (lookup_var _ s) as [[z|t0|l|c]|]; simpl; auto. rewrite call_sim. plain; apply only_norm_norm.
    - apply andb_prop in Hc as [Hc Hb]. apply andb_prop in Hc as [Hn Hp].
      rewrite Hn. simpl. destruct (params_of params); simpl; auto.
    - simpl. auto.
    - destruct op; rewrite elem_sim; plain; apply only_norm_norm.
    - rewrite (items_sim items [] s Hc). destruct (r_items rrec items s) as [[vs s1]| |]; simpl; auto.
    - apply andb_prop in Hc as [Hm Ha]. rewrite Hm. unfold m_operand, pop1, push. simpl.
      rewrite set_stk_set. rewrite (mod1_sem_ext cf _ _ _ _ (app_sim) (callstk_sim)). plain; apply only_norm_norm.
    - apply andb_prop in Hc as [Hc Hb]. apply andb_prop in Hc as [Hm Ha]. rewrite Hm.
      unfold m_operand, pop1, push. simpl. rewrite !set_stk_set.
      rewrite (mod2_sem_ext _ _ (app_sim)). plain; apply only_norm_norm.
  Qed.
End Sim.

(* ---- induction on the fuel ------------------------------------------------------------------------------------------------ *)
Lemma seq_sim (st1 st2 : struct -> state -> fres) indef il lam p :
  (forall x s, core_ok indef il lam x = true -> st1 x s = lift (st2 x s) /\ sig_ok il lam (st2 x s)) ->
  core_ok_list indef il lam p = true ->
  forall s, seq_run st1 p s = lift (seq_run st2 p s) /\ sig_ok il lam (seq_run st2 p s).
Proof.
  intro H. induction p as [|x r IH]; intros Hc s; [simpl; auto|].
  cbn [core_ok_list forallb] in Hc. apply andb_prop in Hc as [Hx Hr].
  rewrite !seq_run_then. destruct (H x s Hx) as [E S]. split.
  - apply lift_then; [exact E|]. intros s1 _. apply IH. exact Hr.
  - apply sig_then; [exact S|]. intros s1 _. apply IH. exact Hr.
Qed.

Lemma sim cf fuel :
  (forall indef il lam p s, core_ok_list indef il lam p = true ->
     exec cf fuel indef p s = lift (eval cf fuel p s) /\ sig_ok il lam (eval cf fuel p s))
  /\ (forall indef v c b s, core_ok_list indef LNone false c = true -> core_ok_list indef LWhile false b = true ->
        mloop cf fuel indef v c b s = rloop cf fuel v c b s /\ only_norm (rloop cf fuel v c b s)).
Proof.
  induction fuel as [|f [IH1 IH2]]; [split; intros; simpl; auto|].
  pose proof (proj1 (eval_keeps cf f)) as Hfr.
  split.
  - intros indef il lam p s Hc. cbn [exec eval]. apply (seq_sim _ _ indef il lam); [|exact Hc].
    intros x s0 Hx. apply step_sim; assumption.
  - intros indef v c b s Hc Hb. cbn [mloop rloop].
    destruct (truthy v) as [[|]|]; simpl; auto.
    destruct (IH1 indef LWhile false b (m_ctx_push v s) Hb) as [E SG].
    pose proof (ctx_iteration v (eval cf f b) s (Hfr _ _)) as CI.
    unfold with_context, bracket in *. fold (m_ctx_push v s) in *.
    rewrite E. clear E.
    destruct (eval cf f b (m_ctx_push v s)) as [[g s2]| |]; simpl in *; auto.
    destruct g; simpl in *; try discriminate.
    + destruct (m_ctx_pop s2) as [s3| |]; simpl in *; inversion CI; subst; auto.
      match goal with |- context [exec cf f indef c ?S] => destruct (IH1 indef LNone false c S Hc) as [E2 S2] end.
      apply sig_none in S2.
      rewrite E2, (only_norm_lift _ S2).
      destruct (eval cf f c _) as [[g2 s4]| |]; simpl in *; auto.
      destruct g2; simpl in S2; try contradiction.
      destruct (pop1 s4) as [s5 v']. apply IH2; assumption.
    + destruct (m_ctx_pop s2) as [s3| |]; simpl in *; inversion CI; subst; simpl; auto.
Qed.

(* inside a def (lambda and function bodies, list items, operands) or a loop body: the same up to the
   pops the emitted code performs before it jumps *)
Theorem compile_correct_indef cf fuel indef il lam p s :
  core_ok_list indef il lam p = true -> exec cf fuel indef p s = lift (eval cf fuel p s).
Proof. intro H. apply (proj1 (sim cf fuel) indef il lam p s H). Qed.

(* which early exits can leave a statement list *)
Theorem eval_signals cf fuel indef il lam p s :
  core_ok_list indef il lam p = true -> sig_ok il lam (eval cf fuel p s).
Proof. intro H. apply (proj1 (sim cf fuel) indef il lam p s H). Qed.

(* where nothing encloses the code no early exit leaves it, and the outcomes are EQUAL: same stack,
   same printed text, same variables, register, input cursors and bookkeeping, same error, same
   out-of-fuel, for every fuel, every state and every flag configuration *)
Theorem compile_correct cf fuel p s :
  core_ok_list false LNone false p = true -> exec cf fuel false p s = eval cf fuel p s.
Proof.
  intro H. destruct (proj1 (sim cf fuel) false LNone false p s H) as [E S].
  rewrite E. apply only_norm_lift. apply sig_none. exact S.
Qed.

Theorem ends_normally cf fuel p s g s' :
  core_ok_list false LNone false p = true -> eval cf fuel p s = XOk (g, s') -> g = SNorm.
Proof.
  intros H E. pose proof (sig_none _ (eval_signals cf fuel false LNone false p s H)) as S.
  rewrite E in S. destruct g; simpl in S; tauto.
Qed.

(* whole programs: start-up (flag H), run, implicit output under the flags j s W O o, ranges under M m *)
Lemma finish_ext app1 app2 fl s : (forall c args s, app1 c args s = app2 c args s) -> finish app1 fl s = finish app2 fl s.
Proof.
  intro H. unfold finish. destruct (pop1 s) as [s1 output].
  apply xbind_ext. intros o _.
  match goal with |- (if ?w then _ else _) = _ => destruct w end; [|reflexivity].
  destruct o as [[z|t0|l|c]|t]; try reflexivity.
  destruct (c_named c); [reflexivity|].
  match goal with |- context [popn ?n ?st] => destruct (popn n st) as [s3 popped] end.
  rewrite H. reflexivity.
Qed.

Theorem program_correct fl fuel inputs p :
  core_ok_list false LNone false p = true -> run_machine fl fuel inputs p = run_ref fl fuel inputs p.
Proof.
  intro Hc. unfold run_machine, run_ref. rewrite (compile_correct _ _ _ _ Hc).
  apply xbind_ext. intros [g s] _. destruct g; try reflexivity.
  apply finish_ext. intros c args s0.
  apply app_sim.
  - intros indef il lam q s1 Hq. apply (proj1 (sim (cfg_of fl) fuel) indef il lam q s1 Hq).
  - intros q s1. apply (proj1 (eval_keeps (cfg_of fl) fuel)).
Qed.

(* ---- the bookkeeping of the emitted code is balanced (the C12 reading of the same fact) ------------------------------ *)
Corollary exec_frames cf fuel p s g s' :
  core_ok_list false LNone false p = true -> exec cf fuel false p s = XOk (g, s') -> frames s s'.
Proof. intros Hc H. rewrite (compile_correct _ _ _ _ Hc) in H. eapply eval_frames; eauto. Qed.

(* ---- stated over the core grammar as a whole (Values.core_program adds the static name discipline
   under which the machine's account of Python scoping is faithful, and keeps `x` under a modifier
   inside the operand) ------------------------------------------------------------------------------------ *)
Lemma core_program_core p : core_program p = true -> core_ok_list false LNone false p = true.
Proof. unfold core_program. intro H. apply andb_prop in H as [H _]. exact H. Qed.

Theorem compile_correct_program cf fuel p s :
  core_program p = true -> exec cf fuel false p s = eval cf fuel p s.
Proof. intro H. apply compile_correct. apply core_program_core. exact H. Qed.

Theorem program_correct_program fl fuel inputs p :
  core_program p = true -> run_machine fl fuel inputs p = run_ref fl fuel inputs p.
Proof. intro H. apply program_correct. apply core_program_core. exact H. Qed.
