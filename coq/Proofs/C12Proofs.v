(* C12: the code emitted for any program is balanced on the four bookkeeping lists. *)
From Coq Require Import List NArith ZArith Bool Lia.
From Vy Require Import Model.Base Model.Lexer Model.Parser Model.PyTree Model.Books
  Gen.BookFacts Proofs.ParserFacts.
Import ListNotations.

(* ---- depth arithmetic ----------------------------------------------------------------------- *)
Lemma delta_eqb_refl d : delta_eqb d d = true.
Proof. destruct d as [[[a b] c] e]. unfold delta_eqb. rewrite !Z.eqb_refl. reflexivity. Qed.

Lemma delta_eqb_eq x y : delta_eqb x y = true -> x = y.
Proof.
  destruct x as [[[a b] c] e], y as [[[a' b'] c'] e']. unfold delta_eqb. intro H.
  repeat (apply andb_prop in H as [H ?]). repeat match goal with X : (_ =? _)%Z = true |- _ => apply Z.eqb_eq in X end.
  subst. reflexivity.
Qed.

Lemma tuple4_eq (a b c e a' b' c' e' : Z) : a = a' -> b = b' -> c = c' -> e = e' -> (a, b, c, e) = (a', b', c', e').
Proof. intros; subst; reflexivity. Qed.

Lemma bump_inv b d : bump b (-1) (bump b 1 d) = d.
Proof. destruct d as [[[a b1] c] e]. destruct b as [|[|[|b]]]; cbn; apply tuple4_eq; lia. Qed.

Lemma bump_comm i j x y d : bump i x (bump j y d) = bump j y (bump i x d).
Proof.
  destruct d as [[[a b1] c] e].
  destruct i as [|[|[|i]]], j as [|[|[|j]]]; cbn; apply tuple4_eq; lia.
Qed.

(* everything a lambda pushes / pops *)
Definition up4 (d : delta) : delta := bump 2 1 (bump 1 1 (bump 0 1 (bump 3 1 d))).
Definition down4 (d : delta) : delta := bump 3 (-1) (bump 2 (-1) (bump 1 (-1) (bump 0 (-1) d))).
Lemma down4_up4 d : down4 (up4 d) = d.
Proof. destruct d as [[[a b1] c] e]. cbn. apply tuple4_eq; lia. Qed.

(* ---- unfolding the analysis ----------------------------------------------------------------------- *)
Lemma flowl_eq : forall l d,
  (fix flowl (l : list enode) (d : delta) : option summary :=
     match l with
     | [] => Some (Some d, [])
     | x :: r =>
         match flow1 x d with
         | None => None
         | Some (None, ab) => Some (None, ab)
         | Some (Some d1, ab) =>
             match flowl r d1 with
             | None => None
             | Some (n2, ab2) => Some (n2, ab ++ ab2)
             end
         end
     end) l d = flow l d.
Proof.
  induction l as [|x l IH]; intro d; [reflexivity|]. simpl.
  destruct (flow1 x d) as [[[d1|] ab]|]; try reflexivity; rewrite IH; reflexivity.
Qed.

Lemma flow1_def body d :
  flow1 (EBlock BDef body) d =
  match flow body d0 with
  | Some (nb, ab) =>
      if normal_at d0 nb && only_kind OReturn ab && all_at OReturn d0 ab then Some (Some d, []) else None
  | None => None
  end.
Proof. cbn [flow1]. rewrite flowl_eq. reflexivity. Qed.

Lemma flow1_loop body d :
  flow1 (EBlock BLoop body) d =
  match flow body d with
  | Some (nb, ab) =>
      if normal_at d nb && all_at OContinue d ab && all_at OBreak d ab
      then Some (Some d, returns_of ab) else None
  | None => None
  end.
Proof. cbn [flow1]. rewrite flowl_eq. reflexivity. Qed.

Lemma flow1_if k body d : k = BIf \/ k = BElse ->
  flow1 (EBlock k body) d =
  match flow body d with
  | Some (nb, ab) => if normal_at d nb then Some (Some d, ab) else None
  | None => None
  end.
Proof. intros [-> | ->]; cbn [flow1]; rewrite flowl_eq; reflexivity. Qed.

Lemma flow_app a : forall b d,
  flow (a ++ b) d =
  match flow a d with
  | None => None
  | Some (None, ab) => Some (None, ab)
  | Some (Some d1, ab) =>
      match flow b d1 with
      | None => None
      | Some (n2, ab2) => Some (n2, ab ++ ab2)
      end
  end.
Proof.
  induction a as [|x a IH]; intros b d.
  - cbn. destruct (flow b d) as [[n2 ab2]|]; reflexivity.
  - cbn [app flow]. destruct (flow1 x d) as [[[d1|] ab]|]; try reflexivity.
    rewrite IH. destruct (flow a d1) as [[[d2|] ab']|]; try reflexivity.
    destruct (flow b d2) as [[n3 ab3]|]; try reflexivity. rewrite app_assoc. reflexivity.
Qed.

(* ---- what a fragment of emitted code may do ------------------------------------------------------- *)
Definition abr_ok (il lam : bool) (d : delta) (o : outcome) : Prop :=
  match fst o with
  | ONormal => False
  | OBreak | OContinue => il = true /\ snd o = bump 0 (-1) d
  | OReturn => lam = true /\ snd o = down4 d
  end.

Definition frag_ok (il lam : bool) (l : list enode) : Prop :=
  forall d, exists n ab, flow l d = Some (n, ab)
    /\ (n = Some d \/ (n = None /\ ab <> [])) /\ Forall (abr_ok il lam d) ab.

Lemma frag_nil il lam : frag_ok il lam [].
Proof. intro d. exists (Some d), []. repeat split; auto. Qed.

Lemma frag_app il lam a b : frag_ok il lam a -> frag_ok il lam b -> frag_ok il lam (a ++ b).
Proof.
  intros Ha Hb d. destruct (Ha d) as [na [aba [Fa [Na Aa]]]]. rewrite flow_app, Fa.
  destruct Na as [-> | [-> Ne]].
  - destruct (Hb d) as [nb [abb [Fb [Nb Ab]]]]. rewrite Fb. exists nb, (aba ++ abb).
    split; [reflexivity|]. split.
    + destruct Nb as [-> | [-> Ne]]; [left; reflexivity|right; split; [reflexivity|]].
      destruct aba; [exact Ne|discriminate].
    + apply Forall_app. split; assumption.
  - exists None, aba. split; [reflexivity|]. split; [right; split; [reflexivity|exact Ne]|exact Aa].
Qed.

Lemma frag_weaken il lam il' lam' l :
  (il = true -> il' = true) -> (lam = true -> lam' = true) -> frag_ok il lam l -> frag_ok il' lam' l.
Proof.
  intros Hi Hl H d. destruct (H d) as [n [ab [F [N A]]]]. exists n, ab. split; [exact F|]. split; [exact N|].
  eapply Forall_impl; [|exact A]. intros [k d'] Ho. unfold abr_ok in *. cbn [fst snd] in *.
  destruct k; try exact Ho; destruct Ho as [H1 H2]; split; auto.
Qed.

(* single statements *)
Lemma frag_push il lam b : frag_ok il lam [EPush b] -> True. Proof. trivial. Qed.

Lemma flow_push_pop b body d :
  flow ([EPush b] ++ body ++ [EPop b]) d =
  match flow body (bump b 1 d) with
  | None => None
  | Some (None, ab) => Some (None, ab)
  | Some (Some d1, ab) => Some (Some (bump b (-1) d1), ab ++ [])
  end.
Proof.
  cbn [app flow flow1]. rewrite flow_app.
  destruct (flow body (bump b 1 d)) as [[[d1|] ab]|]; reflexivity.
Qed.

(* no abrupt exit is allowed when neither a loop nor a lambda encloses the fragment *)
Lemma abr_none d ab : Forall (abr_ok false false d) ab -> ab = [].
Proof.
  destruct ab as [|[k d'] ab]; [reflexivity|]. intro H. inversion H as [|? ? Ho _]; subst.
  unfold abr_ok in Ho. cbn [fst snd] in Ho. destruct k; try contradiction; destruct Ho; discriminate.
Qed.

(* ---- loops ---------------------------------------------------------------------------------------------
   body = push, B, pop [, C]: B may break / continue (after popping), C is exit-free *)
Lemma all_at_of il d k (ab : list outcome) :
  (k = OBreak \/ k = OContinue) ->
  Forall (abr_ok il false (bump 0 1 d)) ab -> all_at k d ab = true.
Proof.
  intros Hk H. unfold all_at. apply forallb_forall. intros [k' d'] Hin.
  rewrite Forall_forall in H. specialize (H _ Hin). unfold abr_ok in H. cbn [fst snd] in *.
  destruct k'; try contradiction.
  - destruct H as [_ ->]. rewrite bump_inv, delta_eqb_refl. apply orb_true_r.
  - destruct H as [_ ->]. rewrite bump_inv, delta_eqb_refl. apply orb_true_r.
  - destruct H; discriminate.
Qed.

Lemma returns_none il d (ab : list outcome) : Forall (abr_ok il false d) ab -> returns_of ab = [].
Proof.
  induction 1 as [|[k d'] ab Ho _ IH]; [reflexivity|]. unfold returns_of in *. cbn [filter fst].
  unfold abr_ok in Ho. cbn [fst snd] in Ho. destruct k; try contradiction; cbn [okind_eqb]; try exact IH.
  destruct Ho; discriminate.
Qed.

Lemma frag_loop il lam B C :
  frag_ok true false B -> frag_ok false false C ->
  frag_ok il lam [EBlock BLoop ([EPush 0] ++ B ++ [EPop 0] ++ C)].
Proof.
  intros HB HC d. cbn [flow]. rewrite flow1_loop.
  replace ([EPush 0] ++ B ++ [EPop 0] ++ C) with (([EPush 0] ++ B ++ [EPop 0]) ++ C)
    by (rewrite <- !app_assoc; reflexivity).
  rewrite flow_app, flow_push_pop.
  destruct (HB (bump 0 1 d)) as [nb [abb [Fb [Nb Ab]]]]. rewrite Fb.
  assert (Hc : all_at OContinue d abb = true) by (eapply all_at_of; eauto).
  assert (Hk : all_at OBreak d abb = true) by (eapply all_at_of; eauto).
  assert (Hr : returns_of abb = []) by (eapply returns_none; eauto).
  destruct Nb as [-> | [-> Ne]].
  - rewrite bump_inv. destruct (HC d) as [nc [abc [Fc [Nc Ac]]]]. rewrite Fc.
    apply abr_none in Ac. subst abc. rewrite ?app_nil_r.
    destruct Nc as [-> | [-> Ne]]; [|congruence].
    cbn [normal_at]. rewrite delta_eqb_refl, Hc, Hk. cbn [andb]. rewrite Hr.
    exists (Some d), []. repeat split; auto.
  - cbn [normal_at]. rewrite Hc, Hk. cbn [andb]. rewrite Hr.
    exists (Some d), []. repeat split; auto.
Qed.

(* ---- defs ------------------------------------------------------------------------------------------------ *)
Lemma only_returns_of d (ab : list outcome) :
  Forall (abr_ok false true d) ab -> only_kind OReturn ab = true /\ all_at OReturn (down4 d) ab = true.
Proof.
  induction 1 as [|[k d'] ab Ho _ [IH1 IH2]]; [split; reflexivity|].
  unfold abr_ok in Ho. cbn [fst snd] in Ho. unfold only_kind, all_at in *. cbn [forallb fst snd].
  destruct k; try contradiction; try (destruct Ho; discriminate).
  destruct Ho as [_ ->]. cbn [okind_eqb negb orb andb]. rewrite delta_eqb_refl. split; assumption.
Qed.

Lemma forallb_app_true {A} (f : A -> bool) a b : forallb f a = true -> forallb f b = true -> forallb f (a ++ b) = true.
Proof. intros. rewrite forallb_app. rewrite H, H0. reflexivity. Qed.

Lemma frag_lambda il lam B : frag_ok false true B -> frag_ok il lam (lambda_eff B).
Proof.
  intros HB d. unfold lambda_eff. cbn [flow]. rewrite flow1_def.
  change ([EPush 3; EPush 0; EPush 1; EPush 2] ++ B ++ [EPop 0; EPop 1; EPop 2; EPop 3; EReturn])
    with (EPush 3 :: EPush 0 :: EPush 1 :: EPush 2 :: (B ++ [EPop 0; EPop 1; EPop 2; EPop 3; EReturn])).
  cbn [flow flow1]. rewrite flow_app. fold (up4 d0).
  destruct (HB (up4 d0)) as [nb [abb [Fb [Nb Ab]]]]. rewrite Fb.
  destruct (only_returns_of _ _ Ab) as [O1 O2]. rewrite down4_up4 in O2.
  destruct Nb as [-> | [-> Ne]].
  - cbn [flow flow1]. fold (down4 (up4 d0)). rewrite down4_up4. cbn [app normal_at].
    assert (E1 : only_kind OReturn (abb ++ [(OReturn, d0)]) = true)
      by (apply forallb_app_true; [exact O1|reflexivity]).
    assert (E2 : all_at OReturn d0 (abb ++ [(OReturn, d0)]) = true)
      by (apply forallb_app_true; [exact O2|reflexivity]).
    rewrite ?app_nil_r. rewrite E1, E2. cbn [andb].
    exists (Some d), []. repeat split; auto.
  - cbn [normal_at app]. rewrite O1, O2. cbn [andb].
    exists (Some d), []. repeat split; auto.
Qed.

Lemma frag_fndef il lam B : frag_ok false false B ->
  frag_ok il lam [EBlock BDef ([EPush 0; EPush 2; EPush 1] ++ B ++ [EPop 0; EPop 1; EPop 2; EReturn])].
Proof.
  intros HB d. cbn [flow]. rewrite flow1_def.
  change ([EPush 0; EPush 2; EPush 1] ++ B ++ [EPop 0; EPop 1; EPop 2; EReturn])
    with (EPush 0 :: EPush 2 :: EPush 1 :: (B ++ [EPop 0; EPop 1; EPop 2; EReturn])).
  cbn [flow flow1]. rewrite flow_app.
  destruct (HB (bump 1 1 (bump 2 1 (bump 0 1 d0)))) as [nb [abb [Fb [Nb Ab]]]]. rewrite Fb.
  apply abr_none in Ab. subst abb.
  destruct Nb as [-> | [-> Ne]]; [|congruence].
  cbn [flow flow1 app]. vm_compute. exists (Some d), []. repeat split; auto.
Qed.

Lemma frag_item il lam B : frag_ok false false B ->
  frag_ok il lam [EBlock BDef (B ++ [EBlock BIf [EReturn]; EReturn])].
Proof.
  intros HB d. cbn [flow]. rewrite flow1_def. rewrite flow_app.
  destruct (HB d0) as [nb [abb [Fb [Nb Ab]]]]. rewrite Fb.
  apply abr_none in Ab. subst abb.
  destruct Nb as [-> | [-> Ne]]; [|congruence].
  vm_compute. exists (Some d), []. repeat split; auto.
Qed.

Lemma frag_if il lam k B : k = BIf \/ k = BElse -> frag_ok il lam B -> frag_ok il lam [EBlock k B].
Proof.
  intros Hk HB d. cbn [flow]. rewrite (flow1_if k B d Hk).
  destruct (HB d) as [nb [abb [Fb [Nb Ab]]]]. rewrite Fb.
  destruct Nb as [-> | [-> Ne]]; cbn [normal_at]; rewrite ?delta_eqb_refl, ?app_nil_r;
    exists (Some d), abb; repeat split; auto.
Qed.

(* ---- early exits ------------------------------------------------------------------------------------------ *)
Lemma frag_break il lam p :
  match p with Some PFor | Some PWhile => il | Some PLambda => lam | _ => true end = true ->
  frag_ok il lam (eff_break p).
Proof.
  intros H d. unfold eff_break.
  destruct p as [[]|]; try (exists (Some d), []; repeat split; auto; fail).
  - exists None, [(OBreak, bump 0 (-1) d)]. split; [reflexivity|]. split; [right; split; [reflexivity|discriminate]|].
    constructor; [|constructor]. split; [exact H|reflexivity].
  - exists None, [(OBreak, bump 0 (-1) d)]. split; [reflexivity|]. split; [right; split; [reflexivity|discriminate]|].
    constructor; [|constructor]. split; [exact H|reflexivity].
  - exists None, [(OReturn, down4 d)]. split; [reflexivity|]. split; [right; split; [reflexivity|discriminate]|].
    constructor; [|constructor]. split; [exact H|reflexivity].
Qed.

Lemma frag_recurse il lam p :
  match p with Some PFor | Some PWhile => il | _ => true end = true -> frag_ok il lam (eff_recurse p).
Proof.
  intros H d. unfold eff_recurse.
  destruct p as [[]|]; try (exists (Some d), []; repeat split; auto; fail).
  - exists None, [(OContinue, bump 0 (-1) d)]. split; [reflexivity|]. split; [right; split; [reflexivity|discriminate]|].
    constructor; [|constructor]. split; [exact H|reflexivity].
  - exists None, [(OContinue, bump 0 (-1) d)]. split; [reflexivity|]. split; [right; split; [reflexivity|discriminate]|].
    constructor; [|constructor]. split; [exact H|reflexivity].
Qed.

(* ---- the induction over program trees -------------------------------------------------------------------- *)
Definition Q (s : struct) : Prop := forall il lam, exit_ok il lam s = true -> frag_ok il lam (effects s).

Section Ind.
  Variable ef : struct -> list enode.

  Lemma east_ok il lam l :
    Forall (fun s => forall a b, exit_ok a b s = true -> frag_ok a b (ef s)) l ->
    forallb (exit_ok il lam) l = true -> frag_ok il lam (east ef l).
  Proof.
    unfold east. induction 1 as [|x l Hx _ IH]; cbn [forallb flat_map]; intro H; [apply frag_nil|].
    apply andb_prop in H as [H1 H2]. apply frag_app; [apply Hx; exact H1|apply IH; exact H2].
  Qed.

  Lemma eitems_ok il lam its :
    Forall (Forall (fun s => forall a b, exit_ok a b s = true -> frag_ok a b (ef s))) its ->
    forallb (fun l => forallb (exit_ok false false) l) its = true -> frag_ok il lam (eitems ef its).
  Proof.
    induction 1 as [|x its Hx _ IH]; cbn [forallb eitems]; intro H; [apply frag_nil|].
    apply andb_prop in H as [H1 H2].
    change (EBlock BDef (east ef x ++ [EBlock BIf [EReturn]; EReturn]) :: eitems ef its)
      with ([EBlock BDef (east ef x ++ [EBlock BIf [EReturn]; EReturn])] ++ eitems ef its).
    apply frag_app; [apply frag_item; apply east_ok; assumption|apply IH; exact H2].
  Qed.

  Lemma eifs_ok : forall n bs, (length bs <= n)%nat -> forall il lam first,
    Forall (Forall (fun s => forall a b, exit_ok a b s = true -> frag_ok a b (ef s))) bs ->
    forallb (fun l => forallb (exit_ok il lam) l) bs = true -> frag_ok il lam (eifs ef bs first).
  Proof.
    induction n as [|n IH]; intros bs Hlen il lam first HF Hc.
    - destruct bs; [apply frag_nil|simpl in Hlen; lia].
    - destruct bs as [|x [|y rest]].
      + apply frag_nil.
      + inversion HF as [|? ? Hx _]; subst. cbn [forallb] in Hc. rewrite andb_true_r in Hc.
        cbn [eifs]. destruct first; apply frag_if; auto; apply east_ok; assumption.
      + inversion HF as [|? ? Hx HF']; subst. inversion HF' as [|? ? Hy HF'']; subst.
        cbn [forallb] in Hc. apply andb_prop in Hc as [Hcx Hc']. apply andb_prop in Hc' as [Hcy Hcr].
        assert (Hc'' : forallb (fun l => forallb (exit_ok il lam) l) (y :: rest) = true)
          by (cbn [forallb]; rewrite Hcy, Hcr; reflexivity).
        destruct first.
        * change (eifs ef (x :: y :: rest) true) with ([EBlock BIf (east ef x)] ++ eifs ef (y :: rest) false).
          apply frag_app; [apply frag_if; auto; apply east_ok; assumption|].
          apply IH; [simpl in *; lia|assumption|assumption].
        * change (eifs ef (x :: y :: rest) false)
            with [EBlock BElse (east ef x ++ [EBlock BIf (east ef y)] ++ eifs ef rest false)].
          apply frag_if; auto.
          apply frag_app; [apply east_ok; assumption|].
          apply frag_app; [apply frag_if; auto; apply east_ok; assumption|].
          apply IH; [simpl in *; lia|assumption|assumption].
  Qed.
End Ind.

Lemma wrapped_ok il lam a : Q a -> exit_ok false true a = true ->
  frag_ok il lam (match a with
                  | SLambda _ body => lambda_eff (east effects body)
                  | _ => lambda_eff (effects a)
                  end).
Proof.
  intros Qa Hc.
  assert (G : frag_ok il lam (lambda_eff (effects a))) by (apply frag_lambda; apply Qa; exact Hc).
  destruct a; try exact G. apply (Qa il lam). exact Hc.
Qed.

Lemma effects_ok : forall s, Q s.
Proof.
  induction s using struct_ind'; intros il lam Hc; cbn [effects exit_ok] in *.
  - apply frag_nil.
  - apply frag_break. exact Hc.
  - apply frag_recurse. exact Hc.
  - apply (eifs_ok effects (length bs) bs (le_n _)); assumption.
  - apply andb_prop in Hc as [Hc _] || idtac.
    replace ([EPush 0] ++ east effects b ++ [EPop 0]) with ([EPush 0] ++ east effects b ++ [EPop 0] ++ [])
      by (rewrite app_nil_r; reflexivity).
    apply frag_loop; [apply east_ok; assumption|apply frag_nil].
  - apply andb_prop in Hc as [Hc0 Hc1].
    apply frag_app.
    + eapply frag_weaken; [| |apply (east_ok effects false false c H Hc0)]; discriminate.
    + apply frag_loop; apply east_ok; assumption.
  - apply frag_nil.
  - apply frag_fndef. apply east_ok; assumption.
  - apply frag_lambda. apply east_ok; assumption.
  - apply frag_lambda. apply east_ok; assumption.
  - apply eitems_ok; assumption.
  - apply wrapped_ok; assumption.
  - apply andb_prop in Hc as [Ha Hb]. apply frag_app; apply wrapped_ok; assumption.
  - apply andb_prop in Hc as [Hab Hc3]. apply andb_prop in Hab as [Ha Hb].
    apply frag_app; [apply wrapped_ok; assumption|]. apply frag_app; apply wrapped_ok; assumption.
Qed.

Theorem program_balanced l :
  forallb (exit_ok false false) l = true -> balanced (effects_program l) = true.
Proof.
  intro H. unfold balanced, effects_program.
  assert (G : frag_ok false false (east effects l)).
  { apply east_ok; [|exact H]. clear. induction l; constructor; auto. exact (effects_ok a). }
  destruct (G d0) as [n [ab [F [N A]]]]. rewrite F. apply abr_none in A. subst ab.
  destruct N as [-> | [-> Ne]]; [apply delta_eqb_refl|congruence].
Qed.

(* the same after every top-level statement *)
Lemma forallb_firstn {A} (f : A -> bool) l k : forallb f l = true -> forallb f (firstn k l) = true.
Proof.
  revert k; induction l as [|x l IH]; intros [|k]; cbn; intro H; try reflexivity.
  apply andb_prop in H as [H1 H2]. rewrite H1, (IH k H2). reflexivity.
Qed.

Theorem every_prefix_balanced l k :
  forallb (exit_ok false false) l = true -> balanced (effects_program (firstn k l)) = true.
Proof. intro H. apply program_balanced. apply forallb_firstn. exact H. Qed.

(* ---- soundness of the analysis for the nondeterministic semantics ------------------------------------------ *)
Definition in_summary (s : summary) (o : outcome) : Prop :=
  match fst o with
  | ONormal => fst s = Some (snd o)
  | _ => In o (snd s)
  end.

Scheme exec1_mut := Induction for exec1 Sort Prop
  with execl_mut := Induction for execl Sort Prop.

Lemma all_at_In k d ab d' : all_at k d ab = true -> In (k, d') ab -> d' = d.
Proof.
  unfold all_at. intros H Hin. rewrite forallb_forall in H. specialize (H _ Hin). cbn [fst snd] in H.
  destruct k; cbn in H; apply delta_eqb_eq in H; exact H.
Qed.

Lemma normal_at_Some d n d' : normal_at d n = true -> n = Some d' -> d' = d.
Proof. intros H ->. cbn in H. apply delta_eqb_eq. exact H. Qed.

Lemma returns_of_In o ab : fst o = OReturn -> In o ab -> In o (returns_of ab).
Proof. intros Hk Hin. unfold returns_of. apply filter_In. split; [exact Hin|]. rewrite Hk. reflexivity. Qed.

Combined Scheme exec_mutind from exec1_mut, execl_mut.

Lemma in_summary_normal s d : in_summary s (ONormal, d) <-> fst s = Some d.
Proof. reflexivity. Qed.

Lemma flow_sound :
  (forall n d o, exec1 n d o -> forall s, flow1 n d = Some s -> in_summary s o)
  /\ (forall l d o, execl l d o -> forall s, flow l d = Some s -> in_summary s o).
Proof.
  apply exec_mutind.
  - (* push *) intros b d s H. cbn in H. inversion H; subst. reflexivity.
  - (* pop *) intros b d s H. cbn in H. inversion H; subst. reflexivity.
  - intros d s H. cbn in H. inversion H; subst. cbn. auto.
  - intros d s H. cbn in H. inversion H; subst. cbn. auto.
  - intros d s H. cbn in H. inversion H; subst. cbn. auto.
  - (* def *) intros body d s H. rewrite flow1_def in H.
    destruct (flow body d0) as [[nb ab]|]; [|discriminate].
    destruct (normal_at d0 nb && only_kind OReturn ab && all_at OReturn d0 ab); inversion H; subst. reflexivity.
  - (* if skipped *) intros body d s H. rewrite (flow1_if BIf body d (or_introl eq_refl)) in H.
    destruct (flow body d) as [[nb ab]|]; [|discriminate]. destruct (normal_at d nb); inversion H; subst. reflexivity.
  - (* if taken *) intros body d o _ IH s H. rewrite (flow1_if BIf body d (or_introl eq_refl)) in H.
    destruct (flow body d) as [[nb ab]|] eqn:F; [|discriminate].
    destruct (normal_at d nb) eqn:N; inversion H; subst. specialize (IH _ eq_refl).
    destruct o as [[] d']; cbn in *; try exact IH.
    f_equal. symmetry. eapply normal_at_Some; eauto.
  - intros body d s H. rewrite (flow1_if BElse body d (or_intror eq_refl)) in H.
    destruct (flow body d) as [[nb ab]|]; [|discriminate]. destruct (normal_at d nb); inversion H; subst. reflexivity.
  - intros body d o _ IH s H. rewrite (flow1_if BElse body d (or_intror eq_refl)) in H.
    destruct (flow body d) as [[nb ab]|] eqn:F; [|discriminate].
    destruct (normal_at d nb) eqn:N; inversion H; subst. specialize (IH _ eq_refl).
    destruct o as [[] d']; cbn in *; try exact IH.
    f_equal. symmetry. eapply normal_at_Some; eauto.
  - (* loop: no more iterations *) intros body d s H. rewrite flow1_loop in H.
    destruct (flow body d) as [[nb ab]|]; [|discriminate].
    destruct (normal_at d nb && all_at OContinue d ab && all_at OBreak d ab); inversion H; subst. reflexivity.
  - (* loop: a normal iteration, then on *) intros body d d' o _ IH1 _ IH2 s H.
    pose proof H as H'. rewrite flow1_loop in H.
    destruct (flow body d) as [[nb ab]|] eqn:F; [|discriminate].
    destruct (normal_at d nb && all_at OContinue d ab && all_at OBreak d ab) eqn:C; [|discriminate].
    apply andb_prop in C as [C C3]. apply andb_prop in C as [C1 C2].
    specialize (IH1 _ eq_refl). cbn in IH1.
    assert (d' = d) by (eapply normal_at_Some; eauto). subst d'. apply IH2. exact H'.
  - (* loop: continue, then on *) intros body d d' o _ IH1 _ IH2 s H.
    pose proof H as H'. rewrite flow1_loop in H.
    destruct (flow body d) as [[nb ab]|] eqn:F; [|discriminate].
    destruct (normal_at d nb && all_at OContinue d ab && all_at OBreak d ab) eqn:C; [|discriminate].
    apply andb_prop in C as [C C3]. apply andb_prop in C as [C1 C2].
    specialize (IH1 _ eq_refl). cbn in IH1.
    assert (d' = d) by exact (all_at_In OContinue d ab d' C2 IH1). subst d'. apply IH2. exact H'.
  - (* loop: break *) intros body d d' _ IH1 s H. rewrite flow1_loop in H.
    destruct (flow body d) as [[nb ab]|] eqn:F; [|discriminate].
    destruct (normal_at d nb && all_at OContinue d ab && all_at OBreak d ab) eqn:C; [|discriminate].
    apply andb_prop in C as [C C3]. apply andb_prop in C as [C1 C2]. inversion H; subst.
    specialize (IH1 _ eq_refl). cbn in IH1.
    assert (d' = d) by exact (all_at_In OBreak d ab d' C3 IH1). subst d'. reflexivity.
  - (* loop: return *) intros body d d' _ IH1 s H. rewrite flow1_loop in H.
    destruct (flow body d) as [[nb ab]|] eqn:F; [|discriminate].
    destruct (normal_at d nb && all_at OContinue d ab && all_at OBreak d ab) eqn:C; [|discriminate].
    inversion H; subst. specialize (IH1 _ eq_refl). cbn in IH1. cbn. apply returns_of_In; [reflexivity|exact IH1].
  - (* nil *) intros d s H. cbn in H. inversion H; subst. reflexivity.
  - (* cons, first statement normal *) intros x r d d1 o _ IH1 _ IH2 s H. cbn [flow] in H.
    destruct (flow1 x d) as [[n1 ab1]|] eqn:F1; [|discriminate].
    specialize (IH1 _ eq_refl). cbn in IH1. subst n1.
    destruct (flow r d1) as [[n2 ab2]|] eqn:F2; [|discriminate]. inversion H; subst.
    specialize (IH2 _ eq_refl). destruct o as [[] d']; cbn in *; try exact IH2; apply in_or_app; right; exact IH2.
  - (* cons, first statement leaves *) intros x r d k d1 _ IH1 Hk s H. cbn [flow] in H.
    destruct (flow1 x d) as [[n1 ab1]|] eqn:F1; [|discriminate].
    specialize (IH1 _ eq_refl).
    assert (Hin : In (k, d1) ab1) by (destruct k; cbn in IH1; try exact IH1; congruence).
    destruct n1 as [d1'|].
    + destruct (flow r d1') as [[n2 ab2]|]; [|discriminate]. inversion H; subst.
      destruct k; cbn; try congruence; apply in_or_app; left; exact Hin.
    + inversion H; subst. destruct k; cbn; try congruence; exact Hin.
Qed.

(* every way a balanced program can run ends normally at the depths it started with *)
Theorem balanced_runs l o : balanced l = true -> execl l d0 o -> o = (ONormal, d0).
Proof.
  unfold balanced. intros B E.
  destruct (flow l d0) as [[[d|] [|a ab]]|] eqn:F; try discriminate.
  apply delta_eqb_eq in B. subst d.
  pose proof (proj2 flow_sound l d0 o E _ F) as S.
  destruct o as [[] d']; cbn in S; try contradiction. inversion S; subst. reflexivity.
Qed.

Theorem program_runs_balanced l o :
  forallb (exit_ok false false) l = true -> execl (effects_program l) d0 o -> o = (ONormal, d0).
Proof. intros H E. eapply balanced_runs; [apply program_balanced; exact H|exact E]. Qed.

(* ---- the obligations on the rest of the code (regenerated facts) ------------------------------------------ *)
Definition allowed_site (site : list N * list N * list N * list N) : bool :=
  let '(file, fn, book, op) := site in
  mem_str fn [ [76;97;122;121;76;105;115;116;46;111;117;116;112;117;116];          (* LazyList.output *)
               [67;111;110;116;101;120;116;46;95;95;105;110;105;116;95;95];          (* Context.__init__ *)
               [67;111;110;116;101;120;116;46;99;111;112;121];                        (* Context.copy *)
               [101;120;101;99;117;116;101;95;118;121;120;97;108];                    (* execute_vyxal *)
               [114;101;112;108] ]%N.                                                 (* repl *)

Lemma book_facts :
  forallb allowed_site book_sites = true /\ template_book_sites = [] /\ lazylist_output_balanced = true.
Proof. vm_compute. repeat split; reflexivity. Qed.
