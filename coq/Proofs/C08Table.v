(* Property C08, the sweep over the regenerated tables (Gen/Dispatch.v): every
   documented-vectorising element whose function has a vectorise fallback passes
   vec_complete on every combination of argument types with a list among them that
   is not an overload documented in elements.yaml. *)
From Coq Require Import List NArith ZArith Bool Arith Lia.
From Vy Require Import Model.Base Model.Vectorise Proofs.VectoriseProofs Gen.Dispatch.
Import ListNotations.

(* the translator ran to completion (it writes `false` when it could not) *)
Lemma translator_ran : translator_ok = true.
Proof. reflexivity. Qed.

Lemma curated_sweep : forallb (entry_ok doc_overloads) curated = true.
Proof. vm_compute. reflexivity. Qed.

Lemma every_curated_ok : forall e, In e curated -> entry_ok doc_overloads e = true.
Proof. apply forallb_forall. exact curated_sweep. Qed.

(* the combinations C08 is asserted on, per element *)
Definition strict (e : dentry) (ts : list tag) : bool :=
  negb (documented_overload doc_overloads e ts).

Lemma curated_monadic : forall e, In e curated -> de_arity e = 1%nat ->
  forall orc base, elementwise1_on (strict e) (elem1 (de_tree e) default_flags orc base).
Proof.
  intros e He Ha orc base. pose proof (every_curated_ok e He) as H.
  unfold entry_ok in H. rewrite Ha in H. apply sound1_on. exact H.
Qed.

Lemma curated_dyadic : forall e, In e curated -> de_arity e = 2%nat ->
  forall orc base, elementwise2_on (strict e) (elem2 (de_tree e) default_flags orc base).
Proof.
  intros e He Ha orc base. pose proof (every_curated_ok e He) as H.
  unfold entry_ok in H. rewrite Ha in H. apply sound2_on. exact H.
Qed.

Lemma curated_arity : forall e, In e curated -> de_arity e = 1%nat \/ de_arity e = 2%nat.
Proof.
  intros e He. pose proof (every_curated_ok e He) as H. unfold entry_ok in H.
  destruct (de_arity e) as [|[|[|n]]]; try discriminate; auto.
Qed.

Lemma curated_nonempty : curated <> [] /\ translator_ok = true.
Proof. split; [discriminate | reflexivity]. Qed.

(* the property speaks of 88 elements: none may drop out of the table (an element
   whose function stops calling vectorise would otherwise escape the sweep) *)
Lemma curated_size : (88 <= length curated)%nat.
Proof. apply Nat.leb_le. vm_compute. reflexivity. Qed.
