(* C01: non-vacuity -- concrete programs of the core grammar evaluated by both evaluators. *)
From Coq Require Import List NArith ZArith Bool.
From Vy Require Import Model.Base Model.Lexer Model.Parser Model.Transpile Model.Values Model.Machine Model.RefSem.
Import ListNotations.
Open Scope Z_scope.

(* 1[4(n3<[n|nλd;†],)|9]   a lambda called inside an if inside a for inside an if (FizzBuzz-like):
   prints 1, 2, then the doubles 6, 8; nothing is left, nothing more is printed *)
Definition ex_src1 : str := [49; 91; 52; 40; 110; 51; 60; 91; 110; 124; 110; 955; 100; 59; 8224; 93; 44; 41; 124; 57; 93]%N.
(* @f:2|+;3→a ←a(n ←a @f;→b) ←b 2 ƛ›;J   a named function with two arguments, a variable,
   a for loop storing a + n in b, a map lambda; the implicit output prints b joined with the mapped list *)
Definition ex_src2 : str := [64; 102; 58; 50; 124; 43; 59; 51; 8594; 97; 32; 8592; 97; 40; 110; 32; 8592; 97; 32; 64; 102; 59; 8594; 98; 41; 32; 8592; 98; 32; 50; 32; 411; 8250; 59; 74]%N.

Definition text (l : list (list N)) : str := flat_map (fun x => x ++ [10%N]) l.

Lemma example1 :
  exists p s, parse_source ex_src1 = Ok p /\ core_program p = true
    /\ run_machine FlNone 12 [] p = XOk s /\ run_ref FlNone 12 [] p = XOk s
    /\ stk s = [] /\ out s = text [[49]; [50]; [54]; [56]]%N.
Proof. eexists. eexists. split; [vm_compute; reflexivity|]. vm_compute. repeat split; reflexivity. Qed.

Lemma example2 :
  exists p s, parse_source ex_src2 = Ok p /\ core_program p = true
    /\ run_machine FlNone 12 [] p = XOk s /\ run_ref FlNone 12 [] p = XOk s
    /\ stk s = [] /\ out s = text [[10216; 32; 54; 32; 124; 32; 50; 32; 124; 32; 51; 32; 10217]]%N.
Proof. eexists. eexists. split; [vm_compute; reflexivity|]. vm_compute. repeat split; reflexivity. Qed.

(* the same first program with inputs and flags: H presets 100, W prints the whole stack *)
Lemma example3 :
  exists p s, parse_source [43; 43]%N = Ok p /\ core_program p = true
    /\ run_machine FlW 5 [VInt 3; VList [VInt 1; VInt 2]] p = XOk s
    /\ run_ref FlW 5 [VInt 3; VList [VInt 1; VInt 2]] p = XOk s
    /\ out s = text [[10216; 32; 10216; 32; 55; 32; 124; 32; 56; 32; 10217; 32; 10217]]%N.
Proof. eexists. eexists. split; [vm_compute; reflexivity|]. vm_compute. repeat split; reflexivity. Qed.
