(* C01: non-vacuity -- concrete programs of the core grammar evaluated by both evaluators. *)
From Coq Require Import List NArith ZArith Bool.
From Vy Require Import Model.Base Model.Lexer Model.Parser Model.Transpile Model.Values Model.Machine Model.RefSem.
Import ListNotations.
Open Scope Z_scope.

(* 1[4(n3<[n|nλd;†],)|9]   a lambda called inside an if inside a for inside an if (FizzBuzz-like):
   prints 1, 2, then the doubles 6, 8; nothing is left, nothing more is printed *)
Definition ex_src1 : str := [49; 91; 52; 40; 110; 51; 60; 91; 110; 124; 110; 955; 100; 59; 8224; 93; 44; 41; 124; 57; 93]%N.
(* @f:2|+;3→a ←a(n ←a @f;→b) ←b 2 ƛ›;J   a named function with two arguments, a variable,
   a for loop storing a + n in b, a map lambda; the implicit output prints b joined with the mapped list *)
Definition ex_src2 : str := [64; 102; 58; 50; 124; 43; 59; 51; 8594; 97; 32; 8592; 97; 40; 110; 32; 8592; 97; 32; 64; 102; 59; 8594; 98; 41; 32; 8592; 98; 32; 50; 32; 411; 8250; 59; 74]%N.

Definition text (l : list (list N)) : str := flat_map (fun x => x ++ [10%N]) l.

Lemma example1 :
  exists p s, parse_source ex_src1 = Ok p /\ core_program p = true
    /\ run_machine FlNone 12 [] p = XOk s /\ run_ref FlNone 12 [] p = XOk s
    /\ stk s = [] /\ out s = text [[49]; [50]; [54]; [56]]%N.
Proof. eexists. eexists. split; [vm_compute; reflexivity|]. vm_compute. repeat split; reflexivity. Qed.

Lemma example2 :
  exists p s, parse_source ex_src2 = Ok p /\ core_program p = true
    /\ run_machine FlNone 12 [] p = XOk s /\ run_ref FlNone 12 [] p = XOk s
    /\ stk s = [] /\ out s = text [[10216; 32; 54; 32; 124; 32; 50; 32; 124; 32; 51; 32; 10217]]%N.
Proof. eexists. eexists. split; [vm_compute; reflexivity|]. vm_compute. repeat split; reflexivity. Qed.

(* the same first program with inputs and flags: H presets 100, W prints the whole stack *)
Lemma example3 :
  exists p s, parse_source [43; 43]%N = Ok p /\ core_program p = true
    /\ run_machine FlW 5 [VInt 3; VList [VInt 1; VInt 2]] p = XOk s
    /\ run_ref FlW 5 [VInt 3; VList [VInt 1; VInt 2]] p = XOk s
    /\ out s = text [[10216; 32; 10216; 32; 55; 32; 124; 32; 56; 32; 10217; 32; 10217]]%N.
Proof. eexists. eexists. split; [vm_compute; reflexivity|]. vm_compute. repeat split; reflexivity. Qed.

(* ---- early exits -------------------------------------------------------------------------------------- *)
(* 5 λ:[:‹x*|_1];†   factorial by recursion (x) with a base case: prints 120 *)
Definition ex_src_fact : str := [53; 32; 955; 58; 91; 58; 8249; 120; 42; 124; 95; 49; 93; 59; 8224]%N.
(* 5(n3=[X]n,)   the loop breaks at the third item: prints 1, 2 *)
Definition ex_src_break : str := [53; 40; 110; 51; 61; 91; 88; 93; 110; 44; 41]%N.
(* 4(n λ:2>[:3>[X|d]|N];†,)   early return from nested ifs in a lambda called from a loop; 5(n3=[x]n,) continue *)
Definition ex_src_ret : str := [52; 40; 110; 32; 955; 58; 50; 62; 91; 58; 51; 62; 91; 88; 124; 100; 93; 124; 78; 93; 59; 8224; 44; 41]%N.
Definition ex_src_cont : str := [53; 40; 110; 51; 61; 91; 120; 93; 110; 44; 41]%N.

Lemma example_fact :
  exists p s, parse_source ex_src_fact = Ok p /\ core_program p = true
    /\ run_machine FlNone 40 [] p = XOk s /\ run_ref FlNone 40 [] p = XOk s
    /\ stk s = [] /\ out s = text [[49; 50; 48]]%N.
Proof. eexists. eexists. split; [vm_compute; reflexivity|]. vm_compute. repeat split; reflexivity. Qed.

Lemma example_break :
  exists p s, parse_source ex_src_break = Ok p /\ core_program p = true
    /\ run_machine FlNone 12 [] p = XOk s /\ run_ref FlNone 12 [] p = XOk s
    /\ stk s = [] /\ out s = text [[49]; [50]]%N.
Proof. eexists. eexists. split; [vm_compute; reflexivity|]. vm_compute. repeat split; reflexivity. Qed.

Lemma example_return_continue :
  (exists p s, parse_source ex_src_ret = Ok p /\ core_program p = true
    /\ run_machine FlNone 12 [] p = XOk s /\ run_ref FlNone 12 [] p = XOk s
    /\ out s = text [[45; 49]; [45; 50]; [54]; [52]]%N)
  /\ (exists p s, parse_source ex_src_cont = Ok p /\ core_program p = true
    /\ run_machine FlNone 12 [] p = XOk s /\ run_ref FlNone 12 [] p = XOk s
    /\ out s = text [[49]; [50]; [52]; [53]]%N).
Proof.
  split; (eexists; eexists; split; [vm_compute; reflexivity|]; vm_compute; repeat split; reflexivity).
Qed.

(* the decidable guard: what stays outside the core because the emitted line is not what the documents say
   {X|1}  X in a while CONDITION (known finding C02-exit-in-while-condition: SyntaxError);
   3ƛ5X9;  X in a map lambda and  @f:1|5X9;  X in a named function (emitted: pass);
   1{x}  x in a while body (continue re-tests the stale condition);  @f:1|x;  x in a named function (prints) *)
Definition core_of (src : str) : option bool :=
  match parse_source src with Ok p => Some (core_program p) | _ => None end.
Lemma guard_examples :
  core_of [123; 88; 124; 49; 125]%N = Some false /\ core_of [51; 411; 53; 88; 57; 59]%N = Some false
  /\ core_of [64; 102; 58; 49; 124; 53; 88; 57; 59]%N = Some false /\ core_of [49; 123; 120; 125]%N = Some false
  /\ core_of [64; 102; 58; 49; 124; 120; 59]%N = Some false /\ core_of [51; 40; 118; 43; 88; 41]%N = Some false
  /\ core_of [51; 40; 110; 50; 61; 91; 88; 93; 41]%N = Some true /\ core_of [955; 118; 120; 59]%N = Some true /\ core_of [955; 118; 43; 120; 59]%N = Some false.
Proof. vm_compute. repeat split; reflexivity. Qed.

(* ---- strings ------------------------------------------------------------------------------------------ *)
(* `ab`(n\!+,)`0`[`yes`|`no`],   a for loop over the characters of a string, concatenation with a character literal,
   the string "0" is true: prints a!, b!, yes *)
Definition ex_src_str1 : str := [96; 97; 98; 96; 40; 110; 92; 33; 43; 44; 41; 96; 48; 96; 91; 96; 121; 101; 115; 96; 124; 96; 110; 111; 96; 93; 44]%N.
(* ⟨`a`|1⟩`b`+   + vectorises over a list of a string and a number; inside a list strings print back-quoted *)
Definition ex_src_str2 : str := [10216; 96; 97; 96; 124; 49; 10217; 96; 98; 96; 43]%N.

Lemma example_strings :
  (exists p s, parse_source ex_src_str1 = Ok p /\ core_program p = true
    /\ run_machine FlNone 12 [] p = XOk s /\ run_ref FlNone 12 [] p = XOk s
    /\ stk s = [] /\ out s = text [[97; 33]; [98; 33]; [121; 101; 115]]%N)
  /\ (exists p s, parse_source ex_src_str2 = Ok p /\ core_program p = true
    /\ run_machine FlNone 12 [] p = XOk s /\ run_ref FlNone 12 [] p = XOk s
    /\ stk s = [] /\ out s = text [[10216; 32; 96; 97; 98; 96; 32; 124; 32; 96; 49; 98; 96; 32; 10217]]%N).
Proof.
  split; (eexists; eexists; split; [vm_compute; reflexivity|]; vm_compute; repeat split; reflexivity).
Qed.

(* ---- variables and functions inside functions -------------------------------------------------------------- *)
(* @f:1|:[:‹@f;*|_1];5 @f;   a named function calling itself by name: 5! = 120 *)
Definition ex_src_named_rec : str := [64; 102; 58; 49; 124; 58; 91; 58; 8249; 64; 102; 59; 42; 124; 95; 49; 93; 59; 53; 32; 64; 102; 59]%N.
(* @f:p|λ←p +;;3 @f;→g 4 ←g†   a lambda defined inside a named function reads the function's named parameter; it is
   stored in a variable and called after the function has returned: 3 + 4 = 7 *)
Definition ex_src_closure : str := [64; 102; 58; 112; 124; 955; 8592; 112; 32; 43; 59; 59; 51; 32; 64; 102; 59; 8594; 103; 32; 52; 32; 8592; 103; 8224]%N.
(* 5→a λ←a 6→a;†   an assignment makes the name local to the lambda: the read before it fails although a global exists;
   5→a λ6→a;† ←a   the lambda's assignment does not touch the global: 5 *)
Definition ex_src_unbound : str := [53; 8594; 97; 32; 955; 8592; 97; 32; 54; 8594; 97; 59; 8224]%N.
Definition ex_src_local : str := [53; 8594; 97; 32; 955; 54; 8594; 97; 59; 8224; 32; 8592; 97]%N.

Lemma example_named_recursion :
  exists p s, parse_source ex_src_named_rec = Ok p /\ core_program p = true
    /\ run_machine FlNone 40 [] p = XOk s /\ run_ref FlNone 40 [] p = XOk s
    /\ stk s = [] /\ out s = text [[49; 50; 48]]%N.
Proof. eexists. eexists. split; [vm_compute; reflexivity|]. vm_compute. repeat split; reflexivity. Qed.

Lemma example_closure :
  exists p s, parse_source ex_src_closure = Ok p /\ core_program p = true
    /\ run_machine FlNone 12 [] p = XOk s /\ run_ref FlNone 12 [] p = XOk s
    /\ stk s = [] /\ out s = text [[55]]%N.
Proof. eexists. eexists. split; [vm_compute; reflexivity|]. vm_compute. repeat split; reflexivity. Qed.

Lemma example_scoping :
  (exists p, parse_source ex_src_unbound = Ok p /\ core_program p = true
     /\ run_machine FlNone 12 [] p = XErr EName /\ run_ref FlNone 12 [] p = XErr EName)
  /\ (exists p s, parse_source ex_src_local = Ok p /\ core_program p = true
     /\ run_machine FlNone 12 [] p = XOk s /\ run_ref FlNone 12 [] p = XOk s /\ out s = text [[53]]%N).
Proof.
  split; [eexists; split; [vm_compute; reflexivity|]; vm_compute; repeat split; reflexivity|].
  eexists; eexists; split; [vm_compute; reflexivity|]; vm_compute; repeat split; reflexivity.
Qed.
