(* Proofs for property C08: a dispatch skeleton that passes `vec_complete` makes the
   generic element act element-wise, for lists of every length and nesting depth. *)
From Coq Require Import List NArith ZArith Bool Arith Lia.
From Vy Require Import Model.Base Model.Vectorise.
Import ListNotations.

(* ---- conditions, pick and reach ------------------------------------------------ *)
Lemma eval3_sound flags orc ts c b :
  eval_cond3 flags ts c = Some b -> eval_cond flags orc ts c = b.
Proof.
  revert b; induction c as [simple ps|n|i|c IH|c1 IH1 c2 IH2|c1 IH1 c2 IH2]; simpl; intros b H.
  - inversion H; reflexivity.
  - inversion H; reflexivity.
  - discriminate.
  - destruct (eval_cond3 flags ts c) as [x|]; simpl in H; [|discriminate].
    inversion H; subst. rewrite (IH x eq_refl). reflexivity.
  - destruct (eval_cond3 flags ts c1) as [[|]|], (eval_cond3 flags ts c2) as [[|]|];
      inversion H; subst;
      try rewrite (IH1 _ eq_refl); try rewrite (IH2 _ eq_refl);
      simpl; try reflexivity; try apply andb_false_r.
  - destruct (eval_cond3 flags ts c1) as [[|]|], (eval_cond3 flags ts c2) as [[|]|];
      inversion H; subst;
      try rewrite (IH1 _ eq_refl); try rewrite (IH2 _ eq_refl);
      simpl; try reflexivity; try apply orb_true_r.
Qed.

Lemma pick_reach flags orc d ts : In (pick flags orc d ts) (reach flags d ts).
Proof.
  induction d as [l|c t IHt e IHe]; simpl.
  - left; reflexivity.
  - destruct (eval_cond3 flags ts c) as [[|]|] eqn:E.
    + rewrite (eval3_sound _ orc _ _ _ E). exact IHt.
    + rewrite (eval3_sound _ orc _ _ _ E). exact IHe.
    + apply in_or_app. destruct (eval_cond flags orc ts c); [left; exact IHt | right; exact IHe].
Qed.

Lemma leaf_eqb_eq a b : leaf_eqb a b = true -> a = b.
Proof.
  destruct a as [|x|], b as [|y|]; simpl; intro H; try discriminate; try reflexivity.
  apply Bool.eqb_prop in H. subst. reflexivity.
Qed.

Lemma shape_ok_pick d ts orc :
  shape_ok d ts = true -> pick default_flags orc d ts = Vec false.
Proof.
  unfold shape_ok. intro H. rewrite forallb_forall in H.
  symmetry. apply leaf_eqb_eq. apply H. apply pick_reach.
Qed.

Lemma never_vec_pick d ts orc :
  shape_never_vec d ts = true -> pick default_flags orc d ts <> Vec false.
Proof.
  unfold shape_never_vec. intros H E. rewrite forallb_forall in H.
  specialize (H _ (pick_reach default_flags orc d ts)). rewrite E in H. discriminate.
Qed.

(* ---- the tag tuples enumerated by vec_complete -------------------------------------- *)
Lemma in_tuples1 a : tag_of a <> TFun -> In [tag_of a] (tag_tuples 1).
Proof. destruct (tag_of a); intro H; simpl; tauto. Qed.

Lemma in_tuples2 a b : tag_of a <> TFun -> tag_of b <> TFun -> In [tag_of a; tag_of b] (tag_tuples 2).
Proof.
  destruct (tag_of a); intro Ha; try (contradiction Ha; reflexivity);
  destruct (tag_of b); intro Hb; try (contradiction Hb; reflexivity);
  simpl; tauto.
Qed.

Lemma complete_shape ex n d ts :
  vec_complete_ex ex n d = true -> In ts (tag_tuples n) ->
  existsb listy ts = true -> ex ts = false -> shape_ok d ts = true.
Proof.
  unfold vec_complete_ex. intros H Hin Hl Hex. rewrite forallb_forall in H.
  specialize (H _ Hin). rewrite Hl, Hex in H. simpl in H. exact H.
Qed.

Lemma tag_list_not_fun lz xs : tag_of (VList lz xs) <> TFun.
Proof. destruct lz; discriminate. Qed.
Lemma tag_scalar_not_fun s : is_scalar s = true -> tag_of s <> TFun.
Proof. destruct s as [| |[|]|]; simpl; intro H; discriminate. Qed.
Lemma listy_list lz xs : listy (tag_of (VList lz xs)) = true.
Proof. destruct lz; reflexivity. Qed.

(* ---- depth ------------------------------------------------------------------------------ *)
Lemma depth_item lz xs x : In x xs -> (depth x < depth (VList lz xs))%nat.
Proof.
  simpl. induction xs as [|y xs IH]; simpl; intro H; [contradiction|].
  destruct H as [H|H]; [subst; lia | specialize (IH H); lia].
Qed.

Lemma zip_fill_in xs ys p : In p (zip_fill xs ys) ->
  (In (fst p) xs \/ fst p = VNum 0) /\ (In (snd p) ys \/ snd p = VNum 0).
Proof.
  revert ys; induction xs as [|x xs IH]; intros ys H; simpl in H.
  - apply in_map_iff in H as [y [E Hy]]. subst p. simpl. split; [right; reflexivity | left; exact Hy].
  - destruct ys as [|y ys]; destruct H as [H|H].
    + subst p; simpl. split; [left; left; reflexivity | right; reflexivity].
    + apply IH in H as [[H1|H1] [H2|H2]]; simpl; try contradiction; split; auto.
    + subst p; simpl. split; left; left; reflexivity.
    + apply IH in H as [H1 H2]. simpl. split; [destruct H1; auto | destruct H2; auto].
Qed.

Lemma zip_fill_depth lx xs ly ys p : In p (zip_fill xs ys) ->
  (Nat.max (depth (fst p)) (depth (snd p)) < Nat.max (depth (VList lx xs)) (depth (VList ly ys)))%nat.
Proof.
  intro H. apply zip_fill_in in H as [H1 H2].
  assert (A : (depth (fst p) < depth (VList lx xs))%nat).
  { destruct H1 as [H1|H1]; [apply depth_item; exact H1 | rewrite H1; simpl; lia]. }
  assert (B : (depth (snd p) < depth (VList ly ys))%nat).
  { destruct H2 as [H2|H2]; [apply depth_item; exact H2 | rewrite H2; simpl; lia]. }
  lia.
Qed.

Lemma zip_fill_length xs ys : length (zip_fill xs ys) = Nat.max (length xs) (length ys).
Proof.
  revert ys; induction xs as [|x xs IH]; intros ys; simpl.
  - apply map_length.
  - destruct ys as [|y ys]; simpl; rewrite IH; simpl; lia.
Qed.

Lemma nth_nil {A} i (dflt : A) : nth i [] dflt = dflt.
Proof. destruct i; reflexivity. Qed.

Lemma nth_zip_fill xs ys i :
  nth i (zip_fill xs ys) (VNum 0, VNum 0) = (nth i xs (VNum 0), nth i ys (VNum 0)).
Proof.
  revert ys i; induction xs as [|x xs IH]; intros ys i; cbn [zip_fill].
  - rewrite nth_nil. revert i; induction ys as [|y ys IHy]; intros i.
    + cbn [map]. rewrite !nth_nil. reflexivity.
    + destruct i as [|i]; cbn [map nth]; [reflexivity | apply IHy].
  - destruct ys as [|y ys]; destruct i as [|i]; cbn [nth]; try reflexivity.
    + rewrite IH. rewrite !nth_nil. reflexivity.
    + apply IH.
Qed.

Lemma nth_map_default {A B} (g : A -> B) (l : list A) (i : nat) (dA : A) (dB : B) :
  (i < length l)%nat -> nth i (map g l) dB = g (nth i l dA).
Proof.
  intro H. rewrite (nth_indep (map g l) dB (g dA)) by (rewrite map_length; exact H).
  apply map_nth.
Qed.

(* ================================ monadic ================================== *)
Section Mon.
  Variable d : dtree.
  Variable orc : nat -> bool.
  Variable base : v -> v.
  Notation G := (gen_elem1 d default_flags orc base).
  Notation E := (elem1 d default_flags orc base).

  (* enough fuel is enough: the result does not depend on it *)
  Lemma gen1_irrel k1 : forall k2 a, (depth a < k1)%nat -> (depth a < k2)%nat -> G k1 a = G k2 a.
  Proof.
    induction k1 as [|k1 IH]; intros k2 a H1 H2; [lia|].
    destruct k2 as [|k2]; [lia|].
    destruct a as [z|s|lz xs|]; cbn [gen_elem1 is_list]; try reflexivity.
    destruct (pick default_flags orc d [tag_of (VList lz xs)]) as [|[|]|]; try reflexivity.
    cbn [vectorise1]. f_equal. apply map_ext_in. intros x Hx.
    pose proof (depth_item lz xs x Hx) as Hd. apply IH; lia.
  Qed.

  Lemma elem1_step lz xs :
    pick default_flags orc d [tag_of (VList lz xs)] = Vec false ->
    E (VList lz xs) = VList true (map E xs).
  Proof.
    intro Hp. unfold elem1 at 1. cbn [gen_elem1 is_list]. rewrite Hp. cbn [vectorise1].
    f_equal. apply map_ext_in. intros x Hx. unfold elem1.
    pose proof (depth_item lz xs x Hx) as Hd. apply gen1_irrel; lia.
  Qed.

  Lemma sound1_on ex :
    vec_complete_ex ex 1 d = true ->
    elementwise1_on (fun ts => negb (ex ts)) E.
  Proof.
    intros Hc lz xs Hok. apply negb_true_iff in Hok.
    apply elem1_step. apply shape_ok_pick.
    apply (complete_shape ex 1 d _ Hc).
    - apply in_tuples1. apply tag_list_not_fun.
    - cbn [existsb]. rewrite listy_list. reflexivity.
    - exact Hok.
  Qed.

  Lemma sound1 : vec_complete 1 d = true -> elementwise1 E.
  Proof.
    intros Hc lz xs. apply (sound1_on (fun _ => false) Hc). reflexivity.
  Qed.

  (* a shape whose paths never reach the fallback is not element-wise *)
  Lemma never_vec1 a :
    is_list a = true -> shape_never_vec d [tag_of a] = true ->
    E a = base a \/ E a = VErr.
  Proof.
    intros Hl Hn. unfold elem1. cbn [gen_elem1]. rewrite Hl.
    pose proof (never_vec_pick d [tag_of a] orc Hn) as Hp.
    destruct (pick default_flags orc d [tag_of a]) as [|[|]|]; auto. contradiction Hp; reflexivity.
  Qed.
End Mon.

(* closed form over nested lists, any depth *)
Lemma deep1_of_elementwise (f : v -> v) : elementwise1 f -> forall a, f a = deep1 f a.
Proof.
  intros Hf a. remember (S (depth a)) as n eqn:En.
  assert (Hn : (depth a < n)%nat) by lia. clear En. revert a Hn.
  induction n as [|n IH]; intros a Hn; [lia|].
  destruct a as [z|s|lz xs|]; try reflexivity.
  rewrite Hf. cbn [deep1]. f_equal. apply map_ext_in. intros x Hx.
  pose proof (depth_item lz xs x Hx). apply IH. lia.
Qed.

(* ================================= dyadic =================================== *)
Section Dy.
  Variable d : dtree.
  Variable orc : nat -> bool.
  Variable base : v -> v -> v.
  Notation G := (gen_elem2 d default_flags orc base).
  Notation E := (elem2 d default_flags orc base).

  Lemma gen2_irrel k1 : forall k2 a b,
    (Nat.max (depth a) (depth b) < k1)%nat -> (Nat.max (depth a) (depth b) < k2)%nat ->
    G k1 a b = G k2 a b.
  Proof.
    induction k1 as [|k1 IH]; intros k2 a b H1 H2; [lia|].
    destruct k2 as [|k2]; [lia|].
    cbn [gen_elem2].
    destruct (is_list a || is_list b); [|reflexivity].
    destruct (pick default_flags orc d [tag_of a; tag_of b]) as [|[|]|]; try reflexivity.
    destruct a as [za|sa|la xs|]; destruct b as [zb|sb|lb ys|]; cbn [vectorise2]; try reflexivity;
      f_equal; apply map_ext_in.
    - intros y Hy. pose proof (depth_item lb ys y Hy). simpl in *. apply IH; simpl; lia.
    - intros y Hy. pose proof (depth_item lb ys y Hy). simpl in *. apply IH; simpl; lia.
    - intros x Hx. pose proof (depth_item la xs x Hx). simpl in *. apply IH; simpl; lia.
    - intros x Hx. pose proof (depth_item la xs x Hx). simpl in *. apply IH; simpl; lia.
    - intros p Hp. pose proof (zip_fill_depth la xs lb ys p Hp). apply IH; lia.
  Qed.

  Lemma elem2_unfold a b :
    is_list a || is_list b = true ->
    pick default_flags orc d [tag_of a; tag_of b] = Vec false ->
    E a b = vectorise2 (G (Nat.max (depth a) (depth b))) a b.
  Proof.
    intros Hl Hp. unfold elem2. cbn [gen_elem2]. rewrite Hl, Hp. reflexivity.
  Qed.

  Lemma step_ls lz xs s :
    is_scalar s = true ->
    pick default_flags orc d [tag_of (VList lz xs); tag_of s] = Vec false ->
    law_ls E lz xs s.
  Proof.
    intros Hs Hp. unfold law_ls. rewrite (elem2_unfold (VList lz xs) s eq_refl Hp).
    destruct s as [z|st| |]; try discriminate; cbn [vectorise2]; f_equal; apply map_ext_in;
      intros x Hx; pose proof (depth_item lz xs x Hx); unfold elem2; apply gen2_irrel; simpl in *; lia.
  Qed.

  Lemma step_sl s lz ys :
    is_scalar s = true ->
    pick default_flags orc d [tag_of s; tag_of (VList lz ys)] = Vec false ->
    law_sl E s lz ys.
  Proof.
    intros Hs Hp. unfold law_sl.
    assert (Hl : is_list s || is_list (VList lz ys) = true) by (destruct s; reflexivity).
    rewrite (elem2_unfold s (VList lz ys) Hl Hp).
    destruct s as [z|st| |]; try discriminate; cbn [vectorise2]; f_equal; apply map_ext_in;
      intros y Hy; pose proof (depth_item lz ys y Hy); unfold elem2; apply gen2_irrel; simpl in *; lia.
  Qed.

  Lemma step_ll lx xs ly ys :
    pick default_flags orc d [tag_of (VList lx xs); tag_of (VList ly ys)] = Vec false ->
    law_ll E lx xs ly ys.
  Proof.
    intro Hp. unfold law_ll.
    exists (map (fun p => E (fst p) (snd p)) (zip_fill xs ys)). split; [|split].
    - rewrite (elem2_unfold (VList lx xs) (VList ly ys) eq_refl Hp). cbn [vectorise2]. f_equal. apply map_ext_in.
      intros p Hin. pose proof (zip_fill_depth lx xs ly ys p Hin). unfold elem2. apply gen2_irrel; lia.
    - rewrite map_length. apply zip_fill_length.
    - intros i Hi. rewrite map_length in Hi.
      rewrite (nth_map_default _ _ _ (VNum 0, VNum 0)) by exact Hi.
      rewrite nth_zip_fill. reflexivity.
  Qed.

  Lemma sound2_on ex :
    vec_complete_ex ex 2 d = true ->
    elementwise2_on (fun ts => negb (ex ts)) E.
  Proof.
    intro Hc. split; [|split].
    - intros lz xs s Hs Hok. apply negb_true_iff in Hok. apply step_ls; [exact Hs|].
      apply shape_ok_pick. apply (complete_shape ex 2 d _ Hc).
      + apply in_tuples2; [apply tag_list_not_fun | apply tag_scalar_not_fun; exact Hs].
      + cbn [existsb]. rewrite listy_list. reflexivity.
      + exact Hok.
    - intros s lz ys Hs Hok. apply negb_true_iff in Hok. apply step_sl; [exact Hs|].
      apply shape_ok_pick. apply (complete_shape ex 2 d _ Hc).
      + apply in_tuples2; [apply tag_scalar_not_fun; exact Hs | apply tag_list_not_fun].
      + cbn [existsb]. rewrite listy_list. apply orb_true_r.
      + exact Hok.
    - intros lx xs ly ys Hok. apply negb_true_iff in Hok. apply step_ll.
      apply shape_ok_pick. apply (complete_shape ex 2 d _ Hc).
      + apply in_tuples2; apply tag_list_not_fun.
      + cbn [existsb]. rewrite listy_list. reflexivity.
      + exact Hok.
  Qed.

  Lemma sound2 : vec_complete 2 d = true -> elementwise2 E.
  Proof.
    intro Hc. destruct (sound2_on (fun _ => false) Hc) as [A [B C]]. split; [|split].
    - intros lz xs s Hs. apply A; [exact Hs | reflexivity].
    - intros s lz ys Hs. apply B; [exact Hs | reflexivity].
    - intros lx xs ly ys. apply C. reflexivity.
  Qed.

  Lemma never_vec2 a b :
    is_list a || is_list b = true -> shape_never_vec d [tag_of a; tag_of b] = true ->
    E a b = base a b \/ E a b = VErr.
  Proof.
    intros Hl Hn. unfold elem2. cbn [gen_elem2]. rewrite Hl.
    pose proof (never_vec_pick d [tag_of a; tag_of b] orc Hn) as Hp.
    destruct (pick default_flags orc d [tag_of a; tag_of b]) as [|[|]|]; auto. contradiction Hp; reflexivity.
  Qed.
End Dy.

(* closed form over nested lists of data values, any depth *)
Lemma data_item lz xs x : data (VList lz xs) = true -> In x xs -> data x = true.
Proof. simpl. intros H Hx. rewrite forallb_forall in H. apply H. exact Hx. Qed.

Lemma nth_data lz xs i : data (VList lz xs) = true -> data (nth i xs (VNum 0)) = true.
Proof.
  intro H. destruct (nth_in_or_default i xs (VNum 0)) as [Hin|E].
  - apply (data_item lz xs _ H Hin).
  - rewrite E. reflexivity.
Qed.

Lemma nth_depth lz xs i : (depth (nth i xs (VNum 0)) < depth (VList lz xs))%nat.
Proof.
  destruct (nth_in_or_default i xs (VNum 0)) as [Hin|E].
  - apply depth_item. exact Hin.
  - rewrite E. simpl. lia.
Qed.

Lemma deep2_of_elementwise (f : v -> v -> v) : elementwise2 f ->
  forall n a b, data a = true -> data b = true ->
    (Nat.max (depth a) (depth b) < n)%nat -> f a b = deep2 f n a b.
Proof.
  intros [Hls [Hsl Hll]]. induction n as [|n IH]; intros a b Da Db Hn; [lia|].
  destruct a as [za|sa|la xs|]; destruct b as [zb|sb|lb ys|]; try discriminate; try reflexivity.
  - rewrite (Hsl (VNum za) lb ys eq_refl). cbn [deep2]. f_equal. apply map_ext_in. intros y Hy.
    pose proof (depth_item lb ys y Hy). apply IH; [reflexivity | apply (data_item lb ys y Db Hy) | simpl in *; lia].
  - rewrite (Hsl (VStr sa) lb ys eq_refl). cbn [deep2]. f_equal. apply map_ext_in. intros y Hy.
    pose proof (depth_item lb ys y Hy). apply IH; [reflexivity | apply (data_item lb ys y Db Hy) | simpl in *; lia].
  - rewrite (Hls la xs (VNum zb) eq_refl). cbn [deep2]. f_equal. apply map_ext_in. intros x Hx.
    pose proof (depth_item la xs x Hx). apply IH; [apply (data_item la xs x Da Hx) | reflexivity | simpl in *; lia].
  - rewrite (Hls la xs (VStr sb) eq_refl). cbn [deep2]. f_equal. apply map_ext_in. intros x Hx.
    pose proof (depth_item la xs x Hx). apply IH; [apply (data_item la xs x Da Hx) | reflexivity | simpl in *; lia].
  - destruct (Hll la xs lb ys) as [rs [E [Hlen Hnth]]]. rewrite E. cbn [deep2]. f_equal.
    apply (nth_ext _ _ VErr VErr).
    + rewrite map_length, zip_fill_length. exact Hlen.
    + intros i Hi. rewrite (Hnth i Hi).
      rewrite (nth_map_default _ _ _ (VNum 0, VNum 0)) by (rewrite zip_fill_length; lia).
      rewrite nth_zip_fill. cbn [fst snd].
      pose proof (nth_depth la xs i). pose proof (nth_depth lb ys i).
      apply IH; [apply (nth_data la xs i Da) | apply (nth_data lb ys i Db) | lia].
Qed.

(* ---- non-vacuity: a skeleton of the common shape, evaluated -------------------------------- *)
Definition ex_tree2 : dtree :=
  Table false [([PTag TNum; PTag TNum], Leaf Scalar); ([PTag TNum; PTag TStr], Leaf Scalar);
               ([PTag TStr; PTag TNum], Leaf Scalar); ([PTag TStr; PTag TStr], Leaf Scalar)]
        (Leaf (Vec false)).
Definition ex_tree1 : dtree :=
  Table false [([PTag TNum], Leaf Scalar); ([PTag TStr], Leaf Scalar)] (Leaf (Vec false)).
(* a symbolic scalar function: remembers what it was applied to *)
Definition ex_base2 (a b : v) : v := VList false [VStr [102%N]; a; b].
Definition ex_base1 (a : v) : v := VList false [VStr [102%N]; a].

Example ex_complete2 : vec_complete 2 ex_tree2 = true.
Proof. vm_compute. reflexivity. Qed.
Example ex_complete1 : vec_complete 1 ex_tree1 = true.
Proof. vm_compute. reflexivity. Qed.

(* [[1, 2], 3] + [10]  =  [[f 1 10, f 2 10], f 3 0] *)
Example ex_run2 :
  elem2 ex_tree2 default_flags (fun _ => false) ex_base2
    (VList false [VList true [VNum 1; VNum 2]; VNum 3]) (VList false [VNum 10])
  = VList true [VList true [ex_base2 (VNum 1) (VNum 10); ex_base2 (VNum 2) (VNum 10)];
                ex_base2 (VNum 3) (VNum 0)].
Proof. vm_compute. reflexivity. Qed.

Example ex_run1 :
  elem1 ex_tree1 default_flags (fun _ => false) ex_base1 (VList true [VList false [VNum 1]; VStr [97%N]])
  = VList true [VList true [ex_base1 (VNum 1)]; ex_base1 (VStr [97%N])].
Proof. vm_compute. reflexivity. Qed.

(* a skeleton with an overload taking (list, number) whole is rejected, and is not element-wise *)
Definition ex_bad2 : dtree :=
  Table false [([PAny; PTag TNum], Leaf Scalar); ([PTag TStr; PTag TStr], Leaf Scalar)] (Leaf (Vec false)).
Example ex_bad2_incomplete : vec_complete 2 ex_bad2 = false.
Proof. vm_compute. reflexivity. Qed.
Definition ex_docs : list (str * list dpat) := [([7822%N], [DAny; DNum])].
Definition ex_entry : dentry := {| de_key := [7822%N]; de_fn := []; de_arity := 2; de_tree := ex_bad2 |}.
(* ... unless the documentation lists an (any, num) overload for it *)
Example ex_bad2_partial : entry_ok ex_docs ex_entry = true.
Proof. vm_compute. reflexivity. Qed.
Example ex_bad2_refuted : exists base orc lz xs s,
  is_scalar s = true /\ ~ law_ls (elem2 ex_bad2 default_flags orc base) lz xs s.
Proof.
  exists (fun _ _ => VErr), (fun _ => false), false, [VNum 1], (VNum 2). split; [reflexivity|].
  unfold law_ls. vm_compute. discriminate.
Qed.
