(* C01: the DOCUMENTED semantics of structures as a direct big-step evaluator over the program
   tree -- no Python, no templates, no bookkeeping lists to keep balanced by hand.
   Sources: documents/specs/Structures.md, Input.md, Context.md, the flag help of main.py,
   documents/knowledge/elements.yaml (element `n`: "value of the current loop or function").
   The context value, the input scope and a callee's own stack are BRACKETS: the evaluator
   runs the body inside and afterwards puts back what was there, whatever the body did.
   The function stack and the registry of stacks are implementation devices that nothing in
   this file reads; only their DEPTHS are carried along (two ghost counters of the shared
   state record, raised inside the bracket of a call and put back by it) so that the two
   evaluators can be compared state by state.

   Readings adopted where the documents are silent or contradict each other (the newer
   document wins; each can be challenged):
   * default ranges are [1..n]; flag M starts them at 0, flag m ends them at n-1 (main.py's
     flag help; Structures.md's [0, n) is stale);
   * `n` inside an if statement is NOT rebound (elements.yaml; Structures.md's sentence and
     Transpilation.md's template are stale);
   * more than two if branches read as an elif chain: [A|c1|B1|c2|B2|E];
   * a lambda / function "pops the relevant number of arguments and places them into its
     stack": in popping order, so the deepest argument ends on top; the same items are its
     context value (the single argument itself for one argument) and its input scope;
   * a list literal evaluates every item on a copy of the stack and takes the item stack's top;
     an item that leaves its stack empty contributes nothing;
   * in a while loop the context value is the condition value just tested.
   Element and modifier-body semantics are shared with the machine (Model/Values.v).
   No proofs in this file. *)
From Coq Require Import List NArith ZArith Bool.
From Vy Require Import Model.Base Model.Lexer Model.Parser Model.Transpile Gen.ParserConsts Model.Values.
Import ListNotations.
Open Scope Z_scope.

(* ---- brackets ---------------------------------------------------------------------------------- *)
Definition bracket {A} (enter : state -> state) (leave : state -> state -> state)
           (k : state -> xres (A * state)) (s : state) : xres (A * state) :=
  xdo (a, s') <- k (enter s); XOk (a, leave s s').

Definition with_context {A} (v : value) : (state -> xres (A * state)) -> state -> xres (A * state) :=
  bracket (fun s => set_ctxv s (v :: ctxv s)) (fun s0 s' => set_ctxv s' (ctxv s0)).
Definition with_scope {A} (args : list value) : (state -> xres (A * state)) -> state -> xres (A * state) :=
  bracket (fun s => set_inner s ((args, O) :: inner s)) (fun s0 s' => set_inner s' (inner s0)).
Definition with_stack {A} (st : list value) : (state -> xres (A * state)) -> state -> xres (A * state) :=
  bracket (fun s => set_stk s st) (fun s0 s' => set_stk s' (stk s0)).

(* the local variables of a function (its named parameters) are visible in its own code only *)
Definition with_locals {A} (l : list (str * value)) : (state -> xres (A * state)) -> state -> xres (A * state) :=
  bracket (fun s => set_locs s l) (fun s0 s' => set_locs s' (locs s0)).

(* ghost counters: a function frame is live / a callee's stack is registered *)
Definition with_function {A} : (state -> xres (A * state)) -> state -> xres (A * state) :=
  bracket (fun s => set_fdepth s (S (fdepth s))) (fun s0 s' => set_fdepth s' (fdepth s0)).
Definition with_registered {A} : (state -> xres (A * state)) -> state -> xres (A * state) :=
  bracket (fun s => set_sdepth s (S (sdepth s))) (fun s0 s' => set_sdepth s' (sdepth s0)).

(* a body that returns nothing *)
Definition with_context_u (v : value) (k : state -> xres state) (s : state) : xres state :=
  xdo s' <- k (set_ctxv s (v :: ctxv s)); XOk (set_ctxv s' (ctxv s)).

Section Step.
  Variable cf : cfg.
  Variable rec : list struct -> state -> xres state.                       (* the evaluator one fuel level down *)
  Variable wl : value -> list struct -> list struct -> state -> xres state.   (* the rest of a while loop *)

  (* calling a lambda on the arguments it popped (in popping order): own stack, context value,
     input scope; the result is the top of its own stack *)
  Definition r_lambda (c : closure) (popped : list value) : state -> xres (value * state) :=
    with_stack (rev popped)
      (with_locals []
         (with_function
            (with_context (context_of popped)
               (with_scope (rev popped)
                  (with_registered
                     (fun s => xdo s1 <- rec (c_body c) s; let (s2, r) := pop1 s1 in XOk (r, s2))))))).

  (* "numbers pop that many arguments and push them to the function's stack, names pop a single
     argument and place it into a local variable with the same name" *)
  Fixpoint r_params (ps : list param) (s : state) : xres (state * list value * list (str * value)) :=
    match ps with
    | [] => XOk (s, [], [])
    | PNum n :: r =>
        let (s1, popped) := popn n s in
        xdo (s2, more, loc) <- r_params r s1; XOk (s2, popped ++ more, loc)
    | PName x :: r =>
        let (s1, v) := pop1 s in
        xdo (s2, more, loc) <- r_params r s1; XOk (s2, more, (x, v) :: loc)
    | PStar :: r =>                       (* variadic: the number of arguments is itself popped first *)
        xdo (s1, popped) <- of_opt (pop_star s);
        xdo (s2, more, loc) <- r_params r s1; XOk (s2, popped ++ more, loc)
    end.

  (* later parameters of the same name win *)
  Definition bind_all (l : list (str * value)) : list (str * value) :=
    fold_left (fun acc kv => assign (fst kv) (snd kv) acc) l [].

  (* a named function takes its arguments from the current stack; "the entire function stack"
     is the result *)
  Definition r_named (c : closure) (s : state) : xres (list value * state) :=
    xdo (s1, ps, loc) <- r_params (c_params c) s;
    with_stack (rev ps)
      (with_locals (bind_all loc)
         (with_context (VList ps)
            (with_scope (rev ps)
               (with_registered (fun s => xdo s' <- rec (c_body c) s; XOk (stk s', s')))))) s1.

  (* applying a function value to explicit arguments *)
  Definition r_app : app_t := fun c args s =>
    if core_ok_list true (c_body c) then
      if c_named c then
        with_stack args
          (fun s => xdo (fs, s1) <- r_named c s;
                    match fs with r :: _ => XOk (r, s1) | [] => XErr EIndex end) s
      else r_lambda c args s
    else XErr ENotCore.

  (* calling a function value on the current stack: the arguments are popped, the result(s) pushed *)
  Definition r_callstk : callstk_t := fun c s =>
    if core_ok_list true (c_body c) then
      if c_named c then
        xdo (fs, s1) <- r_named c s; XOk (set_stk s1 (fs ++ stk s1))
      else
        let (s1, popped) := popn (select_arity c None) s in
        xdo (r, s2) <- r_lambda c popped s1; XOk (push r s2)
    else XErr ENotCore.

  Definition r_token (t : token) (s : state) : xres state :=
    match tk t with
    | KNumber => match number_value (tv t) with Some z => XOk (push (VInt z) s) | None => XErr ENotCore end
    | KGeneral => match tv t with [k] => elem_sem cf r_app r_callstk k s | _ => XErr ENotCore end
    | KVarGet =>
        if name_ok (tv t) then
          match lookup_var (tv t) s with Some v => XOk (push v s) | None => XErr EName end
        else XErr ENotCore
    | KVarSet =>
        if name_ok (tv t) then let (s1, v) := pop1 s in XOk (set_vars s1 (assign (tv t) v (vars s1)))
        else XErr ENotCore
    | _ => XErr ENotCore
    end.

  (* [A|c1|B1|...|E]: after the first test failed *)
  Fixpoint r_elif (bs : list (list struct)) (s : state) : xres state :=
    match bs with
    | [] => XOk s
    | [e] => rec e s
    | c :: ((b :: rest) as tl) =>
        xdo s1 <- rec c s;
        let (s2, v) := pop1 s1 in
        xdo t <- of_opt (truthy v);
        if t then rec b s2 else r_elif rest s2
    end.

  Definition r_if (bs : list (list struct)) (s : state) : xres state :=
    match bs with
    | [] => XOk s
    | a :: rest =>
        let (s1, v) := pop1 s in
        xdo t <- of_opt (truthy v);
        if t then rec a s1 else r_elif rest s1
    end.

  Fixpoint r_for (var : option str) (body : list struct) (items : list value) (s : state) : xres state :=
    match items with
    | [] => XOk s
    | x :: r =>
        let s1 := match var with Some v => set_vars s (assign v x (vars s)) | None => s end in
        xdo s2 <- with_context_u x (rec body) s1;
        r_for var body r s2
    end.

  Fixpoint r_items (its : list (list struct)) (s : state) : xres (list value * state) :=
    match its with
    | [] => XOk ([], s)
    | x :: r =>
        xdo (top, s1) <- with_stack (stk s) (with_locals [] (fun s => xdo s' <- rec x s; XOk (hd_error (stk s'), s'))) s;
        xdo (vs, s2) <- r_items r s1;
        XOk (match top with Some v => v :: vs | None => vs end, s2)
    end.

  Definition r_step (x : struct) (s : state) : xres state :=
    match x with
    | SGeneric t => r_token t s
    | SIf bs => r_if bs s
    | SFor names body =>
        match names with
        | [] =>
            let (s1, v) := pop1 s in
            xdo items <- of_opt (iter_range cf v); r_for None body items s1
        | n :: _ =>
            if name_ok (keep re_keep_for n) then
              let (s1, v) := pop1 s in
              xdo items <- of_opt (iter_range cf v); r_for (Some (keep re_keep_for n)) body items s1
            else XErr ENotCore
        end
    | SWhile c b =>
        xdo s1 <- rec c s;
        let (s2, v) := pop1 s1 in
        wl v c b s2
    | SFnCall n =>
        if name_ok (keep re_keep_fncall n) then
          match lookup_var (keep re_keep_fncall n) s with
          | Some (VFun c) => r_callstk c s
          | Some _ => XErr EStuck
          | None => XErr EName
          end
        else XErr ENotCore
    | SFnDef n ps body =>
        if name_ok (keep re_keep_fndef n) then
          match params_of ps with
          | Some params => XOk (set_vars s (assign (keep re_keep_fndef n) (VFun (mk_named params body)) (vars s)))
          | None => XErr ENotCore
          end
        else XErr ENotCore
    | SLambda a body => XOk (push (VFun (mk_lambda a body)) s)
    | SLamOp o body =>
        let s1 := push (VFun (mk_lambda (Some 1) body)) s in
        match o with
        | OpMap => elem_sem cf r_app r_callstk 77%N s1
        | OpFilter => elem_sem cf r_app r_callstk 70%N s1
        | OpSort => elem_sem cf r_app r_callstk 7777%N s1
        end
    | SList its => xdo (vs, s1) <- r_items its s; XOk (push (VList vs) s1)
    | SMod1 m a =>
        if mem m mod1_keys then mod1_sem cf r_app r_callstk m (operand_closure a) s else XErr ENotCore
    | SMod2 m a b =>
        if mem m mod2_keys then mod2_sem r_app m (operand_closure a) (operand_closure b) s else XErr ENotCore
    | _ => XErr ENotCore
    end.
End Step.

Fixpoint eval (cf : cfg) (fuel : nat) (p : list struct) (s : state) : xres state :=
  match fuel with
  | O => XFuel
  | S f => seq_run (r_step cf (eval cf f) (rloop cf f)) p s
  end
with rloop (cf : cfg) (fuel : nat) (v : value) (c b : list struct) (s : state) : xres state :=
  match fuel with
  | O => XFuel
  | S f =>
      xdo t <- of_opt (truthy v);
      if t then
        xdo s1 <- with_context_u v (eval cf f b) s;
        xdo s2 <- eval cf f c s1;
        let (s3, v') := pop1 s2 in
        rloop cf f v' c b s3
      else XOk s
  end.

Definition run_ref (fl : flag) (fuel : nat) (inputs : list value) (p : list struct) : xres state :=
  xdo s <- eval (cfg_of fl) fuel p (init_state fl inputs); finish (r_app (eval (cfg_of fl) fuel)) fl s.
