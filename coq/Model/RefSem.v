(* C01: the DOCUMENTED semantics of structures as a direct big-step evaluator over the program
   tree -- no Python, no templates, no bookkeeping lists to keep balanced by hand.
   Sources: documents/specs/Structures.md, Input.md, Context.md, the flag help of main.py,
   documents/knowledge/elements.yaml (element `n`: "value of the current loop or function").
   The context value, the input scope and a callee's own stack are BRACKETS: the evaluator
   runs the body inside and afterwards puts back what was there, whatever the body did.
   The chain of running functions (what `x` under a modifier refers to) and the function
   itself (`x` in a lambda) are brackets of the same kind; the registry of stacks is an
   implementation device that nothing here reads: only its depth is carried along (a ghost
   counter of the shared state record) so that the two evaluators can be compared state by state.

   Readings adopted where the documents are silent or contradict each other (the newer
   document wins; each can be challenged):
   * default ranges are [1..n]; flag M starts them at 0, flag m ends them at n-1 (main.py's
     flag help; Structures.md's [0, n) is stale);
   * `n` inside an if statement is NOT rebound (elements.yaml; Structures.md's sentence and
     Transpilation.md's template are stale);
   * more than two if branches read as an elif chain: [A|c1|B1|c2|B2|E];
   * a lambda / function "pops the relevant number of arguments and places them into its
     stack": in popping order, so the deepest argument ends on top; the same items are its
     context value (the single argument itself for one argument) and its input scope;
   * a list literal evaluates every item on a copy of the stack and takes the item stack's top;
     an item that leaves its stack empty contributes nothing;
   * variables: the documents define no scoping at all (Structures.md only says that a named
     parameter is "a local variable with the same name").  Adopted, the behaviour of the emitted
     Python: a name assigned anywhere inside a function, lambda or list item (variable set, named
     loop variable, function definition, named parameter) is LOCAL to it; it is visible to the
     functions defined inside it, also after it has returned; reading it before it was assigned is
     an error even when a global of that name exists; every other name is a global read at the time
     of the read (so functions can call each other and themselves by name, and a name can be
     redefined); a named function knows itself under its name;
   * in a while loop the context value is the condition value just tested;
   * early exits (elements.yaml: X "Break out of the current loop or function", x "Call current
     function (Recursion)"): X leaves the innermost loop, or the running lambda with the top of
     its stack as the result; x in a for loop goes on with the next item, x in a lambda calls
     the lambda on its own stack (arguments popped, result pushed), x standing as the operand of
     a modifier calls the function the modifier is used in, x at the top level of the program
     prints the stack (there is no function to call; the implementation's choice, adopted);
     X where there is nothing to leave does nothing.  Early exits are CONTROL EFFECTS here: a
     statement list ends with a signal, every bracket restores on any signal, the loop / call
     that the signal is for absorbs it.  Where the implementation does something else (X in a
     map / filter / sort lambda or a named function, x in a while body, ...) the construct is
     outside the core: ENotCore.
   Element and modifier-body semantics are shared with the machine (Model/Values.v).
   No proofs in this file. *)
From Coq Require Import List NArith ZArith Bool.
From Vy Require Import Model.Base Model.Lexer Model.Parser Model.Transpile Gen.ParserConsts Model.Values.
Import ListNotations.
Open Scope Z_scope.

(* ---- brackets ---------------------------------------------------------------------------------- *)
Definition bracket {A} (enter : state -> state) (leave : state -> state -> state)
           (k : state -> xres (A * state)) (s : state) : xres (A * state) :=
  xdo (a, s') <- k (enter s); XOk (a, leave s s').

Definition with_context {A} (v : value) : (state -> xres (A * state)) -> state -> xres (A * state) :=
  bracket (fun s => set_ctxv s (v :: ctxv s)) (fun s0 s' => set_ctxv s' (ctxv s0)).
Definition with_scope {A} (args : list value) : (state -> xres (A * state)) -> state -> xres (A * state) :=
  bracket (fun s => set_inner s ((args, O) :: inner s)) (fun s0 s' => set_inner s' (inner s0)).
Definition with_stack {A} (st : list value) : (state -> xres (A * state)) -> state -> xres (A * state) :=
  bracket (fun s => set_stk s st) (fun s0 s' => set_stk s' (stk s0)).

(* the variables a piece of code sees: a function's own locals (what it assigns, its named parameters)
   and, behind them, those of the functions it was defined in; put back when the function is left *)
Definition with_env {A} (names : list str) (env : list nat) : (state -> xres (A * state)) -> state -> xres (A * state) :=
  bracket (enter_def names env) (fun s0 s' => set_cur s' (cur s0)).

(* the running function: what `x` calls; and the chain of running lambdas *)
Definition with_this {A} (f : option closure) : (state -> xres (A * state)) -> state -> xres (A * state) :=
  bracket (fun s => set_this s f) (fun s0 s' => set_this s' (this s0)).
Definition with_function {A} (f : option closure) : (state -> xres (A * state)) -> state -> xres (A * state) :=
  bracket (fun s => set_fstack s (f :: fstack s)) (fun s0 s' => set_fstack s' (fstack s0)).
(* ghost counter: a callee's stack is registered *)
Definition with_registered {A} : (state -> xres (A * state)) -> state -> xres (A * state) :=
  bracket (fun s => set_sdepth s (S (sdepth s))) (fun s0 s' => set_sdepth s' (sdepth s0)).

Section Step.
  Variable cf : cfg.
  Variable rec : list struct -> state -> fres.                            (* the evaluator one fuel level down *)
  Variable wl : value -> list struct -> list struct -> state -> fres.     (* the rest of a while loop *)

  (* calling a lambda on the arguments it popped (in popping order): own stack, context value,
     input scope; the result is the top of its own stack, or what an X in its body returned *)
  Definition r_lambda (self : option closure) (c : closure) (popped : list value) : state -> xres (value * state) :=
    with_stack (rev popped)
      (with_env (decl_of c) (c_env c)
         (with_this self
            (with_function self
               (with_context (context_of popped)
                  (with_scope (rev popped)
                     (with_registered
                        (fun s =>
                           xdo (g, s1) <- rec (c_body c) s;
                           match g with
                           | SNorm => let (s2, r) := pop1 s1 in XOk (r, s2)
                           | SRet v => XOk (v, s1)
                           | _ => XErr ENotCore
                           end))))))).

  (* "numbers pop that many arguments and push them to the function's stack, names pop a single
     argument and place it into a local variable with the same name" *)
  Fixpoint r_params (ps : list param) (s : state) : xres (state * list value * list (str * value)) :=
    match ps with
    | [] => XOk (s, [], [])
    | PNum n :: r =>
        let (s1, popped) := popn n s in
        xdo (s2, more, loc) <- r_params r s1; XOk (s2, popped ++ more, loc)
    | PName x :: r =>
        let (s1, v) := pop1 s in
        xdo (s2, more, loc) <- r_params r s1; XOk (s2, more, (x, v) :: loc)
    | PStar :: r =>                       (* variadic: the number of arguments is itself popped first *)
        xdo (s1, popped) <- of_opt (pop_star s);
        xdo (s2, more, loc) <- r_params r s1; XOk (s2, popped ++ more, loc)
    end.

  (* a named function takes its arguments from the current stack; "the entire function stack"
     is the result *)
  Definition r_named (c : closure) (s : state) : xres (list value * state) :=
    xdo (s1, ps, loc) <- r_params (c_params c) s;
    with_stack (rev ps)
      (with_env (decl_of c) (c_env c)
         (fun s =>
            (* the named parameters are locals of the function; it knows itself by its name *)
            let s := bind_params loc s in
            with_context (VList ps)
              (with_registered
                 (with_scope (rev ps)
                    (fun s =>
                       xdo f <- of_name (lookup_var (c_name c) s);
                       with_this (match f with VFun c' => Some c' | _ => None end)
                         (fun s =>
                            xdo (g, s') <- rec (c_body c) s;
                            match g with SNorm => XOk (stk s', s') | _ => XErr ENotCore end) s))) s)) s1.

  (* applying a function value to explicit arguments *)
  Definition r_app : app_t := fun c args s =>
    if body_ok c then
      if c_named c then
        with_stack args
          (fun s => xdo (fs, s1) <- r_named c s;
                    match fs with r :: _ => XOk (r, s1) | [] => XErr EIndex end) s
      else r_lambda (Some c) c args s
    else XErr ENotCore.

  (* calling a function value on the current stack: the arguments are popped, the result(s) pushed;
     self = what the callee knows as itself *)
  Definition r_call_on_stack (self : option closure) (c : closure) (s : state) : xres state :=
    if body_ok c then
      if c_named c then
        xdo (fs, s1) <- r_named c s; XOk (set_stk s1 (fs ++ stk s1))
      else
        let (s1, popped) := popn (select_arity c None) s in
        xdo (r, s2) <- r_lambda self c popped s1; XOk (push r s2)
    else XErr ENotCore.
  Definition r_callstk : callstk_t := fun c s => r_call_on_stack (Some c) c s.

  Definition r_token (t : token) (s : state) : xres state :=
    match tk t with
    | KNumber => match number_value (tv t) with Some z => XOk (push (VInt z) s) | None => XErr ENotCore end
    | KGeneral => match tv t with [k] => elem_sem cf r_app r_callstk k s | _ => XErr ENotCore end
    | KVarGet =>
        if name_ok (tv t) then
          match lookup_var (tv t) s with Some v => XOk (push v s) | None => XErr EName end
        else XErr ENotCore
    | KVarSet =>
        if name_ok (tv t) then let (s1, v) := pop1 s in XOk (assign_var (tv t) v s1)
        else XErr ENotCore
    | KString | KCharacter | KCompString =>
        match string_value t with Some v => XOk (push (VStr v) s) | None => XErr ENotCore end
    | _ => XErr ENotCore
    end.

  (* X: "break out of the current loop or function" *)
  Definition r_break (p : option pkind) (s : state) : fres :=
    match p with
    | Some PFor | Some PWhile => XOk (SBrk, s)
    | Some PLambda => let (s1, v) := pop1 s in XOk (SRet v, s1)
    | None | Some PIf => XOk (SNorm, s)          (* at the top level there is nothing to leave *)
    | _ => XErr ENotCore
    end.

  (* x: "call current function (recursion)" *)
  Definition r_recurse (p : option pkind) (s : state) : fres :=
    match p with
    | Some PFor => XOk (SCont, s)
    | Some PLambda =>
        match this s with
        | Some c => norm (r_call_on_stack (Some c) c s)
        | None => XErr EStuck
        end
    | Some PMonadic | Some PDyadic | Some PTriadic =>
        (* the operand of a modifier is a function of its own: the current function is the next one out *)
        match nth_error (fstack s) 1 with
        | Some (Some c) => norm (r_call_on_stack (Some c) c s)
        | Some None => XErr EStuck
        | None => XErr EIndex
        end
    | None => norm (vy_print (VList (rev (stk s))) s)
    | _ => XErr ENotCore
    end.

  (* [A|c1|B1|...|E]: after the first test failed *)
  Fixpoint r_elif (bs : list (list struct)) (s : state) : fres :=
    match bs with
    | [] => XOk (SNorm, s)
    | [e] => rec e s
    | c :: ((b :: rest) as tl) =>
        xdo (g, s1) <- rec c s;
        match g with
        | SNorm =>
            let (s2, v) := pop1 s1 in
            xdo t <- of_opt (truthy v);
            if t then rec b s2 else r_elif rest s2
        | _ => XOk (g, s1)
        end
    end.

  Definition r_if (bs : list (list struct)) (s : state) : fres :=
    match bs with
    | [] => XOk (SNorm, s)
    | a :: rest =>
        let (s1, v) := pop1 s in
        xdo t <- of_opt (truthy v);
        if t then rec a s1 else r_elif rest s1
    end.

  Fixpoint r_for (var : option str) (body : list struct) (items : list value) (s : state) : fres :=
    match items with
    | [] => XOk (SNorm, s)
    | x :: r =>
        let s1 := match var with Some v => assign_var v x s | None => s end in
        xdo (g, s2) <- with_context x (rec body) s1;
        match g with
        | SNorm | SCont => r_for var body r s2
        | SBrk => XOk (SNorm, s2)
        | SRet v => XOk (SRet v, s2)
        end
    end.

  Fixpoint r_items (its : list (list struct)) (s : state) : xres (list value * state) :=
    match its with
    | [] => XOk ([], s)
    | x :: r =>
        xdo (top, s1) <- with_stack (stk s) (with_env (assigned_list x) (cur s)
                           (fun s => xdo (g, s') <- rec x s;
                                     match g with SNorm => XOk (hd_error (stk s'), s') | _ => XErr ENotCore end)) s;
        xdo (vs, s2) <- r_items r s1;
        XOk (match top with Some v => v :: vs | None => vs end, s2)
    end.

  Definition r_step (x : struct) (s : state) : fres :=
    match x with
    | SGeneric t => norm (r_token t s)
    | SBreak p => r_break p s
    | SRecurse p => r_recurse p s
    | SIf bs => r_if bs s
    | SFor names body =>
        match names with
        | [] =>
            let (s1, v) := pop1 s in
            xdo items <- of_opt (iter_range cf v); r_for None body items s1
        | n :: _ =>
            if name_ok (keep re_keep_for n) then
              let (s1, v) := pop1 s in
              xdo items <- of_opt (iter_range cf v); r_for (Some (keep re_keep_for n)) body items s1
            else XErr ENotCore
        end
    | SWhile c b =>
        xdo (g, s1) <- rec c s;
        match g with
        | SNorm => let (s2, v) := pop1 s1 in wl v c b s2
        | _ => XErr ENotCore
        end
    | SFnCall n =>
        if name_ok (keep re_keep_fncall n) then
          match lookup_var (keep re_keep_fncall n) s with
          | Some (VFun c) => norm (r_call_on_stack None c s)
          | Some _ => XErr EStuck
          | None => XErr EName
          end
        else XErr ENotCore
    | SFnDef n ps body =>
        if name_ok (keep re_keep_fndef n) then
          match params_of ps with
          | Some params => XOk (SNorm, assign_var (keep re_keep_fndef n) (VFun (mk_named (keep re_keep_fndef n) params body (cur s))) s)
          | None => XErr ENotCore
          end
        else XErr ENotCore
    | SLambda a body => XOk (SNorm, push (VFun (mk_lambda a body (cur s))) s)
    | SLamOp o body =>
        let s1 := push (VFun (mk_lambda (Some 1) body (cur s))) s in
        match o with
        | OpMap => norm (elem_sem cf r_app r_callstk 77%N s1)
        | OpFilter => norm (elem_sem cf r_app r_callstk 70%N s1)
        | OpSort => norm (elem_sem cf r_app r_callstk 7777%N s1)
        end
    | SList its => xdo (vs, s1) <- r_items its s; XOk (SNorm, push (VList vs) s1)
    | SMod1 m a =>
        if mem m mod1_keys then norm (mod1_sem cf r_app r_callstk m (operand_closure a (cur s)) s) else XErr ENotCore
    | SMod2 m a b =>
        if mem m mod2_keys then norm (mod2_sem r_app m (operand_closure a (cur s)) (operand_closure b (cur s)) s) else XErr ENotCore
    | _ => XErr ENotCore
    end.
End Step.

Fixpoint eval (cf : cfg) (fuel : nat) (p : list struct) (s : state) : fres :=
  match fuel with
  | O => XFuel
  | S f => seq_run (r_step cf (eval cf f) (rloop cf f)) p s
  end
with rloop (cf : cfg) (fuel : nat) (v : value) (c b : list struct) (s : state) : fres :=
  match fuel with
  | O => XFuel
  | S f =>
      xdo t <- of_opt (truthy v);
      if t then
        xdo (g, s1) <- with_context v (eval cf f b) s;
        match g with
        | SNorm =>
            xdo (g2, s2) <- eval cf f c s1;
            match g2 with
            | SNorm => let (s3, v') := pop1 s2 in rloop cf f v' c b s3
            | _ => XErr ENotCore
            end
        | SBrk => XOk (SNorm, s1)
        | SCont => XErr ENotCore
        | SRet r => XOk (SRet r, s1)
        end
      else XOk (SNorm, s)
  end.

Definition run_ref (fl : flag) (fuel : nat) (inputs : list value) (p : list struct) : xres state :=
  xdo (g, s) <- eval (cfg_of fl) fuel p (init_state fl inputs);
  match g with
  | SNorm => finish (r_app (eval (cfg_of fl) fuel)) fl s
  | _ => XErr ENotCore
  end.
