(* An executable reading of Python's indentation-based block structure, for the subset of
   Python that the transpiler emits: TEXT -> block tree (Model/PyTree.v).

   Two passes, both total functions:

   1. `lines_of : str -> list (nat * lclass)`  -- the text, character by character, becomes
      the list of its LOGICAL lines: indentation (number of leading spaces) and a class.
      Blank lines are dropped.  A logical line ends at a newline that is not the second half
      of a backslash pair inside a string literal (such a newline continues the literal on
      the next physical line, which is what vyxal strings holding backslash + newline
      become).  Within a line a small scanner tracks string literals ('..' and ".." with
      backslash escapes), bracket depth, the top-level `;` that separate simple statements,
      the first word of every statement (break / continue / return / def / for / while / if /
      elif / else) and, on a compound header, the top-level `:` that ends the header.  What
      follows the colon on the same line is the one-line suite (`if f is not None: x`).
      Everything outside the emitted subset FAILS CLOSED as `LBad`: tabs in the indentation,
      comments, backslash outside a string, a newline inside brackets, try / with / class,
      a raw carriage return (CPython reads it as a line end: outside a literal it would start a
      new line, inside one it leaves the literal unterminated; directly after a backslash inside
      a literal it is a line continuation like backslash-newline and is accepted), non-ASCII or
      control characters outside a string, unbalanced
      brackets, an unterminated string, an empty statement, a header keyword that is not the
      first word of the line, text after break / continue.

   2. `parse_suite` -- the logical lines become nested blocks by indentation, as Python's
      tokenizer does with INDENT / DEDENT: a header without a one-line suite needs a
      following line that is indented more; the suite is every following line down to the
      first line indented less than the suite; a line indented more than the current suite
      where no block was opened, or a dedent to a level that is not an enclosing one, is an
      error.  `elif` / `else` produce the same nesting as Python's `ast` (orelse):
        if a: A / elif b: B / else: C   ==>   [NBlock BIf A; NBlock BElse [NBlock BIf B; NBlock BElse C]]
      Recursion is on explicit fuel (number of lines + 1, which always suffices: see
      Proofs/LayoutBlocks.v `parse_suite_fuel_enough`); running out of fuel is the distinct result `PFuel`.

   `layout text` is the block tree, `accepts text` says that the tree exists and satisfies
   Python's context conditions `py_wf`.  No proofs in this file. *)
From Coq Require Import List Arith NArith Bool String Ascii.
From Vy Require Import Model.Base Model.Transpile Model.PyTree.
Import ListNotations.
Open Scope N_scope.

(* ---- classes of logical lines ------------------------------------------------------------ *)
Inductive hkind := HDef | HLoop | HIf | HElif | HElse.

Inductive lclass :=
| LStmts (l : list pyn)                 (* simple statements separated by `;` (leaves only) *)
| LHead (h : hkind) (one : list pyn)    (* compound header; one = [] : the suite is on the following lines *)
| LBad.

Definition line := (nat * lclass)%type.

(* ---- the first word of a statement ---------------------------------------------------------- *)
Inductive wkind := WSimple | WBreak | WContinue | WReturn | WHead (h : hkind) | WBad.

Definition kw_lookup (w : str) : wkind :=
  if str_eqb w (L "break") then WBreak
  else if str_eqb w (L "continue") then WContinue
  else if str_eqb w (L "return") then WReturn
  else if str_eqb w (L "def") then WHead HDef
  else if str_eqb w (L "for") then WHead HLoop
  else if str_eqb w (L "while") then WHead HLoop
  else if str_eqb w (L "if") then WHead HIf
  else if str_eqb w (L "elif") then WHead HElif
  else if str_eqb w (L "else") then WHead HElse
  else if str_eqb w (L "try") then WBad
  else if str_eqb w (L "with") then WBad
  else if str_eqb w (L "class") then WBad
  else if str_eqb w (L "except") then WBad
  else if str_eqb w (L "finally") then WBad
  else if str_eqb w (L "async") then WBad
  else WSimple.

Inductive wstate :=
| WStart                 (* nothing but blanks so far *)
| WWord (w : str)        (* inside the first word *)
| WDone (k : wkind).     (* the first word has been read *)

(* ---- scanner state of one logical line ---------------------------------------------------------- *)
Inductive smode :=
| MCode
| MStr (dq : bool)       (* inside '..' (false) or ".." (true) *)
| MEsc (dq : bool).      (* inside a literal, directly after a backslash *)

Record lstate := mkL {
  l_mode : smode;
  l_depth : nat;                 (* open brackets *)
  l_ws : wstate;                 (* first word of the current statement *)
  l_head : option hkind;         (* the line is a compound header *)
  l_colon : bool;                (* the header's colon has been passed *)
  l_done : list pyn;             (* completed statements of the line / of the one-line suite, newest first *)
  l_bad : bool }.

Definition init_line (tab : bool) : lstate := mkL MCode 0 WStart None false [] tab.

Definition set_bad (l : lstate) : lstate :=
  mkL (l_mode l) (l_depth l) (l_ws l) (l_head l) (l_colon l) (l_done l) true.
Definition set_mode (m : smode) (l : lstate) : lstate :=
  mkL m (l_depth l) (l_ws l) (l_head l) (l_colon l) (l_done l) (l_bad l).
Definition set_depth (d : nat) (l : lstate) : lstate :=
  mkL (l_mode l) d (l_ws l) (l_head l) (l_colon l) (l_done l) (l_bad l).
Definition set_ws (w : wstate) (l : lstate) : lstate :=
  mkL (l_mode l) (l_depth l) w (l_head l) (l_colon l) (l_done l) (l_bad l).

Definition ident_ch (c : N) : bool :=
  ((65 <=? c) && (c <=? 90)) || ((97 <=? c) && (c <=? 122)) || ((48 <=? c) && (c <=? 57)) || (c =? 95).

(* the first word ends: look it up; a header keyword is legal only as the very first word
   of the logical line *)
Definition end_word (l : lstate) : lstate :=
  match l_ws l with
  | WWord w =>
      match kw_lookup w with
      | WHead h =>
          match l_head l, l_done l, l_colon l with
          | None, [], false => mkL (l_mode l) (l_depth l) (WDone (WHead h)) (Some h) false [] (l_bad l)
          | _, _, _ => set_bad (set_ws (WDone (WHead h)) l)
          end
      | WBad => set_bad (set_ws (WDone WBad) l)
      | k => set_ws (WDone k) l
      end
  | _ => l
  end.

(* more text in a statement whose first word has been read *)
Definition more_content (l : lstate) : lstate :=
  match l_ws l with
  | WDone WBreak | WDone WContinue => set_bad l
  | WDone (WHead HElse) => if l_colon l then l else set_bad l
  | _ => l
  end.

(* a character that is neither blank nor part of a word: operators, quotes, brackets *)
Definition touch (l : lstate) : lstate :=
  match l_ws l with
  | WStart => set_ws (WDone WSimple) l
  | WWord _ => more_content (end_word l)
  | WDone _ => more_content l
  end.

Definition leaf_of (k : wkind) : option pyn :=
  match k with
  | WSimple => Some NSimple | WBreak => Some NBreak | WContinue => Some NContinue | WReturn => Some NReturn
  | _ => None
  end.

(* the current statement is complete (at `;` or at the end of the line) *)
Definition push_stmt (l : lstate) : lstate :=
  let l1 := end_word l in
  match l_ws l1 with
  | WDone k =>
      match leaf_of k with
      | Some n => mkL (l_mode l1) (l_depth l1) WStart (l_head l1) (l_colon l1) (n :: l_done l1) (l_bad l1)
      | None => set_bad l1
      end
  | _ => l1
  end.

Definition semicolon (l : lstate) : lstate :=
  let l1 := end_word l in
  match l_ws l1 with
  | WStart => set_bad l1                                    (* empty statement *)
  | _ =>
      match l_head l1, l_colon l1 with
      | Some _, false => set_bad l1                         (* inside a header *)
      | _, _ => if (0 <? l_depth l1)%nat then set_bad l1 else push_stmt l1
      end
  end.

Definition colon (l : lstate) : lstate :=
  let l1 := end_word l in
  if (0 <? l_depth l1)%nat then l1                           (* slice, dict display *)
  else
    match l_ws l1 with
    | WStart => set_bad l1
    | _ =>
        match l_head l1, l_colon l1 with
        | Some h, false => mkL (l_mode l1) (l_depth l1) WStart (Some h) true [] (l_bad l1)
        | _, _ => more_content l1                             (* annotation, lambda *)
        end
    end.

Definition step_code (l : lstate) (c : N) : lstate :=
  if (c =? 32) || (c =? 9) || (c =? 12) then end_word l
  else if ident_ch c then
    match l_ws l with
    | WStart => set_ws (WWord [c]) l
    | WWord w => set_ws (WWord (w ++ [c])) l
    | WDone _ => more_content l
    end
  else if c =? 34 then set_mode (MStr true) (touch l)
  else if c =? 39 then set_mode (MStr false) (touch l)
  else if (c =? 40) || (c =? 91) || (c =? 123) then
    let l1 := touch l in set_depth (S (l_depth l1)) l1
  else if (c =? 41) || (c =? 93) || (c =? 125) then
    let l1 := touch l in
    match l_depth l1 with O => set_bad l1 | S d => set_depth d l1 end
  else if c =? 59 then semicolon l
  else if c =? 58 then colon l
  else if (c =? 92) || (c =? 35) then set_bad l              (* line joining, comment: outside the subset *)
  else if (c <? 32) || (126 <? c) then set_bad l             (* control / non-ASCII outside a literal *)
  else touch l.

Definition quote_of (dq : bool) : N := if dq then 34 else 39.

Definition step_line (l : lstate) (c : N) : lstate :=
  match l_mode l with
  | MCode => if c =? 13 then set_bad l else step_code l c
  | MStr dq =>
      if c =? 13 then set_bad l                              (* Python reads a raw CR as a line end *)
      else if c =? 92 then set_mode (MEsc dq) l
      else if c =? quote_of dq then set_mode MCode l
      else l
  | MEsc dq => set_mode (MStr dq) l                          (* escape pair: any character, also CR (continuation) *)
  end.

Definition is_esc (m : smode) : bool := match m with MEsc _ => true | _ => false end.

(* the class of a finished logical line *)
Definition finish (l : lstate) : lclass :=
  let l1 := push_stmt l in
  if l_bad l1 then LBad
  else match l_mode l1, l_depth l1, l_ws l1 with
       | MCode, O, WStart =>
           match l_head l1 with
           | None => match l_done l1 with [] => LBad | d => LStmts (rev d) end
           | Some h => if l_colon l1 then LHead h (rev (l_done l1)) else LBad
           end
       | _, _, _ => LBad
       end.

(* ---- the whole text ------------------------------------------------------------------------------- *)
Inductive phase :=
| PStart (n : nat) (tab : bool)     (* reading the indentation: n spaces so far; a tab / form feed was seen *)
| PLine (n : nat) (l : lstate).     (* inside a logical line indented by n *)

Fixpoint scan (p : phase) (t : str) : list line :=
  match t with
  | [] => match p with PLine n l => [(n, finish l)] | PStart _ _ => [] end
  | c :: r =>
      match p with
      | PStart n tab =>
          if c =? 32 then scan (PStart (S n) tab) r
          else if (c =? 9) || (c =? 12) then scan (PStart n true) r
          else if c =? 10 then scan (PStart 0 false) r
          else scan (PLine n (step_line (init_line tab) c)) r
      | PLine n l =>
          if (c =? 10) && negb (is_esc (l_mode l)) then (n, finish l) :: scan (PStart 0 false) r
          else scan (PLine n (step_line l c)) r
      end
  end.

Definition lines_of (t : str) : list line := scan (PStart 0 false) t.

(* ---- blocks ----------------------------------------------------------------------------------------- *)
Definition bkind_of (h : hkind) : bkind :=
  match h with HDef => BDef | HLoop => BLoop | HIf => BIf | HElif | HElse => BElse end.

(* a compound statement in front of the statements that follow it at the same level *)
Definition attach (h : hkind) (body rest : list pyn) : list pyn :=
  match h with
  | HElif =>
      match rest with
      | NBlock BElse e :: rest' => NBlock BElse [NBlock BIf body; NBlock BElse e] :: rest'
      | _ => NBlock BElse [NBlock BIf body] :: rest
      end
  | _ => NBlock (bkind_of h) body :: rest
  end.

Inductive pres := POk (sh : list pyn) (rest : list line) | PErr | PFuel.

Definition pbind (r : pres) (f : list pyn -> list line -> pres) : pres :=
  match r with POk sh rest => f sh rest | PErr => PErr | PFuel => PFuel end.

(* the statements at indentation exactly k, up to the first line indented less *)
Fixpoint parse_suite (fuel : nat) (k : nat) (ls : list line) : pres :=
  match fuel with
  | O => PFuel
  | S f =>
      match ls with
      | [] => POk [] []
      | (i, c) :: r =>
          if (i <? k)%nat then POk [] ls
          else if (k <? i)%nat then PErr                      (* unexpected indent *)
          else
            match c with
            | LBad => PErr
            | LStmts l => pbind (parse_suite f k r) (fun sh rest => POk (l ++ sh) rest)
            | LHead h [] =>
                match r with
                | (j, _) :: _ =>
                    if (k <? j)%nat then
                      pbind (parse_suite f j r) (fun body r1 =>
                      pbind (parse_suite f k r1) (fun sh rest => POk (attach h body sh) rest))
                    else PErr                                   (* expected an indented block *)
                | [] => PErr
                end
            | LHead h one => pbind (parse_suite f k r) (fun sh rest => POk (attach h one sh) rest)
            end
      end
  end.

Inductive lres := LayOk (sh : list pyn) | LayErr | LayFuel.

Definition layout_res (text : str) : lres :=
  let ls := lines_of text in
  match parse_suite (S (List.length ls)) 0 ls with
  | POk sh [] => LayOk sh
  | POk _ _ => LayErr
  | PErr => LayErr
  | PFuel => LayFuel
  end.

Definition layout (text : str) : option (list pyn) :=
  match layout_res text with LayOk sh => Some sh | _ => None end.

(* the same for a text whose outermost statements stand at column k (a piece of a module) *)
Definition layout_at (k : nat) (text : str) : option (list pyn) :=
  let ls := lines_of text in
  match parse_suite (S (List.length ls)) k ls with
  | POk sh [] => Some sh
  | _ => None
  end.

Definition accepts (text : str) : bool :=
  match layout text with Some t => py_wf t | None => false end.

(* from the program source, without dictionary compression *)
Definition accepts_source (src : str) : option bool :=
  match transpile_nodict src with OText t => Some (accepts t) | _ => None end.
