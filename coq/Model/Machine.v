(* C01: what the EMITTED Python does.  `m_step` follows Model/Transpile.tr (the validated
   text model of vyxal/transpile.py) constructor by constructor: every emitted line is
   quoted beside the state change it stands for.  The Python frame of a `def` is modelled
   by switching `stk` (the callee's own `stack` variable) and restoring the caller's on
   return; ctx.context_values / ctx.inputs / ctx.stacks / ctx.function_stack are explicit
   and `.pop()` on an empty one is an error, exactly the bookkeeping C12 is about.

   Python scoping: a top-level assignment is a global of the exec namespace (`vars`); a name
   assigned anywhere in a def (variable set, named loop variable, function definition, named
   parameter) is a local of that def: each call of a def with locals allocates a frame in
   `heap`, a function value keeps the frames of the defs it was defined in (its closure cells),
   `cur` is what the running code sees.  Reads / calls by name follow Values.lookup_var.  A function value is only ever entered when its body is in the
   core (`core_ok_list true`), else ENotCore -- closures are built from the program text,
   so for a core program this never fires (checked on every correspondence run).
   Early exits: a statement list ends with a signal (Values.sig).  X / x are lowered as
   Transpile.break_text / recurse_text say for the parent class the parser recorded; the
   bookkeeping pops stand BEFORE the jump, exactly as emitted.  `break` / `continue` are
   absorbed by the Python loop, `return ret` by the def; a signal that reaches a place where
   Python would reject the code (break outside a loop, ...) is ENotCore.
   Fuel is burnt per nesting level and per while iteration.  No proofs in this file. *)
From Coq Require Import List NArith ZArith Bool.
From Vy Require Import Model.Base Model.Lexer Model.Parser Model.Transpile Gen.ParserConsts Model.Values.
Import ListNotations.
Open Scope Z_scope.

(* ---- single bookkeeping lines ------------------------------------------------------------------- *)
Definition m_ctx_push (v : value) (s : state) : state := set_ctxv s (v :: ctxv s).      (* ctx.context_values.append(v) *)
Definition m_ctx_pop (s : state) : xres state :=                                        (* ctx.context_values.pop() *)
  match ctxv s with _ :: r => XOk (set_ctxv s r) | [] => XErr EIndex end.
Definition m_inputs_push (sc : scope) (s : state) : state := set_inner s (sc :: inner s).   (* ctx.inputs.append([.., 0]) *)
(* ctx.inputs.pop(); with only the program's own scope left Python would remove that one,
   which no balanced program does: reported as an error here *)
Definition m_inputs_pop (s : state) : xres state :=
  match inner s with _ :: r => XOk (set_inner s r) | [] => XErr EIndex end.
Definition m_stacks_push (s : state) : state := set_sdepth s (S (sdepth s)).            (* ctx.stacks.append(stack) *)
Definition m_stacks_pop (s : state) : xres state :=                                     (* ctx.stacks.pop() *)
  match sdepth s with S n => XOk (set_sdepth s n) | O => XErr EIndex end.
Definition m_fstack_push (f : option closure) (s : state) : state := set_fstack s (f :: fstack s).   (* ctx.function_stack.append(this) *)
Definition m_fstack_pop (s : state) : xres state :=                                     (* ctx.function_stack.pop() *)
  match fstack s with _ :: r => XOk (set_fstack s r) | [] => XErr EIndex end.

(* the four pops of a lambda, in the order both the end of the def and the lowering of X emit them *)
Definition m_lambda_pops (s : state) : xres state :=
  xdo s <- m_ctx_pop s;                                            (* ctx.context_values.pop() *)
  xdo s <- m_inputs_pop s;                                         (* ctx.inputs.pop() *)
  xdo s <- m_stacks_pop s;                                         (* ctx.stacks.pop() *)
  m_fstack_pop s.                                                  (* ctx.function_stack.pop() *)

Definition rec_t := bool -> list struct -> state -> fres.

(* switching to a callee's frame and back: its own `stack`, locals and `this` *)
Definition leave_frame (caller : state) (s : state) : state :=
  set_this (set_cur (set_stk s (stk caller)) (cur caller)) (this caller).

Section Step.
  Variable cf : cfg.
  Variable rec : rec_t.                                            (* the interpreter one fuel level down *)
  Variable wl : bool -> value -> list struct -> list struct -> state -> fres.   (* the `while` line *)

  (* ---- def _lambda_<id>(arg_stack, self, arity=-1, ctx=None): after the arity lines --------------------
     popped = what wrapify(arg_stack, n, ctx) popped, in popping order = the new `stack` list *)
  Definition m_lambda_body (self : option closure) (c : closure) (popped : list value) (s0 : state)
    : xres (value * state) :=
    let s := set_this (enter_def (decl_of c) (c_env c) (set_stk s0 (rev popped))) self in   (* a new frame; stack = wrapify(..); this = self *)
    let s := m_fstack_push self s in                               (* ctx.function_stack.append(this) *)
    let s := m_ctx_push (context_of popped) s in                   (* ctx.context_values.append(list(stack) if len(stack) != 1 else stack[0]) *)
    let s := m_inputs_push (rev popped, O) s in                    (* ctx.inputs.append([list(deep_copy(stack))[::-1], 0]) *)
    let s := m_stacks_push s in                                    (* ctx.stacks.append(stack) *)
    xdo (g, s) <- rec true (c_body c) s;                           (* the body *)
    match g with
    | SNorm =>
        let (s, res) := pop1 s in                                  (* res = [pop(stack, 1, ctx)] *)
        xdo s <- m_lambda_pops s;                                  (* the four pops *)
        XOk (res, leave_frame s0 s)                                (* return res *)
    | SRet v => XOk (v, leave_frame s0 s)                          (* an X in the body already did `return ret` *)
    | _ => XErr ENotCore                                           (* break / continue outside a loop *)
    end.

  (* ---- def VAR_<f>(arg_stack, self, arity=-1, ctx=None): `stk s` is arg_stack ---------------------------- *)
  Fixpoint m_params (ps : list param) (acc : list value) (loc : list (str * value)) (s : state)
    : xres (state * list value * list (str * value)) :=
    match ps with
    | [] => XOk (s, acc, loc)
    | PNum n :: r =>                                               (* parameters += wrapify(arg_stack, n, ctx) *)
        let (s1, popped) := popn n s in m_params r (acc ++ popped) loc s1
    | PName x :: r =>                                              (* VAR_<x> =pop(arg_stack, 1, ctx=ctx): a local of this def *)
        let (s1, v) := pop1 s in m_params r acc (loc ++ [(x, v)]) s1
    | PStar :: r =>                                                (* parameters += wrapify(arg_stack, pop(arg_stack, 1, ctx=ctx), ctx=ctx) *)
        xdo (s1, popped) <- of_opt (pop_star s); m_params r (acc ++ popped) loc s1
    end.

  (* result: the function's whole `stack` (top first); the state is back in the caller's
     frame with what is left of arg_stack *)
  Definition m_named_body (c : closure) (s : state) : xres (list value * state) :=
    xdo (s0, parameters, loc) <- m_params (c_params c) [] [] s;    (* parameters = []; the parameter lines *)
    let s := enter_def (decl_of c) (c_env c) (set_stk s0 (rev parameters)) in   (* the new frame; stack = parameters[::] *)
    let s := bind_params loc s in                                  (* the VAR_<x> = ... of the parameter lines *)
    let s := m_ctx_push (VList parameters) s in                    (* ctx.context_values.append(parameters[::]) *)
    let s := m_stacks_push s in                                    (* ctx.stacks.append(stack) *)
    let s := m_inputs_push (rev parameters, O) s in                (* ctx.inputs.append([parameters[::-1], 0]) *)
    xdo f <- of_name (lookup_var (c_name c) s);                    (* this = VAR_<f> *)
    let s := set_this s (match f with VFun c' => Some c' | _ => None end) in
    xdo (g, s) <- rec true (c_body c) s;                           (* the body *)
    match g with
    | SNorm =>
        xdo s <- m_ctx_pop s;                                      (* ctx.context_values.pop() *)
        xdo s <- m_inputs_pop s;                                   (* ctx.inputs.pop() *)
        xdo s <- m_stacks_pop s;                                   (* ctx.stacks.pop() *)
        XOk (stk s, leave_frame s0 s)                              (* return stack *)
    | _ => XErr ENotCore
    end.

  (* helpers.safe_apply(function, *args, ctx=ctx) *)
  Definition m_app : app_t := fun c args s =>
    if body_ok c then
      if c_named c then
        (* function(list(args)[::-1], function, ctx=ctx)[-1] *)
        let saved := stk s in
        xdo (fs, s1) <- m_named_body c (set_stk s args);
        match fs with
        | r :: _ => XOk (r, set_stk s1 saved)
        | [] => XErr EIndex
        end
      else
        (* function(list(args)[::-1], function, len(args), ctx=ctx)[-1]: `arity != -1`, so exactly
           the arguments are popped, in the order given *)
        m_lambda_body (Some c) c args s
    else XErr ENotCore.

  (* f(stack, self, ctx=ctx) with the arguments taken from `stack` and the result(s) put back:
     elements.function_call (self = the function), `stack += VAR_<f>(stack, self=None, ctx=ctx)`,
     `stack += this(stack, this, ctx=ctx)` *)
  Definition m_call_on_stack (self : option closure) (c : closure) (s : state) : xres state :=
    if body_ok c then
      if c_named c then
        xdo (fs, s1) <- m_named_body c s; XOk (set_stk s1 (fs ++ stk s1))
      else
        (* arity = -1: `elif 'stored_arity' in dir(self)` ... `else` the declared arity *)
        let (s1, popped) := popn (select_arity c None) s in
        xdo (r, s2) <- m_lambda_body self c popped s1; XOk (push r s2)
    else XErr ENotCore.
  Definition m_callstk : callstk_t := fun c s => m_call_on_stack (Some c) c s.

  (* ---- transpile_token ------------------------------------------------------------------------------------- *)
  Definition m_token (indef : bool) (t : token) (s : state) : xres state :=
    match tk t with
    | KNumber =>                                                   (* stack.append(sympy.nsimplify("<digits>")) *)
        match number_value (tv t) with Some z => XOk (push (VInt z) s) | None => XErr ENotCore end
    | KGeneral =>                                                  (* the element's template *)
        match tv t with [k] => elem_sem cf m_app m_callstk k s | _ => XErr ENotCore end
    | KVarGet =>                                                   (* stack.append(VAR_<x>); *)
        if name_ok (tv t) then
          match lookup_var (tv t) s with Some v => XOk (push v s) | None => XErr EName end
        else XErr ENotCore
    | KVarSet =>                                                   (* VAR_<x> = pop(stack, 1, ctx=ctx) *)
        if name_ok (tv t) then
          let (s1, v) := pop1 s in XOk (assign_var (tv t) v s1)
        else XErr ENotCore
    | KString | KCharacter | KCompString =>                       (* stack.append("<text>") / stack.append('<c>') *)
        match string_value t with Some v => XOk (push (VStr v) s) | None => XErr ENotCore end
    | _ => XErr ENotCore
    end.

  (* ---- BreakStatement (Transpile.break_text) ------------------------------------------------------------------ *)
  Definition m_break (p : option pkind) (s : state) : fres :=
    match p with
    | Some PFor | Some PWhile =>
        xdo s <- m_ctx_pop s;                                      (* ctx.context_values.pop() *)
        XOk (SBrk, s)                                              (* break *)
    | Some PLambda =>
        let (s, ret) := pop1 s in                                  (* ret = [pop(stack, 1, ctx=ctx)] *)
        xdo s <- m_lambda_pops s;                                  (* the four pops *)
        XOk (SRet ret, s)                                          (* return ret *)
    | _ => XOk (SNorm, s)                                          (* pass *)
    end.

  (* ---- RecurseStatement (Transpile.recurse_text) -------------------------------------------------------------- *)
  Definition m_recurse (p : option pkind) (s : state) : fres :=
    match p with
    | Some PIf => XOk (SNorm, s)                                   (* pass *)
    | Some PFor | Some PWhile =>
        xdo s <- m_ctx_pop s;                                      (* ctx.context_values.pop() *)
        XOk (SCont, s)                                             (* continue *)
    | Some PLambda =>                                              (* stack += this(stack, this, ctx=ctx) *)
        match this s with
        | Some c => norm (m_call_on_stack (Some c) c s)
        | None => XErr EStuck
        end
    | Some PMonadic | Some PDyadic | Some PTriadic =>              (* stack += ctx.function_stack[-2](stack, ctx.function_stack[-2], ctx=ctx) *)
        match nth_error (fstack s) 1 with
        | Some (Some c) => norm (m_call_on_stack (Some c) c s)
        | Some None => XErr EStuck
        | None => XErr EIndex
        end
    | _ => norm (vy_print (VList (rev (stk s))) s)                 (* vy_print(stack, ctx=ctx) *)
    end.

  (* ---- IfStatement: the nested if / else ladder (Transpile.tr, `ifs`) ------------------------------------------ *)
  Fixpoint m_ifs (run : list struct -> state -> fres) (bs : list (list struct)) (first : bool) (s : state)
    : fres :=
    match bs with
    | [] => XOk (SNorm, s)
    | [body] =>
        if first then
          let (s1, c) := pop1 s in                                 (* condition = pop(stack, 1, ctx=ctx) *)
          xdo b <- of_opt (truthy c);                              (* if boolify(condition, ctx): *)
          if b then run body s1 else XOk (SNorm, s1)
        else run body s                                            (* else: *)
    | x :: ((y :: rest) as tl) =>
        if first then
          let (s1, c) := pop1 s in                                 (* condition = pop(stack, 1, ctx=ctx) *)
          xdo b <- of_opt (truthy c);                              (* if boolify(condition, ctx): *)
          if b then run x s1 else m_ifs run tl false s1
        else
          xdo (g, s1) <- run x s;                                  (* else:  <condition branch> *)
          match g with
          | SNorm =>
              let (s2, c) := pop1 s1 in                            (*     condition = pop(stack, 1, ctx=ctx) *)
              xdo b <- of_opt (truthy c);                          (*     if boolify(condition, ctx): *)
              if b then run y s2 else m_ifs run rest false s2
          | _ => XOk (g, s1)                                       (* an early exit inside the condition branch *)
          end
    end.

  (* ---- ForLoop: for VAR in iterable(pop(stack, 1, ctx=ctx), range, ctx): ------------------------------------------ *)
  Fixpoint m_for (run : list struct -> state -> fres) (var : option str) (body : list struct)
           (items : list value) (s : state) : fres :=
    match items with
    | [] => XOk (SNorm, s)
    | x :: r =>
        let s := match var with Some v => assign_var v x s | None => s end in   (* VAR = next item *)
        let s := m_ctx_push x s in                                 (*     ctx.context_values.append(VAR) *)
        xdo (g, s) <- run body s;                                  (*     <body> *)
        match g with
        | SNorm => xdo s <- m_ctx_pop s; m_for run var body r s    (*     ctx.context_values.pop() *)
        | SCont => m_for run var body r s                          (* continue: the lowering of x popped already *)
        | SBrk => XOk (SNorm, s)                                   (* break: the lowering of X popped already *)
        | SRet v => XOk (SRet v, s)                                (* return leaves the loop too *)
        end
    end.

  (* ---- ListLiteral ---------------------------------------------------------------------------------------------------- *)
  Fixpoint m_items (run : list struct -> state -> fres) (its : list (list struct)) (temp : list value) (s : state)
    : xres (list value * state) :=
    match its with
    | [] => XOk (temp, s)
    | x :: r =>
        (* def list_item(s, ctx): stack = list(deep_copy(s)); the item runs in a frame of its own *)
        xdo (g, s1) <- run x (enter_def (assigned_list x) (cur s) s);
        match g with
        | SNorm =>
            let back := set_cur (set_stk s1 (stk s)) (cur s) in
            match stk s1 with
            | [] => m_items run r temp back                        (*     if len(stack) == 0: return *)
            | v :: _ => m_items run r (temp ++ [v]) back           (*     return pop(stack, 1, ctx=ctx); if f is not None: temp_list.append(f) *)
            end
        | _ => XErr ENotCore
        end
    end.

  (* wrapped operand of a modifier: the def, `stack.append(_lambda_<id>)`, then function_X = pop(stack, 1, ctx) *)
  Definition m_operand (x : struct) (s : state) : state * value := pop1 (push (VFun (operand_closure x (cur s))) s).

  Definition m_step (indef : bool) (x : struct) (s : state) : fres :=
    match x with
    | SGeneric t => norm (m_token indef t s)
    | SBreak p => m_break p s
    | SRecurse p => m_recurse p s
    | SIf bs => m_ifs (rec indef) bs true s
    | SFor names body =>
        match names with
        | [] =>                                                    (* VAR_LOOP<id>: a fresh name nobody reads *)
            let (s1, v) := pop1 s in
            xdo items <- of_opt (iter_range cf v);
            m_for (rec indef) None body items s1
        | n :: _ =>
            if name_ok (keep re_keep_for n) then
              let (s1, v) := pop1 s in
              xdo items <- of_opt (iter_range cf v);
              m_for (rec indef) (Some (keep re_keep_for n)) body items s1
            else XErr ENotCore
        end
    | SWhile c b =>
        xdo (g, s1) <- rec indef c s;                              (* <condition> *)
        match g with
        | SNorm =>
            let (s2, v) := pop1 s1 in                              (* condition = pop(stack, 1, ctx=ctx) *)
            wl indef v c b s2                                      (* while boolify(condition, ctx): ... *)
        | _ => XErr ENotCore                                       (* break / continue before the `while`: SyntaxError *)
        end
    | SFnCall n =>                                                 (* stack += VAR_<f>(stack, self=None, ctx=ctx) *)
        if name_ok (keep re_keep_fncall n) then
          match lookup_var (keep re_keep_fncall n) s with
          | Some (VFun c) => norm (m_call_on_stack None c s)
          | Some _ => XErr EStuck
          | None => XErr EName
          end
        else XErr ENotCore
    | SFnDef n ps body =>                                          (* def VAR_<f>(arg_stack, self, arity=-1, ctx=None): *)
        if name_ok (keep re_keep_fndef n) then
          match params_of ps with
          | Some params => XOk (SNorm, assign_var (keep re_keep_fndef n) (VFun (mk_named (keep re_keep_fndef n) params body (cur s))) s)
          | None => XErr ENotCore
          end
        else XErr ENotCore
    | SLambda a body =>                                            (* def _lambda_<id>...; _lambda_<id>.arity = a; stack.append(_lambda_<id>) *)
        XOk (SNorm, push (VFun (mk_lambda a body (cur s))) s)
    | SLamOp o body =>
        let s1 := push (VFun (mk_lambda (Some 1) body (cur s))) s in
        match o with
        | OpMap => norm (elem_sem cf m_app m_callstk 77%N s1)      (* the template of M *)
        | OpFilter => norm (elem_sem cf m_app m_callstk 70%N s1)   (* the template of F *)
        | OpSort => norm (elem_sem cf m_app m_callstk 7777%N s1)   (* the template of ṡ *)
        end
    | SList its =>
        xdo (temp, s1) <- m_items (rec true) its [] s;             (* temp_list = []; the items *)
        XOk (SNorm, push (VList temp) s1)                          (* stack.append(list(deep_copy(temp_list))) *)
    | SMod1 m a =>
        if mem m mod1_keys then
          let (s1, fa) := m_operand a s in
          match fa with VFun ca => norm (mod1_sem cf m_app m_callstk m ca s1) | _ => XErr EStuck end
        else XErr ENotCore
    | SMod2 m a b =>
        if mem m mod2_keys then
          let (s1, fa) := m_operand a s in
          let (s2, fb) := m_operand b s1 in
          match fa, fb with
          | VFun ca, VFun cb => norm (mod2_sem m_app m ca cb s2)
          | _, _ => XErr EStuck
          end
        else XErr ENotCore
    | _ => XErr ENotCore
    end.
End Step.

(* while boolify(condition, ctx):
       ctx.context_values.append(condition); <body>; ctx.context_values.pop()
       <condition, emitted a second time>; condition = pop(stack, 1, ctx=ctx)
   `continue` goes back to the test of the OLD condition value *)
Fixpoint exec (cf : cfg) (fuel : nat) (indef : bool) (p : list struct) (s : state) : fres :=
  match fuel with
  | O => XFuel
  | S f => seq_run (m_step cf (exec cf f) (mloop cf f) indef) p s
  end
with mloop (cf : cfg) (fuel : nat) (indef : bool) (v : value) (c b : list struct) (s : state) : fres :=
  match fuel with
  | O => XFuel
  | S f =>
      xdo t <- of_opt (truthy v);
      if t then
        let s := m_ctx_push v s in
        xdo (g, s) <- exec cf f indef b s;
        match g with
        | SNorm =>
            xdo s <- m_ctx_pop s;
            xdo (g2, s) <- exec cf f indef c s;
            match g2 with
            | SNorm => let (s, v') := pop1 s in mloop cf f indef v' c b s
            | _ => XErr ENotCore
            end
        | SBrk => XOk (SNorm, s)
        | SCont => mloop cf f indef v c b s
        | SRet r => XOk (SRet r, s)
        end
      else XOk (SNorm, s)
  end.

(* main.execute_vyxal: Context(), stack, ctx.inputs[0][0] = inputs, the two ctx.stacks.append(stack),
   exec(code), then the implicit output.  An early exit that reaches the module level is a
   SyntaxError / has nothing to leave *)
Definition run_machine (fl : flag) (fuel : nat) (inputs : list value) (p : list struct) : xres state :=
  xdo (g, s) <- exec (cfg_of fl) fuel false p (init_state fl inputs);
  match g with
  | SNorm => finish (m_app (exec (cfg_of fl) fuel)) fl s
  | _ => XErr ENotCore
  end.
