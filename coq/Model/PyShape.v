(* Block-structure abstraction of the Python that Model/Transpile.v emits, and the
   context conditions Python imposes beyond indentation (C02): non-empty suites,
   `else` directly after an `if` suite, break/continue inside a loop and not across a
   def, return inside a def, and templates that are valid statements on their own.
   `shape` mirrors the block structure of `Transpile.tr` constructor by constructor; the
   shapes of element/modifier templates are read from the templates with Python's `ast`
   (Gen/TemplateShapes.v).  The link to the implementation is the correspondence: the
   block skeleton of ast.parse(transpile(src)) is compared with `shape_program` in Coq.
   No proofs here. *)
From Coq Require Import List NArith ZArith Bool String.
From Vy Require Import Model.Base Model.Lexer Model.Parser Model.Transpile Model.PyTree Gen.Elements Gen.TemplateShapes.
Import ListNotations.
Open Scope N_scope.

(* ---- shape of the emitted code ------------------------------------------------------------ *)
(* dict display semantics: the last entry with a key wins; an unknown element is `pass` *)
Fixpoint find_shape_in (k : str) (tbl : list (str * list pyn)) (acc : option (list pyn)) : option (list pyn) :=
  match tbl with
  | [] => acc
  | (k', sh) :: r => find_shape_in k r (if str_eqb k k' then Some sh else acc)
  end.
Definition elem_shape (k : str) : list pyn :=
  match find_shape_in k elem_shapes None with Some sh => sh | None => [NSimple] end.
Definition modif_shape (m : N) : list pyn :=
  match find_shape_in [m] modif_shapes None with Some sh => sh | None => [NSimple] end.

Definition shape_token (t : token) : list pyn :=
  match tk t with
  | KGeneral => elem_shape (tv t)
  | _ => [NSimple]
  end.

Definition shape_break (p : option pkind) : list pyn :=
  match p with
  | Some PFor | Some PWhile => [NSimple; NBreak]
  | Some PLambda => [NSimple; NSimple; NSimple; NSimple; NSimple; NReturn]
  | _ => [NSimple]
  end.
Definition shape_recurse (p : option pkind) : list pyn :=
  match p with
  | Some PFor | Some PWhile => [NSimple; NContinue]
  | _ => [NSimple]
  end.

(* the arity-selection lines of a lambda: if …: … / elif …: … / else: … *)
Definition arity_chain : list pyn :=
  [NBlock BIf [NSimple]; NBlock BElse [NBlock BIf [NSimple]; NBlock BElse [NSimple]]].

Definition lambda_shape (body : list pyn) : list pyn :=
  [NBlock BDef (arity_chain ++ [NSimple; NSimple; NSimple; NSimple; NSimple] ++ body
                ++ [NSimple; NSimple; NSimple; NSimple; NSimple; NReturn]);
   NSimple; NSimple].

Section WithShape.
Variable sh : struct -> list pyn.

(* transpile_ast on a branch: `pass` for an empty one *)
Definition ast_with (l : list struct) : list pyn :=
  match l with [] => [NSimple] | _ => flat_map sh l end.

(* the items of a list literal: def list_item / f = list_item(..) / if f is not None: .. *)
Fixpoint items_with (l : list (list struct)) : list pyn :=
  match l with
  | [] => []
  | x :: r =>
      NBlock BDef ([NSimple] ++ ast_with x ++ [NBlock BIf [NReturn]; NReturn])
      :: NSimple :: NBlock BIf [NSimple] :: items_with r
  end.

(* the if / else-if chain (see Transpile.tr, `ifs`) *)
Fixpoint ifs_with (bs : list (list struct)) (first : bool) : list pyn :=
  match bs with
  | [] => []
  | [body] => if first then [NSimple; NBlock BIf (ast_with body)] else [NBlock BElse (ast_with body)]
  | x :: ((y :: rest) as tl) =>
      if first then [NSimple; NBlock BIf (ast_with x)] ++ ifs_with tl false
      else [NBlock BElse (ast_with x ++ [NSimple; NBlock BIf (ast_with y)] ++ ifs_with rest false)]
  end.
End WithShape.

Fixpoint shape (s : struct) : list pyn :=
  let wrapped := fun (x : struct) =>
    match x with
    | SLambda _ body => lambda_shape (ast_with shape body)
    | _ => lambda_shape (shape x)
    end in
  match s with
  | SGeneric t => shape_token t
  | SBreak p => shape_break p
  | SRecurse p => shape_recurse p
  | SIf bs => ifs_with shape bs true
  | SFor _ body => [NBlock BLoop ([NSimple] ++ ast_with shape body ++ [NSimple])]
  | SWhile c b =>
      ast_with shape c
      ++ [NSimple; NBlock BLoop ([NSimple] ++ ast_with shape b ++ [NSimple] ++ ast_with shape c ++ [NSimple])]
  | SFnCall _ => [NSimple]
  | SFnDef _ ps body =>
      [NBlock BDef ([NSimple] ++ map (fun _ => NSimple) ps
                    ++ [NSimple; NSimple; NSimple; NSimple; NSimple] ++ ast_with shape body
                    ++ [NSimple; NSimple; NSimple; NReturn])]
  | SLambda _ body => lambda_shape (ast_with shape body)
  | SLamOp o body => lambda_shape (ast_with shape body) ++ elem_shape (lamop_key o)
  | SList its => [NSimple] ++ items_with shape its ++ [NSimple]
  | SMod1 m a => wrapped a ++ [NSimple] ++ modif_shape m
  | SMod2 m a b => wrapped a ++ [NSimple] ++ wrapped b ++ [NSimple] ++ modif_shape m
  | SMod3 m a b c =>
      wrapped a ++ [NSimple] ++ wrapped b ++ [NSimple] ++ wrapped c ++ [NSimple] ++ modif_shape m
  end.

Definition shape_program (l : list struct) : list pyn := ast_with shape l.

(* ---- where early exits may stand (the side condition of C02) --------------------------------
   in_loop: the statement is emitted inside the Python loop of the structure named by its
   parent annotation; in_def: inside a def *)
Fixpoint ctx_ok (in_loop in_def : bool) (s : struct) : bool :=
  let all := fun (il idf : bool) (l : list struct) => forallb (ctx_ok il idf) l in
  match s with
  | SGeneric _ | SFnCall _ => true
  | SBreak p =>
      match p with Some PFor | Some PWhile => in_loop | Some PLambda => in_def | _ => true end
  | SRecurse p =>
      match p with Some PFor | Some PWhile => in_loop | _ => true end
  | SIf bs => negb (match bs with [] => true | _ => false end) && forallb (all in_loop in_def) bs
  | SFor _ b => all true in_def b
  | SWhile c b => all false in_def c && all true in_def c && all true in_def b
  | SFnDef _ _ b => all false true b
  | SLambda _ b => all false true b
  | SLamOp _ b => all false true b
  | SList its => forallb (all false true) its
  | SMod1 _ a => ctx_ok false true a
  | SMod2 _ a b => ctx_ok false true a && ctx_ok false true b
  | SMod3 _ a b c => ctx_ok false true a && ctx_ok false true b && ctx_ok false true c
  end.


Definition shape_source (src : str) : option (list pyn) :=
  match parse_source src with Ok l => Some (shape_program l) | _ => None end.
Definition ctx_ok_source (src : str) : option bool :=
  match parse_source src with Ok l => Some (forallb (ctx_ok false false) l) | _ => None end.
