(* Block-structure abstraction of the Python that Model/Transpile.v emits, and the
   context conditions Python imposes beyond indentation (C02): non-empty suites,
   `else` directly after an `if` suite, break/continue inside a loop and not across a
   def, return inside a def, and templates that are valid statements on their own.
   `shape` mirrors the block structure of `Transpile.tr` constructor by constructor; the
   shapes of element/modifier templates are read from the templates with Python's `ast`
   (Gen/TemplateShapes.v).  The link to the implementation is the correspondence: the
   block skeleton of ast.parse(transpile(src)) is compared with `shape_program` in Coq.
   No proofs here. *)
From Coq Require Import List NArith ZArith Bool String.
From Vy Require Import Model.Base Model.Lexer Model.Parser Model.Transpile Model.PyTree Gen.Elements Gen.TemplateShapes.
Import ListNotations.
Open Scope N_scope.

(* ---- shape of the emitted code ------------------------------------------------------------ *)
(* dict display semantics: the last entry with a key wins; an unknown element is `pass` *)
Fixpoint find_shape_in (k : str) (tbl : list (str * list pyn)) (acc : option (list pyn)) : option (list pyn) :=
  match tbl with
  | [] => acc
  | (k', sh) :: r => find_shape_in k r (if str_eqb k k' then Some sh else acc)
  end.
Definition elem_shape (k : str) : list pyn :=
  match find_shape_in k elem_shapes None with Some sh => sh | None => [NSimple] end.
Definition modif_shape (m : N) : list pyn :=
  match find_shape_in [m] modif_shapes None with Some sh => sh | None => [NSimple] end.

Definition shape_token (t : token) : list pyn :=
  match tk t with
  | KGeneral => elem_shape (tv t)
  | _ => [NSimple]
  end.

Definition shape_break (p : option pkind) : list pyn :=
  match p with
  | Some PFor | Some PWhile => [NSimple; NBreak]
  | Some PLambda => [NSimple; NSimple; NSimple; NSimple; NSimple; NReturn]
  | _ => [NSimple]
  end.
Definition shape_recurse (p : option pkind) : list pyn :=
  match p with
  | Some PFor | Some PWhile => [NSimple; NContinue]
  | _ => [NSimple]
  end.

(* the arity-selection lines of a lambda: if …: … / elif …: … / else: … *)
Definition arity_chain : list pyn :=
  [NBlock BIf [NSimple]; NBlock BElse [NBlock BIf [NSimple]; NBlock BElse [NSimple]]].

Definition lambda_shape (body : list pyn) : list pyn :=
  [NBlock BDef (arity_chain ++ [NSimple; NSimple; NSimple; NSimple; NSimple] ++ body
                ++ [NSimple; NSimple; NSimple; NSimple; NSimple; NReturn]);
   NSimple; NSimple].

Fixpoint shape (s : struct) : list pyn :=
  let ast := fun (l : list struct) =>
    match l with [] => [NSimple] | _ => flat_map shape l end in
  let items := fix items (l : list (list struct)) : list pyn :=
    match l with
    | [] => []
    | x :: r =>
        NBlock BDef ([NSimple] ++ ast x ++ [NBlock BIf [NReturn]; NReturn])
        :: NSimple :: NBlock BIf [NSimple] :: items r
    end in
  let ifs := fix ifs (bs : list (list struct)) (first : bool) : list pyn :=
    match bs with
    | [] => []
    | [body] => if first then [NSimple; NBlock BIf (ast body)] else [NBlock BElse (ast body)]
    | x :: ((y :: rest) as tl) =>
        if first then [NSimple; NBlock BIf (ast x)] ++ ifs tl false
        else [NBlock BElse (ast x ++ [NSimple; NBlock BIf (ast y)] ++ ifs rest false)]
    end in
  let wrapped := fun (x : struct) =>
    match x with
    | SLambda _ body => lambda_shape (ast body)
    | _ => lambda_shape (shape x)
    end in
  match s with
  | SGeneric t => shape_token t
  | SBreak p => shape_break p
  | SRecurse p => shape_recurse p
  | SIf bs => ifs bs true
  | SFor _ body => [NBlock BLoop ([NSimple] ++ ast body ++ [NSimple])]
  | SWhile c b =>
      ast c ++ [NSimple; NBlock BLoop ([NSimple] ++ ast b ++ [NSimple] ++ ast c ++ [NSimple])]
  | SFnCall _ => [NSimple]
  | SFnDef _ ps body =>
      [NBlock BDef ([NSimple] ++ map (fun _ => NSimple) ps
                    ++ [NSimple; NSimple; NSimple; NSimple; NSimple] ++ ast body
                    ++ [NSimple; NSimple; NSimple; NReturn])]
  | SLambda _ body => lambda_shape (ast body)
  | SLamOp o body =>
      lambda_shape (ast body) ++ elem_shape (lamop_key o)
  | SList its => [NSimple] ++ items its ++ [NSimple]
  | SMod1 m a => wrapped a ++ [NSimple] ++ modif_shape m
  | SMod2 m a b => wrapped a ++ [NSimple] ++ wrapped b ++ [NSimple] ++ modif_shape m
  | SMod3 m a b c =>
      wrapped a ++ [NSimple] ++ wrapped b ++ [NSimple] ++ wrapped c
      ++ [NSimple] ++ modif_shape m
  end.

Definition shape_program (l : list struct) : list pyn :=
  match l with [] => [NSimple] | _ => flat_map shape l end.

(* ---- where early exits may stand (the side condition of C02) --------------------------------
   in_loop: the statement is emitted inside the Python loop of the structure named by its
   parent annotation; in_def: inside a def *)
Fixpoint ctx_ok (in_loop in_def : bool) (s : struct) : bool :=
  let all := fun (il idf : bool) (l : list struct) => forallb (ctx_ok il idf) l in
  match s with
  | SGeneric _ | SFnCall _ => true
  | SBreak p =>
      match p with Some PFor | Some PWhile => in_loop | Some PLambda => in_def | _ => true end
  | SRecurse p =>
      match p with Some PFor | Some PWhile => in_loop | _ => true end
  | SIf bs => forallb (all in_loop in_def) bs
  | SFor _ b => all true in_def b
  | SWhile c b => all false in_def c && all true in_def c && all true in_def b
  | SFnDef _ _ b => all false true b
  | SLambda _ b => all false true b
  | SLamOp _ b => all false true b
  | SList its => forallb (all false true) its
  | SMod1 _ a => ctx_ok false true a
  | SMod2 _ a b => ctx_ok false true a && ctx_ok false true b
  | SMod3 _ a b c => ctx_ok false true a && ctx_ok false true b && ctx_ok false true c
  end.


Definition shape_source (src : str) : option (list pyn) :=
  match parse_source src with Ok l => Some (shape_program l) | _ => None end.
Definition ctx_ok_source (src : str) : option bool :=
  match parse_source src with Ok l => Some (forallb (ctx_ok false false) l) | _ => None end.
