(* Model of vyxal/lexer.py `tokenise`.

   The Python function pops characters from a deque and, per branch, scans ahead
   with an inner loop.  The model is the same function written as a character-at-
   a-time state machine: every inner scanning loop of the Python becomes a mode,
   `step` consumes exactly one character, `flush` is what the Python does when the
   input ends inside that loop.  The branch-selecting character sets come from
   Gen/ParserConsts.v (read from lexer.py's AST on every run).

   No proofs in this file. *)
From Coq Require Import List NArith Bool.
From Vy Require Import Model.Base Gen.ParserConsts.
Import ListNotations.
Open Scope N_scope.

Inductive tkind :=
| KString | KNumber | KCharacter | KGeneral | KCompNumber | KCompString
| KVarGet | KVarSet | KCpNumber.

Definition tkind_eqb (a b : tkind) : bool :=
  match a, b with
  | KString, KString | KNumber, KNumber | KCharacter, KCharacter | KGeneral, KGeneral
  | KCompNumber, KCompNumber | KCompString, KCompString | KVarGet, KVarGet
  | KVarSet, KVarSet | KCpNumber, KCpNumber => true
  | _, _ => false
  end.

Record token := Tok { tk : tkind; tv : str }.

Definition token_eqb (a b : token) : bool := tkind_eqb (tk a) (tk b) && str_eqb (tv a) (tv b).

Fixpoint tokens_eqb (a b : list token) : bool :=
  match a, b with
  | [], [] => true
  | x :: a', y :: b' => token_eqb x y && tokens_eqb a' b'
  | _, _ => false
  end.

(* characters with a role in the lexer; the three string delimiters are taken
   positionally from lexer.py's `head in "`»«"` *)
Definition ch_backslash : N := 92.
Definition ch_newline : N := 10.
Definition ch_pipe : N := 124.
Definition ch_zero : N := 48.
Definition ch_dot : N := 46.
Definition ch_degree : N := 176.
Definition ch_underscore : N := 95.
Definition ch_backquote : N := 96.
Definition ch_num_delim : N := 187.   (* » *)
Definition ch_str_delim : N := 171.   (* « *)
Definition ch_arrow_set : N := 8594.  (* → *)

Definition string_kind (d : N) : tkind :=
  if N.eqb d ch_backquote then KString
  else if N.eqb d ch_num_delim then KCompNumber
  else KCompString.

(* number scanning: (acc ++ [c]).count("°") < 2 and every "°"-separated part has
   fewer than two "." *)
Fixpoint count_c (c : N) (s : str) : nat :=
  match s with [] => O | x :: r => (if N.eqb x c then 1 else 0)%nat + count_c c r end.

(* dots in the current (last) part and whether any earlier part had >= 2 dots:
   since the accumulator is extended only while the condition holds, it suffices to
   check the whole string; we do so directly *)
Fixpoint parts_ok_aux (s : str) (dots : nat) : bool :=
  match s with
  | [] => Nat.ltb dots 2
  | x :: r =>
      if N.eqb x ch_degree then Nat.ltb dots 2 && parts_ok_aux r 0
      else if N.eqb x ch_dot then parts_ok_aux r (S dots)
      else parts_ok_aux r dots
  end.
Definition number_ok (s : str) : bool :=
  Nat.ltb (count_c ch_degree s) 2 && parts_ok_aux s 0.

Inductive mode :=
| MNormal
| MEscape                      (* after a backslash at top level *)
| MString (d : N) (acc : str)  (* inside ` » « ; acc is the payload so far *)
| MStringEsc (acc : str)       (* inside `...` just after a backslash *)
| MZero                        (* a lone "0" read, deciding on the next character *)
| MNumber (acc : str)
| MTwo (acc : str)             (* after ‛ *)
| MVar (set : bool) (acc : str)
| MComment
| MDigraph (h : N)
| MCpNum.

(* what the main `while source:` ladder does with a head character *)
Definition step_normal (c : N) : mode * list token :=
  if mem c lex_escape then (MEscape, [])
  else if mem c lex_string_delims then (MString c [], [])
  else if mem c lex_number_chars then
    (if N.eqb c ch_zero then (MZero, []) else (MNumber [c], []))
  else if mem c lex_twochar then (MTwo [], [])
  else if mem c lex_var then (MVar (N.eqb c ch_arrow_set) [], [])
  else if mem c lex_comment then (MComment, [])
  else if mem c lex_digraph then (MDigraph c, [])
  else if mem c lex_cpnum then (MCpNum, [])
  else (MNormal, [Tok KGeneral [c]]).

Definition is_name_char (c : N) : bool := mem c ascii_letters || N.eqb c ch_underscore.

Definition var_kind (set : bool) : tkind := if set then KVarSet else KVarGet.

Definition step (dv : bool) (m : mode) (c : N) : mode * list token :=
  match m with
  | MNormal => step_normal c
  | MEscape => (MNormal, [Tok KCharacter [c]])
  | MString d acc =>
      if N.eqb c d then (MNormal, [Tok (string_kind d) acc])
      else if N.eqb d ch_backquote && N.eqb c ch_backslash then (MStringEsc acc, [])
      else (MString d (acc ++ [c]), [])
  | MStringEsc acc => (MString ch_backquote (acc ++ [ch_backslash; c]), [])
  | MZero =>
      if N.eqb c ch_degree || N.eqb c ch_dot then
        (* the general scanning loop, entered with "0" *)
        (if mem c lex_number_chars && number_ok [ch_zero; c]
         then (MNumber [ch_zero; c], [])
         else let '(m', out) := step_normal c in (m', Tok KNumber [ch_zero] :: out))
      else let '(m', out) := step_normal c in (m', Tok KNumber [ch_zero] :: out)
  | MNumber acc =>
      if mem c lex_number_chars && number_ok (acc ++ [c]) then (MNumber (acc ++ [c]), [])
      else let '(m', out) := step_normal c in (m', Tok KNumber acc :: out)
  | MTwo acc =>
      (* only ever reached with length acc < 2 *)
      match acc with
      | [_] => (MNormal, [Tok KString (acc ++ [c])])
      | _ => (MTwo (acc ++ [c]), [])
      end
  | MVar set acc =>
      if is_name_char c then
        (if dv then (MNormal, [Tok (var_kind set) (acc ++ [c])]) else (MVar set (acc ++ [c]), []))
      else let '(m', out) := step_normal c in (m', Tok (var_kind set) acc :: out)
  | MComment => if N.eqb c ch_newline then (MNormal, []) else (MComment, [])
  | MDigraph h =>
      if N.eqb c ch_pipe then let '(m', out) := step_normal c in (m', Tok KGeneral [h] :: out)
      else (MNormal, [Tok KGeneral [h; c]])
  | MCpNum => (MNormal, [Tok KCpNumber [c]])
  end.

(* end of input inside a mode *)
Definition flush (m : mode) : list token :=
  match m with
  | MNormal | MEscape | MComment | MCpNum => []
  | MString d acc => [Tok (string_kind d) acc]
  | MStringEsc acc => [Tok KString acc]
  | MZero => [Tok KNumber [ch_zero]]
  | MNumber acc => [Tok KNumber acc]
  | MTwo acc => [Tok KString acc]
  | MVar set acc => [Tok (var_kind set) acc]
  | MDigraph h => [Tok KGeneral [h]]
  end.

Fixpoint run (dv : bool) (m : mode) (s : str) : list token :=
  match s with
  | [] => flush m
  | c :: r => let '(m', out) := step dv m c in out ++ run dv m' r
  end.

Definition tokenise_dv (dv : bool) (s : str) : list token := run dv MNormal s.
Definition tokenise (s : str) : list token := tokenise_dv false s.
