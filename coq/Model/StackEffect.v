(* Model for property C09 -- an element touches only the stack entries it consumes.

   Template trees: the stack programs that tools/gen_quirks.py extracts from the text of
   every element / modifier template of vyxal/elements.py (Gen/StackTemplates.v).
   `exec` is their concrete semantics over an ABSTRACT value type: everything that is not
   a stack primitive (element functions, operators, truth tests, iteration, the context
   flags retain_popped / reverse_flag read by `pop`, the implicit input used when a pop
   finds the stack empty, whether a call raises) is answered by an oracle indexed by a
   clock that advances at every query, so one oracle is one arbitrary -- stateful,
   non-deterministic, raising -- behaviour of the rest of the interpreter.
   `astmt` is the abstract interpreter: a lower bound on how many entries the template
   itself has left/put above the part of the stack it must not reach; `frame_ok`.

   Stacks are kept top-first here (`stk`), i.e. reversed w.r.t. the Python list;
   `run_tmpl` takes and returns Python order.  No proofs in this file. *)
From Coq Require Import List NArith Bool Arith.
From Vy Require Import Model.Base.
Import ListNotations.
Open Scope nat_scope.

(* ---------------------------------------------------------------- syntax *)

Inductive which := Main | Aux.   (* `stack` / the local a template binds to a copy of it *)

Inductive cnt :=
| CConst (n : nat)               (* pop(stack, 2, ctx) *)
| CArity (f : nat)               (* pop(stack, function_A.arity, ctx): 0 = A, 1 = B, 2 = C *)
| CLen (w : which).              (* pop(stack, len(stack), ctx) *)

Inductive cmpop := OGt | OGe | OLt | OLe | OEq | ONe.

Inductive expr :=
| EConst (name : str)            (* constant / global / context field: source text *)
| EVar (x : nat)                 (* template local *)
| EApp (f a : expr)              (* uninterpreted application, f evaluated before a *)
| EPop (w : which) (c : cnt)     (* pop(stack, c, ctx) *)
| EWrap (w : which) (c : cnt)    (* wrapify(stack, c, ctx) *)
| EPopDyn (w : which) (e : expr) (* pop(stack, <expression>, ctx) *)
| EWrapDyn (w : which) (e : expr)
| EStackPop                      (* stack.pop() *)
| ELen (w : which)               (* len(stack) *)
| EPeek (i : nat)                (* stack[-(i+1)] *)
| ERead (name : str)             (* read-only helper over the whole stack: index(stack, -2, ctx), stack[i] *)
| ECopy                          (* deep_copy(stack) / list(deep_copy(stack)) as a value *)
| EAuxVal                        (* the copy bound earlier, used as a value *)
| EFunCall                       (* function_call(stack, ctx) *)
| EBad.                          (* any other expression that can reach the stack *)

Inductive cond :=
| CExpr (e : expr)
| CLenGt (n : nat)               (* len(stack) > n *)
| CArityCmp (f : nat) (op : cmpop) (n : nat)   (* function_A.arity >= 2 *)
| CAnd (a b : cond)
| COr (a b : cond)
| CNot (a : cond).

Inductive stmt :=
| SSkip
| SSeq (a b : stmt)
| SEval (e : expr)               (* expression statement / store into a context field *)
| SAssign (x : nat) (e : expr)
| SUnpack (xs : list nat) (e : expr)   (* x, y = e *)
| SPush (e : expr)               (* stack.append(e) *)
| SExtend (e : expr)             (* stack += e *)
| SCopyAux                       (* alias = list(deep_copy(stack)) *)
| SRaise                         (* a statement that cannot complete: stack.append() *)
| SIf (c : cond) (t e : stmt)
| SWhile (c : cond) (b : stmt)
| SOpaque (mentions_stack : bool).

(* one row of the generated table *)
Record tentry := { t_key : str; t_modifier : bool; t_arity : nat; t_tmpl : stmt }.

(* ---------------------------------------------------------------- concrete semantics *)

Section Sem.
Variable value : Type.

Record oracle := {
  o_const   : nat -> str -> value;                 (* value of a constant / global at this moment *)
  o_app     : nat -> value -> value -> value;      (* result of an application *)
  o_raise   : nat -> bool;                         (* does the operation at this moment raise *)
  o_list    : nat -> list value -> value;          (* the Python list of these values *)
  o_items   : nat -> value -> list value;          (* iterating a value (unpacking, +=) *)
  o_truth   : nat -> value -> bool;
  o_count   : nat -> value -> nat;                 (* a value used as a pop count *)
  o_nat     : nat -> nat -> value;                 (* an integer as a value: len(stack) *)
  o_input   : nat -> value;                        (* implicit input: pop on an empty stack *)
  o_retain  : nat -> bool;                         (* ctx.retain_popped when this pop runs *)
  o_reverse : nat -> bool;                         (* ctx.reverse_flag when this pop runs *)
  o_read    : nat -> str -> list value -> value;   (* read-only helper over the whole stack *)
  o_clobber : nat -> list value -> list value;     (* effect of unrecognised code on a stack *)
  o_env     : nat -> (nat -> value) -> nat -> value  (* effect of opaque code on the locals *)
}.

Variable F : oracle.
Variable ar : list nat.          (* arities of function_A, function_B, ... (modifiers) *)

Record st := { stk : list value; aux : list value; env : nat -> value; clk : nat }.

Inductive res (A : Type) :=
| Ok (a : A) (s : st)
| Exn (s : st)                   (* an exception left the template in state s *)
| Fuel.
Arguments Ok {A}. Arguments Exn {A}. Arguments Fuel {A}.

Definition bind {A B} (m : res A) (k : A -> st -> res B) : res B :=
  match m with Ok a s => k a s | Exn s => Exn s | Fuel => Fuel end.

Definition get (w : which) (s : st) : list value :=
  match w with Main => stk s | Aux => aux s end.

Definition set (w : which) (l : list value) (c : nat) (s : st) : st :=
  match w with
  | Main => {| stk := l; aux := aux s; env := env s; clk := c |}
  | Aux => {| stk := stk s; aux := l; env := env s; clk := c |}
  end.

Definition tick (s : st) : st :=
  {| stk := stk s; aux := aux s; env := env s; clk := S (clk s) |}.

Definition upd (f : nat -> value) (x : nat) (v : value) : nat -> value :=
  fun y => if Nat.eqb y x then v else f y.

(* helpers.pop's loop: n items from the top, the implicit input when the list is empty *)
Fixpoint take_pop (n : nat) (l : list value) (c : nat) : list value * list value * nat :=
  match n with
  | O => ([], l, c)
  | S n' =>
    match l with
    | x :: l' => let '(p, r, c') := take_pop n' l' c in (x :: p, r, c')
    | [] => let '(p, r, c') := take_pop n' [] (S c) in (o_input F c :: p, r, c')
    end
  end.

(* pop(l, n, ctx) / wrapify(l, n, ctx) *)
Definition do_pop (w : which) (n : nat) (wrap : bool) (s : st) : res value :=
  let '(p, r, c) := take_pop n (get w s) (clk s) in
  let l' := if o_retain F c then p ++ r else r in
  let p' := if o_reverse F c then rev p else p in
  let v := if wrap then o_list F c p'
           else match p' with [x] => x | _ => o_list F c p' end in
  Ok v (set w l' (S c) s).

Definition count_of (c : cnt) (s : st) : nat :=
  match c with
  | CConst n => n
  | CArity f => nth f ar 0
  | CLen w => length (get w s)
  end.

Definition clobbered (both : bool) (s : st) : st :=
  {| stk := o_clobber F (clk s) (stk s);
     aux := if both then o_clobber F (S (clk s)) (aux s) else aux s;
     env := env s; clk := S (S (clk s)) |}.

Fixpoint eval (e : expr) (s : st) : res value :=
  match e with
  | EConst nm => Ok (o_const F (clk s) nm) (tick s)
  | EVar x => Ok (env s x) s
  | EApp f a =>
    bind (eval f s) (fun vf s1 =>
    bind (eval a s1) (fun va s2 =>
      if o_raise F (clk s2) then Exn (tick s2)
      else Ok (o_app F (clk s2) vf va) (tick s2)))
  | EPop w c => do_pop w (count_of c s) false s
  | EWrap w c => do_pop w (count_of c s) true s
  | EPopDyn w e' => bind (eval e' s) (fun v s1 => do_pop w (o_count F (clk s1) v) false (tick s1))
  | EWrapDyn w e' => bind (eval e' s) (fun v s1 => do_pop w (o_count F (clk s1) v) true (tick s1))
  | EStackPop =>
    match stk s with
    | [] => Exn s
    | x :: r => Ok x (set Main r (clk s) s)
    end
  | ELen w => Ok (o_nat F (clk s) (length (get w s))) (tick s)
  | EPeek i =>
    match nth_error (stk s) i with
    | Some v => Ok v s
    | None => Exn s
    end
  | ERead nm => if o_raise F (clk s) then Exn (tick s) else Ok (o_read F (clk s) nm (rev (stk s))) (tick s)
  | ECopy => Ok (o_list F (clk s) (rev (stk s))) (tick s)
  | EAuxVal => Ok (o_list F (clk s) (rev (aux s))) (tick s)
  | EFunCall =>
    let s' := clobbered false s in
    if o_raise F (clk s) then Exn s' else Ok (o_read F (clk s) [] (rev (stk s))) s'
  | EBad =>
    let s' := clobbered true s in
    if o_raise F (clk s) then Exn s' else Ok (o_read F (clk s) [] (rev (stk s))) s'
  end.

Definition cmp_nat (op : cmpop) (a b : nat) : bool :=
  match op with
  | OGt => b <? a | OGe => b <=? a | OLt => a <? b | OLe => a <=? b
  | OEq => a =? b | ONe => negb (a =? b)
  end.

Fixpoint ceval (c : cond) (s : st) : res bool :=
  match c with
  | CExpr e => bind (eval e s) (fun v s1 => Ok (o_truth F (clk s1) v) (tick s1))
  | CLenGt n => Ok (n <? length (stk s)) s
  | CArityCmp f op n => Ok (cmp_nat op (nth f ar 0) n) s
  | CAnd a b => bind (ceval a s) (fun x s1 => if x then ceval b s1 else Ok false s1)
  | COr a b => bind (ceval a s) (fun x s1 => if x then Ok true s1 else ceval b s1)
  | CNot a => bind (ceval a s) (fun x s1 => Ok (negb x) s1)
  end.

Fixpoint assign_all (xs : list nat) (vs : list value) (dflt : value) (f : nat -> value) : nat -> value :=
  match xs with
  | [] => f
  | x :: xs' => assign_all xs' (tl vs) dflt (upd f x (hd dflt vs))
  end.

Fixpoint exec (fuel : nat) (t : stmt) (s : st) : res unit :=
  match fuel with
  | O => Fuel
  | S fu =>
    match t with
    | SSkip => Ok tt s
    | SSeq a b => bind (exec fu a s) (fun _ s1 => exec fu b s1)
    | SEval e => bind (eval e s) (fun _ s1 => Ok tt s1)
    | SAssign x e =>
      bind (eval e s) (fun v s1 =>
        Ok tt {| stk := stk s1; aux := aux s1; env := upd (env s1) x v; clk := clk s1 |})
    | SUnpack xs e =>
      bind (eval e s) (fun v s1 =>
        if o_raise F (clk s1) then Exn (tick s1)
        else Ok tt {| stk := stk s1; aux := aux s1;
                      env := assign_all xs (o_items F (clk s1) v) v (env s1);
                      clk := S (clk s1) |})
    | SPush e => bind (eval e s) (fun v s1 => Ok tt (set Main (v :: stk s1) (clk s1) s1))
    | SExtend e =>
      bind (eval e s) (fun v s1 =>
        if o_raise F (clk s1) then Exn (tick s1)
        else Ok tt (set Main (rev (o_items F (clk s1) v) ++ stk s1) (S (clk s1)) s1))
    | SCopyAux => Ok tt (set Aux (stk s) (clk s) s)
    | SRaise => Exn s
    | SIf c a b => bind (ceval c s) (fun x s1 => if x then exec fu a s1 else exec fu b s1)
    | SWhile c b =>
      bind (ceval c s) (fun x s1 =>
        if x then bind (exec fu b s1) (fun _ s2 => exec fu (SWhile c b) s2) else Ok tt s1)
    | SOpaque m =>
      let s0 := if m then clobbered true s else tick (tick s) in
      let s' := {| stk := stk s0; aux := aux s0; env := o_env F (clk s) (env s0); clk := clk s0 |} in
      if o_raise F (clk s) then Exn s' else Ok tt s'
    end
  end.

Definition init_st (stack : list value) : st :=
  {| stk := rev stack; aux := []; env := fun _ => o_const F 0 []; clk := 0 |}.

(* the stack (Python order) the template leaves, also when it raises midway;
   None = out of fuel (a `while` that did not finish within `fuel` steps) *)
Definition run_tmpl (fuel : nat) (t : stmt) (stack : list value) : option (list value) :=
  match exec fuel t (init_st stack) with
  | Ok _ s => Some (rev (stk s))
  | Exn s => Some (rev (stk s))
  | Fuel => None
  end.

End Sem.

Arguments Ok {value A}. Arguments Exn {value A}. Arguments Fuel {value A}.
Arguments bind {value A B}. Arguments get {value}. Arguments set {value}. Arguments tick {value}.
Arguments upd {value}. Arguments take_pop {value}. Arguments do_pop {value}. Arguments count_of {value}.
Arguments clobbered {value}. Arguments eval {value}. Arguments ceval {value}. Arguments assign_all {value}.
Arguments exec {value}. Arguments init_st {value}. Arguments run_tmpl {value}.
Arguments o_const {value}. Arguments o_app {value}. Arguments o_raise {value}. Arguments o_list {value}.
Arguments o_items {value}. Arguments o_truth {value}. Arguments o_count {value}. Arguments o_nat {value}.
Arguments o_input {value}. Arguments o_retain {value}. Arguments o_reverse {value}. Arguments o_read {value}.
Arguments o_clobber {value}. Arguments o_env {value}.
Arguments stk {value}. Arguments aux {value}. Arguments env {value}. Arguments clk {value}.

(* ---------------------------------------------------------------- abstract interpreter *)

(* credit: (main, aux) = numbers of top entries of `stack` / of the copy that are known
   to lie above the part the template must not reach *)
Definition cr := (nat * nat)%type.

Definition cr_min (a b : cr) : cr := (Nat.min (fst a) (fst b), Nat.min (snd a) (snd b)).
Definition cr_leb (a b : cr) : bool := (fst a <=? fst b) && (snd a <=? snd b).

Definition obind {A B} (m : option A) (k : A -> option B) : option B :=
  match m with Some a => k a | None => None end.

Section Abs.
Variable ar : list nat.

Definition take (w : which) (n : nat) (d : cr) : option cr :=
  match w with
  | Main => if n <=? fst d then Some (fst d - n, snd d) else None
  | Aux => if n <=? snd d then Some (fst d, snd d - n) else None
  end.

Definition acnt (w : which) (c : cnt) (d : cr) : option cr :=
  match c with
  | CConst n => take w n d
  | CArity f => take w (nth f ar 0) d
  | CLen _ => None
  end.

Fixpoint aexpr (e : expr) (d : cr) : option cr :=
  match e with
  | EConst _ | EVar _ => Some d
  | EApp f a => obind (aexpr f d) (aexpr a)
  | EPop w c | EWrap w c => acnt w c d
  | EStackPop => take Main 1 d
  | EPeek i => if i <? fst d then Some d else None
  | EPopDyn _ _ | EWrapDyn _ _ | ELen _ | ERead _ | ECopy | EAuxVal | EFunCall | EBad => None
  end.

(* conditions whose value is fixed by the arities / by the credit alone *)
Fixpoint cstatic (c : cond) (d : cr) : option bool :=
  match c with
  | CExpr _ => None
  | CLenGt n => if n <? fst d then Some true else None
  | CArityCmp f op n => Some (cmp_nat op (nth f ar 0) n)
  | CAnd a b =>
    match cstatic a d with
    | Some true => cstatic b d
    | Some false => Some false
    | None => None
    end
  | COr a b =>
    match cstatic a d with
    | Some true => Some true
    | Some false => cstatic b d
    | None => None
    end
  | CNot a => option_map negb (cstatic a d)
  end.

Fixpoint acond (c : cond) (d : cr) : option cr :=
  match cstatic c d with
  | Some _ => Some d
  | None =>
    match c with
    | CExpr e => aexpr e d
    | CLenGt _ => None
    | CArityCmp _ _ _ => Some d
    | CAnd a b | COr a b =>
      obind (acond a d) (fun d1 => obind (acond b d1) (fun d2 => Some (cr_min d1 d2)))
    | CNot a => acond a d
    end
  end.

Fixpoint astmt (t : stmt) (d : cr) : option cr :=
  match t with
  | SSkip | SRaise => Some d
  | SSeq a b => obind (astmt a d) (astmt b)
  | SEval e | SAssign _ e | SUnpack _ e | SExtend e => aexpr e d
  | SPush e => obind (aexpr e d) (fun d1 => Some (S (fst d1), snd d1))
  | SCopyAux => Some (fst d, fst d)
  | SIf c a b =>
    match cstatic c d with
    | Some true => astmt a d
    | Some false => astmt b d
    | None =>
      obind (acond c d) (fun d1 =>
      obind (astmt a d1) (fun da =>
      obind (astmt b d1) (fun db => Some (cr_min da db))))
    end
  | SWhile c b =>
    obind (acond c d) (fun d1 =>
    obind (astmt b d1) (fun d2 => if cr_leb d d2 then Some d1 else None))
  | SOpaque m => if m then None else Some d
  end.

(* the template, started with k entries above the frame, never reads or writes below them *)
Definition frame_ok (t : stmt) (k : nat) : bool :=
  match astmt t (k, 0) with Some _ => true | None => false end.

End Abs.

(* ---------------------------------------------------------------- the documented whole-stack family *)

(* documents/knowledge/elements.yaml:
     W  "Wrap: Stack wrapped into a list"          ^  "Reverse Stack: Reverse the stack."
     !  "Stack Length: Push the length of the stack"
     „  "Rotate Stack Left"                         ‟  "Rotate Stack Right"
     Ȯ  "Over: Push the second-last item of stack to the top"
     †  "Function Call: Calls a function / executes as python / ..."
     Ė  "Vyxal Exec / Reciprocal: Executes as Vyxal / ..."
   modifier
     ß  "Conditional Execute: Executes element A if the top of the stack is truthy" (arity "1 + *")
   Nothing else is documented as operating on the stack as a whole (`¨ẇ` has no entry at all). *)
Definition whole_stack_elements : list str :=
  [ [87]%N; [94]%N; [33]%N; [8222]%N; [8223]%N; [558]%N; [8224]%N; [278]%N ].
Definition whole_stack_modifiers : list str := [ [223]%N ].

(* what a modifier applied to operands of arities nA, nB consumes (elements.yaml gives the
   modifiers' arity as that of the operand, "*"; reduce/scan take one list):
     & v ~ : nA      ₌ ₍ : max nA nB      ƒ ɖ : 1      ß : 1 + nA      (anything new: nA) *)
Definition mod_consumed (key : str) (nA nB : nat) : nat :=
  if mem_str key [ [8332]%N; [8333]%N ] then Nat.max nA nB
  else if mem_str key [ [402]%N; [598]%N ] then 1
  else if mem_str key [ [223]%N ] then S nA
  else nA.

(* an instance: an element, or a modifier applied to operands of given arities *)
Record inst := { i_key : str; i_modifier : bool; i_ar : list nat; i_k : nat; i_tmpl : stmt }.

Definition inst_of_elem (e : tentry) : inst :=
  {| i_key := t_key e; i_modifier := false; i_ar := []; i_k := t_arity e; i_tmpl := t_tmpl e |}.

Definition inst_of_mod (m : tentry) (ab : nat * nat) : inst :=
  {| i_key := t_key m; i_modifier := true; i_ar := [fst ab; snd ab];
     i_k := mod_consumed (t_key m) (fst ab) (snd ab); i_tmpl := t_tmpl m |}.

Definition arity_range : list nat := [0; 1; 2; 3; 4].
Definition arity_pairs : list (nat * nat) := list_prod arity_range arity_range.

Definition all_instances (elements modifiers : list tentry) : list inst :=
  map inst_of_elem elements ++ flat_map (fun m => map (inst_of_mod m) arity_pairs) modifiers.

Definition whole_stack_listed (i : inst) : bool :=
  mem_str (i_key i) (if i_modifier i then whole_stack_modifiers else whole_stack_elements).

Definition inst_frame_ok (i : inst) : bool := frame_ok (i_ar i) (i_tmpl i) (i_k i).

(* the table obligation: every instance is a documented whole-stack operation, a
   recorded finding (Gen: c09_known), or provably confined to its own arguments *)
Definition inst_ok (known : list str) (i : inst) : bool :=
  whole_stack_listed i || (negb (i_modifier i) && mem_str (i_key i) known) || inst_frame_ok i.

Definition arities_in_range (elements : list tentry) : bool :=
  forallb (fun e => existsb (Nat.eqb (t_arity e)) arity_range) elements.
