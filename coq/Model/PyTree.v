(* Block structure of Python code, as far as the context conditions of C02 need it, and
   those conditions.  Shared by the generated template shapes (Gen/TemplateShapes.v, read
   from each template with Python's own `ast`) and by Model/PyShape.v. *)
From Coq Require Import List Bool.
Import ListNotations.

Inductive bkind := BDef | BLoop | BIf | BElse.

Inductive pyn :=
| NSimple                       (* any simple statement *)
| NBreak | NContinue | NReturn
| NBad                          (* text that Python's parser rejects *)
| NBlock (k : bkind) (body : list pyn).

(* break/continue need an enclosing loop (not across a def), return an enclosing def,
   suites are non-empty, an `else` suite directly follows an `if` suite *)
Fixpoint wf (in_loop in_def : bool) (n : pyn) : bool :=
  let wfl := fix wfl (il idf : bool) (prev_if : bool) (l : list pyn) : bool :=
    match l with
    | [] => true
    | x :: r =>
        (match x with NBlock BElse _ => prev_if | _ => true end)
        && wf il idf x
        && wfl il idf (match x with NBlock BIf _ => true | _ => false end) r
    end in
  match n with
  | NSimple => true
  | NBreak | NContinue => in_loop
  | NReturn => in_def
  | NBad => false
  | NBlock k body =>
      negb (match body with [] => true | _ => false end)
      && match k with
         | BDef => wfl false true false body
         | BLoop => wfl true in_def false body
         | BIf | BElse => wfl in_loop in_def false body
         end
  end.

Fixpoint wf_list (in_loop in_def : bool) (prev_if : bool) (l : list pyn) : bool :=
  match l with
  | [] => true
  | x :: r =>
      (match x with NBlock BElse _ => prev_if | _ => true end)
      && wf in_loop in_def x
      && wf_list in_loop in_def (match x with NBlock BIf _ => true | _ => false end) r
  end.

(* a whole module: at least one statement *)
Definition py_wf (l : list pyn) : bool :=
  negb (match l with [] => true | _ => false end) && wf_list false false false l.

Fixpoint pyn_eqb (a b : pyn) : bool :=
  let eql := fix eql (x y : list pyn) : bool :=
    match x, y with
    | [], [] => true
    | p :: x', q :: y' => pyn_eqb p q && eql x' y'
    | _, _ => false
    end in
  match a, b with
  | NSimple, NSimple | NBreak, NBreak | NContinue, NContinue | NReturn, NReturn | NBad, NBad => true
  | NBlock k1 b1, NBlock k2 b2 =>
      (match k1, k2 with BDef, BDef | BLoop, BLoop | BIf, BIf | BElse, BElse => true | _, _ => false end)
      && eql b1 b2
  | _, _ => false
  end.
Fixpoint pyn_list_eqb (x y : list pyn) : bool :=
  match x, y with
  | [], [] => true
  | p :: x', q :: y' => pyn_eqb p q && pyn_list_eqb x' y'
  | _, _ => false
  end.
