(* Demand model of property C14: lazy-list transformations as pull machines.

   An infinite source is a function [nat -> I].  A transformation is a machine that
   consumes one pulled item at a time and emits zero or more outputs for it, possibly
   with outputs that are available before anything is pulled ([pre]) and with a
   construction-time demand ([warm]: the state in which the constructor of the Python
   object has returned, e.g. [head_remove] tests [bool(lhs)] first).  [run_until n fuel]
   mirrors the scheduling of a CPython generator that is asked for its first n items:
   it resumes the generator body (one more pull of the source, [step]) only while fewer
   than n items have been yielded, and reports the outputs AND the number of pulls.

   Each machine below transcribes one generator of /repo/vyxal/elements.py or
   helpers.py (named in its comment).  No proofs in this file. *)
From Coq Require Import List ZArith Bool Arith.
Import ListNotations.

Set Implicit Arguments.

Record machine (I O : Type) : Type := Machine {
  st : Type;                       (* local variables of the generator frame *)
  init : st;
  pre : list O;                    (* yielded before the first pull *)
  warm : st -> bool;               (* constructor has returned *)
  step : st -> I -> st * list O }. (* one pull: new frame, items yielded for it *)

(* ---- running a machine ---------------------------------------------------- *)
Definition feed_step {I O} (m : machine I O) (p : st m * list O) (x : I) : st m * list O :=
  let (s', os) := step m (fst p) x in (s', snd p ++ os).
Definition feed_from {I O} (m : machine I O) (p : st m * list O) (l : list I) : st m * list O :=
  fold_left (feed_step m) l p.
(* frame and everything yielded after the items of l have been pulled *)
Definition feed {I O} (m : machine I O) (l : list I) : st m * list O :=
  feed_from m (init m, pre m) l.

Definition prefix {A} (src : nat -> A) (k : nat) : list A := map src (seq 0 k).
Definition trace {I O} (m : machine I O) (src : nat -> I) (k : nat) : st m * list O :=
  feed m (prefix src k).

Inductive result (O : Type) : Type :=
| Done (outs : list O) (pulls : nat)
| OutOfFuel.
Arguments OutOfFuel {O}.

Fixpoint run_loop {I O} (m : machine I O) (src : nat -> I) (n fuel : nat)
         (s : st m) (k : nat) (acc : list O) : result O :=
  if (n <=? length acc) && warm m s then Done (firstn n acc) k
  else match fuel with
       | 0 => OutOfFuel
       | S f => let (s', os) := step m s (src k) in run_loop m src n f s' (S k) (acc ++ os)
       end.
Definition run_until {I O} (m : machine I O) (src : nat -> I) (n fuel : nat) : result O :=
  run_loop m src n fuel (init m) 0 (pre m).

Definition pulls_of {O} (r : result O) : option nat :=
  match r with Done _ k => Some k | OutOfFuel => None end.
Definition outputs_of {O} (r : result O) : option (list O) :=
  match r with Done o _ => Some o | OutOfFuel => None end.

(* ---- composition: the second machine pulls the items the first one yields ---- *)
Definition comp {I M O} (m1 : machine I M) (m2 : machine M O) : machine I O :=
  let start := feed m2 (pre m1) in
  @Machine I O (st m1 * st m2) (init m1, fst start) (snd start)
    (fun s => warm m1 (fst s) && warm m2 (snd s))
    (fun s x => let (s1, os1) := step m1 (fst s) x in
                let r := feed_from m2 (snd s, []) os1 in
                ((s1, fst r), snd r)).

(* ---- the catalogue -------------------------------------------------------- *)
Definition always {A} (_ : A) : bool := true.

(* one output per pulled item, computed from the item and its index:
   `for i, x in enumerate(lhs): yield g(i, x)` *)
Definition m_imap {I O} (g : nat -> I -> O) : machine I O :=
  @Machine I O nat 0 [] always (fun i x => (S i, [g i x])).
(* vy_map: for element in itr: yield safe_apply(function, element);
   vectorise (list, scalar): (f(x, rhs) for x in lhs) *)
Definition m_map {I O} (f : I -> O) : machine I O := m_imap (fun _ x => f x).
(* vy_zip with an infinite right operand; vectorise (list, list) = zip then apply *)
Definition m_zipwith {I J O} (g : I -> J -> O) (other : nat -> J) : machine I O :=
  m_imap (fun i x => g x (other i)).
Definition m_zip {I J} (other : nat -> J) : machine I (I * J) := m_zipwith pair other.
Definition m_vec_add (other : nat -> Z) : machine Z Z := m_zipwith Z.add other.
(* vy_enumerate *)
Definition m_enumerate {I} : machine I (nat * I) := m_imap (fun i x => (i, x)).
(* merge(lhs, scalar) = concat(lhs, [scalar]): the appended item is never reached *)
Definition m_append {I} : machine I I := m_imap (fun _ x => x).
(* insert_or_map_nth with a function: f on every k-th item *)
Definition m_map_nth {I} (k : nat) (f : I -> I) : machine I I :=
  m_imap (fun i x => if i mod k =? 0 then f x else x).
(* wrap with a function: f on every second item, starting with the second *)
Definition m_map_alt {I} (f : I -> I) : machine I I :=
  m_imap (fun i x => if Nat.odd i then f x else x).

(* vy_zip(finite list, source) / vy_zip(source, finite list): after the finite operand ends
   every output is padded with 0 and still needs exactly one pull of the source;
   the dyadic vectorised operations pair their operands through vy_zip *)
Definition m_zip_fin_l {I J} (pad : J) (fin : list J) : machine I (J * I) :=
  m_imap (fun i x => (nth i fin pad, x)).
Definition m_zip_fin_r {I J} (pad : J) (fin : list J) : machine I (I * J) :=
  m_imap (fun i x => (x, nth i fin pad)).
Definition m_vec_fin (op : Z -> Z -> Z) (fin : list Z) : machine Z Z :=
  m_imap (fun i x => op (nth i fin 0%Z) x).

(* at most one output per pulled item: `for i, x in enumerate(lhs): if ...: yield ...` *)
Definition pick1 {O} (o : option O) : list O := match o with Some y => [y] | None => [] end.
Definition m_pick {I O} (g : nat -> I -> option O) : machine I O :=
  @Machine I O nat 0 [] always (fun i x => (S i, pick1 (g i x))).
(* vy_filter / LazyList.filter *)
Definition m_filter {I} (p : I -> bool) : machine I I :=
  m_pick (fun _ x => if p x then Some x else None).
(* LazyList.__getitem__(slice(o, None)): has_ind(o) pulls o+1 items, then one per item *)
Definition m_slice {I} (o : nat) : machine I I :=
  m_pick (fun i x => if i <? o then None else Some x).
(* LazyList.__getitem__(slice(a, None, s)): item a, a+s, a+2s, ... *)
Definition m_stride {I} (a s : nat) : machine I I :=
  m_pick (fun i x => if (a <=? i) && ((i - a) mod s =? 0) then Some x else None).
(* remove_at_index: (item for i, item in enumerate(lhs) if i != p) *)
Definition m_remove_at {I} (p : nat) : machine I I :=
  m_pick (fun i x => if i =? p then None else Some x).
(* truthy_indices *)
Definition m_truthy : machine Z nat :=
  m_pick (fun i x => if Z.eqb x 0 then None else Some i).
(* head_remove: `lhs[1:] if lhs else []` -- bool(lhs) pulls one item in the constructor *)
Definition m_head_remove {I} : machine I I :=
  @Machine I I nat 0 [] (fun i => 1 <=? i) (fun i x => (S i, pick1 (if i <? 1 then None else Some x))).

(* any number of outputs per pulled item *)
Definition m_multi {I O} (g : nat -> I -> list O) : machine I O :=
  @Machine I O nat 0 [] always (fun i x => (S i, g i x)).
(* interleave(source, infinite other): yield next(lhs); yield next(rhs) *)
Definition m_interleave {I} (other : nat -> I) : machine I I :=
  m_multi (fun i x => [x; other i]).
(* interleave(infinite other, source): other's item comes first, without a pull *)
Definition m_interleave_r {I} (other : nat -> I) : machine I I :=
  @Machine I I nat 0 [other 0] always (fun i x => (S i, [x; other (S i)])).
(* insert_or_map_nth with a value: `if i == p: yield v` before the item *)
Definition m_insert_at {I} (p : nat) (v : I) : machine I I :=
  m_multi (fun i x => if i =? p then [v; x] else [x]).
(* flatten_by 1 / deep_flatten of a list of flat rows *)
Definition m_flatten {A} : machine (list A) A := m_multi (fun _ x => x).

(* prepend / merge(finite list, source): the finite items are yielded without a pull *)
Definition m_prepend_list {I} (vs : list I) : machine I I :=
  @Machine I I unit tt vs always (fun _ x => (tt, [x])).
Definition m_prepend {I} (v : I) : machine I I := m_prepend_list [v].

(* helpers.prefixes: temp.append(item); yield temp *)
Definition m_prefixes {I} : machine I (list I) :=
  @Machine I (list I) (list I) [] [] always (fun acc x => (acc ++ [x], [acc ++ [x]])).

(* helpers.scanl: the accumulator is yielded only after the NEXT item was pulled *)
Definition m_scanl {A} (f : A -> A -> A) : machine A A :=
  @Machine A A (option A) None [] always
    (fun w x => match w with None => (Some x, []) | Some a => (Some (f a x), [a]) end).
Definition m_cumsum : machine Z Z := m_scanl Z.add.

(* deltas: `if prev is not None: yield item - prev; prev = item` *)
Definition m_pairwise {I O} (g : I -> I -> O) : machine I O :=
  @Machine I O (option I) None [] always
    (fun p x => (Some x, match p with None => [] | Some a => [g a x] end)).
Definition m_deltas : machine Z Z := m_pairwise (fun a x => (x - a)%Z).

(* overlapping_groups: window.append(item); if len(window) == k: yield window; window = window[1:] *)
Definition m_windows {I} (k : nat) : machine I (list I) :=
  @Machine I (list I) (list I) [] [] always
    (fun w x => let w' := w ++ [x] in if length w' =? k then (tl w', [w']) else (w', [])).

(* wrap: temp.append(item); if len(temp) == k: yield temp; temp = [] *)
Definition m_chunks {I} (k : nat) : machine I (list I) :=
  @Machine I (list I) (list I) [] [] always
    (fun t x => let t' := t ++ [x] in if length t' =? k then ([], [t']) else (t', [])).

(* uniquify / union(source, finite): `if item not in seen: yield item; seen.append(item)` *)
Definition m_uniquify {I} (eqb : I -> I -> bool) : machine I I :=
  @Machine I I (list I) [] [] always
    (fun seen x => if existsb (eqb x) seen then (seen, []) else (seen ++ [x], [x])).
(* uniquify_mask: 1 for a first occurrence, 0 otherwise *)
Definition m_uniq_mask {I} (eqb : I -> I -> bool) : machine I bool :=
  @Machine I bool (list I) [] [] always
    (fun seen x => if existsb (eqb x) seen then (seen, [false]) else (seen ++ [x], [true])).

(* interleave(source, finite list): after the finite list runs out, `yield from lhs_iter` *)
Definition m_interleave_fin {I} (fin : list I) : machine I I :=
  @Machine I I (list I) fin [] always
    (fun r x => match r with f :: r' => (r', [x; f]) | [] => ([], [x]) end).

(* first occurrences, in order of appearance *)
Fixpoint uniq_rev {I} (eqb : I -> I -> bool) (r : list I) : list I :=
  match r with
  | [] => []
  | x :: r' => let u := uniq_rev eqb r' in if existsb (eqb x) u then u else u ++ [x]
  end.
Definition uniq {I} (eqb : I -> I -> bool) (l : list I) : list I := uniq_rev eqb (rev l).

(* interleave(finite list, source): the finite list's first item comes for free, then
   source item, finite item, ...; `yield from rhs_iter` once the finite list ran out *)
Definition m_interleave_fin_r {I} (fin : list I) : machine I I :=
  @Machine I I (list I) (tl fin) (firstn 1 fin) always
    (fun r x => match r with f :: r' => (r', [x; f]) | [] => ([], [x]) end).

(* union(finite list, source): the finite list's distinct items first, then the unseen source items *)
Definition m_union_fin_l {I} (eqb : I -> I -> bool) (fin : list I) : machine I I :=
  @Machine I I (list I) (uniq eqb fin) (uniq eqb fin) always
    (fun seen x => if existsb (eqb x) seen then (seen, []) else (seen ++ [x], [x])).

(* group_consecutive on a lazy list: prev = lhs[0] is pulled by the first resumption;
   `if not lhs` in the constructor pulls one item *)
Definition m_group {I} (eqb : I -> I -> bool) : machine I (list I) :=
  @Machine I (list I) (option (I * nat)) None []
    (fun s => match s with None => false | Some _ => true end)
    (fun s x => match s with
                | None => (Some (x, 1), [])
                | Some (p, c) => if eqb p x then (Some (p, S c), [])
                                 else (Some (x, 1), [repeat p c])
                end).

(* ---- mathematical definitions of the transformations on streams ------------- *)
Definition window {I} (src : nat -> I) (k i : nat) : list I := prefix (fun j => src (i + j)) k.
Definition chunk {I} (src : nat -> I) (k i : nat) : list I := prefix (fun j => src (i * k + j)) k.
Definition partial {A} (f : A -> A -> A) (src : nat -> A) (i : nat) : A :=
  fold_left f (map src (seq 1 i)) (src 0).
Definition interleaved {I} (a b : nat -> I) (i : nat) : I :=
  if i mod 2 =? 0 then a (i / 2) else b (i / 2).
Definition picks {I O} (g : nat -> I -> option O) (src : nat -> I) (k : nat) : list O :=
  flat_map (fun i => pick1 (g i (src i))) (seq 0 k).
Definition multis {I O} (g : nat -> I -> list O) (src : nat -> I) (k : nat) : list O :=
  flat_map (fun i => g i (src i)) (seq 0 k).
(* ---- bounds ------------------------------------------------------------------ *)
(* f n pulled items always suffice for n outputs, whatever the items are *)
Definition bounded {I O} (m : machine I O) (f : nat -> nat) : Prop :=
  forall (l : list I) n, f n <= length l ->
    n <= length (snd (feed m l)) /\ warm m (fst (feed m l)) = true.
Definition lin_bounded {I O} (m : machine I O) (a b : nat) : Prop :=
  bounded m (fun n => a * n + b).
(* exact demand on a given source: these outputs, this many pulls, for any sufficient fuel *)
Definition exact {I O} (m : machine I O) (src : nat -> I) (n : nat) (outs : list O) (k : nat) : Prop :=
  forall fuel, k <= fuel -> run_until m src n fuel = Done outs k.

(* ---- the catalogue over one value universe, for the correspondence ------------ *)
Inductive val : Type := VZ (z : Z) | VL (l : list val).

Fixpoint val_eqb (a b : val) : bool :=
  match a, b with
  | VZ x, VZ y => Z.eqb x y
  | VL l, VL m =>
      (fix go (l m : list val) : bool :=
         match l, m with
         | [], [] => true
         | x :: l', y :: m' => val_eqb x y && go l' m'
         | _, _ => false
         end) l m
  | _, _ => false
  end.
Fixpoint vals_eqb (l m : list val) : bool :=
  match l, m with
  | [], [] => true
  | x :: l', y :: m' => val_eqb x y && vals_eqb l' m'
  | _, _ => false
  end.

Fixpoint vsum (v : val) : Z :=
  match v with
  | VZ z => z
  | VL l => (fix go (l : list val) : Z := match l with [] => 0%Z | x :: r => (vsum x + go r)%Z end) l
  end.
Fixpoint vleaves (v : val) : list val :=
  match v with
  | VZ z => [VZ z]
  | VL l => (fix go (l : list val) : list val := match l with [] => [] | x :: r => vleaves x ++ go r end) l
  end.
(* flatten_by: a list flattened by k levels (0: as it is); an item that is not a list stays *)
Fixpoint vflat (k : nat) (l : list val) : list val :=
  match k with
  | 0 => l
  | S k' => flat_map (fun y => match y with VL l' => vflat k' l' | VZ _ => [y] end) l
  end.
(* what flatten_by with depth S k' yields for one pulled item *)
Definition vflat_item (k' : nat) (x : val) : list val :=
  match x with VL l => vflat k' l | VZ _ => [x] end.
Definition zof (v : val) : Z := match v with VZ z => z | VL _ => 0%Z end.
Definition vnat (i : nat) : val := VZ (Z.of_nat i).
Definition vpair (a b : val) : val := VL [a; b].
Definition counting (o : Z) (i : nat) : val := VZ (o + Z.of_nat i).

Inductive stage : Type :=
| SMapAffine (a b : Z) | SMapSum | SFilterMod (m r : Z)
| SZipL (o : Z) | SZipR (o : Z)
| SInterleaveL (o : Z) | SInterleaveR (o : Z) | SInterleaveFin (l : list Z)
| SPrefixes | SCumsum | SDeltas | SWindows (k : nat) | SChunks (k : nat)
| SFlatten | SUniquify | SUniqMask | SEnumerate
| SPrepend (v : Z) | SAppend | SMergeFin (l : list Z)
| SSlice (o : nat) | SStride (a s : nat) | SHeadRemove
| SAddScalar (c : Z) | SAddList (o : Z)
| SGroup | SInsertAt (p : nat) (v : Z) | SRemoveAt (p : nat) | STruthy
| SMapNth (k : nat) | SMapAlt
| SZipFinL (l : list Z) | SZipFinR (l : list Z)
| SAddFin (l : list Z) | SMulFin (l : list Z) | SSubFinL (l : list Z) | SSubFinR (l : list Z)
| SInterleaveFinR (l : list Z) | SUnionFinL (l : list Z) | SFilterNotIn (l : list Z)
| SFlattenBy (d : nat).

Definition vneg (v : val) : val := VZ (- zof v).

Definition stage_machine (s : stage) : machine val val :=
  match s with
  | SMapAffine a b => m_map (fun v => VZ (a * zof v + b))
  | SMapSum => m_map (fun v => VZ (vsum v))
  | SFilterMod m r => m_filter (fun v => Z.eqb (vsum v mod m) r)
  | SZipL o => m_zipwith vpair (counting o)
  | SZipR o => m_zipwith (fun x y => vpair y x) (counting o)
  | SInterleaveL o => m_interleave (counting o)
  | SInterleaveR o => m_interleave_r (counting o)
  | SInterleaveFin l => m_interleave_fin (map VZ l)
  | SPrefixes => comp m_prefixes (m_map VL)
  | SCumsum => m_scanl (fun a x => VZ (zof a + zof x))
  | SDeltas => m_pairwise (fun a x => VZ (zof x - zof a))
  | SWindows k => comp (m_windows k) (m_map VL)
  | SChunks k => comp (m_chunks k) (m_map VL)
  | SFlatten => comp (m_map vleaves) m_flatten
  | SUniquify => m_uniquify val_eqb
  | SUniqMask => comp (m_uniq_mask val_eqb) (m_map (fun b : bool => VZ (if b then 1 else 0)))
  | SEnumerate => comp m_enumerate (m_map (fun p : nat * val => vpair (vnat (fst p)) (snd p)))
  | SPrepend v => m_prepend (VZ v)
  | SAppend => m_append
  | SMergeFin l => m_prepend_list (map VZ l)
  | SSlice o => m_slice o
  | SStride a s => m_stride a s
  | SHeadRemove => m_head_remove
  | SAddScalar c => m_map (fun v => VZ (zof v + c))
  | SAddList o => m_zipwith (fun x y => VZ (zof x + zof y)) (counting o)
  | SGroup => comp (m_group val_eqb) (m_map VL)
  | SInsertAt p v => m_insert_at p (VZ v)
  | SRemoveAt p => m_remove_at p
  | STruthy => comp (m_map zof) (comp m_truthy (m_map vnat))
  | SMapNth k => m_map_nth k vneg
  | SMapAlt => m_map_alt vneg
  | SZipFinL l => m_imap (fun i x => vpair (VZ (nth i l 0%Z)) x)
  | SZipFinR l => m_imap (fun i x => vpair x (VZ (nth i l 0%Z)))
  | SAddFin l => m_imap (fun i x => VZ (nth i l 0%Z + zof x))
  | SMulFin l => m_imap (fun i x => VZ (nth i l 0%Z * zof x))
  | SSubFinL l => m_imap (fun i x => VZ (nth i l 0%Z - zof x))
  | SSubFinR l => m_imap (fun i x => VZ (zof x - nth i l 0%Z))
  | SInterleaveFinR l => m_interleave_fin_r (map VZ l)
  | SUnionFinL l => m_union_fin_l val_eqb (map VZ l)
  | SFilterNotIn l => m_filter (fun v => negb (existsb (val_eqb v) (map VZ l)))
  (* flatten_by: depth 0 hands the list back; otherwise every pulled item is flattened by d-1 *)
  | SFlattenBy d => match d with 0 => m_append | S k' => m_multi (fun _ x => vflat_item k' x) end
  end.

(* m, then each machine of rest in turn, every one pulling from its predecessor *)
Fixpoint chain {V} (m : machine V V) (rest : list (machine V V)) : machine V V :=
  match rest with
  | [] => m
  | m' :: rest' => comp m (chain m' rest')
  end.
Definition pipeline (s : stage) (rest : list stage) : machine val val :=
  chain (stage_machine s) (map stage_machine rest).

(* sources of the correspondence: a table read cyclically, shifted by c every period *)
Definition table_source (t : list Z) (c : Z) (i : nat) : val :=
  let len := length t in
  VZ (nth (i mod len) t 0%Z + c * Z.of_nat (i / len)).

(* one measured case: stages, n, fuel; measured pulls and outputs *)
Definition agrees (t : list Z) (c : Z) (s : stage) (rest : list stage) (n fuel : nat)
           (pulls : nat) (outs : list val) : bool :=
  match run_until (pipeline s rest) (table_source t c) n fuel with
  | Done o k => (k =? pulls) && vals_eqb o outs
  | OutOfFuel => false
  end.
