(* Model for property C17: naive, executable reference definitions of the
   number-theory builtins of vyxal/elements.py (is_prime, prime_factors,
   prime_factorisation, divisors_or_prefixes, vy_gcd, lowest_common_multiple,
   factorial, n_choose_r, totient, next_prime, vy_bin / vy_int(.,2), vy_hex,
   the four ranges, digits / digit sum, double / halve, square / square_root).
   Integers are Z, characters N, fuel nat.  No proofs here. *)
From Coq Require Import List ZArith NArith Bool.
Import ListNotations.
Open Scope Z_scope.

(* ---- lists of integers ---------------------------------------------------- *)
(* [lo; lo+1; ...] of the given length: Python's range(lo, lo+len) *)
Fixpoint zrange (lo : Z) (len : nat) : list Z :=
  match len with O => [] | S k => lo :: zrange (lo + 1) k end.

Definition prod (l : list Z) : Z := fold_right Z.mul 1 l.
Definition zsum (l : list Z) : Z := fold_right Z.add 0 l.

(* ---- primality by trial division up to the square root -------------------- *)
(* least d' >= d with d' | n, looking only while d'*d' <= n; n itself otherwise.
   Out of fuel answers n, which the proofs show is only reached when d*d > n. *)
Fixpoint least_div_from (fuel : nat) (n d : Z) : Z :=
  match fuel with
  | O => n
  | S f => if n <? d * d then n
           else if n mod d =? 0 then d
           else least_div_from f n (d + 1)
  end.
Definition sqrt_fuel (n : Z) : nat := S (Z.to_nat (Z.sqrt n)).
Definition least_div (n : Z) : Z := least_div_from (sqrt_fuel n) n 2.
Definition is_prime (n : Z) : bool := (2 <=? n) && (least_div n =? n).

(* ---- prime factors with multiplicity, ascending --------------------------- *)
(* out of fuel answers [] (wrong for n > 1); the proofs show factor_fuel suffices.
   n <= 1 gives []: the empty product for 1; 0 has no factorisation (excluded). *)
Fixpoint factor_from (fuel : nat) (n d : Z) : list Z :=
  match fuel with
  | O => []
  | S f => if n <=? 1 then []
           else if n <? d * d then [n]
           else if n mod d =? 0 then d :: factor_from f (n / d) d
           else factor_from f n (d + 1)
  end.
Definition factor_fuel (n : Z) : nat := S (Z.to_nat (Z.sqrt n + Z.log2 n)).
Definition prime_factors (n : Z) : list Z := factor_from (factor_fuel n) n 2.
Definition distinct_prime_factors (n : Z) : list Z := nodup Z.eq_dec (prime_factors n).

(* ---- divisors -------------------------------------------------------------- *)
Definition divisors (n : Z) : list Z :=
  filter (fun d => n mod d =? 0) (zrange 1 (Z.to_nat n)).

(* ---- gcd, lcm --------------------------------------------------------------- *)
Definition gcd (a b : Z) : Z := Z.gcd a b.
Definition lcm (a b : Z) : Z := Z.lcm a b.

(* ---- factorial, binomial ---------------------------------------------------- *)
Fixpoint fact_nat (k : nat) : Z :=
  match k with O => 1 | S j => Z.of_nat (S j) * fact_nat j end.
Definition factorial (n : Z) : Z := fact_nat (Z.to_nat n).

(* Pascal's triangle, row by row; positions beyond the end read 0 *)
Fixpoint zipadd (a b : list Z) : list Z :=
  match a, b with
  | [], _ => b
  | _, [] => a
  | x :: a', y :: b' => (x + y) :: zipadd a' b'
  end.
Fixpoint pascal_row (n : nat) : list Z :=
  match n with O => [1] | S m => let r := pascal_row m in zipadd (0 :: r) r end.
Definition binom_nat (n k : nat) : Z := nth k (pascal_row n) 0.
Definition binomial (n k : Z) : Z :=
  if (n <? 0) || (k <? 0) then 0 else binom_nat (Z.to_nat n) (Z.to_nat k).
(* binomial n 0 .. binomial n (len-1), sharing the row (equal to the map, proved) *)
Definition binomial_row (n : Z) (len : nat) : list Z :=
  if n <? 0 then repeat 0 len
  else let r := pascal_row (Z.to_nat n) in map (fun k => nth k r 0) (seq 0 len).

(* ---- Euler's totient: how many of 1..n are coprime to n --------------------- *)
Definition coprimes (n : Z) : list Z :=
  filter (fun k => Z.gcd k n =? 1) (zrange 1 (Z.to_nat n)).
Definition totient (n : Z) : Z := Z.of_nat (length (coprimes n)).

(* ---- next prime: linear search, None when the fuel runs out ----------------- *)
Fixpoint next_prime_from (fuel : nat) (m : Z) : option Z :=
  match fuel with
  | O => None
  | S f => if is_prime m then Some m else next_prime_from f (m + 1)
  end.
(* candidates n+1 .. 2n+2; enough by Bertrand's postulate (not proved here:
   the theorems are stated for the case that the search answers Some) *)
Definition next_prime_fuel (n : Z) : nat := Z.to_nat n + 2.
Definition next_prime (n : Z) : option Z := next_prime_from (next_prime_fuel n) (n + 1).

(* ---- positional notation ---------------------------------------------------- *)
(* least significant digit first; out of fuel answers [] *)
Fixpoint digits_lsb (fuel : nat) (b n : Z) : list Z :=
  match fuel with
  | O => []
  | S f => if n <? b then [n] else (n mod b) :: digits_lsb f b (n / b)
  end.
Definition digit_fuel (n : Z) : nat := S (Z.to_nat (Z.log2 n)).
(* most significant digit first, as Python's bin/hex/str print them *)
Definition to_digits (b n : Z) : list Z := rev (digits_lsb (digit_fuel n) b n).
Definition from_digits (b : Z) (l : list Z) : Z := fold_left (fun a d => a * b + d) l 0.

Definition to_bin (n : Z) : list Z := to_digits 2 n.
Definition from_bin (l : list Z) : Z := from_digits 2 l.

Definition hexchar (d : Z) : N := Z.to_N (if d <? 10 then 48 + d else 87 + d).
Definition hexval (c : N) : option Z :=
  let z := Z.of_N c in
  if (48 <=? z) && (z <=? 57) then Some (z - 48)
  else if (97 <=? z) && (z <=? 102) then Some (z - 87)
  else if (65 <=? z) && (z <=? 70) then Some (z - 55)
  else None.
Fixpoint hexvals (s : list N) : option (list Z) :=
  match s with
  | [] => Some []
  | c :: r => match hexval c, hexvals r with Some d, Some ds => Some (d :: ds) | _, _ => None end
  end.
Definition to_hex (n : Z) : list N := map hexchar (to_digits 16 n).
(* Python's int(s, 16) on a plain digit string; None = ValueError *)
Definition from_hex (s : list N) : option Z :=
  match s with
  | [] => None
  | _ => match hexvals s with Some ds => Some (from_digits 16 ds) | None => None end
  end.

Definition digits (n : Z) : list Z := to_digits 10 n.
Definition digit_sum (n : Z) : Z := zsum (digits n).

(* ---- ranges ----------------------------------------------------------------- *)
Definition inclusive_one_range (n : Z) : list Z := zrange 1 (Z.to_nat n).
Definition inclusive_zero_range (n : Z) : list Z := zrange 0 (Z.to_nat (n + 1)).
Definition exclusive_one_range (n : Z) : list Z := zrange 1 (Z.to_nat (n - 1)).
Definition exclusive_zero_range (n : Z) : list Z := zrange 0 (Z.to_nat n).

(* ---- double / halve, square / root ------------------------------------------ *)
Definition double (n : Z) : Z := 2 * n.
(* n/2 as a fraction in lowest terms (numerator, denominator) *)
Definition halve (n : Z) : Z * Z := if Z.even n then (n / 2, 1) else (n, 2).
Definition square (n : Z) : Z := n * n.
(* the integer root of a perfect square; None when n is not one (irrational root) *)
Definition sqrt_exact (n : Z) : option Z :=
  let r := Z.sqrt n in if r * r =? n then Some r else None.
